#!/bin/bash
# Build the framework from files on disk only (offline): Coq development (full .vo build), extracted models + OCaml
# drivers, Go harnesses against /repo's working tree.
set -e
cd "$(dirname "$0")"
export GOFLAGS=-mod=mod GOPROXY=off GOTOOLCHAIN=auto
unset GOSUMDB
mkdir -p build evidence
( cd coq && coq_makefile -f _CoqProject -o Makefile >/dev/null && timeout 6000 make -j16 >../build/coq-make.log 2>&1 ) || { tail -40 build/coq-make.log; exit 1; }
cp /repo/go.sum go/go.sum
PIDS=$(python3 -c "import sys; sys.path.insert(0,'lib'); from propcfg import PROPS; print(' '.join(k.lower() for k in PROPS))")
flags_of() { python3 -c "import sys; sys.path.insert(0,'$PWD/lib'); from propcfg import PROPS; print(' '.join(PROPS['$1'.upper()].get('go_build_flags', [])))"; }
for p in $PIDS; do
  ( ocaml/build.sh $p && cd go && go build -tags verif $(flags_of $p) -o ../build/h-$p ./$p ) &
done
wait
for p in $PIDS; do test -x build/drv-$p && test -x build/h-$p || { echo "setup: $p tools missing"; exit 1; }; done
echo setup ok
