From Verif Require Import C02.Model.
