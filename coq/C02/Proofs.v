(* C02 — lemmas: decimal text round trip, big.Int clamping, float64 conversions (truncation toward zero and saturation; exactness of
   AsFloat64 below 2^53 and its sign), narrowing predicates. *)
From Coq Require Import ZArith List Bool Lia.
From Verif Require Import common.Word64 common.Word64Facts C01.Model C01.ProofsArith C01.ProofsInt C03.Model C04.Model C04.Proofs C02.Model.
Import ListNotations.
Open Scope Z_scope.
Ltac Zify.zify_post_hook ::= Z.div_mod_to_equations.

(* ---- words and values *)
Lemma of_uval_uval u : wf u -> of_uval (uval u) = u.
Proof. destruct u as [h l]. unfold wf, of_uval, uval. cbn [hi lo]. intros [? ?]. f_equal; lia. Qed.
Lemma of_uval_wf v : wf (of_uval v).
Proof. unfold wf, of_uval. cbn [hi lo]. split; lia. Qed.
Lemma uval_of_uval v : uval (of_uval v) = v mod P128.
Proof. unfold uval, of_uval. cbn [hi lo]. lia. Qed.
Lemma sval_range i : wf i -> - (P128 / 2) <= sval i < P128 / 2.
Proof. destruct i as [h l]. unfold wf, sval, uval. cbn [hi lo]. intros [? ?]. destruct (SIGN <=? h) eqn:E; lia. Qed.
Lemma of_uval_sval i : wf i -> of_uval (sval i) = i.
Proof. destruct i as [h l]. unfold wf, of_uval, sval, uval. cbn [hi lo]. intros [? ?]. destruct (SIGN <=? h) eqn:E; f_equal; lia. Qed.
Lemma sval_of_uval v : - (P128 / 2) <= v < P128 / 2 -> sval (of_uval v) = v.
Proof. intro H. unfold sval, uval, of_uval. cbn [hi lo]. destruct (SIGN <=? v mod P128 / W) eqn:E; lia. Qed.

(* ---- big.Int *)
Theorem UFromBig_clamps z : wf (UFromBig z) /\ uval (UFromBig z) = Z.max 0 (Z.min z (P128 - 1)).
Proof.
  unfold UFromBig. destruct (z <? 0) eqn:A; [split; [unfold wf, zero; cbn; lia|unfold uval, zero; cbn; lia]|].
  destruct (P128 <=? z) eqn:B; [split; [unfold wf, MaxU; cbn; lia|unfold uval, MaxU; cbn; lia]|].
  split; [apply of_uval_wf|rewrite uval_of_uval; lia].
Qed.
Theorem IFromBig_clamps z : wf (IFromBig z) /\ sval (IFromBig z) = Z.max (- (P128 / 2)) (Z.min z (P128 / 2 - 1)).
Proof.
  unfold IFromBig. destruct (z <? - (P128 / 2)) eqn:A; [split; [unfold wf, MinI; cbn; lia|unfold sval, uval, MinI; cbn; lia]|].
  destruct (P128 / 2 <=? z) eqn:B; [split; [unfold wf, MaxI; cbn; lia|unfold sval, uval, MaxI; cbn; lia]|].
  split; [apply of_uval_wf|rewrite sval_of_uval; lia].
Qed.
Theorem big_round_trip u : wf u -> UFromBig (UAsBig u) = u /\ IFromBig (IAsBig u) = u.
Proof.
  intro H. pose proof (uval_range u H). pose proof (sval_range u H). unfold UFromBig, IFromBig, UAsBig, IAsBig. split.
  - destruct (uval u <? 0) eqn:A; [lia|]. destruct (P128 <=? uval u) eqn:B; [lia|]. apply of_uval_uval, H.
  - destruct (sval u <? - (P128 / 2)) eqn:A; [lia|]. destruct (P128 / 2 <=? sval u) eqn:B; [lia|]. apply of_uval_sval, H.
Qed.

(* ---- decimal text *)
Theorem text_round_trip u : wf u -> UFromString (UString u) = Some u /\ IFromString (IString u) = Some u.
Proof.
  intro H. pose proof (uval_range u H) as Ru. pose proof (sval_range u H) as Rs. destruct (big_round_trip u H) as [Bu Bi].
  unfold UFromString, IFromString, UString, IString. split.
  - assert (E : udec (uval u) = sdec (uval u)) by (unfold sdec; destruct (uval u <? 0) eqn:A; [lia|reflexivity]).
    rewrite E, parse_print_signed by (change (10 ^ 45) with 1000000000000000000000000000000000000000000000; lia). f_equal. exact Bu.
  - rewrite parse_print_signed by (change (10 ^ 45) with 1000000000000000000000000000000000000000000000; lia). f_equal. exact Bi.
Qed.

(* ---- float64 -> 128 bits: truncation toward zero, saturation *)
Definition fval_trunc (neg : bool) (m e : Z) : Z := if neg then - trunc_abs m e else trunc_abs m e.
(* the comparisons are on the exact value m * 2^e; for an integer bound they say this about the truncation *)
Lemma abs_le_true m e c : 0 <= m -> 0 <= c -> abs_le m e c = true -> trunc_abs m e <= c.
Proof.
  intros Hm Hc. unfold abs_le, trunc_abs. destruct (0 <=? e) eqn:E; [rewrite Z.leb_le; auto|].
  apply Z.leb_gt in E. assert (P : 0 < 2 ^ (- e)) by (apply Z.pow_pos_nonneg; lia). rewrite Z.leb_le. intro H.
  apply Z.div_le_upper_bound; lia.
Qed.
Lemma abs_le_false m e c : 0 <= m < 2 ^ 53 -> 2 ^ 53 <= c -> abs_le m e c = false -> 0 <= e /\ c < trunc_abs m e.
Proof.
  intros Hm Hc. unfold abs_le, trunc_abs. destruct (0 <=? e) eqn:E; [apply Z.leb_le in E; rewrite Z.leb_gt; auto|].
  apply Z.leb_gt in E. assert (P : 1 <= 2 ^ (- e)) by (assert (0 < 2 ^ (- e)) by (apply Z.pow_pos_nonneg; lia); lia). rewrite Z.leb_gt. intro H.
  change (2 ^ 53) with 9007199254740992 in *. nia.
Qed.
Lemma abs_lt_true m e c : 0 <= m -> 0 < c -> abs_lt m e c = true -> trunc_abs m e < c.
Proof.
  intros Hm Hc. unfold abs_lt, trunc_abs. destruct (0 <=? e) eqn:E; [rewrite Z.ltb_lt; auto|].
  apply Z.leb_gt in E. assert (P : 0 < 2 ^ (- e)) by (apply Z.pow_pos_nonneg; lia). rewrite Z.ltb_lt. intro H. apply Z.div_lt_upper_bound; lia.
Qed.
Lemma abs_lt_false m e c : 0 <= m < 2 ^ 53 -> 2 ^ 53 <= c -> abs_lt m e c = false -> 0 <= e /\ c <= trunc_abs m e.
Proof.
  intros Hm Hc. unfold abs_lt, trunc_abs. destruct (0 <=? e) eqn:E; [apply Z.leb_le in E; rewrite Z.ltb_ge; auto|].
  apply Z.leb_gt in E. assert (P : 1 <= 2 ^ (- e)) by (assert (0 < 2 ^ (- e)) by (apply Z.pow_pos_nonneg; lia); lia). rewrite Z.ltb_ge. intro H.
  change (2 ^ 53) with 9007199254740992 in *. nia.
Qed.

Lemma trunc_nonneg m e : 0 <= m -> 0 <= trunc_abs m e.
Proof.
  intro Hm. unfold trunc_abs. destruct (0 <=? e) eqn:E; [apply Z.leb_le in E; apply Z.mul_nonneg_nonneg; [lia|apply Z.pow_nonneg; lia]|apply Z.div_pos; [lia|apply Z.pow_pos_nonneg; lia]].
Qed.
Lemma trunc_small m e : 0 <= m -> e < 0 -> trunc_abs m e <= m.
Proof.
  intros Hm He. unfold trunc_abs. destruct (0 <=? e) eqn:E; [apply Z.leb_le in E; lia|]. assert (P : 0 < 2 ^ (- e)) by (apply Z.pow_pos_nonneg; lia).
  apply Z.div_le_upper_bound; [exact P|]. nia.
Qed.
(* no double lies strictly between 2^128 - 2^75 and 2^128 *)
Lemma no_double_in_the_gap m e : 0 <= m < 2 ^ 53 -> P128 - 2 ^ 75 < trunc_abs m e -> P128 <= trunc_abs m e.
Proof.
  intros Hm H. destruct (Z_lt_dec e 0) as [He|He].
  - pose proof (trunc_small m e ltac:(lia) He). change (2 ^ 53) with 9007199254740992 in Hm. change (2 ^ 75) with 37778931862957161709568 in H. lia.
  - unfold trunc_abs in *. destruct (0 <=? e) eqn:E; [|apply Z.leb_gt in E; lia]. destruct (Z_lt_dec e 75) as [Hs|Hb].
    + exfalso. assert (2 ^ e <= 2 ^ 74) by (apply Z.pow_le_mono_r; lia). change (2 ^ 74) with 18889465931478580854784 in *. change (2 ^ 53) with 9007199254740992 in Hm.
      change (2 ^ 75) with 37778931862957161709568 in H. assert (0 < 2 ^ e) by (apply Z.pow_pos_nonneg; lia). nia.
    + replace e with (75 + (e - 75)) in * by lia. rewrite Z.pow_add_r in * by lia. set (k := 2 ^ (e - 75)) in *. assert (0 < k) by (apply Z.pow_pos_nonneg; lia).
      change (2 ^ 75) with 37778931862957161709568 in *. change (2 ^ 53) with 9007199254740992 in Hm. nia.
Qed.

Theorem Uint128FromFloat64_spec neg m e : 0 <= m < 2 ^ 53 ->
  wf (Uint128FromFloat64 (FFin neg m e)) /\ uval (Uint128FromFloat64 (FFin neg m e)) = Z.max 0 (Z.min (fval_trunc neg m e) (P128 - 1)).
Proof.
  intro Hm. pose proof (trunc_nonneg m e ltac:(lia)) as T.
  unfold Uint128FromFloat64, fval_trunc. destruct neg; cbn [orb].
  - split; [unfold wf, zero; cbn; lia|unfold uval, zero; cbn; lia].
  - destruct (m =? 0) eqn:M.
    + apply Z.eqb_eq in M. subst. assert (trunc_abs 0 e = 0) by (unfold trunc_abs; destruct (0 <=? e) eqn:E0; [lia|apply Z.leb_gt in E0; apply Z.div_0_l; apply Z.pow_nonzero; lia]).
      split; [unfold wf, zero; cbn; lia|unfold uval, zero; cbn; lia].
    + destruct (abs_le m e (W - 2048)) eqn:A.
      * apply abs_le_true in A; [|lia|lia]. split; [unfold wf; cbn; lia|unfold uval; cbn; lia].
      * destruct (abs_le m e (P128 - 2 ^ 75)) eqn:B.
        -- apply abs_le_true in B; [|lia|change (2 ^ 75) with 37778931862957161709568; lia]. change (2 ^ 75) with 37778931862957161709568 in B.
           split; [unfold wf; cbn [hi lo]; lia|unfold uval; cbn [hi lo]; lia].
        -- split; [unfold wf, MaxU; cbn; lia|]. unfold uval, MaxU. cbn [hi lo].
           assert (NB : P128 - 2 ^ 75 < trunc_abs m e) by (apply (abs_le_false m e (P128 - 2 ^ 75)); [exact Hm|change (2 ^ 75) with 37778931862957161709568; change (2 ^ 53) with 9007199254740992; lia|exact B]).
           pose proof (no_double_in_the_gap m e Hm NB). lia.
Qed.

Theorem Int128FromFloat64_spec neg m e : 0 <= m < 2 ^ 53 ->
  wf (Int128FromFloat64 (FFin neg m e)) /\ sval (Int128FromFloat64 (FFin neg m e)) = Z.max (- (P128 / 2)) (Z.min (fval_trunc neg m e) (P128 / 2 - 1)).
Proof.
  intro Hm. pose proof (trunc_nonneg m e ltac:(lia)) as T. unfold Int128FromFloat64, fval_trunc.
  destruct (m =? 0) eqn:M.
  - apply Z.eqb_eq in M. subst. assert (Z0 : trunc_abs 0 e = 0) by (unfold trunc_abs; destruct (0 <=? e) eqn:E0; [lia|apply Z.leb_gt in E0; apply Z.div_0_l; apply Z.pow_nonzero; lia]).
    rewrite Z0. split; [unfold wf, zero; cbn; lia|unfold sval, uval, zero; cbn; destruct neg; lia].
  - set (t := trunc_abs m e) in *.
    set (pos := if abs_le m e (W - 2048) then mk 0 t else if abs_lt m e (P128 / 2) then mk (t / W) (t mod W) else MaxI).
    assert (P : wf pos /\ sval pos = Z.min t (P128 / 2 - 1) /\ (abs_lt m e (P128 / 2) = true -> t < P128 / 2)).
    { unfold pos. destruct (abs_le m e (W - 2048)) eqn:A.
      - apply abs_le_true in A; [|lia|lia]. fold t in A. split; [unfold wf; cbn; lia|]. split; [unfold sval, uval; cbn; lia|intros _; lia].
      - destruct (abs_lt m e (P128 / 2)) eqn:B.
        + apply abs_lt_true in B; [|lia|lia]. fold t in B. split; [unfold wf; cbn [hi lo]; lia|]. split; [|intros _; exact B].
          unfold sval, uval. cbn [hi lo]. destruct (SIGN <=? t / W) eqn:S; lia.
        + apply abs_lt_false in B; [|exact Hm|change (2 ^ 53) with 9007199254740992; lia]. fold t in B. split; [unfold wf, MaxI; cbn; lia|].
          split; [unfold sval, uval, MaxI; cbn; lia|discriminate]. }
    destruct P as (Wp & Sp & Lt). destruct neg; [|split; [exact Wp|lia]].
    destruct (abs_lt m e (P128 / 2)) eqn:B.
    + specialize (Lt eq_refl). destruct (Neg_spec pos Wp) as [Wn Sn]. split; [exact Wn|]. rewrite Sn, Sp. unfold ProofsInt.smod. lia.
    + apply abs_lt_false in B; [|exact Hm|change (2 ^ 53) with 9007199254740992; lia]. fold t in B. split; [unfold wf, MinI; cbn; lia|unfold sval, uval, MinI; cbn; lia].
Qed.

Theorem FromFloat64_specials :
  Uint128FromFloat64 FNaN = zero /\ Int128FromFloat64 FNaN = zero /\
  Uint128FromFloat64 (FInf false) = MaxU /\ Uint128FromFloat64 (FInf true) = zero /\ Int128FromFloat64 (FInf false) = MaxI /\ Int128FromFloat64 (FInf true) = MinI.
Proof. repeat split. Qed.

(* ---- 128 bits -> float64: exact below 2^53, with the right sign and no negative zero *)
Theorem AsFloat64_exact_below_2_53 u : wf u ->
  (uval u < 2 ^ 53 -> UAsFloat64 u = (false, uval u)) /\ (- 2 ^ 53 < sval u < 2 ^ 53 -> IAsFloat64 u = (false, sval u) \/ (sval u < 0 /\ IAsFloat64 u = (true, sval u))).
Proof.
  destruct u as [h l]. unfold wf, UAsFloat64, IAsFloat64, uval, sval, round53, P53. cbn [hi lo]. intros [Hh Hl]. change (2 ^ 53) with 9007199254740992. split.
  - intro H. assert (h = 0) by lia. subst. cbn. assert (E : l <? 9007199254740992 = true) by (apply Z.ltb_lt; lia). rewrite E. f_equal; lia.
  - intro H. destruct (SIGN <=? h) eqn:S; unfold uval in *; cbn [hi lo] in *.
    + right. apply Z.leb_le in S. assert (h = MAX64) by lia. subst h. split; [lia|]. change (MAX64 =? 0) with false. cbn [andb]. rewrite Z.eqb_refl. cbn [andb].
      destruct (l =? 0) eqn:L0; [apply Z.eqb_eq in L0; lia|]. cbn [negb]. unfold not64.
      assert (X : (MAX64 - l + 1) mod W = W - l) by (rewrite Z.mod_small by lia; lia). rewrite X.
      assert (E : W - l <? 9007199254740992 = true) by (apply Z.ltb_lt; lia). rewrite E. f_equal; lia.
    + left. apply Z.leb_gt in S. assert (h = 0) by lia. subst. cbn. assert (E : l <? 9007199254740992 = true) by (apply Z.ltb_lt; lia). rewrite E. f_equal; lia.
Qed.

(* ---- narrowing: the predicate holds exactly when the conversion keeps the value *)
Theorem narrowing_spec u : wf u ->
  (UIsInt128 u = true <-> sval u = uval u) /\ (UIsUint64 u = true <-> UAsUint64 u = uval u) /\
  (IIsUint128 u = true <-> uval u = sval u) /\ (IIsInt64 u = true <-> IAsInt64 u = sval u) /\ (IIsUint64 u = true <-> IAsUint64 u = sval u).
Proof.
  destruct u as [h l]. unfold wf, UIsInt128, UIsUint64, UAsUint64, IIsUint128, IIsInt64, IAsInt64, IIsUint64, IAsUint64, sval, uval. cbn [hi lo]. intros [Hh Hl].
  repeat split; intro H;
    repeat match goal with
           | H : _ && _ = true |- _ => apply andb_prop in H; destruct H
           | H : _ || _ = true |- _ => apply orb_prop in H; destruct H
           | H : (_ <? _) = true |- _ => apply Z.ltb_lt in H
           | H : (_ <=? _) = true |- _ => apply Z.leb_le in H
           | H : (_ =? _) = true |- _ => apply Z.eqb_eq in H
           end;
    try (destruct (SIGN <=? h) eqn:S; [apply Z.leb_le in S|apply Z.leb_gt in S]); try (destruct (SIGN <=? l) eqn:S2; [apply Z.leb_le in S2|apply Z.leb_gt in S2]);
    try lia;
    try (apply Z.ltb_lt; lia); try (apply Z.eqb_eq; lia);
    try (apply orb_true_iff; destruct (Z_lt_dec h SIGN); [left|right]; apply andb_true_iff; split; try (apply Z.eqb_eq; lia); try (apply Z.ltb_lt; lia); try (apply Z.leb_le; lia)).
Qed.
