(* C02 — AsFloat64 beyond 2^53: the result has the value's sign and lies within one unit in the last place of the value.
   round53 is round-to-nearest-even to 53 significant bits (float64 of an integer, and float64 addition of two such values,
   kept as exact integers); Uint128.AsFloat64 computes round53 (round53 hi * 2^64 + round53 lo) - three roundings. *)
From Coq Require Import ZArith List Bool Lia.
From Verif Require Import common.Word64 C01.Model C02.Model.
Open Scope Z_scope.

Lemma round53_small n : n < P53 -> round53 n = n.
Proof. intro H. unfold round53. apply Z.ltb_lt in H. rewrite H. reflexivity. Qed.

(* nearest, ties to even, on the grid of spacing 2^k, k = log2 n - 52 *)
Lemma round53_spec n : P53 <= n ->
  exists q, round53 n = q * 2 ^ (Z.log2 n - 52) /\ 2 ^ 52 <= q <= 2 ^ 53 /\
            2 * Z.abs (q * 2 ^ (Z.log2 n - 52) - n) <= 2 ^ (Z.log2 n - 52) /\
            (2 * Z.abs (q * 2 ^ (Z.log2 n - 52) - n) = 2 ^ (Z.log2 n - 52) -> Z.even q = true).
Proof.
  intro H. unfold P53 in H. assert (Hn : 0 < n) by lia.
  destruct (Z.log2_spec n Hn) as [L1 L2].
  assert (L53 : 53 <= Z.log2 n). { apply Z.log2_le_pow2; [lia|]. change (2 ^ 53) with 9007199254740992. lia. }
  set (k := Z.log2 n - 52) in *. assert (Hk : 1 <= k) by lia.
  assert (E1 : 2 ^ k = 2 * 2 ^ (k - 1)). { rewrite <- Z.pow_succ_r by lia. f_equal. lia. }
  assert (E2 : 2 ^ Z.log2 n = 2 ^ 52 * 2 ^ k). { rewrite <- Z.pow_add_r by lia. f_equal. lia. }
  assert (E3 : 2 ^ Z.succ (Z.log2 n) = 2 * (2 ^ 52 * 2 ^ k)). { rewrite Z.pow_succ_r by lia. rewrite E2. reflexivity. }
  rewrite E2 in L1. rewrite E3 in L2.
  assert (Hp : 0 < 2 ^ (k - 1)) by (apply Z.pow_pos_nonneg; lia).
  unfold round53. assert (F : n <? P53 = false) by (apply Z.ltb_ge; unfold P53; lia). rewrite F. fold k.
  change (2 ^ 52) with 4503599627370496 in *. change (2 ^ 53) with 9007199254740992.
  remember (2 ^ (k - 1)) as p eqn:Ep. rewrite E1 in *. clear E1 E2 E3 Ep F L53.
  pose proof (Z.div_mod n (2 * p) ltac:(lia)) as DM. pose proof (Z.mod_pos_bound n (2 * p) ltac:(lia)) as MB.
  remember (n / (2 * p)) as q0. remember (n mod (2 * p)) as r. clear Heqq0 Heqr.
  assert (Q1 : 4503599627370496 <= q0) by nia. assert (Q2 : q0 < 9007199254740992) by nia.
  destruct ((p <? r) || (r =? p) && Z.odd q0) eqn:UP.
  - exists (q0 + 1). split; [reflexivity|]. split; [lia|].
    assert (RP : p <= r).
    { apply orb_prop in UP. destruct UP as [A|A]; [apply Z.ltb_lt in A; lia|]. apply andb_prop in A. destruct A as [A _]. apply Z.eqb_eq in A. lia. }
    split; [rewrite Z.abs_eq by nia; nia|].
    intro T. rewrite Z.abs_eq in T by nia. assert (r = p) by nia. subst r.
    apply orb_prop in UP. destruct UP as [A|A]; [apply Z.ltb_lt in A; lia|]. apply andb_prop in A. destruct A as [_ A].
    rewrite Z.even_add. rewrite <- Z.negb_odd, A. reflexivity.
  - exists q0. split; [reflexivity|]. split; [lia|].
    apply orb_false_iff in UP. destruct UP as [A B]. apply Z.ltb_ge in A.
    split; [rewrite Z.abs_neq by nia; nia|].
    intro T. rewrite Z.abs_neq in T by nia. assert (r = p) by nia. subst r. rewrite Z.eqb_refl in B. cbn [andb] in B.
    rewrite <- Z.negb_odd, B. reflexivity.
Qed.

(* ---- arithmetic cores (W = 2^64; g = 2^k the grid of the high word, U = g * W the unit in the last place of the value) *)
Lemma core_d b d U : 0 < U -> 0 <= 2 * b <= U -> 2 * Z.abs (d * U - b) <= U -> d = 0 \/ d = 1.
Proof. intros HU Hb H. assert (0 <= d) by nia. assert (d <= 1) by nia. lia. Qed.

Lemma core_same g a hi lo : 2 <= g -> 2 * Z.abs (a - hi) <= g -> 0 <= lo < W ->
  - (g * W) < a * W - (hi * W + lo) < g * W.
Proof. intros Hg Ha Hl. assert (- g <= 2 * (a - hi) <= g) by lia. nia. Qed.

Lemma even_2m q : Z.even q = true -> exists m, q = 2 * m.
Proof. intro H. apply Z.even_spec in H. destruct H as [m ->]. exists m. reflexivity. Qed.

Lemma coreB1 g qa a hi lo b q' : 2 <= g -> a = qa * g -> 2 * Z.abs (a - hi) <= g -> (2 * Z.abs (a - hi) = g -> Z.even qa = true) ->
  0 <= lo < W -> 0 <= b <= W -> Z.abs (b - lo) <= 1024 ->
  2 * Z.abs (q' * (g * W) - (a * W + b)) <= g * W -> (2 * Z.abs (q' * (g * W) - (a * W + b)) = g * W -> Z.even q' = true) ->
  - (g * W) < q' * (g * W) - (hi * W + lo) < g * W.
Proof.
  intros Hg Ea Ha Ta Hl Hb Hbl Hs Ts.
  assert (D : q' - qa = 0 \/ q' - qa = 1).
  { apply (core_d b (q' - qa) (g * W)); [nia|nia|]. replace ((q' - qa) * (g * W) - b) with (q' * (g * W) - (a * W + b)) by (subst a; ring). exact Hs. }
  destruct D as [D|D].
  - assert (q' = qa) by lia. subst q'. replace (qa * (g * W)) with (a * W) by (subst a; ring). apply core_same; assumption.
  - assert (E : q' = qa + 1) by lia. subst q'.
    assert (X : (qa + 1) * (g * W) - (a * W + b) = g * W - b) by (subst a; ring). rewrite X in Hs, Ts.
    assert (Bw : b = W /\ g = 2) by (rewrite Z.abs_eq in Hs by nia; nia). destruct Bw as [-> ->].
    rewrite Z.abs_eq in Ts by lia. destruct (even_2m _ (Ts ltac:(lia))) as [m Em].
    assert (A0 : a = hi).
    { destruct (Z.eq_dec (2 * Z.abs (a - hi)) 2) as [T|T]; [destruct (even_2m _ (Ta T)) as [m' Em']; lia|lia]. }
    subst hi. lia.
Qed.

Lemma coreB2 g a hi lo b q' : 2 <= g -> a = 9007199254740992 * g -> 2 * Z.abs (a - hi) <= g ->
  0 <= lo < W -> 0 <= b <= W -> 4503599627370496 <= q' ->
  2 * Z.abs (q' * (2 * (g * W)) - (a * W + b)) <= 2 * (g * W) ->
  - (g * W) < q' * (2 * (g * W)) - (hi * W + lo) < g * W.
Proof.
  intros Hg Ea Ha Hl Hb Hq Hs.
  assert (D : q' = 4503599627370496).
  { assert (q' - 4503599627370496 <= 0) by (subst a; nia). lia. }
  subst q'. replace (4503599627370496 * (2 * (g * W))) with (a * W) by (subst a; ring). apply core_same; assumption.
Qed.

Lemma coreA p hi lo b R : 1 <= p -> p <= hi < 2 * p -> 0 <= lo < W -> 0 <= b <= W -> Z.abs (b - lo) <= 1024 ->
  2 * Z.abs (R - (hi * W + b)) <= 4096 * p ->
  - (4096 * p) < R - (hi * W + lo) < 4096 * p.
Proof. intros. lia. Qed.

(* ---- binary logarithms *)
Lemma log2_between n m : 0 <= m -> 2 ^ m <= n < 2 ^ (m + 1) -> Z.log2 n = m.
Proof. intros Hm H. apply Z.log2_unique; [exact Hm|]. replace (Z.succ m) with (m + 1) by lia. exact H. Qed.
Lemma log2_hiW hi lo : 1 <= hi -> 0 <= lo < W -> Z.log2 (hi * W + lo) = Z.log2 hi + 64.
Proof.
  intros Hh Hl. destruct (Z.log2_spec hi ltac:(lia)) as [A B]. pose proof (Z.log2_nonneg hi) as N.
  apply log2_between; [lia|]. rewrite !Z.pow_add_r by lia. rewrite Z.pow_succ_r in B by lia.
  change (2 ^ 64) with W. change (2 ^ 1) with 2. remember (2 ^ Z.log2 hi) as p. nia.
Qed.
Lemma round53_lo lo : 0 <= lo < W -> 0 <= round53 lo <= W /\ Z.abs (round53 lo - lo) <= 1024.
Proof.
  intro H. destruct (Z_lt_le_dec lo P53) as [S|S]; [rewrite round53_small by exact S; unfold P53 in S; lia|].
  destruct (round53_spec lo S) as (q & E & Q & B & _). unfold P53 in S.
  assert (L1 : 53 <= Z.log2 lo) by (apply Z.log2_le_pow2; [lia|]; change (2 ^ 53) with 9007199254740992; lia).
  assert (L2 : Z.log2 lo < 64) by (apply Z.log2_lt_pow2; [lia|]; change (2 ^ 64) with W; lia).
  rewrite E. remember (Z.log2 lo - 52) as k. assert (K : 1 <= k <= 11) by lia.
  assert (P : 2 <= 2 ^ k <= 2048). { split; [change 2 with (2 ^ 1) at 1|change 2048 with (2 ^ 11)]; apply Z.pow_le_mono_r; lia. }
  destruct (Z.log2_spec lo ltac:(lia)) as [_ U]. replace (Z.succ (Z.log2 lo)) with (53 + k) in U by lia. rewrite Z.pow_add_r in U by lia.
  change (2 ^ 52) with 4503599627370496 in Q. change (2 ^ 53) with 9007199254740992 in *.
  remember (2 ^ k) as g. split; [|lia]. split; [nia|].
  (* q * g <= 2^53 * g = 2^(log2 lo + 1) <= 2^64 *)
  assert (G : 9007199254740992 * g <= W).
  { subst g. change 9007199254740992 with (2 ^ 53). rewrite <- Z.pow_add_r by lia. change W with (2 ^ 64). apply Z.pow_le_mono_r; lia. }
  nia.
Qed.
Lemma round53_pow2 m s : 53 <= m -> s = 2 ^ m -> round53 s = s.
Proof.
  intros Hm ->. assert (S : P53 <= 2 ^ m) by (unfold P53; change 9007199254740992 with (2 ^ 53); apply Z.pow_le_mono_r; lia).
  destruct (round53_spec _ S) as (q & E & Q & B & _). rewrite Z.log2_pow2 in * by lia. rewrite E.
  assert (X : 2 ^ m = 2 ^ 52 * 2 ^ (m - 52)) by (rewrite <- Z.pow_add_r by lia; f_equal; lia). rewrite X in *.
  assert (0 < 2 ^ (m - 52)) by (apply Z.pow_pos_nonneg; lia). remember (2 ^ (m - 52)) as g. change (2 ^ 52) with 4503599627370496 in *.
  assert (q = 4503599627370496) by nia. subst q. reflexivity.
Qed.

(* ---- the theorem for Uint128 *)
Theorem UAsFloat64_within_one_ulp u : wf u -> P53 <= uval u ->
  fst (UAsFloat64 u) = false /\ Z.abs (snd (UAsFloat64 u) - uval u) < 2 ^ (Z.log2 (uval u) - 52).
Proof.
  destruct u as [h l]. unfold wf, UAsFloat64, uval. cbn [hi lo]. intros [Hh Hl] HV.
  destruct (h =? 0) eqn:H0.
  - apply Z.eqb_eq in H0. subst h. cbn [fst snd]. split; [reflexivity|]. replace (0 * W + l) with l in * by lia.
    destruct (round53_spec l HV) as (q & E & Q & B & _). rewrite E.
    assert (0 < 2 ^ (Z.log2 l - 52)) by (apply Z.pow_pos_nonneg; [lia|]; unfold P53 in HV; assert (53 <= Z.log2 l) by (apply Z.log2_le_pow2; [lia|]; change (2 ^ 53) with 9007199254740992; lia); lia).
    lia.
  - apply Z.eqb_neq in H0. cbn [fst snd]. split; [reflexivity|]. assert (H1 : 1 <= h) by lia.
    rewrite (log2_hiW h l H1 Hl). destruct (round53_lo l Hl) as [Bb Bl]. remember (round53 l) as b.
    apply Z.abs_lt.
    destruct (Z_lt_le_dec h P53) as [SA|SB].
    + (* the high word is exact *)
      rewrite (round53_small h SA). destruct (Z.log2_spec h ltac:(lia)) as [A B]. pose proof (Z.log2_nonneg h) as N. rewrite Z.pow_succ_r in B by lia.
      replace (Z.log2 h + 64 - 52) with (12 + Z.log2 h) by lia. rewrite Z.pow_add_r by lia. change (2 ^ 12) with 4096.
      remember (2 ^ Z.log2 h) as p. assert (P1 : 1 <= p) by (assert (0 < p) by (subst p; apply Z.pow_pos_nonneg; lia); lia).
      destruct (Z.eq_dec (h * W + b) (2 * p * W)) as [EQ|NE].
      * (* the sum is a power of two: it is its own rounding *)
        assert (RS : round53 (h * W + b) = h * W + b).
        { apply (round53_pow2 (Z.log2 h + 65)); [lia|]. rewrite EQ. subst p. rewrite Z.pow_add_r by lia. change (2 ^ 65) with (2 * W). ring. }
        rewrite RS. lia.
      * assert (LS : Z.log2 (h * W + b) = Z.log2 h + 64).
        { apply log2_between; [lia|]. rewrite !Z.pow_add_r by lia. change (2 ^ 64) with W. change (2 ^ 1) with 2. rewrite <- Heqp. nia. }
        assert (SS : P53 <= h * W + b) by (unfold P53; nia).
        destruct (round53_spec _ SS) as (q & E & Q & Bd & _). rewrite LS in *. replace (Z.log2 h + 64 - 52) with (12 + Z.log2 h) in * by lia.
        rewrite Z.pow_add_r in * by lia. change (2 ^ 12) with 4096 in *. rewrite <- Heqp in *. rewrite E.
        apply (coreA p h l b); try assumption; lia.
    + (* the high word is rounded to the grid g = 2^(log2 h - 52) *)
      destruct (round53_spec h SB) as (qa & Ea & Qa & Ba & Ta). unfold P53 in SB.
      assert (L53 : 53 <= Z.log2 h) by (apply Z.log2_le_pow2; [lia|]; change (2 ^ 53) with 9007199254740992; lia).
      replace (Z.log2 h + 64 - 52) with ((Z.log2 h - 52) + 64) by lia. rewrite Z.pow_add_r by lia. change (2 ^ 64) with W.
      assert (G2 : 2 <= 2 ^ (Z.log2 h - 52)) by (change 2 with (2 ^ 1) at 1; apply Z.pow_le_mono_r; lia).
      destruct (Z.log2_spec h ltac:(lia)) as [A B].
      assert (X : 2 ^ Z.log2 h = 2 ^ 52 * 2 ^ (Z.log2 h - 52)) by (rewrite <- Z.pow_add_r by lia; f_equal; lia).
      rewrite Z.pow_succ_r in B by lia. rewrite X in A, B.
      change (2 ^ 52) with 4503599627370496 in *. change (2 ^ 53) with 9007199254740992 in *.
      remember (2 ^ (Z.log2 h - 52)) as g. remember (round53 h) as a.
      destruct (Z.eq_dec qa 9007199254740992) as [QE|QN].
      * (* rounded up to the next power of two *)
        assert (LS : Z.log2 (a * W + b) = (Z.log2 h - 52) + 117).
        { apply log2_between; [lia|]. rewrite !Z.pow_add_r by lia. rewrite <- Heqg. change (2 ^ 117) with (9007199254740992 * W). change (2 ^ 1) with 2. subst a qa. nia. }
        assert (SS : P53 <= a * W + b) by (unfold P53; subst a qa; nia).
        destruct (round53_spec _ SS) as (q & E & Q & Bd & _). rewrite LS in *. replace (Z.log2 h - 52 + 117 - 52) with ((Z.log2 h - 52) + 65) in * by lia.
        rewrite Z.pow_add_r in * by lia. rewrite <- Heqg in *. change (2 ^ 65) with (2 * W) in *. rewrite E.
        replace (q * (g * (2 * W))) with (q * (2 * (g * W))) by ring. replace (g * (2 * W)) with (2 * (g * W)) in Bd by ring.
        apply (coreB2 g a h l b q); try assumption; try lia.
      * assert (LS : Z.log2 (a * W + b) = (Z.log2 h - 52) + 116).
        { apply log2_between; [lia|]. rewrite !Z.pow_add_r by lia. rewrite <- Heqg. change (2 ^ 116) with (4503599627370496 * W). change (2 ^ 1) with 2. subst a. nia. }
        assert (SS : P53 <= a * W + b) by (unfold P53; subst a; nia).
        destruct (round53_spec _ SS) as (q & E & Q & Bd & Td). rewrite LS in *. replace (Z.log2 h - 52 + 116 - 52) with ((Z.log2 h - 52) + 64) in * by lia.
        rewrite Z.pow_add_r in * by lia. rewrite <- Heqg in *. change (2 ^ 64) with W in *. rewrite E.
        apply (coreB1 g qa a h l b q); try assumption; try lia; rewrite Ea; assumption.
Qed.

(* ---- Int128: the magnitude goes through the same three roundings (for negative values with a non-trivial high word, of the
   one's complement, i.e. of |v| - 1, which is why the bound is "at most one ulp" and not "less than") *)
Lemma ulp_le_value m : P53 <= m -> 2 ^ (Z.log2 m - 52) * 4503599627370496 <= m.
Proof.
  intro H. unfold P53 in H. destruct (Z.log2_spec m ltac:(lia)) as [A _].
  assert (53 <= Z.log2 m) by (apply Z.log2_le_pow2; [lia|]; change (2 ^ 53) with 9007199254740992; lia).
  change 4503599627370496 with (2 ^ 52). rewrite <- Z.pow_add_r by lia. replace (Z.log2 m - 52 + 52) with (Z.log2 m) by lia. exact A.
Qed.
Lemma ulp_mono a b : 1 <= a <= b -> 2 ^ (Z.log2 a - 52) <= 2 ^ (Z.log2 b - 52).
Proof.
  intro H. pose proof (Z.log2_le_mono a b ltac:(lia)) as M. destruct (Z_lt_le_dec (Z.log2 a - 52) 0) as [N|N].
  - rewrite (Z.pow_neg_r 2 _ N). apply Z.pow_nonneg. lia.
  - apply Z.pow_le_mono_r; lia.
Qed.

Theorem IAsFloat64_within_one_ulp i : wf i -> P53 <= Z.abs (sval i) ->
  fst (IAsFloat64 i) = (sval i <? 0) /\
  Z.abs (snd (IAsFloat64 i) - sval i) <= 2 ^ (Z.log2 (Z.abs (sval i)) - 52) /\
  (sval i < 0 -> snd (IAsFloat64 i) < 0) /\ (0 < sval i -> 0 < snd (IAsFloat64 i)).
Proof.
  destruct i as [h l]. intros WF HV. pose proof WF as [Hh Hl]. cbn [hi lo] in Hh, Hl.
  assert (SIGNS : forall R v : Z, P53 <= Z.abs v -> Z.abs (R - v) <= 2 ^ (Z.log2 (Z.abs v) - 52) -> (v < 0 -> R < 0) /\ (0 < v -> 0 < R)).
  { intros R v PV D. pose proof (ulp_le_value (Z.abs v) PV) as UL. unfold P53 in PV.
    assert (0 < 2 ^ (Z.log2 (Z.abs v) - 52)). { apply Z.pow_pos_nonneg; [lia|]. assert (53 <= Z.log2 (Z.abs v)) by (apply Z.log2_le_pow2; [lia|]; change (2 ^ 53) with 9007199254740992; lia). lia. }
    remember (2 ^ (Z.log2 (Z.abs v) - 52)) as U. split; intro; lia. }
  assert (FIN : forall (s : bool) (R : Z), s = (sval (mk h l) <? 0) -> Z.abs (R - sval (mk h l)) <= 2 ^ (Z.log2 (Z.abs (sval (mk h l))) - 52) ->
          s = (sval (mk h l) <? 0) /\ Z.abs (R - sval (mk h l)) <= 2 ^ (Z.log2 (Z.abs (sval (mk h l))) - 52) /\ (sval (mk h l) < 0 -> R < 0) /\ (0 < sval (mk h l) -> 0 < R)).
  { intros s R A B. split; [exact A|]. split; [exact B|]. apply SIGNS; assumption. }
  unfold IAsFloat64. cbn [hi lo].
  assert (POS : h < SIGN -> sval (mk h l) = uval (mk h l)).
  { intro S. unfold sval. cbn [hi]. destruct (SIGN <=? h) eqn:E; [apply Z.leb_le in E; lia|reflexivity]. }
  assert (NEG : SIGN <= h -> sval (mk h l) = uval (mk h l) - P128).
  { intro S. unfold sval. cbn [hi]. destruct (SIGN <=? h) eqn:E; [reflexivity|apply Z.leb_gt in E; lia]. }
  assert (UV : uval (mk h l) = h * W + l) by reflexivity.
  destruct (h =? 0) eqn:H0.
  - apply Z.eqb_eq in H0. cbn [fst snd]. apply FIN.
    + rewrite POS by lia. rewrite UV. subst h. symmetry. apply Z.ltb_ge. lia.
    + rewrite POS in * by lia. rewrite UV in *. subst h. replace (0 * W + l) with l in * by lia. rewrite Z.abs_eq in * by lia.
      pose proof (UAsFloat64_within_one_ulp (mk 0 l) WF) as T. unfold uval, UAsFloat64 in T. cbn [hi lo fst snd] in T. replace (0 * W + l) with l in T by lia.
      change (0 =? 0) with true in T. cbn [fst snd] in T. destruct (T HV) as [_ T2]. try (rewrite (Z.abs_eq l) by lia); try (rewrite (Z.abs_eq (W - l)) by lia); try (replace (Z.abs (- (W - l))) with (W - l) by lia); lia.
  - apply Z.eqb_neq in H0. destruct ((h =? MAX64) && negb (l =? 0)) eqn:HM.
    + apply andb_prop in HM. destruct HM as [A B]. apply Z.eqb_eq in A. apply negb_true_iff, Z.eqb_neq in B. subst h. cbn [fst snd].
      assert (SV : sval (mk MAX64 l) = - (W - l)) by (rewrite NEG by lia; rewrite UV; lia).
      assert (X : (not64 l + 1) mod W = W - l) by (unfold not64; rewrite Z.mod_small by lia; lia). rewrite X.
      apply FIN; [rewrite SV; symmetry; apply Z.ltb_lt; lia|]. rewrite SV in *. rewrite Z.abs_neq in * by lia. replace (- - (W - l)) with (W - l) in * by lia.
      assert (WF' : wf (mk 0 (W - l))) by (unfold wf; cbn [hi lo]; lia).
      pose proof (UAsFloat64_within_one_ulp (mk 0 (W - l)) WF') as T. unfold uval, UAsFloat64 in T. cbn [hi lo fst snd] in T. replace (0 * W + (W - l)) with (W - l) in T by lia.
      change (0 =? 0) with true in T. cbn [fst snd] in T. destruct (T HV) as [_ T2]. try (rewrite (Z.abs_eq l) by lia); try (rewrite (Z.abs_eq (W - l)) by lia); try (replace (Z.abs (- (W - l))) with (W - l) by lia); lia.
    + destruct (h <? SIGN) eqn:HS.
      * apply Z.ltb_lt in HS. cbn [fst snd]. apply FIN; [rewrite POS by lia; rewrite UV; symmetry; apply Z.ltb_ge; nia|].
        rewrite POS in * by lia. rewrite Z.abs_eq in * by (rewrite UV; nia).
        pose proof (UAsFloat64_within_one_ulp (mk h l) WF HV) as T. unfold UAsFloat64 in T. cbn [hi lo] in T.
        assert (E : h =? 0 = false) by (apply Z.eqb_neq; exact H0). rewrite E in T. cbn [fst snd] in T. destruct T as [_ T2]. rewrite (Z.abs_eq (uval (mk h l))) by (rewrite UV; nia). lia.
      * apply Z.ltb_ge in HS. cbn [fst snd].
        assert (SV : sval (mk h l) = - ((MAX64 - h) * W + (MAX64 - l) + 1)) by (rewrite NEG by lia; rewrite UV; lia).
        apply FIN; [rewrite SV; symmetry; apply Z.ltb_lt; nia|]. rewrite SV in *. unfold not64.
        set (nh := MAX64 - h) in *. set (nl := MAX64 - l) in *.
        assert (Nh : 0 <= nh < W) by (unfold nh; lia). assert (Nl : 0 <= nl < W) by (unfold nl; lia).
        rewrite Z.abs_neq in * by nia. replace (- - (nh * W + nl + 1)) with (nh * W + nl + 1) in * by lia.
        destruct (Z.eq_dec nh 0) as [Z0|NZ].
        -- (* h = MAX64, so l = 0: the value is -2^64 *)
           assert (h = MAX64) by (unfold nh in Z0; lia). subst h.
           assert (l = 0). { destruct (Z.eq_dec l 0) as [e|ne]; [exact e|]. exfalso. apply andb_false_iff in HM. destruct HM as [A|A]; [apply Z.eqb_neq in A; lia|apply negb_false_iff, Z.eqb_eq in A; lia]. }
           subst l. unfold nh, nl. vm_compute. intro; discriminate.
        -- assert (WF' : wf (mk nh nl)) by (unfold wf; cbn [hi lo]; lia).
           assert (HV' : P53 <= uval (mk nh nl)) by (unfold uval, P53; cbn [hi lo]; nia).
           pose proof (UAsFloat64_within_one_ulp (mk nh nl) WF' HV') as T. unfold UAsFloat64, uval in T. cbn [hi lo] in T.
           assert (E : nh =? 0 = false) by (apply Z.eqb_neq; exact NZ). rewrite E in T. cbn [fst snd] in T. destruct T as [_ T2].
           pose proof (ulp_mono (nh * W + nl) (nh * W + nl + 1) ltac:(nia)) as UM. replace (Z.abs (- (nh * W + nl + 1))) with (nh * W + nl + 1) by nia. lia.
Qed.
