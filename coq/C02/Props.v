(* C02 — property theorems only. Each is closed by [exact] of a lemma from Proofs.v and followed by Print Assumptions.
   [wf u]: both words are 64-bit. uval / sval: the value read as Uint128 / Int128. A finite float64 is FFin sign m e = +-m * 2^e
   with 0 <= m < 2^53; [fval_trunc] is its truncation toward zero. *)
From Coq Require Import ZArith List Bool.
From Verif Require Import common.Word64 C01.Model C04.Model C02.Model C02.Proofs C02.ProofsUlp.
Import ListNotations.
Open Scope Z_scope.

(* decimal text: String then FromString is the identity, for all 2^128 values of each type *)
Theorem C02_text_round_trip : forall u, wf u -> UFromString (UString u) = Some u /\ IFromString (IString u) = Some u.
Proof. exact text_round_trip. Qed.
Print Assumptions C02_text_round_trip.

(* big.Int: exact in range, the nearest bound outside, for every integer; and back *)
Theorem C02_Uint128FromBigInt_clamps : forall z, wf (UFromBig z) /\ uval (UFromBig z) = Z.max 0 (Z.min z (P128 - 1)).
Proof. exact UFromBig_clamps. Qed.
Print Assumptions C02_Uint128FromBigInt_clamps.
Theorem C02_Int128FromBigInt_clamps : forall z, wf (IFromBig z) /\ sval (IFromBig z) = Z.max (- (P128 / 2)) (Z.min z (P128 / 2 - 1)).
Proof. exact IFromBig_clamps. Qed.
Print Assumptions C02_Int128FromBigInt_clamps.
Theorem C02_bigint_round_trip : forall u, wf u -> UFromBig (UAsBig u) = u /\ IFromBig (IAsBig u) = u.
Proof. exact big_round_trip. Qed.
Print Assumptions C02_bigint_round_trip.

(* float64: truncated toward zero when in range, the nearest bound when not, for every finite double; NaN gives 0, infinities the bounds *)
Theorem C02_Uint128FromFloat64 : forall neg m e, 0 <= m < 2 ^ 53 ->
  wf (Uint128FromFloat64 (FFin neg m e)) /\ uval (Uint128FromFloat64 (FFin neg m e)) = Z.max 0 (Z.min (fval_trunc neg m e) (P128 - 1)).
Proof. exact Uint128FromFloat64_spec. Qed.
Print Assumptions C02_Uint128FromFloat64.
Theorem C02_Int128FromFloat64 : forall neg m e, 0 <= m < 2 ^ 53 ->
  wf (Int128FromFloat64 (FFin neg m e)) /\ sval (Int128FromFloat64 (FFin neg m e)) = Z.max (- (P128 / 2)) (Z.min (fval_trunc neg m e) (P128 / 2 - 1)).
Proof. exact Int128FromFloat64_spec. Qed.
Print Assumptions C02_Int128FromFloat64.
Theorem C02_FromFloat64_specials :
  Uint128FromFloat64 FNaN = zero /\ Int128FromFloat64 FNaN = zero /\
  Uint128FromFloat64 (FInf false) = MaxU /\ Uint128FromFloat64 (FInf true) = zero /\ Int128FromFloat64 (FInf false) = MaxI /\ Int128FromFloat64 (FInf true) = MinI.
Proof. exact FromFloat64_specials. Qed.
Print Assumptions C02_FromFloat64_specials.

(* AsFloat64 below 2^53: exactly the value, never a negative zero *)
Theorem C02_AsFloat64_exact_below_2_53 : forall u, wf u ->
  (uval u < 2 ^ 53 -> UAsFloat64 u = (false, uval u)) /\ (- 2 ^ 53 < sval u < 2 ^ 53 -> IAsFloat64 u = (false, sval u) \/ (sval u < 0 /\ IAsFloat64 u = (true, sval u))).
Proof. exact AsFloat64_exact_below_2_53. Qed.
Print Assumptions C02_AsFloat64_exact_below_2_53.
(* AsFloat64 from 2^53 on (ProofsUlp.v): the three roundings (float64 of each word - nearest, ties to even - and the float64 sum)
   stay within one unit in the last place of the value, 2^(log2 |v| - 52), and the result has the value's sign. For Uint128 the
   error is strictly less than one unit; for negative Int128 values the code converts the one's complement, so "at most one unit"
   is the best that holds (witness below) *)
Theorem C02_Uint128_AsFloat64_within_one_ulp : forall u, wf u -> 9007199254740992 <= uval u ->
  fst (UAsFloat64 u) = false /\ Z.abs (snd (UAsFloat64 u) - uval u) < 2 ^ (Z.log2 (uval u) - 52).
Proof. exact UAsFloat64_within_one_ulp. Qed.
Print Assumptions C02_Uint128_AsFloat64_within_one_ulp.
Theorem C02_Int128_AsFloat64_within_one_ulp_with_the_sign : forall i, wf i -> 9007199254740992 <= Z.abs (sval i) ->
  fst (IAsFloat64 i) = (sval i <? 0) /\
  Z.abs (snd (IAsFloat64 i) - sval i) <= 2 ^ (Z.log2 (Z.abs (sval i)) - 52) /\
  (sval i < 0 -> snd (IAsFloat64 i) < 0) /\ (0 < sval i -> 0 < snd (IAsFloat64 i)).
Proof. exact IAsFloat64_within_one_ulp. Qed.
Print Assumptions C02_Int128_AsFloat64_within_one_ulp_with_the_sign.
(* the bound is attained: -(2^53+2) * 2^64 converts to -2^117, exactly one unit (2^65) away *)
Example C02_ex_one_full_ulp : let i := mk (18446744073709551616 - (9007199254740992 + 2)) 0 in
  sval i = - ((9007199254740992 + 2) * 18446744073709551616) /\ IAsFloat64 i = (true, - 2 ^ 117) /\
  Z.abs (snd (IAsFloat64 i) - sval i) = 2 ^ (Z.log2 (Z.abs (sval i)) - 52).
Proof. vm_compute. repeat split. Qed.

(* narrowing predicates are true exactly when the matching conversion preserves the value *)
Theorem C02_narrowing : forall u, wf u ->
  (UIsInt128 u = true <-> sval u = uval u) /\ (UIsUint64 u = true <-> UAsUint64 u = uval u) /\
  (IIsUint128 u = true <-> uval u = sval u) /\ (IIsInt64 u = true <-> IAsInt64 u = sval u) /\ (IIsUint64 u = true <-> IAsUint64 u = sval u).
Proof. exact narrowing_spec. Qed.
Print Assumptions C02_narrowing.

Module NonVacuous.
  Example wf_examples : wf (mk MAX64 0) /\ wf MinI /\ wf MaxU. Proof. repeat split; cbn; discriminate. Qed.
  (* -2^64 = hi:2^64-1, lo:0 : the value whose conversions were wrong before the repair *)
  Example minus_two_to_the_64 : IAsFloat64 (mk MAX64 0) = (true, - W) /\ Int128FromFloat64 (FFin true (2 ^ 52) 12) = mk MAX64 0 /\ IString (mk MAX64 0) = [45;49;56;52;52;54;55;52;52;48;55;51;55;48;57;53;53;49;54;49;54].
  Proof. repeat split; vm_compute; reflexivity. Qed.
  Example float_bounds : Int128FromFloat64 (FFin true (2 ^ 52) 75) = MinI /\ Int128FromFloat64 (FFin false (2 ^ 52) 75) = MaxI /\ Uint128FromFloat64 (FFin false (2 ^ 53 - 1) 75) = mk (MAX64 - 2047) 0.
  Proof. repeat split; vm_compute; reflexivity. Qed.
End NonVacuous.
