(* C02 — model of the conversions of xmath/num Uint128 / Int128 (uint128.go, int128.go): decimal text (String and the FromString
   family on the decimal grammar: optional sign, digits), big.Int (at value level: a big.Int is a Z), float64 (a float is its
   decoded triple: NaN, infinity, or sign, 53-bit significand m and exponent e with value m * 2^e; float64(uint64) is
   round-to-nearest-even kept as an exact integer), and the narrowing predicates. The 128-bit words are C01's. No proofs here. *)
From Coq Require Import ZArith List Bool.
From Verif Require Import common.Word64 C01.Model C03.Model C04.Model.
Import ListNotations.
Open Scope Z_scope.

Definition MaxU := mk MAX64 MAX64.
Definition MaxI := mk (SIGN - 1) MAX64.
Definition MinI := mk SIGN 0.

(* ---- big.Int (values) *)
Definition UFromBig (z : Z) : w128 := if z <? 0 then zero else if P128 <=? z then MaxU else of_uval z.
Definition IFromBig (z : Z) : w128 := if z <? - (P128 / 2) then MinI else if P128 / 2 <=? z then MaxI else of_uval z.
Definition UAsBig (u : w128) : Z := uval u.
Definition IAsBig (i : w128) : Z := sval i.

(* ---- decimal text *)
Definition UString (u : w128) : bytes := udec (uval u).
Definition IString (i : w128) : bytes := sdec (sval i).
(* FromString on the decimal grammar; None = error (the value is then zero). A Uint128 refuses negative numbers by clamping to 0,
   as FromBigInt does *)
Definition UFromString (s : bytes) : option w128 := match parse_signed s with Some z => Some (UFromBig z) | None => None end.
Definition IFromString (s : bytes) : option w128 := match parse_signed s with Some z => Some (IFromBig z) | None => None end.

(* ---- float64 *)
Inductive f64 := FNaN | FInf (neg : bool) | FFin (neg : bool) (m e : Z).
Definition decode (bits : Z) : f64 :=
  let neg := 2 ^ 63 <=? bits in let b := bits mod 2 ^ 63 in
  let ex := b / 2 ^ 52 in let fr := b mod 2 ^ 52 in
  if ex =? 2047 then (if fr =? 0 then FInf neg else FNaN)
  else if ex =? 0 then FFin neg fr (-1074) else FFin neg (fr + 2 ^ 52) (ex - 1075).
Definition trunc_abs (m e : Z) : Z := if 0 <=? e then m * 2 ^ e else m / 2 ^ (- e).
(* exact comparisons of m * 2^e with an integer bound *)
Definition abs_le (m e c : Z) : bool := if 0 <=? e then m * 2 ^ e <=? c else m <=? c * 2 ^ (- e).
Definition abs_lt (m e c : Z) : bool := if 0 <=? e then m * 2 ^ e <? c else m <? c * 2 ^ (- e).

Definition Uint128FromFloat64 (f : f64) : w128 :=
  match f with
  | FNaN => zero
  | FInf neg => if neg then zero else MaxU
  | FFin neg m e =>
    if neg || (m =? 0) then zero
    else if abs_le m e (W - 2048) then mk 0 (trunc_abs m e)                       (* f <= the largest float below 2^64 *)
    else if abs_le m e (P128 - 2 ^ 75) then let t := trunc_abs m e in mk (t / W) (t mod W)   (* f <= the largest float below 2^128 *)
    else MaxU
  end.
Definition Int128FromFloat64 (f : f64) : w128 :=
  match f with
  | FNaN => zero
  | FInf neg => if neg then MinI else MaxI
  | FFin neg m e =>
    if m =? 0 then zero else
    let pos := if abs_le m e (W - 2048) then mk 0 (trunc_abs m e)
               else if abs_lt m e (P128 / 2) then let t := trunc_abs m e in mk (t / W) (t mod W)
               else MaxI in
    if neg then (if abs_lt m e (P128 / 2) then Neg pos else MinI) else pos
  end.

(* float64(uint64 n): round to nearest, ties to even, the result kept as an exact integer *)
Definition P53 := 9007199254740992.
Definition round53 (n : Z) : Z :=
  if n <? P53 then n else
  let k := Z.log2 n - 52 in let q := n / 2 ^ k in let r := n mod 2 ^ k in let half := 2 ^ (k - 1) in
  let q := if (half <? r) || ((r =? half) && Z.odd q) then q + 1 else q in q * 2 ^ k.
(* results: (negative zero?, value) *)
Definition UAsFloat64 (u : w128) : bool * Z :=
  if hi u =? 0 then (false, round53 (lo u)) else (false, round53 (round53 (hi u) * W + round53 (lo u))).
Definition IAsFloat64 (i : w128) : bool * Z :=
  if hi i =? 0 then (false, round53 (lo i))
  else if (hi i =? MAX64) && negb (lo i =? 0) then (true, - round53 ((not64 (lo i) + 1) mod W))
  else if hi i <? SIGN then (false, round53 (round53 (hi i) * W + round53 (lo i)))
  else (true, - round53 (round53 (not64 (hi i)) * W + round53 (not64 (lo i)))).

(* ---- narrowing *)
Definition UIsInt128 (u : w128) : bool := hi u <? SIGN.
Definition UIsUint64 (u : w128) : bool := hi u =? 0.
Definition UAsUint64 (u : w128) : Z := lo u.
Definition IIsUint128 (i : w128) : bool := hi i <? SIGN.
Definition IIsInt64 (i : w128) : bool := ((hi i =? 0) && (lo i <? SIGN)) || ((hi i =? MAX64) && (SIGN <=? lo i)).
Definition IAsInt64 (i : w128) : Z := if SIGN <=? lo i then lo i - W else lo i.        (* int64(i.lo) *)
Definition IIsUint64 (i : w128) : bool := hi i =? 0.
Definition IAsUint64 (i : w128) : Z := lo i.
