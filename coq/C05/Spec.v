(* C05 — the specification side of polygon Boolean operations: even-odd membership of a point in a polygon with integer vertices,
   exact, at any rational point (a/d, b/d) given as a triple of integers with d > 0; the pointwise Boolean combinations; and an
   executable validator for rectilinear lattice polygons: [check_cells] compares one point per unit cell of the (extended) joint
   bounding box. The sweep-line clipper itself (xmath/geom/poly) is not modelled. No proofs here. *)
From Coq Require Import ZArith List Bool.
Import ListNotations.
Open Scope Z_scope.

Definition pt := (Z * Z)%type.
Definition contour := list pt.
Definition polygon := list contour.
Record qpt := { qa : Z; qb : Z; qd : Z }.   (* the point (qa/qd, qb/qd) *)

(* does the horizontal ray from p towards +x cross the edge v1 -> v2 (half-open in y: the lower end counts, the upper does not) *)
Definition crosses (p : qpt) (v1 v2 : pt) : bool :=
  let '(x1, y1) := v1 in let '(x2, y2) := v2 in
  let a := qa p in let b := qb p in let d := qd p in
  if (y1 * d <=? b) && (b <? y2 * d) then (a - x1 * d) * (y2 - y1) <? (b - y1 * d) * (x2 - x1)
  else if (y2 * d <=? b) && (b <? y1 * d) then (b - y1 * d) * (x2 - x1) <? (a - x1 * d) * (y2 - y1)
  else false.
Fixpoint edges_from (first : pt) (c : contour) : list (pt * pt) :=
  match c with
  | [] => []
  | [v] => [(v, first)]
  | v :: ((w :: _) as r) => (v, w) :: edges_from first r
  end.
Definition edges (c : contour) : list (pt * pt) := match c with [] => [] | v :: _ => edges_from v c end.
Definition all_edges (P : polygon) : list (pt * pt) := flat_map edges P.
Definition inside (P : polygon) (p : qpt) : bool := fold_left xorb (map (fun e => crosses p (fst e) (snd e)) (all_edges P)) false.

Inductive bop := OUnion | OIntersect | OSub | OXor.
Definition combine (o : bop) (a b : bool) : bool :=
  match o with OUnion => a || b | OIntersect => a && b | OSub => a && negb b | OXor => xorb a b end.

(* rectilinear: every edge is vertical or horizontal *)
Definition rect_edge (e : pt * pt) : bool := (fst (fst e) =? fst (snd e)) || (snd (fst e) =? snd (snd e)).
Definition rectilinear (P : polygon) : bool := forallb rect_edge (all_edges P).

(* the centre of the unit cell [i, i+1) x [j, j+1) *)
Definition centre (i j : Z) : qpt := {| qa := 2 * i + 1; qb := 2 * j + 1; qd := 2 |}.
Definition coords (P : polygon) : list Z * list Z := (map fst (concat P), map snd (concat P)).
Definition zmin (l : list Z) (d : Z) := fold_left Z.min l d.
Definition zmax (l : list Z) (d : Z) := fold_left Z.max l d.
Fixpoint zrange (lo : Z) (n : nat) : list Z := match n with O => [] | S k => lo :: zrange (lo + 1) k end.
(* one column to the left and right, one row below and above the joint bounding box: every other cell behaves like one of these *)
Definition check_cells (A B R : polygon) (o : bop) : bool :=
  let xs := fst (coords A) ++ fst (coords B) ++ fst (coords R) in
  let ys := snd (coords A) ++ snd (coords B) ++ snd (coords R) in
  let x0 := zmin xs 0 - 1 in let x1 := zmax xs 0 in
  let y0 := zmin ys 0 - 1 in let y1 := zmax ys 0 in
  forallb (fun i => forallb (fun j => Bool.eqb (inside R (centre i j)) (combine o (inside A (centre i j)) (inside B (centre i j))))
                            (zrange y0 (Z.to_nat (y1 - y0 + 1)))) (zrange x0 (Z.to_nat (x1 - x0 + 1))).
Definition validate (A B R : polygon) (o : bop) : bool := rectilinear A && rectilinear B && rectilinear R && check_cells A B R o.
