(* C05 — soundness of the validator: for rectilinear polygons with integer vertices membership is constant on every unit cell,
   and cells beyond the joint bounding box behave like the bordering ones; so agreement on the finitely many cell centres that
   [check_cells] inspects is agreement at every rational point of the plane. *)
From Coq Require Import ZArith List Bool Lia.
From Verif Require Import C05.Spec.
Import ListNotations.
Open Scope Z_scope.

(* ---- floor division against integer bounds *)
Lemma le_div y b d : 0 < d -> (y * d <=? b) = (y <=? b / d).
Proof.
  intro Hd. destruct (Z.leb_spec (y * d) b) as [H|H]; destruct (Z.leb_spec y (b / d)) as [G|G]; try reflexivity; exfalso.
  - assert (y <= b / d) by (apply Z.div_le_lower_bound; lia). lia.
  - pose proof (Z.mul_div_le b d Hd). pose proof (Z.mod_pos_bound b d Hd). pose proof (Z.div_mod b d ltac:(lia)). nia.
Qed.
Lemma lt_div y b d : 0 < d -> (b <? y * d) = (b / d <? y).
Proof.
  intro Hd. destruct (Z.ltb_spec b (y * d)) as [H|H]; destruct (Z.ltb_spec (b / d) y) as [G|G]; try reflexivity; exfalso.
  - assert (b / d < y) by (apply Z.div_lt_upper_bound; lia). lia.
  - pose proof (Z.mul_div_le b d Hd). pose proof (Z.mod_pos_bound b d Hd). pose proof (Z.div_mod b d ltac:(lia)). nia.
Qed.
Lemma centre_div i j : (2 * i + 1) / 2 = i /\ (2 * j + 1) / 2 = j.
Proof. split; (symmetry; apply (Z.div_unique _ 2 _ 1); lia). Qed.

(* a rectilinear edge is crossed by the ray from p exactly when: it is vertical at X, its y-span contains floor(b/d), and floor(a/d) < X *)
Definition crosses_cell (i j : Z) (e : pt * pt) : bool :=
  let '((x1, y1), (x2, y2)) := e in
  (x1 =? x2) && (((y1 <=? j) && (j <? y2)) || ((y2 <=? j) && (j <? y1))) && (i <? x1).
Lemma crosses_rect p e : 0 < qd p -> rect_edge e = true -> crosses p (fst e) (snd e) = crosses_cell (qa p / qd p) (qb p / qd p) e.
Proof.
  intros Hd Hr. destruct e as [[x1 y1] [x2 y2]]. destruct p as [a b d]. cbn [qa qb qd fst snd] in *. unfold rect_edge in Hr. cbn [fst snd] in Hr.
  unfold crosses, crosses_cell. cbn [qa qb qd]. rewrite (le_div y1 b d), (le_div y2 b d), (lt_div y2 b d), (lt_div y1 b d) by exact Hd. set (i := a / d). set (j := b / d).
  apply orb_prop in Hr. destruct Hr as [Hx|Hy].
  - apply Z.eqb_eq in Hx. subst x2. rewrite Z.eqb_refl. cbn [andb]. replace (x1 - x1) with 0 by lia. rewrite !Z.mul_0_r.
    destruct ((y1 <=? j) && (j <? y2)) eqn:U.
    + apply andb_prop in U. destruct U as [U1 U2]. apply Z.leb_le in U1. apply Z.ltb_lt in U2. cbn [orb andb].
      assert (E : ((a - x1 * d) * (y2 - y1) <? 0) = (a <? x1 * d)).
      { destruct (Z.ltb_spec ((a - x1 * d) * (y2 - y1)) 0); destruct (Z.ltb_spec a (x1 * d)); try reflexivity; exfalso; nia. }
      rewrite E, lt_div by exact Hd. reflexivity.
    + destruct ((y2 <=? j) && (j <? y1)) eqn:V; cbn [orb andb]; [|reflexivity].
      apply andb_prop in V. destruct V as [V1 V2]. apply Z.leb_le in V1. apply Z.ltb_lt in V2.
      assert (E : (0 <? (a - x1 * d) * (y2 - y1)) = (a <? x1 * d)).
      { destruct (Z.ltb_spec 0 ((a - x1 * d) * (y2 - y1))); destruct (Z.ltb_spec a (x1 * d)); try reflexivity; exfalso; nia. }
      rewrite E, lt_div by exact Hd. reflexivity.
  - apply Z.eqb_eq in Hy. subst y2.
    assert (N : (y1 <=? j) && (j <? y1) = false) by (destruct (Z.leb_spec y1 j); destruct (Z.ltb_spec j y1); try reflexivity; lia).
    rewrite N. cbn [orb]. rewrite andb_false_r. reflexivity.
Qed.

Definition inside_cell (P : polygon) (i j : Z) : bool := fold_left xorb (map (crosses_cell i j) (all_edges P)) false.
Lemma inside_rect P p : 0 < qd p -> rectilinear P = true -> inside P p = inside_cell P (qa p / qd p) (qb p / qd p).
Proof.
  intros Hd Hr. unfold inside, inside_cell. f_equal. apply map_ext_in. intros e He. apply crosses_rect; [exact Hd|].
  unfold rectilinear in Hr. rewrite forallb_forall in Hr. apply Hr, He.
Qed.
Lemma inside_centre P i j : rectilinear P = true -> inside P (centre i j) = inside_cell P i j.
Proof.
  intro Hr. rewrite inside_rect by (cbn; lia || exact Hr). unfold centre. cbn [qa qb qd]. destruct (centre_div i j) as [-> ->]. reflexivity.
Qed.

(* ---- cells outside the box behave like the bordering ones *)
Definition clamp (lo hi v : Z) : Z := Z.max lo (Z.min v hi).
Definition in_box (x0 x1 y0 y1 : Z) (e : pt * pt) : Prop :=
  x0 < fst (fst e) <= x1 /\ x0 < fst (snd e) <= x1 /\ y0 < snd (fst e) <= y1 /\ y0 < snd (snd e) <= y1.
Lemma crosses_cell_clamp x0 x1 y0 y1 i j e : in_box x0 x1 y0 y1 e -> crosses_cell i j e = crosses_cell (clamp x0 x1 i) (clamp y0 y1 j) e.
Proof.
  destruct e as [[xa ya] [xb yb]]. unfold in_box, crosses_cell, clamp. cbn [fst snd]. intros (H1 & H2 & H3 & H4).
  destruct (Z.eqb_spec xa xb) as [->|]; [|reflexivity]. cbn [andb].
  repeat match goal with |- context[?a <=? ?b] => destruct (Z.leb_spec a b) | |- context[?a <? ?b] => destruct (Z.ltb_spec a b) end; cbn; try reflexivity; lia.
Qed.

Lemma fold_min_acc : forall l acc, fold_left Z.min l acc <= acc.
Proof. induction l as [|y l IH]; intro acc; cbn [fold_left]; [lia|]. etransitivity; [apply IH|]. lia. Qed.
Lemma fold_max_acc : forall l acc, acc <= fold_left Z.max l acc.
Proof. induction l as [|y l IH]; intro acc; cbn [fold_left]; [lia|]. etransitivity; [|apply IH]. lia. Qed.
Lemma fold_min_le l : forall d x, In x l -> fold_left Z.min l d <= x.
Proof.
  induction l as [|y l IH]; intros d x H; [contradiction|]. cbn [fold_left]. destruct H as [->|H]; [|apply IH, H].
  etransitivity; [apply fold_min_acc|]. lia.
Qed.
Lemma fold_max_ge l : forall d x, In x l -> x <= fold_left Z.max l d.
Proof.
  induction l as [|y l IH]; intros d x H; [contradiction|]. cbn [fold_left]. destruct H as [->|H]; [|apply IH, H].
  etransitivity; [|apply fold_max_acc]. lia.
Qed.
Lemma edges_from_in first : forall c v w, In (v, w) (edges_from first c) -> (In v c /\ (In w c \/ w = first)).
Proof.
  induction c as [|a c IH]; intros v w H; [contradiction|]. destruct c as [|b c].
  - cbn in H. destruct H as [[= <- <-]|[]]. split; [left; reflexivity|right; reflexivity].
  - cbn [edges_from] in H. destruct H as [[= <- <-]|H].
    + split; [left; reflexivity|left; right; left; reflexivity].
    + destruct (IH v w H) as [Hv Hw]. split; [right; exact Hv|destruct Hw as [Hw|Hw]; [left; right; exact Hw|right; exact Hw]].
Qed.
Lemma edges_in c v w : In (v, w) (edges c) -> In v c /\ In w c.
Proof.
  destruct c as [|f c]; [contradiction|]. unfold edges. intro H. destruct (edges_from_in f (f :: c) v w H) as [Hv [Hw| ->]]; split; try assumption. left; reflexivity.
Qed.
Lemma all_edges_in P v w : In (v, w) (all_edges P) -> In v (concat P) /\ In w (concat P).
Proof.
  unfold all_edges. intro H. apply in_flat_map in H. destruct H as (c & Hc & He). destruct (edges_in c v w He) as [Hv Hw].
  split; apply in_concat; exists c; split; assumption.
Qed.

Lemma zrange_in : forall n lo i, In i (zrange lo n) <-> lo <= i < lo + Z.of_nat n.
Proof.
  induction n as [|n IH]; intros lo i; cbn [zrange].
  - split; [contradiction|lia].
  - rewrite Nat2Z.inj_succ. split.
    + intros [<-|H]; [lia|]. apply IH in H. lia.
    + intro H. destruct (Z.eq_dec lo i) as [->|Hne]; [left; reflexivity|right; apply IH; lia].
Qed.

Theorem validate_sound A B R o : validate A B R o = true ->
  forall p, 0 < qd p -> inside R p = combine o (inside A p) (inside B p).
Proof.
  unfold validate. intro H. apply andb_prop in H. destruct H as [H Hc]. apply andb_prop in H. destruct H as [H HR]. apply andb_prop in H. destruct H as [HA HB].
  intros p Hd. unfold check_cells in Hc.
  set (xs := fst (coords A) ++ fst (coords B) ++ fst (coords R)) in *. set (ys := snd (coords A) ++ snd (coords B) ++ snd (coords R)) in *.
  set (x0 := zmin xs 0 - 1) in *. set (x1 := zmax xs 0) in *. set (y0 := zmin ys 0 - 1) in *. set (y1 := zmax ys 0) in *.
  assert (Box : forall P, (P = A \/ P = B \/ P = R) -> forall e, In e (all_edges P) -> in_box x0 x1 y0 y1 e).
  { intros P HP [v w] He. destruct (all_edges_in P v w He) as [Hv Hw].
    assert (Xs : forall u, In u (concat P) -> In (fst u) xs /\ In (snd u) ys).
    { intros u Hu. unfold xs, ys, coords. cbn [fst snd]. destruct HP as [->|[->| ->]]; split; rewrite ?in_app_iff;
        [left|left|right; left|right; left|right; right|right; right]; apply in_map; exact Hu. }
    destruct (Xs v Hv) as [Vx Vy]. destruct (Xs w Hw) as [Wx Wy]. unfold in_box, x0, x1, y0, y1, zmin, zmax. cbn [fst snd].
    pose proof (fold_min_le xs 0 _ Vx). pose proof (fold_max_ge xs 0 _ Vx). pose proof (fold_min_le xs 0 _ Wx). pose proof (fold_max_ge xs 0 _ Wx).
    pose proof (fold_min_le ys 0 _ Vy). pose proof (fold_max_ge ys 0 _ Vy). pose proof (fold_min_le ys 0 _ Wy). pose proof (fold_max_ge ys 0 _ Wy). lia. }
  set (i := qa p / qd p). set (j := qb p / qd p). set (i' := clamp x0 x1 i). set (j' := clamp y0 y1 j).
  assert (Cl : forall P, (P = A \/ P = B \/ P = R) -> inside_cell P i j = inside_cell P i' j').
  { intros P HP. unfold inside_cell. f_equal. apply map_ext_in. intros e He. apply crosses_cell_clamp. apply (Box P HP e He). }
  rewrite (inside_rect R p Hd HR), (inside_rect A p Hd HA), (inside_rect B p Hd HB). fold i j.
  rewrite (Cl R), (Cl A), (Cl B) by auto.
  rewrite <- (inside_centre R i' j' HR), <- (inside_centre A i' j' HA), <- (inside_centre B i' j' HB).
  rewrite forallb_forall in Hc.
  assert (Mono : x0 <= x1 /\ y0 <= y1).
  { unfold x0, x1, y0, y1, zmin, zmax. pose proof (fold_min_acc xs 0). pose proof (fold_max_acc xs 0). pose proof (fold_min_acc ys 0). pose proof (fold_max_acc ys 0). lia. }
  assert (Hi : In i' (zrange x0 (Z.to_nat (x1 - x0 + 1)))) by (apply zrange_in; unfold i', clamp; rewrite Z2Nat.id by lia; lia).
  specialize (Hc i' Hi). rewrite forallb_forall in Hc.
  assert (Hj : In j' (zrange y0 (Z.to_nat (y1 - y0 + 1)))) by (apply zrange_in; unfold j', clamp; rewrite Z2Nat.id by lia; lia).
  specialize (Hc j' Hj). apply Bool.eqb_prop in Hc. exact Hc.
Qed.
