(* C05 — property theorems only. Closed by [exact] of a lemma from Proofs.v and followed by Print Assumptions.
   Polygons have integer vertices; a point of the plane is (qa/qd, qb/qd) with qd > 0; [inside] is even-odd membership by exact
   crossing parity; [validate A B R o] is the executable check run on every result of the real clipper for rectilinear inputs. *)
From Coq Require Import ZArith List Bool.
From Verif Require Import C05.Spec C05.Proofs.
Import ListNotations.
Open Scope Z_scope.

(* If the validator accepts (A, B, R, op) then R is the pointwise Boolean combination of A and B at EVERY rational point of the
   plane: inside the bounding box, on lattice lines, and arbitrarily far outside *)
Theorem C05_validator_sound : forall A B R o, validate A B R o = true ->
  forall p, 0 < qd p -> inside R p = combine o (inside A p) (inside B p).
Proof. exact validate_sound. Qed.
Print Assumptions C05_validator_sound.

(* membership in a rectilinear integer polygon is constant on each unit cell (half-open, so also on the lattice lines) *)
Theorem C05_membership_constant_on_cells : forall P p, 0 < qd p -> rectilinear P = true -> inside P p = inside_cell P (qa p / qd p) (qb p / qd p).
Proof. exact inside_rect. Qed.
Print Assumptions C05_membership_constant_on_cells.

Module NonVacuous.
  Definition sq (x0 y0 x1 y1 : Z) : contour := [(x0, y0); (x1, y0); (x1, y1); (x0, y1)].
  Definition A : polygon := [sq 0 0 4 4].
  Definition B : polygon := [sq 2 2 6 6].
  Example union_accepted : validate A B [[(0,0); (4,0); (4,2); (6,2); (6,6); (2,6); (2,4); (0,4)]] OUnion = true. Proof. vm_compute. reflexivity. Qed.
  Example xor_with_hole_accepted : validate A B [[(0,0); (4,0); (4,2); (6,2); (6,6); (2,6); (2,4); (0,4)]; sq 2 2 4 4] OXor = true. Proof. vm_compute. reflexivity. Qed.
  Example wrong_result_rejected : validate A B [sq 0 0 6 6] OUnion = false. Proof. vm_compute. reflexivity. Qed.
  Example a_point_on_a_lattice_line : inside A {| qa := 4; qb := 1; qd := 1 |} = false /\ inside A {| qa := 0; qb := 7; qd := 2 |} = true. Proof. split; vm_compute; reflexivity. Qed.
End NonVacuous.
