(* C19 — the positive half: on a link-free file system, an archive of regular files and directories with plain names is reproduced
   under the destination - after a successful extraction every regular-file entry that is not overwritten by a later one is there
   with its content, every directory entry is a directory, and nothing that existed before has been unbound. *)
From Coq Require Import List Bool Arith Lia.
From Verif Require Import C19.Model C19.Proofs.
Import ListNotations.

Definition simple (n : path) : Prop := Forall (fun c => 2 <= c) n.
Lemma simple_app a b : simple a -> simple b -> simple (a ++ b).
Proof. intros. apply Forall_app. split; assumption. Qed.
Lemma simple_app_inv a b : simple (a ++ b) -> simple a /\ simple b.
Proof. intro H. apply Forall_app in H. exact H. Qed.
Lemma clean_simple : forall l acc, simple l -> clean l acc = acc ++ l.
Proof.
  induction l as [|c l IH]; intros acc H; cbn [clean]; [rewrite app_nil_r; reflexivity|].
  inversion H as [|? ? Hc Hl]; subst. destruct c as [|[|c]]; try lia. rewrite IH by exact Hl. rewrite <- app_assoc. reflexivity.
Qed.

(* the invariant of a link-free tree *)
Definition nolinks (f : fs) : Prop := forall q a t, look f q <> Some (NSym a t).
Definition parents (f : fs) : Prop := forall q x, q <> [] -> look f q = Some x -> exists m, look f (parent q) = Some (NDir m).
Definition filesok (f : fs) : Prop := forall q i, look f q = Some (NFile i) -> i < length (inodes f).
Definition inj (f : fs) : Prop := forall q q' i, look f q = Some (NFile i) -> look f q' = Some (NFile i) -> q = q'.
Definition Inv (f : fs) : Prop := nolinks f /\ parents f /\ filesok f /\ inj f.

Definition dirs (f : fs) (cur a : path) : Prop := forall k, 0 < k <= length a -> exists m, look f (cur ++ firstn k a) = Some (NDir m).
Lemma dirs_nil f cur : dirs f cur []. Proof. intros k H. cbn in H. lia. Qed.
Lemma dirs_cons f cur c a m : look f (cur ++ [c]) = Some (NDir m) -> dirs f (cur ++ [c]) a -> dirs f cur (c :: a).
Proof.
  intros L D k Hk. destruct k as [|k]; [lia|]. cbn [firstn]. destruct k as [|k].
  - cbn [firstn]. exists m. exact L.
  - destruct (D (S k)) as [m' Lm]; [cbn [length] in Hk; lia|]. exists m'. rewrite <- app_assoc in Lm. exact Lm.
Qed.

(* the kernel's walk through plain names of a link-free tree *)
Lemma walk_simple f : nolinks f -> forall comps fuel cur fl, simple comps -> length comps < fuel ->
  match walk fuel f cur comps fl with
  | Reached c r => exists a, comps = a ++ r /\ c = cur ++ a /\
                   (dirs f cur a \/ (r = [] /\ a <> [] /\ dirs f cur (removelast a) /\ exists i, look f (cur ++ a) = Some (NFile i))) /\
                   (r <> [] -> look f (c ++ [hd 0 r]) = None)
  | NotDir => True
  | Loop => False
  end.
Proof.
  intros NL. induction comps as [|c rest IH]; intros fuel cur fl HS F.
  - destruct fuel as [|fu]; [cbn in F; lia|]. cbn [walk]. exists []. split; [reflexivity|]. split; [rewrite app_nil_r; reflexivity|]. split; [left; apply dirs_nil|congruence].
  - destruct fuel as [|fu]; [cbn in F; lia|]. inversion HS as [|? ? Hc Hr]; subst. cbn [length] in F.
    cbn [walk]. destruct c as [|[|c]]; try lia.
    destruct (look f (cur ++ [S (S c)])) as [[m|i|ab tg]|] eqn:L.
    + specialize (IH fu (cur ++ [S (S c)]) fl Hr ltac:(lia)).
      destruct (walk fu f (cur ++ [S (S c)]) rest fl) as [c' r'| |]; [|exact I|exact IH].
      destruct IH as (a & E & Ec & D & N). exists (S (S c) :: a). split; [cbn; rewrite E; reflexivity|]. split; [rewrite Ec, <- app_assoc; reflexivity|]. split; [|exact N].
      destruct D as [D|(Er & Ane & D & i & Li)].
      * left. eapply dirs_cons; eauto.
      * right. split; [exact Er|]. split; [discriminate|]. split.
        -- destruct a as [|x a']; [congruence|]. change (removelast (S (S c) :: x :: a')) with (S (S c) :: removelast (x :: a')). eapply dirs_cons; eauto.
        -- exists i. rewrite <- app_assoc in Li. exact Li.
    + destruct rest as [|x r]; [|exact I]. exists [S (S c)]. split; [reflexivity|]. split; [reflexivity|]. split; [|congruence].
      right. split; [reflexivity|]. split; [discriminate|]. split; [apply dirs_nil|]. exists i. exact L.
    + exfalso. apply (NL _ _ _ L).
    + exists []. split; [reflexivity|]. split; [rewrite app_nil_r; reflexivity|]. split; [left; apply dirs_nil|]. intros _. cbn [hd]. exact L.
Qed.

(* ---- creating nodes keeps the invariant and every existing binding *)
Definition persist (f f' : fs) : Prop := forall q x, look f q = Some x -> look f' q = Some x.
Lemma persist_refl f : persist f f. Proof. intros q x H. exact H. Qed.
Lemma persist_trans a b c : persist a b -> persist b c -> persist a c.
Proof. intros A B q x H. apply B, A, H. Qed.
Lemma parent_snoc cur c : parent (cur ++ [c]) = cur.
Proof. unfold parent. apply removelast_last. Qed.
Lemma snoc_nonempty (l : path) x : l ++ [x] <> [].
Proof. intro H. apply (app_cons_not_nil l [] x). symmetry. exact H. Qed.
Lemma peq_refl q : peq q q = true. Proof. apply peq_eq. reflexivity. Qed.
Lemma snoc_neq (a : path) x y : a ++ [x] <> a ++ [x] ++ [y].
Proof. intro H. apply (f_equal (@length nat)) in H. rewrite !app_length in H. cbn in H. lia. Qed.

Lemma put_dir_Inv f q m mp : Inv f -> q <> [] -> look f q = None -> look f (parent q) = Some (NDir mp) ->
  Inv (put f q (NDir m)) /\ persist f (put f q (NDir m)) /\ inodes (put f q (NDir m)) = inodes f /\ look (put f q (NDir m)) q = Some (NDir m).
Proof.
  intros (NL & PA & FO & IJ) Hq L LP.
  assert (PS : persist f (put f q (NDir m))) by (intros q' x H; rewrite look_put, H; reflexivity).
  split; [|split; [exact PS|split; [reflexivity|rewrite look_put, L, peq_refl; reflexivity]]].
  split; [|split; [|split]].
  - intros q' a t H. rewrite look_put in H. destruct (look f q') eqn:E; [apply (NL q' a t); congruence|]. destruct (peq q q'); discriminate.
  - intros q' x Hq' H. rewrite look_put in H. destruct (look f q') eqn:E.
    + destruct (PA q' n Hq' E) as [m' Lm]. exists m'. apply PS. exact Lm.
    + destruct (peq q q') eqn:P; [|discriminate]. apply peq_eq in P. subst q'. exists mp. apply PS. exact LP.
  - intros q' i H. rewrite look_put in H. destruct (look f q') eqn:E; [injection H as ->; apply (FO q' i E)|destruct (peq q q'); discriminate].
  - intros a b i Ha Hb. rewrite look_put in Ha, Hb.
    destruct (look f a) eqn:Ea; [|destruct (peq q a); discriminate]. destruct (look f b) eqn:Eb; [|destruct (peq q b); discriminate].
    injection Ha as ->. injection Hb as ->. apply (IJ a b i Ea Eb).
Qed.

Lemma mkdirs_simple m : forall rest f cur mc, Inv f -> look f cur = Some (NDir mc) ->
  (rest <> [] -> look f (cur ++ [hd 0 rest]) = None) ->
  exists f1, mkdirs f cur rest m = (f1, true) /\ Inv f1 /\ persist f f1 /\ inodes f1 = inodes f /\ exists m', look f1 (cur ++ rest) = Some (NDir m').
Proof.
  induction rest as [|c r IH]; intros f cur mc I LC N.
  - exists f. cbn [mkdirs]. rewrite app_nil_r. split; [reflexivity|]. split; [exact I|]. split; [apply persist_refl|]. split; [reflexivity|]. exists mc. exact LC.
  - cbn [mkdirs]. specialize (N ltac:(discriminate)). cbn [hd] in N. rewrite N.
    assert (Q : cur ++ [c] <> []) by apply snoc_nonempty.
    destruct (put_dir_Inv f (cur ++ [c]) m mc I Q N) as (I2 & P2 & E2 & L2); [rewrite parent_snoc; exact LC|].
    destruct (IH (put f (cur ++ [c]) (NDir m)) (cur ++ [c]) m I2 L2) as (f1 & M & I1 & P1 & E1 & m' & L1).
    { intro Hr. destruct r as [|y r']; [congruence|]. cbn [hd]. rewrite look_put.
      destruct (look f ((cur ++ [c]) ++ [y])) eqn:E.
      - exfalso. destruct I as (_ & PA & _). destruct (PA _ n (snoc_nonempty _ _) E) as [mm Lm]. rewrite parent_snoc in Lm. congruence.
      - destruct (peq (cur ++ [c]) ((cur ++ [c]) ++ [y])) eqn:P; [|reflexivity]. apply peq_eq in P. exfalso. rewrite <- app_assoc in P. apply (snoc_neq cur c y P). }
    exists f1. split; [exact M|]. split; [exact I1|]. split; [eapply persist_trans; eassumption|]. split; [congruence|]. exists m'. rewrite <- app_assoc in L1. exact L1.
Qed.

Lemma set_nth_same {A} (l : list A) i x : i < length l -> nth_error (set_nth l i x) i = Some x.
Proof.
  intro H. unfold set_nth. rewrite nth_error_app2 by (rewrite firstn_length; lia). rewrite firstn_length. replace (i - Nat.min i (length l)) with 0 by lia. reflexivity.
Qed.

Section X.
Variables (root : path) (dmode fmode : nat -> nat) (pmode : nat).

(* the final step for a regular file, in an existing directory d *)
Lemma finish_reg f d c e md f' : Inv f -> look f d = Some (NDir md) -> etyp e = TReg ->
  finish dmode fmode f d c e None = (f', true) ->
  Inv f' /\ persist f f' /\
  (exists i m', look f' (d ++ [c]) = Some (NFile i) /\ nth_error (inodes f') i = Some (payload e, m')) /\
  (forall q j, q <> d ++ [c] -> look f q = Some (NFile j) -> nth_error (inodes f') j = nth_error (inodes f) j).
Proof.
  intros (NL & PA & FO & IJ) LD T E. unfold finish in E. rewrite T in E. set (q := d ++ [c]) in *.
  assert (Qne : q <> []) by apply snoc_nonempty.
  destruct (look f q) as [[m|i|a t]|] eqn:L.
  - discriminate.
  - injection E as <-. pose proof (FO q i L) as Hi. destruct f as [t ino]. cbn [tree inodes] in *.
    assert (LK : forall p, look {| tree := t; inodes := set_nth ino i (payload e, snd (nth i ino (0, 0))) |} p = look {| tree := t; inodes := ino |} p) by (intro; apply look_same_tree).
    split; [split; [|split; [|split]]|split; [|split]].
    + intros p a tt. rewrite LK. apply NL.
    + intros p x Hp. rewrite !LK. apply PA. exact Hp.
    + intros p j. rewrite LK. cbn [inodes]. rewrite set_nth_length by exact Hi. apply FO.
    + intros a b j. rewrite !LK. apply IJ.
    + intros p x. rewrite LK. auto.
    + exists i, (snd (nth i ino (0, 0))). rewrite LK. split; [exact L|]. cbn [inodes]. apply set_nth_same. exact Hi.
    + intros p j Hp Lp. cbn [inodes]. apply set_nth_other; [exact Hi|]. intros ->. apply Hp. apply (IJ p q i Lp L).
  - exfalso. apply (NL _ _ _ L).
  - injection E as <-. destruct f as [t ino]. cbn [tree inodes] in *.
    set (x := (payload e, fmode (emode e))).
    assert (LK : forall p, p <> [] -> look {| tree := t ++ [(q, NFile (length ino))]; inodes := ino ++ [x] |} p =
                 match look {| tree := t; inodes := ino |} p with Some y => Some y | None => if peq q p then Some (NFile (length ino)) else None end).
    { intros p Hp. rewrite look_app_tree by exact Hp. rewrite <- (look_same_tree t ino (ino ++ [x])). reflexivity. }
    assert (L0 : forall y, look {| tree := t ++ [(q, NFile (length ino))]; inodes := ino ++ [x] |} [] = Some y -> look {| tree := t; inodes := ino |} [] = Some y) by (intros y H; exact H).
    assert (PS : persist {| tree := t; inodes := ino |} {| tree := t ++ [(q, NFile (length ino))]; inodes := ino ++ [x] |}).
    { intros p y H. destruct p as [|z p]; [exact H|]. rewrite LK by discriminate. rewrite H. reflexivity. }
    split; [split; [|split; [|split]]|split; [exact PS|split]].
    + intros p a tt H. destruct p as [|z p]; [discriminate|]. rewrite LK in H by discriminate.
      destruct (look {| tree := t; inodes := ino |} (z :: p)) eqn:Ep; [apply (NL (z :: p) a tt); congruence|]. destruct (peq q (z :: p)); discriminate.
    + intros p y Hp H. rewrite LK in H by exact Hp. destruct (look {| tree := t; inodes := ino |} p) eqn:Ep.
      * destruct (PA p n Hp Ep) as [mm Lm]. exists mm. apply PS. exact Lm.
      * destruct (peq q p) eqn:P; [|discriminate]. apply peq_eq in P. subst p. exists md. unfold q. rewrite parent_snoc. apply PS. exact LD.
    + intros p j H. cbn [inodes]. rewrite app_length. cbn [length]. destruct p as [|z p]; [discriminate|]. rewrite LK in H by discriminate.
      destruct (look {| tree := t; inodes := ino |} (z :: p)) eqn:Ep.
      * injection H as ->. pose proof (FO _ _ Ep) as HH. cbn [inodes] in HH. lia.
      * destruct (peq q (z :: p)); [|discriminate]. injection H as <-. lia.
    + intros a b j Ha Hb. destruct a as [|za a]; [discriminate|]. destruct b as [|zb b]; [discriminate|]. rewrite LK in Ha, Hb by discriminate.
      destruct (look {| tree := t; inodes := ino |} (za :: a)) eqn:Ea; destruct (look {| tree := t; inodes := ino |} (zb :: b)) eqn:Eb.
      * injection Ha as ->. injection Hb as ->. apply (IJ _ _ j Ea Eb).
      * injection Ha as ->. destruct (peq q (zb :: b)); [|discriminate]. injection Hb as <-. pose proof (FO _ _ Ea) as HH. cbn [inodes] in HH. lia.
      * injection Hb as ->. destruct (peq q (za :: a)); [|discriminate]. injection Ha as <-. pose proof (FO _ _ Eb) as HH. cbn [inodes] in HH. lia.
      * destruct (peq q (za :: a)) eqn:P1; [|discriminate]. destruct (peq q (zb :: b)) eqn:P2; [|discriminate]. apply peq_eq in P1, P2. congruence.
    + exists (length ino), (fmode (emode e)). rewrite LK by exact Qne. rewrite L, peq_refl. split; [reflexivity|]. cbn [inodes]. rewrite nth_error_app2 by lia. rewrite Nat.sub_diag. reflexivity.
    + intros p j Hp Lp. cbn [inodes]. apply nth_error_app1. apply (FO p j Lp).
Qed.

(* ---- one entry with a plain name below a plain, existing destination *)
Hypothesis root_simple : simple root.

Lemma last_app_ne (a b : path) d : b <> [] -> last (a ++ b) d = last b d.
Proof.
  intro H. induction a as [|x a IH]; [reflexivity|]. cbn [app]. destruct (a ++ b) eqn:E; [destruct a; [cbn in E; congruence|discriminate]|]. change (last (x :: n :: l) d) with (last (n :: l) d). exact IH.
Qed.
Lemma look_nil f : look f [] = Some (NDir 493). Proof. reflexivity. Qed.
Lemma dirs_last f a : dirs f [] a -> exists m, look f a = Some (NDir m).
Proof.
  intro D. destruct a as [|x a']; [exists 493; reflexivity|]. destruct (D (length (x :: a'))) as [m L]; [cbn; lia|]. rewrite firstn_all in L. exists m. exact L.
Qed.

Lemma walk_parent f n : Inv f -> dirs f [] root -> simple n -> n <> [] -> length root + length n <= 63 ->
  (exists c r, walk FUEL f [] (root ++ removelast n) true = Reached c r /\ c ++ r = root ++ removelast n /\
               (r <> [] -> look f (c ++ [hd 0 r]) = None) /\
               ((exists mc, look f c = Some (NDir mc)) \/ (r = [] /\ exists i, look f c = Some (NFile i)))) \/
  walk FUEL f [] (root ++ removelast n) true = NotDir.
Proof.
  intros (NL & _) DR SN NE LEN.
  assert (SP : simple (root ++ removelast n)).
  { apply simple_app; [exact root_simple|]. unfold simple in *. rewrite Forall_forall in *. intros x Hx. apply SN. rewrite (app_removelast_last 0 NE). apply in_or_app. left. exact Hx. }
  assert (LN : length (root ++ removelast n) < FUEL).
  { rewrite app_length. assert (length (removelast n) <= length n). { rewrite (app_removelast_last 0 NE) at 2. rewrite app_length. lia. } unfold FUEL. lia. }
  pose proof (walk_simple f NL (root ++ removelast n) FUEL [] true SP LN) as W.
  destruct (walk FUEL f [] (root ++ removelast n) true) as [c r| |]; [|right; reflexivity|contradiction].
  left. destruct W as (a & E & Ec & D & N). cbn [app] in Ec. subst c. exists a, r. split; [reflexivity|]. split; [symmetry; exact E|]. split; [exact N|].
  destruct D as [D|(Er & _ & _ & i & Li)]; [left; apply dirs_last; exact D|right; split; [exact Er|exists i; exact Li]].
Qed.

Lemma name_facts n : simple n -> n <> [] ->
  clean (root ++ n) [] = root ++ n /\ below_root root (root ++ n) = true /\ parent (root ++ n) = root ++ removelast n /\ lastc (root ++ n) = last n 0.
Proof.
  intros SN NE. split; [rewrite clean_simple by (apply simple_app; assumption); reflexivity|]. split; [|split].
  - unfold below_root. apply andb_true_intro. split; [apply is_prefix_spec; exists n; reflexivity|]. apply Nat.ltb_lt. rewrite app_length. destruct n; [congruence|cbn; lia].
  - unfold parent. apply removelast_app. exact NE.
  - unfold lastc. apply last_app_ne. exact NE.
Qed.

Theorem extract1_reg f e n f' : Inv f -> dirs f [] root -> simple n -> n <> [] -> length root + length n <= 63 ->
  ename e = n -> etyp e = TReg -> extract1 root dmode fmode pmode f e = (f', true) ->
  Inv f' /\ persist f f' /\
  (exists i m', look f' (root ++ n) = Some (NFile i) /\ nth_error (inodes f') i = Some (payload e, m')) /\
  (forall q j, q <> root ++ n -> look f q = Some (NFile j) -> nth_error (inodes f') j = nth_error (inodes f) j).
Proof.
  intros I DR SN NE LEN EN T E. destruct (name_facts n SN NE) as (C & B & P & LC).
  destruct (walk_parent f n I DR SN NE LEN) as [(c & r & W & CR & N & K)|W];
    unfold extract1 in E; rewrite EN, C, B, P, LC, W in E; change (negb true) with false in E; cbv iota in E; [|discriminate].
  assert (PR : is_prefix root (c ++ r) = true) by (rewrite CR; apply is_prefix_spec; eexists; reflexivity). rewrite PR in E. cbn [negb] in E.
  rewrite T in E.
  assert (NR : (match r with [] => match look f (c ++ [last n 0]) with Some (NSym _ _) => true | _ => false end | _ :: _ => false end) = false).
  { destruct r; [|reflexivity]. destruct (look f (c ++ [last n 0])) as [[| |a t]|] eqn:L; try reflexivity. exfalso. destruct I as (NL & _). apply (NL _ _ _ L). }
  rewrite NR in E.
  destruct K as [(mc & Lc)|(Er & i & Li)].
  - destruct (mkdirs_simple pmode r f c mc I Lc N) as (f1 & M & I1 & P1 & E1 & m' & L1). rewrite M in E. cbn [negb] in E. rewrite L1 in E.
    assert (Q : (c ++ r) ++ [last n 0] = root ++ n) by (rewrite CR, <- app_assoc, <- (app_removelast_last 0 NE); reflexivity).
    destruct (finish_reg f1 (c ++ r) (last n 0) e m' f' I1 L1 T E) as (I' & P' & X & FR). rewrite Q in *.
    split; [exact I'|]. split; [eapply persist_trans; eassumption|]. split; [exact X|].
    intros q j Hq Lq. rewrite (FR q j Hq (P1 q _ Lq)). rewrite E1. reflexivity.
  - subst r. cbn [mkdirs] in E. cbn [negb] in E. rewrite app_nil_r in E. rewrite Li in E. discriminate.
Qed.

Theorem extract1_dir f e n f' : Inv f -> dirs f [] root -> simple n -> n <> [] -> length root + length n <= 63 ->
  ename e = n -> etyp e = TDir -> extract1 root dmode fmode pmode f e = (f', true) ->
  Inv f' /\ persist f f' /\ inodes f' = inodes f /\ exists m, look f' (root ++ n) = Some (NDir m).
Proof.
  intros I DR SN NE LEN EN T E. destruct (name_facts n SN NE) as (C & B & P & LC).
  destruct (walk_parent f n I DR SN NE LEN) as [(c & r & W & CR & N & K)|W];
    unfold extract1 in E; rewrite EN, C, B, P, LC, W in E; change (negb true) with false in E; cbv iota in E; [|discriminate].
  assert (PR : is_prefix root (c ++ r) = true) by (rewrite CR; apply is_prefix_spec; eexists; reflexivity). rewrite PR in E. cbn [negb] in E.
  rewrite T in E.
  assert (Q : (c ++ r) ++ [last n 0] = root ++ n) by (rewrite CR, <- app_assoc, <- (app_removelast_last 0 NE); reflexivity).
  destruct r as [|x r'].
  - (* the parent exists: the final step *)
    destruct K as [(mc & Lc)|(_ & i & Li)].
    + cbn [mkdirs negb] in E. rewrite app_nil_r in *. rewrite Lc in E. unfold finish in E. rewrite T in E. rewrite Q in E.
      destruct (look f (root ++ n)) as [x|] eqn:L.
      * injection E as <- LD. split; [exact I|]. split; [apply persist_refl|]. split; [reflexivity|].
        unfold leads_to_dir in LD. rewrite L in LD. destruct x as [m|i|a t]; [exists m; exact L|discriminate|]. exfalso. destruct I as (NL & _). apply (NL _ _ _ L).
      * injection E as <-. assert (Qn : root ++ n <> []) by (destruct root; [destruct n; [congruence|discriminate]|discriminate]).
        destruct (put_dir_Inv f (root ++ n) (dmode (emode e)) mc I Qn L) as (I2 & P2 & E2 & L2).
        { rewrite <- Q, parent_snoc. exact Lc. }
        split; [exact I2|]. split; [exact P2|]. split; [exact E2|]. eexists. exact L2.
    + cbn [mkdirs negb] in E. rewrite app_nil_r in E. rewrite Li in E. discriminate.
  - (* missing parents: MkdirAll creates them and the directory itself *)
    destruct K as [(mc & Lc)|(Er & _)]; [|discriminate].
    destruct (mkdirs_simple (dmode (emode e)) ((x :: r') ++ [last n 0]) f c mc I Lc) as (f1 & M & I1 & P1 & E1 & m' & L1).
    { intros _. apply N. discriminate. }
    rewrite M in E. injection E as <-. split; [exact I1|]. split; [exact P1|]. split; [exact E1|]. exists m'. rewrite app_assoc, Q in L1. exact L1.
Qed.

(* ---- the whole archive *)
Definition plain (e : entry) : Prop := (etyp e = TReg \/ etyp e = TDir) /\ simple (ename e) /\ ename e <> [] /\ length root + length (ename e) <= 63.

Lemma dirs_persist f f' a : persist f f' -> dirs f [] a -> dirs f' [] a.
Proof. intros P D k Hk. destruct (D k Hk) as [m L]. exists m. apply P. exact L. Qed.

(* one plain entry: everything bound stays bound, and a file keeps its content unless the entry is a regular file of that very name *)
Lemma extract1_plain f e f' : Inv f -> dirs f [] root -> plain e -> extract1 root dmode fmode pmode f e = (f', true) ->
  Inv f' /\ dirs f' [] root /\ persist f f' /\
  (forall q j, ~ (etyp e = TReg /\ q = root ++ ename e) -> look f q = Some (NFile j) -> nth_error (inodes f') j = nth_error (inodes f) j).
Proof.
  intros I DR ([T|T] & SN & NE & LEN) E.
  - destruct (extract1_reg f e (ename e) f' I DR SN NE LEN eq_refl T E) as (I' & P' & _ & FR).
    split; [exact I'|]. split; [eapply dirs_persist; eassumption|]. split; [exact P'|]. intros q j H L. apply (FR q j); [|exact L]. intro Q. apply H. split; assumption.
  - destruct (extract1_dir f e (ename e) f' I DR SN NE LEN eq_refl T E) as (I' & P' & E' & _).
    split; [exact I'|]. split; [eapply dirs_persist; eassumption|]. split; [exact P'|]. intros q j _ _. rewrite E'. reflexivity.
Qed.

(* later entries do not disturb a file unless one of them is a regular file of the same name *)
Lemma extract_keeps : forall es f f' q j x, Inv f -> dirs f [] root -> Forall plain es -> extract root dmode fmode pmode f es = (f', true) ->
  (forall e, In e es -> ~ (etyp e = TReg /\ q = root ++ ename e)) ->
  look f q = Some (NFile j) -> nth_error (inodes f) j = Some x ->
  look f' q = Some (NFile j) /\ nth_error (inodes f') j = Some x.
Proof.
  induction es as [|e es IH]; intros f f' q j x I DR PL E NO L X; cbn [extract] in E.
  - injection E as <-. split; assumption.
  - inversion PL as [|? ? Pe Pes]; subst. destruct (extract1 root dmode fmode pmode f e) as [f1 ok] eqn:E1. destruct ok; [|discriminate].
    destruct (extract1_plain f e f1 I DR Pe E1) as (I1 & D1 & P1 & FR).
    apply (IH f1 f' q j x I1 D1 Pes E); [intros e' IN; apply NO; right; exact IN|apply P1; exact L|].
    rewrite (FR q j (NO e (or_introl eq_refl)) L). exact X.
Qed.

(* THE ARCHIVE IS REPRODUCED: after a successful extraction of plain entries into a link-free tree, every regular-file entry that no
   later regular-file entry of the same name overwrites is a file with the entry's content, every directory entry is a directory,
   and whatever was there before is still bound *)
Theorem extract_reproduces : forall es f f', Inv f -> dirs f [] root -> Forall plain es -> extract root dmode fmode pmode f es = (f', true) ->
  persist f f' /\ Inv f' /\
  (forall pre e post, es = pre ++ e :: post -> etyp e = TReg -> (forall e', In e' post -> ~ (etyp e' = TReg /\ ename e' = ename e)) ->
     exists i m, look f' (root ++ ename e) = Some (NFile i) /\ nth_error (inodes f') i = Some (payload e, m)) /\
  (forall e, In e es -> etyp e = TDir -> exists m, look f' (root ++ ename e) = Some (NDir m)).
Proof.
  induction es as [|e es IH]; intros f f' I DR PL E; cbn [extract] in E.
  - injection E as <-. split; [apply persist_refl|]. split; [exact I|]. split; [intros [|? ?] ? ? H; discriminate|intros ? []].
  - inversion PL as [|? ? Pe Pes]; subst. destruct (extract1 root dmode fmode pmode f e) as [f1 ok] eqn:E1. destruct ok; [|discriminate].
    destruct (extract1_plain f e f1 I DR Pe E1) as (I1 & D1 & P1 & _).
    destruct (IH f1 f' I1 D1 Pes E) as (P2 & I2 & REG & DIR).
    split; [eapply persist_trans; eassumption|]. split; [exact I2|]. split.
    + intros pre e0 post EQ T NO. destruct pre as [|p pre].
      * cbn [app] in EQ. injection EQ as <- <-. destruct Pe as (_ & SN & NE & LEN).
        destruct (extract1_reg f e (ename e) f1 I DR SN NE LEN eq_refl T E1) as (_ & _ & (i & m & Li & Xi) & _).
        destruct (extract_keeps es f1 f' (root ++ ename e) i (payload e, m) I1 D1 Pes E) as [A B]; [|exact Li|exact Xi|exists i, m; split; assumption].
        intros e' IN [T' Q]. apply (NO e' IN). split; [exact T'|]. apply app_inv_head in Q. symmetry. exact Q.
      * cbn [app] in EQ. injection EQ as <- EQ. apply (REG pre e0 post EQ T NO).
    + intros e0 [<-|IN] T.
      * destruct Pe as (_ & SN & NE & LEN). destruct (extract1_dir f e (ename e) f1 I DR SN NE LEN eq_refl T E1) as (_ & _ & _ & m & L). exists m. apply P2. exact L.
      * apply (DIR e0 IN T).
Qed.
End X.
