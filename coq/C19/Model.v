(* C19 — model of archive extraction (xio/fs/tar/untar.go, xio/fs/zip/unzip.go with xio/fs/internal/confine.go) over a symbolic
   file system: absolute paths as lists of names (0 = ".", 1 = "..", >= 2 proper names), nodes = directory / file (an inode
   number) / symbolic link (absolute or relative target). An operation takes effect where the kernel's path walk ends: [walk]
   follows symbolic links through the existing part of a path and returns that real directory together with the names that
   do not exist yet. No proofs here. *)
From Coq Require Import List Bool Arith.
Import ListNotations.

Definition path := list nat.
Inductive node := NDir (mode : nat) | NFile (ino : nat) | NSym (abs : bool) (target : path).
Record fs := { tree : list (path * node); inodes : list (nat * nat) (* content id, mode *) }.
Fixpoint peq (a b : path) : bool := match a, b with [], [] => true | x :: a', y :: b' => (x =? y) && peq a' b' | _, _ => false end.
Definition look (f : fs) (p : path) : option node :=
  match p with [] => Some (NDir 493) | _ => match find (fun e => peq (fst e) p) (tree f) with Some e => Some (snd e) | None => None end end.
Definition put (f : fs) (p : path) (n : node) : fs := {| tree := tree f ++ [(p, n)]; inodes := inodes f |}.
Definition parent (p : path) : path := removelast p.
Fixpoint is_prefix (a b : path) : bool := match a, b with [], _ => true | x :: a', y :: b' => (x =? y) && is_prefix a' b' | _, [] => false end.

(* the kernel's walk: real directory reached, and what is left once a name does not exist. follow_last: whether a symbolic link
   in the last position is followed (stat) or returned (lstat) *)
Inductive walked := Reached (cur : path) (rest : path) | NotDir | Loop.
Fixpoint walk (fuel : nat) (f : fs) (cur : path) (comps : path) (follow_last : bool) : walked :=
  match fuel with O => Loop | S fu =>
  match comps with
  | [] => Reached cur []
  | 0 :: rest => walk fu f cur rest follow_last
  | 1 :: rest => walk fu f (parent cur) rest follow_last
  | c :: rest =>
    let p := cur ++ [c] in
    match look f p with
    | None => Reached cur comps
    | Some (NDir _) => walk fu f p rest follow_last
    | Some (NFile _) => match rest with [] => Reached p [] | _ => NotDir end
    | Some (NSym ab tgt) =>
      match rest, follow_last with
      | [], false => Reached p []
      | _, _ => match walk fu f (if ab then [] else cur) tgt true with
                | Reached d [] =>                                     (* the link resolves: go on from there *)
                  match look f d, rest with
                  | Some (NFile _), _ :: _ => NotDir
                  | _, _ => walk fu f d rest follow_last
                  end
                | Reached _ _ => Reached cur comps                   (* dangling: this name counts as not resolvable *)
                | e => e
                end
      end
    end
  end end.
Definition FUEL := 64.

(* lexical filepath.Join(root, name): Clean of an absolute path *)
Fixpoint clean (comps : path) (acc : path) : path :=
  match comps with [] => acc | 0 :: r => clean r acc | 1 :: r => clean r (removelast acc) | c :: r => clean r (acc ++ [c]) end.

(* Every operation names an entry by a clean absolute path p = dir ++ [c]. The kernel resolves dir (following links) and then
   looks c up in the directory it reached; the extraction code resolves the same dir for its Confine check. The model therefore
   walks dir once per entry: [Reached cur rest] = the real directory that exists and the names below it that do not. *)
Definition lastc (p : path) : nat := last p 0.

(* os.MkdirAll below the real directory the walk reached: what was created before a failure stays *)
Fixpoint mkdirs (f : fs) (cur : path) (rest : path) (mode : nat) : fs * bool :=
  match rest with
  | [] => (f, true)
  | c :: r => match look f (cur ++ [c]) with
              | Some _ => (f, false)                 (* the name exists but did not resolve: a dangling symbolic link *)
              | None => mkdirs (put f (cur ++ [c]) (NDir mode)) (cur ++ [c]) r mode
              end
  end.
Definition set_nth {A} (l : list A) (i : nat) (x : A) : list A := firstn i l ++ x :: skipn (S i) l.
(* does the node at q, taken as the last step of a stat, lead to a directory *)
Definition leads_to_dir (f : fs) (q : path) : bool :=
  match look f q with
  | Some (NDir _) => true
  | Some (NSym ab tgt) => match walk FUEL f (if ab then [] else parent q) tgt true with
                          | Reached d [] => match look f d with Some (NDir _) => true | _ => false end
                          | _ => false end
  | _ => false
  end.

Inductive etype := TReg | TDir | TSym | TLink | TIgn.   (* TIgn: a tar entry of a type the extractor does nothing for (FIFO, device, ...): only the path checks run *)
Record entry := { ename : path; etyp : etype; labs : bool; lname : path; payload : nat; emode : nat }.
Section X.
Variables (root : path) (dmode : nat -> nat) (fmode : nat -> nat) (* recorded permission bits after mask and umask *) (pmode : nat) (* implicit parents *).
Definition below_root (p : path) : bool := is_prefix root p && (length root <? length p).

(* the final step of each kind of entry, in the real directory d *)
Definition finish (f : fs) (d : path) (c : nat) (e : entry) (src : option node) : fs * bool :=
  let q := d ++ [c] in
  match etyp e with
  | TReg => match look f q with
            | None => ({| tree := tree f ++ [(q, NFile (length (inodes f)))]; inodes := inodes f ++ [(payload e, fmode (emode e))] |}, true)
            | Some (NFile i) => ({| tree := tree f; inodes := set_nth (inodes f) i (payload e, snd (nth i (inodes f) (0, 0))) |}, true)
            | Some _ => (f, false)       (* a directory; a symbolic link was refused by Confine *)
            end
  | TDir => match look f q with
            | None => (put f q (NDir (dmode (emode e))), true)
            | Some _ => (f, leads_to_dir f q)
            end
  | TSym => match look f q with None => (put f q (NSym (labs e) (lname e)), true) | Some _ => (f, false) end
  | TLink => match src, look f q with Some n, None => (put f q n, true) | _, _ => (f, false) end
  | TIgn => (f, true)
  end.

(* the source of a hard link: a clean path below the destination whose real directory lies in the destination; link(2) does not follow a final link *)
Definition link_source (f : fs) (o : path) : option node :=
  if negb (below_root o) then None else
  match walk FUEL f [] (parent o) true with
  | Reached cur [] => if is_prefix root cur then match look f (cur ++ [lastc o]) with Some (NDir _) | None => None | Some n => Some n end else None
  | _ => None
  end.

Definition extract1 (f : fs) (e : entry) : fs * bool :=
  let p := clean (root ++ ename e) [] in
  if negb (below_root p) then (f, false) else
  match walk FUEL f [] (parent p) true with
  | Reached cur rest =>
    if negb (is_prefix root (cur ++ rest)) then (f, false) else                       (* Confine: the real directory *)
    let refused := match etyp e, rest with TReg, [] => match look f (cur ++ [lastc p]) with Some (NSym _ _) => true | _ => false end | _, _ => false end in
    if refused then (f, false) else                                                    (* Confine: no writing through a final link *)
    match etyp e, rest with
    | TDir, _ :: _ =>                                                                  (* MkdirAll(p, recorded mode): every missing directory gets the entry's mode *)
      let '(f1, ok) := mkdirs f cur (rest ++ [lastc p]) (dmode (emode e)) in (f1, ok)
    | TIgn, _ => (f, true)                                                             (* checked, then skipped: nothing is created, not even the parents *)
    | _, _ =>
      let '(f1, ok) := mkdirs f cur rest pmode in
      if negb ok then (f1, false) else
      let d := cur ++ rest in
      match look f1 d with
      | Some (NDir _) => finish f1 d (lastc p) e (match etyp e with TLink => link_source f1 (clean (root ++ lname e) []) | _ => None end)
      | _ => (f1, false)                                                               (* the entry's directory is a file *)
      end
    end
  | _ => (f, false)
  end.
Fixpoint extract (f : fs) (es : list entry) : fs * bool :=
  match es with
  | [] => (f, true)
  | e :: r => let '(f', ok) := extract1 f e in if ok then extract f' r else (f', false)
  end.
End X.
