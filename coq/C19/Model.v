(* C19 — model of archive extraction (xio/fs/tar/untar.go, xio/fs/zip/unzip.go with xio/fs/internal/confine.go) over a symbolic
   file system: absolute paths as lists of names (0 = ".", 1 = "..", >= 2 proper names), nodes = directory / file (an inode
   number) / symbolic link (absolute or relative target). An operation takes effect where the kernel's path walk ends: [walk]
   follows symbolic links through the existing part of a path and returns that real directory together with the names that
   do not exist yet. No proofs here. *)
From Coq Require Import List Bool Arith.
Import ListNotations.

Definition path := list nat.
Inductive node := NDir (mode : nat) | NFile (ino : nat) | NSym (abs : bool) (target : path).
Record fs := { tree : list (path * node); inodes : list (nat * nat) (* content id, mode *) }.
Fixpoint peq (a b : path) : bool := match a, b with [], [] => true | x :: a', y :: b' => (x =? y) && peq a' b' | _, _ => false end.
Definition look (f : fs) (p : path) : option node :=
  match p with [] => Some (NDir 493) | _ => match find (fun e => peq (fst e) p) (tree f) with Some e => Some (snd e) | None => None end end.
Definition put (f : fs) (p : path) (n : node) : fs := {| tree := tree f ++ [(p, n)]; inodes := inodes f |}.
Definition parent (p : path) : path := removelast p.
Fixpoint is_prefix (a b : path) : bool := match a, b with [], _ => true | x :: a', y :: b' => (x =? y) && is_prefix a' b' | _, [] => false end.

(* the kernel's walk: real directory reached, and what is left once a name does not exist. follow_last: whether a symbolic link
   in the last position is followed (stat) or returned (lstat) *)
Inductive walked := Reached (cur : path) (rest : path) | NotDir | Loop.
Fixpoint walk (fuel : nat) (f : fs) (cur : path) (comps : path) (follow_last : bool) : walked :=
  match fuel with O => Loop | S fu =>
  match comps with
  | [] => Reached cur []
  | 0 :: rest => walk fu f cur rest follow_last
  | 1 :: rest => walk fu f (parent cur) rest follow_last
  | c :: rest =>
    let p := cur ++ [c] in
    match look f p with
    | None => Reached cur comps
    | Some (NDir _) => walk fu f p rest follow_last
    | Some (NFile _) => match rest with [] => Reached p [] | _ => NotDir end
    | Some (NSym ab tgt) =>
      match rest, follow_last with
      | [], false => Reached p []
      | _, _ => match walk fu f (if ab then [] else cur) tgt true with
                | Reached d [] =>                                     (* the link resolves: go on from there *)
                  match look f d, rest with
                  | Some (NFile _), _ :: _ => NotDir
                  | _, _ => walk fu f d rest follow_last
                  end
                | Reached _ _ => Reached cur comps                   (* dangling: this name counts as not resolvable *)
                | e => e
                end
      end
    end
  end end.
Definition FUEL := 64.

(* lexical filepath.Join(root, name): Clean of an absolute path *)
Fixpoint clean (comps : path) (acc : path) : path :=
  match comps with [] => acc | 0 :: r => clean r acc | 1 :: r => clean r (removelast acc) | c :: r => clean r (acc ++ [c]) end.

(* internal.Confine: the real location of the entry's directory must lie in the destination; optionally the entry itself must not be a symbolic link *)
Definition confine (root : path) (f : fs) (p : path) (no_follow : bool) : bool :=
  match walk FUEL f [] (parent p) true with
  | Reached cur rest =>
    is_prefix root (cur ++ rest) &&
    (if no_follow then match walk FUEL f [] p false with Reached q [] => match look f q with Some (NSym _ _) => false | _ => true end | _ => true end else true)
  | _ => false
  end.

(* os.MkdirAll(p, mode): create what is missing below the real directory the walk reaches *)
Fixpoint mkdirs (f : fs) (cur : path) (rest : path) (mode : nat) : fs * bool :=
  match rest with
  | [] => (f, true)
  | c :: r => match look f (cur ++ [c]) with
              | Some _ => (f, false)                 (* the name exists but did not resolve: a dangling symbolic link *)
              | None => mkdirs (put f (cur ++ [c]) (NDir mode)) (cur ++ [c]) r mode
              end
  end.
(* what was created before a failure stays *)
Definition mkdirall (f : fs) (p : path) (mode : nat) : fs * bool :=
  match walk FUEL f [] p true with
  | Reached cur [] => (f, match look f cur with Some (NDir _) => true | _ => false end)
  | Reached cur rest => mkdirs f cur rest mode
  | _ => (f, false)
  end.

Definition set_nth {A} (l : list A) (i : nat) (x : A) : list A := firstn i l ++ x :: skipn (S i) l.
(* OpenFile(p, O_CREATE|O_WRONLY|O_TRUNC, mode) and the copy of the payload *)
Definition openwrite (f : fs) (p : path) (content mode : nat) : option fs :=
  match walk FUEL f [] p true with
  | Reached q [] => match look f q with
                    | Some (NFile i) => Some {| tree := tree f; inodes := set_nth (inodes f) i (content, snd (nth i (inodes f) (0, 0))) |}
                    | _ => None end
  | Reached cur [c] => match look f (cur ++ [c]) with
                       | Some _ => None   (* a dangling link in the last position: open would create its target; Confine has refused it before *)
                       | None => Some {| tree := tree f ++ [(cur ++ [c], NFile (length (inodes f)))]; inodes := inodes f ++ [(content, mode)] |}
                       end
  | _ => None
  end.
Definition symlink (f : fs) (ab : bool) (tgt : path) (p : path) : option fs :=
  match walk FUEL f [] p false with
  | Reached cur [c] => match look f (cur ++ [c]) with Some _ => None | None => Some (put f (cur ++ [c]) (NSym ab tgt)) end
  | _ => None
  end.
Definition hardlink (f : fs) (old : path) (p : path) : option fs :=
  match walk FUEL f [] old false with
  | Reached o [] =>
    match look f o with
    | Some (NDir _) | None => None
    | Some n => match walk FUEL f [] p false with
                | Reached cur [c] => match look f (cur ++ [c]) with Some _ => None | None => Some (put f (cur ++ [c]) n) end
                | _ => None end
    end
  | _ => None
  end.

Inductive etype := TReg | TDir | TSym | TLink.
Record entry := { ename : path; etyp : etype; labs : bool; lname : path; payload : nat; emode : nat }.
Definition then_ (r : fs * bool) (g : fs -> option fs) : fs * bool :=
  let '(f1, ok) := r in if ok then match g f1 with Some f2 => (f2, true) | None => (f1, false) end else (f1, false).
Section X.
Variables (root : path) (dmode : nat -> nat) (fmode : nat -> nat) (* recorded permission bits after mask and umask *) (pmode : nat) (* implicit parents *).
Definition below_root (p : path) : bool := is_prefix root p && (length root <? length p).
Definition extract1 (f : fs) (e : entry) : fs * bool :=
  let p := clean (root ++ ename e) [] in
  if negb (below_root p) then (f, false) else
  if negb (confine root f p (match etyp e with TReg => true | _ => false end)) then (f, false) else
  match etyp e with
  | TReg => then_ (mkdirall f (parent p) pmode) (fun f1 => openwrite f1 p (payload e) (fmode (emode e)))
  | TDir => mkdirall f p (dmode (emode e))
  | TSym => then_ (mkdirall f (parent p) pmode) (fun f1 => symlink f1 (labs e) (lname e) p)
  | TLink => let o := clean (root ++ lname e) [] in
             then_ (mkdirall f (parent p) pmode) (fun f1 => if below_root o && confine root f1 o false then hardlink f1 o p else None)
  end.
Fixpoint extract (f : fs) (es : list entry) : fs * bool :=
  match es with
  | [] => (f, true)
  | e :: r => let '(f', ok) := extract1 f e in if ok then extract f' r else (f', false)
  end.
End X.
