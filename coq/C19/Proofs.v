(* C19 — lemmas: every node the extraction creates and every inode it rewrites lies below the destination, so the rest of the file
   system is untouched - whatever symbolic links the archive or the destination contain. *)
From Coq Require Import List Bool Arith Lia.
From Verif Require Import C19.Model.
Import ListNotations.

Lemma peq_eq : forall a b, peq a b = true <-> a = b.
Proof.
  induction a as [|x a IH]; intros [|y b]; cbn; split; intro H; try discriminate; try reflexivity.
  - apply andb_prop in H. destruct H as [H1 H2]. apply Nat.eqb_eq in H1. apply IH in H2. congruence.
  - injection H as -> ->. rewrite Nat.eqb_refl. apply IH. reflexivity.
Qed.
Lemma is_prefix_spec : forall a b, is_prefix a b = true <-> exists t, b = a ++ t.
Proof.
  induction a as [|x a IH]; intros b; cbn.
  - split; [intros _; exists b; reflexivity|reflexivity].
  - destruct b as [|y b]; [split; [discriminate|intros [t H]; discriminate]|]. split.
    + intro H. apply andb_prop in H. destruct H as [H1 H2]. apply Nat.eqb_eq in H1. apply IH in H2. destruct H2 as [t ->]. exists t. subst. reflexivity.
    + intros [t H]. injection H as -> ->. rewrite Nat.eqb_refl. apply IH. exists t. reflexivity.
Qed.
Lemma is_prefix_app a b c : is_prefix a b = true -> is_prefix a (b ++ c) = true.
Proof. intro H. apply is_prefix_spec in H. destruct H as [t ->]. apply is_prefix_spec. exists (t ++ c). apply app_assoc_reverse. Qed.

Lemma look_app_tree t i q n q' : q' <> [] ->
  look {| tree := t ++ [(q, n)]; inodes := i |} q' = match look {| tree := t; inodes := i |} q' with Some x => Some x | None => if peq q q' then Some n else None end.
Proof.
  intro Hne. destruct q' as [|c q']; [congruence|]. unfold look. cbn [tree].
  induction t as [|[p m] t IH]; cbn [app find fst snd].
  - destruct (peq q (c :: q')); reflexivity.
  - destruct (peq p (c :: q')); [reflexivity|exact IH].
Qed.
Lemma look_put f q n q' : look (put f q n) q' = match look f q' with Some x => Some x | None => if peq q q' then Some n else None end.
Proof.
  destruct q' as [|c q']; [reflexivity|]. unfold put. destruct f as [t i]. cbn [tree inodes]. apply look_app_tree. discriminate.
Qed.
Lemma look_same_tree t i i' q : look {| tree := t; inodes := i |} q = look {| tree := t; inodes := i' |} q.
Proof. reflexivity. Qed.

Section C.
Variable root : path.
Definition inside (q : path) : bool := is_prefix root q.
(* what must not change: nodes outside the destination, and the content and mode of the files they name *)
Definition frame (f f' : fs) : Prop :=
  (forall q, inside q = false -> look f' q = look f q) /\
  (forall q i, inside q = false -> look f q = Some (NFile i) -> nth_error (inodes f') i = nth_error (inodes f) i).
(* the state invariant: inode numbers are allocated, no inode is shared across the boundary, the destination exists *)
Definition wf (f : fs) : Prop := forall q i, look f q = Some (NFile i) -> i < length (inodes f).
Definition sep (f : fs) : Prop := forall q q' i, inside q = false -> inside q' = true -> look f q = Some (NFile i) -> look f q' <> Some (NFile i).
Definition root_ok (f : fs) : Prop := forall k, 0 < k <= length root -> exists m, look f (firstn k root) = Some (NDir m).
Definition good (f : fs) : Prop := wf f /\ sep f /\ root_ok f.

Lemma frame_refl f : frame f f. Proof. split; auto. Qed.
Lemma frame_trans a b c : frame a b -> frame b c -> frame a c.
Proof.
  intros [A1 A2] [B1 B2]. split.
  - intros q H. rewrite B1, A1 by exact H. reflexivity.
  - intros q i H L. rewrite (B2 q i H), (A2 q i H L); [reflexivity|]. rewrite A1 by exact H. exact L.
Qed.

(* adding a node that is not a file, at a path inside *)
Lemma put_inside f q n : good f -> inside q = true -> look f q = None -> (forall i, n = NFile i -> exists s, inside s = true /\ look f s = Some (NFile i)) ->
  frame f (put f q n) /\ good (put f q n).
Proof.
  intros (W & S & R) Hq Hnone Hn. split; [split|split; [|split]].
  - intros q' H. rewrite look_put. destruct (look f q') eqn:E; [reflexivity|]. destruct (peq q q') eqn:P; [|reflexivity]. apply peq_eq in P. subst. congruence.
  - intros q' i H L. reflexivity.
  - intros q' i. rewrite look_put. destruct (look f q') eqn:E.
    + intros [= ->]. apply (W q' i E).
    + destruct (peq q q'); [|discriminate]. intros [= ->]. destruct (Hn i eq_refl) as (s & _ & Ls). apply (W s i Ls).
  - intros a b i Ha Hb. rewrite !look_put. destruct (look f a) eqn:Ea.
    + intros [= ->]. destruct (look f b) eqn:Eb.
      * intros [= ->]. apply (S a b i Ha Hb Ea). exact Eb.
      * destruct (peq q b) eqn:P; [|discriminate]. intros [= ->]. destruct (Hn i eq_refl) as (s & Hs & Ls). apply (S a s i Ha Hs Ea Ls).
    + destruct (peq q a) eqn:P; [|discriminate]. apply peq_eq in P. subst a. congruence.
  - intros k Hk. destruct (R k Hk) as [m Lm]. exists m. rewrite look_put, Lm. reflexivity.
Qed.

Lemma first_missing_inside f cur c r : root_ok f -> inside (cur ++ c :: r) = true -> look f (cur ++ [c]) = None -> inside (cur ++ [c]) = true.
Proof.
  intros R H Hn. unfold inside in *. apply is_prefix_spec in H. destruct H as [t Ht].
  destruct (le_lt_dec (length root) (length (cur ++ [c]))) as [Hle|Hlt].
  - apply is_prefix_spec. exists (firstn (length (cur ++ [c]) - length root) t).
    assert (E : cur ++ c :: r = (cur ++ [c]) ++ r) by (rewrite <- app_assoc; reflexivity). rewrite E in Ht.
    assert (F : firstn (length (cur ++ [c])) ((cur ++ [c]) ++ r) = cur ++ [c]) by (rewrite firstn_app, Nat.sub_diag, firstn_all; cbn; apply app_nil_r).
    rewrite Ht in F. rewrite firstn_app in F. rewrite firstn_all2 in F by exact Hle. symmetry. exact F.
  - exfalso. assert (E : cur ++ c :: r = (cur ++ [c]) ++ r) by (rewrite <- app_assoc; reflexivity). rewrite E in Ht.
    assert (F : firstn (length (cur ++ [c])) root = cur ++ [c]).
    { assert (G : firstn (length (cur ++ [c])) ((cur ++ [c]) ++ r) = cur ++ [c]) by (rewrite firstn_app, Nat.sub_diag, firstn_all; cbn; apply app_nil_r).
      rewrite Ht in G. rewrite firstn_app in G. replace (length (cur ++ [c]) - length root) with 0 in G by lia. cbn in G. rewrite app_nil_r in G. exact G. }
    destruct (R (length (cur ++ [c]))) as [m Lm]; [split; [rewrite app_length; cbn; lia|lia]|]. rewrite F in Lm. congruence.
Qed.

Lemma mkdirs_frame mode : forall rest f cur f' ok, good f -> inside (cur ++ rest) = true -> mkdirs f cur rest mode = (f', ok) -> frame f f' /\ good f'.
Proof.
  induction rest as [|c r IH]; intros f cur f' ok G H E; cbn [mkdirs] in E.
  - injection E as <- <-. split; [apply frame_refl|exact G].
  - destruct (look f (cur ++ [c])) eqn:L; [injection E as <- <-; split; [apply frame_refl|exact G]|].
    assert (Hin : inside (cur ++ [c]) = true) by (apply (first_missing_inside f cur c r); [apply G|exact H|exact L]).
    destruct (put_inside f (cur ++ [c]) (NDir mode) G Hin L) as [F1 G1]; [intros i Hi; discriminate|].
    assert (H' : inside ((cur ++ [c]) ++ r) = true) by (rewrite <- app_assoc; exact H).
    destruct (IH _ _ _ _ G1 H' E) as [F2 G2]. split; [eapply frame_trans; eassumption|exact G2].
Qed.

Lemma set_nth_length {A} (l : list A) i x : i < length l -> length (set_nth l i x) = length l.
Proof. intro H. unfold set_nth. rewrite app_length, firstn_length. cbn [length]. rewrite skipn_length. lia. Qed.
Lemma nth_firstn {A} : forall (l : list A) i j, j < i -> nth_error (firstn i l) j = nth_error l j.
Proof. induction l as [|x l IH]; intros [|i] [|j] H; cbn; try reflexivity; try lia. apply IH. lia. Qed.
Lemma nth_skipn {A} : forall (l : list A) n i, nth_error (skipn n l) i = nth_error l (n + i).
Proof. induction l as [|x l IH]; intros [|n] i; cbn; try reflexivity; [destruct i; reflexivity|apply IH]. Qed.
Lemma set_nth_other {A} (l : list A) i x j : i < length l -> j <> i -> nth_error (set_nth l i x) j = nth_error l j.
Proof.
  intros H Hj. unfold set_nth. destruct (lt_dec j i) as [Hlt|Hge].
  - rewrite nth_error_app1 by (rewrite firstn_length; lia). apply nth_firstn. exact Hlt.
  - rewrite nth_error_app2 by (rewrite firstn_length; lia). rewrite firstn_length. replace (Nat.min i (length l)) with i by lia.
    destruct (j - i) as [|k] eqn:E; [lia|]. cbn [nth_error]. rewrite nth_skipn. f_equal. lia.
Qed.

Variables (dmode fmode : nat -> nat) (pmode : nat).
Notation finish := (finish dmode fmode).
Notation link_source := (link_source root).
Notation extract1 := (extract1 root dmode fmode pmode).
Notation extract := (extract root dmode fmode pmode).

Lemma link_source_inside f o n : link_source f o = Some n -> forall i, n = NFile i -> exists s, inside s = true /\ look f s = Some (NFile i).
Proof.
  unfold Model.link_source. destruct (negb (below_root root o)); [discriminate|].
  destruct (walk FUEL f [] (parent o) true) as [cur [|x r]| |]; try discriminate.
  destruct (is_prefix root cur) eqn:P; [|discriminate]. destruct (look f (cur ++ [lastc o])) as [[m|j|a t]|] eqn:L; try discriminate; intros [= <-] i Hi; try discriminate.
  injection Hi as ->. exists (cur ++ [lastc o]). split; [apply is_prefix_app, P|exact L].
Qed.

Lemma finish_frame f d c e src f' ok : good f -> inside d = true ->
  (forall n, src = Some n -> forall i, n = NFile i -> exists s, inside s = true /\ look f s = Some (NFile i)) ->
  finish f d c e src = (f', ok) -> frame f f' /\ good f'.
Proof.
  intros G Hd Hsrc E. assert (Hq : inside (d ++ [c]) = true) by (apply is_prefix_app, Hd). unfold Model.finish in E.
  destruct (etyp e).
  - (* regular file *)
    destruct (look f (d ++ [c])) as [[m|i|a t]|] eqn:L.
    + injection E as <- <-. split; [apply frame_refl|exact G].
    + injection E as <- <-. destruct G as (W & S & R). pose proof (W _ _ L) as Hi. split; [split|split; [|split]].
      * intros q H. reflexivity.
      * intros q j H Lq. cbn [inodes]. apply set_nth_other; [exact Hi|]. intros ->. apply (S q (d ++ [c]) i H Hq Lq L).
      * intros q j Lq. cbn [inodes]. rewrite set_nth_length by exact Hi. apply (W q j Lq).
      * exact S.
      * exact R.
    + injection E as <- <-. split; [apply frame_refl|exact G].
    + injection E as <- <-. destruct G as (W & S & R). destruct f as [t ino]. cbn [tree inodes] in *. split; [split|split; [|split]].
      * intros q H. destruct q as [|x q]; [reflexivity|]. rewrite look_app_tree by discriminate.
        rewrite <- (look_same_tree t ino (ino ++ [(payload e, fmode (emode e))])).
        destruct (look {| tree := t; inodes := ino |} (x :: q)) eqn:Eq; [reflexivity|]. destruct (peq (d ++ [c]) (x :: q)) eqn:P; [|reflexivity]. apply peq_eq in P. rewrite <- P in H. congruence.
      * intros q j H Lq. cbn [inodes]. apply nth_error_app1. pose proof (W q j Lq) as HW. cbn [inodes] in HW. exact HW.
      * intros q j. destruct q as [|x q]; [discriminate|]. rewrite look_app_tree by discriminate. rewrite <- (look_same_tree t ino (ino ++ [(payload e, fmode (emode e))])). cbn [inodes]. rewrite app_length. cbn [length].
        destruct (look {| tree := t; inodes := ino |} (x :: q)) eqn:Eq.
        -- intros [= ->]. pose proof (W _ _ Eq) as HW. cbn [inodes] in HW. lia.
        -- destruct (peq (d ++ [c]) (x :: q)); [|discriminate]. intros [= <-]. lia.
      * intros a b j Ha Hb. destruct a as [|xa a]; [discriminate|]. destruct b as [|xb b]; [discriminate|]. rewrite !look_app_tree by discriminate.
        rewrite <- !(look_same_tree t ino (ino ++ [(payload e, fmode (emode e))])).
        destruct (look {| tree := t; inodes := ino |} (xa :: a)) eqn:Ea.
        -- intros [= ->]. destruct (look {| tree := t; inodes := ino |} (xb :: b)) eqn:Eb.
           ++ intros [= ->]. apply (S _ _ j Ha Hb Ea). exact Eb.
           ++ destruct (peq (d ++ [c]) (xb :: b)); [|discriminate]. intros [= <-]. pose proof (W _ _ Ea) as HW. cbn [inodes] in HW. lia.
        -- destruct (peq (d ++ [c]) (xa :: a)) eqn:P; [|discriminate]. apply peq_eq in P. rewrite <- P in Ha. congruence.
      * intros k Hk. destruct (R k Hk) as [m Lm]. exists m. destruct (firstn k root) as [|x q] eqn:Eq; [cbn; cbn in Lm; exact Lm|].
        rewrite look_app_tree by discriminate. rewrite <- (look_same_tree t ino (ino ++ [(payload e, fmode (emode e))])). rewrite Lm. reflexivity.
  - (* directory *)
    destruct (look f (d ++ [c])) eqn:L; [injection E as <- <-; split; [apply frame_refl|exact G]|].
    injection E as <- <-. apply put_inside; [exact G|exact Hq|exact L|intros i Hi; discriminate].
  - (* symbolic link *)
    destruct (look f (d ++ [c])) eqn:L; [injection E as <- <-; split; [apply frame_refl|exact G]|].
    injection E as <- <-. apply put_inside; [exact G|exact Hq|exact L|intros i Hi; discriminate].
  - (* hard link *)
    destruct src as [n|]; [|injection E as <- <-; split; [apply frame_refl|exact G]].
    destruct (look f (d ++ [c])) eqn:L; [injection E as <- <-; split; [apply frame_refl|exact G]|].
    injection E as <- <-. apply put_inside; [exact G|exact Hq|exact L|apply (Hsrc n eq_refl)].
  - (* an ignored entry type *)
    injection E as <- <-. split; [apply frame_refl|exact G].
Qed.

Theorem extract1_frame f e f' ok : good f -> extract1 f e = (f', ok) -> frame f f' /\ good f'.
Proof.
  intros G E. unfold Model.extract1 in E. set (p := clean (root ++ ename e) []) in *.
  destruct (negb (below_root root p)); [injection E as <- <-; split; [apply frame_refl|exact G]|].
  destruct (walk FUEL f [] (parent p) true) as [cur rest| |]; try (injection E as <- <-; split; [apply frame_refl|exact G]).
  destruct (negb (is_prefix root (cur ++ rest))) eqn:P; [injection E as <- <-; split; [apply frame_refl|exact G]|]. apply negb_false_iff in P.
  match type of E with (if ?b then _ else _) = _ => destruct b end; [injection E as <- <-; split; [apply frame_refl|exact G]|].
  assert (General : (let '(f1, ok1) := mkdirs f cur rest pmode in
                     if negb ok1 then (f1, false) else
                     match look f1 (cur ++ rest) with
                     | Some (NDir _) => finish f1 (cur ++ rest) (lastc p) e (match etyp e with TLink => link_source f1 (clean (root ++ lname e) []) | _ => None end)
                     | _ => (f1, false) end) = (f', ok) -> frame f f' /\ good f').
  { destruct (mkdirs f cur rest pmode) as [f1 ok1] eqn:M. destruct (mkdirs_frame pmode rest f cur f1 ok1 G P M) as [F1 G1].
    destruct (negb ok1); [intros [= <- <-]; split; assumption|].
    destruct (look f1 (cur ++ rest)) as [[m|i|a t]|]; try (intros [= <- <-]; split; assumption).
    intro Ef.
    assert (Hsrc : forall n, (match etyp e with TLink => link_source f1 (clean (root ++ lname e) []) | _ => None end) = Some n ->
                   forall i, n = NFile i -> exists s, inside s = true /\ look f1 s = Some (NFile i)).
    { intros n Hn i Hi. destruct (etyp e); try discriminate. apply (link_source_inside f1 _ n Hn i Hi). }
    destruct (finish_frame f1 (cur ++ rest) (lastc p) e _ f' ok G1 P Hsrc Ef) as [F2 G2].
    split; [eapply frame_trans; eassumption|exact G2]. }
  destruct (etyp e) eqn:T; try (apply General; exact E).
  - destruct rest as [|x r]; [apply General; exact E|].
    destruct (mkdirs f cur ((x :: r) ++ [lastc p]) (dmode (emode e))) as [f1 ok1] eqn:M. injection E as <- <-.
    apply (mkdirs_frame (dmode (emode e)) ((x :: r) ++ [lastc p]) f cur f1 ok1 G); [|exact M]. rewrite app_assoc. apply is_prefix_app. exact P.
  - injection E as <- <-. split; [apply frame_refl|exact G].
Qed.

Theorem extract_frame : forall es f f' ok, good f -> extract f es = (f', ok) -> frame f f' /\ good f'.
Proof.
  induction es as [|e es IH]; intros f f' ok G E; cbn [Model.extract] in E.
  - injection E as <- <-. split; [apply frame_refl|exact G].
  - destruct (extract1 f e) as [f1 ok1] eqn:E1. destruct (extract1_frame f e f1 ok1 G E1) as [F1 G1].
    destruct ok1; [|injection E as <- <-; split; assumption]. destruct (IH _ _ _ G1 E) as [F2 G2]. split; [eapply frame_trans; eassumption|exact G2].
Qed.
End C.

(* ---- the hypothesis [good] is decidable on a concrete file system *)
Section D.
Variable root : path.
Definition wf_b (f : fs) : bool := forallb (fun e => match snd e with NFile i => i <? length (inodes f) | _ => true end) (tree f).
Definition sep_b (f : fs) : bool :=
  forallb (fun e1 => forallb (fun e2 => match snd e1, snd e2 with
                                        | NFile i, NFile j => negb (i =? j) || Bool.eqb (inside root (fst e1)) (inside root (fst e2))
                                        | _, _ => true end) (tree f)) (tree f).
Definition root_ok_b (f : fs) : bool := forallb (fun k => match look f (firstn k root) with Some (NDir _) => true | _ => false end) (seq 1 (length root)).
Lemma look_in f q n : look f q = Some n -> q <> [] -> exists q', In (q', n) (tree f) /\ q' = q.
Proof.
  destruct q as [|c q]; [congruence|]. intros H _. unfold look in H. destruct (find _ (tree f)) as [[q' n']|] eqn:E; [|discriminate].
  injection H as <-. apply find_some in E. destruct E as [Hin P]. cbn [fst] in P. apply peq_eq in P. exists q'. split; assumption.
Qed.
Theorem good_b_sound f : wf_b f && sep_b f && root_ok_b f = true -> good root f.
Proof.
  intro H. apply andb_prop in H. destruct H as [H R]. apply andb_prop in H. destruct H as [W S]. split; [|split].
  - intros q i L. destruct q as [|c q]; [discriminate|]. destruct (look_in f _ _ L) as (q' & Hin & _); [discriminate|].
    unfold wf_b in W. rewrite forallb_forall in W. specialize (W _ Hin). cbn [snd] in W. apply Nat.ltb_lt in W. exact W.
  - intros q q' i Hq Hq' L L'. destruct q as [|c q]; [discriminate|]. destruct q' as [|c' q']; [discriminate|].
    destruct (look_in f _ _ L) as (a & Ha & ->); [discriminate|]. destruct (look_in f _ _ L') as (b & Hb & ->); [discriminate|].
    unfold sep_b in S. rewrite forallb_forall in S. specialize (S _ Ha). rewrite forallb_forall in S. specialize (S _ Hb). cbn [fst snd] in S.
    rewrite Nat.eqb_refl in S. cbn [negb orb] in S. rewrite Hq, Hq' in S. discriminate.
  - intros k Hk. unfold root_ok_b in R. rewrite forallb_forall in R. specialize (R k). destruct (look f (firstn k root)) as [[m|i|a t]|]; try (exfalso; assert (X : false = true) by (apply R; apply in_seq; lia); discriminate).
    exists m. reflexivity.
Qed.
End D.
