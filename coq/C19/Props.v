(* C19 — property theorems only. Each is closed by [exact] of a lemma from Proofs.v and followed by Print Assumptions.
   The file system is symbolic: absolute paths, directories, files (inode numbers with content and mode), symbolic links.
   [good root f]: inode numbers are allocated, no inode is shared between a file below the destination and one outside it,
   and the destination directory exists. *)
From Coq Require Import List Bool Arith Lia.
From Verif Require Import C19.Model C19.Proofs C19.Proofs2.
Import ListNotations.

(* For every archive (any entries, names, link targets, in any order) and every file system (any symbolic links already present):
   no path outside the destination is created, removed or re-bound, and the content and mode of every file outside it are
   unchanged - whether extraction succeeds or stops with an error; and the invariant is kept for the next extraction *)
Theorem C19_nothing_outside_the_destination_is_touched : forall root dmode fmode pmode es f f' ok, good root f ->
  extract root dmode fmode pmode f es = (f', ok) ->
  ((forall q, inside root q = false -> look f' q = look f q) /\
   (forall q i, inside root q = false -> look f q = Some (NFile i) -> nth_error (inodes f') i = nth_error (inodes f) i)) /\ good root f'.
Proof. exact extract_frame. Qed.
Print Assumptions C19_nothing_outside_the_destination_is_touched.

(* one entry *)
Theorem C19_each_entry_is_confined : forall root dmode fmode pmode f e f' ok, good root f ->
  extract1 root dmode fmode pmode f e = (f', ok) -> frame root f f' /\ good root f'.
Proof. exact extract1_frame. Qed.
Print Assumptions C19_each_entry_is_confined.

(* the hypothesis can be decided for a concrete file system *)
Theorem C19_good_is_decidable : forall root f, wf_b f && sep_b root f && root_ok_b root f = true -> good root f.
Proof. exact good_b_sound. Qed.
Print Assumptions C19_good_is_decidable.

(* ---- the positive half (Proofs2.v). [Inv f]: the tree holds no symbolic link, every bound path's parent is a directory, file inodes
   are allocated and not shared. [dirs f [] root]: every prefix of the destination is a directory. [plain root e]: a regular file or a
   directory whose name consists of proper components (no ".", "..", not empty) and is at most 63 deep with the destination.
   THE ARCHIVE IS REPRODUCED: after a successful extraction, every regular-file entry that no later regular-file entry of the same
   name overwrites is a file holding that entry's content, every directory entry is a directory, everything that was bound before is
   still bound, and the invariant holds again *)
Theorem C19_plain_archive_is_reproduced : forall root dmode fmode pmode, simple root -> forall es f f',
  Inv f -> dirs f [] root -> Forall (plain root) es -> extract root dmode fmode pmode f es = (f', true) ->
  persist f f' /\ Inv f' /\
  (forall pre e post, es = pre ++ e :: post -> etyp e = TReg -> (forall e', In e' post -> ~ (etyp e' = TReg /\ ename e' = ename e)) ->
     exists i m, look f' (root ++ ename e) = Some (NFile i) /\ nth_error (inodes f') i = Some (payload e, m)) /\
  (forall e, In e es -> etyp e = TDir -> exists m, look f' (root ++ ename e) = Some (NDir m)).
Proof. exact extract_reproduces. Qed.
Print Assumptions C19_plain_archive_is_reproduced.
(* one regular-file entry: the file is there with the payload (mode fmode(recorded) when new), nothing else changes content *)
Theorem C19_regular_file_entry_is_written_whole : forall root dmode fmode pmode, simple root -> forall f e n f',
  Inv f -> dirs f [] root -> simple n -> n <> [] -> length root + length n <= 63 ->
  ename e = n -> etyp e = TReg -> extract1 root dmode fmode pmode f e = (f', true) ->
  Inv f' /\ persist f f' /\
  (exists i m', look f' (root ++ n) = Some (NFile i) /\ nth_error (inodes f') i = Some (payload e, m')) /\
  (forall q j, q <> root ++ n -> look f q = Some (NFile j) -> nth_error (inodes f') j = nth_error (inodes f) j).
Proof. exact extract1_reg. Qed.
Print Assumptions C19_regular_file_entry_is_written_whole.

Module NonVacuous.
  (* names: 2 dst, 3 outside, 4 a, 7 lnk, 9 secret.  /dst, /outside/secret (inode 0, content 0) *)
  Definition f0 : fs := {| tree := [([2], NDir 493); ([3], NDir 493); ([3; 9], NFile 0)]; inodes := [(0, 420)] |}.
  Example f0_good : good [2] f0. Proof. apply good_b_sound. vm_compute. reflexivity. Qed.
  Definition e (n : path) (t : etype) (ab : bool) (l : path) (c : nat) := {| ename := n; etyp := t; labs := ab; lname := l; payload := c; emode := 420 |}.
  (* lnk -> /outside, then lnk/evil: refused; the link itself is reproduced *)
  Example escape_through_earlier_link_is_refused :
    extract [2] (fun m => m) (fun m => m) 493 f0 [e [7] TSym true [3] 0; e [7; 4] TReg false [] 55] =
    ({| tree := [([2], NDir 493); ([3], NDir 493); ([3; 9], NFile 0); ([2; 7], NSym true [3])]; inodes := [(0, 420)] |}, false).
  Proof. vm_compute. reflexivity. Qed.
  (* lnk -> ../outside/secret, then a regular file named lnk: refused, the secret keeps its content *)
  Example writing_through_a_final_link_is_refused :
    snd (extract [2] (fun m => m) (fun m => m) 493 f0 [e [7] TSym false [1; 3; 9] 0; e [7] TReg false [] 66]) = false.
  Proof. vm_compute. reflexivity. Qed.
  (* an ordinary archive is reproduced *)
  Example ordinary_archive :
    extract [2] (fun m => m) (fun m => m) 493 f0 [e [4; 7] TReg false [] 11; e [4] TDir false [] 0; e [4; 9] TLink false [4; 7] 0] =
    ({| tree := [([2], NDir 493); ([3], NDir 493); ([3; 9], NFile 0); ([2; 4], NDir 493); ([2; 4; 7], NFile 1); ([2; 4; 9], NFile 1)]; inodes := [(0, 420); (11, 420)] |}, true).
  Proof. vm_compute. reflexivity. Qed.
  (* the hypotheses of the positive theorem are met: an empty destination /dst, an archive with nested names, an overwritten file *)
  Definition g0 : fs := {| tree := [([2], NDir 493)]; inodes := [] |}.
  Lemma g0_look q : look g0 q = match q with [] => Some (NDir 493) | [2] => Some (NDir 493) | _ => None end.
  Proof. destruct q as [|[|[|[|c]]] [|y q]]; reflexivity. Qed.
  Example g0_Inv : Inv g0 /\ dirs g0 [] [2] /\ simple [2].
  Proof.
    split; [|split].
    - split; [|split; [|split]].
      + intros q a t. rewrite g0_look. destruct q as [|[|[|[|c]]] [|y q]]; discriminate.
      + intros q x Hq. rewrite g0_look. destruct q as [|[|[|[|c]]] [|y q]]; try discriminate; try congruence. intros _. exists 493. reflexivity.
      + intros q i. rewrite g0_look. destruct q as [|[|[|[|c]]] [|y q]]; discriminate.
      + intros q q' i. rewrite g0_look. destruct q as [|[|[|[|c]]] [|y q]]; discriminate.
    - intros k Hk. cbn in Hk. assert (k = 1) by lia. subst. exists 493. reflexivity.
    - repeat constructor.
  Qed.
  Definition arch := [e [4; 7] TReg false [] 11; e [5] TDir false [] 0; e [4; 7] TReg false [] 12; e [5; 9] TReg false [] 13].
  Example arch_plain_and_extracted : Forall (plain [2]) arch /\
    extract [2] (fun m => m) (fun m => m) 493 g0 arch =
    ({| tree := [([2], NDir 493); ([2; 4], NDir 493); ([2; 4; 7], NFile 0); ([2; 5], NDir 420); ([2; 5; 9], NFile 1)]; inodes := [(12, 420); (13, 420)] |}, true).
  Proof.
    split; [|vm_compute; reflexivity].
    repeat (apply Forall_cons || apply Forall_nil);
      (unfold plain; cbn; split; [first [left; reflexivity|right; reflexivity]|split; [repeat constructor; lia|split; [discriminate|lia]]]).
  Qed.
End NonVacuous.
