(* C19 — property theorems only. Each is closed by [exact] of a lemma from Proofs.v and followed by Print Assumptions.
   The file system is symbolic: absolute paths, directories, files (inode numbers with content and mode), symbolic links.
   [good root f]: inode numbers are allocated, no inode is shared between a file below the destination and one outside it,
   and the destination directory exists. *)
From Coq Require Import List Bool Arith.
From Verif Require Import C19.Model C19.Proofs.
Import ListNotations.

(* For every archive (any entries, names, link targets, in any order) and every file system (any symbolic links already present):
   no path outside the destination is created, removed or re-bound, and the content and mode of every file outside it are
   unchanged - whether extraction succeeds or stops with an error; and the invariant is kept for the next extraction *)
Theorem C19_nothing_outside_the_destination_is_touched : forall root dmode fmode pmode es f f' ok, good root f ->
  extract root dmode fmode pmode f es = (f', ok) ->
  ((forall q, inside root q = false -> look f' q = look f q) /\
   (forall q i, inside root q = false -> look f q = Some (NFile i) -> nth_error (inodes f') i = nth_error (inodes f) i)) /\ good root f'.
Proof. exact extract_frame. Qed.
Print Assumptions C19_nothing_outside_the_destination_is_touched.

(* one entry *)
Theorem C19_each_entry_is_confined : forall root dmode fmode pmode f e f' ok, good root f ->
  extract1 root dmode fmode pmode f e = (f', ok) -> frame root f f' /\ good root f'.
Proof. exact extract1_frame. Qed.
Print Assumptions C19_each_entry_is_confined.

(* the hypothesis can be decided for a concrete file system *)
Theorem C19_good_is_decidable : forall root f, wf_b f && sep_b root f && root_ok_b root f = true -> good root f.
Proof. exact good_b_sound. Qed.
Print Assumptions C19_good_is_decidable.

Module NonVacuous.
  (* names: 2 dst, 3 outside, 4 a, 7 lnk, 9 secret.  /dst, /outside/secret (inode 0, content 0) *)
  Definition f0 : fs := {| tree := [([2], NDir 493); ([3], NDir 493); ([3; 9], NFile 0)]; inodes := [(0, 420)] |}.
  Example f0_good : good [2] f0. Proof. apply good_b_sound. vm_compute. reflexivity. Qed.
  Definition e (n : path) (t : etype) (ab : bool) (l : path) (c : nat) := {| ename := n; etyp := t; labs := ab; lname := l; payload := c; emode := 420 |}.
  (* lnk -> /outside, then lnk/evil: refused; the link itself is reproduced *)
  Example escape_through_earlier_link_is_refused :
    extract [2] (fun m => m) (fun m => m) 493 f0 [e [7] TSym true [3] 0; e [7; 4] TReg false [] 55] =
    ({| tree := [([2], NDir 493); ([3], NDir 493); ([3; 9], NFile 0); ([2; 7], NSym true [3])]; inodes := [(0, 420)] |}, false).
  Proof. vm_compute. reflexivity. Qed.
  (* lnk -> ../outside/secret, then a regular file named lnk: refused, the secret keeps its content *)
  Example writing_through_a_final_link_is_refused :
    snd (extract [2] (fun m => m) (fun m => m) 493 f0 [e [7] TSym false [1; 3; 9] 0; e [7] TReg false [] 66]) = false.
  Proof. vm_compute. reflexivity. Qed.
  (* an ordinary archive is reproduced *)
  Example ordinary_archive :
    extract [2] (fun m => m) (fun m => m) 493 f0 [e [4; 7] TReg false [] 11; e [4] TDir false [] 0; e [4; 9] TLink false [4; 7] 0] =
    ({| tree := [([2], NDir 493); ([3], NDir 493); ([3; 9], NFile 0); ([2; 4], NDir 493); ([2; 4; 7], NFile 1); ([2; 4; 9], NFile 1)]; inodes := [(0, 420); (11, 420)] |}, true).
  Proof. vm_compute. reflexivity. Qed.
End NonVacuous.
