(* C16 — LastUsed: the kids lists describe a tree in every reachable state, reset rewrites exactly the subtree it is called on (each node
   once), grants never touch LastUsed; hence at every tick LastUsed of every limiter of the tree becomes what was charged to it in the
   period that ends. *)
From Coq Require Import ZArith List Bool Arith Lia.
From Verif Require Import C16.Model C16.Proofs.
Import ListNotations.
Open Scope Z_scope.

(* ---- the tree structure kept in the kids lists *)
Definition up (s : st) (k : nat) : option nat := parent (getl s k).
Definition K1 (s : st) : Prop := forall p k, In k (kids (getl s p)) -> up s k = Some p /\ (k < length (lims s))%nat.
Definition K2 (s : st) : Prop := forall p, NoDup (kids (getl s p)).
Fixpoint desc (fuel : nat) (s : st) (i k : nat) : bool :=
  match fuel with O => false | S f => (k =? i)%nat || existsb (fun c => desc f s c k) (kids (getl s i)) end.
Definition same_tree (s s' : st) : Prop :=
  length (lims s') = length (lims s) /\ forall k, kids (getl s' k) = kids (getl s k) /\ parent (getl s' k) = parent (getl s k).
Lemma same_tree_refl s : same_tree s s. Proof. split; auto. Qed.
Lemma same_tree_trans a b c : same_tree a b -> same_tree b c -> same_tree a c.
Proof. intros [L1 G1] [L2 G2]. split; [congruence|]. intro k. destruct (G1 k), (G2 k). split; congruence. Qed.
Lemma same_tree_sym a b : same_tree a b -> same_tree b a.
Proof. intros [L G]. split; [congruence|]. intro k. destruct (G k). split; congruence. Qed.
Lemma desc_same s s' : same_tree s s' -> forall f i k, desc f s' i k = desc f s i k.
Proof.
  intros [_ G]. induction f as [|f IH]; intros i k; [reflexivity|]. cbn [desc]. f_equal. rewrite (proj1 (G i)).
  induction (kids (getl s i)) as [|c l IHl]; [reflexivity|]. cbn [existsb]. rewrite IH, IHl. reflexivity.
Qed.
Lemma K1_same s s' : same_tree s s' -> K1 s -> K1 s'.
Proof. intros [L G] H p k IN. rewrite (proj1 (G p)) in IN. destruct (H p k IN) as [A B]. unfold up in *. rewrite (proj2 (G k)). split; [exact A|lia]. Qed.
Lemma K2_same s s' : same_tree s s' -> K2 s -> K2 s'.
Proof. intros [_ G] H p. rewrite (proj1 (G p)). apply H. Qed.
Lemma WF_same s s' : same_tree s s' -> WF s -> WF s'.
Proof. intros [_ G] H i p E. rewrite (proj2 (G i)) in E. apply (H i p E). Qed.

(* ancestors by iterating the parent pointer *)
Fixpoint iter_up (j : nat) (s : st) (k : nat) : option nat :=
  match j with O => Some k | S j' => match up s k with Some p => iter_up j' s p | None => None end end.
Lemma iter_up_snoc s : forall j k c i, iter_up j s k = Some c -> up s c = Some i -> iter_up (S j) s k = Some i.
Proof.
  induction j as [|j IH]; intros k c i H U.
  - cbn in H. injection H as ->. cbn [iter_up]. rewrite U. reflexivity.
  - cbn [iter_up] in H. destruct (up s k) as [p|] eqn:E; [|discriminate]. specialize (IH p c i H U). cbn [iter_up]. rewrite E. exact IH.
Qed.
Lemma iter_up_add s : forall a b k c, iter_up a s k = Some c -> iter_up (a + b) s k = iter_up b s c.
Proof.
  induction a as [|a IH]; intros b k c H.
  - cbn in H. injection H as ->. reflexivity.
  - cbn [iter_up] in H. cbn [Nat.add iter_up]. destruct (up s k) as [p|]; [|discriminate]. apply IH. exact H.
Qed.
Lemma iter_up_le s : WF s -> forall j k c, iter_up j s k = Some c -> (c <= k)%nat.
Proof.
  intro W. induction j as [|j IH]; intros k c H.
  - cbn in H. injection H as ->. lia.
  - cbn [iter_up] in H. destruct (up s k) as [p|] eqn:E; [|discriminate]. specialize (IH p c H). specialize (W k p E). lia.
Qed.
Lemma desc_up s : K1 s -> forall f i k, desc f s i k = true -> exists j, iter_up j s k = Some i.
Proof.
  intro H1. induction f as [|f IH]; intros i k D; [discriminate|]. cbn [desc] in D. apply orb_prop in D. destruct D as [D|D].
  - apply Nat.eqb_eq in D. subst. exists O. reflexivity.
  - apply existsb_exists in D. destruct D as (c & IN & D). destruct (IH c k D) as [j Hj]. destruct (H1 i c IN) as [U _].
    exists (S j). eapply iter_up_snoc; eauto.
Qed.
(* the subtrees of two children of one node are disjoint *)
Lemma desc_disjoint s : K1 s -> WF s -> forall f1 f2 c1 c2 i k, desc f1 s c1 k = true -> desc f2 s c2 k = true ->
  up s c1 = Some i -> up s c2 = Some i -> c1 = c2.
Proof.
  intros H1 W f1 f2 c1 c2 i k D1 D2 U1 U2.
  destruct (desc_up s H1 f1 c1 k D1) as [j1 J1]. destruct (desc_up s H1 f2 c2 k D2) as [j2 J2].
  assert (G : forall ja jb ca cb, iter_up ja s k = Some ca -> iter_up jb s k = Some cb -> up s ca = Some i -> up s cb = Some i -> (ja <= jb)%nat -> ca = cb).
  { intros ja jb ca cb Ja Jb Ua Ub LE. replace jb with (ja + (jb - ja))%nat in Jb by lia. rewrite (iter_up_add s ja (jb - ja) k ca Ja) in Jb.
    destruct (jb - ja)%nat as [|m]; [cbn in Jb; congruence|]. cbn [iter_up] in Jb. rewrite Ua in Jb.
    pose proof (iter_up_le s W m i cb Jb). pose proof (W cb i Ub). lia. }
  destruct (le_lt_dec j1 j2); [apply (G j1 j2); auto|symmetry; apply (G j2 j1); auto; lia].
Qed.
Lemma desc_not_above s : K1 s -> WF s -> forall f c i, up s c = Some i -> desc f s c i = false.
Proof.
  intros H1 W f c i U. destruct (desc f s c i) eqn:D; [|reflexivity]. exfalso.
  destruct (desc_up s H1 f c i D) as [j J]. pose proof (iter_up_le s W j i c J). pose proof (W c i U). lia.
Qed.

(* ---- reset *)
Lemma upd_same_tree s i f : (forall l, kids (f l) = kids l /\ parent (f l) = parent l) -> same_tree s (upd s i f).
Proof.
  intro H. split; [apply len_upd|]. intro k. rewrite getl_upd. destruct ((k =? i)%nat && (i <? length (lims s))%nat) eqn:C; [|auto].
  apply andb_prop in C. destruct C as [C _]. apply Nat.eqb_eq in C. subst k. apply H.
Qed.
Lemma fold_same_tree (g : st -> nat -> st) : (forall s i, same_tree s (g s i)) -> forall l s, same_tree s (fold_left g l s).
Proof. intro H. induction l as [|x l IH]; intro s; cbn [fold_left]; [apply same_tree_refl|]. eapply same_tree_trans; [apply H|apply IH]. Qed.
Lemma reset_same_tree : forall fuel s i, same_tree s (reset fuel s i).
Proof.
  induction fuel as [|f IH]; intros s i; cbn [reset]; [apply same_tree_refl|].
  eapply same_tree_trans; [apply (upd_same_tree s i reset_one); intro l; split; reflexivity|]. apply fold_same_tree. exact IH.
Qed.
Lemma reset_one_dflt : reset_one dflt = dflt. Proof. reflexivity. Qed.
Lemma getl_upd_reset s i k : getl (upd s i reset_one) k = if (k =? i)%nat then reset_one (getl s k) else getl s k.
Proof.
  rewrite getl_upd. destruct (k =? i)%nat eqn:E; cbn [andb]; [|reflexivity]. apply Nat.eqb_eq in E. subst k.
  destruct (i <? length (lims s))%nat eqn:L; [reflexivity|]. apply Nat.ltb_ge in L. rewrite (getl_out s i L). symmetry. apply reset_one_dflt.
Qed.

(* reset of the subtree of i: exactly the nodes of the subtree are reset, each once *)
Lemma reset_spec : forall fuel s i, K1 s -> K2 s -> WF s ->
  forall k, getl (reset fuel s i) k = if desc fuel s i k then reset_one (getl s k) else getl s k.
Proof.
  induction fuel as [|f IH]; intros s i H1 H2 W k; [reflexivity|]. cbn [reset desc].
  (* the fold over the children, from any state with the same tree *)
  assert (FL : forall l s0, same_tree s s0 -> NoDup l -> (forall c, In c l -> up s c = Some i) ->
               forall k, getl (fold_left (reset f) l s0) k = if existsb (fun c => desc f s c k) l then reset_one (getl s0 k) else getl s0 k).
  { induction l as [|c l IHl]; intros s0 ST ND UP k0; cbn [fold_left existsb]; [reflexivity|].
    inversion ND as [|? ? NI ND']; subst.
    assert (ST1 : same_tree s (reset f s0 c)) by (eapply same_tree_trans; [exact ST|apply reset_same_tree]).
    rewrite (IHl (reset f s0 c) ST1 ND' (fun c' IN => UP c' (or_intror IN)) k0).
    rewrite (IH s0 c (K1_same s s0 ST H1) (K2_same s s0 ST H2) (WF_same s s0 ST W) k0). rewrite (desc_same s s0 ST f c k0).
    destruct (desc f s c k0) eqn:D1; cbn [orb].
    - destruct (existsb (fun c' => desc f s c' k0) l) eqn:EX; [|reflexivity]. exfalso.
      apply existsb_exists in EX. destruct EX as (c' & IN & D2).
      assert (c = c') by (apply (desc_disjoint s H1 W f f c c' i k0 D1 D2); [apply UP; left; reflexivity|apply UP; right; exact IN]). subst c'. contradiction.
    - reflexivity. }
  destruct (Nat.eq_dec k i) as [->|NE].
  - rewrite Nat.eqb_refl. cbn [orb].
    assert (ST : same_tree s (upd s i reset_one)) by (apply upd_same_tree; intro l; split; reflexivity).
    assert (KS : forall c, In c (kids (getl s i)) -> up s c = Some i) by (intros c IN; apply (H1 i c IN)).
    rewrite (FL (kids (getl s i)) (upd s i reset_one) ST).
    + assert (EX : existsb (fun c => desc f s c i) (kids (getl s i)) = false).
      { destruct (existsb (fun c => desc f s c i) (kids (getl s i))) eqn:E; [|reflexivity]. apply existsb_exists in E. destruct E as (c & IN & D).
        rewrite (desc_not_above s H1 W f c i (KS c IN)) in D. discriminate. }
      rewrite EX. rewrite getl_upd_reset, Nat.eqb_refl. reflexivity.
    + apply H2.
    + exact KS.
  - assert (E : (k =? i)%nat = false) by (apply Nat.eqb_neq; exact NE). rewrite E. cbn [orb].
    assert (ST : same_tree s (upd s i reset_one)) by (apply upd_same_tree; intro l; split; reflexivity).
    rewrite (FL (kids (getl s i)) (upd s i reset_one) ST).
    + rewrite getl_upd_reset, E. reflexivity.
    + apply H2.
    + intros c IN. apply (H1 i c IN).
Qed.

(* ---- a grant never touches LastUsed, the kids lists or the parents *)
Lemma charge_fields s i a : WF s -> forall k, last (getl (charge s i a) k) = last (getl s k) /\ kids (getl (charge s i a) k) = kids (getl s k) /\ parent (getl (charge s i a) k) = parent (getl s k).
Proof.
  intros W k. rewrite charge_spec by exact W. destruct (in_dec Nat.eq_dec k (chain_of s i)); [|auto]. destruct (k <? length (lims s))%nat; auto.
Qed.
Lemma charge_len s i a : WF s -> length (lims (charge s i a)) = length (lims s).
Proof. intro W. rewrite charge_eq. destruct (bump_fold a (chain_of s i) s (chain_nodup s W _ i)) as (L & _). exact L. Qed.
Lemma charge_same_tree s i a : WF s -> same_tree s (charge s i a).
Proof. intro W. split; [apply charge_len, W|]. intro k. destruct (charge_fields s i a W k) as (_ & A & B). auto. Qed.
Lemma serve_keeps : forall reqs s rem out, WF s ->
  let s' := fst (fst (fold_left serve reqs (s, rem, out))) in
  (forall k, last (getl s' k) = last (getl s k)) /\ same_tree s s'.
Proof.
  induction reqs as [|[[rid i] a] reqs IH]; intros s rem out W; cbn [fold_left]; [split; [reflexivity|apply same_tree_refl]|].
  unfold serve at 2 4. destruct (closed (getl s i)); [apply IH, W|]. destruct (cap (getl s i) <? a); [apply IH, W|].
  destruct ((0 <? room s 0) && (a <=? avail s i)); [|apply IH, W].
  pose proof (charge_same_tree s i a W) as ST. pose proof (WF_same s _ ST W) as W'.
  destruct (IH (charge s i a) rem (out ++ [(rid, Granted)]) W') as [E S2]. split.
  - intro k. rewrite E. apply (charge_fields s i a W k).
  - eapply same_tree_trans; eassumption.
Qed.

(* LASTUSED: after a tick, every limiter of the tree below the root reports what was charged to it (its own grants and its
   descendants') during the period that just ended *)
Theorem tick_last_used s : running s = true -> K1 s -> K2 s -> WF s ->
  forall k, desc (S (length (lims s))) s 0 k = true -> last (getl (fst (tick s)) k) = used (getl s k).
Proof.
  intros R H1 H2 W k D. unfold tick. rewrite R. cbn [negb].
  set (s0 := reset (S (length (lims s))) s 0).
  assert (W0 : WF s0) by (apply (WF_same s s0 (reset_same_tree _ s 0) W)).
  destruct (fold_left serve (waiting s) (s0, [], [])) as [[s1 rem] out] eqn:F. cbn [fst].
  pose proof (serve_keeps (waiting s) s0 [] [] W0) as [E _]. rewrite F in E. cbn [fst] in E.
  change (getl {| lims := lims s1; waiting := rem; running := true |} k) with (getl s1 k). rewrite E.
  unfold s0. rewrite (reset_spec _ s 0 H1 H2 W k), D. reflexivity.
Qed.

(* ---- the kids lists describe a tree in every reachable state *)
Definition KK (s : st) : Prop := K1 s /\ K2 s.
Lemma KK_same s s' : same_tree s s' -> KK s -> KK s'.
Proof. intros ST [A B]. split; [eapply K1_same|eapply K2_same]; eassumption. Qed.
Lemma same_lims s w r : same_tree s {| lims := lims s; waiting := w; running := r |}.
Proof. split; [reflexivity|]. intro k. split; reflexivity. Qed.
Lemma close_rec_same_tree : forall fuel s i, same_tree s (close_rec fuel s i).
Proof.
  induction fuel as [|f IH]; intros s i; cbn [close_rec]; [apply same_tree_refl|].
  eapply same_tree_trans; [apply (upd_same_tree s i with_closed); intro l; split; reflexivity|]. apply fold_same_tree. exact IH.
Qed.
Lemma KK_use s rid i a : WF s -> KK s -> KK (fst (use s rid i a)).
Proof.
  intros W K. unfold use. destruct (a <? 0); [exact K|]. destruct (a =? 0); [exact K|]. destruct (closed (getl s i)); [exact K|].
  destruct (cap (getl s i) <? a); [exact K|]. destruct (a <=? avail s i); cbn [fst].
  - eapply KK_same; [apply charge_same_tree, W|exact K].
  - eapply KK_same; [apply same_lims|exact K].
Qed.
Lemma KK_tick s : WF s -> KK s -> KK (fst (tick s)).
Proof.
  intros W K. unfold tick. destruct (negb (running s)); [exact K|].
  set (s0 := reset (S (length (lims s))) s 0). pose proof (reset_same_tree (S (length (lims s))) s 0) as ST0. fold s0 in ST0.
  pose proof (serve_keeps (waiting s) s0 [] [] (WF_same s s0 ST0 W)) as [_ ST1].
  destruct (fold_left serve (waiting s) (s0, [], [])) as [[s1 rem] out]. cbn [fst] in *.
  eapply KK_same; [|exact K]. eapply same_tree_trans; [exact ST0|]. eapply same_tree_trans; [exact ST1|]. apply same_lims.
Qed.
Lemma KK_close s i : KK s -> KK (fst (close s i)).
Proof.
  intros K. unfold close. destruct (closed (getl s i)); [exact K|].
  set (s1 := close_rec (S (length (lims s))) s i). pose proof (close_rec_same_tree (S (length (lims s))) s i) as ST. fold s1 in ST.
  pose proof (KK_same s s1 ST K) as [A B].
  destruct (parent (getl s i)) as [p|]; cbn [fst].
  - split.
    + intros q k IN. rewrite getl_upd in IN. unfold up. rewrite getl_upd, len_upd.
      assert (PK : parent (if (k =? p)%nat && (p <? length (lims s1))%nat then with_kids (filter (fun k0 => negb (k0 =? i)%nat) (kids (getl s1 p))) (getl s1 p) else getl s1 k) = parent (getl s1 k)).
      { destruct ((k =? p)%nat && (p <? length (lims s1))%nat) eqn:C; [|reflexivity]. apply andb_prop in C. destruct C as [C _]. apply Nat.eqb_eq in C. subst k. reflexivity. }
      rewrite PK. destruct ((q =? p)%nat && (p <? length (lims s1))%nat) eqn:C.
      * apply andb_prop in C. destruct C as [C _]. apply Nat.eqb_eq in C. subst q. cbn [with_kids kids] in IN. apply filter_In in IN. destruct IN as [IN _]. apply (A p k IN).
      * apply (A q k IN).
    + intro q. rewrite getl_upd. destruct ((q =? p)%nat && (p <? length (lims s1))%nat); [cbn [with_kids kids]; apply NoDup_filter, B|apply B].
  - eapply KK_same; [apply same_lims|split; assumption].
Qed.
Lemma KK_new s p c : WF s -> KK s -> KK (new_child s p c).
Proof.
  intros W [A B]. unfold new_child. destruct (closed (getl s p)) eqn:Cl; [split; assumption|].
  assert (Hp : (p < length (lims s))%nat).
  { destruct (le_lt_dec (length (lims s)) p) as [H|H]; [|exact H]. rewrite (getl_out s p H) in Cl. discriminate. }
  set (x := {| parent := Some p; cap := c; used := 0; last := 0; closed := false; kids := [] |}).
  set (s1 := {| lims := lims s ++ [x]; waiting := waiting s; running := running s |}).
  assert (L1 : length (lims s1) = S (length (lims s))) by (unfold s1; cbn [lims]; rewrite app_length; cbn; lia).
  assert (G1 : forall k, getl s1 k = if (k <? length (lims s))%nat then getl s k else if (k =? length (lims s))%nat then x else dflt) by (intro k; apply getl_app_new).
  assert (Gp : getl s1 p = getl s p) by (rewrite G1; apply Nat.ltb_lt in Hp; rewrite Hp; reflexivity).
  assert (GU : forall k, getl (upd s1 p (fun l => with_kids (kids l ++ [length (lims s)]) l)) k =
               if (k =? p)%nat then with_kids (kids (getl s p) ++ [length (lims s)]) (getl s p) else getl s1 k).
  { intro k. rewrite getl_upd. rewrite L1. assert (PL : (p <? S (length (lims s)))%nat = true) by (apply Nat.ltb_lt; lia). rewrite PL, andb_true_r, Gp. reflexivity. }
  assert (UPk : forall k, up (upd s1 p (fun l => with_kids (kids l ++ [length (lims s)]) l)) k = parent (getl s1 k)).
  { intro k. unfold up. rewrite GU. destruct (Nat.eqb_spec k p) as [->|]; [rewrite Gp; reflexivity|reflexivity]. }
  split.
  - intros q k IN. rewrite UPk, len_upd, L1. rewrite GU in IN. destruct (Nat.eqb_spec q p) as [->|NQ].
    + cbn [with_kids kids] in IN. apply in_app_or in IN. destruct IN as [IN|[<-|[]]].
      * destruct (A p k IN) as [U Lk]. rewrite G1. apply Nat.ltb_lt in Lk. rewrite Lk. apply Nat.ltb_lt in Lk. split; [exact U|lia].
      * rewrite G1, Nat.ltb_irrefl, Nat.eqb_refl. split; [reflexivity|lia].
    + rewrite G1 in IN. destruct (q <? length (lims s))%nat.
      * destruct (A q k IN) as [U Lk]. rewrite G1. apply Nat.ltb_lt in Lk. rewrite Lk. apply Nat.ltb_lt in Lk. split; [exact U|lia].
      * destruct (q =? length (lims s))%nat; destruct IN.
  - intro q. rewrite GU. destruct (Nat.eqb_spec q p) as [->|NQ].
    + cbn [with_kids kids]. assert (NI : ~ In (length (lims s)) (kids (getl s p))) by (intro IN; destruct (A p _ IN) as [_ LL]; lia).
      clear - NI B. specialize (B p). induction (kids (getl s p)) as [|y l IHl]; cbn [app]; [constructor; [intros []|constructor]|].
      inversion B as [|? ? NY ND]; subst. constructor.
      * intro IN. apply in_app_or in IN. destruct IN as [IN|[E|[]]]; [contradiction|]. apply NI. left. symmetry. exact E.
      * apply IHl; [exact ND|intro IN; apply NI; right; exact IN].
    + rewrite G1. destruct (q <? length (lims s))%nat; [apply B|]. destruct (q =? length (lims s))%nat; constructor.
Qed.
Lemma KK_setcap s i c : KK s -> KK (set_cap s i c).
Proof. intro K. eapply KK_same; [apply (upd_same_tree s i (with_cap c)); intro l; split; reflexivity|exact K]. Qed.
Lemma KK_step s o : WF s -> KK s -> KK (fst (step s o)).
Proof.
  intros W K. destruct o as [rid i a| |i|p c|i c]; cbn [step].
  - pose proof (KK_use s rid i a W K) as U. destruct (use s rid i a) as [s' x]. exact U.
  - apply KK_tick; assumption.
  - apply KK_close; assumption.
  - apply KK_new; assumption.
  - apply KK_setcap; assumption.
Qed.
Lemma KK_init c : KK (init c).
Proof.
  split.
  - intros p k IN. unfold init, getl in IN. cbn [lims] in IN. destruct p as [|[|p]]; cbn in IN; destruct IN.
  - intro p. unfold init, getl. cbn [lims]. destruct p as [|[|p]]; cbn; constructor.
Qed.
Theorem KK_final : forall ops s, Inv s -> KK s -> Forall no_setcap ops -> KK (final s ops).
Proof.
  induction ops as [|o ops IH]; intros s I K H; [exact K|]. inversion H as [|? ? Ho Hr]; subst. cbn [final fold_left].
  apply IH; [apply Inv_step; assumption|apply KK_step; [apply I|exact K]|exact Hr].
Qed.

(* every history (without SetCap, as for the other C16 invariants): at each tick, LastUsed of every limiter of the tree becomes the
   amount charged to it in the period that ends *)
Theorem last_used_in_every_history rootcap ops : Forall no_setcap ops ->
  let s := final (init rootcap) ops in running s = true ->
  forall k, desc (S (length (lims s))) s 0 k = true -> last (getl (fst (tick s)) k) = used (getl s k).
Proof.
  intros H s R k D. pose proof (Inv_final ops (init rootcap) (Inv_init rootcap) H) as I. pose proof (KK_final ops (init rootcap) (Inv_init rootcap) (KK_init rootcap) H) as [A B].
  apply tick_last_used; try assumption. apply I.
Qed.
(* the tree below the root reaches every limiter that is attached through the kids lists, however deep: the fuel is enough *)
Inductive att (s : st) : nat -> Prop := att_root : att s 0%nat | att_kid p k : att s p -> In k (kids (getl s p)) -> att s k.
Lemma desc_mono s : forall f i k, desc f s i k = true -> desc (S f) s i k = true.
Proof.
  induction f as [|f IH]; intros i k D; [discriminate|]. cbn [desc] in D. apply orb_prop in D. change (desc (S (S f)) s i k) with ((k =? i)%nat || existsb (fun c => desc (S f) s c k) (kids (getl s i))).
  destruct D as [D|D]; [rewrite D; reflexivity|]. apply orb_true_iff. right. apply existsb_exists in D. destruct D as (c & IN & D). apply existsb_exists. exists c. split; [exact IN|apply IH; exact D].
Qed.
Lemma desc_step s : forall f a p k, desc f s a p = true -> In k (kids (getl s p)) -> desc (S f) s a k = true.
Proof.
  induction f as [|f IH]; intros a p k D IN; [discriminate|]. cbn [desc] in D. apply orb_prop in D.
  change (desc (S (S f)) s a k) with ((k =? a)%nat || existsb (fun c => desc (S f) s c k) (kids (getl s a))). apply orb_true_iff. right. apply existsb_exists.
  destruct D as [D|D].
  - apply Nat.eqb_eq in D. subst p. exists k. split; [exact IN|]. cbn [desc]. rewrite Nat.eqb_refl. reflexivity.
  - apply existsb_exists in D. destruct D as (c & INc & D). exists c. split; [exact INc|]. apply (IH c p k D IN).
Qed.
Lemma att_desc s : K1 s -> WF s -> forall k, att s k -> exists f, (f <= S k)%nat /\ desc f s 0 k = true.
Proof.
  intros H1 W k A. induction A as [|p k A [f [Lf D]] IN].
  - exists 1%nat. split; [lia|reflexivity].
  - exists (S f). destruct (H1 p k IN) as [U _]. pose proof (W k p U). split; [lia|]. apply (desc_step s f 0 p k D IN).
Qed.
Theorem attached_is_reached s : K1 s -> WF s -> forall k, att s k -> (k < length (lims s))%nat -> desc (S (length (lims s))) s 0 k = true.
Proof.
  intros H1 W k A L. destruct (att_desc s H1 W k A) as (f & Lf & D).
  assert (G : forall n, desc (f + n) s 0 k = true) by (induction n as [|n IHn]; [rewrite Nat.add_0_r; exact D|rewrite Nat.add_succ_r; apply desc_mono; exact IHn]).
  replace (S (length (lims s))) with (f + (S (length (lims s)) - f))%nat by lia. apply G.
Qed.
