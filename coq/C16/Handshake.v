(* C16 — the Close / ticker-goroutine hand-shake as a finite transition system. Two goroutines (the caller of root Close, the
   ticker goroutine), the controller's mutex, the unbuffered done channel; a tick is always available (the hottest ticker).
   [fixed = true] is the order in rate/limiter.go now (Lock; mark closed; Unlock; done <- true); [fixed = false] the order
   before the repair (Lock; mark closed; done <- true; Unlock). At most 4*6*3 = 72 states: reachability, absence of stuck
   states and possible completion are decided by kernel computation over the whole state space. *)
From Coq Require Import List Bool.
Import ListNotations.

Inductive cpc := CLock | CSend | CUnlock | CDone.           (* Close(): Lock; [close()]; done<-true; Unlock   (current order)  *)
Inductive tpc := TSelect | TTickLock | TTickUnlock | TDoneLock | TDoneUnlock | TExit.
Inductive holder := Free | ByC | ByT.
Record st := { c : cpc; t : tpc; lk : holder }.
Definition eqst (a b : st) : bool :=
  match c a, c b with CLock, CLock | CSend, CSend | CUnlock, CUnlock | CDone, CDone => true | _, _ => false end &&
  match t a, t b with TSelect, TSelect | TTickLock, TTickLock | TTickUnlock, TTickUnlock | TDoneLock, TDoneLock | TDoneUnlock, TDoneUnlock | TExit, TExit => true | _, _ => false end &&
  match lk a, lk b with Free, Free | ByC, ByC | ByT, ByT => true | _, _ => false end.

(* fixed = true: Close releases the lock before sending on done *)
Definition succs (fixed : bool) (s : st) : list st :=
  (* closer moves *)
  (match c s with
   | CLock => match lk s with Free => [{| c := if fixed then CUnlock else CSend; t := t s; lk := ByC |}] | _ => [] end
   | CSend => (* rendezvous: receiver must be at select *)
     match t s with TSelect => [{| c := if fixed then CDone else CUnlock; t := TDoneLock; lk := lk s |}] | _ => [] end
   | CUnlock => [{| c := if fixed then CSend else CDone; t := t s; lk := Free |}]
   | CDone => []
   end) ++
  (* ticker moves: a tick is always available *)
  (match t s with
   | TSelect => [{| c := c s; t := TTickLock; lk := lk s |}]
   | TTickLock => match lk s with Free => [{| c := c s; t := TTickUnlock; lk := ByT |}] | _ => [] end
   | TTickUnlock => [{| c := c s; t := TSelect; lk := Free |}]
   | TDoneLock => match lk s with Free => [{| c := c s; t := TDoneUnlock; lk := ByT |}] | _ => [] end
   | TDoneUnlock => [{| c := c s; t := TExit; lk := Free |}]
   | TExit => []
   end).

Definition mem (s : st) (l : list st) := existsb (eqst s) l.
Fixpoint add_all (new seen : list st) : list st := match new with [] => seen | x :: r => if mem x seen then add_all r seen else add_all r (seen ++ [x]) end.
Fixpoint reach (fuel : nat) (fixed : bool) (seen : list st) : list st :=
  match fuel with O => seen | S f => reach f fixed (add_all (flat_map (succs fixed) seen) seen) end.
Definition init := {| c := CLock; t := TSelect; lk := Free |}.
Definition final (s : st) := match c s, t s with CDone, TExit => true | _, _ => false end.
Definition stuck (fixed : bool) (s : st) := match succs fixed s with [] => negb (final s) | _ => false end.
(* 4*6*3 = 72 states at most; 72 rounds reach a fixpoint *)
Definition reachable (fixed : bool) := reach 72 fixed [init].

Example deadlock_reachable_before_repair : existsb (stuck false) (reachable false) = true.
Proof. vm_compute. reflexivity. Qed.
Example deadlock_state : filter (stuck false) (reachable false) = [{| c := CSend; t := TTickLock; lk := ByC |}].
Proof. vm_compute. reflexivity. Qed.
Theorem no_deadlock_after_repair : forallb (fun s => negb (stuck true s)) (reachable true) = true.
Proof. vm_compute. reflexivity. Qed.
(* and Close can always still complete: from every reachable state of the repaired protocol a final state is reachable *)
Theorem close_can_complete : forallb (fun s => existsb final (reach 72 true [s])) (reachable true) = true.
Proof. vm_compute. reflexivity. Qed.
(* `reachable true` is an inductive invariant: contains init and is closed under the step relation *)
Theorem reachable_closed : mem init (reachable true) = true /\ forallb (fun s => forallb (fun s' => mem s' (reachable true)) (succs true s)) (reachable true) = true.
Proof. vm_compute. split; reflexivity. Qed.

(* ---- lifting to every schedule: the states reachable by any finite sequence of steps *)
Opaque reachable reach.
Inductive reach_rel (fixed : bool) : st -> Prop :=
| reach_init : reach_rel fixed init
| reach_step s s' : reach_rel fixed s -> In s' (succs fixed s) -> reach_rel fixed s'.

Lemma eqst_eq a b : eqst a b = true -> a = b.
Proof.
  destruct a as [ca ta la], b as [cb tb lb]. unfold eqst. cbn [c t lk]. intro H.
  apply andb_prop in H. destruct H as [H H3]. apply andb_prop in H. destruct H as [H1 H2].
  destruct ca, cb; try discriminate; destruct ta, tb; try discriminate; destruct la, lb; try discriminate; reflexivity.
Qed.
Lemma eqst_refl a : eqst a a = true.
Proof. destruct a as [ca ta la]. destruct ca, ta, la; reflexivity. Qed.
Lemma mem_In s l : mem s l = true <-> In s l.
Proof.
  unfold mem. rewrite existsb_exists. split.
  - intros (x & Hx & E). apply eqst_eq in E. subst. exact Hx.
  - intro H. exists s. split; [exact H|apply eqst_refl].
Qed.

Theorem every_schedule_stays_in_reachable s : reach_rel true s -> In s (reachable true).
Proof.
  destruct reachable_closed as [Hi Hc]. induction 1 as [|s s' _ IH Hs].
  - exact (proj1 (mem_In _ _) Hi).
  - rewrite forallb_forall in Hc. specialize (Hc s IH). rewrite forallb_forall in Hc. exact (proj1 (mem_In _ _) (Hc s' Hs)).
Qed.
Theorem never_stuck s : reach_rel true s -> stuck true s = false.
Proof.
  intro H. apply every_schedule_stays_in_reachable in H. pose proof no_deadlock_after_repair as N.
  rewrite forallb_forall in N. specialize (N s H). apply negb_true_iff in N. exact N.
Qed.
Theorem can_always_complete s : reach_rel true s -> existsb final (reach 72 true [s]) = true.
Proof.
  intro H. apply every_schedule_stays_in_reachable in H. pose proof close_can_complete as N.
  rewrite forallb_forall in N. exact (N s H).
Qed.
Theorem stuck_before_repair : exists s, reach_rel false s /\ stuck false s = true.
Proof.
  exists {| c := CSend; t := TTickLock; lk := ByC |}. split; [|reflexivity].
  (* Close takes the lock; the ticker goroutine chooses the tick case; now Close waits to send and the ticker waits for the lock *)
  eapply reach_step; [eapply reach_step; [apply reach_init|]|]; cbn; [left; reflexivity|]. cbn. right. left. reflexivity.
Qed.
