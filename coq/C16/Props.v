(* C16 — property theorems only. Each is closed by [exact] of a lemma from Proofs.v / Handshake.v and followed by Print Assumptions.
   The sequential model treats Use, Tick, Close, New, SetCap as atomic (the controller's lock); the Close/ticker hand-shake, which
   is about the lock itself, is the separate finite transition system of Handshake.v. *)
From Coq Require Import ZArith List Bool Arith Permutation.
From Verif Require Import C16.Model C16.Proofs C16.Proofs2.
From Verif Require C16.Handshake.
Import ListNotations.
Open Scope Z_scope.

(* In every reachable state, for every limiter: 0 <= used <= max 0 capacity - nothing is ever granted beyond a cap.
   (Histories in which SetCap is used are outside this statement: lowering a cap below what was already granted breaks it by design.) *)
Theorem C16_used_never_exceeds_capacity : forall rootcap ops, Forall no_setcap ops ->
  forall i, 0 <= used (getl (final (init rootcap) ops) i) <= Z.max 0 (cap (getl (final (init rootcap) ops) i)).
Proof. intros rootcap ops H. exact (proj1 (proj2 (Inv_final ops (init rootcap) (Inv_init rootcap) H))). Qed.
Print Assumptions C16_used_never_exceeds_capacity.

(* A grant adds the amount to the limiter and to every one of its ancestors, and to no other limiter: so a child's consumption
   counts against each cap on its path to the root *)
Theorem C16_grant_charges_exactly_the_ancestor_chain : forall s i a, WF s -> forall k,
  getl (charge s i a) k = (if in_dec Nat.eq_dec k (chain_of s i) then if (k <? length (lims s))%nat then with_used (used (getl s k) + a) (getl s k) else getl s k else getl s k).
Proof. exact charge_spec. Qed.
Print Assumptions C16_grant_charges_exactly_the_ancestor_chain.
Theorem C16_tree_is_well_founded : forall rootcap ops, Forall no_setcap ops -> WF (final (init rootcap) ops).
Proof. intros rootcap ops H. exact (proj1 (Inv_final ops (init rootcap) (Inv_init rootcap) H)). Qed.
Print Assumptions C16_tree_is_well_founded.

(* A tick answers or keeps every waiting request: none answered twice, none lost *)
Theorem C16_tick_answers_or_keeps_each_request : forall s, running s = true ->
  Permutation (map rid_of (waiting (fst (tick s))) ++ map fst (snd (tick s))) (map rid_of (waiting s)).
Proof. exact tick_answers_or_keeps. Qed.
Print Assumptions C16_tick_answers_or_keeps_each_request.

(* Closed is for ever; Close marks its limiter; closing the root fails every pending request and stops the ticker *)
Theorem C16_closed_stays_closed : forall s o, WF s -> stays_closed s (fst (step s o)).
Proof. exact closed_stays_closed. Qed.
Print Assumptions C16_closed_stays_closed.
Theorem C16_close_marks_closed : forall s i, (i < length (lims s))%nat -> closed (getl (fst (close s i)) i) = true.
Proof. exact close_marks_closed. Qed.
Print Assumptions C16_close_marks_closed.
Theorem C16_root_close_fails_all_pending : forall s, closed (getl s 0%nat) = false -> parent (getl s 0%nat) = None ->
  snd (close s 0%nat) = map (fun q => (fst (fst q), ErrClosed)) (waiting s) /\ waiting (fst (close s 0%nat)) = [] /\ running (fst (close s 0%nat)) = false.
Proof. exact root_close_answers_everyone. Qed.
Print Assumptions C16_root_close_fails_all_pending.

(* ---- LastUsed (Proofs2.v). [desc (S n) s 0 k]: limiter k lies in the tree below the root (following the kids lists, the way the
   ticker's reset walks it); [att s k]: k is attached to the root through the kids lists. ---- *)
(* the kids lists and the parent pointers describe a tree in every reachable state: a child's parent is the node that lists it, its
   index is allocated, and no node lists a child twice *)
Theorem C16_kids_lists_form_a_tree : forall rootcap ops, Forall no_setcap ops ->
  K1 (final (init rootcap) ops) /\ K2 (final (init rootcap) ops).
Proof. intros rootcap ops H. exact (KK_final ops (init rootcap) (Inv_init rootcap) (KK_init rootcap) H). Qed.
Print Assumptions C16_kids_lists_form_a_tree.
(* reset rewrites exactly the nodes of the subtree it is called on, each of them once: used := 0, last := the used of before *)
Theorem C16_reset_rewrites_exactly_the_subtree : forall fuel s i, K1 s -> K2 s -> WF s ->
  forall k, getl (reset fuel s i) k = if desc fuel s i k then reset_one (getl s k) else getl s k.
Proof. exact reset_spec. Qed.
Print Assumptions C16_reset_rewrites_exactly_the_subtree.
(* the walk reaches every attached limiter, however deep the tree *)
Theorem C16_every_attached_limiter_is_reached : forall s, K1 s -> WF s -> forall k, att s k -> (k < length (lims s))%nat ->
  desc (S (length (lims s))) s 0 k = true.
Proof. exact attached_is_reached. Qed.
Print Assumptions C16_every_attached_limiter_is_reached.
(* LASTUSED: in every history, at every tick, LastUsed of every limiter of the tree becomes the amount charged to it - its own grants
   and its descendants' (C16_grant_charges_exactly_the_ancestor_chain) - in the period that ends; the grants served by the tick itself
   count for the new period *)
Theorem C16_last_used_reports_the_period_that_ended : forall rootcap ops, Forall no_setcap ops ->
  let s := final (init rootcap) ops in running s = true ->
  forall k, desc (S (length (lims s))) s 0 k = true -> last (getl (fst (tick s)) k) = used (getl s k).
Proof. exact last_used_in_every_history. Qed.
Print Assumptions C16_last_used_reports_the_period_that_ended.
(* non-vacuity: root 10 with a child 5 and a grandchild 3; Use(2) on the grandchild, then a tick: all three report 2 *)
Example C16_ex_last_used :
  let s := final (init 10) [ONew 0 5; ONew 1 3; OUse 1 2 2] in
  (desc 4 s 0 2, map (fun k => last (getl (fst (tick s)) k)) [0; 1; 2]%nat, map (fun k => used (getl (fst (tick s)) k)) [0; 1; 2]%nat) = (true, [2; 2; 2], [0; 0; 0]).
Proof. vm_compute. reflexivity. Qed.

(* The hand-shake (order in the code now: Lock; mark; Unlock; done <- true): under every schedule of the caller of Close and the
   ticker goroutine, with a tick available at every instant, no reachable state is stuck and completion stays possible;
   the state space has at most 72 states and is enumerated by the kernel. Before the repair a stuck state was reachable. *)
Theorem C16_close_never_deadlocks : forall s, Handshake.reach_rel true s -> Handshake.stuck true s = false.
Proof. exact Handshake.never_stuck. Qed.
Print Assumptions C16_close_never_deadlocks.
Theorem C16_close_can_always_complete : forall s, Handshake.reach_rel true s -> existsb Handshake.final (Handshake.reach 72 true [s]) = true.
Proof. exact Handshake.can_always_complete. Qed.
Print Assumptions C16_close_can_always_complete.
Theorem C16_deadlock_before_repair_refuted : exists s, Handshake.reach_rel false s /\ Handshake.stuck false s = true.
Proof. exact Handshake.stuck_before_repair. Qed.
Print Assumptions C16_deadlock_before_repair_refuted.

(* ---- a concrete history: child cap larger than the parent's, waiting, tick, close *)
Module NonVacuous.
  Definition ops := [ONew 0%nat 30; OUse 1%nat 1%nat 8; OUse 2%nat 1%nat 5; OUse 3%nat 0%nat 2; OTick; OUse 4%nat 1%nat 31; OUse 5%nat 1%nat (-1); OClose 1%nat; OUse 6%nat 1%nat 1; OUse 7%nat 0%nat 9; OClose 0%nat].
  Example no_setcap_here : Forall no_setcap ops. Proof. repeat constructor. Qed.
  Example history : map fst (run (init 10) ops) =
    [ []; [(1%nat, Granted)]; []; [(3%nat, Granted)]; [(2%nat, Granted)]; [(4%nat, ErrCap)]; [(5%nat, ErrNeg)]; []; [(6%nat, ErrClosed)]; []; [(7%nat, ErrClosed)] ].
  Proof. vm_compute. reflexivity. Qed.
End NonVacuous.
