(* C16 — executable model of the rate limiter (rate/limiter.go) as a sequential state machine: the limiter tree (parent,
   capacity, used, last, closed, children), the controller's waiting queue, and the events Use, Tick (the ticker goroutine's
   tick case), Close, New, SetCap as atomic functions - which is what the controller's lock provides. Limiters are numbered
   in creation order (0 is the root); requests carry an id chosen by the caller. No proofs here. *)
From Coq Require Import ZArith List Bool Arith.
Import ListNotations.
Open Scope Z_scope.

Record lim := { parent : option nat; cap : Z; used : Z; last : Z; closed : bool; kids : list nat }.
Inductive ans := Granted | ErrNeg | ErrCap | ErrClosed.
Record st := { lims : list lim; waiting : list (nat * nat * Z) (* request id, limiter, amount *); running : bool }.
Definition dflt := {| parent := None; cap := 0; used := 0; last := 0; closed := true; kids := [] |}.
Definition getl (s : st) (i : nat) := nth i (lims s) dflt.
Fixpoint setl (l : list lim) (i : nat) (x : lim) := match l, i with [], _ => [] | _ :: r, O => x :: r | y :: r, S j => y :: setl r j x end.
Definition upd (s : st) (i : nat) (f : lim -> lim) := {| lims := setl (lims s) i (f (getl s i)); waiting := waiting s; running := running s |}.
Definition with_used (u : Z) (l : lim) := {| parent := parent l; cap := cap l; used := u; last := last l; closed := closed l; kids := kids l |}.
Definition with_cap (c : Z) (l : lim) := {| parent := parent l; cap := c; used := used l; last := last l; closed := closed l; kids := kids l |}.
Definition with_closed (l : lim) := {| parent := parent l; cap := cap l; used := used l; last := last l; closed := true; kids := kids l |}.
Definition with_kids (k : list nat) (l : lim) := {| parent := parent l; cap := cap l; used := used l; last := last l; closed := closed l; kids := k |}.
Definition reset_one (l : lim) := {| parent := parent l; cap := cap l; used := 0; last := used l; closed := closed l; kids := kids l |}.

(* the limiter and its ancestors *)
Fixpoint chain (fuel : nat) (s : st) (i : nat) : list nat :=
  match fuel with O => [] | S f => i :: match parent (getl s i) with Some p => chain f s p | None => [] end end.
Definition chain_of (s : st) (i : nat) := chain (S (length (lims s))) s i.
Definition room (s : st) (j : nat) : Z := cap (getl s j) - used (getl s j).
Definition avail (s : st) (i : nat) : Z := fold_left (fun a j => Z.min a (room s j)) (chain_of s i) (room s i).
Definition charge (s : st) (i : nat) (a : Z) : st := fold_left (fun s j => upd s j (fun l => with_used (used l + a) l)) (chain_of s i) s.

Definition use (s : st) (rid i : nat) (a : Z) : st * option ans :=
  if a <? 0 then (s, Some ErrNeg) else if a =? 0 then (s, Some Granted)
  else if closed (getl s i) then (s, Some ErrClosed)
  else if cap (getl s i) <? a then (s, Some ErrCap)
  else if a <=? avail s i then (charge s i a, Some Granted)
  else ({| lims := lims s; waiting := waiting s ++ [(rid, i, a)]; running := running s |}, None).

Fixpoint reset (fuel : nat) (s : st) (i : nat) : st :=
  match fuel with O => s | S f => fold_left (reset f) (kids (getl s i)) (upd s i reset_one) end.

Definition serve (acc : st * list (nat * nat * Z) * list (nat * ans)) (req : nat * nat * Z) :=
  let '(s, rem, out) := acc in let '(rid, i, a) := req in
  if closed (getl s i) then (s, rem, out ++ [(rid, ErrClosed)])
  else if cap (getl s i) <? a then (s, rem, out ++ [(rid, ErrCap)])
  else if (0 <? room s 0) && (a <=? avail s i) then (charge s i a, rem, out ++ [(rid, Granted)])
  else (s, rem ++ [(rid, i, a)], out).
Definition tick (s : st) : st * list (nat * ans) :=
  if negb (running s) then (s, []) else
  let s0 := reset (S (length (lims s))) s 0 in
  let '(s1, rem, out) := fold_left serve (waiting s) (s0, [], []) in
  ({| lims := lims s1; waiting := rem; running := true |}, out).

Fixpoint close_rec (fuel : nat) (s : st) (i : nat) : st :=
  match fuel with O => s | S f => fold_left (close_rec f) (kids (getl s i)) (upd s i with_closed) end.
Definition close (s : st) (i : nat) : st * list (nat * ans) :=
  if closed (getl s i) then (s, []) else
  let s1 := close_rec (S (length (lims s))) s i in
  match parent (getl s i) with
  | None => ({| lims := lims s1; waiting := []; running := false |}, map (fun q => (fst (fst q), ErrClosed)) (waiting s1))
  | Some p => (upd s1 p (fun l => with_kids (filter (fun k => negb (k =? i)%nat) (kids l)) l), [])
  end.
Definition new_child (s : st) (p : nat) (c : Z) : st :=
  if closed (getl s p) then s else
  let id := length (lims s) in
  let s1 := {| lims := lims s ++ [{| parent := Some p; cap := c; used := 0; last := 0; closed := false; kids := [] |}]; waiting := waiting s; running := running s |} in
  upd s1 p (fun l => with_kids (kids l ++ [id]) l).
Definition set_cap (s : st) (i : nat) (c : Z) : st := upd s i (with_cap c).

Inductive op := OUse (rid i : nat) (a : Z) | OTick | OClose (i : nat) | ONew (p : nat) (c : Z) | OSetCap (i : nat) (c : Z).
Definition step (s : st) (o : op) : st * list (nat * ans) :=
  match o with
  | OUse rid i a => let '(s', x) := use s rid i a in (s', match x with Some an => [(rid, an)] | None => [] end)
  | OTick => tick s
  | OClose i => close s i
  | ONew p c => (new_child s p c, [])
  | OSetCap i c => (set_cap s i c, [])
  end.
Definition init (rootcap : Z) : st :=
  {| lims := [{| parent := None; cap := rootcap; used := 0; last := 0; closed := false; kids := [] |}]; waiting := []; running := true |}.
(* per operation: the answers delivered, and LastUsed / Closed / Cap(applyParentCaps) of every limiter afterwards *)
Definition eff_cap (s : st) (i : nat) : Z := fold_left (fun a j => Z.min a (cap (getl s j))) (chain_of s i) (cap (getl s i)).
Fixpoint run (s : st) (ops : list op) : list (list (nat * ans) * list (Z * bool * Z)) :=
  match ops with
  | [] => []
  | o :: r => let '(s', out) := step s o in
              (out, map (fun i => (last (getl s' i), closed (getl s' i), eff_cap s' i)) (seq 0 (length (lims s')))) :: run s' r
  end.
