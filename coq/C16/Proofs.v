(* C16 — lemmas for the accounting: the ancestor chain is duplicate-free, a grant charges exactly the chain, the tick only resets,
   and "used never exceeds capacity" is an invariant of every history (SetCap lowering below the amount already used excepted). *)
From Coq Require Import ZArith List Bool Arith Lia.
From Verif Require Import C16.Model.
Import ListNotations.
Open Scope Z_scope.

(* ---- the limiter table *)
Lemma setl_length : forall l i x, length (setl l i x) = length l.
Proof. induction l as [|y l IH]; intros [|i] x; cbn; try reflexivity; f_equal; apply IH. Qed.
Lemma nth_setl : forall l i x k d, nth k (setl l i x) d = if (k =? i)%nat && (i <? length l)%nat then x else nth k l d.
Proof.
  induction l as [|y l IH]; intros i x k d.
  - cbn. destruct i, k; cbn; try reflexivity; rewrite andb_false_r; reflexivity.
  - destruct i as [|i], k as [|k]; cbn [setl nth length]; try reflexivity.
    rewrite IH. change (S k =? S i)%nat with (k =? i)%nat. change (S i <? S (length l))%nat with (i <? length l)%nat. reflexivity.
Qed.
Lemma getl_upd s i f k : getl (upd s i f) k = if (k =? i)%nat && (i <? length (lims s))%nat then f (getl s i) else getl s k.
Proof. unfold getl, upd. cbn [lims]. apply nth_setl. Qed.
Lemma len_upd s i f : length (lims (upd s i f)) = length (lims s).
Proof. unfold upd. cbn [lims]. apply setl_length. Qed.
Lemma getl_out s k : (length (lims s) <= k)%nat -> getl s k = dflt.
Proof. intro H. unfold getl. apply nth_overflow. exact H. Qed.

(* what an operation may do to a limiter: [same_shape] keeps parent and cap *)
Definition WF (s : st) : Prop := forall i p, parent (getl s i) = Some p -> (p < i)%nat.
Definition BND (s : st) : Prop := forall i, 0 <= used (getl s i) <= Z.max 0 (cap (getl s i)).
Definition QPOS (s : st) : Prop := Forall (fun q => 0 < snd q) (waiting s).
Definition Inv (s : st) : Prop := WF s /\ BND s /\ QPOS s.

(* ---- the ancestor chain *)
Lemma chain_le s : WF s -> forall fuel i j, In j (chain fuel s i) -> (j <= i)%nat.
Proof.
  intros W. induction fuel as [|f IH]; intros i j H; [contradiction|]. cbn [chain] in H. destruct H as [<-|H]; [lia|].
  destruct (parent (getl s i)) as [p|] eqn:E; [|contradiction]. specialize (W i p E). specialize (IH p j H). lia.
Qed.
Lemma chain_nodup s : WF s -> forall fuel i, NoDup (chain fuel s i).
Proof.
  intros W. induction fuel as [|f IH]; intro i; [constructor|]. cbn [chain]. constructor.
  - destruct (parent (getl s i)) as [p|] eqn:E; [|intros []]. intro H. apply (chain_le s W) in H. specialize (W i p E). lia.
  - destruct (parent (getl s i)); [apply IH|constructor].
Qed.

(* ---- charging a chain *)
Definition bump (a : Z) (s : st) (j : nat) := upd s j (fun l => with_used (used l + a) l).
Lemma bump_fold a : forall l s, NoDup l ->
  let s' := fold_left (bump a) l s in
  length (lims s') = length (lims s) /\ waiting s' = waiting s /\ running s' = running s /\
  forall k, getl s' k = getl s k \/ (In k l /\ getl s' k = with_used (used (getl s k) + a) (getl s k)).
Proof.
  induction l as [|j l IH]; intros s ND; cbn [fold_left].
  - repeat split. intro k. left. reflexivity.
  - inversion ND as [|? ? Hnotin ND']; subst. destruct (IH (bump a s j) ND') as (L & Wt & R & G).
    assert (Lb : length (lims (bump a s j)) = length (lims s)) by apply len_upd. rewrite Lb in L.
    change (waiting (bump a s j)) with (waiting s) in Wt. change (running (bump a s j)) with (running s) in R. repeat split; try assumption.
    intro k. destruct (G k) as [E|[Hin E]].
    + rewrite E. unfold bump. rewrite getl_upd. destruct ((k =? j)%nat && (j <? length (lims s))%nat) eqn:C; [|left; reflexivity].
      apply andb_prop in C. destruct C as [C _]. apply Nat.eqb_eq in C. subst k. right. split; [left; reflexivity|reflexivity].
    + right. split; [right; exact Hin|]. rewrite E. unfold bump. rewrite getl_upd.
      destruct ((k =? j)%nat && (j <? length (lims s))%nat) eqn:C; [|reflexivity].
      apply andb_prop in C. destruct C as [C _]. apply Nat.eqb_eq in C. subst k. contradiction.
Qed.
Lemma charge_eq s i a : charge s i a = fold_left (bump a) (chain_of s i) s.
Proof. reflexivity. Qed.

Lemma fold_min_le s : forall l acc, fold_left (fun a j => Z.min a (room s j)) l acc <= acc.
Proof. induction l as [|y l IH]; intro acc; cbn [fold_left]; [lia|]. etransitivity; [apply IH|]. lia. Qed.
Lemma avail_le s : forall l acc j, In j l -> fold_left (fun a j => Z.min a (room s j)) l acc <= room s j.
Proof.
  induction l as [|x l IH]; intros acc j H; [contradiction|]. cbn [fold_left]. destruct H as [<-|H]; [|apply IH, H].
  etransitivity; [apply fold_min_le|]. lia.
Qed.

Lemma Inv_charge s i a : Inv s -> 0 < a -> a <= avail s i -> Inv (charge s i a).
Proof.
  intros (W & B & Q) Ha Hav. rewrite charge_eq.
  destruct (bump_fold a (chain_of s i) s (chain_nodup s W _ i)) as (L & Wt & R & G). set (s' := fold_left (bump a) (chain_of s i) s) in *.
  split; [|split].
  - intros k p Hp. destruct (G k) as [E|[_ E]]; rewrite E in Hp; apply (W k p Hp).
  - intro k. destruct (G k) as [E|[Hin E]]; rewrite E; [apply B|]. cbn [used cap with_used].
    specialize (B k). assert (a <= room s k) by (etransitivity; [exact Hav|apply avail_le, Hin]). unfold room in *. lia.
  - unfold QPOS. rewrite Wt. exact Q.
Qed.

(* a grant adds the amount to the limiter and to each of its ancestors, and to nothing else *)
Theorem charge_spec s i a : WF s -> forall k,
  getl (charge s i a) k = (if in_dec Nat.eq_dec k (chain_of s i) then if (k <? length (lims s))%nat then with_used (used (getl s k) + a) (getl s k) else getl s k else getl s k).
Proof.
  intros W k. rewrite charge_eq. revert k.
  assert (H : forall l s0, NoDup l -> forall k, getl (fold_left (bump a) l s0) k =
            if in_dec Nat.eq_dec k l then if (k <? length (lims s0))%nat then with_used (used (getl s0 k) + a) (getl s0 k) else getl s0 k else getl s0 k).
  { induction l as [|j l IH]; intros s0 ND k; cbn [fold_left]; [reflexivity|]. inversion ND as [|? ? Hnotin ND']; subst.
    rewrite IH by exact ND'. change (bump a s0 j) with (upd s0 j (fun l => with_used (used l + a) l)). rewrite len_upd, !getl_upd.
    destruct (in_dec Nat.eq_dec k (j :: l)) as [[->|Hin]|Hn].
    - destruct (in_dec Nat.eq_dec k l); [contradiction|]. rewrite Nat.eqb_refl. cbn [andb]. destruct (k <? length (lims s0))%nat; reflexivity.
    - destruct (in_dec Nat.eq_dec k l); [|contradiction]. assert (k <> j) by (intros ->; contradiction).
      rewrite (proj2 (Nat.eqb_neq k j)) by assumption. reflexivity.
    - destruct (in_dec Nat.eq_dec k l) as [Hin|_]; [exfalso; apply Hn; right; exact Hin|].
      assert (k <> j) by (intros ->; apply Hn; left; reflexivity). rewrite (proj2 (Nat.eqb_neq k j)) by assumption. reflexivity. }
  apply H. apply chain_nodup, W.
Qed.

(* ---- operations that keep parent and capacity, and leave used alone or reset it *)
Definition tame (s s' : st) : Prop :=
  length (lims s') = length (lims s) /\ waiting s' = waiting s /\ running s' = running s /\
  forall k, parent (getl s' k) = parent (getl s k) /\ cap (getl s' k) = cap (getl s k) /\ (used (getl s' k) = 0 \/ used (getl s' k) = used (getl s k)) /\
            (closed (getl s k) = true -> closed (getl s' k) = true).
Lemma tame_refl s : tame s s.
Proof. repeat split; auto. Qed.
Lemma tame_trans a b c : tame a b -> tame b c -> tame a c.
Proof.
  intros (L1 & W1 & R1 & G1) (L2 & W2 & R2 & G2). repeat split; try congruence.
  - destruct (G1 k) as (P1 & _), (G2 k) as (P2 & _). congruence.
  - destruct (G1 k) as (_ & C1 & _), (G2 k) as (_ & C2 & _). congruence.
  - destruct (G1 k) as (_ & _ & U1 & _), (G2 k) as (_ & _ & U2 & _). destruct U2 as [U2|U2]; [left; exact U2|]. rewrite U2. exact U1.
  - intro H. destruct (G1 k) as (_ & _ & _ & M1), (G2 k) as (_ & _ & _ & M2). auto.
Qed.
Lemma tame_upd s i f : (forall l, parent (f l) = parent l /\ cap (f l) = cap l /\ (used (f l) = 0 \/ used (f l) = used l) /\ (closed l = true -> closed (f l) = true)) -> tame s (upd s i f).
Proof.
  intro H. repeat split; try (apply len_upd); rewrite getl_upd;
    destruct ((k =? i)%nat && (i <? length (lims s))%nat) eqn:C; auto;
    apply andb_prop in C; destruct C as [C _]; apply Nat.eqb_eq in C; subst k; apply H.
Qed.
Lemma tame_fold (g : st -> nat -> st) : (forall s i, tame s (g s i)) -> forall l s, tame s (fold_left g l s).
Proof. intros H. induction l as [|x l IH]; intro s; cbn [fold_left]; [apply tame_refl|]. eapply tame_trans; [apply H|apply IH]. Qed.
Lemma tame_reset : forall fuel s i, tame s (reset fuel s i).
Proof.
  induction fuel as [|f IH]; intros s i; cbn [reset]; [apply tame_refl|].
  eapply tame_trans; [apply (tame_upd s i reset_one); intro l; cbn; auto 6|]. apply tame_fold. exact IH.
Qed.
Lemma tame_close_rec : forall fuel s i, tame s (close_rec fuel s i).
Proof.
  induction fuel as [|f IH]; intros s i; cbn [close_rec]; [apply tame_refl|].
  eapply tame_trans; [apply (tame_upd s i with_closed); intro l; cbn; auto 6|]. apply tame_fold. exact IH.
Qed.
Lemma tame_Inv s s' : tame s s' -> Inv s -> Inv s'.
Proof.
  intros (L & Wt & R & G) (W & B & Q). split; [|split].
  - intros k p Hp. destruct (G k) as (P & _). rewrite P in Hp. apply (W k p Hp).
  - intro k. destruct (G k) as (_ & C & U & _). rewrite C. specialize (B k). destruct U as [U|U]; rewrite U; lia.
  - unfold QPOS. rewrite Wt. exact Q.
Qed.
Lemma Inv_lims s s' : lims s' = lims s -> Forall (fun q => 0 < snd q) (waiting s') -> Inv s -> Inv s'.
Proof.
  intros E Q (W & B & _). unfold Inv, WF, BND, getl in *. rewrite E. repeat split; try assumption; apply B.
Qed.

(* ---- the operations *)
Lemma Inv_use s rid i a : Inv s -> Inv (fst (use s rid i a)).
Proof.
  intro I. unfold use. destruct (a <? 0) eqn:E1; [exact I|]. destruct (a =? 0) eqn:E2; [exact I|].
  destruct (closed (getl s i)); [exact I|]. destruct (cap (getl s i) <? a); [exact I|].
  apply Z.ltb_ge in E1. apply Z.eqb_neq in E2. destruct (a <=? avail s i) eqn:E3; cbn [fst].
  - apply Inv_charge; [exact I|lia|apply Z.leb_le, E3].
  - apply (Inv_lims s); [reflexivity| |exact I]. cbn [waiting]. destruct I as (_ & _ & Q). apply Forall_app. split; [exact Q|]. constructor; [cbn; lia|constructor].
Qed.

Definition serve_ok (acc : st * list (nat * nat * Z) * list (nat * ans)) : Prop :=
  Inv (fst (fst acc)) /\ Forall (fun q => 0 < snd q) (snd (fst acc)).
Lemma serve_step acc q : serve_ok acc -> 0 < snd q -> serve_ok (serve acc q).
Proof.
  destruct acc as [[s rem] out], q as [[rid i] a]. intros [I R] Ha. cbn [snd] in Ha. unfold serve.
  destruct (closed (getl s i)); [split; assumption|]. destruct (cap (getl s i) <? a); [split; assumption|].
  destruct ((0 <? room s 0) && (a <=? avail s i)) eqn:E.
  - apply andb_prop in E. destruct E as [_ E]. split; cbn [fst snd]; [|exact R]. apply Inv_charge; [exact I|exact Ha|apply Z.leb_le, E].
  - split; cbn [fst snd]; [exact I|]. apply Forall_app. split; [exact R|]. constructor; [exact Ha|constructor].
Qed.
Lemma serve_fold : forall reqs acc, serve_ok acc -> Forall (fun q => 0 < snd q) reqs -> serve_ok (fold_left serve reqs acc).
Proof.
  induction reqs as [|q reqs IH]; intros acc A Q; cbn [fold_left]; [exact A|]. inversion Q as [|? ? Hq Q']; subst.
  apply IH; [apply serve_step; assumption|exact Q'].
Qed.

Lemma Inv_tick s : Inv s -> Inv (fst (tick s)).
Proof.
  intro I. unfold tick. destruct (negb (running s)); [exact I|].
  set (s0 := reset (S (length (lims s))) s 0%nat).
  assert (I0 : Inv s0) by (apply (tame_Inv s); [apply tame_reset|exact I]).
  assert (Q0 : Forall (fun q => 0 < snd q) (waiting s)) by apply I.
  pose proof (serve_fold (waiting s) (s0, [], []) (conj I0 (Forall_nil _)) Q0) as [A B].
  destruct (fold_left serve (waiting s) (s0, [], [])) as [[s1 rem] out]. cbn [fst snd] in *.
  apply (Inv_lims s1); [reflexivity|exact B|exact A].
Qed.

Lemma Inv_close s i : Inv s -> Inv (fst (close s i)).
Proof.
  intro I. unfold close. destruct (closed (getl s i)); [exact I|].
  set (s1 := close_rec (S (length (lims s))) s i).
  assert (I1 : Inv s1) by (apply (tame_Inv s); [apply tame_close_rec|exact I]).
  destruct (parent (getl s i)) as [p|]; cbn [fst].
  - apply (tame_Inv s1); [|exact I1]. apply tame_upd. intro l. cbn. auto 6.
  - apply (Inv_lims s1); [reflexivity|constructor|exact I1].
Qed.

Lemma getl_app_new s x k : getl {| lims := lims s ++ [x]; waiting := waiting s; running := running s |} k =
  if (k <? length (lims s))%nat then getl s k else if (k =? length (lims s))%nat then x else dflt.
Proof.
  unfold getl. cbn [lims]. destruct (Nat.ltb_spec k (length (lims s))) as [H|H].
  - apply app_nth1. exact H.
  - rewrite app_nth2 by exact H. destruct (Nat.eqb_spec k (length (lims s))) as [->|Hn].
    + rewrite Nat.sub_diag. reflexivity.
    + destruct (k - length (lims s))%nat as [|[|m]] eqn:E; [lia|reflexivity|reflexivity].
Qed.

Lemma Inv_new s p c : Inv s -> Inv (new_child s p c).
Proof.
  intro I. unfold new_child. destruct (closed (getl s p)) eqn:Cl; [exact I|].
  assert (Hp : (p < length (lims s))%nat).
  { destruct (le_lt_dec (length (lims s)) p) as [H|H]; [|exact H]. rewrite (getl_out s p H) in Cl. discriminate. }
  match goal with |- Inv (upd ?x _ _) => set (s1 := x) end.
  apply (tame_Inv s1); [apply tame_upd; intro l; cbn; auto 6|].
  destruct I as (W & B & Q). split; [|split].
  - intros k q Hq. unfold s1 in Hq. rewrite getl_app_new in Hq. destruct (k <? length (lims s))%nat; [apply (W k q Hq)|].
    destruct (Nat.eqb_spec k (length (lims s))) as [->|]; [|discriminate]. cbn in Hq. injection Hq as <-. exact Hp.
  - intro k. unfold s1. rewrite getl_app_new. destruct (k <? length (lims s))%nat; [apply B|].
    destruct (k =? length (lims s))%nat; cbn; lia.
  - exact Q.
Qed.

Definition no_setcap (o : op) : Prop := match o with OSetCap _ _ => False | _ => True end.
Lemma Inv_step s o : Inv s -> no_setcap o -> Inv (fst (step s o)).
Proof.
  intros I H. destruct o as [rid i a| |i|p c|i c]; cbn [step].
  - pose proof (Inv_use s rid i a I) as U. destruct (use s rid i a) as [s' x]. exact U.
  - apply Inv_tick, I.
  - apply Inv_close, I.
  - apply Inv_new, I.
  - contradiction.
Qed.
Lemma Inv_init c : Inv (init c).
Proof.
  split; [|split].
  - intros [|[|k]] p H; cbn in H; discriminate.
  - intros [|[|k]]; cbn; lia.
  - constructor.
Qed.
Definition final (s : st) (ops : list op) : st := fold_left (fun s o => fst (step s o)) ops s.
Theorem Inv_final : forall ops s, Inv s -> Forall no_setcap ops -> Inv (final s ops).
Proof.
  induction ops as [|o ops IH]; intros s I H; [exact I|]. inversion H as [|? ? Ho Hr]; subst. apply IH; [apply Inv_step; assumption|exact Hr].
Qed.

(* ---- closing *)
Definition stays_closed (s s' : st) : Prop := forall k, (k < length (lims s))%nat -> closed (getl s k) = true -> closed (getl s' k) = true.
Lemma tame_stays s s' : tame s s' -> stays_closed s s'.
Proof. intros (_ & _ & _ & G) k _ H. destruct (G k) as (_ & _ & _ & M). apply M, H. Qed.
Lemma charge_closed s i a : WF s -> forall k, closed (getl (charge s i a) k) = closed (getl s k).
Proof.
  intros W k. rewrite charge_spec by exact W. destruct (in_dec Nat.eq_dec k (chain_of s i)); [|reflexivity].
  destruct (k <? length (lims s))%nat; reflexivity.
Qed.
Lemma serve_closed : forall reqs s rem out, WF s -> (forall k, closed (getl (fst (fst (fold_left serve reqs (s, rem, out)))) k) = closed (getl s k)) /\ WF (fst (fst (fold_left serve reqs (s, rem, out)))).
Proof.
  induction reqs as [|[[rid i] a] reqs IH]; intros s rem out W; cbn [fold_left]; [split; [reflexivity|exact W]|].
  unfold serve at 2 4. destruct (closed (getl s i)); [apply IH, W|]. destruct (cap (getl s i) <? a); [apply IH, W|].
  destruct ((0 <? room s 0) && (a <=? avail s i)); [|apply IH, W].
  assert (W' : WF (charge s i a)).
  { intros k p Hp. rewrite charge_spec in Hp by exact W. destruct (in_dec Nat.eq_dec k (chain_of s i)); [|apply (W k p Hp)].
    destruct (k <? length (lims s))%nat; apply (W k p Hp). }
  destruct (IH (charge s i a) rem (out ++ [(rid, Granted)]) W') as [E Wf]. split; [|exact Wf].
  intro k. rewrite E. apply charge_closed, W.
Qed.

Theorem closed_stays_closed s o : WF s -> stays_closed s (fst (step s o)).
Proof.
  intros W k Hk H. destruct o as [rid i a| |i|p c|i c]; cbn [step].
  - unfold use. repeat match goal with |- context[if ?b then _ else _] => destruct b end; cbn [fst]; try exact H.
    rewrite charge_closed by exact W. exact H.
  - unfold tick. destruct (negb (running s)); [exact H|].
    pose proof (tame_reset (S (length (lims s))) s 0%nat) as T. set (s0 := reset (S (length (lims s))) s 0%nat) in *.
    assert (W0 : WF s0). { intros j p Hp. destruct T as (_ & _ & _ & G). destruct (G j) as (P & _). rewrite P in Hp. apply (W j p Hp). }
    destruct (serve_closed (waiting s) s0 [] [] W0) as [E _].
    destruct (fold_left serve (waiting s) (s0, [], [])) as [[s1 rem] out]. cbn [fst] in *.
    change (closed (getl s1 k) = true). rewrite E. apply (tame_stays s s0 T k Hk H).
  - unfold close. destruct (closed (getl s i)); [exact H|]. cbv zeta.
    pose proof (tame_close_rec (S (length (lims s))) s i) as T. set (s1 := close_rec (S (length (lims s))) s i) in *.
    pose proof (tame_stays s s1 T k Hk H) as H1. destruct (parent (getl s i)) as [p|]; cbn [fst]; [|exact H1].
    rewrite (getl_upd s1 p _ k). destruct ((k =? p)%nat && (p <? length (lims s1))%nat) eqn:C; [|exact H1].
    apply andb_prop in C. destruct C as [C _]. apply Nat.eqb_eq in C. subst k. exact H1.
  - cbn [fst]. unfold new_child. destruct (closed (getl s p)); [exact H|]. cbv zeta.
    match goal with |- context[upd ?x _ _] => set (s1 := x) end. rewrite getl_upd.
    assert (E : getl s1 k = getl s k). { unfold s1. rewrite getl_app_new. rewrite (proj2 (Nat.ltb_lt _ _) Hk). reflexivity. }
    destruct ((k =? p)%nat && (p <? length (lims s1))%nat) eqn:C; [|rewrite E; exact H].
    apply andb_prop in C. destruct C as [C _]. apply Nat.eqb_eq in C. subst k. cbn [closed with_kids]. rewrite E. exact H.
  - cbn [fst]. unfold set_cap. rewrite getl_upd. destruct ((k =? i)%nat && (i <? length (lims s))%nat) eqn:C; [|exact H].
    apply andb_prop in C. destruct C as [C _]. apply Nat.eqb_eq in C. subst k. exact H.
Qed.

(* Close marks the limiter closed; closing the root answers every pending request with an error and stops the ticker *)
Lemma close_rec_marks : forall fuel s i, (i < length (lims s))%nat -> closed (getl (close_rec (S fuel) s i) i) = true.
Proof.
  intros fuel s i Hi. cbn [close_rec].
  assert (H0 : closed (getl (upd s i with_closed) i) = true).
  { rewrite getl_upd, Nat.eqb_refl, (proj2 (Nat.ltb_lt _ _) Hi). reflexivity. }
  assert (T : tame (upd s i with_closed) (fold_left (close_rec fuel) (kids (getl s i)) (upd s i with_closed))) by (apply tame_fold, tame_close_rec).
  destruct T as (_ & _ & _ & G). destruct (G i) as (_ & _ & _ & M). apply M, H0.
Qed.
Theorem close_marks_closed s i : (i < length (lims s))%nat -> closed (getl (fst (close s i)) i) = true.
Proof.
  intro Hi. unfold close. destruct (closed (getl s i)) eqn:C; [exact C|]. cbv zeta.
  pose proof (close_rec_marks (length (lims s)) s i Hi) as H. destruct (parent (getl s i)) as [p|] eqn:P; cbn [fst]; [|exact H].
  rewrite getl_upd. destruct ((i =? p)%nat && _) eqn:E; [|exact H]. cbn [closed with_kids].
  apply andb_prop in E. destruct E as [E _]. apply Nat.eqb_eq in E. subst p. exact H.
Qed.
Theorem root_close_answers_everyone s : closed (getl s 0%nat) = false -> parent (getl s 0%nat) = None ->
  snd (close s 0%nat) = map (fun q => (fst (fst q), ErrClosed)) (waiting s) /\ waiting (fst (close s 0%nat)) = [] /\ running (fst (close s 0%nat)) = false.
Proof.
  intros C P. unfold close. rewrite C, P. cbn [fst snd waiting running].
  destruct (tame_close_rec (S (length (lims s))) s 0%nat) as (_ & Wt & _). rewrite Wt. repeat split.
Qed.

(* ---- the tick answers or keeps every waiting request: nothing is answered twice, nothing is lost *)
From Coq Require Import Permutation.
Definition rid_of (q : nat * nat * Z) : nat := fst (fst q).
Lemma serve_cases s rem out rid i a :
  (exists s' an, serve (s, rem, out) (rid, i, a) = (s', rem, out ++ [(rid, an)])) \/ serve (s, rem, out) (rid, i, a) = (s, rem ++ [(rid, i, a)], out).
Proof.
  unfold serve. destruct (closed (getl s i)); [left; eauto|]. destruct (cap (getl s i) <? a); [left; eauto|].
  destruct ((0 <? room s 0) && (a <=? avail s i)); [left; eauto|right; reflexivity].
Qed.
Lemma serve_partition : forall reqs s rem out,
  Permutation (map rid_of (snd (fst (fold_left serve reqs (s, rem, out)))) ++ map fst (snd (fold_left serve reqs (s, rem, out))))
              (map rid_of rem ++ map fst out ++ map rid_of reqs).
Proof.
  induction reqs as [|[[rid i] a] reqs IH]; intros s rem out; cbn [fold_left].
  - cbn. rewrite app_nil_r. apply Permutation_refl.
  - destruct (serve_cases s rem out rid i a) as [(s' & an & E)|E]; rewrite E; (etransitivity; [apply IH|]).
    + rewrite map_app, <- app_assoc. reflexivity.
    + rewrite map_app. cbn [map rid_of fst]. rewrite <- app_assoc. cbn [app].
      apply Permutation_app_head. apply Permutation_middle.
Qed.
Theorem tick_answers_or_keeps s : running s = true ->
  Permutation (map rid_of (waiting (fst (tick s))) ++ map fst (snd (tick s))) (map rid_of (waiting s)).
Proof.
  intro R. unfold tick. rewrite R. cbn [negb].
  pose proof (serve_partition (waiting s) (reset (S (length (lims s))) s 0%nat) [] []) as P.
  destruct (fold_left serve (waiting s) (reset (S (length (lims s))) s 0%nat, [], [])) as [[s1 rem] out]. cbn [fst snd waiting] in *. exact P.
Qed.
