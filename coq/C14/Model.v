(* C14 — model of xio/fs/safe (file.go, writefile.go) at system-call level. The file system is reduced to what the property talks
   about: the destination (absent or a content and mode) and the temporary files in its directory. Contents are abstract ids with a
   length: [Old], or [New n] = the first n bytes of what the writer produces. A run is the list of system calls it issues; a crash
   is any prefix of that list. bufio.Writer (64 KiB) is modelled exactly as far as the sizes of the write calls go. No proofs here. *)
From Coq Require Import ZArith List Bool Arith.
Import ListNotations.

Open Scope Z_scope.
Inductive content := Old | New (n : Z).
Record fs := { dest : option (content * Z (* mode *)); temp : option Z (* bytes written to the temporary file *) }.
Inductive sys := SOpenTemp | SWrite (n : Z) | SClose | SRename (ok : bool) | SUnlink.
Definition BUF := 65536.

Section M.
Variables (mode umask : Z) (mask : Z -> Z -> Z) (* mask m u = m &^ u *).
Definition apply (f : fs) (s : sys) : fs :=
  match s with
  | SOpenTemp => {| dest := dest f; temp := Some 0 |}
  | SWrite n => {| dest := dest f; temp := match temp f with Some k => Some (k + n) | None => None end |}
  | SClose => f
  | SRename true => match temp f with Some k => {| dest := Some (New k, mask mode umask); temp := None |} | None => f end
  | SRename false => f
  | SUnlink => {| dest := dest f; temp := None |}
  end.
Definition run (f : fs) (l : list sys) : fs := fold_left apply l f.

(* bufio.Writer.Write of m bytes with b bytes buffered: the write calls issued and the new fill *)
Fixpoint bufio_write (fuel : nat) (b m : Z) : list sys * Z :=
  match fuel with O => ([], b + m) | S f =>
    if BUF - b <? m then
      if b =? 0 then ([SWrite m], 0)                       (* large write on an empty buffer goes straight through *)
      else let '(l, b') := bufio_write f 0 (m - (BUF - b)) in (SWrite BUF :: l, b')
    else ([], b + m)
  end.
Fixpoint bufio_writes (b : Z) (ws : list Z) : list sys * Z :=
  match ws with [] => ([], b) | m :: r => let '(l1, b1) := bufio_write 3 b m in let '(l2, b2) := bufio_writes b1 r in (l1 ++ l2, b2) end.
Definition flush (b : Z) : list sys := if b =? 0 then [] else [SWrite b].

(* WriteFile: the writer callback performs the writes [ws]; [fail_after = Some k]: it returns an error after k of them;
   [rename_ok]: whether the final rename can succeed. Result: system calls, and whether an error is returned *)
Definition write_file (ws : list Z) (fail_after : option nat) (rename_ok : bool) : list sys * bool :=
  match fail_after with
  | Some k => let '(l, _) := bufio_writes 0 (firstn k ws) in (SOpenTemp :: l ++ [SClose; SUnlink], true)
  | None => let '(l, b) := bufio_writes 0 ws in
            if rename_ok then (SOpenTemp :: l ++ flush b ++ [SClose; SRename true], false)
            else (SOpenTemp :: l ++ flush b ++ [SClose; SRename false; SUnlink], true)
  end.

(* ---- write faults: the file may not grow beyond [limit] bytes (RLIMIT_FSIZE / a full disk). os.File.Write of n bytes at size k
   issues write(n) when it fits; otherwise the kernel takes the part that fits (a short write), the retry fails, and the error
   comes back (a failing call changes nothing and is not part of the call list). bufio.Writer keeps the first error: once set,
   Write and Flush return it without touching the file. The writer callback here IGNORES the errors of its Write calls, so the
   fault surfaces only in WriteFile's own final Flush. *)
Definition file_write (limit k n : Z) : list sys * Z * bool :=
  if k + n <=? limit then ([SWrite n], k + n, false)
  else ((if k <? limit then [SWrite (limit - k)] else []), Z.max k limit, true).
Fixpoint bufio_write_lim (fuel : nat) (limit k b : Z) (e : bool) (m : Z) : list sys * Z * Z * bool :=
  match fuel with O => ([], k, b + m, e) | S f =>
    if e then ([], k, b, true)
    else if BUF - b <? m then
      if b =? 0 then let '(l, k', e') := file_write limit k m in (l, k', 0, e')
      else let '(l, k', e') := file_write limit k BUF in
           if e' then (l, k', b, true)
           else let '(l2, k2, b2, e2) := bufio_write_lim f limit k' 0 false (m - (BUF - b)) in (l ++ l2, k2, b2, e2)
    else ([], k, b + m, false)
  end.
Fixpoint bufio_writes_lim (limit k b : Z) (e : bool) (ws : list Z) : list sys * Z * Z * bool :=
  match ws with
  | [] => ([], k, b, e)
  | m :: r => let '(l1, k1, b1, e1) := bufio_write_lim 3 limit k b e m in
              let '(l2, k2, b2, e2) := bufio_writes_lim limit k1 b1 e1 r in (l1 ++ l2, k2, b2, e2)
  end.
Definition write_file_limited (ws : list Z) (limit : Z) : list sys * bool :=
  let '(l, k, b, e) := bufio_writes_lim limit 0 0 false ws in
  let '(l2, _, e2) := if e then ([], k, true) else if b =? 0 then ([], k, false) else file_write limit k b in
  if e2 then (SOpenTemp :: l ++ l2 ++ [SClose; SUnlink], true) else (SOpenTemp :: l ++ l2 ++ [SClose; SRename true], false).

(* the File API used directly: writes go straight to the descriptor *)
Inductive fop := FWrite (n : Z) | FCommit | FClose.
Record fstate := { committed : bool; closed : bool }.
Inductive fres := ROk | RInvalid | RFailed.
Definition file_step (rename_ok : bool) (st : fstate) (o : fop) : fstate * list sys * fres :=
  match o with
  | FWrite n => if closed st then (st, [], RFailed) (* write on a closed descriptor: an error from the OS, no call reaches the file *)
                else (st, [SWrite n], ROk)
  | FCommit => if committed st then (st, [], ROk) else if closed st then (st, [], RInvalid)
               else ({| committed := true; closed := true |}, if rename_ok then [SClose; SRename true] else [SClose; SRename false; SUnlink], if rename_ok then ROk else RFailed)
  | FClose => if committed st then (st, [], ROk) else if closed st then (st, [], RInvalid)
              else ({| committed := false; closed := true |}, [SClose; SUnlink], ROk)
  end.
Fixpoint file_run (rename_ok : bool) (st : fstate) (ops : list fop) : list sys * list fres :=
  match ops with
  | [] => ([], [])
  | o :: r => let '(st', l, res) := file_step rename_ok st o in let '(l2, rs) := file_run rename_ok st' r in (l ++ l2, res :: rs)
  end.
Definition file_session (rename_ok : bool) (ops : list fop) : list sys * list fres :=
  let '(l, rs) := file_run rename_ok {| committed := false; closed := false |} ops in (SOpenTemp :: l, rs).
End M.
