(* C14 — property theorems only. Each is closed by [exact] of a lemma from Proofs.v and followed by Print Assumptions.
   A run is the list of system calls touching the destination's directory; a crash at any instant leaves the effect of a prefix
   of that list (rename is atomic and a killed process loses no completed call: assumptions about the OS). [d] is the destination
   before the run (None = absent). *)
From Coq Require Import ZArith List Bool.
From Verif Require Import C14.Model C14.Proofs C14.Proofs2.
Import ListNotations.
Open Scope Z_scope.

(* At every crash point of WriteFile - whatever the writes, wherever the writer fails, whether or not the rename can succeed -
   the destination is its complete previous state or the complete new content with the requested mode *)
Theorem C14_writefile_all_or_nothing_at_every_crash_point : forall mode umask mask ws d fail_after rename_ok p q,
  fst (write_file ws fail_after rename_ok) = p ++ q ->
  dest (run mode umask mask (old_fs d) p) = d \/ dest (run mode umask mask (old_fs d) p) = Some (New (zsum ws), mask mode umask).
Proof. exact write_file_atomic. Qed.
Print Assumptions C14_writefile_all_or_nothing_at_every_crash_point.

(* Success: exactly the bytes written, requested mode, no temporary file, no error *)
Theorem C14_writefile_success : forall mode umask mask ws d, let '(calls, err) := write_file ws None true in
  err = false /\ run mode umask mask (old_fs d) calls = {| dest := Some (New (zsum ws), mask mode umask); temp := None |}.
Proof. exact write_file_success. Qed.
Print Assumptions C14_writefile_success.

(* Failure of the writer (after any number of writes) or of the commit: error returned, destination untouched, no temporary file *)
Theorem C14_writefile_failure_leaves_everything_untouched : forall mode umask mask ws d fail_after rename_ok, (fail_after <> None \/ rename_ok = false) ->
  let '(calls, err) := write_file ws fail_after rename_ok in err = true /\ run mode umask mask (old_fs d) calls = old_fs d.
Proof. exact write_file_failure. Qed.
Print Assumptions C14_writefile_failure_leaves_everything_untouched.

(* Write faults (Proofs2.v): the temporary file may not grow beyond [limit] bytes (file-size limit, full disk) and the writer callback
   IGNORES the errors of its own Write calls, so only WriteFile's final Flush can notice. WriteFile returns an error exactly when
   the data does not fit; then nothing is ever published - at every crash point the destination is its previous state - and no
   temporary file remains; when the data fits the destination is exactly the bytes written *)
Theorem C14_write_fault_is_reported_and_nothing_is_published : forall mode umask mask ws limit d, Forall (fun m => 0 <= m) ws -> 0 <= limit ->
  let '(calls, err) := write_file_limited ws limit in
  (err = true <-> limit < zsum ws) /\
  (err = true -> run mode umask mask (old_fs d) calls = old_fs d /\ forall p q, calls = p ++ q -> dest (run mode umask mask (old_fs d) p) = d) /\
  (err = false -> run mode umask mask (old_fs d) calls = {| dest := Some (New (zsum ws), mask mode umask); temp := None |}).
Proof. exact write_file_limited_spec. Qed.
Print Assumptions C14_write_fault_is_reported_and_nothing_is_published.

(* The File API in any order of Write, Commit and Close, at any crash point: the destination is the old file or a file published by a rename *)
Theorem C14_any_call_sequence_is_atomic : forall mode umask mask l f,
  dest (run mode umask mask f l) = dest f \/ exists k, dest (run mode umask mask f l) = Some (New k, mask mode umask).
Proof. exact any_calls_atomic. Qed.
Print Assumptions C14_any_call_sequence_is_atomic.
Theorem C14_close_without_commit_discards : forall mode umask mask d ws,
  let '(calls, res) := file_session true (map FWrite ws ++ [FClose]) in
  run mode umask mask (old_fs d) calls = old_fs d /\ Forall (fun r => r = ROk) res.
Proof. exact file_close_without_commit. Qed.
Print Assumptions C14_close_without_commit_discards.
Theorem C14_commit_publishes_and_further_calls_are_harmless : forall mode umask mask d ws,
  let '(calls, res) := file_session true (map FWrite ws ++ [FCommit; FClose; FCommit]) in
  run mode umask mask (old_fs d) calls = {| dest := Some (New (zsum ws), mask mode umask); temp := None |} /\ Forall (fun r => r = ROk) res.
Proof. exact file_commit_publishes_everything_written. Qed.
Print Assumptions C14_commit_publishes_and_further_calls_are_harmless.
Theorem C14_after_commit_nothing_touches_the_files : forall rename_ok o st, committed st = true ->
  file_step rename_ok st o = (st, match o with FWrite n => if closed st then [] else [SWrite n] | _ => [] end,
                              match o with FWrite _ => if closed st then RFailed else ROk | _ => ROk end).
Proof. exact file_after_commit_is_inert. Qed.
Print Assumptions C14_after_commit_nothing_touches_the_files.

Module NonVacuous.
  (* three callback writes of 50 000 bytes: the calls observed under strace during design *)
  Example calls_50000x3 : write_file [50000; 50000; 50000] None true = ([SOpenTemp; SWrite 65536; SWrite 65536; SWrite 18928; SClose; SRename true], false).
  Proof. vm_compute. reflexivity. Qed.
  Example large_write_bypasses_the_buffer : fst (write_file [10; 200000; 5] None true) = [SOpenTemp; SWrite 65536; SWrite 134474; SWrite 5; SClose; SRename true].
  Proof. vm_compute. reflexivity. Qed.
  Example failing_writer : write_file [70000; 10; 10] (Some 2%nat) true = ([SOpenTemp; SWrite 70000; SClose; SUnlink], true).
  Proof. vm_compute. reflexivity. Qed.
  (* a 200 000-byte block straight through an empty buffer into a file limited to 131 072 bytes: short write, sticky error, unlink *)
  Example limited_direct_write : write_file_limited [200000] 131072 = ([SOpenTemp; SWrite 131072; SClose; SUnlink], true).
  Proof. vm_compute. reflexivity. Qed.
  Example limited_flush_fails : write_file_limited [10; 70000; 5] 65536 = ([SOpenTemp; SWrite 65536; SClose; SUnlink], true).
  Proof. vm_compute. reflexivity. Qed.
End NonVacuous.
