(* C14 — lemmas: bufio conserves bytes; only a successful rename changes the destination; WriteFile's call list ends in the rename
   (success) or in close+unlink (failure); at every prefix of the calls the destination is the old or the complete new file. *)
From Coq Require Import ZArith List Bool Arith Lia.
From Verif Require Import C14.Model.
Import ListNotations.
Open Scope Z_scope.

Definition wsize (s : sys) : Z := match s with SWrite n => n | _ => 0 end.
Definition wsum (l : list sys) : Z := fold_right (fun s a => wsize s + a) 0 l.
Definition zsum (l : list Z) : Z := fold_right Z.add 0 l.
Definition only_writes (l : list sys) : Prop := Forall (fun s => exists n, s = SWrite n) l.
Lemma wsum_app a b : wsum (a ++ b) = wsum a + wsum b.
Proof. induction a as [|x a IH]; cbn [app wsum fold_right]; [reflexivity|]. fold (wsum (a ++ b)) (wsum a). rewrite IH. lia. Qed.
Lemma only_writes_app a b : only_writes a -> only_writes b -> only_writes (a ++ b).
Proof. intros. apply Forall_app. split; assumption. Qed.

Lemma bufio_write_spec : forall fuel b m l b', bufio_write fuel b m = (l, b') -> wsum l + b' = b + m /\ only_writes l.
Proof.
  induction fuel as [|f IH]; intros b m l b' H; cbn [bufio_write] in H.
  - injection H as <- <-. split; [reflexivity|constructor].
  - destruct (BUF - b <? m).
    + destruct (b =? 0) eqn:B.
      * injection H as <- <-. apply Z.eqb_eq in B. subst. split; [cbn; lia|repeat constructor; eauto].
      * destruct (bufio_write f 0 (m - (BUF - b))) as [l0 b0] eqn:E. injection H as <- <-. destruct (IH _ _ _ _ E) as [S W].
        split; [cbn [wsum fold_right wsize]; fold (wsum l0); lia|constructor; [eauto|exact W]].
    + injection H as <- <-. split; [reflexivity|constructor].
Qed.
Lemma bufio_writes_spec : forall ws b l b', bufio_writes b ws = (l, b') -> wsum l + b' = b + zsum ws /\ only_writes l.
Proof.
  induction ws as [|m ws IH]; intros b l b' H; cbn [bufio_writes] in H.
  - injection H as <- <-. split; [cbn; lia|constructor].
  - destruct (bufio_write 3 b m) as [l1 b1] eqn:E1. destruct (bufio_writes b1 ws) as [l2 b2] eqn:E2. injection H as <- <-.
    destruct (bufio_write_spec _ _ _ _ _ E1) as [S1 W1]. destruct (IH _ _ _ E2) as [S2 W2].
    split; [rewrite wsum_app; cbn [zsum fold_right]; fold (zsum ws); lia|apply only_writes_app; assumption].
Qed.
Lemma flush_spec b : wsum (flush b) = b /\ only_writes (flush b).
Proof. unfold flush. destruct (b =? 0) eqn:E; [apply Z.eqb_eq in E; subst; split; [reflexivity|constructor]|split; [cbn; lia|repeat constructor; eauto]]. Qed.

Section A.
Variables (mode umask : Z) (mask : Z -> Z -> Z).
Notation apply := (apply mode umask mask).
Notation run := (run mode umask mask).

Lemma run_app f a b : run f (a ++ b) = run (run f a) b.
Proof. unfold Model.run. apply fold_left_app. Qed.
Lemma run_writes : forall l d k, only_writes l -> run {| dest := d; temp := Some k |} l = {| dest := d; temp := Some (k + wsum l) |}.
Proof.
  induction l as [|s l IH]; intros d k W.
  - cbn. rewrite Z.add_0_r. reflexivity.
  - inversion W as [|? ? [n ->] W']; subst. unfold Model.run in *. cbn [fold_left Model.apply dest temp]. rewrite IH by exact W'.
    cbn [wsum fold_right wsize]. fold (wsum l). f_equal. f_equal. lia.
Qed.
(* nothing but a successful rename touches the destination *)
Lemma dest_kept : forall l f, (forall s, In s l -> s <> SRename true) -> dest (run f l) = dest f.
Proof.
  induction l as [|s l IH]; intros f H; [reflexivity|]. unfold Model.run in *. cbn [fold_left].
  rewrite IH by (intros; apply H; right; assumption). destruct s as [|n| |[|]|]; cbn [Model.apply dest]; try reflexivity.
  exfalso. apply (H (SRename true)); [left; reflexivity|reflexivity].
Qed.
Lemma writes_no_rename l : only_writes l -> forall s, In s l -> s <> SRename true.
Proof. intros W s Hin. unfold only_writes in W. rewrite Forall_forall in W. destruct (W s Hin) as [n ->]. discriminate. Qed.

Lemma prefix_split {A} (l p : list A) : (exists q, l = p ++ q) -> forall a b, l = a ++ b -> (exists r, a = p ++ r) \/ (exists r, p = a ++ r /\ r <> []).
Proof.
  intros [q ->]. revert q. induction p as [|x p IH]; intros q a b E.
  - left. exists a. reflexivity.
  - destruct a as [|y a].
    + right. exists (x :: p). split; [reflexivity|discriminate].
    + cbn in E. injection E as <- E. destruct (IH q a b E) as [[r ->]|[r [-> Hr]]]; [left; exists r; reflexivity|right; exists r; split; [reflexivity|exact Hr]].
Qed.

Lemma run_open3 f a b c : run f (SOpenTemp :: a ++ b ++ c) = run (run (run f [SOpenTemp]) (a ++ b)) c.
Proof. change (SOpenTemp :: a ++ b ++ c) with ([SOpenTemp] ++ (a ++ b ++ c)). rewrite (app_assoc a b c), !run_app. reflexivity. Qed.
Lemma run_open2 f a c : run f (SOpenTemp :: a ++ c) = run (run (run f [SOpenTemp]) a) c.
Proof. change (SOpenTemp :: a ++ c) with ([SOpenTemp] ++ (a ++ c)). rewrite !run_app. reflexivity. Qed.

(* ---- WriteFile *)
Definition old_fs (d : option (content * Z)) : fs := {| dest := d; temp := None |}.

Theorem write_file_success ws d : let '(calls, err) := write_file ws None true in
  err = false /\ run (old_fs d) calls = {| dest := Some (New (zsum ws), mask mode umask); temp := None |}.
Proof.
  unfold write_file. destruct (bufio_writes 0 ws) as [l b] eqn:E. destruct (bufio_writes_spec _ _ _ _ E) as [S W]. destruct (flush_spec b) as [Sf Wf].
  split; [reflexivity|]. rewrite run_open3. cbn [Model.run fold_left Model.apply old_fs dest temp]. fold (run {| dest := d; temp := Some 0 |} (l ++ flush b)).
  rewrite run_writes by (apply only_writes_app; assumption). cbn [Model.run fold_left Model.apply dest temp]. rewrite wsum_app. replace (0 + (wsum l + wsum (flush b))) with (zsum ws) by lia. reflexivity.
Qed.

Theorem write_file_failure ws d fail_after rename_ok : (fail_after <> None \/ rename_ok = false) ->
  let '(calls, err) := write_file ws fail_after rename_ok in err = true /\ run (old_fs d) calls = old_fs d.
Proof.
  intro H. unfold write_file. destruct fail_after as [k|].
  - destruct (bufio_writes 0 (firstn k ws)) as [l b] eqn:E. destruct (bufio_writes_spec _ _ _ _ E) as [S W]. split; [reflexivity|].
    rewrite run_open2.
    cbn [Model.run fold_left Model.apply old_fs dest temp]. fold (run {| dest := d; temp := Some 0 |} l). rewrite run_writes by exact W. reflexivity.
  - destruct H as [H|H]; [congruence|]. subst rename_ok. destruct (bufio_writes 0 ws) as [l b] eqn:E. destruct (bufio_writes_spec _ _ _ _ E) as [S W].
    destruct (flush_spec b) as [Sf Wf]. split; [reflexivity|].
    rewrite run_open3. cbn [Model.run fold_left Model.apply old_fs dest temp]. fold (run {| dest := d; temp := Some 0 |} (l ++ flush b)).
    rewrite run_writes by (apply only_writes_app; assumption). reflexivity.
Qed.

(* every crash point: the destination is the old file or the complete new one *)
Theorem write_file_atomic ws d fail_after rename_ok p q : fst (write_file ws fail_after rename_ok) = p ++ q ->
  dest (run (old_fs d) p) = d \/ dest (run (old_fs d) p) = Some (New (zsum ws), mask mode umask).
Proof.
  intro E.
  assert (Hbody : forall body tail, fst (write_file ws fail_after rename_ok) = (SOpenTemp :: body) ++ tail ->
            (forall s, In s (SOpenTemp :: body) -> s <> SRename true) ->
            (exists r, (SOpenTemp :: body) = p ++ r) -> dest (run (old_fs d) p) = d).
  { intros body tail _ Hn [r Hr]. rewrite dest_kept; [reflexivity|]. intros s Hs. apply Hn. rewrite Hr. apply in_or_app. left. exact Hs. }
  unfold write_file in *. destruct fail_after as [k|].
  - destruct (bufio_writes 0 (firstn k ws)) as [l b] eqn:Eb. destruct (bufio_writes_spec _ _ _ _ Eb) as [_ W]. cbn [fst] in E. left.
    rewrite dest_kept; [reflexivity|]. intros s Hs. assert (Hin : In s (SOpenTemp :: l ++ [SClose; SUnlink])) by (rewrite E; apply in_or_app; left; exact Hs).
    destruct Hin as [<-|Hin]; [discriminate|]. apply in_app_or in Hin. destruct Hin as [Hin|[<-|[<-|[]]]]; try discriminate. apply (writes_no_rename l W s Hin).
  - destruct (bufio_writes 0 ws) as [l b] eqn:Eb. destruct (bufio_writes_spec _ _ _ _ Eb) as [S W]. destruct (flush_spec b) as [Sf Wf].
    destruct rename_ok; cbn [fst] in E.
    + (* success: either the prefix stops before the rename, or it is the whole list *)
      pose proof (prefix_split _ p (ex_intro _ q E) (SOpenTemp :: l ++ flush b ++ [SClose]) [SRename true]) as X.
      destruct X as [[r Hr]|[r [Hr Hne]]].
      { cbn [app]. rewrite <- !app_assoc. reflexivity. }
      * left. rewrite dest_kept; [reflexivity|]. intros s Hs.
        assert (Hin : In s (SOpenTemp :: l ++ flush b ++ [SClose])) by (rewrite Hr; apply in_or_app; left; exact Hs).
        destruct Hin as [<-|Hin]; [discriminate|]. apply in_app_or in Hin. destruct Hin as [Hin|Hin]; [apply (writes_no_rename l W s Hin)|].
        apply in_app_or in Hin. destruct Hin as [Hin|[<-|[]]]; [apply (writes_no_rename _ Wf s Hin)|discriminate].
      * right. assert (Hp : p = SOpenTemp :: l ++ flush b ++ [SClose; SRename true]).
        { assert (L : length (p ++ q) = length (SOpenTemp :: l ++ flush b ++ [SClose; SRename true])) by (rewrite <- E; reflexivity).
          assert (Lp : (length p = length (SOpenTemp :: l ++ flush b ++ [SClose]) + length r)%nat) by (rewrite Hr, app_length; reflexivity).
          assert (q = []).
          { destruct q as [|y q]; [reflexivity|]. destruct r as [|z r]; [congruence|]. exfalso. rewrite app_length in L. cbn [length] in *. rewrite !app_length in *. cbn [length] in *. lia. }
          subst q. rewrite app_nil_r in E. symmetry. exact E. }
        rewrite Hp. pose proof (write_file_success ws d) as Sx. unfold write_file in Sx. rewrite Eb in Sx. destruct Sx as [_ Sx]. rewrite Sx. reflexivity.
    + left. rewrite dest_kept; [reflexivity|]. intros s Hs.
      assert (Hin : In s (SOpenTemp :: l ++ flush b ++ [SClose; SRename false; SUnlink])) by (rewrite E; apply in_or_app; left; exact Hs).
      destruct Hin as [<-|Hin]; [discriminate|]. apply in_app_or in Hin. destruct Hin as [Hin|Hin]; [apply (writes_no_rename l W s Hin)|].
      apply in_app_or in Hin. destruct Hin as [Hin|[<-|[<-|[<-|[]]]]]; try discriminate. apply (writes_no_rename _ Wf s Hin).
Qed.

(* ---- any sequence of these calls (so also the File API used directly, in any order of Write, Commit and Close) *)
Theorem any_calls_atomic : forall l f, dest (run f l) = dest f \/ exists k, dest (run f l) = Some (New k, mask mode umask).
Proof.
  induction l as [|s l IH] using rev_ind; intro f; [left; reflexivity|]. rewrite run_app. cbn [Model.run fold_left].
  destruct s as [|n| |[|]|]; cbn [Model.apply dest]; try apply IH. destruct (temp (run f l)) as [k|]; [right; exists k; reflexivity|apply IH].
Qed.

Theorem file_after_commit_is_inert rename_ok o st : committed st = true ->
  file_step rename_ok st o = (st, match o with FWrite n => if closed st then [] else [SWrite n] | _ => [] end,
                              match o with FWrite _ => if closed st then RFailed else ROk | _ => ROk end).
Proof. intro H. destruct o; cbn [file_step]; rewrite ?H; try reflexivity. destruct (closed st); reflexivity. Qed.

Theorem file_close_without_commit d (ws : list Z) :
  let '(calls, res) := file_session true (map FWrite ws ++ [FClose]) in
  run (old_fs d) calls = old_fs d /\ Forall (fun r => r = ROk) res.
Proof.
  unfold file_session.
  assert (H : forall ws, file_run true {| committed := false; closed := false |} (map FWrite ws ++ [FClose]) =
                         (map SWrite ws ++ [SClose; SUnlink], map (fun _ => ROk) ws ++ [ROk])).
  { induction ws0 as [|w ws0 IH]; [reflexivity|]. cbn [map app file_run file_step closed]. rewrite IH. reflexivity. }
  rewrite H. split.
  - rewrite run_open2. cbn [Model.run fold_left Model.apply old_fs dest temp]. fold (run {| dest := d; temp := Some 0 |} (map SWrite ws)).
    rewrite run_writes; [reflexivity|]. unfold only_writes. rewrite Forall_forall. intros s Hs. apply in_map_iff in Hs. destruct Hs as (n & <- & _). eauto.
  - apply Forall_app. split; [rewrite Forall_forall; intros r Hr; apply in_map_iff in Hr; destruct Hr as (? & <- & _); reflexivity|repeat constructor].
Qed.

Theorem file_commit_publishes_everything_written d (ws : list Z) :
  let '(calls, res) := file_session true (map FWrite ws ++ [FCommit; FClose; FCommit]) in
  run (old_fs d) calls = {| dest := Some (New (zsum ws), mask mode umask); temp := None |} /\ Forall (fun r => r = ROk) res.
Proof.
  unfold file_session.
  assert (H : forall ws, file_run true {| committed := false; closed := false |} (map FWrite ws ++ [FCommit; FClose; FCommit]) =
                         (map SWrite ws ++ [SClose; SRename true], map (fun _ => ROk) ws ++ [ROk; ROk; ROk])).
  { induction ws0 as [|w ws0 IH]; [reflexivity|]. cbn [map app file_run file_step closed]. rewrite IH. reflexivity. }
  rewrite H. split.
  - rewrite run_open2. cbn [Model.run fold_left Model.apply old_fs dest temp]. fold (run {| dest := d; temp := Some 0 |} (map SWrite ws)).
    rewrite run_writes.
    + cbn [Model.run fold_left Model.apply dest temp]. assert (S : wsum (map SWrite ws) = zsum ws) by (induction ws as [|w ws IH]; cbn; [reflexivity|fold (wsum (map SWrite ws)); fold (zsum ws); lia]).
      rewrite S. reflexivity.
    + unfold only_writes. rewrite Forall_forall. intros s Hs. apply in_map_iff in Hs. destruct Hs as (n & <- & _). eauto.
  - apply Forall_app. split; [rewrite Forall_forall; intros r Hr; apply in_map_iff in Hr; destruct Hr as (? & <- & _); reflexivity|repeat constructor].
Qed.
End A.
