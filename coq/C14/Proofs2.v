(* C14 — write faults (a file-size limit): WriteFile returns an error exactly when the data does not fit, and then - although the
   writer callback ignored every error - nothing is published and no temporary file remains; when it fits the run is the fault-free one. *)
From Coq Require Import ZArith List Bool Arith Lia.
From Verif Require Import C14.Model C14.Proofs.
Import ListNotations.
Open Scope Z_scope.

Lemma file_write_spec limit k n l k' e : 0 <= k <= limit -> 0 < n -> file_write limit k n = (l, k', e) ->
  only_writes l /\ k' = k + wsum l /\ 0 <= k' <= limit /\ (e = false -> wsum l = n) /\ (e = true -> limit < k + n).
Proof.
  intros Hk Hn H. unfold file_write in H. destruct (k + n <=? limit) eqn:E.
  - apply Z.leb_le in E. injection H as <- <- <-. repeat split; try lia; try discriminate; [repeat constructor; eauto|cbn; lia|cbn; lia].
  - apply Z.leb_gt in E. destruct (k <? limit) eqn:E2; injection H as <- <- <-.
    + apply Z.ltb_lt in E2. repeat split; try lia; try discriminate; [repeat constructor; eauto|cbn; lia].
    + apply Z.ltb_ge in E2. repeat split; try lia; try discriminate; [constructor|cbn; lia].
Qed.

(* T = the bytes handed to the bufio.Writer so far. Without an error: everything is in the file or in the buffer; with an error:
   more was handed over than the file may hold *)
Definition bstate (limit T k b : Z) (e : bool) : Prop :=
  0 <= k <= limit /\ 0 <= b /\ (e = false -> k + b = T /\ b <= BUF) /\ (e = true -> limit < T).

Lemma bstate_err limit T T' k b : 0 <= k <= limit -> 0 <= b -> limit < T -> T <= T' -> bstate limit T' k b true.
Proof. intros. unfold bstate. repeat split; try lia; intro; try discriminate; lia. Qed.

(* an empty buffer: one level *)
Lemma bufio_write_lim_empty limit f T k e m l k' b' e' : 0 <= m -> bstate limit T k 0 e ->
  bufio_write_lim (S f) limit k 0 e m = (l, k', b', e') ->
  only_writes l /\ k' = k + wsum l /\ bstate limit (T + m) k' b' e'.
Proof.
  intros Hm (Hk & Hb & He0 & He1) H. cbn [bufio_write_lim] in H. destruct e.
  - injection H as <- <- <- <-. split; [constructor|]. split; [cbn; lia|]. apply (bstate_err limit T); try lia; try (apply He1; reflexivity).
  - destruct (He0 eq_refl) as [KT _]. replace (BUF - 0) with BUF in H by lia. destruct (BUF <? m) eqn:E.
    + apply Z.ltb_lt in E. change (0 =? 0) with true in H. destruct (file_write limit k m) as [[l0 k0] e0] eqn:F. injection H as <- <- <- <-.
      destruct (file_write_spec limit k m l0 k0 e0 Hk ltac:(unfold BUF in E; lia) F) as (W & K & R & A & B).
      split; [exact W|]. split; [exact K|]. unfold bstate. split; [exact R|]. split; [lia|]. split; intro X.
      * specialize (A X). split; [lia|unfold BUF; lia].
      * specialize (B X). lia.
    + apply Z.ltb_ge in E. injection H as <- <- <- <-. split; [constructor|]. split; [cbn; lia|]. unfold bstate. split; [exact Hk|]. split; [lia|].
      split; intro X; [split; lia|discriminate].
Qed.
Lemma bwl_unfold f limit k b e m : bufio_write_lim (S f) limit k b e m =
  if e then ([], k, b, true)
  else if BUF - b <? m then
    if b =? 0 then let '(l, k', e') := file_write limit k m in (l, k', 0, e')
    else let '(l, k', e') := file_write limit k BUF in
         if e' then (l, k', b, true)
         else let '(l2, k2, b2, e2) := bufio_write_lim f limit k' 0 false (m - (BUF - b)) in (l ++ l2, k2, b2, e2)
  else ([], k, b + m, false).
Proof. reflexivity. Qed.

(* any buffer fill: two levels are enough *)
Lemma bufio_write_lim_spec limit f T k b e m l k' b' e' : 0 <= m -> bstate limit T k b e ->
  bufio_write_lim (S (S f)) limit k b e m = (l, k', b', e') ->
  only_writes l /\ k' = k + wsum l /\ bstate limit (T + m) k' b' e'.
Proof.
  intros Hm ST H. destruct (Z.eq_dec b 0) as [->|NZ]; [eapply bufio_write_lim_empty; eauto|].
  destruct ST as (Hk & Hb & He0 & He1). rewrite bwl_unfold in H. destruct e.
  - injection H as <- <- <- <-. split; [constructor|]. split; [cbn; lia|]. apply (bstate_err limit T); try lia; try (apply He1; reflexivity).
  - destruct (He0 eq_refl) as [KT BB]. destruct (BUF - b <? m) eqn:E.
    + apply Z.ltb_lt in E. assert (B0 : b =? 0 = false) by (apply Z.eqb_neq; exact NZ). rewrite B0 in H.
      destruct (file_write limit k BUF) as [[l0 k0] e0] eqn:F.
      destruct (file_write_spec limit k BUF l0 k0 e0 Hk ltac:(unfold BUF; lia) F) as (W & K & R & A & B).
      destruct e0.
      * cbv beta iota in H. injection H as <- <- <- <-. split; [exact W|]. split; [exact K|]. apply (bstate_err limit (k + BUF)); try lia; try (apply B; reflexivity).
      * destruct (bufio_write_lim (S f) limit k0 0 false (m - (BUF - b))) as [[[l2 k2] b2] e2] eqn:G. cbv beta iota in H. injection H as <- <- <- <-.
        specialize (A eq_refl).
        assert (ST0 : bstate limit (T + (BUF - b)) k0 0 false) by (unfold bstate; repeat split; try lia; intro; try discriminate; unfold BUF; lia).
        destruct (bufio_write_lim_empty limit f _ k0 false (m - (BUF - b)) l2 k2 b2 e2 ltac:(lia) ST0 G) as (W2 & K2 & S2).
        split; [apply only_writes_app; assumption|]. split; [rewrite wsum_app; lia|]. replace (T + m) with (T + (BUF - b) + (m - (BUF - b))) by lia. exact S2.
    + apply Z.ltb_ge in E. injection H as <- <- <- <-. split; [constructor|]. split; [cbn; lia|]. unfold bstate. split; [exact Hk|]. split; [lia|].
      split; intro X; [split; lia|discriminate].
Qed.
Lemma bufio_writes_lim_spec limit : forall ws T k b e l k' b' e', Forall (fun m => 0 <= m) ws -> bstate limit T k b e ->
  bufio_writes_lim limit k b e ws = (l, k', b', e') ->
  only_writes l /\ k' = k + wsum l /\ bstate limit (T + zsum ws) k' b' e'.
Proof.
  induction ws as [|m ws IH]; intros T k b e l k' b' e' HF ST H; cbn [bufio_writes_lim] in H.
  - injection H as <- <- <- <-. split; [constructor|]. split; [cbn; lia|]. cbn [zsum fold_right]. replace (T + 0) with T by lia. exact ST.
  - inversion HF as [|? ? Hm HF']; subst.
    destruct (bufio_write_lim 3 limit k b e m) as [[[l1 k1] b1] e1] eqn:E1.
    destruct (bufio_writes_lim limit k1 b1 e1 ws) as [[[l2 k2] b2] e2] eqn:E2. injection H as <- <- <- <-.
    destruct (bufio_write_lim_spec limit 1 T k b e m l1 k1 b1 e1 Hm ST E1) as (W1 & K1 & S1).
    destruct (IH _ _ _ _ _ _ _ _ HF' S1 E2) as (W2 & K2 & S2).
    split; [apply only_writes_app; assumption|]. split; [rewrite wsum_app; lia|]. cbn [zsum fold_right]. fold (zsum ws). replace (T + (m + zsum ws)) with (T + m + zsum ws) by lia. exact S2.
Qed.

Section A.
Variables (mode umask : Z) (mask : Z -> Z -> Z).
Notation run := (run mode umask mask).

(* WriteFile under a file-size limit, with a writer that ignores the errors of its own Write calls *)
Theorem write_file_limited_spec ws limit d : Forall (fun m => 0 <= m) ws -> 0 <= limit ->
  let '(calls, err) := write_file_limited ws limit in
  (err = true <-> limit < zsum ws) /\
  (err = true -> run (old_fs d) calls = old_fs d /\ forall p q, calls = p ++ q -> dest (run (old_fs d) p) = d) /\
  (err = false -> run (old_fs d) calls = {| dest := Some (New (zsum ws), mask mode umask); temp := None |}).
Proof.
  intros HF HL. unfold write_file_limited.
  destruct (bufio_writes_lim limit 0 0 false ws) as [[[l k] b] e] eqn:E.
  assert (ST0 : bstate limit 0 0 0 false) by (unfold bstate; repeat split; try lia; intro; try discriminate; unfold BUF; lia).
  destruct (bufio_writes_lim_spec limit ws 0 0 0 false l k b e HF ST0 E) as (W & K & (Hk & Hb & He0 & He1)). replace (0 + zsum ws) with (zsum ws) in * by lia.
  (* the final flush *)
  assert (FL : exists l2 k2 e2, (if e then ([], k, true) else if b =? 0 then ([], k, false) else file_write limit k b) = (l2, k2, e2) /\
          only_writes l2 /\ (e2 = false -> wsum l + wsum l2 = zsum ws /\ zsum ws <= limit) /\ (e2 = true -> limit < zsum ws)).
  { destruct e.
    - exists [], k, true. split; [reflexivity|]. split; [constructor|]. split; intro X; [discriminate|apply He1; reflexivity].
    - destruct (He0 eq_refl) as [KB _]. destruct (b =? 0) eqn:B0.
      + apply Z.eqb_eq in B0. exists [], k, false. split; [reflexivity|]. split; [constructor|]. split; intro X; [cbn; lia|discriminate].
      + apply Z.eqb_neq in B0. destruct (file_write limit k b) as [[l2 k2] e2] eqn:F. exists l2, k2, e2. split; [reflexivity|].
        destruct (file_write_spec limit k b l2 k2 e2 Hk ltac:(lia) F) as (W2 & K2 & R2 & A & B). split; [exact W2|]. split; intro X; [specialize (A X); lia|specialize (B X); lia]. }
  destruct FL as (l2 & k2 & e2 & -> & W2 & A & B).
  assert (NR : forall s, In s (SOpenTemp :: l ++ l2 ++ [SClose; SUnlink]) -> s <> SRename true).
  { intros s [<-|IN]; [discriminate|]. apply in_app_or in IN. destruct IN as [IN|IN]; [exact (writes_no_rename l W s IN)|].
    apply in_app_or in IN. destruct IN as [IN|IN]; [exact (writes_no_rename l2 W2 s IN)|]. destruct IN as [<-|[<-|[]]]; discriminate. }
  destruct e2.
  - split; [split; intro; [apply B; reflexivity|reflexivity]|]. split; [|intro; discriminate]. intros _. split.
    + rewrite (run_open3 mode umask mask). cbn [Model.run fold_left Model.apply old_fs dest temp]. fold (run {| dest := d; temp := Some 0 |} (l ++ l2)).
      rewrite (run_writes mode umask mask) by (apply only_writes_app; assumption). reflexivity.
    + intros p q EQ. rewrite (dest_kept mode umask mask); [reflexivity|]. intros s IN. apply NR. rewrite EQ. apply in_or_app. left. exact IN.
  - destruct (A eq_refl) as [SUM LE]. split; [split; intro X; [discriminate|lia]|]. split; [intro; discriminate|]. intros _.
    rewrite (run_open3 mode umask mask). cbn [Model.run fold_left Model.apply old_fs dest temp]. fold (run {| dest := d; temp := Some 0 |} (l ++ l2)).
    rewrite (run_writes mode umask mask) by (apply only_writes_app; assumption). cbn [Model.run fold_left Model.apply dest temp]. rewrite wsum_app.
    replace (0 + (wsum l + wsum l2)) with (zsum ws) by lia. reflexivity.
Qed.
End A.
