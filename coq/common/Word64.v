(* 64-bit machine words on Z: every Go uint64 operation that can wrap is written with an explicit wrap; math/bits primitives. *)
From Coq Require Import ZArith List Bool.
Import ListNotations.
Open Scope Z_scope.

Notation W := 18446744073709551616 (only parsing).       (* 2^64 *)
Notation MAX64 := 18446744073709551615 (only parsing).
Notation SIGN := 9223372036854775808 (only parsing).     (* 2^63 *)
Notation B32 := 4294967296 (only parsing).
Notation M32 := 4294967295 (only parsing).
Notation P128 := 340282366920938463463374607431768211456 (only parsing).   (* 2^128 *)
Notation P127 := 170141183460469231731687303715884105728 (only parsing).   (* 2^127 *)

Definition wrap (x : Z) : Z := x mod W.
(* bits.Add64 / Sub64 / Mul64 *)
Definition add64 (x y c : Z) : Z * Z := (wrap (x + y + c), (x + y + c) / W).
Definition sub64 (x y b : Z) : Z * Z := (wrap (x - y - b), if x - y - b <? 0 then 1 else 0).
Definition mul64 (x y : Z) : Z * Z := ((x * y) / W, wrap (x * y)).
(* Go shifts: a count >= 64 gives 0 *)
Definition shl (x n : Z) : Z := if n <? 64 then wrap (x * 2 ^ n) else 0.
Definition shr (x n : Z) : Z := if n <? 64 then x / 2 ^ n else 0.
(* bits.Len64, LeadingZeros64, TrailingZeros64, OnesCount64 *)
Definition len64 (x : Z) : Z := if x =? 0 then 0 else Z.log2 x + 1.
Definition lz64 (x : Z) : Z := 64 - len64 x.
Fixpoint tz_aux (fuel : nat) (x : Z) (acc : Z) : Z :=
  match fuel with O => acc | S f => if Z.odd x then acc else tz_aux f (x / 2) (acc + 1) end.
Definition tz64 (x : Z) : Z := if x =? 0 then 64 else tz_aux 64 x 0.
Fixpoint pop_aux (fuel : nat) (x : Z) : Z :=
  match fuel with O => 0 | S f => (if Z.odd x then 1 else 0) + pop_aux f (x / 2) end.
Definition pop64 (x : Z) : Z := pop_aux 64 x.
Definition not64 (x : Z) : Z := MAX64 - x.
Definition andnot64 (x y : Z) : Z := Z.land x (not64 y).
(* int64 <-> uint64 views *)
Definition to_s64 (x : Z) : Z := if SIGN <=? x then x - W else x.     (* uint64 bits read as int64 *)
