(* Facts about the Word64 primitives *)
From Coq Require Import ZArith List Bool Lia.
From Verif Require Import common.Word64.
Open Scope Z_scope.

Ltac Zify.zify_post_hook ::= Z.div_mod_to_equations.

Definition w64 (x : Z) : Prop := 0 <= x < W.

Lemma wrap_range x : w64 (wrap x).
Proof. unfold w64, wrap. apply Z.mod_pos_bound. lia. Qed.
Lemma wrap_small x : w64 x -> wrap x = x.
Proof. unfold w64, wrap. intro. apply Z.mod_small. lia. Qed.
Lemma wrap_eqm x : exists k, wrap x = x - k * W.
Proof. unfold wrap. exists (x / W). pose proof (Z.div_mod x W ltac:(lia)). lia. Qed.

Lemma add64_spec x y c : w64 x -> w64 y -> 0 <= c <= 1 ->
  let '(s, co) := add64 x y c in w64 s /\ 0 <= co <= 1 /\ s + co * W = x + y + c.
Proof. unfold w64, add64, wrap. intros. cbn. lia. Qed.
Lemma sub64_spec x y b : w64 x -> w64 y -> 0 <= b <= 1 ->
  let '(d, bo) := sub64 x y b in w64 d /\ 0 <= bo <= 1 /\ d - bo * W = x - y - b.
Proof. unfold w64, sub64, wrap. intros. cbn. destruct (x - y - b <? 0) eqn:E; [apply Z.ltb_lt in E | apply Z.ltb_ge in E]; lia. Qed.
Lemma mul64_spec x y : w64 x -> w64 y -> let '(h, l) := mul64 x y in w64 h /\ w64 l /\ h * W + l = x * y.
Proof.
  unfold w64, mul64, wrap. intros Hx Hy. cbn.
  assert (0 <= x * y) by nia. assert (x * y < W * W) by nia.
  pose proof (Z.div_mod (x * y) W ltac:(lia)). pose proof (Z.mod_pos_bound (x * y) W ltac:(lia)).
  assert (0 <= x * y / W) by (apply Z.div_pos; lia).
  assert (x * y / W < W) by (apply Z.div_lt_upper_bound; lia).
  lia.
Qed.

Lemma not64_range x : w64 x -> w64 (not64 x).
Proof. unfold w64, not64. lia. Qed.
