(* C03 — fraction.go (f64 and f128): Normalize gives 0/1 for a zero denominator and moves the sign to the numerator; Value is the
   exact quotient numerator/denominator truncated toward zero to D places (0 for a zero denominator), whenever the intermediate
   results are representable. *)
From Coq Require Import ZArith List Bool Lia.
From Verif Require Import common.Word64 common.Word64Facts C01.Model C01.ProofsArith C01.ProofsInt C01.ProofsDiv3 C03.Model C03.Proofs C03.Proofs128 C03.Proofs128b.
Open Scope Z_scope.

Section P.
Variable M : Z.
Hypothesis HM : 10 <= M <= 10000000000000000.

Lemma from_one : from_int M 1 = M /\ from_int M (-1) = - M.
Proof. split; rewrite from_exact; unfold fits; lia. Qed.
Lemma quot_neg_mul a : Z.quot (a * - M) M = - a.
Proof. replace (a * - M) with ((- a) * M) by ring. apply Z.quot_mul. lia. Qed.

Theorem frac64_spec n d : fits n -> fits d ->
  (d = 0 -> frac_norm M n d = (0, M) /\ frac_value M n d = Some 0) /\
  (0 < d -> frac_norm M n d = (n, d) /\ (fits (n * M) -> fits (Z.quot (n * M) d) -> frac_value M n d = Some (Z.quot (n * M) d))) /\
  (d < 0 -> fits (n * M) -> fits (- (n * M)) -> fits (- (d * M)) -> fits (- n) -> fits (- d) ->
     frac_norm M n d = (- n, - d) /\ (fits (Z.quot (n * M) d) -> frac_value M n d = Some (Z.quot (n * M) d))).
Proof.
  intros Fn Fd. destruct from_one as [F1 Fm1]. split; [|split].
  - intros ->. unfold frac_value, frac_norm. cbn [Z.eqb]. rewrite F1. split; [reflexivity|].
    assert (E : M =? 0 = false) by (apply Z.eqb_neq; lia). rewrite E. reflexivity.
  - intro Hd. unfold frac_value, frac_norm. assert (E : d =? 0 = false) by (apply Z.eqb_neq; lia). assert (E2 : d <? 0 = false) by (apply Z.ltb_ge; lia). rewrite E, E2.
    split; [reflexivity|]. intros A B. rewrite E. f_equal. apply (div_exact M); [lia|exact A|exact B].
  - intros Hd A A' B C D. unfold frac_value, frac_norm. assert (E : d =? 0 = false) by (apply Z.eqb_neq; lia). assert (E2 : d <? 0 = true) by (apply Z.ltb_lt; lia). rewrite E, E2, Fm1.
    assert (Mn : mul M n (- M) = - n). { rewrite (mul_exact M HM) by (unfold fits in *; lia). apply quot_neg_mul. }
    assert (Md : mul M d (- M) = - d). { rewrite (mul_exact M HM) by (unfold fits in *; lia). apply quot_neg_mul. }
    rewrite Mn, Md. split; [reflexivity|]. intro Q. assert (E3 : - d =? 0 = false) by (apply Z.eqb_neq; lia). rewrite E3. f_equal.
    assert (X : Z.quot (- n * M) (- d) = Z.quot (n * M) d). { replace (- n * M) with (- (n * M)) by ring. rewrite Z.quot_opp_opp by lia. reflexivity. }
    rewrite (div_exact M); [exact X|lia|unfold fits in *; lia|rewrite X; exact Q].
Qed.

(* ---- f128 *)
Theorem frac128_spec n d : wf n -> wf d ->
  (sval d = 0 -> exists q, frac_value128 M n d = Ok q /\ sval q = 0) /\
  (0 < sval d -> frac_norm128 M n d = (n, d) /\
     (fits128 (sval n * M) -> fits128 (Z.quot (sval n * M) (sval d)) -> exists q, frac_value128 M n d = Ok q /\ wf q /\ sval q = Z.quot (sval n * M) (sval d))) /\
  (sval d < 0 -> fits128 (sval n * M) -> fits128 (- (sval n * M)) -> fits128 (- (sval d * M)) -> fits128 (- sval n) -> fits128 (- sval d) ->
     sval (fst (frac_norm128 M n d)) = - sval n /\ sval (snd (frac_norm128 M n d)) = - sval d /\
     (fits128 (Z.quot (sval n * M) (sval d)) -> exists q, frac_value128 M n d = Ok q /\ wf q /\ sval q = Z.quot (sval n * M) (sval d))).
Proof.
  intros Wn Wd. destruct zero_spec as [Wz Sz].
  destruct (Ipredicates_spec d zero Wd Wz) as (_ & _ & EQ & LT & _). rewrite Sz in EQ, LT.
  destruct (from128_signed_exact M HM 1 ltac:(lia)) as [W1 S1]. destruct (from128_signed_exact M HM (-1) ltac:(lia)) as [Wm1 Sm1].
  replace (1 * M) with M in S1 by lia. replace (-1 * M) with (- M) in Sm1 by lia.
  split; [|split].
  - intro D0. unfold frac_value128, frac_norm128. rewrite EQ, D0. cbn [Z.eqb].
    destruct (div128_exact M HM zero (from_int128 M false 1) Wz W1) as [_ K]; [rewrite Sz; unfold fits128; lia|].
    destruct K as (q & E & _ & Sq); [rewrite S1; lia|rewrite Sz; cbn; unfold fits128; lia|]. exists q. split; [exact E|]. rewrite Sq, Sz. reflexivity.
  - intro Hd. unfold frac_value128, frac_norm128. rewrite EQ, LT.
    assert (E : sval d =? 0 = false) by (apply Z.eqb_neq; lia). assert (E2 : sval d <? 0 = false) by (apply Z.ltb_ge; lia). rewrite E, E2.
    split; [reflexivity|]. intros A B. destruct (div128_exact M HM n d Wn Wd A) as [_ K]. apply K; [lia|exact B].
  - intros Hd A A' B C D. unfold frac_value128, frac_norm128. rewrite EQ, LT.
    assert (E : sval d =? 0 = false) by (apply Z.eqb_neq; lia). assert (E2 : sval d <? 0 = true) by (apply Z.ltb_lt; lia). rewrite E, E2. cbn [fst snd].
    destruct (mul128_exact M HM n (from_int128 M false (-1)) Wn Wm1) as [Wn' Sn']; [rewrite Sm1; replace (sval n * - M) with (- (sval n * M)) by ring; exact A'|].
    destruct (mul128_exact M HM d (from_int128 M false (-1)) Wd Wm1) as [Wd' Sd']; [rewrite Sm1; replace (sval d * - M) with (- (sval d * M)) by ring; exact B|].
    rewrite Sm1 in Sn', Sd'. rewrite quot_neg_mul in Sn', Sd'.
    split; [exact Sn'|]. split; [exact Sd'|]. intro Q.
    assert (X : Z.quot (- sval n * M) (- sval d) = Z.quot (sval n * M) (sval d)). { replace (- sval n * M) with (- (sval n * M)) by ring. rewrite Z.quot_opp_opp by lia. reflexivity. }
    destruct (div128_exact M HM _ _ Wn' Wd') as [_ K]; [rewrite Sn'; replace (- sval n * M) with (- (sval n * M)) by ring; exact A'|].
    destruct K as (q & Eq & Wq & Sq); [rewrite Sd'; lia|rewrite Sn', Sd', X; exact Q|]. exists q. split; [exact Eq|]. split; [exact Wq|]. rewrite Sq, Sn', Sd'. exact X.
Qed.
End P.
