(* C03 — property theorems only (f64.Int; raw values are int64, M = 10^D with 1 <= D <= 16, so 10 <= M <= 10^16).
   fits x says x is representable (an int64). Z.quot / Z.rem truncate toward zero. The f128 methods are the same formulas over the
   Int128 model of C01 (Model.v); their theorems (second half of this file) rest on the C01 theorems for Int128 Add/Sub/Mul/Div. *)
From Coq Require Import ZArith List Bool.
From Verif Require Import common.Word64 C01.Model C03.Model C03.Proofs C03.Proofs128 C03.Proofs128b C03.ProofsFrac.
Open Scope Z_scope.

Theorem C03_add_sub_exact : forall a b, (fits (a + b) -> add a b = a + b) /\ (fits (a - b) -> sub a b = a - b).
Proof. intros a b. split; [exact (add_exact a b) | exact (sub_exact a b)]. Qed.
Print Assumptions C03_add_sub_exact.

Theorem C03_mul_truncates_toward_zero : forall M, 10 <= M <= 10000000000000000 -> forall a b, fits (a * b) -> mul M a b = Z.quot (a * b) M.
Proof. exact mul_exact. Qed.
Print Assumptions C03_mul_truncates_toward_zero.

Theorem C03_div_truncates_toward_zero : forall M, 10 <= M <= 10000000000000000 -> forall a b,
  b <> 0 -> fits (a * M) -> fits (Z.quot (a * M) b) -> div M a b = Z.quot (a * M) b.
Proof. intros M _. exact (div_exact M). Qed.
Print Assumptions C03_div_truncates_toward_zero.

Theorem C03_mod_is_remainder : forall M, 10 <= M <= 10000000000000000 -> forall a b,
  b <> 0 -> fits a -> fits b -> fits (a * M) -> fits (Z.quot (a * M) b) -> fits (b * M * Z.quot a b) -> mod_ M a b = Z.rem a b.
Proof. exact mod_exact. Qed.
Print Assumptions C03_mod_is_remainder.

Theorem C03_trunc_toward_zero : forall M, 10 <= M <= 10000000000000000 -> forall a, fits a -> trunc M a = M * Z.quot a M.
Proof. exact trunc_exact. Qed.
Print Assumptions C03_trunc_toward_zero.

Theorem C03_ceil_toward_plus_infinity : forall M, 10 <= M <= 10000000000000000 -> forall a, fits a -> fits (M * Z.quot a M + M) ->
  ceil M a = (if (0 <? a) && negb (a =? M * Z.quot a M) then M * Z.quot a M + M else M * Z.quot a M) /\
  (let c := ceil M a in a <= c < a + M /\ Z.rem c M = 0).
Proof. exact ceil_exact. Qed.
Print Assumptions C03_ceil_toward_plus_infinity.

(* Round: a whole number within half a unit, and on an exact half the one farther from zero *)
Theorem C03_round_half_away_from_zero : forall M, 10 <= M <= 10000000000000000 -> forall a,
  fits a -> fits (M * Z.quot a M + M) -> fits (M * Z.quot a M - M) -> Z.even M = true ->
  let r := round M a in Z.rem r M = 0 /\ 2 * Z.abs (r - a) <= M /\ (2 * Z.abs (r - a) = M -> Z.abs a < Z.abs r).
Proof. exact round_exact. Qed.
Print Assumptions C03_round_half_away_from_zero.

Theorem C03_abs_min_max_inc_dec : forall M a b,
  (fits a -> a <> - SIGN -> abs a = Z.abs a) /\ min_ a b = Z.min a b /\ max_ a b = Z.max a b /\
  (fits (a + M) -> inc M a = a + M) /\ (fits (a - M) -> dec M a = a - M).
Proof.
  intros M a b. split; [exact (abs_exact a)|]. destruct (minmax_exact a b) as [A B]. destruct (incdec_exact M a) as [C D].
  split; [exact A|]. split; [exact B|]. split; [exact C | exact D].
Qed.
Print Assumptions C03_abs_min_max_inc_dec.

(* integers convert exactly: From v = v * 10^D, As (From v) = v and CheckedAs (From v) = v for every integer kind (w bits) *)
Theorem C03_from_int_exact : forall M v, fits v -> fits (v * M) -> from_int M v = v * M.
Proof. exact from_exact. Qed.
Print Assumptions C03_from_int_exact.
Theorem C03_as_from_roundtrip : forall M, 10 <= M <= 10000000000000000 -> forall w signed v, 0 < w <= 64 -> fits v -> fits (v * M) ->
  kfits w signed v ->
  as_int M w signed (from_int M v) = v /\ checked_as_int M w signed (from_int M v) = Some v.
Proof. exact as_from_roundtrip. Qed.
Print Assumptions C03_as_from_roundtrip.

(* regression examples: Round(-2.5) and From[D4,int8](5) *)
Example C03_ex_round_negative_half : round 10 (-25) = -30 /\ round 10 25 = 30 /\ round 10 (-24) = -20.
Proof. repeat split. Qed.
Example C03_ex_from_int8 : from_int 10000 5 = 50000. Proof. reflexivity. Qed.

(* ---------------- f128.Int: the same laws over Int128 (values read with sval; fits128 = representable in 128 bits) ---------------- *)
Theorem C03_f128_add_sub_exact : forall a b, wf a -> wf b ->
  (fits128 (sval a + sval b) -> sval (add128 a b) = sval a + sval b) /\ (fits128 (sval a - sval b) -> sval (sub128 a b) = sval a - sval b).
Proof. intros a b Wa Wb. split; intro F; [exact (proj2 (add128_exact a b Wa Wb F))|exact (proj2 (sub128_exact a b Wa Wb F))]. Qed.
Print Assumptions C03_f128_add_sub_exact.
Theorem C03_f128_mul_truncates_toward_zero : forall M, 10 <= M <= 10000000000000000 -> forall a b, wf a -> wf b -> fits128 (sval a * sval b) ->
  wf (mul128 M a b) /\ sval (mul128 M a b) = Z.quot (sval a * sval b) M.
Proof. exact mul128_exact. Qed.
Print Assumptions C03_f128_mul_truncates_toward_zero.
Theorem C03_f128_div_truncates_toward_zero : forall M, 10 <= M <= 10000000000000000 -> forall a b, wf a -> wf b -> fits128 (sval a * M) ->
  (sval b = 0 -> div128 M a b = DivZero) /\
  (sval b <> 0 -> fits128 (Z.quot (sval a * M) (sval b)) -> exists q, div128 M a b = Ok q /\ wf q /\ sval q = Z.quot (sval a * M) (sval b)).
Proof. exact div128_exact. Qed.
Print Assumptions C03_f128_div_truncates_toward_zero.
Theorem C03_f128_trunc_exact : forall M, 10 <= M <= 10000000000000000 -> forall a, wf a ->
  wf (trunc128 M a) /\ sval (trunc128 M a) = M * Z.quot (sval a) M.
Proof. exact trunc128_exact. Qed.
Print Assumptions C03_f128_trunc_exact.
Theorem C03_f128_mod_is_remainder : forall M, 10 <= M <= 10000000000000000 -> forall a b, wf a -> wf b -> fits128 (sval a * M) ->
  (sval b = 0 -> mod128 M a b = DivZero) /\
  (sval b <> 0 -> fits128 (Z.quot (sval a * M) (sval b)) -> fits128 (sval b * M * Z.quot (sval a) (sval b)) ->
     exists r, mod128 M a b = Ok r /\ wf r /\ sval r = Z.rem (sval a) (sval b)).
Proof. exact mod128_exact. Qed.
Print Assumptions C03_f128_mod_is_remainder.
Theorem C03_f128_ceil_least_whole_above : forall M, 10 <= M <= 10000000000000000 -> forall a, wf a -> fits128 (M * Z.quot (sval a) M + M) ->
  let c := sval (ceil128 M a) in
  c = (if (0 <? sval a) && negb (sval a =? M * Z.quot (sval a) M) then M * Z.quot (sval a) M + M else M * Z.quot (sval a) M) /\
  sval a <= c < sval a + M /\ Z.rem c M = 0.
Proof. exact ceil128_exact. Qed.
Print Assumptions C03_f128_ceil_least_whole_above.
Theorem C03_f128_round_half_away_from_zero : forall M, 10 <= M <= 10000000000000000 -> forall a, wf a ->
  fits128 (M * Z.quot (sval a) M + M) -> fits128 (M * Z.quot (sval a) M - M) -> Z.even M = true ->
  let r := sval (round128 M a) in Z.rem r M = 0 /\ 2 * Z.abs (r - sval a) <= M /\ (2 * Z.abs (r - sval a) = M -> Z.abs (sval a) < Z.abs r).
Proof. exact round128_exact. Qed.
Print Assumptions C03_f128_round_half_away_from_zero.
Theorem C03_f128_min_max_inc_dec : forall M, 10 <= M <= 10000000000000000 -> forall a b, wf a -> wf b ->
  sval (min128 a b) = Z.min (sval a) (sval b) /\ sval (max128 a b) = Z.max (sval a) (sval b) /\
  (fits128 (sval a + M) -> sval (inc128 M a) = sval a + M) /\ (fits128 (sval a - M) -> sval (dec128 M a) = sval a - M).
Proof.
  intros M HM a b Wa Wb. destruct (minmax128_exact a b Wa Wb) as [A B]. destruct (incdec128_exact M HM a Wa) as [C D].
  split; [exact A|]. split; [exact B|]. split; [exact C|exact D].
Qed.
Print Assumptions C03_f128_min_max_inc_dec.
(* f128 integer conversions (Proofs128b.v). From is exact for every machine integer: signed kinds and the unsigned kinds below 64 bits
   arrive as int64 (flag false), uint64/uint/uintptr as the 64-bit word (flag true); no integer overflows 10^16 * 2^64 < 2^127 *)
Theorem C03_f128_from_int_exact : forall M, 10 <= M <= 10000000000000000 -> forall v,
  (- 9223372036854775808 <= v < 9223372036854775808 -> wf (from_int128 M false v) /\ sval (from_int128 M false v) = v * M) /\
  (0 <= v < 18446744073709551616 -> wf (from_int128 M true v) /\ sval (from_int128 M true v) = v * M).
Proof. intros M HM v. split; [apply from128_signed_exact|apply from128_unsigned_exact]; exact HM. Qed.
Print Assumptions C03_f128_from_int_exact.
(* As, for EVERY value: the quotient toward zero, read in the requested kind (w bits, signed or not) as Go's conversion does *)
Theorem C03_f128_as_int_is_narrowed_quotient : forall M, 10 <= M <= 10000000000000000 -> forall w signed a, 0 < w <= 64 -> wf a ->
  as_int128 M w signed a = kwrap w signed (Z.quot (sval a) M).
Proof. exact as128_is_narrowed_quotient. Qed.
Print Assumptions C03_f128_as_int_is_narrowed_quotient.
(* As (From v) = v for every value of every integer kind *)
Theorem C03_f128_as_from_roundtrip : forall M, 10 <= M <= 10000000000000000 -> forall w (signed : bool) v, 0 < w <= 64 ->
  (if signed then - 2 ^ (w - 1) <= v < 2 ^ (w - 1) else 0 <= v < 2 ^ w) ->
  as_int128 M w signed (from_int128 M (negb signed && (w =? 64)) v) = v.
Proof. exact as128_from128_roundtrip. Qed.
Print Assumptions C03_f128_as_from_roundtrip.
Example C03_ex_f128_from_as : as_int128 1000 64 false (from_int128 1000 true 18446744073709551615) = 18446744073709551615 /\ as_int128 1000 8 true (from_int128 1000 false (-128)) = -128.
Proof. vm_compute. split; reflexivity. Qed.
(* fraction.go (ProofsFrac.v): Fraction{n, d}. Normalize makes a zero denominator 0/1 and moves a negative denominator's sign to the
   numerator; Value is n/d truncated toward zero to D places, and 0 for a zero denominator - when the intermediate values are
   representable. (When d * From(-1) wraps to zero - d = MinInt64 - the f64 Value divides by zero and Go panics: frac_value = None;
   the model keeps that case, the theorem excludes it by its hypotheses.) *)
Theorem C03_f64_fraction_value : forall M, 10 <= M <= 10000000000000000 -> forall n d, fits n -> fits d ->
  (d = 0 -> frac_norm M n d = (0, M) /\ frac_value M n d = Some 0) /\
  (0 < d -> frac_norm M n d = (n, d) /\ (fits (n * M) -> fits (Z.quot (n * M) d) -> frac_value M n d = Some (Z.quot (n * M) d))) /\
  (d < 0 -> fits (n * M) -> fits (- (n * M)) -> fits (- (d * M)) -> fits (- n) -> fits (- d) ->
     frac_norm M n d = (- n, - d) /\ (fits (Z.quot (n * M) d) -> frac_value M n d = Some (Z.quot (n * M) d))).
Proof. exact frac64_spec. Qed.
Print Assumptions C03_f64_fraction_value.
Theorem C03_f128_fraction_value : forall M, 10 <= M <= 10000000000000000 -> forall n d, wf n -> wf d ->
  (sval d = 0 -> exists q, frac_value128 M n d = Ok q /\ sval q = 0) /\
  (0 < sval d -> frac_norm128 M n d = (n, d) /\
     (fits128 (sval n * M) -> fits128 (Z.quot (sval n * M) (sval d)) -> exists q, frac_value128 M n d = Ok q /\ wf q /\ sval q = Z.quot (sval n * M) (sval d))) /\
  (sval d < 0 -> fits128 (sval n * M) -> fits128 (- (sval n * M)) -> fits128 (- (sval d * M)) -> fits128 (- sval n) -> fits128 (- sval d) ->
     sval (fst (frac_norm128 M n d)) = - sval n /\ sval (snd (frac_norm128 M n d)) = - sval d /\
     (fits128 (Z.quot (sval n * M) (sval d)) -> exists q, frac_value128 M n d = Ok q /\ wf q /\ sval q = Z.quot (sval n * M) (sval d))).
Proof. exact frac128_spec. Qed.
Print Assumptions C03_f128_fraction_value.
Example C03_ex_fraction : frac_value 100 700 (-300) = Some (-233) /\ frac_value 10 5 (-9223372036854775808) = None.
Proof. vm_compute. split; reflexivity. Qed.
(* non-vacuity: a 39-digit f128 value meets the hypotheses (12345678901234567890123456789012.345678 * 2 in D6) *)
Example C03_ex_f128_mul : sval (mul128 1000000 (mk 669260594276 5027927973729429070) (From64 2000000)) = 2 * sval (mk 669260594276 5027927973729429070).
Proof. vm_compute. reflexivity. Qed.
