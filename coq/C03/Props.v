(* C03 — property theorems only (f64.Int; raw values are int64, M = 10^D with 1 <= D <= 16, so 10 <= M <= 10^16).
   fits x says x is representable (an int64). Z.quot / Z.rem truncate toward zero. The f128 methods are the same formulas over the
   Int128 model of C01 (Model.v) and are tied to the code by the correspondence check. *)
From Coq Require Import ZArith List Bool.
From Verif Require Import common.Word64 C03.Model C03.Proofs.
Open Scope Z_scope.

Theorem C03_add_sub_exact : forall a b, (fits (a + b) -> add a b = a + b) /\ (fits (a - b) -> sub a b = a - b).
Proof. intros a b. split; [exact (add_exact a b) | exact (sub_exact a b)]. Qed.
Print Assumptions C03_add_sub_exact.

Theorem C03_mul_truncates_toward_zero : forall M, 10 <= M <= 10000000000000000 -> forall a b, fits (a * b) -> mul M a b = Z.quot (a * b) M.
Proof. exact mul_exact. Qed.
Print Assumptions C03_mul_truncates_toward_zero.

Theorem C03_div_truncates_toward_zero : forall M, 10 <= M <= 10000000000000000 -> forall a b,
  b <> 0 -> fits (a * M) -> fits (Z.quot (a * M) b) -> div M a b = Z.quot (a * M) b.
Proof. intros M _. exact (div_exact M). Qed.
Print Assumptions C03_div_truncates_toward_zero.

Theorem C03_mod_is_remainder : forall M, 10 <= M <= 10000000000000000 -> forall a b,
  b <> 0 -> fits a -> fits b -> fits (a * M) -> fits (Z.quot (a * M) b) -> fits (b * M * Z.quot a b) -> mod_ M a b = Z.rem a b.
Proof. exact mod_exact. Qed.
Print Assumptions C03_mod_is_remainder.

Theorem C03_trunc_toward_zero : forall M, 10 <= M <= 10000000000000000 -> forall a, fits a -> trunc M a = M * Z.quot a M.
Proof. exact trunc_exact. Qed.
Print Assumptions C03_trunc_toward_zero.

Theorem C03_ceil_toward_plus_infinity : forall M, 10 <= M <= 10000000000000000 -> forall a, fits a -> fits (M * Z.quot a M + M) ->
  ceil M a = (if (0 <? a) && negb (a =? M * Z.quot a M) then M * Z.quot a M + M else M * Z.quot a M) /\
  (let c := ceil M a in a <= c < a + M /\ Z.rem c M = 0).
Proof. exact ceil_exact. Qed.
Print Assumptions C03_ceil_toward_plus_infinity.

(* Round: a whole number within half a unit, and on an exact half the one farther from zero *)
Theorem C03_round_half_away_from_zero : forall M, 10 <= M <= 10000000000000000 -> forall a,
  fits a -> fits (M * Z.quot a M + M) -> fits (M * Z.quot a M - M) -> Z.even M = true ->
  let r := round M a in Z.rem r M = 0 /\ 2 * Z.abs (r - a) <= M /\ (2 * Z.abs (r - a) = M -> Z.abs a < Z.abs r).
Proof. exact round_exact. Qed.
Print Assumptions C03_round_half_away_from_zero.

Theorem C03_abs_min_max_inc_dec : forall M a b,
  (fits a -> a <> - SIGN -> abs a = Z.abs a) /\ min_ a b = Z.min a b /\ max_ a b = Z.max a b /\
  (fits (a + M) -> inc M a = a + M) /\ (fits (a - M) -> dec M a = a - M).
Proof.
  intros M a b. split; [exact (abs_exact a)|]. destruct (minmax_exact a b) as [A B]. destruct (incdec_exact M a) as [C D].
  split; [exact A|]. split; [exact B|]. split; [exact C | exact D].
Qed.
Print Assumptions C03_abs_min_max_inc_dec.

(* integers convert exactly: From v = v * 10^D, As (From v) = v and CheckedAs (From v) = v for every integer kind (w bits) *)
Theorem C03_from_int_exact : forall M v, fits v -> fits (v * M) -> from_int M v = v * M.
Proof. exact from_exact. Qed.
Print Assumptions C03_from_int_exact.
Theorem C03_as_from_roundtrip : forall M, 10 <= M <= 10000000000000000 -> forall w signed v, 0 < w <= 64 -> fits v -> fits (v * M) ->
  kfits w signed v ->
  as_int M w signed (from_int M v) = v /\ checked_as_int M w signed (from_int M v) = Some v.
Proof. exact as_from_roundtrip. Qed.
Print Assumptions C03_as_from_roundtrip.

(* regression examples: Round(-2.5) and From[D4,int8](5) *)
Example C03_ex_round_negative_half : round 10 (-25) = -30 /\ round 10 25 = 30 /\ round 10 (-24) = -20.
Proof. repeat split. Qed.
Example C03_ex_from_int8 : from_int 10000 5 = 50000. Proof. reflexivity. Qed.
