(* C03 — f128.Int integer conversions: From is exact for every machine integer, As of From gives the integer back, and As is
   the quotient toward zero narrowed to the requested kind for every value. *)
From Coq Require Import ZArith List Bool Lia.
From Verif Require Import common.Word64 common.Word64Facts C01.Model C01.ProofsArith C01.ProofsInt C01.ProofsDiv3 C03.Model C03.Proofs128.
Open Scope Z_scope.
Ltac Zify.zify_post_hook ::= Z.div_mod_to_equations.

Section P.
Variable M : Z.
Hypothesis HM : 10 <= M <= 10000000000000000.

Lemma swrap_small v : - SIGN <= v < SIGN -> swrap v = v.
Proof. intro H. unfold swrap. destruct (Z_le_gt_dec 0 v). - rewrite Z.mod_small by lia. destruct (9223372036854775808 <=? v) eqn:E; [apply Z.leb_le in E; lia|reflexivity]. - assert (E : v mod 18446744073709551616 = v + 18446744073709551616) by (symmetry; apply Z.mod_unique with (q := -1); lia). rewrite E. destruct (9223372036854775808 <=? v + 18446744073709551616) eqn:E2; [lia|apply Z.leb_gt in E2; lia]. Qed.

(* From: signed kinds arrive as int64(v) = v, uint64 and uint as the 64-bit word *)
Theorem from128_signed_exact v : - SIGN <= v < SIGN -> wf (from_int128 M false v) /\ sval (from_int128 M false v) = v * M.
Proof.
  intro Hv. unfold from_int128. rewrite swrap_small by exact Hv. destruct (From64_spec v) as [Wv Sv]; [unfold int64; exact Hv|].
  destruct (m128_spec M HM) as [Wm Sm]. destruct (IMul_spec _ _ Wv Wm) as [Wr Sr]. split; [exact Wr|]. rewrite Sr, Sv, Sm. apply smod_small.
  nia.
Qed.
Theorem from128_unsigned_exact v : 0 <= v < W -> wf (from_int128 M true v) /\ sval (from_int128 M true v) = v * M.
Proof.
  intro Hv. unfold from_int128. assert (Wv : wf (mk 0 (wrap v))) by (unfold wf, wrap; cbn [hi lo]; rewrite Z.mod_small by lia; lia).
  assert (Sv : sval (mk 0 (wrap v)) = v). { unfold sval, uval, wrap. cbn [hi lo]. rewrite Z.mod_small by lia. cbn. lia. }
  destruct (m128_spec M HM) as [Wm Sm]. destruct (IMul_spec _ _ Wv Wm) as [Wr Sr]. split; [exact Wr|]. rewrite Sr, Sv, Sm. apply smod_small.
  nia.
Qed.

(* kwrap only looks at the value modulo 2^w *)
Lemma kwrap_congr w s x y : 0 < w -> x mod 2 ^ w = y mod 2 ^ w -> kwrap w s x = kwrap w s y.
Proof. intros _ H. unfold kwrap. rewrite H. reflexivity. Qed.
Lemma pow_split w : 0 < w <= 64 -> W = 2 ^ w * 2 ^ (64 - w).
Proof. intro H. rewrite <- Z.pow_add_r by lia. replace (w + (64 - w)) with 64 by lia. reflexivity. Qed.
Lemma mod_mod_pow x w : 0 < w <= 64 -> (x mod W) mod 2 ^ w = x mod 2 ^ w.
Proof.
  intro H. rewrite (pow_split w H). assert (0 < 2 ^ w) by (apply Z.pow_pos_nonneg; lia). assert (0 < 2 ^ (64 - w)) by (apply Z.pow_pos_nonneg; lia).
  rewrite Z.rem_mul_r by lia. rewrite Z.mul_comm, Z.mod_add by lia. apply Z.mod_mod. lia.
Qed.
Lemma lo_sval q : wf q -> lo q = sval q mod W.
Proof.
  intros [[H1 H2] [H3 H4]]. unfold sval, uval. destruct (SIGN <=? hi q).
  - apply Z.mod_unique with (q := hi q - W); [lia|]. lia.
  - apply Z.mod_unique with (q := hi q); [lia|]. lia.
Qed.
Lemma to_s64_mod x : 0 <= x < W -> to_s64 x mod W = x.
Proof.
  intro H. unfold to_s64. destruct (SIGN <=? x).
  - symmetry. apply Z.mod_unique with (q := -1); lia.
  - apply Z.mod_small; lia.
Qed.

(* As: for EVERY value, the quotient toward zero read in the requested integer kind (Go's conversion keeps the low w bits) *)
Theorem as128_is_narrowed_quotient w signed a : 0 < w <= 64 -> wf a ->
  as_int128 M w signed a = kwrap w signed (Z.quot (sval a) M).
Proof.
  intros Hw Wa. destruct (m128_spec M HM) as [Wm Sm].
  destruct (idiv_exact a (m128 M) Wa Wm ltac:(lia)) as (q & E & Wq & Sq).
  { rewrite Sm. apply (fits_quot M HM); [lia|]. pose proof (sval_range a Wa) as SR. unfold fits128. exact SR. }
  unfold as_int128. rewrite E. cbn [ok128]. apply kwrap_congr; [lia|].
  rewrite <- (mod_mod_pow (to_s64 (lo q)) w Hw). rewrite to_s64_mod by (apply Wq). rewrite (lo_sval q Wq), Sq, Sm. apply mod_mod_pow. exact Hw.
Qed.
Lemma kwrap_in_range w (signed : bool) v : 0 < w ->
  (if signed then - 2 ^ (w - 1) <= v < 2 ^ (w - 1) else 0 <= v < 2 ^ w) -> kwrap w signed v = v.
Proof.
  intros Hw H. unfold kwrap. assert (P : 2 ^ w = 2 * 2 ^ (w - 1)) by (rewrite <- Z.pow_succ_r by lia; f_equal; lia).
  assert (0 < 2 ^ (w - 1)) by (apply Z.pow_pos_nonneg; lia).
  destruct signed; cbn [andb].
  - destruct (Z_le_gt_dec 0 v).
    + rewrite Z.mod_small by lia. destruct (2 ^ (w - 1) <=? v) eqn:E; [apply Z.leb_le in E; lia|reflexivity].
    + assert (E : v mod 2 ^ w = v + 2 ^ w) by (symmetry; apply Z.mod_unique with (q := -1); lia). rewrite E.
      destruct (2 ^ (w - 1) <=? v + 2 ^ w) eqn:E2; [lia|apply Z.leb_gt in E2; lia].
  - apply Z.mod_small. lia.
Qed.
(* As (From v) = v for every integer kind: signed kinds of 8..64 bits and unsigned kinds below 64 bits travel as int64, the 64-bit
   unsigned kinds as the word *)
Theorem as128_from128_roundtrip w (signed : bool) v : 0 < w <= 64 ->
  (if signed then - 2 ^ (w - 1) <= v < 2 ^ (w - 1) else 0 <= v < 2 ^ w) ->
  as_int128 M w signed (from_int128 M (negb signed && (w =? 64)) v) = v.
Proof.
  intros Hw Hv.
  assert (P64 : 2 ^ 64 = W) by reflexivity. assert (P63 : 2 ^ 63 = SIGN) by reflexivity.
  assert (Mono : 2 ^ (w - 1) <= 2 ^ 63) by (apply Z.pow_le_mono_r; lia).
  assert (Mono2 : w < 64 -> 2 ^ w <= 2 ^ 63) by (intro; apply Z.pow_le_mono_r; lia).
  assert (K : forall x, (wf x /\ sval x = v * M) -> as_int128 M w signed x = v).
  { intros x [Wx Sx]. rewrite as128_is_narrowed_quotient by assumption. rewrite Sx, Z.quot_mul by lia. apply kwrap_in_range; [lia|exact Hv]. }
  apply K. destruct signed; cbn [negb andb].
  - apply from128_signed_exact. lia.
  - destruct (w =? 64) eqn:E.
    + apply Z.eqb_eq in E. subst w. apply from128_unsigned_exact. lia.
    + apply Z.eqb_neq in E. apply from128_signed_exact. specialize (Mono2 ltac:(lia)). lia.
Qed.
End P.
