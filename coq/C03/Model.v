(* C03 — executable model of xmath/fixed/f64 (Go int64 arithmetic with explicit wrap) and xmath/fixed/f128 (the same formulas
   over the Int128 model of C01), for a configuration with multiplier M = 10^D. Integer From/As carry the Go kind (width,
   signedness). No proofs in this file. *)
From Coq Require Import ZArith List Bool.
From Verif Require Import common.Word64 C01.Model.
Import ListNotations.
Open Scope Z_scope.

Definition swrap (x : Z) : Z := let y := x mod W in if SIGN <=? y then y - W else y.      (* int64 wrap *)
Definition multiplier (places : Z) : Z := 10 ^ places.                                      (* config.go: D1..D16 *)

Section F64.
Variable M : Z.
(* every Go operator wraps; / and % truncate toward zero *)
Definition add a b := swrap (a + b).
Definition sub a b := swrap (a - b).
Definition mul a b := swrap (Z.quot (swrap (a * b)) M).
Definition div a b := swrap (Z.quot (swrap (a * M)) b).                 (* b <> 0, otherwise Go panics *)
Definition trunc a := swrap (swrap (Z.quot a M) * M).
Definition mod_ a b := swrap (a - mul b (trunc (div a b))).
Definition abs a := if a <? 0 then swrap (- a) else a.
Definition ceil a := let v := trunc a in if (0 <? a) && negb (a =? v) then swrap (v + M) else v.
Definition round a :=
  let v := trunc a in let rem := swrap (a - v) in let half := Z.quot M 2 in
  if half <=? rem then swrap (v + M) else if rem <=? swrap (- half) then swrap (v - M) else v.
Definition min_ a b := if a <? b then a else b.
Definition max_ a b := if b <? a then a else b.
Definition inc a := swrap (a + M).
Definition dec a := swrap (a - M).
(* a Go integer kind of w bits *)
Definition kwrap (w : Z) (signed : bool) (x : Z) : Z :=
  let y := x mod 2 ^ w in if signed && (2 ^ (w - 1) <=? y) then y - 2 ^ w else y.
(* From (repaired): int64(value) * Multiplier *)
Definition from_int (v : Z) : Z := swrap (swrap v * M).
Definition as_int (w : Z) (signed : bool) (a : Z) : Z := kwrap w signed (Z.quot a M).
(* CheckedAs for integer kinds: n := TO(int64(f)/mult); ok iff From(n) = f and sign agrees *)
Definition checked_as_int (w : Z) (signed : bool) (a : Z) : option Z :=
  let n := as_int w signed a in
  if (from_int n =? a) && Bool.eqb (n <? 0) (a <? 0) then Some n else None.
(* fraction.go: Fraction{Numerator, Denominator}. Normalize: a zero denominator becomes 0/1, a negative one is multiplied away
   (both parts times From(-1)); Value = normalised numerator / normalised denominator *)
Definition frac_norm (n d : Z) : Z * Z :=
  if d =? 0 then (0, from_int 1) else if d <? 0 then (mul n (from_int (-1)), mul d (from_int (-1))) else (n, d).
(* None: Go panics (integer divide by zero) - the normalised denominator can still be zero when d * From(-1) wraps, e.g. d = MinInt64 *)
Definition frac_value (n d : Z) : option Z := let '(n', d') := frac_norm n d in if d' =? 0 then None else Some (div n' d').
End F64.

(* ---- f128: the same over Int128 ---- *)
Definition ok128 (r : res w128) : w128 := match r with Ok x => x | _ => zero end.     (* the divisor is never zero where this is used *)
Section F128.
Variable M : Z.
Definition m128 := From64 M.
Definition add128 a b := Add a b.
Definition sub128 a b := Sub a b.
Definition mul128 a b := ok128 (IDiv (Mul a b) m128).
Definition div128 a b : res w128 := IDiv (Mul a m128) b.
Definition trunc128 a := Mul (ok128 (IDiv a m128)) m128.
Definition mod128 a b : res w128 := match div128 a b with Ok q => Ok (Sub a (mul128 b (trunc128 q))) | DivZero => DivZero | OutOfFuel => OutOfFuel end.
Definition ceil128 a := let v := trunc128 a in if IGreaterThan a zero && negb (Equal a v) then Add v m128 else v.
Definition round128 a :=
  let half := ok128 (IDiv m128 (From64 2)) in let neghalf := Neg half in
  let v := trunc128 a in let rem := Sub a v in
  if IGreaterThanOrEqual rem half then Add v m128 else if ILessThanOrEqual rem neghalf then Sub v m128 else v.
Definition min128 a b := if ILessThan a b then a else b.
Definition max128 a b := if IGreaterThan a b then a else b.
Definition inc128 a := Add a m128.
Definition dec128 a := Sub a m128.
Definition from_int128 (unsigned64 : bool) (v : Z) : w128 :=            (* v: the value of the Go integer *)
  Mul (if unsigned64 then mk 0 (wrap v) else From64 (swrap v)) m128.
Definition as_int128 (w : Z) (signed : bool) (a : w128) : Z :=
  let q := ok128 (IDiv a m128) in kwrap w signed (to_s64 (lo q)).          (* AsInt64 = int64(lo) ... for in-range values *)
Definition frac_norm128 (n d : w128) : w128 * w128 :=
  if Equal d zero then (zero, from_int128 false 1)
  else if ILessThan d zero then (mul128 n (from_int128 false (-1)), mul128 d (from_int128 false (-1))) else (n, d).
Definition frac_value128 (n d : w128) : res w128 := let '(n', d') := frac_norm128 n d in div128 n' d'.
End F128.
