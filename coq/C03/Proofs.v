(* C03 — f64 fixed-point arithmetic equals exact decimal arithmetic truncated toward zero wherever the results are representable *)
From Coq Require Import ZArith List Bool Lia.
From Verif Require Import common.Word64 C03.Model.
Open Scope Z_scope.
Ltac Zify.zify_post_hook ::= Z.to_euclidean_division_equations.

Definition fits (x : Z) : Prop := - SIGN <= x < SIGN.
Lemma swrap_small x : fits x -> swrap x = x.
Proof. unfold fits, swrap. intro H. destruct (Z.leb_spec SIGN (x mod W)); lia. Qed.
Lemma swrap_fits x : fits (swrap x).
Proof. unfold fits, swrap. destruct (Z.leb_spec SIGN (x mod W)); lia. Qed.

Section D.
Variable M : Z.
Hypothesis HM : 10 <= M <= 10000000000000000.          (* 10^1 .. 10^16 *)

Lemma quot_fits a : fits a -> fits (Z.quot a M).
Proof. unfold fits. intro H. nia. Qed.

Theorem add_exact a b : fits (a + b) -> add a b = a + b.
Proof. intro H. unfold add. apply swrap_small. exact H. Qed.
Theorem sub_exact a b : fits (a - b) -> sub a b = a - b.
Proof. intro H. unfold sub. apply swrap_small. exact H. Qed.
Theorem mul_exact a b : fits (a * b) -> mul M a b = Z.quot (a * b) M.
Proof. intro H. unfold mul. rewrite (swrap_small (a * b)) by exact H. apply swrap_small. apply quot_fits. exact H. Qed.
Theorem div_exact a b : b <> 0 -> fits (a * M) -> fits (Z.quot (a * M) b) -> div M a b = Z.quot (a * M) b.
Proof. intros Hb H1 H2. unfold div. rewrite (swrap_small (a * M)) by exact H1. apply swrap_small. exact H2. Qed.

Lemma trunc_val a : fits a -> trunc M a = M * Z.quot a M /\ fits (M * Z.quot a M).
Proof.
  intro H. unfold trunc. pose proof (quot_fits a H) as Q. rewrite (swrap_small (Z.quot a M)) by exact Q.
  assert (F : fits (Z.quot a M * M)).
  { unfold fits in *. pose proof (Z.quot_rem a M ltac:(lia)). pose proof (Z.rem_bound_abs a M ltac:(lia)).
    destruct (Z_lt_le_dec a 0).
    - pose proof (Z.rem_nonpos a M ltac:(lia) ltac:(lia)). nia.
    - pose proof (Z.rem_nonneg a M ltac:(lia) ltac:(lia)). nia. }
  rewrite (swrap_small _ F). split; [lia|]. replace (M * Z.quot a M) with (Z.quot a M * M) by lia. exact F.
Qed.
Theorem trunc_exact a : fits a -> trunc M a = M * Z.quot a M.
Proof. intro H. apply trunc_val. exact H. Qed.

(* Mod = a - b*trunc(a/b) = Z.rem a b when the intermediate results are representable *)
Theorem mod_exact a b : b <> 0 -> fits a -> fits b -> fits (a * M) -> fits (Z.quot (a * M) b) -> fits (b * M * Z.quot a b) ->
  mod_ M a b = Z.rem a b.
Proof.
  intros Hb Ha Hbf H1 H2 H3. unfold mod_. rewrite (div_exact a b Hb H1 H2).
  destruct (trunc_val (Z.quot (a * M) b) H2) as [-> _].
  assert (Q : Z.quot (Z.quot (a * M) b) M = Z.quot a b).
  { rewrite Z.quot_quot by lia. rewrite Z.quot_mul_cancel_r by lia. reflexivity. }
  rewrite Q. unfold mul.
  assert (F1 : fits (b * (M * Z.quot a b))) by (replace (b * (M * Z.quot a b)) with (b * M * Z.quot a b) by lia; exact H3).
  rewrite (swrap_small _ F1). replace (b * (M * Z.quot a b)) with (b * Z.quot a b * M) by lia. rewrite Z.quot_mul by lia.
  assert (F2 : fits (b * Z.quot a b)).
  { unfold fits in *. pose proof (Z.quot_rem a b Hb). pose proof (Z.rem_bound_abs a b Hb). destruct (Z_lt_le_dec a 0).
    - pose proof (Z.rem_nonpos a b Hb ltac:(lia)). lia.
    - pose proof (Z.rem_nonneg a b Hb ltac:(lia)). lia. }
  rewrite (swrap_small _ F2). pose proof (Z.quot_rem a b Hb) as E.
  assert (F3 : fits (a - b * Z.quot a b)).
  { unfold fits in *. pose proof (Z.rem_bound_abs a b Hb). replace (a - b * Z.quot a b) with (Z.rem a b) by lia. lia. }
  rewrite (swrap_small _ F3). lia.
Qed.

Theorem abs_exact a : fits a -> a <> - SIGN -> abs a = Z.abs a.
Proof. unfold fits. intros H Hn. unfold abs. destruct (Z.ltb_spec a 0); [rewrite swrap_small by (unfold fits; lia)|]; lia. Qed.
Theorem minmax_exact a b : min_ a b = Z.min a b /\ max_ a b = Z.max a b.
Proof. unfold min_, max_. destruct (Z.ltb_spec a b), (Z.ltb_spec b a); lia. Qed.
Theorem incdec_exact a : (fits (a + M) -> inc M a = a + M) /\ (fits (a - M) -> dec M a = a - M).
Proof. unfold inc, dec. split; intro H; apply swrap_small; exact H. Qed.

(* Ceil: the least whole number >= a *)
Theorem ceil_exact a : fits a -> fits (M * Z.quot a M + M) ->
  ceil M a = (if (0 <? a) && negb (a =? M * Z.quot a M) then M * Z.quot a M + M else M * Z.quot a M) /\
  (let c := ceil M a in a <= c < a + M /\ Z.rem c M = 0).
Proof.
  intros H F. unfold ceil. destruct (trunc_val a H) as [T FT]. rewrite T.
  pose proof (Z.quot_rem a M ltac:(lia)) as E. pose proof (Z.rem_bound_abs a M ltac:(lia)) as B.
  destruct (Z.ltb_spec 0 a); cbn [andb].
  - pose proof (Z.rem_nonneg a M ltac:(lia) ltac:(lia)). destruct (Z.eqb_spec a (M * Z.quot a M)); cbn [negb].
    + split; [reflexivity|]. cbv zeta. split; [lia|]. rewrite Z.mul_comm. apply Z.rem_mul. lia.
    + rewrite (swrap_small _ F). split; [reflexivity|]. cbv zeta. split; [lia|].
      replace (M * Z.quot a M + M) with ((Z.quot a M + 1) * M) by lia. apply Z.rem_mul. lia.
  - split; [reflexivity|]. cbv zeta. pose proof (Z.rem_nonpos a M ltac:(lia) ltac:(lia)). split; [lia|]. rewrite Z.mul_comm. apply Z.rem_mul. lia.
Qed.

(* Round: nearest whole number, halves away from zero: |round a - a| <= M/2, and on a tie the one farther from zero *)
Theorem round_exact a : fits a -> fits (M * Z.quot a M + M) -> fits (M * Z.quot a M - M) -> Z.even M = true ->
  let r := round M a in
  Z.rem r M = 0 /\ 2 * Z.abs (r - a) <= M /\ (2 * Z.abs (r - a) = M -> Z.abs a < Z.abs r).
Proof.
  intros H F1 F2 Hev. unfold round. destruct (trunc_val a H) as [T FT]. rewrite T.
  pose proof (Z.quot_rem a M ltac:(lia)) as E. pose proof (Z.rem_bound_abs a M ltac:(lia)) as B.
  assert (Hh : 2 * Z.quot M 2 = M).
  { pose proof Hev as Hev'. apply Z.even_spec in Hev'. destruct Hev' as [k Hk]. rewrite Hk at 1. rewrite (Z.mul_comm 2 k), Z.quot_mul by lia. lia. }
  assert (Fr : fits (a - M * Z.quot a M)) by (unfold fits in *; destruct (Z_lt_le_dec a 0);
    [pose proof (Z.rem_nonpos a M ltac:(lia) ltac:(lia)) | pose proof (Z.rem_nonneg a M ltac:(lia) ltac:(lia))]; lia).
  rewrite (swrap_small _ Fr).
  assert (Fh : fits (- Z.quot M 2)) by (unfold fits; lia). rewrite (swrap_small _ Fh).
  set (q := Z.quot a M) in *. set (h := Z.quot M 2) in *.
  assert (R0 : forall k, Z.rem (k * M) M = 0) by (intro k; apply Z.rem_mul; lia).
  destruct (Z.leb_spec h (a - M * q)).
  - rewrite (swrap_small _ F1). cbv zeta. replace (M * q + M) with ((q + 1) * M) by lia. rewrite R0.
    assert (0 <= a) by (destruct (Z_lt_le_dec a 0); [pose proof (Z.rem_nonpos a M ltac:(lia) ltac:(lia)); lia | lia]).
    pose proof (Z.rem_nonneg a M ltac:(lia) ltac:(lia)). assert (0 <= q) by (apply Z.quot_pos; lia). split; [reflexivity|]. split; lia.
  - destruct (Z.leb_spec (a - M * q) (- h)).
    + rewrite (swrap_small _ F2). cbv zeta. replace (M * q - M) with ((q - 1) * M) by lia. rewrite R0.
      assert (a < 0) by lia. pose proof (Z.rem_nonpos a M ltac:(lia) ltac:(lia)).
      assert (q <= 0) by (unfold q; rewrite <- (Z.opp_involutive a), Z.quot_opp_l by lia; pose proof (Z.quot_pos (- a) M ltac:(lia) ltac:(lia)); lia).
      split; [reflexivity|]. split; lia.
    + cbv zeta. replace (M * q) with (q * M) by lia. rewrite R0. split; [reflexivity|]. split; lia.
Qed.

(* integer From / As / CheckedAs *)
Theorem from_exact v : fits v -> fits (v * M) -> from_int M v = v * M.
Proof. intros H1 H2. unfold from_int. rewrite (swrap_small v H1). apply swrap_small. exact H2. Qed.
Definition kfits (w : Z) (signed : bool) (x : Z) : Prop :=
  match signed with true => - 2 ^ (w - 1) <= x < 2 ^ (w - 1) | false => 0 <= x < 2 ^ w end.
Lemma kwrap_small w signed x : 0 < w -> kfits w signed x -> kwrap w signed x = x.
Proof.
  intros Hw H. unfold kfits in H. unfold kwrap. assert (E2 : 2 ^ w = 2 * 2 ^ (w - 1)) by (rewrite <- Z.pow_succ_r by lia; f_equal; lia).
  assert (HT : 0 < 2 ^ (w - 1)) by (apply Z.pow_pos_nonneg; lia).
  rewrite E2. set (T := 2 ^ (w - 1)) in *.
  destruct signed; cbn [andb].
  - destruct (Z_lt_le_dec x 0) as [Hneg|Hpos].
    + assert (Em : x mod (2 * T) = x + 2 * T) by (symmetry; apply (Z.mod_unique_pos x (2 * T) (-1) (x + 2 * T)); lia).
      rewrite Em. rewrite (proj2 (Z.leb_le T (x + 2 * T))) by lia. lia.
    + rewrite Z.mod_small by lia. rewrite (proj2 (Z.leb_gt T x)) by lia. reflexivity.
  - apply Z.mod_small. lia.
Qed.
Theorem as_from_roundtrip w signed v : 0 < w <= 64 -> fits v -> fits (v * M) ->
  kfits w signed v ->
  as_int M w signed (from_int M v) = v /\ checked_as_int M w signed (from_int M v) = Some v.
Proof.
  intros Hw H1 H2 Hk. rewrite (from_exact v H1 H2). unfold checked_as_int, as_int. rewrite Z.quot_mul by lia.
  rewrite (kwrap_small w signed v ltac:(lia) Hk). split; [reflexivity|]. rewrite (from_exact v H1 H2). rewrite Z.eqb_refl. cbn [andb].
  assert (E : (v <? 0) = (v * M <? 0)) by (destruct (Z.ltb_spec v 0), (Z.ltb_spec (v * M) 0); try reflexivity; nia).
  rewrite E. rewrite Bool.eqb_reflx. reflexivity.
Qed.
Theorem checked_as_sound w signed a n : 0 < w <= 64 -> fits a -> checked_as_int M w signed a = Some n ->
  n = as_int M w signed a /\ fits n -> fits (n * M) -> n * M = a.
Proof.
  intros Hw Ha H [En Fn] Fm. unfold checked_as_int in H. destruct (from_int M (as_int M w signed a) =? a) eqn:E; [|discriminate].
  apply Z.eqb_eq in E. rewrite <- En in E. rewrite (from_exact n Fn Fm) in E. exact E.
Qed.
End D.
