(* C03 — f128.Int: the same formulas over Int128. Values are read with sval; fits128 v says v is representable. *)
From Coq Require Import ZArith List Bool Lia.
From Verif Require Import common.Word64 common.Word64Facts C01.Model C01.ProofsArith C01.ProofsInt C01.ProofsDiv3 C03.Model.
Open Scope Z_scope.

Definition fits128 (v : Z) : Prop := - P127 <= v < P127.
Section P.
Variable M : Z.
Hypothesis HM : 10 <= M <= 10000000000000000.
Lemma m128_spec : wf (m128 M) /\ sval (m128 M) = M.
Proof. unfold m128. apply From64_spec. unfold int64. lia. Qed.

Lemma quot_bound a b : b <> 0 -> Z.abs (Z.quot a b) <= Z.abs a.
Proof.
  intro Hb. rewrite <- Z.quot_abs by exact Hb. rewrite Z.quot_div_nonneg by lia.
  assert (0 < Z.abs b) as Hp by lia. assert (0 <= Z.abs a) as Ha by lia. revert Hp Ha. generalize (Z.abs a) (Z.abs b). clear. intros x y Hy Hx.
  pose proof (Z.div_mod x y ltac:(lia)). pose proof (Z.mod_pos_bound x y Hy). assert (0 <= x / y) by (apply Z.div_pos; lia). nia.
Qed.
Lemma quot_pos_bounds a b : 0 < b -> (0 <= a -> 0 <= Z.quot a b <= a) /\ (a <= 0 -> a <= Z.quot a b <= 0).
Proof.
  intro Hb. assert (forall x, 0 <= x -> 0 <= Z.quot x b <= x) as K.
  { intros x Hx. rewrite Z.quot_div_nonneg by lia. pose proof (Z.div_mod x b ltac:(lia)). pose proof (Z.mod_pos_bound x b Hb). assert (0 <= x / b) by (apply Z.div_pos; lia). nia. }
  split; intro Ha; [apply K; exact Ha|]. replace a with (- (- a)) by lia. rewrite Z.quot_opp_l by lia. specialize (K (- a) ltac:(lia)). lia.
Qed.
Lemma fits_quot a b : 0 < b -> fits128 a -> fits128 (Z.quot a b).
Proof. intros Hb Ha. destruct (quot_pos_bounds a b Hb) as [P N]. unfold fits128 in *. destruct (Z_le_gt_dec 0 a); [specialize (P ltac:(lia))|specialize (N ltac:(lia))]; lia. Qed.

Lemma quot_mul_fits a b : 0 < b -> fits128 a -> fits128 (Z.quot a b * b).
Proof.
  intros Hb Ha. pose proof (Z.quot_rem' a b) as E. unfold fits128 in *. destruct (Z_le_gt_dec 0 a) as [P|N].
  - pose proof (Z.rem_bound_pos a b P Hb). destruct (quot_pos_bounds a b Hb) as [Q _]. specialize (Q P). nia.
  - pose proof (Z.rem_bound_pos (- a) b ltac:(lia) Hb) as R. rewrite Z.rem_opp_l in R by lia. destruct (quot_pos_bounds a b Hb) as [_ Q]. specialize (Q ltac:(lia)). nia.
Qed.

Theorem add128_exact a b : wf a -> wf b -> fits128 (sval a + sval b) -> wf (add128 a b) /\ sval (add128 a b) = sval a + sval b.
Proof. intros Wa Wb F. destruct (IAdd_spec a b Wa Wb) as [W S]. split; [exact W|]. unfold add128. rewrite S. apply smod_small. exact F. Qed.
Theorem sub128_exact a b : wf a -> wf b -> fits128 (sval a - sval b) -> wf (sub128 a b) /\ sval (sub128 a b) = sval a - sval b.
Proof. intros Wa Wb F. destruct (ISub_spec a b Wa Wb) as [W S]. split; [exact W|]. unfold sub128. rewrite S. apply smod_small. exact F. Qed.

(* IDiv by a non-zero divisor of a representable quotient *)
Lemma idiv_exact x d : wf x -> wf d -> sval d <> 0 -> fits128 (Z.quot (sval x) (sval d)) ->
  exists q, IDiv x d = Ok q /\ wf q /\ sval q = Z.quot (sval x) (sval d).
Proof.
  intros Wx Wd Hd F. destruct (IDivMod_spec x d Wx Wd) as [_ K]. destruct (K Hd) as (q & r & _ & E & _ & Wq & _ & Sq & _).
  exists q. split; [exact E|]. split; [exact Wq|]. rewrite Sq. apply smod_small. exact F.
Qed.

Theorem mul128_exact a b : wf a -> wf b -> fits128 (sval a * sval b) -> wf (mul128 M a b) /\ sval (mul128 M a b) = Z.quot (sval a * sval b) M.
Proof.
  intros Wa Wb F. destruct (IMul_spec a b Wa Wb) as [Wm Sm]. rewrite smod_small in Sm by exact F. destruct m128_spec as [W128 S128].
  destruct (idiv_exact (Mul a b) (m128 M) Wm W128 ltac:(lia)) as (q & E & Wq & Sq); [rewrite Sm, S128; apply fits_quot; [lia|exact F]|].
  unfold mul128. rewrite E. cbn [ok128]. split; [exact Wq|]. rewrite Sq, Sm, S128. reflexivity.
Qed.

Theorem div128_exact a b : wf a -> wf b -> fits128 (sval a * M) ->
  (sval b = 0 -> div128 M a b = DivZero) /\
  (sval b <> 0 -> fits128 (Z.quot (sval a * M) (sval b)) -> exists q, div128 M a b = Ok q /\ wf q /\ sval q = Z.quot (sval a * M) (sval b)).
Proof.
  intros Wa Wb F. destruct m128_spec as [W128 S128]. destruct (IMul_spec a (m128 M) Wa W128) as [Wm Sm]. rewrite S128, smod_small in Sm by exact F.
  unfold div128. split.
  - intro B0. destruct (IDivMod_spec (Mul a (m128 M)) b Wm Wb) as [Z0 _]. apply Z0. exact B0.
  - intros B0 Fq. destruct (idiv_exact (Mul a (m128 M)) b Wm Wb B0) as (q & E & Wq & Sq); [rewrite Sm; exact Fq|]. exists q. rewrite <- Sm. split; [exact E|]. split; [exact Wq|exact Sq].
Qed.

Theorem trunc128_exact a : wf a -> wf (trunc128 M a) /\ sval (trunc128 M a) = M * Z.quot (sval a) M.
Proof.
  intros Wa. pose proof (sval_range a Wa) as Ra. destruct m128_spec as [W128 S128].
  destruct (idiv_exact a (m128 M) Wa W128 ltac:(lia)) as (q & E & Wq & Sq); [rewrite S128; apply fits_quot; [lia|exact Ra]|]. rewrite S128 in Sq.
  unfold trunc128. rewrite E. cbn [ok128]. destruct (IMul_spec q (m128 M) Wq W128) as [Wm Sm]. split; [exact Wm|]. rewrite Sm, Sq, S128.
  rewrite smod_small; [lia|]. apply (quot_mul_fits (sval a) M); [lia|exact Ra].
Qed.

Theorem minmax128_exact a b : wf a -> wf b -> sval (min128 a b) = Z.min (sval a) (sval b) /\ sval (max128 a b) = Z.max (sval a) (sval b).
Proof.
  intros Wa Wb. destruct (Ipredicates_spec a b Wa Wb) as (G & _ & _ & L & _). unfold min128, max128. rewrite G, L.
  split; [destruct (Z.ltb_spec (sval a) (sval b)); lia|destruct (Z.ltb_spec (sval b) (sval a)); lia].
Qed.
Theorem incdec128_exact a : wf a -> (fits128 (sval a + M) -> sval (inc128 M a) = sval a + M) /\ (fits128 (sval a - M) -> sval (dec128 M a) = sval a - M).
Proof.
  intros Wa. destruct m128_spec as [W128 S128]. split; intro F.
  - destruct (add128_exact a (m128 M) Wa W128 ltac:(rewrite S128; exact F)) as [_ S]. unfold inc128. unfold add128 in S. rewrite S, S128. reflexivity.
  - destruct (sub128_exact a (m128 M) Wa W128 ltac:(rewrite S128; exact F)) as [_ S]. unfold dec128. unfold sub128 in S. rewrite S, S128. reflexivity.
Qed.

(* value-level lemmas shared by Ceil and Round *)
Lemma ceil_sem a : let q := Z.quot a M in let c := (if (0 <? a) && negb (a =? M * q) then M * q + M else M * q) in a <= c < a + M /\ Z.rem c M = 0.
Proof.
  cbv zeta. pose proof (Z.quot_rem a M ltac:(lia)) as E. pose proof (Z.rem_bound_abs a M ltac:(lia)) as B.
  destruct (Z.ltb_spec 0 a); cbn [andb].
  - pose proof (Z.rem_nonneg a M ltac:(lia) ltac:(lia)). destruct (Z.eqb_spec a (M * Z.quot a M)); cbn [negb].
    + split; [lia|]. rewrite Z.mul_comm. apply Z.rem_mul. lia.
    + split; [lia|]. replace (M * Z.quot a M + M) with ((Z.quot a M + 1) * M) by lia. apply Z.rem_mul. lia.
  - pose proof (Z.rem_nonpos a M ltac:(lia) ltac:(lia)). split; [lia|]. rewrite Z.mul_comm. apply Z.rem_mul. lia.
Qed.
Lemma round_sem a : Z.even M = true -> let q := Z.quot a M in let h := Z.quot M 2 in
  let r := (if h <=? a - M * q then M * q + M else if a - M * q <=? - h then M * q - M else M * q) in
  Z.rem r M = 0 /\ 2 * Z.abs (r - a) <= M /\ (2 * Z.abs (r - a) = M -> Z.abs a < Z.abs r).
Proof.
  intros Hev. cbv zeta. pose proof (Z.quot_rem a M ltac:(lia)) as E. pose proof (Z.rem_bound_abs a M ltac:(lia)) as B.
  assert (Hh : 2 * Z.quot M 2 = M).
  { pose proof Hev as Hev'. apply Z.even_spec in Hev'. destruct Hev' as [k Hk]. rewrite Hk at 1. rewrite (Z.mul_comm 2 k), Z.quot_mul by lia. lia. }
  set (q := Z.quot a M) in *. set (h := Z.quot M 2) in *.
  assert (R0 : forall k, Z.rem (k * M) M = 0) by (intro k; apply Z.rem_mul; lia).
  destruct (Z.leb_spec h (a - M * q)).
  - replace (M * q + M) with ((q + 1) * M) by lia. rewrite R0.
    assert (0 <= a) by (destruct (Z_lt_le_dec a 0); [pose proof (Z.rem_nonpos a M ltac:(lia) ltac:(lia)); lia | lia]).
    pose proof (Z.rem_nonneg a M ltac:(lia) ltac:(lia)). assert (0 <= q) by (apply Z.quot_pos; lia). split; [reflexivity|]. split; lia.
  - destruct (Z.leb_spec (a - M * q) (- h)).
    + replace (M * q - M) with ((q - 1) * M) by lia. rewrite R0.
      assert (a < 0) by (destruct (Z_lt_le_dec a 0); [assumption|pose proof (Z.rem_nonneg a M ltac:(lia) ltac:(lia)); lia]). pose proof (Z.rem_nonpos a M ltac:(lia) ltac:(lia)).
      assert (q <= 0) by (unfold q; rewrite <- (Z.opp_involutive a), Z.quot_opp_l by lia; pose proof (Z.quot_pos (- a) M ltac:(lia) ltac:(lia)); lia).
      split; [reflexivity|]. split; lia.
    + replace (M * q) with (q * M) by lia. rewrite R0. split; [reflexivity|]. split; lia.
Qed.

Lemma zero_spec : wf zero /\ sval zero = 0.
Proof. split; [unfold wf, zero; cbn [hi lo]; lia|reflexivity]. Qed.

Theorem ceil128_exact a : wf a -> fits128 (M * Z.quot (sval a) M + M) ->
  let c := sval (ceil128 M a) in
  c = (if (0 <? sval a) && negb (sval a =? M * Z.quot (sval a) M) then M * Z.quot (sval a) M + M else M * Z.quot (sval a) M) /\
  sval a <= c < sval a + M /\ Z.rem c M = 0.
Proof.
  intros Wa F. cbv zeta. destruct (trunc128_exact a Wa) as [Wt St]. destruct m128_spec as [W128 S128]. destruct zero_spec as [Wz Sz].
  assert (V : sval (ceil128 M a) = (if (0 <? sval a) && negb (sval a =? M * Z.quot (sval a) M) then M * Z.quot (sval a) M + M else M * Z.quot (sval a) M)).
  { unfold ceil128. cbv zeta. destruct (Ipredicates_spec a zero Wa Wz) as (G & _). destruct (Ipredicates_spec a (trunc128 M a) Wa Wt) as (_ & _ & Eq & _).
    rewrite G, Eq, Sz, St. destruct ((0 <? sval a) && negb (sval a =? M * Z.quot (sval a) M)); [|exact St].
    destruct (add128_exact (trunc128 M a) (m128 M) Wt W128 ltac:(rewrite St, S128; exact F)) as [_ S]. unfold add128 in S. rewrite S, St, S128. reflexivity. }
  split; [exact V|]. rewrite V. exact (ceil_sem (sval a)).
Qed.

Theorem round128_exact a : wf a -> fits128 (M * Z.quot (sval a) M + M) -> fits128 (M * Z.quot (sval a) M - M) -> Z.even M = true ->
  let r := sval (round128 M a) in
  Z.rem r M = 0 /\ 2 * Z.abs (r - sval a) <= M /\ (2 * Z.abs (r - sval a) = M -> Z.abs (sval a) < Z.abs r).
Proof.
  intros Wa F1 F2 Hev. cbv zeta. destruct (trunc128_exact a Wa) as [Wt St]. destruct m128_spec as [W128 S128].
  pose proof (sval_range a Wa) as Ra.
  assert (W2 : wf (From64 2) /\ sval (From64 2) = 2) by (apply From64_spec; unfold int64; lia). destruct W2 as [W2 S2].
  destruct (idiv_exact (m128 M) (From64 2) W128 W2 ltac:(lia)) as (hf & Eh & Wh & Sh); [rewrite S128, S2; unfold fits128; pose proof (quot_pos_bounds M 2 ltac:(lia)) as [Q _]; specialize (Q ltac:(lia)); lia|].
  rewrite S128, S2 in Sh. pose proof (quot_pos_bounds M 2 ltac:(lia)) as [Qh _]. specialize (Qh ltac:(lia)).
  destruct (Neg_spec hf Wh) as [Wn Sn]. rewrite Sh, smod_small in Sn by (unfold fits128; lia).
  pose proof (Z.quot_rem (sval a) M ltac:(lia)) as E. pose proof (Z.rem_bound_abs (sval a) M ltac:(lia)) as B.
  destruct (sub128_exact a (trunc128 M a) Wa Wt) as [Wr Sr]; [rewrite St; unfold fits128 in *; lia|]. unfold sub128 in Wr, Sr. rewrite St in Sr.
  assert (V : sval (round128 M a) = (if Z.quot M 2 <=? sval a - M * Z.quot (sval a) M then M * Z.quot (sval a) M + M else if sval a - M * Z.quot (sval a) M <=? - Z.quot M 2 then M * Z.quot (sval a) M - M else M * Z.quot (sval a) M)).
  { unfold round128. cbv zeta. rewrite Eh. cbn [ok128].
    destruct (Ipredicates_spec (Sub a (trunc128 M a)) hf Wr Wh) as (_ & Ge & _). destruct (Ipredicates_spec (Sub a (trunc128 M a)) (Neg hf) Wr Wn) as (_ & _ & _ & _ & Le).
    rewrite Ge, Le, Sr, Sh, Sn.
    destruct (Z.quot M 2 <=? sval a - M * Z.quot (sval a) M).
    - destruct (add128_exact (trunc128 M a) (m128 M) Wt W128 ltac:(rewrite St, S128; exact F1)) as [_ S]. unfold add128 in S. rewrite S, St, S128. reflexivity.
    - destruct (sval a - M * Z.quot (sval a) M <=? - Z.quot M 2); [|exact St].
      destruct (sub128_exact (trunc128 M a) (m128 M) Wt W128 ltac:(rewrite St, S128; exact F2)) as [_ S]. unfold sub128 in S. rewrite S, St, S128. reflexivity. }
  rewrite V. exact (round_sem (sval a) Hev).
Qed.

(* Mod = a - b*trunc(a/b) = Z.rem a b when the intermediate results are representable *)
Theorem mod128_exact a b : wf a -> wf b -> fits128 (sval a * M) ->
  (sval b = 0 -> mod128 M a b = DivZero) /\
  (sval b <> 0 -> fits128 (Z.quot (sval a * M) (sval b)) -> fits128 (sval b * M * Z.quot (sval a) (sval b)) ->
     exists r, mod128 M a b = Ok r /\ wf r /\ sval r = Z.rem (sval a) (sval b)).
Proof.
  intros Wa Wb F. destruct (div128_exact a b Wa Wb F) as [D0 D1]. unfold mod128. split.
  - intro B0. rewrite (D0 B0). reflexivity.
  - intros B0 Fq F3. destruct (D1 B0 Fq) as (q & E & Wq & Sq). rewrite E.
    destruct (trunc128_exact q Wq) as [Wt St]. rewrite Sq in St.
    assert (Q : Z.quot (Z.quot (sval a * M) (sval b)) M = Z.quot (sval a) (sval b)).
    { rewrite Z.quot_quot by lia. rewrite Z.quot_mul_cancel_r by lia. reflexivity. }
    rewrite Q in St.
    destruct (mul128_exact b (trunc128 M q) Wb Wt) as [Wm Sm]; [rewrite St; replace (sval b * (M * Z.quot (sval a) (sval b))) with (sval b * M * Z.quot (sval a) (sval b)) by lia; exact F3|].
    rewrite St in Sm. replace (sval b * (M * Z.quot (sval a) (sval b))) with (sval b * Z.quot (sval a) (sval b) * M) in Sm by lia. rewrite Z.quot_mul in Sm by lia.
    pose proof (Z.quot_rem (sval a) (sval b) B0) as QR. pose proof (Z.rem_bound_abs (sval a) (sval b) B0) as RB. pose proof (sval_range a Wa) as Ra. pose proof (sval_range b Wb) as Rb.
    destruct (sub128_exact a (mul128 M b (trunc128 M q)) Wa Wm) as [Wr Sr]; [rewrite Sm; unfold fits128 in *; lia|].
    eexists. split; [reflexivity|]. split; [exact Wr|]. unfold sub128 in Sr. rewrite Sr, Sm. lia.
Qed.
End P.
