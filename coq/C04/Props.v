(* C04 — property theorems only (byte-level model of the fixed-point text functions). *)
From Coq Require Import ZArith List Bool.
From Verif Require Import common.Word64 C03.Model C04.Model C04.Proofs.
Import ListNotations.
Open Scope Z_scope.

(* decimal printing and parsing are inverse for every integer that can occur (|n| < 10^45 > 2^128):
   this is strconv.FormatInt/ParseInt and big.Int String/SetString as String() and FromString use them *)
Theorem C04_decimal_digits_roundtrip : forall n, 0 <= n < 10 ^ 45 -> pdigits (udec n) 0 = Some n.
Proof. exact parse_print_nonneg. Qed.
Print Assumptions C04_decimal_digits_roundtrip.
Theorem C04_signed_decimal_roundtrip : forall n, - 10 ^ 45 < n < 10 ^ 45 -> parse_signed (sdec n) = Some n.
Proof. exact parse_print_signed. Qed.
Print Assumptions C04_signed_decimal_roundtrip.

(* Comma only adds thousands separators: removing the commas gives back the digits (any length, any grouping remainder) *)
Theorem C04_comma_only_adds_separators : forall s : bytes, (forall c, In c s -> c <> 44) ->
  filter (fun c => negb (c =? 44)) (comma_int s) = s.
Proof. exact comma_int_strip. Qed.
Print Assumptions C04_comma_only_adds_separators.

(* Unquote undoes one level of quoting, whatever is inside *)
Theorem C04_unquote_quoted : forall s : bytes, unquote (34 :: s ++ [34]) = s.
Proof. exact unquote_quote. Qed.
Print Assumptions C04_unquote_quoted.

(* regression examples: canonical text, the sign of -00.5, the int64 minimum, saturation of f128 *)
Example C04_ex_string : fx_string 2 (-5) = [45; 48; 46; 48; 53] /\ fx_string 2 1230 = [49; 50; 46; 51] /\ fx_string 3 (-7000) = [45; 55].
Proof. repeat split. Qed.
Example C04_ex_sign_kept : fx_from_string 1 false [45; 48; 48; 46; 53] = POk (-5) /\ fx_from_string 1 true [45; 48; 48; 46; 53] = POk (-5).
Proof. split; reflexivity. Qed.
Example C04_ex_min_roundtrip : fx_from_string 4 false (fx_string 4 (- SIGN)) = POk (- SIGN).
Proof. vm_compute. reflexivity. Qed.
Example C04_ex_comma : comma_from_string_num [45; 49; 50; 51; 52; 53; 54; 55; 46; 53] = [45; 49; 44; 50; 51; 52; 44; 53; 54; 55; 46; 53].
Proof. reflexivity. Qed.
