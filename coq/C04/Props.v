(* C04 — property theorems only (byte-level model of the fixed-point text functions). *)
From Coq Require Import ZArith List Bool Lia.
From Verif Require Import common.Word64 C03.Model C03.Proofs C04.Model C04.Proofs C04.ProofsRT C04.ProofsLit C04.ProofsRej.
Import ListNotations.
Open Scope Z_scope.

(* decimal printing and parsing are inverse for every integer that can occur (|n| < 10^45 > 2^128):
   this is strconv.FormatInt/ParseInt and big.Int String/SetString as String() and FromString use them *)
Theorem C04_decimal_digits_roundtrip : forall n, 0 <= n < 10 ^ 45 -> pdigits (udec n) 0 = Some n.
Proof. exact parse_print_nonneg. Qed.
Print Assumptions C04_decimal_digits_roundtrip.
Theorem C04_signed_decimal_roundtrip : forall n, - 10 ^ 45 < n < 10 ^ 45 -> parse_signed (sdec n) = Some n.
Proof. exact parse_print_signed. Qed.
Print Assumptions C04_signed_decimal_roundtrip.

(* Comma only adds thousands separators: removing the commas gives back the digits (any length, any grouping remainder) *)
Theorem C04_comma_only_adds_separators : forall s : bytes, (forall c, In c s -> c <> 44) ->
  filter (fun c => negb (c =? 44)) (comma_int s) = s.
Proof. exact comma_int_strip. Qed.
Print Assumptions C04_comma_only_adds_separators.

(* Unquote undoes one level of quoting, whatever is inside *)
Theorem C04_unquote_quoted : forall s : bytes, unquote (34 :: s ++ [34]) = s.
Proof. exact unquote_quote. Qed.
Print Assumptions C04_unquote_quoted.

(* ---- the round trip, for every value and every configuration (1..16 decimal places), f64 (wide = false: int64 with wrap-around,
   ParseInt range errors) and f128 (wide = true: big.Int parsing, saturation): FromString applied to String, StringWithSign, Comma and
   CommaWithSign of v returns exactly v. fitsw = the value is an int64 / an Int128. UnmarshalText/JSON/YAML call FromString on the
   (unquoted) text; Unquote is covered by C04_unquote_quoted. ---- *)
Theorem C04_string_roundtrip : forall places, (1 <= places <= 16)%nat -> forall wide v, fitsw wide v ->
  fx_from_string places wide (fx_string places v) = POk v.
Proof. exact roundtrip. Qed.
Print Assumptions C04_string_roundtrip.
Theorem C04_string_with_sign_roundtrip : forall places, (1 <= places <= 16)%nat -> forall wide v, fitsw wide v ->
  fx_from_string places wide (fx_string_with_sign places v) = POk v.
Proof. exact roundtrip_with_sign. Qed.
Print Assumptions C04_string_with_sign_roundtrip.
Theorem C04_comma_roundtrip : forall places, (1 <= places <= 16)%nat -> forall wide v, fitsw wide v ->
  fx_from_string places wide (comma_from_string_num (fx_string places v)) = POk v /\
  (0 <= v -> fx_from_string places wide (43 :: comma_from_string_num (fx_string places v)) = POk v).
Proof. intros places Hp wide v H. split; [exact (roundtrip_comma places Hp wide v H)|exact (roundtrip_comma_with_sign places Hp wide v H)]. Qed.
Print Assumptions C04_comma_roundtrip.
(* Comma of a printed value only adds separators: removing the commas gives String() back *)
Theorem C04_comma_of_string_only_adds_separators : forall places, (1 <= places <= 16)%nat -> forall v,
  filter (fun c => negb (c =? 44)) (comma_from_string_num (fx_string places v)) = fx_string places v.
Proof. intros places Hp v. apply comma_strip. apply string_numeral. exact Hp. Qed.
Print Assumptions C04_comma_of_string_only_adds_separators.
(* quoted JSON text: Unquote then FromString *)
Theorem C04_quoted_roundtrip : forall places, (1 <= places <= 16)%nat -> forall wide v, fitsw wide v ->
  fx_from_string places wide (unquote (34 :: fx_string places v ++ [34])) = POk v.
Proof. intros places Hp wide v H. rewrite unquote_quote. apply roundtrip; assumption. Qed.
Print Assumptions C04_quoted_roundtrip.
(* ---- plain decimal literals: optional sign (a '+' needs an integer part), optional integer part A, optional fraction B of any
   length (digit strings; val = the number they denote). FromString returns the number truncated toward zero to D places:
   sign * (val A * 10^D + floor (val B * 10^D / 10^|B|)) - saturated for f128, and for f64 whenever that value is an int64. ---- *)
Theorem C04_literal_truncates_toward_zero : forall places, (1 <= places <= 16)%nat -> forall (wide : bool) sg A B,
  Forall digitc A -> Forall digitc B -> sign_ok sg A -> (wide = false -> fits (litval places A B)) ->
  fx_from_string places wide (sg ++ A ++ 46 :: B) = POk (if wide then clamp128 (signed sg (litval places A B)) else signed sg (litval places A B)).
Proof. exact literal_with_fraction. Qed.
Print Assumptions C04_literal_truncates_toward_zero.
Theorem C04_integer_literal : forall places, (1 <= places <= 16)%nat -> forall (wide : bool) sg A,
  Forall digitc A -> A <> [] -> sign_ok sg A -> (wide = false -> fits (val A * mult places)) ->
  fx_from_string places wide (sg ++ A) = POk (if wide then clamp128 (signed sg (val A * mult places)) else signed sg (val A * mult places)).
Proof. exact literal_integer. Qed.
Print Assumptions C04_integer_literal.
(* non-vacuity: -.129 in D2 is -0.12, 7.5 in D1 is 7.5, +12.3456 in D2 is 12.34 *)
Example C04_ex_literals :
  fx_from_string 2 false ([45] ++ [] ++ 46 :: [49; 50; 57]) = POk (-12) /\ fx_from_string 1 true ([] ++ [55] ++ 46 :: [53]) = POk 75 /\
  fx_from_string 2 false ([43] ++ [49; 50] ++ 46 :: [51; 52; 53; 54]) = POk 1234.
Proof. repeat split; reflexivity. Qed.

(* non-vacuity: the extreme values meet fitsw *)
Example C04_ex_fitsw : fitsw false (- SIGN) /\ fitsw false (SIGN - 1) /\ fitsw true (- P127) /\ fitsw true (P127 - 1).
Proof. unfold fitsw, fits. repeat split; lia. Qed.

(* rejection, for ALL byte strings: the numeral parsers FromString rests on (strconv.ParseInt base 10 / big.Int SetString) accept
   exactly an optional single sign followed by a non-empty run of decimal digits - never an empty numeral, never a byte outside
   0-9 after the first position -, a negative value only under '-', and for int64 only values inside the int64 range *)
Theorem C04_numeral_accepted_only_if_well_formed : forall s v, parse_signed s = Some v ->
  exists body, body <> [] /\ (forall c, In c body -> is_digit c = true) /\
    ((s = 45 :: body /\ v <= 0) \/ (s = 43 :: body /\ 0 <= v) \/ (s = body /\ 0 <= v)).
Proof. exact parse_signed_shape. Qed.
Print Assumptions C04_numeral_accepted_only_if_well_formed.
Theorem C04_numeral_with_stray_byte_rejected : forall s c, In c (tl s) -> is_digit c = false -> parse_signed s = None.
Proof. exact parse_signed_rejects. Qed.
Print Assumptions C04_numeral_with_stray_byte_rejected.
Theorem C04_int64_numeral_in_range : forall s v, parseInt64 s = Some v -> parse_signed s = Some v /\ - SIGN <= v < SIGN.
Proof. exact parseInt64_shape. Qed.
Print Assumptions C04_int64_numeral_in_range.
(* the whole function, every byte string: whatever FromString accepts has (thousands separators removed, no E/e) before its
   first '.' nothing, a lone '-' or a well-formed numeral, and the first D places of its fraction are decimal digits (the model,
   like the code, ignores the bytes of a fraction beyond D places) - anything else takes the error path *)
Theorem C04_from_string_accepts_only_numerals : forall places wide str v, fx_from_string places wide str = POk v ->
  let s := filter (fun c => negb (c =? 44)) str in
  str <> [] /\ existsb (fun c => (c =? 69) || (c =? 101)) s = false /\
  let p0 := fst (split_dot s []) in
  (p0 = [] \/ p0 = [45] \/ exists w, parse_signed p0 = Some w) /\
  (forall fr, snd (split_dot s []) = Some fr ->
     exists f, parse_signed (firstn (S places) ((49 :: fr) ++ repeat 48 (S places - length (49 :: fr)))) = Some f).
Proof. exact from_string_accepts_shape. Qed.
Print Assumptions C04_from_string_accepts_only_numerals.
Example C04_ex_rejects : parse_signed [49; 50; 120] = None /\ parse_signed [45] = None /\ parse_signed [] = None /\
  parse_signed [45; 49; 50] = Some (-12) /\ parseInt64 [57;50;50;51;51;55;50;48;51;54;56;53;52;55;55;53;56;48;56] = None /\
  fx_from_string 2 false [49; 120; 46; 53] = PErr /\ fx_from_string 2 true [49; 46; 120] = PErr.
Proof. repeat split; vm_compute; reflexivity. Qed.

(* regression examples: canonical text, the sign of -00.5, the int64 minimum, saturation of f128 *)
Example C04_ex_string : fx_string 2 (-5) = [45; 48; 46; 48; 53] /\ fx_string 2 1230 = [49; 50; 46; 51] /\ fx_string 3 (-7000) = [45; 55].
Proof. repeat split. Qed.
Example C04_ex_sign_kept : fx_from_string 1 false [45; 48; 48; 46; 53] = POk (-5) /\ fx_from_string 1 true [45; 48; 48; 46; 53] = POk (-5).
Proof. split; reflexivity. Qed.
Example C04_ex_min_roundtrip : fx_from_string 4 false (fx_string 4 (- SIGN)) = POk (- SIGN).
Proof. vm_compute. reflexivity. Qed.
Example C04_ex_comma : comma_from_string_num [45; 49; 50; 51; 52; 53; 54; 55; 46; 53] = [45; 49; 44; 50; 51; 52; 44; 53; 54; 55; 46; 53].
Proof. reflexivity. Qed.
