(* C04 — FromString of a plain decimal literal (optional sign, optional integer part, optional fraction of any length) is that
   number truncated toward zero to D places. *)
From Coq Require Import ZArith List Bool Lia.
From Verif Require Import common.Word64 C03.Model C03.Proofs C04.Model C04.Proofs C04.ProofsRT.
Import ListNotations.
Open Scope Z_scope.

(* the number a digit string denotes *)
Definition valacc (ds : bytes) (acc : Z) : Z := fold_left (fun a c => a * 10 + (c - 48)) ds acc.
Definition val (ds : bytes) : Z := valacc ds 0.
Lemma pdigits_val ds : forall acc, Forall digitc ds -> pdigits ds acc = Some (valacc ds acc).
Proof.
  induction ds as [|c ds IH]; intros acc H; [reflexivity|]. inversion H as [|? ? Hc Hd]; subst. cbn [pdigits valacc fold_left].
  unfold is_digit. unfold digitc in Hc. rewrite (proj2 (Z.leb_le 48 c)), (proj2 (Z.leb_le c 57)) by lia. cbn [andb]. apply IH. exact Hd.
Qed.
Lemma valacc_shift ds : forall acc, valacc ds acc = acc * 10 ^ Z.of_nat (length ds) + val ds.
Proof.
  unfold val. induction ds as [|c ds IH]; intros acc; [cbn; lia|]. cbn [valacc fold_left length]. fold (valacc ds (acc * 10 + (c - 48))). fold (valacc ds (0 * 10 + (c - 48))).
  rewrite (IH (acc * 10 + (c - 48))), (IH (0 * 10 + (c - 48))). rewrite Nat2Z.inj_succ, Z.pow_succ_r by lia. lia.
Qed.
Lemma val_app a b : val (a ++ b) = val a * 10 ^ Z.of_nat (length b) + val b.
Proof. unfold val at 1. unfold valacc. rewrite fold_left_app. fold (valacc a 0). fold (valacc b (valacc a 0)). rewrite valacc_shift. reflexivity. Qed.
Lemma val_range ds : Forall digitc ds -> 0 <= val ds < 10 ^ Z.of_nat (length ds).
Proof.
  induction ds as [|c ds IH] using rev_ind; intro H; [cbn; lia|]. apply Forall_app in H. destruct H as [Hd Hc]. inversion Hc as [|? ? Hc' _]; subst. unfold digitc in Hc'.
  rewrite val_app, app_length. cbn [length]. change (val [c]) with (0 * 10 + (c - 48)). specialize (IH Hd).
  replace (Z.of_nat (length ds + 1)) with (Z.succ (Z.of_nat (length ds))) by lia. rewrite Z.pow_succ_r by lia. change (10 ^ Z.of_nat 1) with 10. lia.
Qed.
Lemma val_zeros k : val (repeat 48 k) = 0.
Proof. induction k as [|k IH]; [reflexivity|]. change (repeat 48 (S k)) with ([48] ++ repeat 48 k). rewrite val_app, IH. reflexivity. Qed.
Lemma zeros_digits k : Forall digitc (repeat 48 k).
Proof. induction k; cbn; constructor; [unfold digitc; lia|assumption]. Qed.

(* the first D digits of the fraction, padded: floor (0.B * 10^D) *)
Definition fracpart (D : nat) (B : bytes) : bytes := firstn D (B ++ repeat 48 (D - length B)).
Lemma fracpart_len D B : length (fracpart D B) = D.
Proof. unfold fracpart. rewrite firstn_length, app_length, repeat_length. lia. Qed.
Lemma fracpart_digits D B : Forall digitc B -> Forall digitc (fracpart D B).
Proof.
  intro H. unfold fracpart. assert (F : Forall digitc (B ++ repeat 48 (D - length B))) by (apply Forall_app; split; [exact H|apply zeros_digits]).
  rewrite Forall_forall in *. intros c Hc. apply F. rewrite <- (firstn_skipn D (B ++ repeat 48 (D - length B))). apply in_or_app. left. exact Hc.
Qed.
Lemma fracpart_val D B : Forall digitc B -> val (fracpart D B) = (val B * 10 ^ Z.of_nat D) / 10 ^ Z.of_nat (length B).
Proof.
  intro H. unfold fracpart. assert (P : forall k, 0 < 10 ^ Z.of_nat k) by (intro k; apply Z.pow_pos_nonneg; lia).
  destruct (Nat.le_gt_cases (length B) D) as [L|L].
  - rewrite firstn_all2 by (rewrite app_length, repeat_length; lia). rewrite val_app, val_zeros, repeat_length, Z.add_0_r.
    replace (Z.of_nat D) with (Z.of_nat (D - length B) + Z.of_nat (length B)) by lia. rewrite Z.pow_add_r by lia. rewrite Z.mul_assoc, Z.div_mul by (pose proof (P (length B)); lia). reflexivity.
  - replace (D - length B)%nat with 0%nat by lia. cbn [repeat]. rewrite app_nil_r.
    rewrite <- (firstn_skipn D B) at 2 3. rewrite val_app, app_length, firstn_length, skipn_length. replace (Nat.min D (length B)) with D by lia.
    assert (Hs : Forall digitc (skipn D B)). { rewrite Forall_forall in *. intros c Hc. apply H. rewrite <- (firstn_skipn D B). apply in_or_app. right. exact Hc. }
    pose proof (val_range _ Hs) as R. rewrite skipn_length in R.
    replace (Z.of_nat (D + (length B - D))) with (Z.of_nat (length B - D) + Z.of_nat D) by lia. rewrite (Z.pow_add_r 10 (Z.of_nat (length B - D))) by lia.
    set (h := val (firstn D B)) in *. set (t := val (skipn D B)) in *. set (pk := 10 ^ Z.of_nat (length B - D)) in *. set (pd := 10 ^ Z.of_nat D) in *.
    assert (0 < pk) by apply P. assert (0 < pd) by apply P.
    symmetry. rewrite (Z.mul_comm pk pd). rewrite <- Z.div_div by lia. rewrite Z.div_mul by lia. symmetry. apply (Z.div_unique_pos _ pk h t); lia.
Qed.

Section Lit.
Variable places : nat.
Hypothesis Hp : (1 <= places <= 16)%nat.
Notation M := (mult places).

Definition sign_ok (sg A : bytes) : Prop := sg = [] \/ sg = [45] \/ (sg = [43] /\ A <> []).
Definition negsg (sg : bytes) : bool := beq sg [45].
Lemma swrap0 : swrap 0 = 0. Proof. reflexivity. Qed.

Lemma r0_lit (wide : bool) sg A : Forall digitc A -> sign_ok sg A -> (wide = false -> val A < SIGN) ->
  r0_of places wide (sg ++ A) = Some (negsg sg, wr wide (val A * M)).
Proof.
  intros HA Hsg Hfit. pose proof (val_range A HA) as VR.
  assert (W0 : wr wide (0 * M) = 0) by (destruct wide; reflexivity).
  destruct A as [|d A'].
  - destruct Hsg as [->|[->|[_ N]]]; [| |congruence]; cbn [app]; unfold r0_of; cbn [beq orb]; change (val []) with 0; rewrite W0; reflexivity.
  - assert (Hd : 48 <= d <= 57) by (inversion HA; assumption). set (A := d :: A') in *.
    assert (PD : pdigits A 0 = Some (val A)) by (apply pdigits_val; exact HA).
    assert (WV : wr wide (val A) = val A) by (destruct wide; [reflexivity|]; cbn [wr]; apply swrap_small; unfold fits; specialize (Hfit eq_refl); lia).
    assert (RG : forall v, v = val A \/ v = - val A -> (if wide then Some v else if (- SIGN <=? v) && (v <? SIGN) then Some v else None) = Some v).
    { intros v Hv. destruct wide; [reflexivity|]. specialize (Hfit eq_refl). destruct (Z.leb_spec (- SIGN) v), (Z.ltb_spec v SIGN); cbn [andb]; try reflexivity; lia. }
    destruct Hsg as [->|[->|[-> _]]]; cbn [app negsg beq].
    + (* no sign *)
      unfold r0_of. subst A. rewrite (beq_head_false (d :: A') d A' 45 [] eq_refl ltac:(lia)), (beq_head_false (d :: A') d A' 45 [48] eq_refl ltac:(lia)). cbn [orb].
      assert (PS : parse_signed (d :: A') = Some (val (d :: A'))).
      { unfold parse_signed. rewrite (proj2 (Z.eqb_neq d 45)), (proj2 (Z.eqb_neq d 43)) by lia. rewrite PD. reflexivity. }
      assert (PP : (if wide then parse_signed (d :: A') else parseInt64 (d :: A')) = Some (val (d :: A'))).
      { unfold parseInt64. rewrite PS. apply RG. left. reflexivity. }
      rewrite PP. rewrite (proj2 (Z.ltb_ge (val (d :: A')) 0)) by lia. cbn [orb head_is]. rewrite (proj2 (Z.eqb_neq d 45)) by lia. reflexivity.
    + (* '-' *)
      unfold r0_of. assert (B1 : beq (45 :: A) [45] = false) by reflexivity. rewrite B1. cbn [orb].
      destruct (beq (45 :: A) [45; 48]) eqn:B2.
      * subst A. cbn in B2. destruct (Z.eqb_spec d 48) as [->|]; [|discriminate]. destruct A'; [|discriminate]. change (val [48]) with 0. rewrite W0. reflexivity.
      * assert (PS : parse_signed (45 :: A) = Some (- val A)).
        { unfold parse_signed. rewrite Z.eqb_refl. subst A. rewrite PD. reflexivity. }
        assert (PP : (if wide then parse_signed (45 :: A) else parseInt64 (45 :: A)) = Some (- val A)).
        { unfold parseInt64. rewrite PS. apply RG. right. reflexivity. }
        rewrite PP. cbn [head_is]. rewrite Z.eqb_refl, orb_true_r. rewrite Z.opp_involutive, WV. reflexivity.
    + (* '+' *)
      unfold r0_of. assert (B1 : beq (43 :: A) [45] = false) by reflexivity. assert (B2 : beq (43 :: A) [45; 48] = false) by reflexivity. rewrite B1, B2. cbn [orb].
      assert (PS : parse_signed (43 :: A) = Some (val A)).
      { unfold parse_signed. change (43 =? 45) with false. change (43 =? 43) with true. cbv iota. subst A. rewrite PD. reflexivity. }
      assert (PP : (if wide then parse_signed (43 :: A) else parseInt64 (43 :: A)) = Some (val A)).
      { unfold parseInt64. rewrite PS. apply RG. left. reflexivity. }
      rewrite PP. rewrite (proj2 (Z.ltb_ge (val A) 0)) by lia. cbn [orb head_is]. reflexivity.
Qed.

Lemma r1_lit (wide : bool) value B : Forall digitc B ->
  r1_of places wide value (Some B) = Some (wr wide (value + wr wide (val (fracpart places B)))).
Proof.
  intro HB. pose proof (M_range places Hp) as HM. unfold r1_of. cbv zeta. cbn [length]. replace (S places - S (length B))%nat with (places - length B)%nat by lia.
  change ((49 :: B) ++ repeat 48 (places - length B)) with (49 :: (B ++ repeat 48 (places - length B))). cbn [firstn]. fold (fracpart places B).
  pose proof (fracpart_digits places B HB) as FD. pose proof (val_range _ FD) as VR. rewrite fracpart_len in VR.
  assert (PD : pdigits (49 :: fracpart places B) 0 = Some (M + val (fracpart places B))).
  { rewrite pdigits_val by (constructor; [unfold digitc; lia|exact FD]). f_equal. cbn [valacc fold_left]. fold (valacc (fracpart places B) (0 * 10 + (49 - 48))).
    rewrite valacc_shift, fracpart_len. unfold mult. lia. }
  assert (PS : parse_signed (49 :: fracpart places B) = Some (M + val (fracpart places B))).
  { unfold parse_signed. change (49 =? 45) with false. change (49 =? 43) with false. cbv iota. rewrite PD. reflexivity. }
  assert (PP : (if wide then parse_signed (49 :: fracpart places B) else parseInt64 (49 :: fracpart places B)) = Some (M + val (fracpart places B))).
  { destruct wide; [exact PS|]. unfold parseInt64. rewrite PS. unfold mult in *.
    destruct (Z.leb_spec (- SIGN) (10 ^ Z.of_nat places + val (fracpart places B))), (Z.ltb_spec (10 ^ Z.of_nat places + val (fracpart places B)) SIGN); cbn [andb]; try reflexivity; lia. }
  rewrite PP. replace (M + val (fracpart places B) - M) with (val (fracpart places B)) by lia. reflexivity.
Qed.

(* the value of the literal sg A . B truncated to D places, as an integer number of 10^-D units *)
Definition litval (A B : bytes) : Z := val A * M + (val B * M) / 10 ^ Z.of_nat (length B).
Definition signed (sg : bytes) (x : Z) : Z := if negsg sg then - x else x.

Lemma sg_plain sg A : sign_ok sg A -> Forall digitc A -> plain (sg ++ A).
Proof. intros H HA. apply Forall_app. split; [|apply digits_plain; exact HA]. destruct H as [->|[->|[-> _]]]; repeat constructor; unfold plainc; lia. Qed.

Theorem literal_with_fraction (wide : bool) sg A B : Forall digitc A -> Forall digitc B -> sign_ok sg A ->
  (wide = false -> fits (litval A B)) ->
  fx_from_string places wide (sg ++ A ++ 46 :: B) = POk (if wide then clamp128 (signed sg (litval A B)) else signed sg (litval A B)).
Proof.
  intros HA HB Hsg Hfit. pose proof (M_range places Hp) as HM. pose proof (val_range A HA) as VA.
  pose proof (fracpart_digits places B HB) as FD. pose proof (val_range _ FD) as VF. rewrite fracpart_len in VF.
  assert (LV : litval A B = val A * M + val (fracpart places B)) by (unfold litval; rewrite fracpart_val by exact HB; reflexivity).
  rewrite app_assoc. rewrite from_string_dot by (try apply sg_plain; try apply digits_plain; assumption).
  unfold fx_core. rewrite r0_lit; [|exact HA|exact Hsg|].
  2:{ intro Hw. specialize (Hfit Hw). rewrite LV in Hfit. unfold fits in Hfit. nia. }
  cbv beta iota. rewrite r1_lit by exact HB. f_equal. unfold fin, signed. destruct wide; cbn [wr].
  - rewrite LV. reflexivity.
  - specialize (Hfit eq_refl). rewrite LV in *. unfold fits in Hfit.
    assert (F1 : fits (val A * M)) by (unfold fits; nia). assert (F2 : fits (val (fracpart places B))) by (unfold fits; unfold mult in *; lia).
    rewrite (swrap_small _ F1), (swrap_small _ F2). rewrite (swrap_small (val A * M + val (fracpart places B))) by exact Hfit.
    destruct (negsg sg); [|reflexivity]. apply swrap_small. unfold fits. lia.
Qed.
Theorem literal_integer (wide : bool) sg A : Forall digitc A -> A <> [] -> sign_ok sg A ->
  (wide = false -> fits (val A * M)) ->
  fx_from_string places wide (sg ++ A) = POk (if wide then clamp128 (signed sg (val A * M)) else signed sg (val A * M)).
Proof.
  intros HA Hne Hsg Hfit. pose proof (M_range places Hp) as HM. pose proof (val_range A HA) as VA.
  rewrite from_string_nodot; [|intro E; apply app_eq_nil in E; destruct E; contradiction|apply sg_plain; assumption].
  unfold fx_core. rewrite r0_lit; [|exact HA|exact Hsg|].
  2:{ intro Hw. specialize (Hfit Hw). unfold fits in Hfit. nia. }
  cbv beta iota. cbn [r1_of]. f_equal. unfold fin, signed. destruct wide; cbn [wr]; [reflexivity|].
  specialize (Hfit eq_refl). rewrite (swrap_small _ Hfit). destruct (negsg sg); [|reflexivity]. apply swrap_small. unfold fits in *. lia.
Qed.
End Lit.
