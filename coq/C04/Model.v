(* C04 — executable model, on byte lists, of f64/f128 String, StringWithSign, Comma, CommaWithSign, FromString, of
   txt.Unquote and txt.CommaFromStringNum, and of the integer side of CheckedAs (C03). strconv.FormatInt / ParseInt and
   big.Int String / SetString(.,10) are re-implemented (decimal digits, int64 range error); the exponent detour of FromString
   (strings containing E or e go through strconv.ParseFloat) answers PUnmodelled. No proofs in this file. *)
From Coq Require Import ZArith List Bool.
From Verif Require Import common.Word64 C03.Model.
Import ListNotations.
Open Scope Z_scope.

Definition bytes := list Z.

(* decimal printing of a non-negative number; fuel 45 covers 10^45 > 2^128 *)
Fixpoint digits_aux (fuel : nat) (n : Z) (acc : bytes) : bytes :=
  match fuel with O => acc | S f => if n <? 10 then (48 + n) :: acc else digits_aux f (n / 10) ((48 + n mod 10) :: acc) end.
Definition udec (n : Z) : bytes := digits_aux 45 n [].
Definition sdec (n : Z) : bytes := if n <? 0 then 45 :: udec (- n) else udec n.

Definition is_digit (c : Z) : bool := (48 <=? c) && (c <=? 57).
Fixpoint pdigits (s : bytes) (acc : Z) : option Z :=
  match s with [] => Some acc | c :: s' => if is_digit c then pdigits s' (acc * 10 + (c - 48)) else None end.
(* optional sign, at least one digit; range check by the caller *)
Definition parse_signed (s : bytes) : option Z :=
  let '(neg, body) := match s with c :: r => if c =? 45 then (true, r) else if c =? 43 then (false, r) else (false, s) | [] => (false, s) end in
  match body with
  | [] => None
  | _ => match pdigits body 0 with None => None | Some v => Some (if neg then - v else v) end
  end.
Definition parseInt64 (s : bytes) : option Z :=                      (* strconv.ParseInt(s, 10, 64) *)
  match parse_signed s with Some v => if (- SIGN <=? v) && (v <? SIGN) then Some v else None | None => None end.

Fixpoint beq (a b : bytes) : bool := match a, b with [], [] => true | x :: a', y :: b' => (x =? y) && beq a' b' | _, _ => false end.
Fixpoint split_dot (s : bytes) (acc : bytes) : bytes * option bytes :=
  match s with [] => (rev acc, None) | c :: r => if c =? 46 then (rev acc, Some r) else split_dot r (c :: acc) end.
Fixpoint strip_trailing_zeros_rev (r : bytes) : bytes := match r with c :: r' => if c =? 48 then strip_trailing_zeros_rev r' else r | [] => [] end.
Definition head_is (c : Z) (s : bytes) : bool := match s with x :: _ => x =? c | [] => false end.

Inductive pres := POk (v : Z) | PErr | PUnmodelled.

Section D.
Variable places : nat.
Definition mult : Z := 10 ^ Z.of_nat places.

(* String(): integer part, then the fraction printed as 1dddd with the leading 1 and the trailing zeros cut off *)
Definition fx_string (v : Z) : bytes :=
  let integer := Z.quot v mult in let fraction := Z.rem v mult in
  if fraction =? 0 then sdec integer
  else
    let fraction := Z.abs fraction + mult in
    let fStr := udec fraction in
    let body := match fStr with _ :: t => rev (strip_trailing_zeros_rev (rev t)) | [] => [] end in
    (if (integer =? 0) && (v <? 0) then [45] else []) ++ sdec integer ++ [46] ++ body.
Definition fx_string_with_sign (v : Z) : bytes := if 0 <=? v then 43 :: fx_string v else fx_string v.

(* FromString; wide = false: f64 (ParseInt range error, int64 wrap); wide = true: f128 (big.Int, then saturation) *)
Definition clamp128 (v : Z) : Z := if v <? - P127 then - P127 else if P127 <=? v then P127 - 1 else v.
Definition fx_from_string (wide : bool) (str : bytes) : pres :=
  match str with [] => PErr | _ =>
  let str := filter (fun c => negb (c =? 44)) str in
  if existsb (fun c => (c =? 69) || (c =? 101)) str then PUnmodelled else
  let '(p0, p1) := split_dot str [] in
  let w x := if wide then x else swrap x in
  let r0 : option (bool * Z) :=
    match p0 with
    | [] => Some (false, 0)
    | _ => if beq p0 [45] || beq p0 [45; 48] then Some (true, 0)
           else match (if wide then parse_signed p0 else parseInt64 p0) with
                | None => None
                | Some v => let '(neg, v) := if (v <? 0) || head_is 45 p0 then (true, w (- v)) else (false, v) in Some (neg, w (v * mult))
                end
    end in
  match r0 with
  | None => PErr
  | Some (neg, value) =>
    let r1 : option Z :=
      match p1 with
      | None => Some value
      | Some fr =>
        let cutoff := S places in
        let buf := 49 :: fr in
        let buf := buf ++ repeat 48 (cutoff - length buf) in
        let frac := firstn cutoff buf in
        match (if wide then parse_signed frac else parseInt64 frac) with None => None | Some f => Some (w (value + w (f - mult))) end
      end in
    match r1 with None => PErr | Some value => POk (if wide then clamp128 (if neg then - value else value) else (if neg then swrap (- value) else value)) end
  end end.
End D.

(* txt.Unquote: strips one pair of surrounding double quotes from a text of length > 1 *)
Definition unquote (s : bytes) : bytes :=
  match s with
  | q :: ((_ :: _) as r) => if q =? 34 then match rev r with l :: m => if l =? 34 then rev m else s | [] => s end else s
  | _ => s
  end.

(* txt.CommaFromStringNum *)
Fixpoint group3 (s : bytes) (n : nat) : bytes :=       (* s has a multiple of 3 digits left, n = number of groups; a comma before each *)
  match n, s with
  | S n', a :: b :: c :: r => 44 :: a :: b :: c :: group3 r n'
  | _, _ => []
  end.
Definition comma_int (digits : bytes) : bytes :=
  let len := length digits in let first := (len mod 3)%nat in
  let head := firstn first digits in let rest := skipn first digits in
  let g := group3 rest (length rest / 3) in
  match head with [] => (match g with _ :: t => t | [] => [] end) | _ => head ++ g end.
Fixpoint split_all_dots (s : bytes) (cur : bytes) : list bytes :=
  match s with [] => [rev cur] | c :: r => if c =? 46 then rev cur :: split_all_dots r [] else split_all_dots r (c :: cur) end.
Definition comma_from_string_num (s : bytes) : bytes :=
  let '(sign, s) := match s with c :: r => if c =? 45 then ([45], r) else ([], s) | [] => ([], s) end in
  match split_all_dots s [] with
  | p0 :: rest => sign ++ comma_int p0 ++ (match rest with p1 :: _ => 46 :: p1 | [] => [] end)
  | [] => sign
  end.
