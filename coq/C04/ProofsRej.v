(* C04 — rejection: the numeral parsers FromString rests on accept only well-formed numerals, for ALL byte strings *)
From Coq Require Import ZArith List Bool Lia.
From Verif Require Import common.Word64 C03.Model C04.Model.
Import ListNotations.
Open Scope Z_scope.

Lemma pdigits_only_digits : forall s acc n, pdigits s acc = Some n -> forall c, In c s -> is_digit c = true.
Proof.
  induction s as [|x s IH]; intros acc n H c Hin; [destruct Hin|].
  cbn [pdigits] in H. destruct (is_digit x) eqn:Ex; [|discriminate].
  destruct Hin as [->|Hin]; [exact Ex|]. eapply IH; eassumption.
Qed.

Lemma pdigits_nonneg : forall s acc n, 0 <= acc -> pdigits s acc = Some n -> acc <= n.
Proof.
  induction s as [|x s IH]; intros acc n Ha H; cbn [pdigits] in H.
  - injection H as <-. lia.
  - destruct (is_digit x) eqn:Ex; [|discriminate]. unfold is_digit in Ex. apply andb_prop in Ex. destruct Ex as [E1 E2].
    apply Z.leb_le in E1. apply Z.leb_le in E2. apply IH in H; lia.
Qed.

(* accepted => non-empty, an optional single leading sign, then at least one byte, all of them decimal digits;
   the value is negative only under a minus sign *)
Lemma parse_signed_shape s v : parse_signed s = Some v ->
  exists body, body <> [] /\ (forall c, In c body -> is_digit c = true) /\
    ((s = 45 :: body /\ v <= 0) \/ (s = 43 :: body /\ 0 <= v) \/ (s = body /\ 0 <= v)).
Proof.
  unfold parse_signed. intro H.
  assert (G : forall neg body, match body with [] => None | _ => match pdigits body 0 with None => None | Some w => Some (if neg : bool then - w else w) end end = Some v ->
    body <> [] /\ (forall c, In c body -> is_digit c = true) /\ (if neg then v <= 0 else 0 <= v)).
  { intros neg body G. destruct body as [|b body]; [discriminate|]. split; [discriminate|].
    destruct (pdigits (b :: body) 0) as [w|] eqn:Ep; [|discriminate]. injection G as <-.
    split; [eapply pdigits_only_digits; exact Ep|]. apply pdigits_nonneg in Ep; [|lia]. destruct neg; lia. }
  destruct s as [|c r].
  - discriminate.
  - destruct (c =? 45) eqn:E45.
    + apply Z.eqb_eq in E45. subst c. apply (G true) in H. destruct H as (H1 & H2 & H3). exists r. split; [exact H1|]. split; [exact H2|]. left. auto.
    + destruct (c =? 43) eqn:E43.
      * apply Z.eqb_eq in E43. subst c. apply (G false) in H. destruct H as (H1 & H2 & H3). exists r. split; [exact H1|]. split; [exact H2|]. right. left. auto.
      * apply (G false (c :: r)) in H. destruct H as (H1 & H2 & H3). exists (c :: r). split; [exact H1|]. split; [exact H2|]. right. right. auto.
Qed.

Lemma parseInt64_shape s v : parseInt64 s = Some v ->
  parse_signed s = Some v /\ - SIGN <= v < SIGN.
Proof.
  unfold parseInt64. destruct (parse_signed s) as [w|]; [|discriminate].
  destruct ((- SIGN <=? w) && (w <? SIGN)) eqn:E; [|discriminate]. intro H. injection H as <-.
  apply andb_prop in E. destruct E as [E1 E2]. apply Z.leb_le in E1. apply Z.ltb_lt in E2. auto.
Qed.

(* any byte outside 0-9 after the optional sign, and an empty numeral, are rejected *)
Lemma parse_signed_rejects s c : In c (tl s) -> is_digit c = false -> parse_signed s = None.
Proof.
  intros Hin Hc. destruct (parse_signed s) as [v|] eqn:E; [|reflexivity]. exfalso.
  destruct (parse_signed_shape s v E) as (body & Hne & Hd & [[-> _]|[[-> _]| [-> _]]]); cbn [tl] in Hin.
  - rewrite (Hd c Hin) in Hc. discriminate.
  - rewrite (Hd c Hin) in Hc. discriminate.
  - destruct body as [|b body]; [destruct Hin|]. cbn [tl] in Hin. rewrite (Hd c (or_intror Hin)) in Hc. discriminate.
Qed.
Lemma beq_eq : forall a b, beq a b = true -> a = b.
Proof.
  induction a as [|x a IH]; intros [|y b] H; cbn [beq] in H; try discriminate; [reflexivity|].
  apply andb_prop in H. destruct H as [H1 H2]. apply Z.eqb_eq in H1. subst y. f_equal. apply IH. exact H2.
Qed.

(* whatever FromString accepts has, before its first '.', (after removal of the thousands separators) nothing, a lone '-',
   or a well-formed numeral; and an accepted fraction has decimal digits in its first D places *)
Lemma from_string_accepts_shape places wide str v : fx_from_string places wide str = POk v ->
  let s := filter (fun c => negb (c =? 44)) str in
  str <> [] /\ existsb (fun c => (c =? 69) || (c =? 101)) s = false /\
  let p0 := fst (split_dot s []) in
  (p0 = [] \/ p0 = [45] \/ exists w, parse_signed p0 = Some w) /\
  (forall fr, snd (split_dot s []) = Some fr ->
     exists f, parse_signed (firstn (S places) ((49 :: fr) ++ repeat 48 (S places - length (49 :: fr)))) = Some f).
Proof.
  unfold fx_from_string. destruct str as [|c0 str0]; [discriminate|]. set (str := c0 :: str0).
  set (s := filter (fun c => negb (c =? 44)) str). cbv zeta.
  destruct (existsb (fun c => (c =? 69) || (c =? 101)) s) eqn:Ee; [discriminate|].
  destruct (split_dot s []) as [p0 p1] eqn:Es. cbn [fst snd].
  intro H. split; [discriminate|]. split; [reflexivity|].
  split.
  - destruct p0 as [|b p0']; [left; reflexivity|]. right.
    destruct (beq (b :: p0') [45] || beq (b :: p0') [45; 48]) eqn:Eb.
    + apply orb_prop in Eb. destruct Eb as [Eb|Eb]; apply beq_eq in Eb; rewrite Eb; [left; reflexivity|right; exists 0; reflexivity].
    + right. destruct wide.
      * destruct (parse_signed (b :: p0')) as [w|]; [exists w; reflexivity|discriminate].
      * destruct (parseInt64 (b :: p0')) as [w|] eqn:Ep; [|discriminate]. exists w. apply parseInt64_shape in Ep. apply Ep.
  - intros fr ->.
    match type of H with match ?R0 with _ => _ end = _ => destruct R0 as [[neg value]|]; [|discriminate] end.
    destruct wide.
    + match type of H with context [parse_signed ?X] => destruct (parse_signed X) as [f|] eqn:Ef; [|discriminate] end.
      exists f. reflexivity.
    + match type of H with context [parseInt64 ?X] => destruct (parseInt64 X) as [f|] eqn:Ef; [|discriminate] end.
      exists f. apply parseInt64_shape in Ef. apply Ef.
Qed.
