(* C04 — rejection: the numeral parsers FromString rests on accept only well-formed numerals, for ALL byte strings *)
From Coq Require Import ZArith List Bool Lia.
From Verif Require Import common.Word64 C03.Model C04.Model.
Import ListNotations.
Open Scope Z_scope.

Lemma pdigits_only_digits : forall s acc n, pdigits s acc = Some n -> forall c, In c s -> is_digit c = true.
Proof.
  induction s as [|x s IH]; intros acc n H c Hin; [destruct Hin|].
  cbn [pdigits] in H. destruct (is_digit x) eqn:Ex; [|discriminate].
  destruct Hin as [->|Hin]; [exact Ex|]. eapply IH; eassumption.
Qed.

Lemma pdigits_nonneg : forall s acc n, 0 <= acc -> pdigits s acc = Some n -> acc <= n.
Proof.
  induction s as [|x s IH]; intros acc n Ha H; cbn [pdigits] in H.
  - injection H as <-. lia.
  - destruct (is_digit x) eqn:Ex; [|discriminate]. unfold is_digit in Ex. apply andb_prop in Ex. destruct Ex as [E1 E2].
    apply Z.leb_le in E1. apply Z.leb_le in E2. apply IH in H; lia.
Qed.

(* accepted => non-empty, an optional single leading sign, then at least one byte, all of them decimal digits;
   the value is negative only under a minus sign *)
Lemma parse_signed_shape s v : parse_signed s = Some v ->
  exists body, body <> [] /\ (forall c, In c body -> is_digit c = true) /\
    ((s = 45 :: body /\ v <= 0) \/ (s = 43 :: body /\ 0 <= v) \/ (s = body /\ 0 <= v)).
Proof.
  unfold parse_signed. intro H.
  assert (G : forall neg body, match body with [] => None | _ => match pdigits body 0 with None => None | Some w => Some (if neg : bool then - w else w) end end = Some v ->
    body <> [] /\ (forall c, In c body -> is_digit c = true) /\ (if neg then v <= 0 else 0 <= v)).
  { intros neg body G. destruct body as [|b body]; [discriminate|]. split; [discriminate|].
    destruct (pdigits (b :: body) 0) as [w|] eqn:Ep; [|discriminate]. injection G as <-.
    split; [eapply pdigits_only_digits; exact Ep|]. apply pdigits_nonneg in Ep; [|lia]. destruct neg; lia. }
  destruct s as [|c r].
  - discriminate.
  - destruct (c =? 45) eqn:E45.
    + apply Z.eqb_eq in E45. subst c. apply (G true) in H. destruct H as (H1 & H2 & H3). exists r. split; [exact H1|]. split; [exact H2|]. left. auto.
    + destruct (c =? 43) eqn:E43.
      * apply Z.eqb_eq in E43. subst c. apply (G false) in H. destruct H as (H1 & H2 & H3). exists r. split; [exact H1|]. split; [exact H2|]. right. left. auto.
      * apply (G false (c :: r)) in H. destruct H as (H1 & H2 & H3). exists (c :: r). split; [exact H1|]. split; [exact H2|]. right. right. auto.
Qed.

Lemma parseInt64_shape s v : parseInt64 s = Some v ->
  parse_signed s = Some v /\ - SIGN <= v < SIGN.
Proof.
  unfold parseInt64. destruct (parse_signed s) as [w|]; [|discriminate].
  destruct ((- SIGN <=? w) && (w <? SIGN)) eqn:E; [|discriminate]. intro H. injection H as <-.
  apply andb_prop in E. destruct E as [E1 E2]. apply Z.leb_le in E1. apply Z.ltb_lt in E2. auto.
Qed.

(* any byte outside 0-9 after the optional sign, and an empty numeral, are rejected *)
Lemma parse_signed_rejects s c : In c (tl s) -> is_digit c = false -> parse_signed s = None.
Proof.
  intros Hin Hc. destruct (parse_signed s) as [v|] eqn:E; [|reflexivity]. exfalso.
  destruct (parse_signed_shape s v E) as (body & Hne & Hd & [[-> _]|[[-> _]| [-> _]]]); cbn [tl] in Hin.
  - rewrite (Hd c Hin) in Hc. discriminate.
  - rewrite (Hd c Hin) in Hc. discriminate.
  - destruct body as [|b body]; [destruct Hin|]. cbn [tl] in Hin. rewrite (Hd c (or_intror Hin)) in Hc. discriminate.
Qed.
