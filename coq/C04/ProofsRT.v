(* C04 — the round trip: FromString (String v) = v for every value and every configuration (1..16 places), f64 and f128 *)
From Coq Require Import ZArith List Bool Lia.
From Verif Require Import common.Word64 C03.Model C03.Proofs C04.Model C04.Proofs.
Import ListNotations.
Open Scope Z_scope.

(* ---------- characters ---------- *)
Definition digitc (c : Z) : Prop := 48 <= c <= 57.
Definition plainc (c : Z) : Prop := c <> 44 /\ c <> 46 /\ c <> 69 /\ c <> 101.
Definition plain (s : bytes) : Prop := Forall plainc s.
Lemma digit_plain c : digitc c -> plainc c. Proof. unfold digitc, plainc. lia. Qed.
Lemma digits_plain s : Forall digitc s -> plain s.
Proof. intro H. eapply Forall_impl; [|exact H]. exact digit_plain. Qed.

Lemma digits_aux_all f : forall n acc, 0 <= n -> Forall digitc acc -> Forall digitc (digits_aux f n acc).
Proof.
  induction f as [|f IH]; intros n acc Hn Ha; cbn [digits_aux]; [exact Ha|]. destruct (Z.ltb_spec n 10).
  - constructor; [unfold digitc; lia|exact Ha].
  - apply IH; [apply Z.div_pos; lia|]. constructor; [|exact Ha]. pose proof (Z.mod_pos_bound n 10 ltac:(lia)). unfold digitc. lia.
Qed.
Lemma udec_all n : 0 <= n -> Forall digitc (udec n).
Proof. intro H. apply digits_aux_all; [exact H|constructor]. Qed.
Lemma sdec_plain n : plain (sdec n).
Proof.
  unfold sdec. destruct (Z.ltb_spec n 0).
  - constructor; [unfold plainc; lia|]. apply digits_plain, udec_all. lia.
  - apply digits_plain, udec_all. lia.
Qed.

Lemma filter_plain s : plain s -> filter (fun c => negb (c =? 44)) s = s.
Proof. intro H. apply filter_id. intros c Hc. unfold plain in H. rewrite Forall_forall in H. apply H in Hc. unfold plainc in Hc. lia. Qed.
Lemma existsb_plain s : plain s -> existsb (fun c => (c =? 69) || (c =? 101)) s = false.
Proof.
  induction 1 as [|c s Hc Hs IH]; [reflexivity|]. cbn [existsb]. rewrite IH. unfold plainc in Hc.
  rewrite (proj2 (Z.eqb_neq c 69)), (proj2 (Z.eqb_neq c 101)) by lia. reflexivity.
Qed.
Lemma split_dot_none A : forall acc, plain A -> split_dot A acc = (rev acc ++ A, None).
Proof.
  induction A as [|c A IH]; intros acc H; cbn [split_dot]; [now rewrite app_nil_r|]. inversion H as [|? ? Hc HA]; subst. unfold plainc in Hc.
  rewrite (proj2 (Z.eqb_neq c 46)) by lia. rewrite IH by exact HA. cbn [rev]. rewrite <- app_assoc. reflexivity.
Qed.
Lemma split_dot_some A B : forall acc, plain A -> split_dot (A ++ 46 :: B) acc = (rev acc ++ A, Some B).
Proof.
  induction A as [|c A IH]; intros acc H; cbn [split_dot app]; [rewrite Z.eqb_refl, app_nil_r; reflexivity|]. inversion H as [|? ? Hc HA]; subst. unfold plainc in Hc.
  rewrite (proj2 (Z.eqb_neq c 46)) by lia. rewrite IH by exact HA. cbn [rev]. rewrite <- app_assoc. reflexivity.
Qed.

(* ---------- the parser after the split, as named parts (definitionally the body of fx_from_string) ---------- *)
Section Core.
Variable places : nat.
Definition wr (wide : bool) (x : Z) := if wide then x else swrap x.
Definition r0_of (wide : bool) (p0 : bytes) : option (bool * Z) :=
  match p0 with
  | [] => Some (false, 0)
  | _ => if beq p0 [45] || beq p0 [45; 48] then Some (true, 0)
         else match (if wide then parse_signed p0 else parseInt64 p0) with
              | None => None
              | Some v => let '(neg, v) := if (v <? 0) || head_is 45 p0 then (true, wr wide (- v)) else (false, v) in Some (neg, wr wide (v * mult places))
              end
  end.
Definition r1_of (wide : bool) (value : Z) (p1 : option bytes) : option Z :=
  match p1 with
  | None => Some value
  | Some fr =>
    let cutoff := S places in
    let buf := 49 :: fr in
    let buf := buf ++ repeat 48 (cutoff - length buf) in
    let frac := firstn cutoff buf in
    match (if wide then parse_signed frac else parseInt64 frac) with None => None | Some f => Some (wr wide (value + wr wide (f - mult places))) end
  end.
Definition fin (wide neg : bool) (value : Z) : Z := if wide then clamp128 (if neg then - value else value) else (if neg then swrap (- value) else value).
Definition fx_core (wide : bool) (p0 : bytes) (p1 : option bytes) : pres :=
  match r0_of wide p0 with
  | None => PErr
  | Some (neg, value) => match r1_of wide value p1 with None => PErr | Some value => POk (fin wide neg value) end
  end.
Lemma from_string_dot wide A B : plain A -> plain B -> fx_from_string places wide (A ++ 46 :: B) = fx_core wide A (Some B).
Proof.
  intros HA HB. unfold fx_from_string. destruct (A ++ 46 :: B) as [|c0 r0] eqn:E; [destruct A; discriminate|]. rewrite <- E.
  assert (P : plain (A ++ B)) by (apply Forall_app; split; assumption).
  assert (F : filter (fun c => negb (c =? 44)) (A ++ 46 :: B) = A ++ 46 :: B).
  { rewrite filter_app. cbn [filter]. change (46 =? 44) with false. cbn [negb]. rewrite !filter_plain by assumption. reflexivity. }
  rewrite F. assert (X : existsb (fun c => (c =? 69) || (c =? 101)) (A ++ 46 :: B) = false).
  { rewrite existsb_app. cbn [existsb]. rewrite !existsb_plain by assumption. reflexivity. }
  rewrite X. rewrite split_dot_some by exact HA. cbn [rev app]. reflexivity.
Qed.
Lemma from_string_nodot wide A : A <> [] -> plain A -> fx_from_string places wide A = fx_core wide A None.
Proof.
  intros Hne HA. unfold fx_from_string. destruct A as [|c0 r0] eqn:E; [congruence|]. rewrite <- E in *.
  rewrite filter_plain, existsb_plain by exact HA. rewrite split_dot_none by exact HA. cbn [rev app]. reflexivity.
Qed.
End Core.

(* ---------- shape of the printed fraction ---------- *)
Lemma digits_shape k : forall f n acc, (k < f)%nat -> 10 ^ Z.of_nat k <= n < 2 * 10 ^ Z.of_nat k ->
  exists t, digits_aux f n acc = 49 :: t ++ acc /\ length t = k.
Proof.
  induction k as [|k IH]; intros f n acc Hf Hn; (destruct f as [|f]; [lia|]); cbn [digits_aux].
  - change (10 ^ Z.of_nat 0) with 1 in Hn. assert (n = 1) by lia. subst n. exists []. split; reflexivity.
  - rewrite Nat2Z.inj_succ, Z.pow_succ_r in Hn by lia. assert (0 < 10 ^ Z.of_nat k) by (apply Z.pow_pos_nonneg; lia).
    destruct (Z.ltb_spec n 10); [lia|].
    destruct (IH f (n / 10) ((48 + n mod 10) :: acc) ltac:(lia)) as (t & E & L).
    { split; [apply Z.div_le_lower_bound; lia|apply Z.div_lt_upper_bound; lia]. }
    exists (t ++ [48 + n mod 10]). split; [rewrite E, <- app_assoc; reflexivity|rewrite app_length, L; cbn; lia].
Qed.
Lemma rev_repeat (x : Z) k : rev (repeat x k) = repeat x k.
Proof. induction k as [|k IH]; [reflexivity|]. cbn [repeat rev]. rewrite IH. symmetry. apply repeat_cons. Qed.
Lemma strip_shape r : exists k, r = repeat 48 k ++ strip_trailing_zeros_rev r.
Proof.
  induction r as [|c r IH]; [exists 0%nat; reflexivity|]. cbn [strip_trailing_zeros_rev]. destruct (Z.eqb_spec c 48) as [->|N].
  - destruct IH as [k E]. exists (S k). cbn [repeat app]. f_equal. exact E.
  - exists 0%nat. reflexivity.
Qed.
Lemma body_shape t : exists k, t = rev (strip_trailing_zeros_rev (rev t)) ++ repeat 48 k.
Proof. destruct (strip_shape (rev t)) as [k E]. exists k. rewrite <- (rev_involutive t) at 1. rewrite E at 1. rewrite rev_app_distr, rev_repeat. reflexivity. Qed.
Lemma strip_incl r : incl (strip_trailing_zeros_rev r) r.
Proof. induction r as [|c r IH]; [apply incl_refl|]. cbn [strip_trailing_zeros_rev]. destruct (c =? 48); [apply incl_tl; exact IH|apply incl_refl]. Qed.

(* modular reasoning about the int64 wrap *)
Lemma swrap_eqm x : exists k, swrap x = x + k * W.
Proof. unfold swrap. pose proof (Z.div_mod x W ltac:(lia)). destruct (Z.leb_spec SIGN (x mod W)); [exists (- (x / W) - 1)|exists (- (x / W))]; lia. Qed.
Lemma swrap_unique x y : fits y -> (exists k, x = y + k * W) -> swrap x = y.
Proof.
  intros Hy [k E]. subst x. unfold swrap. rewrite Z.mod_add by lia. unfold fits in Hy. pose proof (Z.mod_pos_bound y W ltac:(lia)).
  destruct (Z_lt_le_dec y 0).
  - assert (y mod W = y + W) by (symmetry; apply (Z.mod_unique_pos y W (-1)); lia). destruct (Z.leb_spec SIGN (y mod W)); lia.
  - rewrite Z.mod_small by lia. destruct (Z.leb_spec SIGN y); lia.
Qed.

Lemma pow45 : 10 ^ 45 = 1000000000000000000000000000000000000000000000. Proof. reflexivity. Qed.
Lemma parse_signed_udec n : 0 <= n < 10 ^ 45 -> parse_signed (udec n) = Some n.
Proof. intros H. pose proof (parse_print_signed n ltac:(lia)) as P. unfold sdec in P. destruct (Z.ltb_spec n 0); [lia|exact P]. Qed.
Lemma udec_not_zero n : 0 < n < 10 ^ 45 -> udec n <> [48].
Proof. intros H E. pose proof (parse_print_nonneg n ltac:(lia)) as P. rewrite E in P. cbn in P. injection P. lia. Qed.
Lemma head_digit_not s c : (exists d r, s = d :: r /\ 48 <= d <= 57) -> c < 48 -> head_is c s = false.
Proof. intros (d & r & -> & Hd) Hc. cbn. apply Z.eqb_neq. lia. Qed.
Lemma beq_head_false s d r x y : s = d :: r -> d <> x -> beq s (x :: y) = false.
Proof. intros -> H. cbn. rewrite (proj2 (Z.eqb_neq d x) H). reflexivity. Qed.

Section RT.
Variable places : nat.
Hypothesis Hp : (1 <= places <= 16)%nat.
Notation M := (mult places).
Lemma M_range : 10 <= M <= 10000000000000000.
Proof.
  unfold mult. split.
  - change 10 with (10 ^ 1) at 1. apply Z.pow_le_mono_r; lia.
  - change 10000000000000000 with (10 ^ 16). apply Z.pow_le_mono_r; lia.
Qed.

(* the integer part, optionally preceded by the '+' of the *WithSign forms *)
Definition pre_ok (pre : bytes) (I : Z) : Prop := pre = [] \/ (pre = [43] /\ 0 <= I).
Lemma r0_int (wide : bool) pre I : pre_ok pre I -> (if wide return Prop then - P127 <= I <= P127 else fits I) ->
  r0_of places wide (pre ++ sdec I) = Some (I <? 0, wr wide ((if I <? 0 then wr wide (- I) else I) * M)).
Proof.
  intros Hpre HI. pose proof pow45 as P45.
  assert (B : - 10 ^ 45 < I < 10 ^ 45) by (destruct wide; unfold fits in *; lia).
  pose proof (parse_print_signed I B) as PS.
  unfold r0_of. unfold sdec in *. destruct (Z.ltb_spec I 0) as [Hn|Hn].
  - destruct Hpre as [->|[_ ?]]; [|lia]. cbn [app].
    destruct (udec_head (- I) ltac:(lia)) as (d & r & E & Hd). rewrite E in *.
    assert (B1 : beq (45 :: d :: r) [45] = false) by reflexivity.
    assert (B2 : beq (45 :: d :: r) [45; 48] = false).
    { cbn. destruct (Z.eqb_spec d 48) as [->|]; [|reflexivity]. destruct r; [|reflexivity]. exfalso. apply (udec_not_zero (- I)); [lia|exact E]. }
    rewrite B1, B2. cbn [orb].
    assert (PP : (if wide then parse_signed (45 :: d :: r) else parseInt64 (45 :: d :: r)) = Some I).
    { destruct wide; [exact PS|]. unfold parseInt64. rewrite PS. unfold fits in HI. destruct (Z.leb_spec (- SIGN) I), (Z.ltb_spec I SIGN); cbn [andb]; try reflexivity; lia. }
    rewrite PP. rewrite (proj2 (Z.ltb_lt I 0) Hn). cbn [orb]. reflexivity.
  - destruct (udec_head I Hn) as (d & r & E & Hd). rewrite E in *.
    assert (PS' : parse_signed (pre ++ d :: r) = Some I).
    { destruct Hpre as [->|[-> _]]; [exact PS|]. cbn [app]. unfold parse_signed in *. change (43 =? 45) with false. change (43 =? 43) with true. cbv iota.
      rewrite (proj2 (Z.eqb_neq d 45)), (proj2 (Z.eqb_neq d 43)) in PS by lia. exact PS. }
    assert (exists x y, pre ++ d :: r = x :: y /\ x <> 45) as (x & y & Ex & Hx) by (destruct Hpre as [->|[-> _]]; [exists d, r|exists 43, (d :: r)]; split; try reflexivity; lia).
    rewrite Ex in *.
    rewrite (beq_head_false (x :: y) x y 45 [] eq_refl Hx), (beq_head_false (x :: y) x y 45 [48] eq_refl Hx). cbn [orb].
    assert (PP : (if wide then parse_signed (x :: y) else parseInt64 (x :: y)) = Some I).
    { destruct wide; [exact PS'|]. unfold parseInt64. rewrite PS'. unfold fits in HI. destruct (Z.leb_spec (- SIGN) I), (Z.ltb_spec I SIGN); cbn [andb]; try reflexivity; lia. }
    rewrite PP. rewrite (proj2 (Z.ltb_ge I 0) Hn). cbn [orb head_is]. rewrite (proj2 (Z.eqb_neq x 45) Hx). reflexivity.
Qed.

(* the fraction: F = |fraction|, 0 < F < M *)
Lemma r1_frac wide value F : 0 < F < M ->
  let fStr := udec (F + M) in
  let body := match fStr with _ :: t => rev (strip_trailing_zeros_rev (rev t)) | [] => [] end in
  plain body /\ r1_of places wide value (Some body) = Some (wr wide (value + wr wide F)).
Proof.
  intros HF. pose proof M_range as HM. pose proof pow45 as P45. cbv zeta.
  destruct (digits_shape places 45 (F + M) [] ltac:(lia)) as (t & E & L); [unfold mult in *; lia|]. rewrite app_nil_r in E.
  unfold udec. rewrite E. destruct (body_shape t) as [k Ek]. set (body := rev (strip_trailing_zeros_rev (rev t))) in *.
  assert (Lb : (length body + k = places)%nat). { pose proof (f_equal (@length Z) Ek) as Q. rewrite app_length, repeat_length, L in Q. lia. }
  assert (Dt : Forall digitc (49 :: t)) by (rewrite <- E; apply digits_aux_all; [lia|constructor]).
  split.
  - apply digits_plain. pose proof (Forall_inv_tail Dt) as Dt'. rewrite Forall_forall in *. intros c Hc. apply Dt'. rewrite Ek. apply in_or_app. left. exact Hc.
  - unfold r1_of. cbv zeta. cbn [length]. replace (S places - S (length body))%nat with k by lia.
    change ((49 :: body) ++ repeat 48 k) with (49 :: (body ++ repeat 48 k)). rewrite <- Ek.
    rewrite firstn_all2 by (cbn [length]; lia). rewrite <- E. fold (udec (F + M)).
    assert (PS : parse_signed (udec (F + M)) = Some (F + M)) by (apply parse_signed_udec; lia).
    assert (PP : (if wide then parse_signed (udec (F + M)) else parseInt64 (udec (F + M))) = Some (F + M)).
    { destruct wide; [exact PS|]. unfold parseInt64. rewrite PS. destruct (Z.leb_spec (- SIGN) (F + M)), (Z.ltb_spec (F + M) SIGN); cbn [andb]; try reflexivity; lia. }
    rewrite PP. replace (F + M - M) with F by lia. reflexivity.
Qed.
End RT.

Ltac wrapk := repeat match goal with |- context [swrap ?x] =>
  lazymatch x with context [swrap _] => fail | _ => let k := fresh "k" in let E := fresh "E" in destruct (swrap_eqm x) as [k E]; rewrite E; clear E end end.

Section RT2.
Variable places : nat.
Hypothesis Hp : (1 <= places <= 16)%nat.
Notation M := (mult places).

Definition fitsw (wide : bool) (v : Z) : Prop := if wide then - P127 <= v < P127 else fits v.

Lemma clamp_id v : - P127 <= v < P127 -> clamp128 v = v.
Proof. intro H. unfold clamp128. destruct (Z.ltb_spec v (- P127)); [lia|]. destruct (Z.leb_spec P127 v); [lia|reflexivity]. Qed.
Lemma sdec_ne I : sdec I <> [].
Proof. unfold sdec. destruct (Z.ltb_spec I 0); [discriminate|]. destruct (udec_head I ltac:(lia)) as (c & r & E & _). rewrite E. discriminate. Qed.

Theorem roundtrip_gen wide pre v : pre_ok pre v -> fitsw wide v -> fx_from_string places wide (pre ++ fx_string places v) = POk v.
Proof.
  intros Hpre Hv. assert (PP0 : plain pre) by (destruct Hpre as [->|[-> _]]; repeat constructor; unfold plainc; lia). pose proof (M_range places Hp) as HM.
  pose proof (Z.quot_rem' v M) as QR.
  assert (SG : (0 <= v -> 0 <= Z.quot v M /\ 0 <= Z.rem v M < M) /\ (v < 0 -> Z.quot v M <= 0 /\ - M < Z.rem v M <= 0)).
  { split; intro H.
    - split; [apply Z.quot_pos; lia|apply Z.rem_bound_pos; lia].
    - pose proof (Z.quot_pos (- v) M ltac:(lia) ltac:(lia)) as Q. pose proof (Z.rem_bound_pos (- v) M ltac:(lia) ltac:(lia)) as R.
      rewrite Z.quot_opp_l in Q by lia. rewrite Z.rem_opp_l in R by lia. lia. }
  destruct SG as [SP SN].
  assert (FI : fitsw wide (Z.quot v M) /\ (if wide return Prop then - P127 <= Z.quot v M <= P127 else fits (Z.quot v M))).
  { destruct (Z_le_gt_dec 0 v) as [P|N]; [specialize (SP P)|specialize (SN ltac:(lia))]; destruct wide; unfold fitsw, fits in *; nia. }
  destruct FI as [_ FI].
  unfold fx_string. set (I := Z.quot v M) in *. set (Fr := Z.rem v M) in *. clearbody I Fr.
  destruct (Z.eqb_spec Fr 0) as [F0|F0].
  - (* whole number *)
    assert (PI : pre_ok pre I) by (destruct Hpre as [->|[-> Q]]; [left; reflexivity|right; split; [reflexivity|apply SP; exact Q]]).
    rewrite from_string_nodot; [|intro E; apply app_eq_nil in E; destruct E as [_ E]; exact (sdec_ne I E)|apply Forall_app; split; [exact PP0|apply sdec_plain]].
    unfold fx_core. rewrite (r0_int places Hp wide pre I PI FI). cbv beta iota. cbn [r1_of]. f_equal.
    subst Fr. unfold fin. destruct (Z.ltb_spec I 0) as [In|Ip]; destruct wide; unfold wr, fitsw in *.
    + rewrite clamp_id by lia. lia.
    + apply swrap_unique; [exact Hv|]. wrapk. exists (- (k * M) - k0). lia.
    + rewrite clamp_id by lia. lia.
    + replace (I * M) with v by lia. apply swrap_small. exact Hv.
  - (* with a fraction *)
    assert (HF : 0 < Z.abs Fr < M) by (destruct (Z_le_gt_dec 0 v) as [P|N]; [specialize (SP P)|specialize (SN ltac:(lia))]; lia).
    destruct (r1_frac places Hp wide) with (F := Z.abs Fr) (value := 0) as [PB _]; [exact HF|]. cbv zeta in PB.
    set (body := match udec (Z.abs Fr + M) with _ :: t => rev (strip_trailing_zeros_rev (rev t)) | [] => [] end) in *.
    destruct ((I =? 0) && (v <? 0)) eqn:Eneg; cbv iota.
    + apply andb_true_iff in Eneg. destruct Eneg as [E1 E2]. apply Z.eqb_eq in E1. apply Z.ltb_lt in E2. subst I.
      destruct Hpre as [->|[_ ?]]; [|lia].
      change ([] ++ [45] ++ sdec 0 ++ [46] ++ body) with ([45; 48] ++ 46 :: body). rewrite from_string_dot; [|repeat constructor; unfold plainc; lia|exact PB].
      unfold fx_core. change (r0_of places wide [45; 48]) with (Some (true, 0)). cbv beta iota.
      pose proof (r1_frac places Hp wide 0 (Z.abs Fr) HF) as [_ R1]. cbv zeta in R1. fold body in R1. unfold bytes in *. rewrite R1. f_equal.
      specialize (SN E2). unfold fin. destruct wide; unfold wr, fitsw in *.
      * rewrite clamp_id by lia. lia.
      * apply swrap_unique; [exact Hv|]. wrapk. exists (- k - k0). lia.
    + change (pre ++ [] ++ sdec I ++ [46] ++ body) with (pre ++ sdec I ++ 46 :: body). rewrite app_assoc.
      assert (PI : pre_ok pre I).
      { destruct Hpre as [->|[-> Q]]; [left; reflexivity|right; split; [reflexivity|apply SP; exact Q]]. }
      rewrite from_string_dot; [|apply Forall_app; split; [exact PP0|apply sdec_plain]|exact PB].
      unfold fx_core. rewrite (r0_int places Hp wide pre I PI FI). cbv beta iota.
      pose proof (r1_frac places Hp wide (wr wide ((if I <? 0 then wr wide (- I) else I) * M)) (Z.abs Fr) HF) as [_ R1]. cbv zeta in R1. fold body in R1. unfold bytes in *. rewrite R1. f_equal.
      apply andb_false_iff in Eneg. unfold fin.
      destruct (Z.ltb_spec I 0) as [In|Ip].
      * assert (v < 0) by (destruct (Z_le_gt_dec 0 v) as [P|N]; [specialize (SP P); lia|lia]). specialize (SN H).
        destruct wide; unfold wr, fitsw in *.
        -- rewrite clamp_id by lia. lia.
        -- apply swrap_unique; [exact Hv|]. wrapk. exists (- (k * M) - k0 - k1 - k2). lia.
      * assert (0 <= v). { destruct Eneg as [E|E]; [apply Z.eqb_neq in E|apply Z.ltb_ge in E; exact E]. destruct (Z_le_gt_dec 0 v) as [P|N]; [exact P|specialize (SN ltac:(lia)); lia]. }
        specialize (SP H). destruct wide; unfold wr, fitsw in *.
        -- rewrite clamp_id by lia. lia.
        -- apply swrap_unique; [exact Hv|]. wrapk. exists (k + k0). lia.
Qed.
Theorem roundtrip wide v : fitsw wide v -> fx_from_string places wide (fx_string places v) = POk v.
Proof. intros H. apply (roundtrip_gen wide [] v); [left; reflexivity|exact H]. Qed.
Theorem roundtrip_with_sign wide v : fitsw wide v -> fx_from_string places wide (fx_string_with_sign places v) = POk v.
Proof.
  intros H. unfold fx_string_with_sign. destruct (Z.leb_spec 0 v); [|apply roundtrip; exact H].
  apply (roundtrip_gen wide [43] v); [right; split; [reflexivity|assumption]|exact H].
Qed.
End RT2.

(* ---------- Comma / CommaWithSign: FromString removes the separators first ---------- *)
Lemma filter_idem (s : bytes) : filter (fun c => negb (c =? 44)) (filter (fun c => negb (c =? 44)) s) = filter (fun c => negb (c =? 44)) s.
Proof. induction s as [|c s IH]; [reflexivity|]. cbn [filter]. destruct (negb (c =? 44)) eqn:E; [cbn [filter]; rewrite E; f_equal; exact IH|exact IH]. Qed.
Lemma from_string_filter places wide s : s <> [] -> filter (fun c => negb (c =? 44)) s <> [] ->
  fx_from_string places wide s = fx_from_string places wide (filter (fun c => negb (c =? 44)) s).
Proof.
  intros H1 H2. unfold fx_from_string. destruct s as [|c0 r0] eqn:E; [congruence|]. rewrite <- E in *.
  destruct (filter (fun c => negb (c =? 44)) s) as [|c1 r1] eqn:E1; [congruence|]. rewrite <- E1. rewrite filter_idem. reflexivity.
Qed.

Lemma split_all_plain A : forall cur, plain A -> split_all_dots A cur = [rev cur ++ A].
Proof.
  induction A as [|c A IH]; intros cur H; cbn [split_all_dots]; [now rewrite app_nil_r|]. inversion H as [|? ? Hc HA]; subst. unfold plainc in Hc.
  rewrite (proj2 (Z.eqb_neq c 46)) by lia. rewrite IH by exact HA. cbn [rev]. rewrite <- app_assoc. reflexivity.
Qed.
Lemma split_all_dot A B : forall cur, plain A -> plain B -> split_all_dots (A ++ 46 :: B) cur = [rev cur ++ A; B].
Proof.
  induction A as [|c A IH]; intros cur HA HB; cbn [split_all_dots app].
  - rewrite Z.eqb_refl, app_nil_r. rewrite split_all_plain by exact HB. reflexivity.
  - inversion HA as [|? ? Hc HA']; subst. unfold plainc in Hc. rewrite (proj2 (Z.eqb_neq c 46)) by lia. rewrite IH by assumption. cbn [rev]. rewrite <- app_assoc. reflexivity.
Qed.
Lemma plain_no44 s : plain s -> forall c, In c s -> c <> 44.
Proof. intros H c Hc. unfold plain in H. rewrite Forall_forall in H. apply H in Hc. unfold plainc in Hc. lia. Qed.

(* a printed number: optional '-', digits, optional '.' and more digits *)
Definition numeral (s : bytes) : Prop :=
  exists sg D tl, s = sg ++ D ++ tl /\ (sg = [] \/ sg = [45]) /\ Forall digitc D /\ D <> [] /\ (tl = [] \/ exists B, tl = 46 :: B /\ plain B).
Definition comma_body (sign s : bytes) : bytes :=
  match split_all_dots s [] with
  | p0 :: rest => sign ++ comma_int p0 ++ (match rest with p1 :: _ => 46 :: p1 | [] => [] end)
  | [] => sign
  end.
Theorem comma_strip s : numeral s -> filter (fun c => negb (c =? 44)) (comma_from_string_num s) = s.
Proof.
  intros (sg & D & tl & -> & Hsg & HD & HDne & Htl). pose proof (digits_plain D HD) as PD.
  assert (E : comma_from_string_num (sg ++ D ++ tl) = sg ++ comma_int D ++ tl).
  { assert (Bd : comma_body sg (D ++ tl) = sg ++ comma_int D ++ tl).
    { unfold comma_body. destruct Htl as [->|(B & -> & PB)].
      - rewrite app_nil_r, split_all_plain by exact PD. cbn [rev app]. rewrite app_nil_r. reflexivity.
      - rewrite split_all_dot by assumption. cbn [rev app]. reflexivity. }
    rewrite <- Bd. destruct D as [|d D']; [congruence|]. assert (Hd : 48 <= d <= 57) by (inversion HD; assumption).
    destruct Hsg as [->| ->]; unfold comma_from_string_num; cbn [app].
    - rewrite (proj2 (Z.eqb_neq d 45)) by lia. reflexivity.
    - change (45 =? 45) with true. reflexivity. }
  rewrite E, !filter_app. rewrite (comma_int_strip D (plain_no44 D PD)).
  assert (F1 : filter (fun c => negb (c =? 44)) sg = sg) by (destruct Hsg as [->| ->]; reflexivity).
  assert (F2 : filter (fun c => negb (c =? 44)) tl = tl).
  { destruct Htl as [->|(B & -> & PB)]; [reflexivity|]. cbn [filter]. change (46 =? 44) with false. cbn [negb]. rewrite filter_plain by exact PB. reflexivity. }
  rewrite F1, F2. reflexivity.
Qed.

Section RT3.
Variable places : nat.
Hypothesis Hp : (1 <= places <= 16)%nat.
Notation M := (mult places).
Lemma sdec_numeral_parts I : exists sg D, sdec I = sg ++ D /\ (sg = [] \/ sg = [45]) /\ Forall digitc D /\ D <> [].
Proof.
  unfold sdec. destruct (Z.ltb_spec I 0).
  - exists [45], (udec (- I)). split; [reflexivity|]. split; [right; reflexivity|]. split; [apply udec_all; lia|]. destruct (udec_head (- I) ltac:(lia)) as (c & r & E & _). rewrite E. discriminate.
  - exists [], (udec I). split; [reflexivity|]. split; [left; reflexivity|]. split; [apply udec_all; lia|]. destruct (udec_head I ltac:(lia)) as (c & r & E & _). rewrite E. discriminate.
Qed.
Lemma string_numeral v : numeral (fx_string places v).
Proof.
  pose proof (M_range places Hp) as HM. unfold fx_string. set (I := Z.quot v M). set (Fr := Z.rem v M).
  destruct (Z.eqb_spec Fr 0) as [F0|F0].
  - destruct (sdec_numeral_parts I) as (sg & D & E & Hsg & HD & Hne). exists sg, D, []. rewrite app_nil_r. repeat split; try assumption. left; reflexivity.
  - assert (HF : 0 < Z.abs Fr < M) by (pose proof (Z.rem_bound_abs v M ltac:(lia)); unfold Fr in *; lia).
    destruct (r1_frac places Hp false 0 (Z.abs Fr) HF) as [PB _]. cbv zeta in PB.
    set (body := match udec (Z.abs Fr + M) with _ :: t => rev (strip_trailing_zeros_rev (rev t)) | [] => [] end) in *.
    destruct ((I =? 0) && (v <? 0)) eqn:Eneg.
    + apply andb_true_iff in Eneg. destruct Eneg as [E1 _]. apply Z.eqb_eq in E1. rewrite E1.
      exists [45], [48], (46 :: body). split; [reflexivity|]. split; [right; reflexivity|]. split; [repeat constructor; unfold digitc; lia|]. split; [discriminate|]. right. exists body. split; [reflexivity|exact PB].
    + destruct (sdec_numeral_parts I) as (sg & D & E & Hsg & HD & Hne). exists sg, D, (46 :: body). split; [cbn [app]; rewrite E, <- app_assoc; reflexivity|].
      split; [exact Hsg|]. split; [exact HD|]. split; [exact Hne|]. right. exists body. split; [reflexivity|exact PB].
Qed.
Lemma numeral_ne s : numeral s -> s <> [].
Proof. intros (sg & D & tl & -> & _ & _ & Hne & _) E. apply app_eq_nil in E. destruct E as [_ E]. apply app_eq_nil in E. destruct E as [E _]. exact (Hne E). Qed.

Theorem roundtrip_comma wide v : fitsw wide v -> fx_from_string places wide (comma_from_string_num (fx_string places v)) = POk v.
Proof.
  intros H. pose proof (string_numeral v) as N. pose proof (comma_strip _ N) as C. pose proof (numeral_ne _ N) as Ne.
  rewrite from_string_filter; [rewrite C; apply (roundtrip places Hp); exact H| |rewrite C; exact Ne].
  intro E. rewrite E in C. cbn in C. congruence.
Qed.
Theorem roundtrip_comma_with_sign wide v : fitsw wide v -> 0 <= v -> fx_from_string places wide (43 :: comma_from_string_num (fx_string places v)) = POk v.
Proof.
  intros H Hv. pose proof (string_numeral v) as N. pose proof (comma_strip _ N) as C.
  rewrite from_string_filter; [|discriminate|].
  - cbn [filter]. change (43 =? 44) with false. cbn [negb]. rewrite C. apply (roundtrip_gen places Hp wide [43] v); [right; split; [reflexivity|exact Hv]|exact H].
  - cbn [filter]. change (43 =? 44) with false. cbn [negb]. discriminate.
Qed.
End RT3.
