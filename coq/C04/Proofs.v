(* C04 — lemmas: decimal printing and parsing are inverse, thousands separators only add commas, Unquote undoes quoting *)
From Coq Require Import ZArith List Bool Lia.
From Verif Require Import common.Word64 C03.Model C04.Model.
Import ListNotations.
Open Scope Z_scope.

Lemma is_digit_48 d : 0 <= d < 10 -> is_digit (48 + d) = true.
Proof. intros. unfold is_digit. apply andb_true_intro; split; [apply Z.leb_le|apply Z.leb_le]; lia. Qed.

Lemma pdigits_digits : forall f n acc a, 0 <= n < 10 ^ Z.of_nat f ->
  exists k, 0 <= k /\ pdigits (digits_aux f n acc) a = pdigits acc (a * 10 ^ k + n).
Proof.
  induction f as [|f IH]; intros n acc a Hn.
  - cbn in Hn. assert (n = 0) by lia. subst. exists 0. split; [lia|]. cbn. f_equal. lia.
  - cbn [digits_aux]. destruct (n <? 10) eqn:E.
    + apply Z.ltb_lt in E. exists 1. split; [lia|]. cbn [pdigits]. rewrite is_digit_48 by lia. f_equal. lia.
    + apply Z.ltb_ge in E.
      assert (Hd : 0 <= n / 10 < 10 ^ Z.of_nat f).
      { rewrite Nat2Z.inj_succ, Z.pow_succ_r in Hn by lia. split; [apply Z.div_pos; lia|]. apply Z.div_lt_upper_bound; lia. }
      destruct (IH (n / 10) ((48 + n mod 10) :: acc) a Hd) as (k & Hk & R).
      exists (k + 1). split; [lia|]. rewrite R. cbn [pdigits].
      rewrite is_digit_48 by (apply Z.mod_pos_bound; lia). f_equal.
      rewrite Z.pow_add_r by lia. pose proof (Z.div_mod n 10 ltac:(lia)). lia.
Qed.
Theorem parse_print_nonneg n : 0 <= n < 10 ^ 45 -> pdigits (udec n) 0 = Some n.
Proof. intros H. unfold udec. destruct (pdigits_digits 45 n [] 0 H) as (k & _ & R). rewrite R. cbn [pdigits]. f_equal. Qed.

Lemma digits_head : forall f m acc, 0 <= m -> (forall c r, acc = c :: r -> 48 <= c <= 57) -> (acc <> [] \/ f <> O) ->
  exists c r, digits_aux f m acc = c :: r /\ 48 <= c <= 57.
Proof.
  induction f as [|f IH]; intros m acc Hm Hacc Hne; cbn [digits_aux].
  - destruct acc as [|c r]; [destruct Hne; congruence|]. exists c, r. split; [reflexivity|]. apply (Hacc c r eq_refl).
  - destruct (Z.ltb_spec m 10); [exists (48 + m), acc; split; [reflexivity|lia]|].
    apply IH; [apply Z.div_pos; lia | | left; discriminate].
    intros c r E. assert (Ec : 48 + m mod 10 = c) by congruence. pose proof (Z.mod_pos_bound m 10 ltac:(lia)). lia.
Qed.
Lemma udec_head n : 0 <= n -> exists c r, udec n = c :: r /\ 48 <= c <= 57.
Proof. intro H. unfold udec. apply digits_head; [exact H | intros c r E; discriminate | right; discriminate]. Qed.

Theorem parse_print_signed n : - 10 ^ 45 < n < 10 ^ 45 -> parse_signed (sdec n) = Some n.
Proof.
  intro H. unfold sdec. destruct (Z.ltb_spec n 0) as [Hn|Hn].
  - unfold parse_signed. rewrite Z.eqb_refl. assert (P := parse_print_nonneg (- n) ltac:(lia)).
    destruct (udec_head (- n) ltac:(lia)) as (c & r & E & _). rewrite E in *. rewrite P. f_equal. lia.
  - unfold parse_signed. assert (P := parse_print_nonneg n ltac:(lia)).
    destruct (udec_head n Hn) as (c & r & E & Hc). rewrite E in *.
    rewrite (proj2 (Z.eqb_neq c 45)), (proj2 (Z.eqb_neq c 43)) by lia. rewrite P. reflexivity.
Qed.

(* Comma only inserts commas *)
Lemma group3_strip : forall n s, (forall c, In c s -> c <> 44) -> length s = (3 * n)%nat -> filter (fun c => negb (c =? 44)) (group3 s n) = s.
Proof.
  induction n as [|n IH]; intros s Hs Hl.
  - destruct s; [reflexivity|cbn in Hl; lia].
  - destruct s as [|a [|b [|c r]]]; try (cbn in Hl; lia). cbn [group3 filter]. change (44 =? 44) with true. cbn [negb].
    rewrite (proj2 (Z.eqb_neq a 44)), (proj2 (Z.eqb_neq b 44)), (proj2 (Z.eqb_neq c 44)) by (apply Hs; cbn; auto). cbn [negb].
    do 3 f_equal. apply IH; [intros x Hx; apply Hs; cbn; auto | cbn in Hl; lia].
Qed.
Lemma group3_head n s g gs : group3 s n = g :: gs -> g = 44.
Proof. destruct n as [|n]; destruct s as [|a [|b [|c r]]]; cbn; congruence. Qed.
Lemma filter_id (s : bytes) : (forall c, In c s -> c <> 44) -> filter (fun c => negb (c =? 44)) s = s.
Proof. induction s as [|a s IH]; intro H; [reflexivity|]. cbn [filter]. rewrite (proj2 (Z.eqb_neq a 44)) by (apply H; left; reflexivity). cbn [negb]. f_equal. apply IH. intros; apply H; right; assumption. Qed.
Theorem comma_int_strip s : (forall c, In c s -> c <> 44) -> filter (fun c => negb (c =? 44)) (comma_int s) = s.
Proof.
  intro Hs. unfold comma_int.
  set (first := (length s mod 3)%nat). set (h := firstn first s). set (t := skipn first s).
  assert (Hsplit : h ++ t = s) by apply firstn_skipn.
  assert (Hlen : length t = (3 * (length t / 3))%nat).
  { unfold t. rewrite skipn_length. unfold first. pose proof (Nat.div_mod (length s) 3 ltac:(lia)) as D.
    assert (E : (length s - length s mod 3 = 3 * (length s / 3))%nat) by lia. rewrite E. rewrite Nat.mul_comm, Nat.div_mul by lia. lia. }
  assert (Hrest : forall c, In c t -> c <> 44) by (intros c Hc; apply Hs; rewrite <- Hsplit; apply in_or_app; right; exact Hc).
  assert (Hhead : forall c, In c h -> c <> 44) by (intros c Hc; apply Hs; rewrite <- Hsplit; apply in_or_app; left; exact Hc).
  pose proof (group3_strip _ _ Hrest Hlen) as G.
  transitivity (h ++ t); [|exact Hsplit]. clearbody h t. clear Hsplit Hs first.
  destruct h as [|x hs].
  - cbn [app]. destruct (group3 t (length t / 3)) as [|g gs] eqn:Eg; [cbn in G; exact G|].
    assert (g = 44) by (eapply group3_head; exact Eg).
    subst g. cbn [filter] in G. change (44 =? 44) with true in G. cbn [negb] in G. exact G.
  - rewrite filter_app, G, (filter_id _ Hhead). reflexivity.
Qed.

(* Unquote of a quoted text without inner constraints *)
Theorem unquote_quote (s : bytes) : unquote (34 :: s ++ [34]) = s.
Proof.
  unfold unquote. destruct (s ++ [34]) as [|c r] eqn:E; [destruct s; discriminate|].
  rewrite Z.eqb_refl. rewrite <- E. rewrite rev_app_distr. cbn [rev app]. rewrite Z.eqb_refl. apply rev_involutive.
Qed.
