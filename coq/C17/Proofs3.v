(* C17 — delivery order and panic isolation: the calls of one Notify are a permutation of the targets map, in non-increasing
   priority order; a panicking target is reported once and the remaining targets are still called. *)
From Coq Require Import ZArith List Bool Arith Lia Permutation Sorted.
From Verif Require Import C17.Model C17.Proofs C17.Proofs2.
Import ListNotations.
Local Open Scope Z_scope.

Definition ge_prio (a b : nat * Z) : Prop := snd a >= snd b.

Lemma insert_desc_perm x l : Permutation (insert_desc x l) (x :: l).
Proof.
  induction l as [|y r IH]; cbn [insert_desc]; [apply Permutation_refl|].
  destruct (snd y <? snd x); [apply Permutation_refl|].
  eapply Permutation_trans; [apply perm_skip; exact IH|apply perm_swap].
Qed.
Lemma sort_desc_perm l : Permutation (sort_desc l) l.
Proof.
  induction l as [|x l IH]; [apply Permutation_refl|]. cbn [sort_desc fold_right].
  eapply Permutation_trans; [apply insert_desc_perm|apply perm_skip; exact IH].
Qed.
Lemma insert_desc_sorted x l : StronglySorted ge_prio l -> StronglySorted ge_prio (insert_desc x l).
Proof.
  induction l as [|y r IH]; intro S; cbn [insert_desc].
  - constructor; constructor.
  - inversion S as [|? ? Sr Fy]; subst. destruct (snd y <? snd x) eqn:E.
    + apply Z.ltb_lt in E. constructor; [exact S|]. constructor; [unfold ge_prio; lia|].
      rewrite Forall_forall in *. intros z Hz. specialize (Fy z Hz). unfold ge_prio in *. lia.
    + apply Z.ltb_ge in E. constructor; [apply IH; exact Sr|].
      rewrite Forall_forall in *. intros z Hz.
      apply (Permutation_in _ (insert_desc_perm x r)) in Hz. destruct Hz as [<-|Hz]; [unfold ge_prio; lia|apply Fy; exact Hz].
Qed.
Lemma sort_desc_sorted l : StronglySorted ge_prio (sort_desc l).
Proof. induction l as [|x l IH]; [constructor|]. cbn [sort_desc fold_right]. apply insert_desc_sorted. exact IH. Qed.

Lemma calls_deliver panics l : calls (flat_map (notify_target panics) l) = l.
Proof.
  induction l as [|[t pr] l IH]; [reflexivity|]. cbn [flat_map]. unfold calls in *. rewrite flat_map_app, IH.
  unfold notify_target. cbn [fst snd]. destruct (panics t); reflexivity.
Qed.
Lemma recovered_deliver panics l : recovered (flat_map (notify_target panics) l) = filter panics (map fst l).
Proof.
  induction l as [|[t pr] l IH]; [reflexivity|]. cbn [flat_map map filter fst]. unfold recovered in *. rewrite flat_map_app, IH.
  unfold notify_target. cbn [fst snd]. destruct (panics t); reflexivity.
Qed.

(* the delivery of one Notify: every target of the map is called exactly once (a permutation of the map, which has no repeated
   target), in non-increasing priority order, whatever the targets do; the recovery handler hears of exactly the panicking ones,
   once each, in call order *)
Lemma delivery_order panics n name :
  Permutation (calls (deliver panics n name)) (notify n name) /\
  StronglySorted ge_prio (calls (deliver panics n name)) /\
  recovered (deliver panics n name) = filter panics (map fst (calls (deliver panics n name))).
Proof.
  unfold deliver. rewrite calls_deliver, recovered_deliver. split; [apply sort_desc_perm|]. split; [apply sort_desc_sorted|reflexivity].
Qed.

(* combined with the registration relation: Notify invokes each target registered for the name or an ancestor exactly once with the
   priority of the most specific name, nobody else, in non-increasing priority order, panics or not *)
Lemma delivery_exact panics n name : enabled n = true -> segs name [] <> [] ->
  NoDup (map fst (calls (deliver panics n name))) /\
  (forall t p, In (t, p) (calls (deliver panics n name)) <-> msp (R n) (ancestors name) t = Some p) /\
  StronglySorted ge_prio (calls (deliver panics n name)) /\
  (forall t, In t (recovered (deliver panics n name)) <-> panics t = true /\ exists p, msp (R n) (ancestors name) t = Some p) /\
  NoDup (recovered (deliver panics n name)).
Proof.
  intros En Sg. destruct (notify_exact n name En Sg) as [ND EX]. destruct (delivery_order panics n name) as (P & S & RC).
  assert (PM : Permutation (map fst (calls (deliver panics n name))) (map fst (notify n name))) by (apply Permutation_map; exact P).
  split; [eapply Permutation_NoDup; [apply Permutation_sym; exact PM|exact ND]|].
  split.
  { intros t p. rewrite <- EX. split; intro H; [eapply Permutation_in; [exact P|exact H]|eapply Permutation_in; [apply Permutation_sym; exact P|exact H]]. }
  split; [exact S|]. split.
  - intro t. rewrite RC, filter_In, in_map_iff. split.
    + intros [[[t' p] [E I]] Pt]. cbn in E. subst t'. split; [exact Pt|]. exists p. apply EX. eapply Permutation_in; [exact P|exact I].
    + intros [Pt [p Hp]]. split; [|exact Pt]. exists (t, p). split; [reflexivity|]. apply EX in Hp. eapply Permutation_in; [apply Permutation_sym; exact P|exact Hp].
  - rewrite RC. apply NoDup_filter. eapply Permutation_NoDup; [apply Permutation_sym; exact PM|exact ND].
Qed.
(* disabled / empty name: no event at all *)
Lemma delivery_none panics n name : enabled n = false \/ segs name [] = [] -> deliver panics n name = [].
Proof. intros [H|H]; unfold deliver; [rewrite notify_disabled by exact H|rewrite notify_empty_name by exact H]; reflexivity. Qed.
