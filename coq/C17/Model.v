(* C17 — executable model of notifier.Notifier (notifier/notifier.go): the three maps as association lists (Go map iteration
   order is unspecified, so every observable is a multiset or is ordered only by priority). Names are byte strings
   (lists of byte values), targets are numbered; a target is batch-capable iff isBatch says so. No proofs in this file. *)
From Coq Require Import ZArith List Bool Arith.
Import ListNotations.
Definition str := list nat.
Fixpoint seq_eq (a b : str) : bool := match a, b with [], [] => true | x :: a', y :: b' => (x =? y) && seq_eq a' b' | _, _ => false end.

(* split on '.' (46), drop empty segments *)
Fixpoint segs (s : str) (cur : str) : list str :=
  match s with
  | [] => match cur with [] => [] | _ => [rev cur] end
  | c :: r => if c =? 46 then (match cur with [] => segs r [] | _ => rev cur :: segs r [] end) else segs r (c :: cur)
  end.
Fixpoint join (l : list str) : str := match l with [] => [] | [x] => x | x :: r => x ++ [46] ++ join r end.
Definition normalize (s : str) : str := join (segs s []).
(* ancestors: a, a.b, a.b.c *)
Fixpoint prefixes (l : list str) (acc : list str) : list str :=
  match l with [] => [] | x :: r => let a := acc ++ [x] in join a :: prefixes r a end.

Definition pmap := list (str * list (nat * Z)).     (* name -> target -> priority *)
Definition nmap := list (nat * list str).           (* target -> names *)
Record notifier := { batchT : list nat; prod : pmap; names : nmap; curBatch : list nat; level : nat; enabled : bool }.
Definition new := {| batchT := []; prod := []; names := []; curBatch := []; level := 0; enabled := true |}.

Definition plook (m : pmap) (n : str) := match find (fun p => seq_eq (fst p) n) m with Some p => Some (snd p) | None => None end.
Definition pset (m : pmap) (n : str) (v : list (nat * Z)) : pmap :=
  if existsb (fun p => seq_eq (fst p) n) m then map (fun p => if seq_eq (fst p) n then (n, v) else p) m else m ++ [(n, v)].
Definition pdel (m : pmap) (n : str) : pmap := filter (fun p => negb (seq_eq (fst p) n)) m.
Definition tset (s : list (nat * Z)) (t : nat) (pr : Z) := if existsb (fun p => fst p =? t) s then map (fun p => if fst p =? t then (t, pr) else p) s else s ++ [(t, pr)].
Definition nlook (m : nmap) (t : nat) := match find (fun p => fst p =? t) m with Some p => Some (snd p) | None => None end.
Definition nset (m : nmap) (t : nat) (v : list str) : nmap :=
  if existsb (fun p => fst p =? t) m then map (fun p => if fst p =? t then (t, v) else p) m else m ++ [(t, v)].
Definition sadd (l : list str) (n : str) := if existsb (seq_eq n) l then l else l ++ [n].
Definition nadd (l : list nat) (t : nat) := if existsb (Nat.eqb t) l then l else l ++ [t].

Definition register (isBatch : nat -> bool) (n : notifier) (t : nat) (pr : Z) (nms : list str) : notifier :=
  let nn := filter (fun s => match s with [] => false | _ => true end) (map normalize nms) in
  match nn with
  | [] => n
  | _ =>
    let tn := match nlook (names n) t with Some l => l | None => [] end in
    let bt := if isBatch t then nadd (batchT n) t else batchT n in
    let '(pm, tn') := fold_left (fun '(pm, tn) nm =>
        let set := match plook pm nm with Some s => s | None => [] end in
        (pset pm nm (tset set t pr), sadd tn nm)) nn (prod n, tn) in
    {| batchT := bt; prod := pm; names := nset (names n) t tn'; curBatch := curBatch n; level := level n; enabled := enabled n |}
  end.

(* RegisterFromNotifier (repaired): the other notifier's entries are merged in; for a name / target both know, the other's
   values are written over the receiver's *)
Definition register_from (n other : notifier) : notifier :=
  let bt := fold_left nadd (batchT other) (batchT n) in
  let pm := fold_left (fun pm p => match plook pm (fst p) with
                                   | Some mine => pset pm (fst p) (fold_left (fun a q => tset a (fst q) (snd q)) (snd p) mine)
                                   | None => pset pm (fst p) (snd p) end) (prod other) (prod n) in
  let nm := fold_left (fun nm p => match nlook nm (fst p) with
                                   | Some mine => nset nm (fst p) (fold_left sadd (snd p) mine)
                                   | None => nset nm (fst p) (snd p) end) (names other) (names n) in
  {| batchT := bt; prod := pm; names := nm; curBatch := curBatch n; level := level n; enabled := enabled n |}.

Definition unregister (isBatch : nat -> bool) (n : notifier) (t : nat) : notifier :=
  match nlook (names n) t with
  | None => n
  | Some nms =>
    let bt := if isBatch t then filter (fun x => negb (x =? t)) (batchT n) else batchT n in
    let pm := fold_left (fun pm nm => match plook pm nm with
                                      | Some set => let set' := filter (fun p => negb (fst p =? t)) set in
                                                    match set' with [] => pdel pm nm | _ => pset pm nm set' end
                                      | None => pm end) nms (prod n) in
    {| batchT := bt; prod := pm; names := filter (fun p => negb (fst p =? t)) (names n); curBatch := curBatch n; level := level n; enabled := enabled n |}
  end.

Definition notify (n : notifier) (name : str) : list (nat * Z) :=
  if enabled n then
    let sg := segs name [] in
    match sg with [] => [] | _ =>
      fold_left (fun acc pre => match plook (prod n) pre with Some set => fold_left (fun a p => tset a (fst p) (snd p)) set acc | None => acc end) (prefixes sg []) []
    end
  else [].

(* delivery (NotifyWithData after the targets map is built): the targets are sorted by non-increasing priority (sort.Slice with
   "greater"; an insertion sort here - Go's order among equal priorities is unspecified, so observables are compared up to ties) and
   each is called inside notifyTarget, whose deferred errs.Recovery turns a panic of the target into one report to the recovery
   handler; the loop goes on with the next target. Events: ECall t pr, then ERecovered t when target t panics. *)
Fixpoint insert_desc (x : nat * Z) (l : list (nat * Z)) : list (nat * Z) :=
  match l with [] => [x] | y :: r => if (snd y <? snd x)%Z then x :: l else y :: insert_desc x r end.
Definition sort_desc (l : list (nat * Z)) : list (nat * Z) := fold_right insert_desc [] l.
Inductive event := ECall (t : nat) (pr : Z) | ERecovered (t : nat).
Definition notify_target (panics : nat -> bool) (p : nat * Z) : list event :=
  if panics (fst p) then [ECall (fst p) (snd p); ERecovered (fst p)] else [ECall (fst p) (snd p)].
Definition deliver (panics : nat -> bool) (n : notifier) (name : str) : list event :=
  flat_map (notify_target panics) (sort_desc (notify n name)).
Definition calls (ev : list event) : list (nat * Z) := flat_map (fun e => match e with ECall t pr => [(t, pr)] | _ => [] end) ev.
Definition recovered (ev : list event) : list nat := flat_map (fun e => match e with ERecovered t => [t] | _ => [] end) ev.

Definition start_batch (n : notifier) : notifier * list nat :=
  if enabled n then
    let lv := S (level n) in
    match lv, batchT n with
    | 1, _ :: _ => ({| batchT := batchT n; prod := prod n; names := names n; curBatch := batchT n; level := lv; enabled := true |}, batchT n)
    | _, _ => ({| batchT := batchT n; prod := prod n; names := names n; curBatch := curBatch n; level := lv; enabled := true |}, [])
    end
  else (n, []).
Definition end_batch (n : notifier) : notifier * list nat :=
  if enabled n && (0 <? level n) then
    let lv := pred (level n) in
    match lv with
    | O => ({| batchT := batchT n; prod := prod n; names := names n; curBatch := []; level := 0; enabled := true |}, curBatch n)
    | _ => ({| batchT := batchT n; prod := prod n; names := names n; curBatch := curBatch n; level := lv; enabled := true |}, [])
    end
  else (n, []).
Definition reset (n : notifier) := {| batchT := []; prod := []; names := []; curBatch := []; level := 0; enabled := enabled n |}.
Definition set_enabled (n : notifier) (b : bool) := {| batchT := batchT n; prod := prod n; names := names n; curBatch := curBatch n; level := level n; enabled := b |}.

Inductive op := OReg (w t : nat) (pr : Z) (nms : list str) | OFrom (w : nat) | OUnreg (w t : nat) | OEnable (w : nat) (b : bool) | OReset (w : nat)
  | ONotify (w : nat) (nm : str) | OStart (w : nat) | OEnd (w : nat).
Inductive out := ONone | OTargets (l : list (nat * Z)) | OBatch (l : list nat).
Definition isBatch (t : nat) := 3 <=? t.
Definition step (s : notifier * notifier) (o : op) : (notifier * notifier) * out :=
  let '(a, b) := s in
  let pick w := if w =? 0 then a else b in
  let put w x := if w =? 0 then (x, b) else (a, x) in
  match o with
  | OReg w t pr nms => (put w (register isBatch (pick w) t pr nms), ONone)
  | OFrom w => (put w (register_from (pick w) (pick (1 - w))), ONone)
  | OUnreg w t => (put w (unregister isBatch (pick w) t), ONone)
  | OEnable w e => (put w (set_enabled (pick w) e), ONone)
  | OReset w => (put w (reset (pick w)), ONone)
  | ONotify w nm => (s, OTargets (notify (pick w) nm))
  | OStart w => let '(x, l) := start_batch (pick w) in (put w x, OBatch l)
  | OEnd w => let '(x, l) := end_batch (pick w) in (put w x, OBatch l)
  end.
Definition run (ops : list op) : list out :=
  (fix go s ops := match ops with [] => [] | o :: r => let '(s', x) := step s o in x :: go s' r end) (new, new) ops.
