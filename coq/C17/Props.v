(* C17 — property theorems only. *)
From Coq Require Import ZArith List Bool Arith.
From Coq Require Import Permutation Sorted.
From Verif Require Import C17.Model C17.Proofs C17.Proofs2 C17.Proofs3.
Import ListNotations.

(* Notify consults exactly the dot-ancestors of the normalised name (joins of its leading non-empty segments), most specific last
   (so its priority wins) - never a name that merely shares a textual prefix *)
Theorem C17_notify_consults_exactly_the_ancestors : forall n name, enabled n = true -> segs name [] <> [] ->
  notify n name =
  fold_left (fun acc pre => match plook (prod n) pre with Some set => fold_left (fun a p => tset a (fst p) (snd p)) set acc | None => acc end)
            (map (fun k => join (firstn k (segs name []))) (seq 1 (length (segs name [])))) [].
Proof. exact notify_consults_ancestors. Qed.
Print Assumptions C17_notify_consults_exactly_the_ancestors.

(* nobody is called while the notifier is disabled, for an empty name, or after Reset *)
Theorem C17_disabled_calls_nobody : forall n name, enabled n = false -> notify n name = [].
Proof. exact notify_disabled. Qed.
Print Assumptions C17_disabled_calls_nobody.
Theorem C17_empty_name_calls_nobody : forall n name, segs name [] = [] -> notify n name = [].
Proof. exact notify_empty_name. Qed.
Print Assumptions C17_empty_name_calls_nobody.
Theorem C17_reset_calls_nobody : forall n name, notify (reset n) name = [].
Proof. exact notify_after_reset. Qed.
Print Assumptions C17_reset_calls_nobody.

(* StartBatch/EndBatch pairs nest: with k+1 nested pairs BatchMode(true) goes once, on the outermost start, to every batch
   target, and BatchMode(false) once, on the matching end, to the same targets *)
Theorem C17_batches_nest : forall k n, enabled n = true -> level n = 0 -> batchT n <> [] ->
  let '(n1, ls1) := starts (S k) n in
  let '(n2, ls2) := ends (S k) n1 in
  (exists rest, ls1 = batchT n :: rest /\ Forall (fun l => l = []) rest) /\
  (exists pre, ls2 = pre ++ [batchT n] /\ Forall (fun l => l = []) pre) /\
  level n2 = 0 /\ curBatch n2 = [].
Proof. exact batches_nest. Qed.
Print Assumptions C17_batches_nest.

(* ---- refinement to a registration relation (Proofs2.v). R n name t = the priority target t is registered with for name (read off
   the by-name map); msp r ancestors t = the priority of the most specific ancestor of the name that t is registered for. ---- *)
(* Notify calls each target at most once, and exactly the targets registered for the name or one of its dot-ancestors, each with the
   priority of the most specific matching name - for every state of the maps, consistent or not *)
Theorem C17_notify_reaches_exactly_the_registered : forall n name, enabled n = true -> segs name [] <> [] ->
  NoDup (map fst (notify n name)) /\ forall t p, In (t, p) (notify n name) <-> msp (R n) (ancestors name) t = Some p.
Proof. exact notify_exact. Qed.
Print Assumptions C17_notify_reaches_exactly_the_registered.
(* Register / Unregister / RegisterFromNotifier act on the relation as on a set of registrations; Unregister and the merge need the
   consistency invariants (Inv: the by-target map lists every name of a target; KU: names are unique in the by-name map),
   which every operation preserves *)
Theorem C17_register_unregister_merge : forall n other t pr nms nm' t',
  R (register isBatch n t pr nms) nm' t' = (if existsb (seq_eq nm') (clean nms) && (t' =? t) then Some pr else R n nm' t') /\
  (Inv n -> R (unregister isBatch n t) nm' t' = if t' =? t then None else R n nm' t') /\
  (KU other -> R (register_from n other) nm' t' = match R other nm' t' with Some x => Some x | None => R n nm' t' end) /\
  R (reset n) nm' t' = None.
Proof.
  intros. split; [apply register_R|]. split; [apply unregister_R|]. split; [apply register_from_R|reflexivity].
Qed.
Print Assumptions C17_register_unregister_merge.
(* every history over two notifiers (Register, RegisterFromNotifier in both directions, Unregister, SetEnabled, Reset, Start/EndBatch,
   Notify): each Notify delivers exactly what the specification state (a registration relation and the enabled flag per notifier,
   sstep) prescribes: nobody while disabled or for an empty name, otherwise each registered target of an ancestor once *)
Theorem C17_every_history_refines_the_registration_set : forall ops, outs_ok (sinit, sinit) ops (run ops).
Proof. exact history_refines. Qed.
Print Assumptions C17_every_history_refines_the_registration_set.
(* ---- delivery (Proofs3.v): the calls one Notify makes. deliver = the targets map sorted by non-increasing priority, each target
   called inside notifyTarget (panic -> one report to the recovery handler, the loop goes on). ---- *)
(* each registered target of the name or an ancestor is called exactly once, with the priority of the most specific name, nobody
   else is called, the calls are in non-increasing priority order, and - whichever targets panic - every one of them is still
   called, the recovery handler hearing of exactly the panicking ones, once each *)
Theorem C17_delivery_once_in_priority_order_despite_panics : forall panics n name, enabled n = true -> segs name [] <> [] ->
  NoDup (map fst (calls (deliver panics n name))) /\
  (forall t p, In (t, p) (calls (deliver panics n name)) <-> msp (R n) (ancestors name) t = Some p) /\
  StronglySorted (fun a b => (snd a >= snd b)%Z) (calls (deliver panics n name)) /\
  (forall t, In t (recovered (deliver panics n name)) <-> panics t = true /\ exists p, msp (R n) (ancestors name) t = Some p) /\
  NoDup (recovered (deliver panics n name)).
Proof. exact delivery_exact. Qed.
Print Assumptions C17_delivery_once_in_priority_order_despite_panics.
Theorem C17_delivery_is_a_sorted_permutation_of_the_targets : forall panics n name,
  Permutation (calls (deliver panics n name)) (notify n name) /\
  StronglySorted (fun a b => (snd a >= snd b)%Z) (calls (deliver panics n name)) /\
  recovered (deliver panics n name) = filter panics (map fst (calls (deliver panics n name))).
Proof. exact delivery_order. Qed.
Print Assumptions C17_delivery_is_a_sorted_permutation_of_the_targets.
Theorem C17_no_delivery_when_disabled_or_unnamed : forall panics n name, enabled n = false \/ segs name [] = [] -> deliver panics n name = [].
Proof. exact delivery_none. Qed.
Print Assumptions C17_no_delivery_when_disabled_or_unnamed.
Example C17_ex_delivery :
  let a := register isBatch (register isBatch (register isBatch new 0 1%Z [[97]]) 2 9%Z [[97; 46; 98]]) 1 5%Z [[97]] in
  deliver (fun t => t =? 2) a [97; 46; 98] = [ECall 2 9%Z; ERecovered 2; ECall 1 5%Z; ECall 0 1%Z].
Proof. vm_compute. reflexivity. Qed.
(* non-vacuity: after Register, merge and Unregister the specification prescribes a non-trivial delivery *)
Example C17_ex_history :
  let ops := [OReg 0 1 5%Z [[97]]; OReg 1 2 7%Z [[97; 46; 98]]; OReg 1 1 9%Z [[97; 46; 98]]; OFrom 0; OUnreg 1 1; ONotify 0 [97; 46; 98; 46; 99]; OUnreg 0 1; ONotify 0 [97; 46; 98]] in
  run ops = [ONone; ONone; ONone; ONone; ONone; OTargets [(1, 9%Z); (2, 7%Z)]; ONone; OTargets [(2, 7%Z)]].
Proof. vm_compute. reflexivity. Qed.

(* regression: the merge that used to drop the other notifier's targets *)
Example C17_ex_merge :
  let a := register isBatch new 0 1%Z [[97]] in
  let b := register isBatch new 1 2%Z [[97]] in
  map fst (notify (register_from a b) [97]) = [0; 1].
Proof. reflexivity. Qed.
Example C17_ex_prefix_not_ancestor :
  let a := register isBatch new 0 1%Z [[97; 46; 98]] in     (* "a.b" *)
  notify a [97; 46; 98; 99] = [] /\ map fst (notify a [97; 46; 98; 46; 99]) = [0].   (* "a.bc" no, "a.b.c" yes *)
Proof. split; reflexivity. Qed.
