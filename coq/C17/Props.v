(* C17 — property theorems only. *)
From Coq Require Import ZArith List Bool Arith.
From Verif Require Import C17.Model C17.Proofs.
Import ListNotations.

(* Notify consults exactly the dot-ancestors of the normalised name (joins of its leading non-empty segments), most specific last
   (so its priority wins) - never a name that merely shares a textual prefix *)
Theorem C17_notify_consults_exactly_the_ancestors : forall n name, enabled n = true -> segs name [] <> [] ->
  notify n name =
  fold_left (fun acc pre => match plook (prod n) pre with Some set => fold_left (fun a p => tset a (fst p) (snd p)) set acc | None => acc end)
            (map (fun k => join (firstn k (segs name []))) (seq 1 (length (segs name [])))) [].
Proof. exact notify_consults_ancestors. Qed.
Print Assumptions C17_notify_consults_exactly_the_ancestors.

(* nobody is called while the notifier is disabled, for an empty name, or after Reset *)
Theorem C17_disabled_calls_nobody : forall n name, enabled n = false -> notify n name = [].
Proof. exact notify_disabled. Qed.
Print Assumptions C17_disabled_calls_nobody.
Theorem C17_empty_name_calls_nobody : forall n name, segs name [] = [] -> notify n name = [].
Proof. exact notify_empty_name. Qed.
Print Assumptions C17_empty_name_calls_nobody.
Theorem C17_reset_calls_nobody : forall n name, notify (reset n) name = [].
Proof. exact notify_after_reset. Qed.
Print Assumptions C17_reset_calls_nobody.

(* StartBatch/EndBatch pairs nest: with k+1 nested pairs BatchMode(true) goes once, on the outermost start, to every batch
   target, and BatchMode(false) once, on the matching end, to the same targets *)
Theorem C17_batches_nest : forall k n, enabled n = true -> level n = 0 -> batchT n <> [] ->
  let '(n1, ls1) := starts (S k) n in
  let '(n2, ls2) := ends (S k) n1 in
  (exists rest, ls1 = batchT n :: rest /\ Forall (fun l => l = []) rest) /\
  (exists pre, ls2 = pre ++ [batchT n] /\ Forall (fun l => l = []) pre) /\
  level n2 = 0 /\ curBatch n2 = [].
Proof. exact batches_nest. Qed.
Print Assumptions C17_batches_nest.

(* regression: the merge that used to drop the other notifier's targets *)
Example C17_ex_merge :
  let a := register isBatch new 0 1%Z [[97]] in
  let b := register isBatch new 1 2%Z [[97]] in
  map fst (notify (register_from a b) [97]) = [0; 1].
Proof. reflexivity. Qed.
Example C17_ex_prefix_not_ancestor :
  let a := register isBatch new 0 1%Z [[97; 46; 98]] in     (* "a.b" *)
  notify a [97; 46; 98; 99] = [] /\ map fst (notify a [97; 46; 98; 46; 99]) = [0].   (* "a.bc" no, "a.b.c" yes *)
Proof. split; reflexivity. Qed.
