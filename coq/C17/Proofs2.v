(* C17 — the three maps refine a registration relation: R n name t = the priority with which target t is registered for name.
   Notify reaches each registered target of an ancestor exactly once, with the priority of the most specific name;
   Register / Unregister / Reset act on R as on a set of registrations; the by-target map stays consistent with the by-name map. *)
From Coq Require Import ZArith List Bool Arith Lia.
From Verif Require Import C17.Model C17.Proofs.
Import ListNotations.

Lemma seq_eq_spec a : forall b, seq_eq a b = true <-> a = b.
Proof.
  induction a as [|x a IH]; intros [|y b]; cbn; try (split; congruence).
  rewrite andb_true_iff, Nat.eqb_eq, IH. split; [intros [-> ->]; reflexivity|intro E; injection E; auto].
Qed.
Lemma seq_eq_refl a : seq_eq a a = true. Proof. apply seq_eq_spec. reflexivity. Qed.
Lemma seq_eq_sym a b : seq_eq a b = seq_eq b a.
Proof. destruct (seq_eq a b) eqn:E. - apply seq_eq_spec in E. subst. symmetry. apply seq_eq_refl. - destruct (seq_eq b a) eqn:E2; [|reflexivity]. apply seq_eq_spec in E2. subst. rewrite seq_eq_refl in E. discriminate. Qed.

(* ---- generic association lists with first-binding lookup, replace-all-or-append update, delete-all ---- *)
Section Assoc.
Variables (K V : Type) (eqb : K -> K -> bool).
Hypothesis eqb_spec : forall a b, eqb a b = true <-> a = b.
Definition glook (m : list (K * V)) (k : K) := match find (fun p => eqb (fst p) k) m with Some p => Some (snd p) | None => None end.
Definition gset (m : list (K * V)) (k : K) (v : V) := if existsb (fun p => eqb (fst p) k) m then map (fun p => if eqb (fst p) k then (k, v) else p) m else m ++ [(k, v)].
Definition gdel (m : list (K * V)) (k : K) := filter (fun p => negb (eqb (fst p) k)) m.
Lemma eqb_refl k : eqb k k = true. Proof. apply eqb_spec. reflexivity. Qed.
Lemma eqb_neq a b : a <> b -> eqb a b = false. Proof. intro H. destruct (eqb a b) eqn:E; [apply eqb_spec in E; contradiction|reflexivity]. Qed.
Lemma glook_none m k : existsb (fun p => eqb (fst p) k) m = false -> glook m k = None.
Proof. unfold glook. induction m as [|p m IH]; [reflexivity|]. cbn [existsb find]. intro H. apply orb_false_iff in H. destruct H as [H1 H2]. rewrite H1. apply IH. exact H2. Qed.
Lemma find_map_pres (P : K * V -> bool) (f : K * V -> K * V) m : (forall p, P (f p) = P p) -> find P (map f m) = option_map f (find P m).
Proof. intro H. induction m as [|p m IH]; [reflexivity|]. cbn [map find]. rewrite H. destruct (P p); [reflexivity|exact IH]. Qed.
Lemma find_snoc (P : K * V -> bool) m x : find P (m ++ [x]) = match find P m with Some p => Some p | None => if P x then Some x else None end.
Proof. induction m as [|p m IH]; [reflexivity|]. cbn [app find]. destruct (P p); [reflexivity|exact IH]. Qed.
Lemma find_existsb (P : K * V -> bool) m : existsb P m = true -> exists p, find P m = Some p /\ P p = true.
Proof. induction m as [|q m IH]; [discriminate|]. cbn [existsb find]. destruct (P q) eqn:E; [intros _; exists q; auto|exact IH]. Qed.
Lemma glook_gset m k v k' : glook (gset m k v) k' = if eqb k' k then Some v else glook m k'.
Proof.
  unfold gset. destruct (existsb (fun p => eqb (fst p) k) m) eqn:E.
  - unfold glook. rewrite find_map_pres.
    2:{ intro p. destruct (eqb (fst p) k) eqn:Ep; [apply eqb_spec in Ep; cbn [fst]; rewrite Ep; reflexivity|reflexivity]. }
    destruct (eqb k' k) eqn:Ek.
    + apply eqb_spec in Ek. subst k'. destruct (find_existsb _ _ E) as (p & Fp & Pp). rewrite Fp. cbn [option_map]. rewrite Pp. reflexivity.
    + destruct (find (fun p => eqb (fst p) k') m) as [p|] eqn:Fp; [|reflexivity]. cbn [option_map]. apply find_some in Fp. destruct Fp as [_ Pp]. apply eqb_spec in Pp.
      rewrite Pp, Ek. reflexivity.
  - unfold glook. rewrite find_snoc. cbn [fst snd]. destruct (eqb k' k) eqn:Ek.
    + apply eqb_spec in Ek. subst k'. pose proof (glook_none m k E) as N. unfold glook in N. destruct (find (fun p => eqb (fst p) k) m); [discriminate|]. rewrite eqb_refl. reflexivity.
    + destruct (find (fun p => eqb (fst p) k') m); [reflexivity|]. assert (eqb k k' = false) by (apply eqb_neq; intro; subst; rewrite eqb_refl in Ek; discriminate). rewrite H. reflexivity.
Qed.
Lemma glook_gdel m k k' : glook (gdel m k) k' = if eqb k' k then None else glook m k'.
Proof.
  unfold glook, gdel. induction m as [|p m IH]; [destruct (eqb k' k); reflexivity|]. cbn [filter find]. destruct (eqb (fst p) k) eqn:Ep; cbn [negb].
  - rewrite IH. apply eqb_spec in Ep. destruct (eqb k' k) eqn:Ek; [reflexivity|]. rewrite Ep. assert (eqb k k' = false) by (apply eqb_neq; intro; subst; rewrite eqb_refl in Ek; discriminate). rewrite H. reflexivity.
  - cbn [find]. destruct (eqb (fst p) k') eqn:Ep'.
    + apply eqb_spec in Ep'. subst k'. rewrite Ep. reflexivity.
    + exact IH.
Qed.
Lemma gset_keys m k v : NoDup (map fst m) -> NoDup (map fst (gset m k v)).
Proof.
  intro H. unfold gset. destruct (existsb (fun p => eqb (fst p) k) m) eqn:E.
  - assert (M : map fst (map (fun p => if eqb (fst p) k then (k, v) else p) m) = map fst m).
    { rewrite map_map. apply map_ext. intro p. destruct (eqb (fst p) k) eqn:Ep; [apply eqb_spec in Ep; auto|reflexivity]. }
    rewrite M. exact H.
  - rewrite map_app. cbn [map fst]. clear - H E eqb_spec. induction m as [|q m IH]; cbn [map app]; [constructor; [intros []|constructor]|].
    cbn [existsb] in E. apply orb_false_iff in E. destruct E as [A B]. cbn [map] in H. inversion H as [|? ? Hq Hm]; subst. constructor.
    + intro I. apply in_app_or in I. destruct I as [I|[I|[]]]; [contradiction|]. subst k. rewrite eqb_refl in A. discriminate.
    + apply IH; assumption.
Qed.
Lemma gdel_keys m k : NoDup (map fst m) -> NoDup (map fst (gdel m k)).
Proof.
  unfold gdel. induction m as [|q m IH]; intro H; [constructor|]. cbn [map] in H. inversion H as [|? ? Hq Hm]; subst. cbn [filter]. destruct (negb (eqb (fst q) k)); [|apply IH; exact Hm].
  cbn [map]. constructor; [|apply IH; exact Hm]. intro I. apply Hq. apply in_map_iff in I. destruct I as (x & Ex & Ix). apply filter_In in Ix. apply in_map_iff. exists x. tauto.
Qed.
Lemma glook_cons_nodup (k : K) (v : V) m : NoDup (map fst ((k, v) :: m)) -> glook m k = None.
Proof.
  intro H. cbn [map fst] in H. inversion H as [|? ? Hk _]; subst. apply glook_none. destruct (existsb (fun p => eqb (fst p) k) m) eqn:E; [|reflexivity].
  exfalso. apply Hk. apply existsb_exists in E. destruct E as (x & Ix & Ex). apply eqb_spec in Ex. apply in_map_iff. exists x. auto.
Qed.
End Assoc.

Definition str_spec := seq_eq_spec.
Lemma nat_spec a b : (a =? b) = true <-> a = b. Proof. apply Nat.eqb_eq. Qed.
Lemma plook_is m n : plook m n = glook str (list (nat * Z)) seq_eq m n. Proof. reflexivity. Qed.
Lemma pset_is m n v : pset m n v = gset str (list (nat * Z)) seq_eq m n v. Proof. reflexivity. Qed.
Lemma pdel_is m n : pdel m n = gdel str (list (nat * Z)) seq_eq m n. Proof. reflexivity. Qed.
Lemma nlook_is m t : nlook m t = glook nat (list str) Nat.eqb m t. Proof. reflexivity. Qed.
Lemma nset_is m t v : nset m t v = gset nat (list str) Nat.eqb m t v. Proof. reflexivity. Qed.
Lemma plook_pset m n v k : plook (pset m n v) k = if seq_eq k n then Some v else plook m k.
Proof. rewrite pset_is, !plook_is. apply glook_gset. exact seq_eq_spec. Qed.
Lemma plook_pdel m n k : plook (pdel m n) k = if seq_eq k n then None else plook m k.
Proof. rewrite pdel_is, !plook_is. apply glook_gdel. exact seq_eq_spec. Qed.
Lemma nlook_nset m t v t' : nlook (nset m t v) t' = if t' =? t then Some v else nlook m t'.
Proof. rewrite nset_is, !nlook_is. apply glook_gset. exact nat_spec. Qed.
Lemma nlook_filter m t t' : nlook (filter (fun p => negb (fst p =? t)) m) t' = if t' =? t then None else nlook m t'.
Proof. rewrite !nlook_is. apply (glook_gdel nat (list str) Nat.eqb nat_spec m t t'). Qed.

(* ---- target sets: last binding wins ---- *)
Fixpoint tlast (s : list (nat * Z)) (t : nat) : option Z :=
  match s with [] => None | p :: r => match tlast r t with Some x => Some x | None => if fst p =? t then Some (snd p) else None end end.
Lemma tlast_app s1 s2 t : tlast (s1 ++ s2) t = match tlast s2 t with Some x => Some x | None => tlast s1 t end.
Proof. induction s1 as [|p s1 IH]; cbn [app tlast]; [destruct (tlast s2 t); reflexivity|]. rewrite IH. destruct (tlast s2 t); reflexivity. Qed.
Lemma tlast_none s t : existsb (fun p => fst p =? t) s = false -> tlast s t = None.
Proof. induction s as [|p s IH]; [reflexivity|]. cbn [existsb tlast]. intro H. apply orb_false_iff in H. destruct H as [A B]. rewrite IH, A by exact B. reflexivity. Qed.
Lemma tlast_tset s t pr t' : tlast (tset s t pr) t' = if t' =? t then Some pr else tlast s t'.
Proof.
  unfold tset. destruct (existsb (fun p => fst p =? t) s) eqn:E.
  - induction s as [|p s IH]; [discriminate|]. cbn [existsb] in E. cbn [map tlast].
    destruct (existsb (fun p => fst p =? t) s) eqn:E2.
    + rewrite IH by reflexivity. destruct (t' =? t) eqn:Et; [reflexivity|]. destruct (tlast s t'); [reflexivity|].
      destruct (fst p =? t) eqn:Ep; cbn [fst snd]; [|reflexivity]. apply Nat.eqb_eq in Ep. rewrite Ep. rewrite Nat.eqb_sym, Et. reflexivity.
    + rewrite orb_false_r in E. rewrite E. cbn [fst snd].
      assert (M : map (fun p0 => if fst p0 =? t then (t, pr) else p0) s = s).
      { clear - E2. induction s as [|q s IH]; [reflexivity|]. cbn [existsb] in E2. apply orb_false_iff in E2. destruct E2 as [A B]. cbn [map]. rewrite A, IH by exact B. reflexivity. }
      rewrite M. destruct (t' =? t) eqn:Et.
      * apply Nat.eqb_eq in Et. subst t'. rewrite (tlast_none s t E2), Nat.eqb_refl. reflexivity.
      * apply Nat.eqb_eq in E. rewrite E. rewrite (Nat.eqb_sym t t'), Et. reflexivity.
  - rewrite tlast_app. cbn [tlast fst snd]. rewrite (Nat.eqb_sym t t'). destruct (t' =? t) eqn:Et; [reflexivity|]. reflexivity.
Qed.
Lemma tlast_filter s t t' : tlast (filter (fun p => negb (fst p =? t)) s) t' = if t' =? t then None else tlast s t'.
Proof.
  induction s as [|p s IH]; [destruct (t' =? t); reflexivity|]. cbn [filter tlast]. destruct (fst p =? t) eqn:Ep; cbn [negb].
  - rewrite IH. destruct (t' =? t) eqn:Et; [reflexivity|]. destruct (tlast s t'); [reflexivity|]. apply Nat.eqb_eq in Ep. rewrite Ep, (Nat.eqb_sym t t'), Et. reflexivity.
  - cbn [tlast]. rewrite IH. destruct (t' =? t) eqn:Et; [|reflexivity]. apply Nat.eqb_eq in Et. subst t'. rewrite Ep. reflexivity.
Qed.
Lemma NoDup_snoc (l : list nat) x : NoDup l -> ~ In x l -> NoDup (l ++ [x]).
Proof. intros H N. induction H as [|y l Hy Hl IH]; cbn [app]; [constructor; [intros []|constructor]|]. constructor.
  - intro I. apply in_app_or in I. destruct I as [I|[I|[]]]; [contradiction|subst; apply N; left; reflexivity].
  - apply IH. intro I. apply N. right. exact I.
Qed.
Lemma tset_keys s t pr : NoDup (map fst s) -> NoDup (map fst (tset s t pr)).
Proof.
  intro H. unfold tset. destruct (existsb (fun p => fst p =? t) s) eqn:E.
  - assert (M : map fst (map (fun p => if fst p =? t then (t, pr) else p) s) = map fst s).
    { rewrite map_map. apply map_ext. intro p. destruct (fst p =? t) eqn:Ep; [apply Nat.eqb_eq in Ep; auto|reflexivity]. }
    rewrite M. exact H.
  - rewrite map_app. cbn [map fst]. apply NoDup_snoc; [exact H|]. intro I. apply in_map_iff in I. destruct I as (p & Ep & Ip).
    assert (existsb (fun p => fst p =? t) s = true) by (apply existsb_exists; exists p; split; [exact Ip|apply Nat.eqb_eq; exact Ep]). congruence.
Qed.

(* ---- the registration relation ---- *)
Definition Rp (pm : pmap) (nm : str) (t : nat) : option Z := match plook pm nm with Some set => tlast set t | None => None end.
Definition R (n : notifier) := Rp (prod n).
(* most specific ancestor wins: ancestors are listed from the shortest to the longest *)
Definition msp (r : str -> nat -> option Z) (ancs : list str) (t : nat) : option Z :=
  fold_left (fun a pre => match r pre t with Some x => Some x | None => a end) ancs None.
Definition ancestors (name : str) : list str := map (fun k => join (firstn k (segs name []))) (seq 1 (length (segs name []))).

Lemma fold_tset_last set : forall acc t, tlast (fold_left (fun a p => tset a (fst p) (snd p)) set acc) t = match tlast set t with Some x => Some x | None => tlast acc t end.
Proof.
  induction set as [|p set IH]; intros acc t; [reflexivity|]. cbn [fold_left tlast]. rewrite IH, tlast_tset. destruct (tlast set t); [reflexivity|].
  rewrite Nat.eqb_sym. destruct (fst p =? t); reflexivity.
Qed.
Lemma fold_tset_keys set : forall acc, NoDup (map fst acc) -> NoDup (map fst (fold_left (fun a p => tset a (fst p) (snd p)) set acc)).
Proof. induction set as [|p set IH]; intros acc H; [exact H|]. cbn [fold_left]. apply IH, tset_keys, H. Qed.
Definition nstep (pm : pmap) (acc : list (nat * Z)) (pre : str) := match plook pm pre with Some set => fold_left (fun a p => tset a (fst p) (snd p)) set acc | None => acc end.
Lemma notify_fold_last pm ancs : forall acc t,
  tlast (fold_left (nstep pm) ancs acc) t = fold_left (fun a pre => match Rp pm pre t with Some x => Some x | None => a end) ancs (tlast acc t).
Proof.
  induction ancs as [|a ancs IH]; intros acc t; [reflexivity|]. cbn [fold_left]. rewrite IH. f_equal. unfold nstep, Rp. destruct (plook pm a) as [set|]; [apply fold_tset_last|reflexivity].
Qed.
Lemma notify_fold_keys pm ancs : forall acc, NoDup (map fst acc) -> NoDup (map fst (fold_left (nstep pm) ancs acc)).
Proof. induction ancs as [|a ancs IH]; intros acc H; [exact H|]. cbn [fold_left]. apply IH. unfold nstep. destruct (plook pm a); [apply fold_tset_keys; exact H|exact H]. Qed.
Lemma tlast_in s : NoDup (map fst s) -> forall t p, In (t, p) s <-> tlast s t = Some p.
Proof.
  induction s as [|q s IH]; intros H t p; [cbn; split; [intros []|discriminate]|]. cbn [map] in H. inversion H as [|? ? Hq Hs]; subst. cbn [In tlast]. rewrite (IH Hs).
  destruct (tlast s t) as [x|] eqn:E.
  - split; [intros [->|I]; [|exact I]|intro I; right; exact I]. exfalso. apply Hq. apply (IH Hs) in E. apply in_map_iff. exists (t, x). split; [reflexivity|exact E].
  - destruct q as [t0 p0]. cbn [fst snd]. destruct (t0 =? t) eqn:Et.
    + apply Nat.eqb_eq in Et. subst t0. split; [intros [I|I]; [injection I; intros; subst; reflexivity|discriminate]|intro I; injection I; intros; subst; left; reflexivity].
    + split; [intros [I|I]; [injection I; intros; subst; rewrite Nat.eqb_refl in Et; discriminate|discriminate]|discriminate].
Qed.

(* T1: Notify calls each target at most once, and exactly those registered for the name or an ancestor, with the priority of the most specific one *)
Theorem notify_exact n name : enabled n = true -> segs name [] <> [] ->
  NoDup (map fst (notify n name)) /\ forall t p, In (t, p) (notify n name) <-> msp (R n) (ancestors name) t = Some p.
Proof.
  intros He Hs. rewrite (notify_consults_ancestors n name He Hs). fold (ancestors name). change (fold_left _ (ancestors name) []) with (fold_left (nstep (prod n)) (ancestors name) []).
  assert (K : NoDup (map fst (fold_left (nstep (prod n)) (ancestors name) []))) by (apply notify_fold_keys; constructor).
  split; [exact K|]. intros t p. rewrite (tlast_in _ K). rewrite notify_fold_last. reflexivity.
Qed.

(* T2: Register *)
Definition clean (nms : list str) : list str := filter (fun s => match s with [] => false | _ => true end) (map normalize nms).
Definition rstep (t : nat) (pr : Z) (pm : pmap) (nm : str) := pset pm nm (tset (match plook pm nm with Some s => s | None => [] end) t pr).
Lemma Rp_rstep t pr pm nm nm' t' : Rp (rstep t pr pm nm) nm' t' = if seq_eq nm' nm && (t' =? t) then Some pr else Rp pm nm' t'.
Proof.
  unfold Rp, rstep. rewrite plook_pset. destruct (seq_eq nm' nm) eqn:E; [|reflexivity]. apply seq_eq_spec in E. subst nm'. rewrite tlast_tset. cbn [andb].
  destruct (t' =? t); [reflexivity|]. destruct (plook pm nm); reflexivity.
Qed.
Lemma Rp_fold_rstep t pr nn : forall pm nm' t', Rp (fold_left (rstep t pr) nn pm) nm' t' = if existsb (seq_eq nm') nn && (t' =? t) then Some pr else Rp pm nm' t'.
Proof.
  induction nn as [|nm nn IH]; intros pm nm' t'; [reflexivity|]. cbn [fold_left existsb]. rewrite IH, Rp_rstep.
  destruct (existsb (seq_eq nm') nn), (seq_eq nm' nm), (t' =? t); reflexivity.
Qed.
Lemma reg_fold_fst t pr nn : forall pm tn,
  fold_left (fun '(pm, tn) nm => let set := match plook pm nm with Some s => s | None => [] end in (pset pm nm (tset set t pr), sadd tn nm)) nn (pm, tn)
  = (fold_left (rstep t pr) nn pm, fold_left sadd nn tn).
Proof. induction nn as [|nm nn IH]; intros pm tn; [reflexivity|]. cbn [fold_left]. rewrite IH. reflexivity. Qed.
Lemma register_shape isB n t pr nms : clean nms <> [] ->
  prod (register isB n t pr nms) = fold_left (rstep t pr) (clean nms) (prod n) /\
  names (register isB n t pr nms) = nset (names n) t (fold_left sadd (clean nms) (match nlook (names n) t with Some l => l | None => [] end)) /\
  enabled (register isB n t pr nms) = enabled n.
Proof.
  intro H. unfold register. fold (clean nms). destruct (clean nms) as [|c0 cr] eqn:E; [congruence|]. rewrite <- E. rewrite reg_fold_fst. cbn [prod names enabled]. auto.
Qed.
Lemma register_noop isB n t pr nms : clean nms = [] -> register isB n t pr nms = n.
Proof. intro H. unfold register. fold (clean nms). rewrite H. reflexivity. Qed.
Theorem register_R isB n t pr nms nm' t' :
  R (register isB n t pr nms) nm' t' = if existsb (seq_eq nm') (clean nms) && (t' =? t) then Some pr else R n nm' t'.
Proof.
  destruct (clean nms) as [|c0 cr] eqn:E; [rewrite register_noop by exact E; reflexivity|]. rewrite <- E.
  destruct (register_shape isB n t pr nms ltac:(rewrite E; discriminate)) as (P & _ & _). unfold R. rewrite P. apply Rp_fold_rstep.
Qed.

(* the by-target map lists every name a target is registered for *)
Definition Inv (n : notifier) : Prop := forall t nm, R n nm t <> None -> exists l, nlook (names n) t = Some l /\ In nm l.
Lemma sadd_in l n x : In x (sadd l n) <-> In x l \/ x = n.
Proof.
  unfold sadd. destruct (existsb (seq_eq n) l) eqn:E.
  - split; [auto|]. intros [I|Q]; [exact I|subst x]. apply existsb_exists in E. destruct E as (y & Iy & Ey). apply seq_eq_spec in Ey. subst y. exact Iy.
  - rewrite in_app_iff. cbn [In]. split; [intros [I|[Q|[]]]; [left; exact I|right; symmetry; exact Q]|intros [I|Q]; [left; exact I|right; left; symmetry; exact Q]].
Qed.
Lemma fold_sadd_in nn : forall l x, In x (fold_left sadd nn l) <-> In x l \/ In x nn.
Proof. induction nn as [|n nn IH]; intros l x; cbn [fold_left In]; [tauto|]. rewrite IH, sadd_in. split; [intros [[A|B]|C]; auto|intros [A|[B|C]]; auto]. Qed.
Lemma inv_register isB n t pr nms : Inv n -> Inv (register isB n t pr nms).
Proof.
  intros HI. destruct (clean nms) as [|c0 cr] eqn:E; [rewrite register_noop by exact E; exact HI|].
  destruct (register_shape isB n t pr nms ltac:(rewrite E; discriminate)) as (_ & Nm & _).
  intros t' nm' H. rewrite register_R in H. rewrite Nm, nlook_nset. destruct (t' =? t) eqn:Et.
  - apply Nat.eqb_eq in Et. subst t'. eexists. split; [reflexivity|]. apply fold_sadd_in. rewrite andb_true_r in H.
    destruct (existsb (seq_eq nm') (clean nms)) eqn:Ex.
    + right. apply existsb_exists in Ex. destruct Ex as (y & Iy & Ey). apply seq_eq_spec in Ey. subst y. exact Iy.
    + left. destruct (HI t nm' H) as (l & L & Il). rewrite L. exact Il.
  - rewrite andb_false_r in H. apply HI. exact H.
Qed.

(* T3: Unregister *)
Definition ustep (t : nat) (pm : pmap) (nm : str) := match plook pm nm with
  | Some set => let set' := filter (fun p => negb (fst p =? t)) set in match set' with [] => pdel pm nm | _ => pset pm nm set' end
  | None => pm end.
Lemma Rp_ustep t pm nm nm' t' : Rp (ustep t pm nm) nm' t' = if seq_eq nm' nm && (t' =? t) then None else Rp pm nm' t'.
Proof.
  unfold ustep. destruct (plook pm nm) as [set|] eqn:L.
  - assert (G : forall pm', (forall k, plook pm' k = if seq_eq k nm then (match filter (fun p => negb (fst p =? t)) set with [] => None | s => Some s end) else plook pm k) ->
       Rp pm' nm' t' = if seq_eq nm' nm && (t' =? t) then None else Rp pm nm' t').
    { intros pm' H. unfold Rp. rewrite H. destruct (seq_eq nm' nm) eqn:E; [|reflexivity]. apply seq_eq_spec in E. subst nm'. rewrite L. cbn [andb].
      pose proof (tlast_filter set t t') as TF. destruct (filter (fun p => negb (fst p =? t)) set) as [|q qs] eqn:Ef.
      - cbn [tlast] in TF. destruct (t' =? t); [reflexivity|exact TF].
      - exact TF. }
    destruct (filter (fun p => negb (fst p =? t)) set) as [|q qs] eqn:Ef; apply G; intro k.
    + rewrite plook_pdel. reflexivity.
    + rewrite plook_pset. reflexivity.
  - unfold Rp. destruct (seq_eq nm' nm) eqn:E; [|reflexivity]. apply seq_eq_spec in E. subst nm'. rewrite L. destruct (t' =? t); reflexivity.
Qed.
Lemma Rp_fold_ustep t nms : forall pm nm' t', Rp (fold_left (ustep t) nms pm) nm' t' = if existsb (seq_eq nm') nms && (t' =? t) then None else Rp pm nm' t'.
Proof.
  induction nms as [|nm nms IH]; intros pm nm' t'; [reflexivity|]. cbn [fold_left existsb]. rewrite IH, Rp_ustep.
  destruct (existsb (seq_eq nm') nms), (seq_eq nm' nm), (t' =? t); reflexivity.
Qed.
Theorem unregister_R isB n t nm' t' : Inv n -> R (unregister isB n t) nm' t' = if t' =? t then None else R n nm' t'.
Proof.
  intros HI. unfold unregister. destruct (nlook (names n) t) as [nms|] eqn:L.
  - unfold R. cbn [prod]. change (fold_left _ nms (prod n)) with (fold_left (ustep t) nms (prod n)). rewrite Rp_fold_ustep.
    destruct (t' =? t) eqn:Et; [|rewrite andb_false_r; reflexivity]. apply Nat.eqb_eq in Et. subst t'. rewrite andb_true_r.
    destruct (existsb (seq_eq nm') nms) eqn:Ex; [reflexivity|]. destruct (Rp (prod n) nm' t) eqn:ER; [|reflexivity]. exfalso.
    destruct (HI t nm' ltac:(unfold R; rewrite ER; discriminate)) as (l & L' & Il). rewrite L in L'. injection L' as <-.
    assert (existsb (seq_eq nm') nms = true) by (apply existsb_exists; exists nm'; split; [exact Il|apply seq_eq_refl]). congruence.
  - destruct (t' =? t) eqn:Et; [|reflexivity]. apply Nat.eqb_eq in Et. subst t'. destruct (R n nm' t) eqn:ER; [|reflexivity]. exfalso.
    destruct (HI t nm' ltac:(rewrite ER; discriminate)) as (l & L' & _). congruence.
Qed.
Lemma inv_unregister isB n t : Inv n -> Inv (unregister isB n t).
Proof.
  intros HI t' nm' H. rewrite unregister_R in H by exact HI. destruct (t' =? t) eqn:Et; [congruence|].
  destruct (HI t' nm' H) as (l & L & Il). exists l. split; [|exact Il]. unfold unregister. destruct (nlook (names n) t); [|exact L]. cbn [names]. rewrite nlook_filter, Et. exact L.
Qed.
Lemma R_reset n nm t : R (reset n) nm t = None. Proof. reflexivity. Qed.
Lemma inv_reset n : Inv (reset n). Proof. intros t nm H. rewrite R_reset in H. congruence. Qed.
Lemma inv_new : Inv new. Proof. intros t nm H. exfalso. apply H. reflexivity. Qed.

(* ---- RegisterFromNotifier ---- *)
Definition KU (n : notifier) : Prop := NoDup (map fst (prod n)).
Definition mstep (pm : pmap) (p : str * list (nat * Z)) : pmap :=
  match plook pm (fst p) with
  | Some mine => pset pm (fst p) (fold_left (fun a q => tset a (fst q) (snd q)) (snd p) mine)
  | None => pset pm (fst p) (snd p) end.
Lemma Rp_mstep pm k s nm t : Rp (mstep pm (k, s)) nm t = if seq_eq nm k then (match tlast s t with Some x => Some x | None => Rp pm k t end) else Rp pm nm t.
Proof.
  unfold mstep, Rp. cbn [fst snd]. destruct (plook pm k) as [mine|] eqn:L; rewrite plook_pset; destruct (seq_eq nm k) eqn:E; try reflexivity.
  - apply fold_tset_last.
  - destruct (tlast s t); reflexivity.
Qed.
Lemma Rp_cons k s l nm t : Rp ((k, s) :: l) nm t = if seq_eq nm k then tlast s t else Rp l nm t.
Proof. unfold Rp, plook. cbn [find fst snd]. rewrite (seq_eq_sym k nm). destruct (seq_eq nm k); reflexivity. Qed.
Lemma Rp_fold_mstep l : forall pm nm t, NoDup (map fst l) ->
  Rp (fold_left mstep l pm) nm t = match Rp l nm t with Some x => Some x | None => Rp pm nm t end.
Proof.
  induction l as [|[k s] l IH]; intros pm nm t H; [reflexivity|]. cbn [fold_left]. rewrite IH by (cbn [map] in H; inversion H; assumption). rewrite Rp_mstep, Rp_cons.
  destruct (seq_eq nm k) eqn:E; [|reflexivity].
  apply seq_eq_spec in E. subst nm. pose proof (glook_cons_nodup str (list (nat * Z)) seq_eq seq_eq_spec k s l H) as N. rewrite <- plook_is in N.
  unfold Rp at 1. rewrite N. reflexivity.
Qed.
Theorem register_from_R n other nm t : KU other -> R (register_from n other) nm t = match R other nm t with Some x => Some x | None => R n nm t end.
Proof. intro H. unfold R, register_from. cbn [prod]. change (fold_left _ (prod other) (prod n)) with (fold_left mstep (prod other) (prod n)). apply Rp_fold_mstep. exact H. Qed.

Lemma pset_keys m k v : NoDup (map fst m) -> NoDup (map fst (pset m k v)).
Proof. rewrite pset_is. apply gset_keys. exact seq_eq_spec. Qed.
Lemma pdel_keys m k : NoDup (map fst m) -> NoDup (map fst (pdel m k)).
Proof. rewrite pdel_is. apply gdel_keys. Qed.
Lemma fold_keys {A} (f : pmap -> A -> pmap) l : (forall pm a, NoDup (map fst pm) -> NoDup (map fst (f pm a))) -> forall pm, NoDup (map fst pm) -> NoDup (map fst (fold_left f l pm)).
Proof. intro Hf. induction l as [|a l IH]; intros pm H; [exact H|]. cbn [fold_left]. apply IH, Hf, H. Qed.
Lemma ku_register isB n t pr nms : KU n -> KU (register isB n t pr nms).
Proof.
  intro H. destruct (clean nms) as [|c0 cr] eqn:E; [rewrite register_noop by exact E; exact H|].
  destruct (register_shape isB n t pr nms ltac:(rewrite E; discriminate)) as (P & _ & _). unfold KU. rewrite P. apply fold_keys; [|exact H]. intros pm a Hp. apply pset_keys, Hp.
Qed.
Lemma ku_unregister isB n t : KU n -> KU (unregister isB n t).
Proof.
  intro H. unfold unregister. destruct (nlook (names n) t); [|exact H]. unfold KU. cbn [prod]. apply fold_keys; [|exact H]. intros pm a Hp.
  destruct (plook pm a); [|exact Hp]. destruct (filter _ _); [apply pdel_keys|apply pset_keys]; exact Hp.
Qed.
Lemma ku_register_from n other : KU n -> KU (register_from n other).
Proof. intro H. unfold KU, register_from. cbn [prod]. apply fold_keys; [|exact H]. intros pm a Hp. destruct (plook pm (fst a)); apply pset_keys, Hp. Qed.

Definition nmstep (nm : nmap) (p : nat * list str) : nmap :=
  match nlook nm (fst p) with Some mine => nset nm (fst p) (fold_left sadd (snd p) mine) | None => nset nm (fst p) (snd p) end.
Lemma nmstep_mono nm p t x : (exists l, nlook nm t = Some l /\ In x l) -> exists l, nlook (nmstep nm p) t = Some l /\ In x l.
Proof.
  intros (l & L & I). unfold nmstep. destruct (nlook nm (fst p)) as [mine|] eqn:Lp; rewrite nlook_nset; destruct (t =? fst p) eqn:Et; try (exists l; split; [exact L|exact I]).
  - apply Nat.eqb_eq in Et. subst t. rewrite L in Lp. injection Lp as <-. eexists. split; [reflexivity|]. apply fold_sadd_in. left. exact I.
  - apply Nat.eqb_eq in Et. subst t. congruence.
Qed.
Lemma nmstep_adds nm t l x : In x l -> exists l', nlook (nmstep nm (t, l)) t = Some l' /\ In x l'.
Proof.
  intro I. unfold nmstep. cbn [fst snd]. destruct (nlook nm t) as [mine|]; rewrite nlook_nset, Nat.eqb_refl; eexists; (split; [reflexivity|]); [apply fold_sadd_in; right; exact I|exact I].
Qed.
Lemma fold_nmstep lst : forall nm t x, (exists l, nlook nm t = Some l /\ In x l) \/ (exists l, In (t, l) lst /\ In x l) -> exists l', nlook (fold_left nmstep lst nm) t = Some l' /\ In x l'.
Proof.
  induction lst as [|p lst IH]; intros nm t x H; cbn [fold_left].
  - destruct H as [H|(l & [] & _)]. exact H.
  - apply IH. destruct H as [H|(l & [E|I] & Ix)].
    + left. apply nmstep_mono. exact H.
    + left. subst p. apply nmstep_adds. exact Ix.
    + right. exists l. auto.
Qed.
Lemma inv_register_from n other : Inv n -> Inv other -> KU other -> Inv (register_from n other).
Proof.
  intros Hn Ho Ku t nm H. rewrite register_from_R in H by exact Ku. unfold register_from. cbn [names]. change (fold_left _ (names other) (names n)) with (fold_left nmstep (names other) (names n)).
  apply fold_nmstep. destruct (R other nm t) eqn:E.
  - right. destruct (Ho t nm ltac:(rewrite E; discriminate)) as (l & L & I). exists l. split; [|exact I]. unfold nlook in L.
    destruct (find (fun p => fst p =? t) (names other)) as [[t0 l0]|] eqn:F; [|discriminate]. injection L as <-. apply find_some in F. destruct F as [F Ft]. cbn [fst] in Ft. apply Nat.eqb_eq in Ft. subst t0. exact F.
  - left. apply Hn. exact H.
Qed.

(* ---- specification: a registration relation and the enabled flag per notifier; every history refines it ---- *)
Record sspec := { sreg : str -> nat -> option Z; sen : bool }.
Definition sinit := {| sreg := fun _ _ => None; sen := true |}.
Definition sstep (ab : sspec * sspec) (o : op) : sspec * sspec :=
  let '(a, b) := ab in
  let pick w := if w =? 0 then a else b in
  let put w x := if w =? 0 then (x, b) else (a, x) in
  match o with
  | OReg w t pr nms => put w {| sreg := fun nm' t' => if existsb (seq_eq nm') (clean nms) && (t' =? t) then Some pr else sreg (pick w) nm' t'; sen := sen (pick w) |}
  | OFrom w => put w {| sreg := fun nm t => match sreg (pick (1 - w)) nm t with Some x => Some x | None => sreg (pick w) nm t end; sen := sen (pick w) |}
  | OUnreg w t => put w {| sreg := fun nm t' => if t' =? t then None else sreg (pick w) nm t'; sen := sen (pick w) |}
  | OEnable w e => put w {| sreg := sreg (pick w); sen := e |}
  | OReset w => put w {| sreg := fun _ _ => None; sen := sen (pick w) |}
  | ONotify _ _ | OStart _ | OEnd _ => ab
  end.
(* what a Notify must deliver, in terms of the specification alone *)
Definition out_ok (ab : sspec * sspec) (o : op) (x : out) : Prop :=
  match o, x with
  | ONotify w nm, OTargets l =>
      let a := if w =? 0 then fst ab else snd ab in
      if sen a && negb (match segs nm [] with [] => true | _ => false end)
      then NoDup (map fst l) /\ forall t p, In (t, p) l <-> msp (sreg a) (ancestors nm) t = Some p
      else l = []
  | ONotify _ _, _ => False
  | _, _ => True
  end.
Definition rel1 (n : notifier) (a : sspec) : Prop := Inv n /\ KU n /\ (forall nm t, R n nm t = sreg a nm t) /\ enabled n = sen a.
Definition rel (s : notifier * notifier) (ab : sspec * sspec) : Prop := rel1 (fst s) (fst ab) /\ rel1 (snd s) (snd ab).

Lemma msp_ext r r' ancs t : (forall nm t, r nm t = r' nm t) -> msp r ancs t = msp r' ancs t.
Proof. intro H. unfold msp. generalize (@None Z). induction ancs as [|a ancs IH]; intro acc; [reflexivity|]. cbn [fold_left]. rewrite H. apply IH. Qed.
Lemma rel1_notify n a nm : rel1 n a -> out_ok (a, a) (ONotify 0 nm) (OTargets (notify n nm)).
Proof.
  intros (_ & _ & HR & He). cbn [out_ok Nat.eqb fst]. rewrite <- He. destruct (enabled n) eqn:E; [|rewrite notify_disabled by exact E; reflexivity].
  destruct (segs nm []) as [|s0 sg] eqn:Es; cbn [andb negb]; [apply notify_empty_name; exact Es|].
  destruct (notify_exact n nm E ltac:(rewrite Es; discriminate)) as [K M]. split; [exact K|]. intros t p. rewrite M. rewrite (msp_ext (R n) (sreg a)) by exact HR. reflexivity.
Qed.
Lemma rel1_fields n n' a : prod n' = prod n -> names n' = names n -> enabled n' = enabled n -> rel1 n a -> rel1 n' a.
Proof. intros P N E (I & K & HR & He). unfold rel1, Inv, KU, R in *. rewrite P, N, E. auto. Qed.
Lemma rel1_start n a : rel1 n a -> rel1 (fst (start_batch n)) a.
Proof.
  apply rel1_fields; unfold start_batch; destruct (enabled n) eqn:E; try reflexivity; destruct (level n); destruct (batchT n); cbn; auto.
Qed.
Lemma rel1_end n a : rel1 n a -> rel1 (fst (end_batch n)) a.
Proof.
  apply rel1_fields; unfold end_batch; destruct (enabled n) eqn:E; cbn [andb]; try reflexivity; destruct (0 <? level n); try reflexivity; destruct (pred (level n)); cbn; auto.
Qed.

Lemma step_refines s ab o : rel s ab -> rel (fst (step s o)) (sstep ab o) /\ out_ok ab o (snd (step s o)).
Proof.
  destruct s as [na nb], ab as [a b]. intros [Ra Rb]. cbn [fst snd] in Ra, Rb.
  assert (PK : forall w, rel1 (if w =? 0 then na else nb) (if w =? 0 then a else b)) by (intro w; destruct (w =? 0); assumption).
  assert (PUT : forall w n' a', rel1 n' a' -> rel (if w =? 0 then (n', nb) else (na, n')) (if w =? 0 then (a', b) else (a, a'))) by (intros w n' a' H; destruct (w =? 0); split; assumption).
  destruct o as [w t pr nms|w|w t|w e|w|w nm|w|w]; cbn [step sstep].
  - split; [|exact I]. cbn [fst]. apply PUT. destruct (PK w) as (I & K & HR & He). split; [apply inv_register; exact I|]. split; [apply ku_register; exact K|]. split.
    + intros nm' t'. rewrite register_R. cbn [sreg]. rewrite HR. reflexivity.
    + cbn [sen]. rewrite <- He. destruct (clean nms) eqn:E; [rewrite register_noop by exact E; reflexivity|]. apply (register_shape isBatch _ t pr nms). rewrite E. discriminate.
  - split; [|exact I]. cbn [fst]. apply PUT. destruct (PK w) as (I & K & HR & He). destruct (PK (1 - w)) as (I' & K' & HR' & He').
    split; [apply inv_register_from; assumption|]. split; [apply ku_register_from; exact K|]. split.
    + intros nm t. rewrite register_from_R by exact K'. cbn [sreg]. rewrite HR, HR'. reflexivity.
    + cbn [sen]. exact He.
  - split; [|exact I]. cbn [fst]. apply PUT. destruct (PK w) as (I & K & HR & He). split; [apply inv_unregister; exact I|]. split; [apply ku_unregister; exact K|]. split.
    + intros nm t'. rewrite unregister_R by exact I. cbn [sreg]. rewrite HR. reflexivity.
    + cbn [sen]. rewrite <- He. unfold unregister. destruct (nlook _ _); reflexivity.
  - split; [|exact I]. cbn [fst]. apply PUT. destruct (PK w) as (I & K & HR & He). split; [exact I|]. split; [exact K|]. split; [exact HR|reflexivity].
  - split; [|exact I]. cbn [fst]. apply PUT. destruct (PK w) as (I & K & HR & He). split; [apply inv_reset|]. split; [constructor|]. split; [intros; reflexivity|exact He].
  - cbn [fst snd]. split; [split; assumption|]. pose proof (rel1_notify _ _ nm (PK w)) as N. cbn [out_ok Nat.eqb fst snd] in *. destruct (w =? 0); exact N.
  - pose proof (rel1_start _ _ (PK w)) as S1. destruct (start_batch (if w =? 0 then na else nb)) as [x l]. cbn [fst snd] in *. split; [destruct (w =? 0); split; assumption|exact I].
  - pose proof (rel1_end _ _ (PK w)) as S1. destruct (end_batch (if w =? 0 then na else nb)) as [x l]. cbn [fst snd] in *. split; [destruct (w =? 0); split; assumption|exact I].
Qed.

Fixpoint go (s : notifier * notifier) (ops : list op) : list out := match ops with [] => [] | o :: r => let '(s', x) := step s o in x :: go s' r end.
Lemma run_go ops : run ops = go (new, new) ops. Proof. reflexivity. Qed.
Fixpoint outs_ok (ab : sspec * sspec) (ops : list op) (outs : list out) : Prop :=
  match ops, outs with
  | [], [] => True
  | o :: r, x :: xs => out_ok ab o x /\ outs_ok (sstep ab o) r xs
  | _, _ => False
  end.
Theorem history_refines ops : outs_ok (sinit, sinit) ops (run ops).
Proof.
  rewrite run_go. assert (G : forall s ab, rel s ab -> outs_ok ab ops (go s ops)).
  { induction ops as [|o ops IH]; intros s ab H; [exact I|]. cbn [go]. destruct (step_refines s ab o H) as [H1 H2]. destruct (step s o) as [s' x]. cbn [fst snd] in *.
    cbn [outs_ok]. split; [exact H2|apply IH; exact H1]. }
  apply G. split; (split; [apply inv_new|]; split; [constructor|]; split; [intros; reflexivity|reflexivity]).
Qed.
