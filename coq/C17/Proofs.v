(* C17 — lemmas about the notifier model *)
From Coq Require Import ZArith List Bool Arith Lia.
From Verif Require Import C17.Model.
Import ListNotations.

(* the names consulted by Notify are exactly the dot-ancestors of the (normalised) name: the joins of its non-empty leading
   segment lists - never a textual prefix that is not a segment prefix *)
Lemma prefixes_spec : forall sg acc, prefixes sg acc = map (fun k => join (acc ++ firstn k sg)) (seq 1 (length sg)).
Proof.
  induction sg as [|x sg IH]; intro acc; [reflexivity|]. cbn [prefixes length seq map]. f_equal.
  rewrite IH. rewrite <- (seq_shift (length sg) 1), map_map. apply map_ext. intro k. cbn [firstn]. rewrite <- app_assoc. reflexivity.
Qed.

Theorem notify_consults_ancestors n name : enabled n = true -> segs name [] <> [] ->
  notify n name =
  fold_left (fun acc pre => match plook (prod n) pre with Some set => fold_left (fun a p => tset a (fst p) (snd p)) set acc | None => acc end)
            (map (fun k => join (firstn k (segs name []))) (seq 1 (length (segs name [])))) [].
Proof.
  intros He Hs. unfold notify. rewrite He. destruct (segs name []) as [|s0 sg] eqn:E; [congruence|].
  rewrite prefixes_spec. reflexivity.
Qed.

Theorem notify_disabled n name : enabled n = false -> notify n name = [].
Proof. intro H. unfold notify. rewrite H. reflexivity. Qed.
Theorem notify_empty_name n name : segs name [] = [] -> notify n name = [].
Proof. intro H. unfold notify. rewrite H. destruct (enabled n); reflexivity. Qed.

Lemma fold_none {A} (l : list A) (acc : list (nat * Z)) : fold_left (fun a (_ : A) => a) l acc = acc.
Proof. induction l; cbn; auto. Qed.
Theorem notify_after_reset n name : notify (reset n) name = [].
Proof.
  unfold notify, reset. cbn [enabled prod]. destruct (enabled n); [|reflexivity]. destruct (segs name []) as [|s sg]; [reflexivity|].
  induction (prefixes (s :: sg) []) as [|p l IH]; [reflexivity|]. cbn [fold_left plook find]. exact IH.
Qed.
Theorem reset_clears n : batchT (reset n) = [] /\ prod (reset n) = [] /\ names (reset n) = [] /\ curBatch (reset n) = [] /\ level (reset n) = 0 /\ enabled (reset n) = enabled n.
Proof. repeat split. Qed.

(* StartBatch / EndBatch nest: k starts then k ends on an enabled notifier at level 0 call BatchMode(true) once (first start)
   and BatchMode(false) once (last end), to the same targets *)
Fixpoint starts (k : nat) (n : notifier) : notifier * list (list nat) :=
  match k with O => (n, []) | S k' => let '(n1, l) := start_batch n in let '(n2, ls) := starts k' n1 in (n2, l :: ls) end.
Fixpoint ends (k : nat) (n : notifier) : notifier * list (list nat) :=
  match k with O => (n, []) | S k' => let '(n1, l) := end_batch n in let '(n2, ls) := ends k' n1 in (n2, l :: ls) end.

Lemma starts_from_positive : forall k n, enabled n = true -> 0 < level n ->
  let '(n', ls) := starts k n in level n' = level n + k /\ enabled n' = true /\ curBatch n' = curBatch n /\ batchT n' = batchT n /\ Forall (fun l => l = []) ls.
Proof.
  induction k as [|k IH]; intros n He Hl.
  { cbn [starts]. repeat split; auto; lia. }
  cbn [starts]. unfold start_batch. rewrite He.
  assert (E : forall A (x y : A), match S (level n), batchT n with 1, _ :: _ => x | _, _ => y end = y).
  { intros. destruct (level n); [lia|]. destruct (batchT n); reflexivity. }
  rewrite E. clear E.
  specialize (IH {| batchT := batchT n; prod := prod n; names := names n; curBatch := curBatch n; level := S (level n); enabled := true |} eq_refl ltac:(cbn; lia)).
  destruct (starts k _) as [n2 ls]. cbn [level enabled curBatch batchT] in IH. destruct IH as (A & B & C & D & F).
  split; [lia|]. split; [exact B|]. split; [exact C|]. split; [exact D|]. constructor; auto.
Qed.

Lemma ends_spec : forall k n, enabled n = true -> level n = k -> 0 < k ->
  let '(n', ls) := ends k n in level n' = 0 /\ curBatch n' = [] /\ enabled n' = true /\ batchT n' = batchT n /\
  exists pre, ls = pre ++ [curBatch n] /\ Forall (fun l => l = []) pre.
Proof.
  induction k as [|k IH]; intros n He Hl Hk.
  { lia. }
  cbn [ends]. unfold end_batch. rewrite He, Hl. cbn [andb Nat.ltb Nat.leb pred].
  destruct k as [|k].
  - cbn [ends level curBatch enabled batchT]. repeat split; auto. exists []. split; [reflexivity|constructor].
  - specialize (IH {| batchT := batchT n; prod := prod n; names := names n; curBatch := curBatch n; level := S k; enabled := true |} eq_refl eq_refl ltac:(lia)).
    destruct (ends (S k) _) as [n2 ls]. cbn [level enabled curBatch batchT] in IH. destruct IH as (A & B & C & D & pre & E & F).
    repeat split; auto. exists ([] :: pre). split; [rewrite E; reflexivity | constructor; auto].
Qed.

Theorem batches_nest k n : enabled n = true -> level n = 0 -> batchT n <> [] ->
  let '(n1, ls1) := starts (S k) n in
  let '(n2, ls2) := ends (S k) n1 in
  (exists rest, ls1 = batchT n :: rest /\ Forall (fun l => l = []) rest) /\
  (exists pre, ls2 = pre ++ [batchT n] /\ Forall (fun l => l = []) pre) /\
  level n2 = 0 /\ curBatch n2 = [].
Proof.
  intros He Hl Hb. cbn [starts]. unfold start_batch at 1. rewrite He, Hl. destruct (batchT n) as [|b bt] eqn:Eb; [congruence|].
  set (n1 := {| batchT := b :: bt; prod := prod n; names := names n; curBatch := b :: bt; level := 1; enabled := true |}).
  pose proof (starts_from_positive k n1 eq_refl ltac:(cbn; lia)) as S1. destruct (starts k n1) as [n2 ls]. cbn [level enabled curBatch batchT n1] in S1.
  destruct S1 as (A & B & C & D & F).
  pose proof (ends_spec (S k) n2 B ltac:(lia) ltac:(lia)) as S2. destruct (ends (S k) n2) as [n3 ls2].
  destruct S2 as (A2 & B2 & C2 & D2 & pre & E2 & F2). rewrite C in E2.
  split; [exists ls; auto|]. split; [exists pre; auto|]. auto.
Qed.
