(* C06 — property theorems only. cmp is any comparison function that is sign-antisymmetric and whose "<= 0" is transitive
   (a total preorder); keys and values are integers. The spec is the list of entries in key order, equal keys in
   insertion order: sins inserts before the first strictly greater key, srem drops the first entry equal to the key. *)
From Coq Require Import ZArith List Bool.
From Verif Require Import C06.Model C06.Proofs C06.Glue.
Import ListNotations.
Open Scope Z_scope.

(* every history of Insert/Remove: the operations never get stuck (no nil sibling), the in-order sequence is the spec list,
   and the red-black invariants, a black root and key order hold after every operation *)
Theorem C06_history_refines_ordered_multimap :
  forall cmp : Z -> Z -> Z,
  (forall a b, (cmp a b <? 0) = (0 <? cmp b a)) ->
  (forall a b c, cmp a b <= 0 -> cmp b c <= 0 -> cmp a c <= 0) ->
  forall ops : list op,
  exists t, fold_left (stepc cmp) ops (Some E) = Some t /\
            inorder t = fold_left (spec_step cmp) ops [] /\
            rb t = true /\ isBlack t = true /\ bst cmp t.
Proof. exact history_refines. Qed.
Print Assumptions C06_history_refines_ordered_multimap.

(* the instance the harness runs: integer keys with the usual order *)
Theorem C06_history_integer_keys : forall ops : list op,
  exists t, fold_left step ops (Some E) = Some t /\ inorder t = fold_left (spec_step zcmp) ops [] /\
            rb t = true /\ isBlack t = true /\ bst zcmp t.
Proof. exact (history_refines zcmp zcmp_anti zcmp_trans). Qed.
Print Assumptions C06_history_integer_keys.

(* Count *)
Theorem C06_count : forall t, size t = length (inorder t).
Proof. exact size_spec. Qed.
Print Assumptions C06_count.

(* Traverse / ReverseTraverse visit the entries in order / reverse order and stop as soon as the visitor returns false *)
Theorem C06_traverse : forall t vis, trav t vis = visit (map snd (inorder t)) vis.
Proof. exact trav_spec. Qed.
Print Assumptions C06_traverse.
Theorem C06_reverse_traverse : forall t vis, rtrav t vis = visit (rev (map snd (inorder t))) vis.
Proof. exact rtrav_spec. Qed.
Print Assumptions C06_reverse_traverse.

(* TraverseStartingAt: exactly the entries with key >= the start key, in order; the reverse form: key <= start, in reverse *)
Theorem C06_traverse_starting_at :
  forall cmp : Z -> Z -> Z,
  (forall a b, (cmp a b <? 0) = (0 <? cmp b a)) ->
  (forall a b c, cmp a b <= 0 -> cmp b c <= 0 -> cmp a c <= 0) ->
  forall t key vis, bst cmp t ->
  trav_ge cmp t key vis = visit (map snd (filter (ge_key cmp key) (inorder t))) vis.
Proof. intros cmp _ Ht. exact (trav_ge_spec cmp Ht). Qed.
Print Assumptions C06_traverse_starting_at.
Theorem C06_reverse_traverse_starting_at :
  forall cmp : Z -> Z -> Z,
  (forall a b, (cmp a b <? 0) = (0 <? cmp b a)) ->
  (forall a b c, cmp a b <= 0 -> cmp b c <= 0 -> cmp a c <= 0) ->
  forall t key vis, bst cmp t ->
  trav_le cmp t key vis = visit (rev (map snd (filter (le_key cmp key) (inorder t)))) vis.
Proof. exact trav_le_spec. Qed.
Print Assumptions C06_reverse_traverse_starting_at.

(* Get returns the first entry (in order) whose key equals the probe; First/Last are the ends of the order *)
Theorem C06_get_first_equal :
  forall cmp : Z -> Z -> Z,
  (forall a b, (cmp a b <? 0) = (0 <? cmp b a)) ->
  (forall a b c, cmp a b <= 0 -> cmp b c <= 0 -> cmp a c <= 0) ->
  forall t key, bst cmp t -> get cmp t key = option_map snd (find (eq_key cmp key) (inorder t)).
Proof. exact get_spec. Qed.
Print Assumptions C06_get_first_equal.
Theorem C06_first_last : forall t,
  first t = option_map snd (hd_error (inorder t)) /\ last t = option_map snd (hd_error (rev (inorder t))).
Proof. intro t. split; [exact (first_spec t) | exact (last_spec t)]. Qed.
Print Assumptions C06_first_last.

(* balance: height and the number of key comparisons of find / Insert are at most 2*log2(n+1) (+1 for Insert's repeated
   comparison with the parent) in every tree satisfying the invariants - which every reachable tree does, by the first theorem *)
Theorem C06_height_logarithmic : forall t, rb t = true -> isBlack t = true -> (height t <= 2 * Nat.log2 (size t + 1))%nat.
Proof. exact height_log. Qed.
Print Assumptions C06_height_logarithmic.
Theorem C06_comparison_bound : forall cmp t k, rb t = true -> isBlack t = true ->
  (find_cmps cmp t k <= 2 * Nat.log2 (size t + 1) /\ insert_cmps cmp t k <= 2 * Nat.log2 (size t + 1) + 1)%nat.
Proof. exact comparison_bound. Qed.
Print Assumptions C06_comparison_bound.

(* non-vacuity / regression: three equal keys where rotations move the first one off the left spine *)
Example C06_ex_duplicates :
  let t := fold_left step [Ins 5 1; Ins 5 2; Ins 5 3; Ins 5 4; Ins 5 5] (Some E) in
  match t with
  | Some t => map snd (inorder t) = [1; 2; 3; 4; 5] /\ get zcmp t 5 = Some 1 /\
              fst (trav_ge zcmp t 5 (fun _ => true)) = [1; 2; 3; 4; 5] /\ rb t = true
  | None => False
  end.
Proof. vm_compute. repeat split. Qed.
Example C06_ex_remove_first :
  match fold_left step [Ins 5 1; Ins 5 2; Ins 5 3; Ins 3 4; Ins 5 5; Rem 5] (Some E) with
  | Some t => map snd (inorder t) = [4; 2; 3; 5]
  | None => False
  end.
Proof. vm_compute. reflexivity. Qed.
