(* C06 — glue lemmas: the tree operations refine the sorted-list multimap; balance gives the comparison bound *)
From Coq Require Import ZArith List Bool Lia Sorted.
From Verif Require Import C06.Model C06.Proofs.
Import ListNotations.

(* =====================================================================================================
   Glue: the tree operations refine the sorted-list multimap, for any total preorder given by cmp
   ===================================================================================================== *)
Open Scope Z_scope.
Section Order.
Variable cmp : Z -> Z -> Z.
Hypothesis cmp_anti : forall a b, (cmp a b <? 0) = (0 <? cmp b a).
Hypothesis cmp_trans : forall a b c, cmp a b <= 0 -> cmp b c <= 0 -> cmp a c <= 0.

Lemma cmp_refl a : cmp a a = 0.
Proof. pose proof (cmp_anti a a). destruct (cmp a a <? 0) eqn:E1, (0 <? cmp a a) eqn:E2; try discriminate; lia. Qed.
Lemma cmp_sym0 a b : cmp a b = 0 -> cmp b a = 0.
Proof. intro H. pose proof (cmp_anti a b) as A. pose proof (cmp_anti b a) as B. rewrite H in *. cbn in *.
  destruct (0 <? cmp b a) eqn:E1; [discriminate|]. destruct (cmp b a <? 0) eqn:E2; [discriminate|]. lia. Qed.
Lemma cmp_ge_le a b : 0 <= cmp a b -> cmp b a <= 0.
Proof. intro H. pose proof (cmp_anti a b) as A. destruct (cmp a b <? 0) eqn:E; [lia|]. symmetry in A. apply Z.ltb_ge in A. exact A. Qed.
Lemma cmp_le_ge a b : cmp a b <= 0 -> 0 <= cmp b a.
Proof. intro H. pose proof (cmp_anti b a) as A. destruct (0 <? cmp a b) eqn:E; [lia|]. apply Z.ltb_ge in A. exact A. Qed.
Lemma cmp_lt_gt a b : cmp a b < 0 -> 0 < cmp b a.
Proof. intro H. pose proof (cmp_anti a b) as A. rewrite (proj2 (Z.ltb_lt _ _) H) in A. symmetry in A. apply Z.ltb_lt in A. exact A. Qed.
Lemma cmp_gt_lt a b : 0 < cmp a b -> cmp b a < 0.
Proof. intro H. pose proof (cmp_anti b a) as A. rewrite (proj2 (Z.ltb_lt _ _) H) in A. apply Z.ltb_lt in A. exact A. Qed.

Definition kle (x y : Z * Z) : Prop := cmp (fst x) (fst y) <= 0.
(* every key of l is <= k / >= k *)
Definition all_le (l : list (Z * Z)) (k : Z) : Prop := forall x, In x l -> cmp (fst x) k <= 0.
Definition all_ge (l : list (Z * Z)) (k : Z) : Prop := forall x, In x l -> cmp k (fst x) <= 0.
(* binary-search-tree property: in-order keys are sorted *)
Fixpoint bst (t : tree) : Prop :=
  match t with E => True | T _ l k _ r => bst l /\ bst r /\ all_le (inorder l) k /\ all_ge (inorder r) k end.

(* ---------- Insert ---------- *)
(* sins = split at the first key strictly greater than k *)
Fixpoint takeW (l : list (Z * Z)) (k : Z) : list (Z * Z) :=
  match l with [] => [] | x :: r => if cmp k (fst x) <? 0 then [] else x :: takeW r k end.
Fixpoint dropW (l : list (Z * Z)) (k : Z) : list (Z * Z) :=
  match l with [] => [] | x :: r => if cmp k (fst x) <? 0 then l else dropW r k end.
Lemma sins_split l k v : sins cmp l k v = takeW l k ++ (k, v) :: dropW l k.
Proof. induction l as [|[k' v'] l IH]; cbn; [reflexivity|]. destruct (cmp k k' <? 0); [reflexivity|]. rewrite IH. reflexivity. Qed.
Lemma takeW_app_stop l1 x l2 k : cmp k (fst x) <? 0 = true ->
  takeW (l1 ++ x :: l2) k = takeW l1 k /\ dropW (l1 ++ x :: l2) k = dropW l1 k ++ x :: l2.
Proof.
  intro Hx. induction l1 as [|y l1 IH]; cbn; [rewrite Hx; auto|].
  destruct (cmp k (fst y) <? 0); [auto|]. destruct IH as [-> ->]. auto.
Qed.
Lemma takeW_app_pass l1 x l2 k : (forall y, In y (l1 ++ [x]) -> cmp k (fst y) <? 0 = false) ->
  takeW (l1 ++ x :: l2) k = l1 ++ x :: takeW l2 k /\ dropW (l1 ++ x :: l2) k = dropW l2 k.
Proof.
  intro H. induction l1 as [|y l1 IH]; cbn.
  - rewrite (H x) by (left; reflexivity). auto.
  - rewrite (H y) by (left; reflexivity). destruct IH as [-> ->]; [intros z Hz; apply H; right; exact Hz|]. auto.
Qed.

Lemma descend_split t k : forall p, bst t ->
  lctx (descend cmp t k p) = lctx p ++ takeW (inorder t) k /\ rctx (descend cmp t k p) = dropW (inorder t) k ++ rctx p.
Proof.
  induction t as [|b l IHl k' v' r IHr]; intros p B; cbn [descend inorder takeW dropW].
  - rewrite app_nil_r. auto.
  - destruct B as (Bl & Br & Al & Ar). destruct (cmp k k' <? 0) eqn:E.
    + destruct (IHl (PL b k' v' r :: p) Bl) as [-> ->]. cbn [lctx rctx].
      destruct (takeW_app_stop (inorder l) (k', v') (inorder r) k E) as [-> ->]. rewrite <- app_assoc. auto.
    + destruct (IHr (PR b l k' v' :: p) Br) as [-> ->]. cbn [lctx rctx].
      assert (P : forall y, In y (inorder l ++ [(k', v')]) -> cmp k (fst y) <? 0 = false).
      { intros y Hy. apply Z.ltb_ge. apply in_app_or in Hy. apply Z.ltb_ge in E. destruct Hy as [Hy|[<-|[]]]; [|exact E].
        apply cmp_le_ge. eapply cmp_trans; [apply Al; exact Hy | apply cmp_ge_le; exact E]. }
      destruct (takeW_app_pass (inorder l) (k', v') (inorder r) k P) as [-> ->].
      rewrite <- !app_assoc. cbn [app]. auto.
Qed.

Theorem inorder_insert_spec t k v : bst t -> inorder (insert cmp t k v) = sins cmp (inorder t) k v.
Proof.
  intro B. rewrite inorder_insert, sins_split. destruct (descend_split t k [] B) as [-> ->]. cbn [lctx rctx app]. rewrite app_nil_r. reflexivity.
Qed.

(* sortedness of the spec list is what bst says about the in-order sequence *)
Lemma bst_sorted t : bst t <-> StronglySorted kle (inorder t).
Proof.
  induction t as [|b l IHl k v r IHr]; cbn [bst inorder]; [split; auto; constructor|].
  split.
  - intros (Bl & Br & Al & Ar). apply IHl in Bl. apply IHr in Br.
    assert (G : forall l1, StronglySorted kle l1 -> (forall x, In x l1 -> cmp (fst x) k <= 0) ->
                StronglySorted kle (l1 ++ (k, v) :: inorder r)).
    { induction l1 as [|y l1 IH]; intros S A; cbn.
      - constructor; [exact Br|]. apply Forall_forall. intros x Hx. apply Ar. exact Hx.
      - inversion S as [|? ? S' F]; subst. constructor; [apply IH; [exact S'|intros; apply A; right; assumption]|].
        apply Forall_forall. intros x Hx. apply in_app_or in Hx. destruct Hx as [Hx|[<-|Hx]].
        + rewrite Forall_forall in F. apply F. exact Hx.
        + apply A. left. reflexivity.
        + unfold kle. eapply cmp_trans; [apply A; left; reflexivity | apply Ar; exact Hx]. }
    apply G; assumption.
  - intro S.
    assert (Sl : StronglySorted kle (inorder l)).
    { clear -S. induction (inorder l) as [|y l1 IH]; [constructor|]. cbn in S. inversion S as [|? ? S' F]; subst.
      constructor; [apply IH; exact S'|]. apply Forall_forall. intros x Hx. rewrite Forall_forall in F. apply F. apply in_or_app. left. exact Hx. }
    assert (Sr : StronglySorted kle ((k, v) :: inorder r)).
    { clear -S. induction (inorder l) as [|y l1 IH]; [exact S|]. cbn in S. inversion S; subst. apply IH. assumption. }
    assert (Al : all_le (inorder l) k).
    { clear -S. intros x Hx. induction (inorder l) as [|y l1 IH]; [destruct Hx|]. cbn in S. inversion S as [|? ? S' F]; subst.
      destruct Hx as [<-|Hx]; [|apply IH; assumption]. rewrite Forall_forall in F. apply (F (k, v)). apply in_or_app. right. left. reflexivity. }
    inversion Sr as [|? ? Sr' Fr]; subst.
    repeat split; [apply IHl; exact Sl | apply IHr; exact Sr' | exact Al |].
    intros x Hx. rewrite Forall_forall in Fr. apply (Fr x Hx).
Qed.

Lemma sins_sorted l k v : StronglySorted kle l -> StronglySorted kle (sins cmp l k v).
Proof.
  induction l as [|[k' v'] l IH]; intro S; cbn [sins]; [repeat constructor|].
  inversion S as [|? ? S' F]; subst. destruct (cmp k k' <? 0) eqn:E.
  - apply Z.ltb_lt in E. constructor; [exact S|]. constructor; [unfold kle; cbn; lia|].
    rewrite Forall_forall in *. intros x Hx. unfold kle in *. cbn [fst] in *. eapply cmp_trans; [|apply F; exact Hx]. lia.
  - apply Z.ltb_ge in E. constructor; [apply IH; exact S'|].
    rewrite Forall_forall in *. intros x Hx.
    assert (In x ((k, v) :: l)).
    { rewrite sins_split in Hx. apply in_app_or in Hx. destruct Hx as [Hx|[<-|Hx]]; [right|left; reflexivity|right].
      - clear -Hx. induction l as [|y l IH]; [destruct Hx|]. cbn in Hx. destruct (cmp k (fst y) <? 0); [destruct Hx|].
        destruct Hx as [<-|Hx]; [left; reflexivity|right; apply IH; exact Hx].
      - clear -Hx. induction l as [|y l IH]; [destruct Hx|]. cbn in Hx. destruct (cmp k (fst y) <? 0); [exact Hx|]. right. apply IH. exact Hx. }
    destruct H as [<-|H]; [unfold kle; cbn; apply cmp_ge_le; exact E | apply F; exact H].
Qed.

Theorem bst_insert t k v : bst t -> bst (insert cmp t k v).
Proof. intro B. apply bst_sorted. rewrite inorder_insert_spec by exact B. apply sins_sorted. apply bst_sorted. exact B. Qed.
End Order.

(* ---------- traversals and point queries against the entry list ---------- *)
Lemma visit_app l1 l2 vis :
  visit (l1 ++ l2) vis = let '(a, c) := visit l1 vis in if c then let '(b, c2) := visit l2 vis in (a ++ b, c2) else (a, false).
Proof.
  induction l1 as [|x l1 IH]; cbn [app visit].
  - destruct (visit l2 vis). reflexivity.
  - destruct (vis x); [|reflexivity]. rewrite IH. destruct (visit l1 vis) as [a c]. destruct c; [|reflexivity].
    destruct (visit l2 vis). reflexivity.
Qed.
Lemma visit_false l vis a : visit l vis = (a, false) -> True. Proof. auto. Qed.

Theorem trav_spec t vis : trav t vis = visit (map snd (inorder t)) vis.
Proof.
  induction t as [|b l IHl k v r IHr]; [reflexivity|]. cbn [trav inorder]. rewrite map_app, visit_app. cbn [map snd visit].
  rewrite IHl, IHr. destruct (visit (map snd (inorder l)) vis) as [a c]. destruct c; cbn [negb].
  - destruct (vis v); [|reflexivity]. destruct (visit (map snd (inorder r)) vis). reflexivity.
  - reflexivity.
Qed.
Theorem rtrav_spec t vis : rtrav t vis = visit (rev (map snd (inorder t))) vis.
Proof.
  induction t as [|b l IHl k v r IHr]; [reflexivity|]. cbn [rtrav inorder]. rewrite map_app, rev_app_distr. cbn [map snd rev].
  rewrite <- app_assoc, visit_app. cbn [app]. rewrite IHl, IHr. destruct (visit (rev (map snd (inorder r))) vis) as [a c]. destruct c; cbn [negb].
  - cbn [visit]. destruct (vis v); [|reflexivity]. destruct (visit (rev (map snd (inorder l))) vis). reflexivity.
  - reflexivity.
Qed.

Section Order2.
Variable cmp : Z -> Z -> Z.
Hypothesis cmp_anti : forall a b, (cmp a b <? 0) = (0 <? cmp b a).
Hypothesis cmp_trans : forall a b c, cmp a b <= 0 -> cmp b c <= 0 -> cmp a c <= 0.

Definition ge_key (key : Z) (x : Z * Z) : bool := cmp key (fst x) <=? 0.    (* entry key >= probe key *)
Definition le_key (key : Z) (x : Z * Z) : bool := 0 <=? cmp key (fst x).    (* entry key <= probe key *)
Definition eq_key (key : Z) (x : Z * Z) : bool := cmp key (fst x) =? 0.

Lemma filter_none {A} (f : A -> bool) l : (forall x, In x l -> f x = false) -> filter f l = [].
Proof. induction l as [|y l IH]; intro H; cbn; [reflexivity|]. rewrite (H y) by (left; reflexivity). apply IH. intros; apply H; right; assumption. Qed.
Lemma filter_all {A} (f : A -> bool) l : (forall x, In x l -> f x = true) -> filter f l = l.
Proof. induction l as [|y l IH]; intro H; cbn; [reflexivity|]. rewrite (H y) by (left; reflexivity). f_equal. apply IH. intros; apply H; right; assumption. Qed.

Theorem trav_ge_spec t key vis : bst cmp t ->
  trav_ge cmp t key vis = visit (map snd (filter (ge_key key) (inorder t))) vis.
Proof.
  induction t as [|b l IHl k v r IHr]; intro B; [reflexivity|]. destruct B as (Bl & Br & Al & Ar).
  cbn [trav_ge inorder]. rewrite filter_app, map_app, visit_app. cbn [filter]. unfold ge_key at 2. cbn [fst].
  rewrite (IHr Br). destruct (cmp key k <=? 0) eqn:E.
  - rewrite (IHl Bl). destruct (visit (map snd (filter (ge_key key) (inorder l))) vis) as [a c]. destruct c; cbn [negb]; [|reflexivity].
    cbn [map snd visit]. destruct (vis v); cbn [negb].
    + destruct (visit (map snd (filter (ge_key key) (inorder r))) vis). reflexivity.
    + reflexivity.
  - apply Z.leb_gt in E.
    rewrite (filter_none (ge_key key) (inorder l)).
    + cbn [map visit negb app]. destruct (visit (map snd (filter (ge_key key) (inorder r))) vis). reflexivity.
    + intros x Hx. unfold ge_key. apply Z.leb_gt.
      destruct (Z_lt_le_dec 0 (cmp key (fst x))) as [?|Le]; [assumption|exfalso].
      assert (cmp key k <= 0) by (eapply cmp_trans; [exact Le | apply Al; exact Hx]). lia.
Qed.

Theorem trav_le_spec t key vis : bst cmp t ->
  trav_le cmp t key vis = visit (rev (map snd (filter (le_key key) (inorder t)))) vis.
Proof.
  induction t as [|b l IHl k v r IHr]; intro B; [reflexivity|]. destruct B as (Bl & Br & Al & Ar).
  cbn [trav_le inorder]. rewrite filter_app, map_app, rev_app_distr. cbn [filter]. unfold le_key at 1. cbn [fst].
  rewrite (IHl Bl). destruct (0 <=? cmp key k) eqn:E.
  - rewrite (IHr Br). cbn [map snd rev]. rewrite <- app_assoc, visit_app. cbn [app].
    destruct (visit (rev (map snd (filter (le_key key) (inorder r)))) vis) as [a c]. destruct c; cbn [negb]; [|reflexivity].
    cbn [visit]. destruct (vis v); cbn [negb].
    + destruct (visit (rev (map snd (filter (le_key key) (inorder l)))) vis). reflexivity.
    + reflexivity.
  - apply Z.leb_gt in E.
    rewrite (filter_none (le_key key) (inorder r)).
    + cbn [map rev app negb]. destruct (visit (rev (map snd (filter (le_key key) (inorder l)))) vis). reflexivity.
    + intros x Hx. unfold le_key. apply Z.leb_gt.
      destruct (Z_lt_le_dec (cmp key (fst x)) 0) as [?|Ge]; [assumption|exfalso].
      (* key >= x >= k  contradicts key < k *)
      pose proof (Ar x Hx) as Hkx.
      assert (cmp (fst x) key <= 0).
      { pose proof (cmp_anti (fst x) key) as A. destruct (0 <? cmp (fst x) key) eqn:E2; [|apply Z.ltb_ge in E2; exact E2].
        pose proof (cmp_anti key (fst x)) as A2. rewrite E2 in A2. apply Z.ltb_lt in A2. lia. }
      assert (cmp k key <= 0) by (eapply cmp_trans; eassumption).
      pose proof (cmp_anti key k) as A. rewrite (proj2 (Z.ltb_lt _ _) E) in A. symmetry in A. apply Z.ltb_lt in A. lia.
Qed.

Theorem get_spec t key : bst cmp t -> get cmp t key = option_map snd (find (eq_key key) (inorder t)).
Proof.
  assert (find_app : forall (f : Z * Z -> bool) l1 l2, find f (l1 ++ l2) = match find f l1 with Some x => Some x | None => find f l2 end).
  { intros f l1 l2. induction l1 as [|y l1 IH]; cbn; [reflexivity|]. destruct (f y); [reflexivity|exact IH]. }
  assert (find_none : forall (f : Z * Z -> bool) l, (forall x, In x l -> f x = false) -> find f l = None).
  { intros f l H. induction l as [|y l IH]; cbn; [reflexivity|]. rewrite (H y) by (left; reflexivity). apply IH. intros; apply H; right; assumption. }
  induction t as [|b l IHl k v r IHr]; intro B; [reflexivity|]. destruct B as (Bl & Br & Al & Ar).
  cbn [get inorder]. rewrite find_app. cbn [find]. unfold eq_key at 2. cbn [fst].
  destruct (cmp key k <? 0) eqn:E1.
  - apply Z.ltb_lt in E1. rewrite (IHl Bl). destruct (find (eq_key key) (inorder l)); [reflexivity|].
    rewrite (proj2 (Z.eqb_neq _ _)) by lia. rewrite find_none; [reflexivity|].
    intros x Hx. unfold eq_key. apply Z.eqb_neq. intro E0.
    assert (cmp (fst x) key <= 0).
    { pose proof (cmp_anti (fst x) key) as A. pose proof (cmp_anti key (fst x)) as A2. rewrite E0 in *. cbn in *.
      destruct (0 <? cmp (fst x) key) eqn:E2; [discriminate|]. apply Z.ltb_ge in E2. exact E2. }
    assert (cmp k key <= 0) by (eapply cmp_trans; [apply Ar; exact Hx | assumption]).
    pose proof (cmp_anti key k) as A. rewrite (proj2 (Z.ltb_lt _ _) E1) in A. symmetry in A. apply Z.ltb_lt in A. lia.
  - destruct (0 <? cmp key k) eqn:E2.
    + apply Z.ltb_lt in E2. rewrite (find_none (eq_key key) (inorder l)).
      * rewrite (proj2 (Z.eqb_neq _ _)) by lia. apply (IHr Br).
      * intros x Hx. unfold eq_key. apply Z.eqb_neq. intro E0.
        assert (cmp key k <= 0) by (eapply cmp_trans; [rewrite E0; lia | apply Al; exact Hx]). lia.
    + apply Z.ltb_ge in E1, E2. rewrite (IHl Bl). destruct (find (eq_key key) (inorder l)); [reflexivity|].
      rewrite (proj2 (Z.eqb_eq _ _)) by lia. reflexivity.
Qed.
End Order2.

Theorem first_spec t : first t = option_map snd (hd_error (inorder t)).
Proof.
  induction t as [|b l IHl k v r _]; [reflexivity|]. cbn [first inorder]. destruct l as [|lb ll lk lv lr]; [reflexivity|].
  rewrite IHl. cbn [inorder]. destruct (inorder ll); reflexivity.
Qed.
Theorem last_spec t : last t = option_map snd (hd_error (rev (inorder t))).
Proof.
  induction t as [|b l _ k v r IHr]; [reflexivity|]. cbn [last inorder]. rewrite rev_app_distr. cbn [rev].
  destruct r as [|rb rl rk rv rr]; [reflexivity|]. rewrite IHr. cbn [inorder]. rewrite rev_app_distr. cbn [rev]. rewrite <- !app_assoc.
  destruct (rev (inorder rr)); reflexivity.
Qed.
Theorem size_spec t : size t = length (inorder t).
Proof. induction t as [|b l IHl k v r IHr]; [reflexivity|]. cbn [size inorder]. rewrite app_length. cbn [length]. lia. Qed.

(* ---------- balance: invariant for Insert, height and comparison bounds ---------- *)
Open Scope nat_scope.
Lemma ctx_descend cmp key : forall t p, rb t = true -> ctx p (bh t) (isBlack t) = true -> ctx (descend cmp t key p) 0 true = true.
Proof.
  induction t as [|b l IHl k v r IHr]; intros p R C; [exact C|].
  cbn [descend]. cbn [rb] in R. cbn [bh isBlack] in C.
  apply andb_prop in R. destruct R as [R Hcol]. apply andb_prop in R. destruct R as [R Hbh]. apply andb_prop in R. destruct R as [Rl Rr].
  apply Nat.eqb_eq in Hbh.
  destruct (Z.ltb (cmp key k) 0).
  - apply IHl; [exact Rl|]. cbn [ctx]. rewrite Rr, <- Hbh, Nat.eqb_refl, C. cbn [andb]. rewrite andb_true_r.
    destruct b; [reflexivity|]. cbn [orb] in *. exact Hcol.
  - apply IHr; [exact Rr|]. cbn [ctx]. rewrite Rl, Hbh, Nat.eqb_refl. rewrite <- Hbh, C. cbn [andb]. rewrite andb_true_r.
    destruct b; [reflexivity|]. cbn [orb] in *. rewrite andb_comm. exact Hcol.
Qed.

Theorem rb_insert_full cmp t k v : rb t = true -> rb (insert cmp t k v) = true /\ isBlack (insert cmp t k v) = true.
Proof.
  intro R. split; [|apply isBlack_blacken]. apply rb_insert; [exact R|]. apply ctx_descend; [exact R|reflexivity].
Qed.

Lemma height_bh t : rb t = true -> height t <= 2 * bh t + (if isBlack t then 0 else 1).
Proof.
  induction t as [|b l IHl k v r IHr]; intro R; [cbn; lia|].
  cbn [rb] in R. apply andb_prop in R. destruct R as [R Hcol]. apply andb_prop in R. destruct R as [R Hbh]. apply andb_prop in R. destruct R as [Rl Rr].
  apply Nat.eqb_eq in Hbh. specialize (IHl Rl). specialize (IHr Rr). cbn [height bh isBlack].
  destruct b; cbn [orb] in Hcol.
  - destruct (isBlack l), (isBlack r); lia.
  - apply andb_prop in Hcol. destruct Hcol as [Hl Hr]. rewrite Hl in IHl. rewrite Hr in IHr. lia.
Qed.
Lemma size_bh t : rb t = true -> 2 ^ bh t <= size t + 1.
Proof.
  induction t as [|b l IHl k v r IHr]; intro R; [cbn; lia|].
  cbn [rb] in R. apply andb_prop in R. destruct R as [R Hcol]. apply andb_prop in R. destruct R as [R Hbh]. apply andb_prop in R. destruct R as [Rl Rr].
  apply Nat.eqb_eq in Hbh. specialize (IHl Rl). specialize (IHr Rr). cbn [size bh]. rewrite <- Hbh in IHr.
  destruct b; cbn [Nat.add]; [rewrite Nat.pow_succ_r'|]; lia.
Qed.
Theorem height_log t : rb t = true -> isBlack t = true -> height t <= 2 * Nat.log2 (size t + 1).
Proof.
  intros R B. pose proof (height_bh t R) as H. rewrite B in H. pose proof (size_bh t R) as S.
  assert (bh t <= Nat.log2 (size t + 1)).
  { rewrite <- (Nat.log2_pow2 (bh t)) by lia. apply Nat.log2_le_mono. exact S. }
  lia.
Qed.
Lemma find_cmps_height cmp t k : find_cmps cmp t k <= height t.
Proof. induction t as [|b l IHl k' v r IHr]; [cbn; lia|]. cbn [find_cmps height].
  destruct (Z.ltb (cmp k k') 0); [lia|]. destruct (Z.ltb 0 (cmp k k')); lia. Qed.
Lemma descend_cmps_height cmp t k : descend_cmps cmp t k <= height t.
Proof. induction t as [|b l IHl k' v r IHr]; [cbn; lia|]. cbn [descend_cmps height]. destruct (Z.ltb (cmp k k') 0); lia. Qed.
Theorem comparison_bound cmp t k : rb t = true -> isBlack t = true ->
  find_cmps cmp t k <= 2 * Nat.log2 (size t + 1) /\ insert_cmps cmp t k <= 2 * Nat.log2 (size t + 1) + 1.
Proof.
  intros R B. pose proof (height_log t R B). pose proof (find_cmps_height cmp t k). pose proof (descend_cmps_height cmp t k).
  split; [lia|]. unfold insert_cmps. destruct t; lia.
Qed.

(* ---------- Remove: the delete fix-up never meets a nil sibling, and ends black ---------- *)
Lemma rotL_some pb x pk pv s : s <> E -> both_black s = false -> exists t, rotL_case pb x pk pv s = Some t.
Proof.
  destruct s as [|sb sl sk sv sr]; [congruence|]. intros _ BB. cbn [both_black] in BB. unfold rotL_case.
  destruct (isBlack sr) eqn:Er.
  - rewrite andb_true_r in BB. destruct sl; [discriminate|]. eexists; reflexivity.
  - eexists; reflexivity.
Qed.
Lemma rotR_some pb s pk pv x : s <> E -> both_black s = false -> exists t, rotR_case pb s pk pv x = Some t.
Proof.
  destruct s as [|sb sl sk sv sr]; [congruence|]. intros _ BB. cbn [both_black] in BB. unfold rotR_case.
  destruct (isBlack sl) eqn:El.
  - cbn [andb] in BB. destruct sr; [discriminate|]. eexists; reflexivity.
  - eexists; reflexivity.
Qed.

Lemma delfix_some : forall p x h, rb (blacken x) = true -> bh x = h -> ctx p (S h) true = true -> exists t, delfix x p = Some t.
Proof.
  induction p as [|f rest IH]; intros x h Hx Hb Hc; cbn [delfix]; [eexists; reflexivity|].
  destruct (isRed x) eqn:Ex; [eexists; reflexivity|].
  unfold isRed in Ex. apply negb_false_iff in Ex. rewrite (bh_blacken_black _ Ex) in Hx.
  destruct f as [pb pk pv s | pb s pk pv]; cbn [ctx] in Hc; h2p; destruct Hc as (((Hs & Hbs) & Hcol) & Hrest).
  - destruct s as [|[] sl sk sv sr]; [cbn in Hbs; lia| |].
    + destruct (both_black (T true sl sk sv sr)) eqn:BB.
      * eapply (IH _ ((if pb then 1 else 0) + h)).
        -- clear IH. destruct pb; crush2.
        -- clear IH. crush2.
        -- clear IH. eapply ctx_mono. destruct pb; exact Hrest.
      * destruct (rotL_some pb x pk pv (T true sl sk sv sr) ltac:(discriminate) BB) as [t' ->]. eexists; reflexivity.
    + assert (pb = true) by (destruct pb; cbn in Hcol; intuition congruence). subst pb.
      cbn [rb bh isBlack] in Hs, Hbs. h2p. destruct Hs as (((Hsl & Hsr) & Hbeq) & Hkids). destruct Hkids as [Hk|Hk]; [discriminate|]. h2p. destruct Hk as [Hil Hir].
      cbn [Nat.add] in Hbs.
      destruct (both_black sl) eqn:BB; [eexists; reflexivity|].
      assert (sl <> E) by (apply bh_pos_nonE; lia).
      destruct (rotL_some false x pk pv sl H BB) as [t' ->]. eexists; reflexivity.
  - destruct s as [|[] sl sk sv sr]; [cbn in Hbs; lia| |].
    + destruct (both_black (T true sl sk sv sr)) eqn:BB.
      * eapply (IH _ ((if pb then 1 else 0) + h)).
        -- clear IH. destruct pb; crush2.
        -- clear IH. crush2.
        -- clear IH. eapply ctx_mono. destruct pb; exact Hrest.
      * destruct (rotR_some pb (T true sl sk sv sr) pk pv x ltac:(discriminate) BB) as [t' ->]. eexists; reflexivity.
    + assert (pb = true) by (destruct pb; cbn in Hcol; intuition congruence). subst pb.
      cbn [rb bh isBlack] in Hs, Hbs. h2p. destruct Hs as (((Hsl & Hsr) & Hbeq) & Hkids). destruct Hkids as [Hk|Hk]; [discriminate|]. h2p. destruct Hk as [Hil Hir].
      cbn [Nat.add] in Hbs.
      destruct (both_black sr) eqn:BB; [eexists; reflexivity|].
      assert (sr <> E) by (apply bh_pos_nonE; lia).
      destruct (rotR_some false sr pk pv x H BB) as [t' ->]. eexists; reflexivity.
Qed.

Lemma delfix_black : forall p x t, delfix x p = Some t -> isBlack t = true.
Proof.
  induction p as [|f rest IH]; intros x t; cbn [delfix].
  - intros [= <-]. apply isBlack_blacken.
  - destruct (isRed x); [intros [= <-]; apply isBlack_blacken|].
    destruct f as [pb pk pv s | pb s pk pv]; destruct s as [|[] sl sk sv sr]; try discriminate.
    + destruct (both_black (T true sl sk sv sr)); [apply IH|].
      destruct (rotL_case pb x pk pv (T true sl sk sv sr)); [|discriminate]. intros [= <-]. apply isBlack_blacken.
    + destruct (both_black sl); [intros [= <-]; apply isBlack_blacken|].
      destruct (rotL_case false x pk pv sl); [|discriminate]. intros [= <-]. apply isBlack_blacken.
    + destruct (both_black (T true sl sk sv sr)); [apply IH|].
      destruct (rotR_case pb (T true sl sk sv sr) pk pv x); [|discriminate]. intros [= <-]. apply isBlack_blacken.
    + destruct (both_black sr); [intros [= <-]; apply isBlack_blacken|].
      destruct (rotR_case false sr pk pv x); [|discriminate]. intros [= <-]. apply isBlack_blacken.
Qed.

(* ---------- Remove: the successor walk and the splice ---------- *)
Lemma ctx_push_left b l k v r P : rb (T b l k v r) = true -> ctx P (bh (T b l k v r)) b = true ->
  rb l = true /\ ctx (PL b k v r :: P) (bh l) (isBlack l) = true.
Proof.
  intros R C. cbn [rb] in R. cbn [bh] in C.
  apply andb_prop in R. destruct R as [R Hcol]. apply andb_prop in R. destruct R as [R Hbh]. apply andb_prop in R. destruct R as [Rl Rr].
  apply Nat.eqb_eq in Hbh. split; [exact Rl|]. cbn [ctx]. rewrite Rr, <- Hbh, Nat.eqb_refl, C. cbn [andb]. rewrite andb_true_r.
  destruct b; [reflexivity|]. exact Hcol.
Qed.
Lemma ctx_push_right b l k v r P : rb (T b l k v r) = true -> ctx P (bh (T b l k v r)) b = true ->
  rb r = true /\ ctx (PR b l k v :: P) (bh r) (isBlack r) = true.
Proof.
  intros R C. cbn [rb] in R. cbn [bh] in C.
  apply andb_prop in R. destruct R as [R Hcol]. apply andb_prop in R. destruct R as [R Hbh]. apply andb_prop in R. destruct R as [Rl Rr].
  apply Nat.eqb_eq in Hbh. split; [exact Rr|]. cbn [ctx]. rewrite Rl, Hbh, Nat.eqb_refl. rewrite <- Hbh, C. cbn [andb]. rewrite andb_true_r.
  destruct b; [reflexivity|]. cbn [orb] in *. rewrite andb_comm. exact Hcol.
Qed.

Lemma leftmost_spec : forall l b k v r P sb sk sv sr hp,
  leftmost b l k v r P = ((sb, sk, sv, sr), hp) ->
  exists fs X, hp = fs ++ P /\ (forall P', lctx (fs ++ P') = lctx P') /\ (forall P', rctx (fs ++ P') = X ++ rctx P') /\
    inorder (T b l k v r) = (sk, sv) :: inorder sr ++ X /\
    (forall P', rb (T b l k v r) = true -> ctx P' (bh (T b l k v r)) b = true ->
       rb (T sb E sk sv sr) = true /\ ctx (fs ++ P') (bh (T sb E sk sv sr)) sb = true).
Proof.
  induction l as [|lb ll IHl lk lv lr _]; intros b k v r P sb sk sv sr hp H; cbn [leftmost] in H.
  - injection H as <- <- <- <- <-. exists [], []. cbn [app inorder]. rewrite app_nil_r. repeat split; auto.
  - destruct (IHl _ _ _ _ _ _ _ _ _ _ H) as (fs0 & X0 & Hhp & HL & HR & HI & HC).
    exists (fs0 ++ [PL b k v r]), (X0 ++ (k, v) :: inorder r). rewrite <- app_assoc. cbn [app].
    split; [exact Hhp|]. split; [intro P'; rewrite <- app_assoc; cbn [app]; rewrite HL; reflexivity|].
    split; [intro P'; rewrite <- app_assoc; cbn [app]; rewrite HR; cbn [rctx]; rewrite <- app_assoc; reflexivity|].
    split.
    + cbn [inorder] in *. rewrite HI. cbn [app]. rewrite <- !app_assoc. reflexivity.
    + intros P' R C. rewrite <- app_assoc. cbn [app]. destruct (ctx_push_left _ _ _ _ _ _ R C) as [Rl Cl].
      apply HC; assumption.
Qed.

Lemma refit_at fs f0 q nb nl sk sv : refit (fs ++ f0 :: q) (length fs) nb nl sk sv = fs ++ PR nb nl sk sv :: q.
Proof. induction fs as [|f fs IH]; cbn [app length refit]; [reflexivity|]. rewrite IH. reflexivity. Qed.
Lemma ctx_keys fs nb nl k0 v0 k1 v1 q : forall h hb, ctx (fs ++ PR nb nl k0 v0 :: q) h hb = ctx (fs ++ PR nb nl k1 v1 :: q) h hb.
Proof. induction fs as [|f fs IH]; intros h hb; cbn [app ctx]; [reflexivity|]. destruct f; rewrite IH; reflexivity. Qed.

Lemma rb_leaf_cases nb nl nk nv nr : rb (T nb nl nk nv nr) = true -> (nl = E \/ nr = E) ->
  let child := match nl with E => nr | _ => nl end in
  rb (blacken child) = true /\ bh child = 0 /\ inorder nl ++ inorder nr = inorder child /\ (nb = false -> child = E).
Proof.
  intros R H. cbn [rb] in R.
  apply andb_prop in R. destruct R as [R Hcol]. apply andb_prop in R. destruct R as [R Hbh]. apply andb_prop in R. destruct R as [Rl Rr].
  apply Nat.eqb_eq in Hbh. destruct H as [-> | ->].
  - cbn [bh] in Hbh. cbn [inorder app]. repeat split; [apply rb_blacken2; exact Rr | lia |].
    intros ->. cbn [orb isBlack andb] in Hcol. destruct nr as [|[] ? ? ? ?]; [reflexivity|cbn in Hbh; lia|discriminate].
  - cbn [bh] in Hbh. destruct nl as [|lb ll lk lv lr] eqn:El; [cbn; repeat split; auto|].
    rewrite <- El in *. cbn [inorder]. rewrite app_nil_r. repeat split; [apply rb_blacken2; exact Rl | lia |].
    intros ->. cbn [orb] in Hcol. apply andb_prop in Hcol. destruct Hcol as [Hl _]. subst nl. destruct lb; [cbn in Hbh; lia|discriminate].
Qed.

Theorem splice_ok nb nl nk nv nr q :
  rb (T nb nl nk nv nr) = true -> ctx q (bh (T nb nl nk nv nr)) nb = true ->
  exists t', splice nb nl nk nv nr q = Some t' /\ inorder t' = lctx q ++ inorder nl ++ inorder nr ++ rctx q /\
             rb t' = true /\ isBlack t' = true.
Proof.
  intros R C. unfold splice.
  assert (Leaf : (nl = E \/ nr = E) -> exists t',
     (let child := match nl with E => nr | _ => nl end in
      match q with [] => Some (blacken child) | _ => if nb then delfix child q else Some (blacken (plug child q)) end) = Some t' /\
     inorder t' = lctx q ++ inorder nl ++ inorder nr ++ rctx q /\ rb t' = true /\ isBlack t' = true).
  { intro H. destruct (rb_leaf_cases _ _ _ _ _ R H) as (Rc & Bc & Ic & Ec). cbv zeta.
    set (child := match nl with E => nr | _ => nl end) in *.
    destruct q as [|f q'].
    - eexists. split; [reflexivity|]. cbn [lctx rctx app]. rewrite app_nil_r, inorder_blacken, <- Ic. repeat split; [exact Rc | apply isBlack_blacken].
    - destruct nb.
      + cbn [bh] in C. assert (Hb : bh nl = 0).
        { cbn [rb] in R. apply andb_prop in R. destruct R as [R _]. apply andb_prop in R. destruct R as [_ Hbh]. apply Nat.eqb_eq in Hbh.
          destruct H as [-> | ->]; cbn in *; lia. }
        rewrite Hb in C. cbn [Nat.add] in C.
        destruct (delfix_some (f :: q') child 0 Rc Bc C) as [t' Ht']. exists t'. split; [exact Ht'|].
        rewrite (inorder_delfix _ _ _ Ht'), <- Ic, <- !app_assoc. repeat split; [eapply rb_delfix; eauto | eapply delfix_black; eauto].
      + specialize (Ec eq_refl). eexists. split; [reflexivity|]. rewrite inorder_blacken, inorder_plug, <- Ic, <- !app_assoc.
        repeat split; [|apply isBlack_blacken]. apply rb_blacken2, rb_plug; rewrite Ec; [reflexivity|]. cbn [bh isBlack].
        cbn [bh] in C. assert (Hb : bh nl = 0).
        { cbn [rb] in R. apply andb_prop in R. destruct R as [R _]. apply andb_prop in R. destruct R as [_ Hbh]. apply Nat.eqb_eq in Hbh.
          destruct H as [-> | ->]; cbn in *; lia. }
        rewrite Hb in C. cbn [Nat.add] in C. eapply ctx_mono. exact C. }
  destruct nl as [|lb ll lk lv lr] eqn:El; [apply Leaf; left; reflexivity|].
  destruct nr as [|rb' rl rk rv rr] eqn:Er; [apply Leaf; right; reflexivity|]. clear Leaf. rewrite <- El in *.
  destruct (leftmost rb' rl rk rv rr (PR nb nl nk nv :: q)) as [[[[sb sk] sv] sr] hp] eqn:LM.
  destruct (leftmost_spec _ _ _ _ _ _ _ _ _ _ _ LM) as (fs & X & Hhp & HL & HR & HI & HC).
  rewrite <- Er in *.
  destruct (ctx_push_right _ _ _ _ _ _ R C) as [Rr Cr].
  assert (IB : isBlack nr = rb') by (rewrite Er; reflexivity). rewrite IB in Cr.
  destruct (HC _ Rr Cr) as [RS CS].
  assert (Hidx : (length hp - length q - 1)%nat = length fs) by (rewrite Hhp, app_length; cbn [length]; lia).
  rewrite Hidx, Hhp, refit_at.
  assert (LC : lctx (fs ++ PR nb nl sk sv :: q) = lctx q ++ inorder nl ++ [(sk, sv)]) by (rewrite HL; reflexivity).
  assert (RC : rctx (fs ++ PR nb nl sk sv :: q) = X ++ rctx q) by (rewrite HR; reflexivity).
  assert (IO : lctx (fs ++ PR nb nl sk sv :: q) ++ inorder sr ++ rctx (fs ++ PR nb nl sk sv :: q) = lctx q ++ inorder nl ++ inorder nr ++ rctx q).
  { rewrite LC, RC, HI, <- !app_assoc. cbn [app]. rewrite <- !app_assoc. reflexivity. }
  rewrite (ctx_keys fs nb nl nk nv sk sv q) in CS.
  cbn [rb bh isBlack] in RS, CS.
  apply andb_prop in RS. destruct RS as [RS Hcol]. apply andb_prop in RS. destruct RS as [RS Hbh]. cbn [andb] in RS. apply Nat.eqb_eq in Hbh.
  destruct sb.
  - cbn [Nat.add] in CS.
    destruct (delfix_some _ sr 0 (rb_blacken2 _ RS) (eq_sym Hbh) CS) as [t' Ht']. exists t'. split; [exact Ht'|].
    rewrite (inorder_delfix _ _ _ Ht'), IO. repeat split; [eapply rb_delfix; [apply rb_blacken2; exact RS | symmetry; exact Hbh | exact CS | exact Ht'] | eapply delfix_black; eauto].
  - cbn [orb isBlack andb] in Hcol. assert (sr = E) by (destruct sr as [|[] ? ? ? ?]; [reflexivity|cbn in Hbh; lia|discriminate]). subst sr.
    eexists. split; [reflexivity|]. rewrite inorder_blacken, inorder_plug, IO. repeat split; [|apply isBlack_blacken].
    apply rb_blacken2, rb_plug; [reflexivity|]. cbn [bh isBlack Nat.add] in *. eapply ctx_mono. exact CS.
Qed.

(* ---------- Remove refines "drop the first entry equal to the key" ---------- *)
Open Scope Z_scope.
Section Order3.
Variable cmp : Z -> Z -> Z.
Hypothesis cmp_anti : forall a b, (cmp a b <? 0) = (0 <? cmp b a).
Hypothesis cmp_trans : forall a b c, cmp a b <= 0 -> cmp b c <= 0 -> cmp a c <= 0.

Lemma srem_skip A x B key : (forall y, In y A -> cmp key (fst y) <> 0) -> cmp key (fst x) = 0 -> srem cmp (A ++ x :: B) key = A ++ B.
Proof.
  intros HA Hx. induction A as [|[k' v'] A IH]; cbn [app srem].
  - destruct x as [kx vx]. cbn [fst] in Hx. rewrite Hx. reflexivity.
  - rewrite (proj2 (Z.eqb_neq _ _)) by (apply (HA (k', v')); left; reflexivity). f_equal. apply IH. intros y Hy. apply HA. right. exact Hy.
Qed.
Lemma srem_none l key : (forall y, In y l -> cmp key (fst y) <> 0) -> srem cmp l key = l.
Proof.
  induction l as [|[k' v'] l IH]; intro H; cbn [srem]; [reflexivity|].
  rewrite (proj2 (Z.eqb_neq _ _)) by (apply (H (k', v')); left; reflexivity). f_equal. apply IH. intros y Hy. apply H. right. exact Hy.
Qed.
Lemma srem_in l key y : In y (srem cmp l key) -> In y l.
Proof. induction l as [|[k' v'] l IH]; cbn [srem]; [auto|]. destruct (cmp key k' =? 0); [right; assumption|]. intros [<-|H]; [left; reflexivity|right; auto]. Qed.
Lemma srem_sorted l key : StronglySorted (kle cmp) l -> StronglySorted (kle cmp) (srem cmp l key).
Proof.
  induction l as [|[k' v'] l IH]; intro S; cbn [srem]; [constructor|]. inversion S as [|? ? S' F]; subst.
  destruct (cmp key k' =? 0); [exact S'|]. constructor; [apply IH; exact S'|].
  rewrite Forall_forall in *. intros y Hy. apply F. eapply srem_in. exact Hy.
Qed.

Lemma find_first_none t key : forall p, bst cmp t -> find_first cmp t key p = None -> forall x, In x (inorder t) -> cmp key (fst x) <> 0.
Proof.
  induction t as [|b l IHl k v r IHr]; intros p B H x Hx; [destruct Hx|]. destruct B as (Bl & Br & Al & Ar).
  cbn [find_first] in H. cbn [inorder] in Hx. apply in_app_or in Hx.
  destruct (cmp key k <? 0) eqn:E1.
  - apply Z.ltb_lt in E1. destruct Hx as [Hx|[<-|Hx]]; [eapply IHl; eauto | cbn; lia |].
    intro E0. assert (cmp (fst x) key <= 0) by (apply (cmp_ge_le cmp cmp_anti); lia).
    assert (cmp k key <= 0) by (eapply cmp_trans; [apply Ar; exact Hx | assumption]).
    pose proof (cmp_lt_gt cmp cmp_anti _ _ E1). lia.
  - destruct (0 <? cmp key k) eqn:E2.
    + apply Z.ltb_lt in E2. destruct Hx as [Hx|[<-|Hx]]; [| cbn; lia | eapply IHr; eauto].
      intro E0. assert (cmp key k <= 0) by (eapply cmp_trans; [rewrite E0; lia | apply Al; exact Hx]). lia.
    + destruct (find_first cmp l key (PL b k v r :: p)) as [[? ?]|]; discriminate.
Qed.

Lemma find_first_some t key : forall p n q, bst cmp t -> rb t = true -> ctx p (bh t) (isBlack t) = true ->
  find_first cmp t key p = Some (n, q) ->
  exists nb nl nk nv nr A B, n = T nb nl nk nv nr /\ cmp key nk = 0 /\
     lctx q = lctx p ++ A /\ rctx q = B ++ rctx p /\ inorder t = A ++ inorder n ++ B /\
     (forall y, In y (A ++ inorder nl) -> cmp key (fst y) <> 0) /\
     rb n = true /\ ctx q (bh n) nb = true.
Proof.
  induction t as [|b l IHl k v r IHr]; intros p n q B R C H; [discriminate|]. destruct B as (Bl & Br & Al & Ar).
  cbn [find_first] in H. cbn [isBlack] in C.
  destruct (ctx_push_left _ _ _ _ _ _ R C) as [Rl Cl]. destruct (ctx_push_right _ _ _ _ _ _ R C) as [Rr Cr].
  assert (GoLeft : find_first cmp l key (PL b k v r :: p) = Some (n, q) ->
    exists nb nl nk nv nr A B, n = T nb nl nk nv nr /\ cmp key nk = 0 /\
     lctx q = lctx p ++ A /\ rctx q = B ++ rctx p /\ inorder (T b l k v r) = A ++ inorder n ++ B /\
     (forall y, In y (A ++ inorder nl) -> cmp key (fst y) <> 0) /\ rb n = true /\ ctx q (bh n) nb = true).
  { intro HL. destruct (IHl _ _ _ Bl Rl Cl HL) as (nb & nl & nk & nv & nr & A0 & B0 & -> & E0 & HLc & HRc & HI & HN & Rn & Cn).
    exists nb, nl, nk, nv, nr, A0, (B0 ++ (k, v) :: inorder r). cbn [lctx rctx] in HLc, HRc.
    repeat split; auto. - rewrite HRc, <- app_assoc. reflexivity. - cbn [inorder] in *. rewrite HI, <- !app_assoc. cbn [app]. rewrite <- ?app_assoc. reflexivity. }
  destruct (cmp key k <? 0) eqn:E1; [apply GoLeft; exact H|].
  destruct (0 <? cmp key k) eqn:E2.
  - apply Z.ltb_lt in E2. destruct (IHr _ _ _ Br Rr Cr H) as (nb & nl & nk & nv & nr & A0 & B0 & -> & E0 & HLc & HRc & HI & HN & Rn & Cn).
    exists nb, nl, nk, nv, nr, (inorder l ++ (k, v) :: A0), B0. cbn [lctx rctx] in HLc, HRc.
    repeat split; auto.
    + rewrite HLc, <- !app_assoc. reflexivity.
    + cbn [inorder] in *. rewrite HI, <- !app_assoc. reflexivity.
    + intros y Hy. rewrite <- app_assoc in Hy. cbn [app] in Hy. apply in_app_or in Hy. destruct Hy as [Hy|[<-|Hy]].
      * intro E. assert (cmp key k <= 0) by (eapply cmp_trans; [rewrite E; lia | apply Al; exact Hy]). lia.
      * cbn. lia.
      * apply HN. exact Hy.
  - apply Z.ltb_ge in E1, E2. destruct (find_first cmp l key (PL b k v r :: p)) as [[n' q']|] eqn:FL.
    + injection H as -> ->. apply GoLeft. reflexivity.
    + injection H as <- <-. exists b, l, k, v, r, [], []. cbn [app]. rewrite !app_nil_r.
      repeat split; auto; [lia|]. intros y Hy. cbn [app] in Hy. exact (find_first_none l key (PL b k v r :: p) Bl FL y Hy).
Qed.

Theorem remove_spec t key : bst cmp t -> rb t = true -> isBlack t = true ->
  exists t', remove cmp t key = Some t' /\ inorder t' = srem cmp (inorder t) key /\
             rb t' = true /\ isBlack t' = true /\ bst cmp t'.
Proof.
  intros B R I. unfold remove.
  destruct (find_first cmp t key []) as [[n q]|] eqn:F.
  - assert (C0 : ctx [] (bh t) (isBlack t) = true) by reflexivity.
    destruct (find_first_some t key [] n q B R C0 F) as (nb & nl & nk & nv & nr & A0 & B0 & -> & E0 & HLc & HRc & HI & HN & Rn & Cn).
    destruct (splice_ok nb nl nk nv nr q Rn Cn) as (t' & Hs & Hio & Hrb & Hbl).
    exists t'. split; [exact Hs|].
    assert (Hio' : inorder t' = srem cmp (inorder t) key).
    { rewrite Hio, HLc, HRc, HI. cbn [lctx rctx app inorder]. rewrite app_nil_r.
      replace (A0 ++ (inorder nl ++ (nk, nv) :: inorder nr) ++ B0) with ((A0 ++ inorder nl) ++ (nk, nv) :: (inorder nr ++ B0))
        by (rewrite <- !app_assoc; reflexivity).
      rewrite srem_skip by (auto). rewrite <- !app_assoc. reflexivity. }
    repeat split; auto. apply (bst_sorted cmp cmp_trans). rewrite Hio'. apply srem_sorted. apply (bst_sorted cmp cmp_trans). exact B.
  - exists t. repeat split; auto. symmetry. apply srem_none. eapply find_first_none; eauto.
Qed.
End Order3.

(* ---------- every history ---------- *)
Definition stepc (cmp : Z -> Z -> Z) (t : option tree) (o : op) : option tree :=
  match t with None => None | Some t => match o with Ins k v => Some (insert cmp t k v) | Rem k => remove cmp t k end end.
Definition spec_step (cmp : Z -> Z -> Z) (l : list (Z * Z)) (o : op) : list (Z * Z) :=
  match o with Ins k v => sins cmp l k v | Rem k => srem cmp l k end.
Definition Inv (cmp : Z -> Z -> Z) (t : tree) : Prop := rb t = true /\ isBlack t = true /\ bst cmp t.

Section History.
Variable cmp : Z -> Z -> Z.
Hypothesis cmp_anti : forall a b, (cmp a b <? 0) = (0 <? cmp b a).
Hypothesis cmp_trans : forall a b c, cmp a b <= 0 -> cmp b c <= 0 -> cmp a c <= 0.

Lemma step_refines t o : Inv cmp t -> exists t', stepc cmp (Some t) o = Some t' /\ inorder t' = spec_step cmp (inorder t) o /\ Inv cmp t'.
Proof.
  intros (R & I & B). destruct o as [k v|k]; cbn [stepc spec_step].
  - eexists. split; [reflexivity|]. split; [apply inorder_insert_spec; assumption|].
    destruct (rb_insert_full cmp t k v R). repeat split; auto. apply bst_insert; assumption.
  - destruct (remove_spec cmp cmp_anti cmp_trans t k B R I) as (t' & H1 & H2 & H3 & H4 & H5). exists t'. repeat split; auto.
Qed.

Theorem history_refines_from : forall ops t, Inv cmp t ->
  exists t', fold_left (stepc cmp) ops (Some t) = Some t' /\ inorder t' = fold_left (spec_step cmp) ops (inorder t) /\ Inv cmp t'.
Proof.
  induction ops as [|o ops IH]; intros t HI; cbn [fold_left]; [exists t; auto|].
  destruct (step_refines t o HI) as (t1 & H1 & H2 & H3). rewrite H1, <- H2. apply IH. exact H3.
Qed.
Theorem history_refines ops :
  exists t, fold_left (stepc cmp) ops (Some E) = Some t /\ inorder t = fold_left (spec_step cmp) ops [] /\ Inv cmp t.
Proof. apply (history_refines_from ops E). repeat split; reflexivity. Qed.
End History.

Lemma zcmp_anti a b : (zcmp a b <? 0) = (0 <? zcmp b a).
Proof. unfold zcmp. rewrite (Z.compare_antisym a b). destruct (a ?= b); reflexivity. Qed.
Lemma zcmp_trans a b c : zcmp a b <= 0 -> zcmp b c <= 0 -> zcmp a c <= 0.
Proof.
  unfold zcmp. destruct (a ?= b) eqn:E1; destruct (b ?= c) eqn:E2; destruct (a ?= c) eqn:E3; try lia; intros _ _; exfalso;
  rewrite ?Z.compare_eq_iff, ?Z.compare_lt_iff, ?Z.compare_gt_iff in *; lia.
Qed.
Lemma step_is_stepc t o : step t o = stepc zcmp t o.
Proof. reflexivity. Qed.
