(* C06 — executable model of collection/redblack (tree.go, node.go). Parent pointers become a zipper (list of frames,
   innermost first). Keys and values are integers; the comparison function is a parameter. A state the Go code would
   spin or crash in (nil sibling in recolor) is None. No proofs in this file. *)
From Coq Require Import ZArith List Bool.
Import ListNotations.
Open Scope Z_scope.

(* colour: true = black *)
Inductive tree := E | T (black : bool) (l : tree) (k v : Z) (r : tree).
(* frame: the hole is the left (PL) / right (PR) child of a node *)
Inductive frame := PL (black : bool) (k v : Z) (sib : tree) | PR (black : bool) (sib : tree) (k v : Z).

Definition isBlack (t : tree) := match t with E => true | T b _ _ _ _ => b end.
Definition isRed (t : tree) := negb (isBlack t).
Definition blacken (t : tree) := match t with E => E | T _ l k v r => T true l k v r end.
Definition redden (t : tree) := match t with E => E | T _ l k v r => T false l k v r end.

Definition plug1 (f : frame) (t : tree) : tree :=
  match f with PL b k v s => T b t k v s | PR b s k v => T b s k v t end.
Fixpoint plug (t : tree) (p : list frame) : tree :=
  match p with [] => t | f :: p' => plug (plug1 f t) p' end.

Section Cmp.
Variable cmp : Z -> Z -> Z.   (* compare(a,b): <0, 0, >0 *)

Fixpoint descend (t : tree) (key : Z) (p : list frame) : list frame :=
  match t with
  | E => p
  | T b l k v r => if cmp key k <? 0 then descend l key (PL b k v r :: p) else descend r key (PR b l k v :: p)
  end.

Fixpoint insfix (n : tree) (p : list frame) : tree :=
  match p with
  | [] => n
  | [f] => plug1 f n
  | fp :: ((fg :: rest) as p1) =>
    match fp with
    | PL true _ _ _ | PR true _ _ _ => plug n p
    | PL false pk pv psib =>
      match fg with
      | PL gb gk gv uncle =>
        if isRed uncle then insfix (T false (T true n pk pv psib) gk gv (blacken uncle)) rest
        else plug (T true n pk pv (T false psib gk gv uncle)) rest
      | PR gb uncle gk gv =>
        if isRed uncle then insfix (T false (blacken uncle) gk gv (T true n pk pv psib)) rest
        else match n with
             | T _ nl nk nv nr => plug (T true (T false uncle gk gv nl) nk nv (T false nr pk pv psib)) rest
             | E => E
             end
      end
    | PR false psib pk pv =>
      match fg with
      | PL gb gk gv uncle =>
        if isRed uncle then insfix (T false (T true psib pk pv n) gk gv (blacken uncle)) rest
        else match n with
             | T _ nl nk nv nr => plug (T true (T false psib pk pv nl) nk nv (T false nr gk gv uncle)) rest
             | E => E
             end
      | PR gb uncle gk gv =>
        if isRed uncle then insfix (T false (blacken uncle) gk gv (T true psib pk pv n)) rest
        else plug (T true (T false uncle gk gv psib) pk pv n) rest
      end
    end
  end.


Definition insert (t : tree) (key val : Z) : tree :=
  blacken (insfix (T false E key val E) (descend t key [])).

(* node.find (repaired): the first match in traversal order = a match in the left subtree if there is one *)
Fixpoint find_first (t : tree) (key : Z) (p : list frame) : option (tree * list frame) :=
  match t with
  | E => None
  | T b l k v r =>
    let c := cmp key k in
    if c <? 0 then find_first l key (PL b k v r :: p)
    else if 0 <? c then find_first r key (PR b l k v :: p)
    else match find_first l key (PL b k v r :: p) with Some x => Some x | None => Some (T b l k v r, p) end
  end.

Definition both_black (s : tree) := match s with E => true | T _ sl _ _ sr => isBlack sl && isBlack sr end.

Definition rotL_case (pb : bool) (x : tree) (pk pv : Z) (s : tree) : option tree :=
  match s with
  | T _ sl sk sv sr =>
    if isBlack sr then
      match sl with
      | T _ a lk lv b' => Some (T pb (T true x pk pv a) lk lv (T true b' sk sv sr))
      | E => None
      end
    else Some (T pb (T true x pk pv sl) sk sv (blacken sr))
  | E => None
  end.
Definition rotR_case (pb : bool) (s : tree) (pk pv : Z) (x : tree) : option tree :=
  match s with
  | T _ sl sk sv sr =>
    if isBlack sl then
      match sr with
      | T _ a rk rv b' => Some (T pb (T true sl sk sv a) rk rv (T true b' pk pv x))
      | E => None
      end
    else Some (T pb (blacken sl) sk sv (T true sr pk pv x))
  | E => None
  end.

Definition omap (f : tree -> tree) (o : option tree) := match o with Some t => Some (f t) | None => None end.

Fixpoint delfix (x : tree) (p : list frame) : option tree :=
  match p with
  | [] => Some (blacken x)
  | f :: rest =>
    if isRed x then Some (blacken (plug (blacken x) p)) else
    match f with
    | PL pb pk pv s =>
      match s with
      | E => None
      | T false sl sk sv sr =>
        if both_black sl then Some (blacken (plug (T true (T true x pk pv (redden sl)) sk sv sr) rest))
        else omap (fun t' => blacken (plug (T true t' sk sv sr) rest)) (rotL_case false x pk pv sl)
      | T true sl sk sv sr =>
        if both_black s then delfix (T pb x pk pv (redden s)) rest
        else omap (fun t' => blacken (plug t' rest)) (rotL_case pb x pk pv s)
      end
    | PR pb s pk pv =>
      match s with
      | E => None
      | T false sl sk sv sr =>
        if both_black sr then Some (blacken (plug (T true sl sk sv (T true (redden sr) pk pv x)) rest))
        else omap (fun t' => blacken (plug (T true sl sk sv t') rest)) (rotR_case false sr pk pv x)
      | T true sl sk sv sr =>
        if both_black s then delfix (T pb (redden s) pk pv x) rest
        else omap (fun t' => blacken (plug t' rest)) (rotR_case pb s pk pv x)
      end
    end
  end.

(* leftmost of t, with the frames walked (innermost first) *)
Fixpoint leftmost (b : bool) (l : tree) (k v : Z) (r : tree) (p : list frame) {struct l} : (bool * Z * Z * tree) * list frame :=
  match l with
  | E => ((b, k, v, r), p)
  | T lb ll lk lv lr => leftmost lb ll lk lv lr (PL b k v r :: p)
  end.

(* replace the frame of the node being removed (the one pushed just before p) by one carrying the successor's key/value *)
Fixpoint refit (q : list frame) (m : nat) (nb : bool) (nl : tree) (sk sv : Z) : list frame :=
  match q, m with
  | _ :: q', O => PR nb nl sk sv :: q'
  | f :: q', S m' => f :: refit q' m' nb nl sk sv
  | [], _ => []
  end.

(* unlink the node T nb nl nk nv nr sitting in context p (two children: its in-order successor is unlinked instead and its
   key/value moved into the node) and rebalance *)
Definition splice (nb : bool) (nl : tree) (nk nv : Z) (nr : tree) (p : list frame) : option tree :=
  match nl, nr with
  | T _ _ _ _ _, T rb rl rk rv rr =>
    let '((sb, sk, sv, sr), hp) := leftmost rb rl rk rv rr (PR nb nl nk nv :: p) in
    let hp' := refit hp (length hp - length p - 1)%nat nb nl sk sv in
    if sb then delfix sr hp' else Some (blacken (plug sr hp'))
  | _, _ =>
    let child := match nl with E => nr | _ => nl end in
    match p with
    | [] => Some (blacken child)
    | _ => if nb then delfix child p else Some (blacken (plug child p))
    end
  end.

Definition remove (t : tree) (key : Z) : option tree :=
  match find_first t key [] with
  | None => Some t
  | Some (E, _) => Some t
  | Some (T nb nl nk nv nr, p) => splice nb nl nk nv nr p
  end.

(* queries; a visitor is a function value -> bool ("continue?"); results are (visited values, continue) *)
Fixpoint trav (t : tree) (vis : Z -> bool) : list Z * bool :=
  match t with E => ([], true) | T _ l k v r =>
    let '(a, c) := trav l vis in if negb c then (a, false) else
    if vis v then let '(b, c2) := trav r vis in (a ++ v :: b, c2) else (a ++ [v], false) end.
Fixpoint rtrav (t : tree) (vis : Z -> bool) : list Z * bool :=
  match t with E => ([], true) | T _ l k v r =>
    let '(a, c) := rtrav r vis in if negb c then (a, false) else
    if vis v then let '(b, c2) := rtrav l vis in (a ++ v :: b, c2) else (a ++ [v], false) end.
Fixpoint trav_ge (t : tree) (key : Z) (vis : Z -> bool) : list Z * bool :=
  match t with E => ([], true) | T _ l k v r =>
    let res := cmp key k in
    let '(a, c) := if res <=? 0 then trav_ge l key vis else ([], true) in
    if negb c then (a, false) else
    let '(m, c1) := if res <=? 0 then (if vis v then ([v], true) else ([v], false)) else ([], true) in
    if negb c1 then (a ++ m, false) else
    let '(b, c2) := trav_ge r key vis in (a ++ m ++ b, c2) end.
Fixpoint trav_le (t : tree) (key : Z) (vis : Z -> bool) : list Z * bool :=
  match t with E => ([], true) | T _ l k v r =>
    let res := cmp key k in
    let '(a, c) := if 0 <=? res then trav_le r key vis else ([], true) in
    if negb c then (a, false) else
    let '(m, c1) := if 0 <=? res then (if vis v then ([v], true) else ([v], false)) else ([], true) in
    if negb c1 then (a ++ m, false) else
    let '(b, c2) := trav_le l key vis in (a ++ m ++ b, c2) end.
Fixpoint get (t : tree) (key : Z) : option Z :=
  match t with E => None | T _ l k v r =>
    let c := cmp key k in
    if c <? 0 then get l key else if 0 <? c then get r key
    else match get l key with Some x => Some x | None => Some v end end.
(* number of compare calls made by find / by Insert's descent (plus the repeated comparison with the parent) *)
Fixpoint find_cmps (t : tree) (key : Z) : nat :=
  match t with E => O | T _ l k v r =>
    let c := cmp key k in
    S (if c <? 0 then find_cmps l key else if 0 <? c then find_cmps r key else find_cmps l key) end.
Fixpoint descend_cmps (t : tree) (key : Z) : nat :=
  match t with E => O | T _ l k v r => S (if cmp key k <? 0 then descend_cmps l key else descend_cmps r key) end.
Definition insert_cmps (t : tree) (key : Z) : nat := match t with E => O | _ => S (descend_cmps t key) end.
End Cmp.

Fixpoint first (t : tree) : option Z := match t with E => None | T _ E _ v _ => Some v | T _ l _ _ _ => first l end.
Fixpoint last (t : tree) : option Z := match t with E => None | T _ _ _ v E => Some v | T _ _ _ _ r => last r end.
Fixpoint inorder (t : tree) : list (Z * Z) :=
  match t with E => [] | T _ l k v r => inorder l ++ (k, v) :: inorder r end.
Fixpoint size (t : tree) : nat := match t with E => O | T _ l _ _ r => S (size l + size r) end.
Fixpoint height (t : tree) : nat := match t with E => O | T _ l _ _ r => S (Nat.max (height l) (height r)) end.
Fixpoint bh (t : tree) : nat := match t with E => 0 | T b l _ _ _ => (if b then 1 else 0) + bh l end.
(* the red-black invariants: equal black height on both sides, no red node with a red child *)
Fixpoint rb (t : tree) : bool :=
  match t with E => true | T b l _ _ r => rb l && rb r && (bh l =? bh r)%nat && (b || (isBlack l && isBlack r)) end.

Definition zcmp (a b : Z) : Z := match Z.compare a b with Lt => -1 | Eq => 0 | Gt => 1 end.
Inductive op := Ins (k v : Z) | Rem (k : Z).
Definition step (t : option tree) (o : op) : option tree :=
  match t with None => None | Some t =>
    match o with Ins k v => Some (insert zcmp t k v) | Rem k => remove zcmp t k end end.

(* specification side: a list of entries in key order, equal keys in insertion order *)
Section Spec.
Variable cmp : Z -> Z -> Z.
Fixpoint sins (l : list (Z * Z)) (k v : Z) : list (Z * Z) :=
  match l with
  | [] => [(k, v)]
  | (k', v') :: r => if cmp k k' <? 0 then (k, v) :: l else (k', v') :: sins r k v
  end.
Fixpoint srem (l : list (Z * Z)) (k : Z) : list (Z * Z) :=
  match l with
  | [] => []
  | (k', v') :: r => if cmp k k' =? 0 then r else (k', v') :: srem r k
  end.
(* visit values in order until the visitor says stop (the stopping entry is still visited) *)
Fixpoint visit (l : list Z) (vis : Z -> bool) : list Z * bool :=
  match l with [] => ([], true) | v :: r => if vis v then let '(a, c) := visit r vis in (v :: a, c) else ([v], false) end.
End Spec.
