(* C06 — lemmas: in-order preservation and red-black invariant for both fix-ups, then the glue to the sorted-list spec *)
From Coq Require Import ZArith List Bool Lia.
From Verif Require Import C06.Model.
Import ListNotations.
Open Scope Z_scope.

Fixpoint lctx (p : list frame) : list (Z*Z) :=
  match p with
  | [] => []
  | PL _ _ _ _ :: p' => lctx p'
  | PR _ s k v :: p' => lctx p' ++ inorder s ++ [(k,v)]
  end.
Fixpoint rctx (p : list frame) : list (Z*Z) :=
  match p with
  | [] => []
  | PL _ k v s :: p' => (k,v) :: inorder s ++ rctx p'
  | PR _ _ _ _ :: p' => rctx p'
  end.

Lemma inorder_plug t p : inorder (plug t p) = lctx p ++ inorder t ++ rctx p.
Proof.
  revert t; induction p as [|f p IH]; intro t; cbn.
  - now rewrite app_nil_r.
  - rewrite IH. destruct f; cbn; rewrite <- ?app_assoc; cbn; rewrite <- ?app_assoc; reflexivity.
Qed.

Lemma inorder_blacken t : inorder (blacken t) = inorder t.
Proof. destruct t; reflexivity. Qed.

Ltac norm := cbn [inorder lctx rctx app]; rewrite ?inorder_blacken, <- ?app_assoc; cbn [app].

Lemma inorder_insfix : forall p n, n <> E -> inorder (insfix n p) = lctx p ++ inorder n ++ rctx p.
Proof.
  fix IH 1. intros p n Hn. destruct p as [|fp [|fg rest]].
  - cbn. now rewrite app_nil_r.
  - destruct fp; cbn; rewrite <- ?app_assoc; cbn; now rewrite ?app_nil_r.
  - cbn [insfix].
    destruct fp as [[] pk pv psib | [] psib pk pv]; try (rewrite inorder_plug; reflexivity);
    destruct fg as [gb gk gv uncle | gb uncle gk gv];
    destruct (isRed uncle) eqn:Eu;
    try (rewrite IH by discriminate; repeat norm; reflexivity);
    try (destruct n as [|nb nl nk nv nr]; [congruence|]);
    rewrite ?inorder_plug; repeat norm; try reflexivity.
Qed.

Lemma inorder_insert cmp t k v : inorder (insert cmp t k v) = lctx (descend cmp t k []) ++ [(k,v)] ++ rctx (descend cmp t k []).
Proof. unfold insert. rewrite inorder_blacken, inorder_insfix by discriminate. reflexivity. Qed.

Lemma inorder_redden t : inorder (redden t) = inorder t. Proof. destruct t; reflexivity. Qed.
Ltac norm ::= cbn [inorder lctx rctx app]; rewrite ?inorder_blacken, ?inorder_redden, <- ?app_assoc; cbn [app].

Lemma rotL_inorder pb x pk pv s t : rotL_case pb x pk pv s = Some t -> inorder t = inorder x ++ (pk, pv) :: inorder s.
Proof.
  unfold rotL_case. destruct s as [|sb sl sk sv sr]; [discriminate|].
  destruct (isBlack sr).
  - destruct sl as [|lb a lk lv b']; [discriminate|]. intros [= <-]. repeat norm. reflexivity.
  - intros [= <-]. repeat norm. reflexivity.
Qed.
Lemma rotR_inorder pb s pk pv x t : rotR_case pb s pk pv x = Some t -> inorder t = inorder s ++ (pk, pv) :: inorder x.
Proof.
  unfold rotR_case. destruct s as [|sb sl sk sv sr]; [discriminate|].
  destruct (isBlack sl).
  - destruct sr as [|rb a rk rv b']; [discriminate|]. intros [= <-]. repeat norm. reflexivity.
  - intros [= <-]. repeat norm. reflexivity.
Qed.

Lemma inorder_delfix : forall p x t, delfix x p = Some t -> inorder t = lctx p ++ inorder x ++ rctx p.
Proof.
  induction p as [|f rest IH]; intros x t; cbn [delfix].
  - intros [= <-]. norm. now rewrite app_nil_r.
  - destruct (isRed x).
    + intros [= <-]. rewrite ?inorder_blacken, inorder_plug. destruct f; cbn [plug1]; repeat norm; reflexivity.
    + destruct f as [pb pk pv s | pb s pk pv]; destruct s as [|[] sl sk sv sr]; try discriminate.
      * destruct (both_black (T true sl sk sv sr)).
        -- intros H. rewrite (IH _ _ H). repeat norm. reflexivity.
        -- destruct (rotL_case pb x pk pv (T true sl sk sv sr)) eqn:R; [|discriminate]. cbn [omap].
           intros [= <-]. rewrite inorder_blacken, inorder_plug, (rotL_inorder _ _ _ _ _ _ R). repeat norm. reflexivity.
      * destruct (both_black sl).
        -- intros [= <-]. rewrite inorder_blacken, inorder_plug. repeat norm. reflexivity.
        -- destruct (rotL_case false x pk pv sl) eqn:R; [|discriminate]. cbn [omap].
           intros [= <-]. rewrite inorder_blacken, inorder_plug. cbn [inorder]. rewrite (rotL_inorder _ _ _ _ _ _ R). repeat norm. reflexivity.
      * destruct (both_black (T true sl sk sv sr)).
        -- intros H. rewrite (IH _ _ H). repeat norm. reflexivity.
        -- destruct (rotR_case pb (T true sl sk sv sr) pk pv x) eqn:R; [|discriminate]. cbn [omap].
           intros [= <-]. rewrite inorder_blacken, inorder_plug, (rotR_inorder _ _ _ _ _ _ R). repeat norm. reflexivity.
      * destruct (both_black sr).
        -- intros [= <-]. rewrite inorder_blacken, inorder_plug. repeat norm. reflexivity.
        -- destruct (rotR_case false sr pk pv x) eqn:R; [|discriminate]. cbn [omap].
           intros [= <-]. rewrite inorder_blacken, inorder_plug. cbn [inorder]. rewrite (rotR_inorder _ _ _ _ _ _ R). repeat norm. reflexivity.
Qed.

Open Scope nat_scope.
(* context valid for a hole of black height h whose root is black iff hb *)
Fixpoint ctx (p : list frame) (h : nat) (hb : bool) : bool :=
  match p with
  | [] => true
  | PL b _ _ s :: p' => rb s && (bh s =? h) && (b || (hb && isBlack s)) && ctx p' ((if b then 1 else 0) + h) b
  | PR b s _ _ :: p' => rb s && (bh s =? h) && (b || (hb && isBlack s)) && ctx p' ((if b then 1 else 0) + h) b
  end.

Ltac b2p :=
  repeat match goal with
  | H : _ && _ = true |- _ => apply andb_prop in H; destruct H
  | H : (_ =? _) = true |- _ => apply Nat.eqb_eq in H
  | H : _ || _ = true |- _ => apply orb_prop in H
  | H : true = true |- _ => clear H
  | H : false = true |- _ => discriminate H
  | H : negb _ = true |- _ => apply negb_true_iff in H
  | H : negb _ = false |- _ => apply negb_false_iff in H
  end.
Ltac p2b := repeat (apply andb_true_intro; split); try (apply Nat.eqb_eq); try reflexivity; try assumption; try lia.

Lemma rb_blacken t : rb t = true -> rb (blacken t) = true.
Proof. destruct t; cbn; auto. intros; b2p. p2b. Qed.
Lemma bh_blacken_black t : isBlack t = true -> blacken t = t.
Proof. destruct t as [|[]]; cbn; congruence. Qed.

Ltac g2p := repeat (rewrite ?andb_true_iff, ?orb_true_iff, ?Nat.eqb_eq).
Ltac h2p := repeat match goal with
  | H : context [_ && _ = true] |- _ => rewrite andb_true_iff in H
  | H : context [_ || _ = true] |- _ => rewrite orb_true_iff in H
  | H : context [(_ =? _) = true] |- _ => rewrite Nat.eqb_eq in H
  end.
Ltac crush := cbn in *; h2p; g2p; intuition (try congruence; try lia).

(* plugging a valid tree into a valid context gives a valid tree (root colour aside) *)
Lemma rb_plug : forall p t, rb t = true -> ctx p (bh t) (isBlack t) = true -> rb (plug t p) = true.
Proof.
  induction p as [|f p IH]; intros t Ht Hc; [exact Ht|].
  destruct f as [b k v s | b s k v]; cbn [plug plug1]; apply IH.
  - destruct b; crush.
  - destruct b; crush.
  - destruct b; crush.
  - destruct b; crush; match goal with H : bh s = bh t |- _ => rewrite H end; assumption.
Qed.

Lemma bh_blacken_red t : isBlack t = false -> bh (blacken t) = S (bh t).
Proof. destruct t as [|[]]; cbn; congruence. Qed.
Lemma isBlack_blacken t : isBlack (blacken t) = true. Proof. destruct t; reflexivity. Qed.
Lemma rb_blacken' t : rb t = true -> rb (blacken t) = true.
Proof. destruct t; cbn; auto. intro; crush. Qed.

Definition okred (n : tree) (h : nat) : Prop :=
  match n with T false l _ _ r => rb l = true /\ rb r = true /\ bh l = h /\ bh r = h /\ isBlack l = true /\ isBlack r = true | _ => False end.

Lemma rb_insfix : forall p n h, okred n h -> ctx p h true = true -> rb (blacken (insfix n p)) = true.
Proof.
  fix IH 1. intros p n h Hn Hc.
  destruct n as [|[] l k v r]; try contradiction. destruct Hn as (Hl & Hr & Hbl & Hbr & Hil & Hir).
  destruct p as [|fp [|fg rest]].
  - cbn. crush.
  - destruct fp; cbn; destruct black; crush.
  - cbn [insfix].
    destruct fp as [[] pk pv psib | [] psib pk pv].
    + apply rb_blacken', rb_plug; cbn; [crush | destruct fg; crush].
    + destruct fg as [gb gk gv uncle | gb uncle gk gv]; unfold isRed; destruct (isBlack uncle) eqn:Eu; cbn [negb].
      * apply rb_blacken', rb_plug; cbn; destruct gb; crush.
      * eapply (IH rest _ (S h)); [cbn; pose proof (bh_blacken_red _ Eu); pose proof (isBlack_blacken uncle); pose proof (rb_blacken' uncle); destruct gb; crush | destruct gb; crush].
      * apply rb_blacken', rb_plug; cbn; destruct gb; crush.
      * eapply (IH rest _ (S h)); [cbn; pose proof (bh_blacken_red _ Eu); pose proof (isBlack_blacken uncle); pose proof (rb_blacken' uncle); destruct gb; crush | destruct gb; crush].
    + apply rb_blacken', rb_plug; cbn; [crush | destruct fg; crush].
    + destruct fg as [gb gk gv uncle | gb uncle gk gv]; unfold isRed; destruct (isBlack uncle) eqn:Eu; cbn [negb].
      * apply rb_blacken', rb_plug; cbn; destruct gb; crush.
      * eapply (IH rest _ (S h)); [cbn; pose proof (bh_blacken_red _ Eu); pose proof (isBlack_blacken uncle); pose proof (rb_blacken' uncle); destruct gb; crush | destruct gb; crush].
      * apply rb_blacken', rb_plug; cbn; destruct gb; crush.
      * eapply (IH rest _ (S h)); [cbn; pose proof (bh_blacken_red _ Eu); pose proof (isBlack_blacken uncle); pose proof (rb_blacken' uncle); destruct gb; crush | destruct gb; crush].
Qed.
Theorem rb_insert cmp t k v : rb t = true -> ctx (descend cmp t k []) 0 true = true -> rb (insert cmp t k v) = true.
Proof. intros. unfold insert. eapply rb_insfix; [|eassumption]. cbn. repeat split; reflexivity. Qed.

Ltac crush2 :=
  cbn [rb bh isBlack isRed ctx plug plug1 blacken redden both_black negb andb orb Nat.add] in *;
  repeat match goal with b : bool |- _ => destruct b end;
  cbn [rb bh isBlack isRed ctx plug plug1 blacken redden both_black negb andb orb Nat.add] in *;
  h2p; g2p; intuition (subst; try congruence; try lia).

Lemma ctx_mono p : forall h hb, ctx p h hb = true -> ctx p h true = true.
Proof. destruct p as [|[b k v s|b s k v] p]; intros h hb H; cbn in *; auto; destruct hb; auto; crush. Qed.

Lemma bh_redden t : isBlack t = true -> t <> E -> S (bh (redden t)) = bh t.
Proof. destruct t as [|[]]; cbn; congruence. Qed.
Lemma rb_redden t : rb t = true -> both_black t = true -> rb (redden t) = true.
Proof. destruct t as [|b l k v r]; cbn; auto. intros. crush. Qed.
Lemma isBlack_redden t : t <> E -> isBlack (redden t) = false.
Proof. destruct t; cbn; congruence. Qed.
Lemma bh_pos_nonE t : 0 < bh t -> t <> E. Proof. destruct t; cbn; [lia|discriminate]. Qed.

Lemma rotL_ok pb x pk pv s t h :
  rotL_case pb x pk pv s = Some t -> rb x = true -> bh x = h -> isBlack x = true -> rb s = true -> bh s = S h -> isBlack s = true -> both_black s = false ->
  rb t = true /\ bh t = (if pb then 1 else 0) + S h /\ (isBlack t = pb).
Proof.
  unfold rotL_case. destruct s as [|sb sl sk sv sr]; [discriminate|]. intros H Hx Hbx Hix Hs Hbs Hsb Hbb.
  destruct sl as [|[] ? ? ? ?], sr as [|[] ? ? ? ?]; cbn [isBlack both_black andb] in *; try discriminate; injection H as <-; crush2.
Qed.
Lemma rotR_ok pb s pk pv x t h :
  rotR_case pb s pk pv x = Some t -> rb x = true -> bh x = h -> isBlack x = true -> rb s = true -> bh s = S h -> isBlack s = true -> both_black s = false ->
  rb t = true /\ bh t = (if pb then 1 else 0) + S h /\ (isBlack t = pb).
Proof.
  unfold rotR_case. destruct s as [|sb sl sk sv sr]; [discriminate|]. intros H Hx Hbx Hix Hs Hbs Hsb Hbb.
  destruct sl as [|[] ? ? ? ?], sr as [|[] ? ? ? ?]; cbn [isBlack both_black andb] in *; try discriminate; injection H as <-; crush2.
Qed.

Lemma rb_blacken2 t : rb t = true -> rb (blacken t) = true. Proof. destruct t; cbn; auto; intro; crush. Qed.

Lemma rb_delfix : forall p x h t, rb (blacken x) = true -> bh x = h -> ctx p (S h) true = true -> delfix x p = Some t -> rb t = true.
Proof.
  induction p as [|f rest IH]; intros x h t Hx Hb Hc; cbn [delfix].
  - intros [= <-]. exact Hx.
  - destruct (isRed x) eqn:Ex.
    + intros [= <-]. apply rb_blacken2. change (plug (plug1 f (blacken x)) rest) with (plug (blacken x) (f :: rest)). apply rb_plug.
      * exact Hx.
      * unfold isRed in Ex. apply negb_true_iff in Ex. rewrite (bh_blacken_red _ Ex), isBlack_blacken, Hb. exact Hc.
    + unfold isRed in Ex. apply negb_false_iff in Ex. rewrite (bh_blacken_black _ Ex) in Hx.
      destruct f as [pb pk pv s | pb s pk pv]; destruct s as [|[] sl sk sv sr]; try discriminate.
      * (* PL, black sibling *)
        destruct (both_black (T true sl sk sv sr)) eqn:BB.
        -- intros H. eapply (IH _ ((if pb then 1 else 0) + h)); [ | | | exact H].
           ++ clear IH H. destruct pb; crush2.
           ++ clear IH H. crush2.
           ++ clear IH H. cbn [ctx] in Hc. h2p. destruct Hc as (_ & Hc). eapply ctx_mono. destruct pb; exact Hc.
        -- destruct (rotL_case pb x pk pv (T true sl sk sv sr)) eqn:R; [|discriminate]. cbn [omap]. intros [= <-].
           cbn [ctx] in Hc. h2p. destruct Hc as (((Hs & Hbs) & Hcol) & Hrest).
           destruct (rotL_ok _ _ _ _ _ _ h R Hx Hb Ex Hs Hbs eq_refl BB) as (R1 & R2 & R3).
           apply rb_blacken2, rb_plug; [exact R1|]. rewrite R2, R3. exact Hrest.
      * (* PL, red sibling *)
        cbn [ctx] in Hc. h2p. destruct Hc as (((Hs & Hbs) & Hcol) & Hrest).
        assert (pb = true) by (destruct pb; cbn in Hcol; intuition congruence). subst pb.
        cbn [rb bh isBlack] in Hs, Hbs. h2p. destruct Hs as (((Hsl & Hsr) & Hbeq) & Hkids). destruct Hkids as [Hk|Hk]; [discriminate|]. h2p. destruct Hk as [Hil Hir].
        cbn [Nat.add] in Hbs.
        destruct (both_black sl) eqn:BB.
        -- intros [= <-]. apply rb_blacken2, rb_plug; [|cbn [bh isBlack]; rewrite Hb; exact Hrest].
           assert (sl <> E) by (apply bh_pos_nonE; lia).
           pose proof (rb_redden _ Hsl BB). pose proof (bh_redden _ Hil H). pose proof (isBlack_redden _ H).
           cbn [rb bh isBlack Nat.add]. g2p. intuition (try congruence; try lia).
        -- destruct (rotL_case false x pk pv sl) eqn:R; [|discriminate]. cbn [omap]. intros [= <-].
           destruct (rotL_ok _ _ _ _ _ _ h R Hx Hb Ex Hsl ltac:(lia) Hil BB) as (R1 & R2 & R3).
           apply rb_blacken2, rb_plug; [|cbn [bh isBlack]; rewrite R2; exact Hrest].
           cbn [rb]. rewrite R1, Hsr. replace (bh t0 =? bh sr) with true by (symmetry; apply Nat.eqb_eq; cbn in R2; lia). reflexivity.
      * (* PR, black sibling *)
        destruct (both_black (T true sl sk sv sr)) eqn:BB.
        -- intros H. eapply (IH _ ((if pb then 1 else 0) + h)); [ | | | exact H].
           ++ clear IH H. destruct pb; crush2.
           ++ clear IH H. crush2.
           ++ clear IH H. cbn [ctx] in Hc. h2p. destruct Hc as (_ & Hc). eapply ctx_mono. destruct pb; exact Hc.
        -- destruct (rotR_case pb (T true sl sk sv sr) pk pv x) eqn:R; [|discriminate]. cbn [omap]. intros [= <-].
           cbn [ctx] in Hc. h2p. destruct Hc as (((Hs & Hbs) & Hcol) & Hrest).
           destruct (rotR_ok _ _ _ _ _ _ h R Hx Hb Ex Hs Hbs eq_refl BB) as (R1 & R2 & R3).
           apply rb_blacken2, rb_plug; [exact R1|]. rewrite R2, R3. exact Hrest.
      * (* PR, red sibling *)
        cbn [ctx] in Hc. h2p. destruct Hc as (((Hs & Hbs) & Hcol) & Hrest).
        assert (pb = true) by (destruct pb; cbn in Hcol; intuition congruence). subst pb.
        cbn [rb bh isBlack] in Hs, Hbs. h2p. destruct Hs as (((Hsl & Hsr) & Hbeq) & Hkids). destruct Hkids as [Hk|Hk]; [discriminate|]. h2p. destruct Hk as [Hil Hir].
        cbn [Nat.add] in Hbs.
        destruct (both_black sr) eqn:BB.
        -- intros [= <-]. apply rb_blacken2, rb_plug; [|cbn [bh isBlack]; replace (bh sl) with (S h) by lia; exact Hrest].
           assert (sr <> E) by (apply bh_pos_nonE; lia).
           pose proof (rb_redden _ Hsr BB). pose proof (bh_redden _ Hir H). pose proof (isBlack_redden _ H).
           cbn [rb bh isBlack Nat.add]. g2p. intuition (try congruence; try lia).
        -- destruct (rotR_case false sr pk pv x) eqn:R; [|discriminate]. cbn [omap]. intros [= <-].
           destruct (rotR_ok _ _ _ _ _ _ h R Hx Hb Ex Hsr ltac:(lia) Hir BB) as (R1 & R2 & R3).
           apply rb_blacken2, rb_plug; [|cbn [bh isBlack]; replace (bh sl) with (S h) by lia; exact Hrest].
           cbn [rb]. rewrite R1, Hsl. replace (bh sl =? bh t0) with true by (symmetry; apply Nat.eqb_eq; cbn in R2; lia). reflexivity.
Qed.

