(* C01 — division, part 2: the dispatch of Div / Mod / DivMod over the three kernels, the power-of-two shortcut, the 64-bit
   variants and the signed operations. *)
From Coq Require Import ZArith List Bool Lia.
From Verif Require Import common.Word64 common.Word64Facts C01.Model C01.ProofsArith C01.ProofsShift C01.ProofsBits C01.ProofsDiv.
Open Scope Z_scope.

(* ---- the dispatch *)
Lemma pow2_from_bits v k : 0 < v -> 0 <= k -> is_tz v k -> Z.log2 v = k -> v = 2 ^ k.
Proof.
  intros Hv Hk [T1 T2] HL. apply Z.bits_inj'. intros i Hi. rewrite Z.pow2_bits_eqb by lia.
  destruct (Z.eqb_spec k i) as [<-|Hne]; [exact T1|]. destruct (Z_lt_dec i k); [apply T2; lia|]. apply Z.bits_above_log2; lia.
Qed.
Lemma bitlen_bounds v : 0 < v -> 2 ^ (Z.log2 v) <= v < 2 ^ (Z.log2 v + 1).
Proof. intro H. pose proof (Z.log2_spec v H). replace (Z.log2 v + 1) with (Z.succ (Z.log2 v)) by lia. lia. Qed.

Definition ok_result {A} (sel : w128 -> w128 -> A) (u n : w128) (x : res A) : Prop :=
  exists q r, x = Ok (sel q r) /\ wf q /\ wf r /\ uval q = uval u / uval n /\ uval r = uval u mod uval n.

Lemma lift_result {A} (sel : w128 -> w128 -> A) u n o : div_result u n o -> ok_result sel u n (lift sel o).
Proof. intros (q & r & -> & H). exists q, r. split; [reflexivity|exact H]. Qed.

Lemma bin_result u n : wf u -> wf n -> 0 < uval n -> uval n < uval u ->
  div_result u n (divmod128bin u n (LeadingZeros u) (LeadingZeros n)).
Proof.
  intros Wu Wn Hn Hlt. unfold divmod128bin. pose proof (uval_range u Wu) as Ru. pose proof (uval_range n Wn) as Rn.
  rewrite !LeadingZeros_spec, !BitLen_spec by assumption.
  destruct (Z.eqb_spec (uval u) 0); [lia|]. destruct (Z.eqb_spec (uval n) 0); [lia|].
  set (a := Z.log2 (uval u)). set (b := Z.log2 (uval n)).
  pose proof (bitlen_bounds (uval u) ltac:(lia)) as Ba. pose proof (bitlen_bounds (uval n) Hn) as Bb. fold a in Ba. fold b in Bb.
  assert (Hab : b <= a) by (apply Z.log2_le_mono; lia).
  assert (Ha : a < 128) by (apply Z.log2_lt_pow2; [lia|change (2 ^ 128) with P128; lia]).
  assert (Hb0 : 0 <= b) by apply Z.log2_nonneg.
  replace (128 - (b + 1) - (128 - (a + 1))) with (a - b) by lia. set (k := a - b).
  assert (Pk : 0 < 2 ^ k) by (apply Z.pow_pos_nonneg; lia).
  assert (Eab : 2 ^ a = 2 ^ b * 2 ^ k) by (rewrite <- Z.pow_add_r by lia; f_equal; lia).
  assert (Eab1 : 2 ^ (a + 1) = 2 ^ (b + 1) * 2 ^ k) by (rewrite <- Z.pow_add_r by lia; f_equal; lia).
  assert (Nk : uval n * 2 ^ k < P128).
  { assert (uval n * 2 ^ k < 2 ^ (a + 1)) by (rewrite Eab1; clear - Bb Pk; nia). assert (2 ^ (a + 1) <= P128) by (change P128 with (2 ^ 128); apply Z.pow_le_mono_r; lia). lia. }
  destruct (LeftShift_spec n k Wn ltac:(lia)) as [Wv Vv]. rewrite Z.mod_small in Vv by (split; [clear - Rn Pk; nia|exact Nk]).
  assert (Lt2 : uval u < 2 * uval (LeftShift n k)).
  { rewrite Vv. assert (2 ^ (a + 1) = 2 * 2 ^ a) by (replace (a + 1) with (Z.succ a) by lia; apply Z.pow_succ_r; apply Z.log2_nonneg). clear - Ba Bb Eab H Pk. nia. }
  assert (Wz : wf zero) by (unfold wf, zero; cbn; lia).
  assert (K0 : 0 <= k) by (unfold k; lia).
  assert (Kf : (Z.to_nat k < 130)%nat) by (unfold k; lia).
  assert (Inv0 : uval u = uval zero * uval (LeftShift n k) + uval u) by (unfold zero; rewrite uval_mk; lia).
  assert (Ev0 : lo zero mod 2 = 0) by reflexivity.
  destruct (binloop_spec (uval n) (uval u) Hn 130%nat u (LeftShift n k) zero k Wu Wv Wz K0 Kf Vv Inv0 Lt2 Ev0 ltac:(lia)) as (q & r & E & Wq & Wr & Vq & Vr).
  exists q, r. split; [exact E|]. split; [exact Wq|]. split; [exact Wr|]. split; assumption.
Qed.

Lemma cmp3_cases a b : (zcmp3 a b <? 0 = true /\ a < b) \/ (zcmp3 a b <? 0 = false /\ zcmp3 a b =? 0 = true /\ a = b) \/ (zcmp3 a b <? 0 = false /\ zcmp3 a b =? 0 = false /\ b < a).
Proof. unfold zcmp3. destruct (Z.compare_spec a b); cbn; [right; left|left|right; right]; repeat split; lia. Qed.

Lemma pow2_divisor u n : wf u -> wf n -> 0 < uval n -> LeadingZeros n + TrailingZeros n = 127 ->
  let q := RightShift u (TrailingZeros n) in let r := And (Dec n) u in
  wf q /\ wf r /\ uval q = uval u / uval n /\ uval r = uval u mod uval n.
Proof.
  intros Wu Wn Hn H. pose proof (uval_range n Wn) as Rn. pose proof (uval_range u Wu) as Ru.
  destruct (TrailingZeros_spec n Wn) as [_ T]. destruct (T ltac:(lia)) as [Tr Tz]. set (k := TrailingZeros n) in *.
  rewrite LeadingZeros_spec, BitLen_spec in H by assumption. destruct (Z.eqb_spec (uval n) 0); [lia|].
  assert (En : uval n = 2 ^ k) by (apply pow2_from_bits; [lia|lia|exact Tz|lia]).
  destruct (RightShift_spec u k Wu ltac:(lia)) as [Wq Vq]. destruct (Dec_spec n Wn) as [Wd Vd]. rewrite Z.mod_small in Vd by lia.
  destruct (And_spec (Dec n) u Wd Wu) as [Wr Vr].
  cbn zeta. split; [exact Wq|]. split; [exact Wr|]. split; [rewrite Vq, En; reflexivity|].
  rewrite Vr, Vd, En. rewrite Z.land_comm. replace (2 ^ k - 1) with (Z.ones k) by (rewrite Z.ones_equiv; lia). apply Z.land_ones. lia.
Qed.

Lemma general_ok {A} (sel : w128 -> w128 -> A) u n nLo nHi : wf u -> wf n -> 0 < uval n ->
  (hi n = 0 -> nHi = 64 /\ nLo = lz64 (lo n)) -> (hi n <> 0 -> nHi = lz64 (hi n) /\ nLo = 0) ->
  ok_result sel u n
    (let nLeading0 := LeadingZeros n in let nTrailing0 := TrailingZeros n in
     if nLeading0 + nTrailing0 =? 127 then Ok (sel (RightShift u nTrailing0) (And (Dec n) u))
     else let c := Cmp u n in
       if c <? 0 then Ok (sel zero u)
       else if c =? 0 then Ok (sel (mk 0 1) zero)
       else let uLeading0 := LeadingZeros u in
         lift sel (if 16 <? nLeading0 - uLeading0 then divmod128by128 u n nHi nLo else divmod128bin u n uLeading0 nLeading0)).
Proof.
  intros Wu Wn Hn H0 H1. pose proof (uval_range n Wn) as Rn. pose proof (uval_range u Wu) as Ru. cbn zeta.
  destruct (Z.eqb_spec (LeadingZeros n + TrailingZeros n) 127) as [E|E].
  - destruct (pow2_divisor u n Wu Wn Hn E) as (Wq & Wr & Vq & Vr). eexists _, _. split; [reflexivity|]. repeat split; assumption || apply Wq || apply Wr.
  - rewrite (Cmp_spec u n Wu Wn). destruct (cmp3_cases (uval u) (uval n)) as [[C L]|[(C1 & C2 & L)|(C1 & C2 & L)]].
    + rewrite C. exists zero, u. split; [reflexivity|]. split; [unfold wf, zero; cbn; lia|]. split; [exact Wu|].
      unfold zero. rewrite uval_mk. split; [rewrite Z.div_small by lia; lia|rewrite Z.mod_small by lia; reflexivity].
    + rewrite C1, C2. exists (mk 0 1), zero. split; [reflexivity|]. split; [unfold wf; cbn; lia|]. split; [unfold wf, zero; cbn; lia|].
      unfold zero. rewrite !uval_mk, L. split; [rewrite Z.div_same by lia; lia|rewrite Z.mod_same by lia; lia].
    + rewrite C1, C2. apply lift_result. destruct (16 <? LeadingZeros n - LeadingZeros u).
      * destruct (Z.eq_dec (hi n) 0) as [Hz|Hz].
        -- destruct (H0 Hz) as [-> ->]. apply by128_small; try assumption. destruct Wn as [_ Wl]. unfold uval in Hn. lia.
        -- destruct (H1 Hz) as [-> ->]. apply by128_large; try assumption. destruct Wn as [Wh _]. lia.
      * apply bin_result; assumption.
Qed.

Theorem divgen_spec {A} (sel : w128 -> w128 -> A) u n : wf u -> wf n ->
  (uval n = 0 -> divgen sel u n = DivZero) /\ (0 < uval n -> ok_result sel u n (divgen sel u n)).
Proof.
  intros Wu Wn. pose proof (uval_range n Wn) as Rn. destruct Wn as [Wh Wl]. assert (Wn : wf n) by (split; assumption). unfold divgen. split.
  - intro Z0. unfold uval in Z0. assert (hi n = 0) by lia. assert (lo n = 0) by lia. rewrite H, H0. reflexivity.
  - intro Hn. destruct (Z.eqb_spec (hi n) 0) as [Hz|Hz].
    + assert (En : uval n = lo n) by (unfold uval; rewrite Hz; lia).
      destruct (Z.eqb_spec (lo n) 0); [lia|]. destruct (Z.eqb_spec (lo n) 1) as [E1|E1].
      * exists u, zero. split; [reflexivity|]. split; [exact Wu|]. split; [unfold wf, zero; cbn; lia|]. rewrite En, E1. unfold zero. rewrite uval_mk.
        split; [rewrite Z.div_1_r; reflexivity|rewrite Z.mod_1_r; lia].
      * destruct (Z.eqb_spec (hi u) 0) as [Hu0|Hu0].
        -- destruct Wu as [_ Wul]. assert (Eu : uval u = lo u) by (unfold uval; rewrite Hu0; lia).
           pose proof (Z.mod_pos_bound (lo u) (lo n) ltac:(lia)). assert (0 <= lo u / lo n <= lo u) by (split; [apply Z.div_pos; lia|apply Z.div_le_upper_bound; nia]).
           eexists _, _. split; [reflexivity|]. split; [unfold wf; cbn; lia|]. split; [unfold wf; cbn; lia|]. rewrite !uval_mk, En, Eu. split; lia.
        -- assert (G := general_ok sel u n (lz64 (lo n)) 64 Wu Wn Hn ltac:(intros _; split; reflexivity) ltac:(intro X; contradiction)).
           assert (EL : LeadingZeros n = lz64 (lo n) + 64) by (unfold LeadingZeros; rewrite Hz; reflexivity).
           cbv zeta in G. rewrite EL in G. cbv beta zeta. exact G.
    + assert (G := general_ok sel u n 0 (lz64 (hi n)) Wu Wn Hn ltac:(intro X; contradiction) ltac:(intros _; split; reflexivity)).
      assert (EL : LeadingZeros n = lz64 (hi n)) by (unfold LeadingZeros; destruct (Z.eqb_spec (hi n) 0); [contradiction|reflexivity]).
      cbv zeta in G. rewrite EL in G. cbv beta zeta. exact G.
Qed.

Theorem DivMod_spec u n : wf u -> wf n ->
  (uval n = 0 -> DivMod u n = DivZero /\ Div u n = DivZero /\ Mod u n = DivZero) /\
  (0 < uval n -> exists q r, DivMod u n = Ok (q, r) /\ Div u n = Ok q /\ Mod u n = Ok r /\
                 wf q /\ wf r /\ uval q = uval u / uval n /\ uval r = uval u mod uval n /\ uval q * uval n + uval r = uval u /\ uval r < uval n).
Proof.
  intros Wu Wn. split.
  - intro Z0. unfold DivMod, Div, Mod. repeat split; apply divgen_spec; assumption.
  - intro Hn. unfold DivMod, Div, Mod.
    destruct (proj2 (divgen_spec (fun q r => (q, r)) u n Wu Wn) Hn) as (q & r & E & Wq & Wr & Vq & Vr).
    destruct (proj2 (divgen_spec (fun q _ => q) u n Wu Wn) Hn) as (q1 & r1 & E1 & Wq1 & _ & Vq1 & _).
    destruct (proj2 (divgen_spec (fun _ r => r) u n Wu Wn) Hn) as (q2 & r2 & E2 & _ & Wr2 & _ & Vr2).
    assert (q1 = q) by (apply uval_inj; congruence). assert (r2 = r) by (apply uval_inj; congruence). subst.
    exists q, r. repeat split; try assumption; try apply Wq; try apply Wr.
    + rewrite Vq, Vr. pose proof (Z.div_mod (uval u) (uval n) ltac:(lia)). lia.
    + rewrite Vr. apply Z.mod_pos_bound. lia.
Qed.

(* ---- the 64-bit-divisor variants: the same result as dividing by the 128-bit value of the word *)
Theorem divgen64_spec {A} (sel : w128 -> w128 -> A) u n : wf u -> w64 n ->
  (n = 0 -> divgen64 sel u n = DivZero) /\ (0 < n -> ok_result sel u (mk 0 n) (divgen64 sel u n)).
Proof.
  intros Wu Hn0. unfold w64 in Hn0. set (N := mk 0 n). assert (WN : wf N) by (unfold wf, N; cbn; lia). assert (VN : uval N = n) by (unfold N; rewrite uval_mk; lia).
  pose proof (uval_range u Wu) as Ru. unfold divgen64. split; [intros ->; reflexivity|]. intro Hn. unfold ok_result. rewrite VN.
  destruct (Z.eqb_spec n 0); [lia|]. destruct (Z.eqb_spec n 1) as [E1|E1].
  - exists u, zero. split; [reflexivity|]. split; [exact Wu|]. split; [unfold wf, zero; cbn; lia|]. rewrite E1. unfold zero. rewrite uval_mk.
    split; [rewrite Z.div_1_r; reflexivity|rewrite Z.mod_1_r; lia].
  - destruct (Z.eqb_spec (hi u) 0) as [Hu0|Hu0].
    + destruct Wu as [_ Wul]. assert (Eu : uval u = lo u) by (unfold uval; rewrite Hu0; lia).
      pose proof (Z.mod_pos_bound (lo u) n ltac:(lia)). assert (0 <= lo u / n <= lo u) by (split; [apply Z.div_pos; lia|apply Z.div_le_upper_bound; nia]).
      eexists _, _. split; [reflexivity|]. split; [unfold wf; cbn; lia|]. split; [unfold wf; cbn; lia|]. rewrite !uval_mk, Eu. split; lia.
    + cbv zeta.
      assert (ELZ : LeadingZeros N = lz64 n + 64) by reflexivity.
      assert (ETZ : TrailingZeros N = tz64 n) by (unfold TrailingZeros, N; cbn [hi lo]; destruct (Z.eqb_spec n 0); [lia|reflexivity]).
      destruct (Z.eqb_spec (lz64 n + 64 + tz64 n) 127) as [E|E].
      * destruct (pow2_divisor u N Wu WN ltac:(lia) ltac:(rewrite ELZ, ETZ; exact E)) as (Wq & Wr & Vq & Vr). rewrite ETZ in Wq, Vq. rewrite VN in Vq, Vr.
        assert (EA : And64 u (wrap (n - 1)) = And (Dec N) u).
        { unfold And64, And, Dec, N, sub64. cbn [hi lo]. destruct (Z.ltb_spec (n - 1 - 0) 0); [lia|]. change (wrap (0 - 0)) with 0.
          replace (n - 1 - 0) with (n - 1) by lia. rewrite Z.land_0_l. f_equal. apply Z.land_comm. }
        rewrite EA. eexists _, _. split; [reflexivity|]. repeat split; assumption || apply Wq || apply Wr.
      * assert (Hgt : n < uval u) by (destruct Wu as [[? ?] [? ?]]; unfold uval; nia).
        rewrite (Cmp64_spec u n Wu ltac:(unfold w64; lia)). destruct (cmp3_cases (uval u) n) as [[C L]|[(C1 & C2 & L)|(C1 & C2 & L)]]; try lia.
        rewrite C1, C2. destruct (16 <? lz64 n + 64 - LeadingZeros u).
        -- (* the same calls as the small-divisor branch of the 128-bit kernel *)
           pose proof (by128_small u N Wu WN eq_refl ltac:(unfold N; cbn; lia)) as (q & r & E2 & Wq & Wr & Vq & Vr). rewrite VN in Vq, Vr.
           unfold divmod128by128, N in E2. cbn [hi lo Z.eqb] in E2.
           destruct (hi u <? n).
           ++ destruct (divmod128by64 u n (lz64 n)) as [[a b]|]; [|discriminate]. injection E2 as <- <-.
              eexists _, _. split; [reflexivity|]. repeat split; assumption || apply Wq || apply Wr.
           ++ destruct (divmod128by64 (mk (hi u mod n) (lo u)) n (lz64 n)) as [[a b]|]; [|discriminate]. injection E2 as <- <-.
              eexists _, _. split; [reflexivity|]. repeat split; assumption || apply Wq || apply Wr.
        -- pose proof (bin_result u N Wu WN ltac:(lia) ltac:(lia)) as (q & r & E2 & Wq & Wr & Vq & Vr). rewrite VN in Vq, Vr. rewrite ELZ in E2.
           fold N. rewrite E2. exists q, r. split; [reflexivity|]. repeat split; assumption || apply Wq || apply Wr.
Qed.

Theorem DivMod64_spec u n : wf u -> w64 n ->
  (n = 0 -> DivMod64 u n = DivZero /\ Div64 u n = DivZero /\ Mod64 u n = DivZero) /\
  (0 < n -> exists q r, DivMod64 u n = Ok (q, r) /\ Div64 u n = Ok q /\ Mod64 u n = Ok r /\
            wf q /\ wf r /\ uval q = uval u / n /\ uval r = uval u mod n /\ uval q * n + uval r = uval u /\ uval r < n).
Proof.
  intros Wu Wn. assert (VN : uval (mk 0 n) = n) by (rewrite uval_mk; lia). split.
  - intro Z0. unfold DivMod64, Div64, Mod64. repeat split; apply divgen64_spec; assumption.
  - intro Hn. unfold DivMod64, Div64, Mod64.
    destruct (proj2 (divgen64_spec (fun q r => (q, r)) u n Wu Wn) Hn) as (q & r & E & Wq & Wr & Vq & Vr).
    destruct (proj2 (divgen64_spec (fun q _ => q) u n Wu Wn) Hn) as (q1 & r1 & E1 & Wq1 & _ & Vq1 & _).
    destruct (proj2 (divgen64_spec (fun _ r => r) u n Wu Wn) Hn) as (q2 & r2 & E2 & _ & Wr2 & _ & Vr2).
    rewrite VN in *. assert (q1 = q) by (apply uval_inj; congruence). assert (r2 = r) by (apply uval_inj; congruence). subst.
    exists q, r. repeat split; try assumption; try apply Wq; try apply Wr.
    + rewrite Vq, Vr. pose proof (Z.div_mod (uval u) n ltac:(lia)). lia.
    + rewrite Vr. apply Z.mod_pos_bound. lia.
Qed.
