(* C01 — Uint128 addition, subtraction, comparison, multiplication equal arithmetic modulo 2^128 *)
From Coq Require Import ZArith List Bool Lia.
From Verif Require Import common.Word64 common.Word64Facts C01.Model.
Open Scope Z_scope.
Ltac Zify.zify_post_hook ::= Z.div_mod_to_equations.

Lemma uval_range u : wf u -> 0 <= uval u < P128.
Proof. unfold wf, uval. intros [? ?]. lia. Qed.
Lemma uval_inj u n : wf u -> wf n -> uval u = uval n -> u = n.
Proof. destruct u as [h l], n as [h' l']. unfold wf, uval. cbn. intros [? ?] [? ?] E. assert (h = h') by lia. subst. f_equal. lia. Qed.
Lemma wf_mk h l : w64 h -> w64 l -> wf (mk h l).
Proof. unfold wf, w64. cbn. auto. Qed.

(* characterisation used everywhere: a well-formed result whose value is congruent to v and in range *)
Lemma mod128_unique v r : 0 <= r < P128 -> (exists k, r = v + k * P128) -> r = v mod P128.
Proof. intros Hr [k Hk]. apply (Z.mod_unique_pos v P128 (- k) r); lia. Qed.

Theorem Add_spec u n : wf u -> wf n -> wf (Add u n) /\ uval (Add u n) = (uval u + uval n) mod P128.
Proof.
  intros [Hh Hl] [Hh' Hl']. unfold Add, add64, wrap, uval, wf. cbn [hi lo].
  destruct u as [h l], n as [h' l']. cbn [hi lo] in *.
  split; [split; apply Z.mod_pos_bound; lia|].
  apply mod128_unique.
  - pose proof (Z.mod_pos_bound (h + h' + (l + l' + 0) / W) W ltac:(lia)). pose proof (Z.mod_pos_bound (l + l' + 0) W ltac:(lia)). lia.
  - exists (- ((h + h' + (l + l' + 0) / W) / W)). lia.
Qed.
Theorem Sub_spec u n : wf u -> wf n -> wf (Sub u n) /\ uval (Sub u n) = (uval u - uval n) mod P128.
Proof.
  intros [Hh Hl] [Hh' Hl']. unfold Sub, sub64, wrap, uval, wf. cbn [hi lo].
  destruct u as [h l], n as [h' l']. cbn [hi lo] in *.
  split; [split; apply Z.mod_pos_bound; lia|].
  apply mod128_unique.
  - pose proof (Z.mod_pos_bound (h - h' - (if l - l' - 0 <? 0 then 1 else 0)) W ltac:(lia)). pose proof (Z.mod_pos_bound (l - l' - 0) W ltac:(lia)). lia.
  - destruct (l - l' - 0 <? 0) eqn:E; [apply Z.ltb_lt in E | apply Z.ltb_ge in E].
    + exists (- ((h - h' - 1) / W)). lia.
    + exists (- ((h - h' - 0) / W)). lia.
Qed.
Theorem Add64_spec u n : wf u -> w64 n -> wf (Add64 u n) /\ uval (Add64 u n) = (uval u + n) mod P128.
Proof.
  intros [Hh Hl] Hn. unfold Add64, add64, wrap, uval, wf, w64 in *. cbn [hi lo].
  destruct u as [h l]. cbn [hi lo] in *.
  split; [split; apply Z.mod_pos_bound; lia|].
  apply mod128_unique.
  - pose proof (Z.mod_pos_bound (h + (l + n + 0) / W) W ltac:(lia)). pose proof (Z.mod_pos_bound (l + n + 0) W ltac:(lia)). lia.
  - exists (- ((h + (l + n + 0) / W) / W)). lia.
Qed.
Theorem Sub64_spec u n : wf u -> w64 n -> wf (Sub64 u n) /\ uval (Sub64 u n) = (uval u - n) mod P128.
Proof.
  intros [Hh Hl] Hn. unfold Sub64, sub64, wrap, uval, wf, w64 in *. cbn [hi lo].
  destruct u as [h l]. cbn [hi lo] in *.
  split; [split; apply Z.mod_pos_bound; lia|].
  apply mod128_unique.
  - pose proof (Z.mod_pos_bound (h - (if l - n - 0 <? 0 then 1 else 0)) W ltac:(lia)). pose proof (Z.mod_pos_bound (l - n - 0) W ltac:(lia)). lia.
  - destruct (l - n - 0 <? 0) eqn:E; [apply Z.ltb_lt in E | apply Z.ltb_ge in E].
    + exists (- ((h - 1) / W)). lia.
    + exists (- ((h - 0) / W)). lia.
Qed.
Lemma Inc_Add64 u : Inc u = Add64 u 1. Proof. reflexivity. Qed.
Lemma Dec_Sub64 u : Dec u = Sub64 u 1. Proof. reflexivity. Qed.
Theorem Inc_spec u : wf u -> wf (Inc u) /\ uval (Inc u) = (uval u + 1) mod P128.
Proof. intro H. rewrite Inc_Add64. apply Add64_spec; [exact H | unfold w64; lia]. Qed.
Theorem Dec_spec u : wf u -> wf (Dec u) /\ uval (Dec u) = (uval u - 1) mod P128.
Proof. intro H. rewrite Dec_Sub64. apply Sub64_spec; [exact H | unfold w64; lia]. Qed.

(* ---------- comparisons ---------- *)
Definition zcmp3 (a b : Z) : Z := match a ?= b with Lt => -1 | Eq => 0 | Gt => 1 end.
Ltac cmp_tac :=
  repeat match goal with
  | |- context [?a =? ?b] => destruct (Z.eqb_spec a b)
  | |- context [?a <? ?b] => destruct (Z.ltb_spec a b)
  | |- context [?a <=? ?b] => destruct (Z.leb_spec a b)
  | |- context [?a ?= ?b] => destruct (Z.compare_spec a b)
  end; cbn [andb orb negb]; try reflexivity; try lia.

Theorem Cmp_spec u n : wf u -> wf n -> Cmp u n = zcmp3 (uval u) (uval n).
Proof. intros [? ?] [? ?]. unfold Cmp, zcmp3, uval. destruct u as [h l], n as [h' l']; cbn [hi lo] in *. cmp_tac. Qed.
Theorem Cmp64_spec u n : wf u -> w64 n -> Cmp64 u n = zcmp3 (uval u) n.
Proof. intros [? ?] ?. unfold Cmp64, zcmp3, uval, w64 in *. destruct u as [h l]; cbn [hi lo] in *. cmp_tac. Qed.
Theorem predicates_spec u n : wf u -> wf n ->
  GreaterThan u n = (uval n <? uval u) /\ GreaterThanOrEqual u n = (uval n <=? uval u) /\ Equal u n = (uval u =? uval n) /\
  LessThan u n = (uval u <? uval n) /\ LessThanOrEqual u n = (uval u <=? uval n) /\ IsZero u = (uval u =? 0).
Proof.
  intros [? ?] [? ?]. unfold GreaterThan, GreaterThanOrEqual, Equal, LessThan, LessThanOrEqual, IsZero, uval.
  destruct u as [h l], n as [h' l']; cbn [hi lo] in *. repeat split; cmp_tac.
Qed.
Theorem predicates64_spec u n : wf u -> w64 n ->
  GreaterThan64 u n = (n <? uval u) /\ GreaterThanOrEqual64 u n = (n <=? uval u) /\ Equal64 u n = (uval u =? n) /\
  LessThan64 u n = (uval u <? n) /\ LessThanOrEqual64 u n = (uval u <=? n).
Proof.
  intros [? ?] ?. unfold GreaterThan64, GreaterThanOrEqual64, Equal64, LessThan64, LessThanOrEqual64, uval, w64 in *.
  destruct u as [h l]; cbn [hi lo] in *. repeat split; cmp_tac.
Qed.

(* ---------- multiplication ---------- *)
Theorem Mul_spec u n : wf u -> wf n -> wf (Mul u n) /\ uval (Mul u n) = (uval u * uval n) mod P128.
Proof.
  intros [Hh Hl] [Hh' Hl']. unfold Mul. destruct u as [h l], n as [h' l']. cbn [hi lo] in *.
  pose proof (mul64_spec l l' Hl Hl') as M. destruct (mul64 l l') as [ph pl]. destruct M as (Hph & Hpl & HM).
  unfold wf, uval. cbn [hi lo]. split; [split; [apply wrap_range | exact Hpl]|].
  destruct (wrap_eqm (h * l')) as [k1 E1]. destruct (wrap_eqm (l * h')) as [k2 E2].
  destruct (wrap_eqm (ph + wrap (h * l') + wrap (l * h'))) as [k3 E3].
  pose proof (wrap_range (ph + wrap (h * l') + wrap (l * h'))) as R. unfold w64 in *.
  apply mod128_unique; [lia|].
  exists (- k3 - k1 - k2 - h * h'). rewrite E3, E1, E2. nia.
Qed.

(* ---------- Mul64: the 32-bit schoolbook high word ---------- *)
Lemma land_M32 x : 0 <= x -> Z.land x M32 = x mod B32.
Proof. intro. change M32 with (Z.ones 32). rewrite Z.land_ones by lia. reflexivity. Qed.
Lemma shr32 x : shr x 32 = x / B32.
Proof. reflexivity. Qed.

Lemma mulhi_schoolbook x0 x1 y0 y1 : 0 <= x0 < B32 -> 0 <= x1 < B32 -> 0 <= y0 < B32 -> 0 <= y1 < B32 ->
  let t := x1 * y0 + (x0 * y0) / B32 in
  x1 * y1 + t / B32 + (t mod B32 + x0 * y1) / B32 = ((x1 * B32 + x0) * (y1 * B32 + y0)) / W /\
  0 <= x1 * y0 < W /\ 0 <= x0 * y0 < W /\ 0 <= t < W /\ 0 <= x1 * y1 < W /\ 0 <= x0 * y1 < W /\ 0 <= t mod B32 + x0 * y1 < W.
Proof.
  intros H0 H1 H2 H3 t.
  assert (A1 : 0 <= x1 * y0 <= 4294967295 * 4294967295) by nia.
  assert (A2 : 0 <= x0 * y0 <= 4294967295 * 4294967295) by nia.
  assert (A3 : 0 <= x1 * y1 <= 4294967295 * 4294967295) by nia.
  assert (A4 : 0 <= x0 * y1 <= 4294967295 * 4294967295) by nia.
  set (c0 := (x0 * y0) / B32) in *. set (r0 := (x0 * y0) mod B32).
  assert (E0 : x0 * y0 = c0 * B32 + r0 /\ 0 <= r0 < B32 /\ 0 <= c0 < B32) by (unfold c0, r0; lia).
  assert (Ht : 0 <= t < W) by (unfold t; lia).
  set (t1 := t / B32). set (t0 := t mod B32).
  assert (Et : t = t1 * B32 + t0 /\ 0 <= t0 < B32 /\ 0 <= t1) by (unfold t1, t0; lia).
  set (s := t0 + x0 * y1). set (s1 := s / B32). set (s0 := s mod B32).
  assert (Es : s = s1 * B32 + s0 /\ 0 <= s0 < B32 /\ 0 <= s1) by (unfold s1, s0, s; lia).
  split; [|unfold s; lia].
  apply Z.div_unique with (r := s0 * B32 + r0); [left; lia|].
  unfold s, t in *. destruct E0 as (E0 & ? & ?), Et as (Et & ? & ?), Es as (Es & ? & ?). nia.
Qed.

Theorem Mul64_spec u n : wf u -> w64 n -> wf (Mul64 u n) /\ uval (Mul64 u n) = (uval u * n) mod P128.
Proof.
  intros [Hh Hl] Hn. unfold Mul64. destruct u as [h l]. cbn [hi lo] in *. unfold w64 in *.
  rewrite !land_M32 by lia. rewrite !shr32.
  set (x0 := l mod B32). set (x1 := l / B32). set (y0 := n mod B32). set (y1 := n / B32).
  assert (Hx : l = x1 * B32 + x0 /\ 0 <= x0 < B32 /\ 0 <= x1 < B32) by (unfold x0, x1; lia).
  assert (Hy : n = y1 * B32 + y0 /\ 0 <= y0 < B32 /\ 0 <= y1 < B32) by (unfold y0, y1; lia).
  destruct Hx as (Ex & Hx0 & Hx1), Hy as (Ey & Hy0 & Hy1).
  destruct (mulhi_schoolbook x0 x1 y0 y1 Hx0 Hx1 Hy0 Hy1) as (HI & B1 & B2 & B3 & B4 & B5 & B6). cbv zeta in HI, B3, B6.
  rewrite (wrap_small (x1 * y0)) by exact B1. rewrite (wrap_small (x0 * y0)) by exact B2.
  rewrite (wrap_small (x1 * y0 + x0 * y0 / B32)) by exact B3.
  rewrite land_M32 by lia. rewrite (wrap_small (x1 * y1)) by exact B4. rewrite (wrap_small (x0 * y1)) by exact B5.
  rewrite (wrap_small ((x1 * y0 + x0 * y0 / B32) mod B32 + x0 * y1)) by exact B6.
  rewrite HI, <- Ex, <- Ey.
  unfold wf, uval. cbn [hi lo]. split; [split; apply wrap_range|].
  destruct (wrap_eqm (h * n)) as [k1 E1]. destruct (wrap_eqm (l * n / W + wrap (h * n))) as [k2 E2].
  pose proof (wrap_range (l * n / W + wrap (h * n))) as R1. pose proof (wrap_range (l * n)) as R2. unfold w64 in *.
  assert (E3 : wrap (l * n) = l * n - (l * n / W) * W) by (unfold wrap; lia).
  apply mod128_unique; [lia|]. exists (- k2 - k1). rewrite E2, E1, E3. lia.
Qed.
