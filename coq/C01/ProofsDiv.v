(* C01 — division: the quotient-digit loop of divmod128by64 (Hacker's Delight divlu) finds the exact digit; the kernel returns the
   exact quotient and remainder of a 128-bit by 64-bit division whose quotient fits in 64 bits. *)
From Coq Require Import ZArith List Bool Lia.
From Verif Require Import common.Word64 common.Word64Facts C01.Model C01.ProofsArith C01.ProofsShift C01.ProofsBits.
Open Scope Z_scope.

Lemma le_from_mul q Q v NN : 0 < v -> q * v <= NN -> NN < (Q + 1) * v -> q <= Q.
Proof. intros. nia. Qed.

Lemma lor_right un1 rhat : 0 <= un1 < B32 -> 0 <= rhat < B32 -> Z.lor (shl rhat 32) un1 = rhat * B32 + un1.
Proof.
  intros Hu1 H. rewrite shl_val by (unfold w64; lia). change (2 ^ 32) with B32. rewrite Z.mod_small by nia.
  apply (lor_add_disjoint _ _ 32).
  - lia.
  - nia.
  - change (2 ^ 32) with B32. apply Z.mod_mul. lia.
  - change (2 ^ 32) with B32. lia.
Qed.

(* ---- one quotient digit *)
Section Digit.
Variables uh un1 vn1 vn0 : Z.
Hypothesis Hv1 : 2147483648 <= vn1 < B32.
Hypothesis Hv0 : 0 <= vn0 < B32.
Hypothesis Hu1 : 0 <= un1 < B32.
Hypothesis Huh : 0 <= uh < vn1 * B32 + vn0.
Let v := vn1 * B32 + vn0.
Let NN := uh * B32 + un1.
Let Q := NN / v.
Definition C (q1 rhat : Z) : bool := (B32 <=? q1) || (rhat * B32 + un1 <? q1 * vn0).

Lemma vpos : 0 < v. Proof. unfold v; lia. Qed.
Lemma Qspec : Q * v <= NN < (Q + 1) * v.
Proof. unfold Q. pose proof vpos. pose proof (Z.div_mod NN v ltac:(lia)). pose proof (Z.mod_pos_bound NN v ltac:(lia)). nia. Qed.
Lemma Qlt : 0 <= Q < B32.
Proof. pose proof Qspec. pose proof vpos. assert (NN < B32 * v) by (unfold NN, v in *; nia). assert (0 <= NN) by (unfold NN; nia). split; nia. Qed.
Lemma ident q r : uh = q * vn1 + r -> NN - q * v = r * B32 + un1 - q * vn0.
Proof. intros ->. unfold NN, v. ring. Qed.
Lemma exact q r : uh = q * vn1 + r -> Q <= q -> q * vn0 <= r * B32 + un1 -> q = Q.
Proof. intros H1 H2 H3. pose proof (ident q r H1). pose proof Qspec. pose proof vpos.
  assert (q <= Q) by (apply (le_from_mul q Q v NN); lia). lia. Qed.
Lemma dec q r : uh = q * vn1 + r -> Q <= q -> C q r = true -> Q <= q - 1.
Proof. intros H1 H2 H3. unfold C in H3. apply Bool.orb_true_iff in H3. destruct H3 as [H3|H3].
  - apply Z.leb_le in H3. pose proof Qlt. lia.
  - apply Z.ltb_lt in H3. pose proof (ident q r H1). pose proof Qspec. pose proof vpos.
    assert (~ q <= Q). { intro. assert (q * v <= Q * v) by nia. lia. } lia. Qed.
Lemma bigr q r : uh = q * vn1 + r -> B32 <= r -> 0 <= q <= B32 -> q * vn0 <= r * B32 + un1.
Proof. intros. nia. Qed.
Lemma q0_bounds : 0 <= uh / vn1 <= B32 + 1 /\ Q <= uh / vn1 /\ uh = (uh / vn1) * vn1 + uh mod vn1 /\ 0 <= uh mod vn1 < vn1.
Proof.
  pose proof (Z.div_mod uh vn1 ltac:(lia)). pose proof (Z.mod_pos_bound uh vn1 ltac:(lia)).
  set (q0 := uh / vn1) in *. set (r0 := uh mod vn1) in *.
  assert (0 <= q0) by (apply Z.div_pos; lia).
  assert (q0 <= B32 + 1). { assert (q0 * vn1 <= uh) by lia. assert (uh < (B32 + 2) * vn1) by (unfold v in *; nia). nia. }
  assert (Q <= q0).
  { pose proof Qspec. pose proof vpos. assert (NN < (q0 + 1) * (vn1 * B32)) by (unfold NN; nia).
    assert ((q0 + 1) * (vn1 * B32) <= (q0 + 1) * v) by (unfold v; nia).
    apply (le_from_mul Q q0 v (Q * v)); try lia. }
  repeat split; lia.
Qed.

(* the loop as coded, on wrapped words: invariant uh = q*vn1 + rhat, Q <= q <= B32+1, rhat < B32, left = wrap (q*vn0), right = rhat*B32+un1 *)
Lemma cond_is_C q rhat : 0 <= q <= B32 + 1 -> 0 <= rhat < B32 ->
  ((B32 <=? q) || (rhat * B32 + un1 <? wrap (q * vn0))) = C q rhat.
Proof.
  intros Hq Hr. unfold C. destruct (Z.leb_spec B32 q); [reflexivity|]. cbn [orb]. rewrite wrap_small; [reflexivity|]. unfold w64. nia.
Qed.
(* one round of the loop *)
Lemma qloop_step f q rhat : 0 <= q <= B32 + 1 -> 0 <= rhat < B32 ->
  qloop (S f) q rhat (wrap (q * vn0)) (rhat * B32 + un1) vn1 vn0 un1 =
  if C q rhat then (if rhat + vn1 <? B32 then qloop f (q - 1) (rhat + vn1) (wrap ((q - 1) * vn0)) ((rhat + vn1) * B32 + un1) vn1 vn0 un1 else Some (q - 1)) else Some q.
Proof.
  intros Hq Hr. cbn [qloop]. rewrite cond_is_C by assumption. destruct (C q rhat) eqn:E; [|reflexivity].
  assert (Hq1 : 1 <= q).
  { unfold C in E. apply Bool.orb_true_iff in E. destruct E as [E|E]; [apply Z.leb_le in E; lia|apply Z.ltb_lt in E; nia]. }
  rewrite (wrap_small (q - 1)) by (unfold w64; lia). rewrite (wrap_small (rhat + vn1)) by (unfold w64; lia).
  destruct (rhat + vn1 <? B32) eqn:R; [|reflexivity]. apply Z.ltb_lt in R.
  rewrite lor_right by lia. f_equal.
  unfold wrap. rewrite Zminus_mod_idemp_l. f_equal. ring.
Qed.

Lemma qloop_ok fuel : (3 <= fuel)%nat ->
  qloop fuel (uh / vn1) (uh mod vn1) (wrap ((uh / vn1) * vn0)) ((uh mod vn1) * B32 + un1) vn1 vn0 un1 = Some Q.
Proof.
  intro HF. destruct fuel as [|[|[|f]]]; try lia.
  destruct q0_bounds as (Hb0 & HQ0 & Hdm & Hr0). set (q0 := uh / vn1) in *. set (r0 := uh mod vn1) in *.
  rewrite qloop_step by lia. destruct (C q0 r0) eqn:E1.
  - pose proof (dec q0 r0 ltac:(lia) HQ0 E1) as HQ1.
    assert (Hdm1 : uh = (q0 - 1) * vn1 + (r0 + vn1)) by lia.
    destruct (r0 + vn1 <? B32) eqn:E2; [apply Z.ltb_lt in E2 | apply Z.ltb_ge in E2].
    + pose proof Qlt. rewrite qloop_step by lia. destruct (C (q0 - 1) (r0 + vn1)) eqn:E3.
      * pose proof (dec (q0 - 1) (r0 + vn1) Hdm1 HQ1 E3) as HQ2.
        assert (Hdm2 : uh = (q0 - 1 - 1) * vn1 + (r0 + vn1 + vn1)) by lia.
        destruct (r0 + vn1 + vn1 <? B32) eqn:E4; [apply Z.ltb_lt in E4; lia | apply Z.ltb_ge in E4].
        f_equal. apply (exact _ _ Hdm2 HQ2). apply (bigr _ _ Hdm2); lia.
      * f_equal. apply (exact _ _ Hdm1 HQ1). unfold C in E3. apply Bool.orb_false_iff in E3. destruct E3 as [_ E3]. apply Z.ltb_ge in E3. lia.
    + f_equal. apply (exact _ _ Hdm1 HQ1). pose proof Qlt. apply (bigr _ _ Hdm1); lia.
  - f_equal. apply (exact _ _ Hdm HQ0). unfold C in E1. apply Bool.orb_false_iff in E1. destruct E1 as [_ E1]. apply Z.ltb_ge in E1. lia.
Qed.
End Digit.

(* ---- the 128-by-64 kernel *)
Lemma land_M32 x : 0 <= x -> Z.land x M32 = x mod B32.
Proof. intro H. change M32 with (Z.ones 32). rewrite Z.land_ones by lia. reflexivity. Qed.
Lemma lz_norm n0 : 0 < n0 < W -> 0 <= lz64 n0 <= 63 /\ SIGN <= n0 * 2 ^ lz64 n0 < W.
Proof.
  intro H. unfold lz64, len64. destruct (Z.eqb_spec n0 0); [lia|].
  pose proof (Z.log2_spec n0 ltac:(lia)) as [L1 L2]. pose proof (Z.log2_nonneg n0).
  assert (Z.log2 n0 < 64). { apply Z.log2_lt_pow2; [lia|]. change (2 ^ 64) with W. lia. }
  split; [lia|]. replace (64 - (Z.log2 n0 + 1)) with (63 - Z.log2 n0) by lia.
  assert (E : 2 ^ Z.log2 n0 * 2 ^ (63 - Z.log2 n0) = SIGN) by (rewrite <- Z.pow_add_r by lia; replace (Z.log2 n0 + (63 - Z.log2 n0)) with 63 by lia; reflexivity).
  assert (E2 : 2 ^ Z.succ (Z.log2 n0) * 2 ^ (63 - Z.log2 n0) = W) by (rewrite <- Z.pow_add_r by lia; replace (Z.succ (Z.log2 n0) + (63 - Z.log2 n0)) with 64 by lia; reflexivity).
  assert (0 < 2 ^ (63 - Z.log2 n0)) by (apply Z.pow_pos_nonneg; lia). nia.
Qed.
Lemma wrap_chain a b c : wrap (shl a 32 + wrap (b - wrap c)) = (a * B32 + b - c) mod W.
Proof.
  unfold shl, wrap. change (32 <? 64) with true. cbv iota. change (2 ^ 32) with B32.
  rewrite Zminus_mod_idemp_r, Zplus_mod_idemp_r, Zplus_mod_idemp_l. f_equal. ring.
Qed.

Theorem divmod128by64_spec u n0 : wf u -> 0 < n0 < W -> hi u < n0 ->
  divmod128by64 u n0 (lz64 n0) = Some (uval u / n0, uval u mod n0).
Proof.
  intros Hu Hn Hh. destruct (lz_norm n0 Hn) as [Hs Hnorm]. set (s := lz64 n0) in *. unfold divmod128by64.
  (* the normalised divisor *)
  assert (En : shl n0 s = n0 * 2 ^ s) by (rewrite shl_val by (unfold w64; lia); apply Z.mod_small; lia).
  rewrite En. set (n := n0 * 2 ^ s) in *.
  (* the normalised dividend *)
  set (u' := if 0 <? s then mk (Z.lor (shl (hi u) s) (shr (lo u) (64 - s))) (shl (lo u) s) else u).
  assert (Eu : u' = LeftShift u s).
  { unfold u', LeftShift. destruct (Z.eqb_spec s 0) as [->|Hs0]; [reflexivity|]. destruct (Z.ltb_spec 0 s); [|lia].
    destruct (Z.ltb_spec 64 s); [lia|]. destruct (Z.ltb_spec s 64); [reflexivity|lia]. }
  destruct (LeftShift_spec u s Hu ltac:(lia)) as [Wu' Vu']. rewrite <- Eu in Wu', Vu'.
  assert (P2 : 0 < 2 ^ s) by (apply Z.pow_pos_nonneg; lia).
  assert (Usmall : uval u * 2 ^ s < n * W). { destruct Hu as [Hu1 Hu2]. unfold uval. unfold n. nia. }
  pose proof (uval_range u Hu) as Ur.
  rewrite Z.mod_small in Vu' by (split; [nia|]; assert (n * W <= P128) by nia; lia).
  destruct u' as [h' l'] eqn:Eu'. clear Eu. destruct Wu' as [Wh Wl]. cbn [hi lo] in Wh, Wl. change (uval {| hi := h'; lo := l' |}) with (h' * W + l') in Vu'. cbn [hi lo].
  assert (Hh' : h' < n) by nia.
  (* halves *)
  rewrite !land_M32 by lia. rewrite !shr_val by lia. change (2 ^ 32) with B32.
  set (vn1 := n / B32). set (vn0 := n mod B32). set (un1 := l' / B32). set (un0 := l' mod B32).
  assert (Hvn : n = vn1 * B32 + vn0) by (unfold vn1, vn0; pose proof (Z.div_mod n B32 ltac:(lia)); lia).
  assert (Hv1 : 2147483648 <= vn1 < B32) by (unfold vn1; split; [apply Z.div_le_lower_bound; lia|apply Z.div_lt_upper_bound; lia]).
  assert (Hv0 : 0 <= vn0 < B32) by (unfold vn0; apply Z.mod_pos_bound; lia).
  assert (Hun : l' = un1 * B32 + un0) by (unfold un1, un0; pose proof (Z.div_mod l' B32 ltac:(lia)); lia).
  assert (Hu1 : 0 <= un1 < B32) by (unfold un1; split; [apply Z.div_pos; lia|apply Z.div_lt_upper_bound; lia]).
  assert (Hu0 : 0 <= un0 < B32) by (unfold un0; apply Z.mod_pos_bound; lia).
  destruct (Z.eqb_spec vn1 0) as [?|_]; [lia|].
  (* first digit *)
  assert (R1 : wrap (shl (h' mod vn1) 32 + un1) = (h' mod vn1) * B32 + un1).
  { pose proof (Z.mod_pos_bound h' vn1 ltac:(lia)). rewrite shl_val by (unfold w64; lia). change (2 ^ 32) with B32. rewrite Z.mod_small by nia. apply wrap_small. unfold w64. nia. }
  rewrite R1. rewrite (qloop_ok h' un1 vn1 vn0 Hv1 Hv0 Hu1 ltac:(rewrite <- Hvn; lia) 4%nat ltac:(lia)). rewrite <- Hvn.
  set (N1 := h' * B32 + un1). set (Q1 := N1 / n).
  assert (HQ1 : 0 <= Q1 < B32) by (unfold Q1, N1; split; [apply Z.div_pos; nia|apply Z.div_lt_upper_bound; nia]).
  rewrite wrap_chain. fold N1.
  assert (Eun21 : (N1 - Q1 * n) mod W = N1 mod n).
  { pose proof (Z.div_mod N1 n ltac:(lia)). pose proof (Z.mod_pos_bound N1 n ltac:(lia)). fold Q1 in H. replace (N1 - Q1 * n) with (N1 mod n) by lia. apply Z.mod_small. lia. }
  rewrite Eun21. set (Rm1 := N1 mod n). assert (HR1 : 0 <= Rm1 < n) by (apply Z.mod_pos_bound; lia).
  (* second digit *)
  rewrite (lor_right un0) by (pose proof (Z.mod_pos_bound Rm1 vn1 ltac:(lia)); lia).
  rewrite (qloop_ok Rm1 un0 vn1 vn0 Hv1 Hv0 Hu0 ltac:(rewrite <- Hvn; lia) 4%nat ltac:(lia)). rewrite <- Hvn.
  set (N0 := Rm1 * B32 + un0). set (Q0 := N0 / n).
  assert (HQ0 : 0 <= Q0 < B32) by (unfold Q0, N0; split; [apply Z.div_pos; nia|apply Z.div_lt_upper_bound; nia]).
  rewrite wrap_chain. fold N0.
  assert (Er : (N0 - Q0 * n) mod W = N0 mod n).
  { pose proof (Z.div_mod N0 n ltac:(lia)). pose proof (Z.mod_pos_bound N0 n ltac:(lia)). fold Q0 in H. replace (N0 - Q0 * n) with (N0 mod n) by lia. apply Z.mod_small. lia. }
  rewrite Er.
  (* assemble *)
  assert (EU : uval u * 2 ^ s = (Q1 * B32 + Q0) * n + N0 mod n).
  { pose proof (Z.div_mod N1 n ltac:(lia)). pose proof (Z.div_mod N0 n ltac:(lia)). fold Q1 Rm1 in H. fold Q0 in H0. rewrite <- Vu'. unfold N0 in *. unfold N1 in *. nia. }
  pose proof (Z.mod_pos_bound N0 n ltac:(lia)) as HR0.
  assert (Equot : uval u / n0 = Q1 * B32 + Q0).
  { assert (X : (uval u * 2 ^ s) / n = Q1 * B32 + Q0) by (symmetry; apply (Z.div_unique_pos _ n _ (N0 mod n)); lia).
    unfold n in X. rewrite Z.div_mul_cancel_r in X by lia. exact X. }
  assert (Erem : uval u mod n0 = (N0 mod n) / 2 ^ s).
  { assert (X : (uval u * 2 ^ s) mod n = N0 mod n) by (symmetry; apply (Z.mod_unique_pos _ n (Q1 * B32 + Q0)); lia).
    unfold n in X at 1. rewrite Z.mul_mod_distr_r in X by lia. rewrite <- X. rewrite Z.div_mul by lia. reflexivity. }
  f_equal. f_equal.
  - rewrite Equot. rewrite shl_val by (unfold w64; lia). change (2 ^ 32) with B32. rewrite Z.mod_small by (clear - HQ1; lia).
    apply (lor_add_disjoint _ _ 32); [lia|clear - HQ1; lia|change (2 ^ 32) with B32; apply Z.mod_mul; lia|change (2 ^ 32) with B32; clear - HQ0; lia].
  - rewrite Erem. destruct (Z.eqb_spec s 0) as [E0|E0]; [rewrite E0; unfold shr; cbn; rewrite Z.div_1_r; reflexivity|apply shr_val; lia].
Qed.

(* ---- the shift-and-subtract kernel *)
Lemma lor1_even x : 0 <= x -> x mod 2 = 0 -> Z.lor x 1 = x + 1.
Proof. intros H0 H. apply (lor_add_disjoint x 1 1); [lia|lia|exact H|cbn; lia]. Qed.

Lemma binloop_spec N U0 : 0 < N ->
  forall fuel u n q k, wf u -> wf n -> wf q -> 0 <= k -> (Z.to_nat k < fuel)%nat ->
  uval n = N * 2 ^ k -> U0 = uval q * uval n + uval u -> uval u < 2 * uval n -> (lo q) mod 2 = 0 -> U0 < P128 ->
  exists q' r', binloop fuel u n q k = Some (q', r') /\ wf q' /\ wf r' /\ uval q' = U0 / N /\ uval r' = U0 mod N.
Proof.
  intro HN. induction fuel as [|f IH]; intros u n q k Wu Wn Wq Hk Hf En Inv Hlt Hev HU; [lia|].
  cbn [binloop]. destruct (predicates_spec u n Wu Wn) as (_ & Ge & _). rewrite Ge.
  assert (P : 0 < 2 ^ k) by (apply Z.pow_pos_nonneg; lia).
  pose proof (uval_range u Wu) as Ru. pose proof (uval_range q Wq) as Rq. pose proof (uval_range n Wn) as Rn.
  (* the conditional subtraction *)
  set (u1 := if uval n <=? uval u then Sub u n else u). set (q1 := if uval n <=? uval u then mk (hi q) (Z.lor (lo q) 1) else q).
  assert (S1 : wf u1 /\ wf q1 /\ U0 = uval q1 * uval n + uval u1 /\ uval u1 < uval n).
  { unfold u1, q1. destruct (Z.leb_spec (uval n) (uval u)) as [L|L].
    - destruct (Sub_spec u n Wu Wn) as [Ws Vs]. rewrite Z.mod_small in Vs by lia.
      destruct Wq as [Wq1 Wq2]. assert (Elor : Z.lor (lo q) 1 = lo q + 1) by (apply lor1_even; [lia|exact Hev]).
      assert (lo q + 1 < W). { destruct (Z.eq_dec (lo q) MAX64) as [E|E]; [rewrite E in Hev; cbn in Hev; discriminate|lia]. }
      split; [exact Ws|]. split; [unfold wf; cbn [hi lo]; rewrite Elor; lia|]. unfold uval at 1. cbn [hi lo]. rewrite Elor. unfold uval in Inv at 1. split; [nia|lia].
    - split; [exact Wu|]. split; [exact Wq|]. split; [exact Inv|lia]. }
  replace (if uval n <=? uval u then (Sub u n, mk (hi q) (Z.lor (lo q) 1)) else (u, q)) with (u1, q1) by (unfold u1, q1; destruct (uval n <=? uval u); reflexivity).
  destruct S1 as (Wu1 & Wq1 & Inv1 & Lt1). pose proof (uval_range u1 Wu1) as Ru1. pose proof (uval_range q1 Wq1) as Rq1.
  destruct (Z.leb_spec k 0) as [K0|K0].
  - assert (k = 0) by lia. subst k. cbn in En. rewrite Z.mul_1_r in En. exists q1, u1. split; [reflexivity|]. split; [exact Wq1|]. split; [exact Wu1|].
    rewrite En in *. split; [apply (Z.div_unique_pos U0 N (uval q1) (uval u1)); lia|apply (Z.mod_unique_pos U0 N (uval q1) (uval u1)); lia].
  - destruct (RightShift_spec n 1 Wn ltac:(lia)) as [Wn' Vn']. destruct (LeftShift_spec q1 1 Wq1 ltac:(lia)) as [Wq' Vq'].
    assert (E2 : 2 ^ k = 2 * 2 ^ (k - 1)) by (rewrite <- Z.pow_succ_r by lia; f_equal; lia).
    assert (Vn'' : uval (RightShift n 1) = N * 2 ^ (k - 1)) by (rewrite Vn', En, E2; change (2 ^ 1) with 2; rewrite (Z.mul_comm 2), Z.mul_assoc, Z.div_mul by lia; reflexivity).
    assert (P' : 0 < 2 ^ (k - 1)) by (apply Z.pow_pos_nonneg; lia).
    assert (Q127 : uval q1 * 2 < P128). { assert (2 <= uval n) by nia. nia. }
    change (2 ^ 1) with 2 in Vq'. rewrite Z.mod_small in Vq' by lia.
    assert (A1 : 0 <= k - 1) by lia.
    assert (A2 : (Z.to_nat (k - 1) < f)%nat) by lia.
    assert (A3 : U0 = uval (LeftShift q1 1) * uval (RightShift n 1) + uval u1) by (rewrite Vq', Vn'', Inv1, En, E2; ring).
    assert (A4 : uval u1 < 2 * uval (RightShift n 1)) by (rewrite Vn''; rewrite En, E2 in Lt1; lia).
    assert (A5 : lo (LeftShift q1 1) mod 2 = 0).
    { unfold LeftShift. change (1 =? 0) with false. change (64 <? 1) with false. change (1 <? 64) with true. cbv iota. cbn [lo].
      rewrite shl_val; [|destruct Wq1 as [_ X]; exact X|lia]. change (2 ^ 1) with 2.
      generalize (lo q1). intro x. Z.div_mod_to_equations. lia. }
    exact (IH u1 (RightShift n 1) (LeftShift q1 1) (k - 1) Wu1 Wn' Wq' A1 A2 Vn'' A3 A4 A5 HU).
Qed.

(* ---- the estimate-and-correct kernel for divisors of more than 64 bits *)
(* the arithmetic core: D = v1 * t under-estimates the divisor n by less than t; then floor(u/D) is the quotient or one more *)
Lemma estimate_core u n v1 t q : 0 <= u < P128 -> SIGN <= v1 -> (t = 2 \/ 4 <= t) -> v1 * t <= n < (v1 + 1) * t ->
  q = u / (v1 * t) -> u / n <= q /\ (q - 1) * n <= u.
Proof.
  intros Hu Hv Ht Hn ->. set (D := v1 * t) in *. assert (HD : 0 < D) by (unfold D; destruct Ht; nia).
  pose proof (Z.div_mod u D ltac:(lia)) as E. pose proof (Z.mod_pos_bound u D HD) as M. set (q := u / D) in *.
  assert (Hq0 : 0 <= q) by (apply Z.div_pos; lia).
  split.
  - unfold q. apply Z.div_le_compat_l; lia.
  - assert (A : (q - 1) * (n - D) <= D).
    { destruct (Z.eq_dec q 0) as [->|Hq]; [nia|]. destruct Ht as [->|Ht].
      + (* t = 2: n - D <= 1 and q < 2^64 <= D *)
        assert (n - D <= 1) by (unfold D in *; lia). assert (q * D <= u) by lia. assert (W <= D) by (unfold D; lia).
        assert (q < W) by nia. nia.
      + (* t >= 4: (q-1)(n-D) < q*t < 2^65 <= D *)
        assert (q * D <= u) by lia. assert (q * t * SIGN <= q * D) by (unfold D; nia).
        assert (q * t < 2 * W) by lia. assert (2 * W <= D) by (unfold D; nia).
        assert ((q - 1) * (n - D) <= q * t) by (unfold D in *; nia). lia. }
    nia.
Qed.

Lemma lz64_top v : SIGN <= v < W -> lz64 v = 0.
Proof.
  intro H. unfold lz64, len64. destruct (Z.eqb_spec v 0); [lia|]. assert (Z.log2 v = 63); [|lia].
  apply Z.log2_unique; [lia|]. change (2 ^ 63) with SIGN. change (2 ^ Z.succ 63) with W. lia.
Qed.

Lemma uval_mk a b : uval (mk a b) = a * W + b. Proof. reflexivity. Qed.

Definition div_result (u n : w128) (o : option (w128 * w128)) : Prop :=
  exists q r, o = Some (q, r) /\ wf q /\ wf r /\ uval q = uval u / uval n /\ uval r = uval u mod uval n.

Lemma by128_small u n : wf u -> wf n -> hi n = 0 -> 0 < lo n -> div_result u n (divmod128by128 u n 64 (lz64 (lo n))).
Proof.
  intros Wu Wn Hn Hl. unfold divmod128by128. rewrite Hn. cbn [Z.eqb]. destruct Wu as [Wh Wl]. destruct Wn as [_ Wnl].
  assert (En : uval n = lo n) by (unfold uval; rewrite Hn; lia).
  destruct (Z.ltb_spec (hi u) (lo n)) as [Hlt|Hge].
  - rewrite (divmod128by64_spec u (lo n)) by (try (split; assumption); lia). unfold div_result. rewrite En.
    assert (0 <= uval u / lo n < W). { split; [apply Z.div_pos; [unfold uval; nia|lia]|apply Z.div_lt_upper_bound; [lia|unfold uval; nia]]. }
    pose proof (Z.mod_pos_bound (uval u) (lo n) Hl).
    eexists _, _. split; [reflexivity|]. split; [unfold wf; cbn; lia|]. split; [unfold wf; cbn; lia|]. rewrite !uval_mk. split; lia.
  - set (u2 := mk (hi u mod lo n) (lo u)). pose proof (Z.mod_pos_bound (hi u) (lo n) Hl) as Mh.
    assert (Wu2 : wf u2) by (unfold wf, u2; cbn [hi lo]; lia).
    rewrite (divmod128by64_spec u2 (lo n) Wu2) by (unfold u2; cbn [hi lo]; lia). unfold div_result. rewrite En.
    assert (V2 : uval u2 = (hi u mod lo n) * W + lo u) by reflexivity.
    pose proof (Z.div_mod (hi u) (lo n) ltac:(lia)) as Dh.
    assert (Q2 : 0 <= uval u2 / lo n < W). { split; [apply Z.div_pos; [rewrite V2; nia|lia]|apply Z.div_lt_upper_bound; [lia|rewrite V2; nia]]. }
    pose proof (Z.mod_pos_bound (uval u2) (lo n) Hl) as M2. pose proof (Z.div_mod (uval u2) (lo n) ltac:(lia)) as D2.
    assert (Qh : 0 <= hi u / lo n < W) by (split; [apply Z.div_pos; lia|apply Z.div_lt_upper_bound; nia]).
    assert (EU : uval u = (hi u / lo n * W + uval u2 / lo n) * lo n + uval u2 mod lo n) by (unfold uval at 1; rewrite V2 in D2; nia).
    eexists _, _. split; [reflexivity|]. split; [unfold wf; cbn; lia|]. split; [unfold wf; cbn; lia|]. rewrite !uval_mk. split.
    + apply (Z.div_unique_pos (uval u) (lo n) _ (uval u2 mod lo n)); lia.
    + replace (0 * W + uval u2 mod lo n) with (uval u2 mod lo n) by lia. apply (Z.mod_unique_pos (uval u) (lo n) (hi u / lo n * W + uval u2 / lo n)); lia.
Qed.

Lemma by128_large u n : wf u -> wf n -> 0 < hi n -> div_result u n (divmod128by128 u n (lz64 (hi n)) 0).
Proof.
  intros Wu Wn Hn. unfold divmod128by128. destruct (Z.eqb_spec (hi n) 0); [lia|].
  pose proof (uval_range u Wu) as Ru. pose proof (uval_range n Wn) as Rn. destruct Wn as [Wnh Wnl]. assert (Wn : wf n) by (split; assumption).
  destruct (lz_norm (hi n) ltac:(lia)) as [Hh Hnorm]. set (h := lz64 (hi n)) in *.
  assert (P2 : 0 < 2 ^ h) by (apply Z.pow_pos_nonneg; lia).
  (* the normalised divisor and its top word *)
  destruct (LeftShift_spec n h Wn ltac:(lia)) as [Wv Vv].
  set (t := 2 ^ (64 - h)). assert (Et : 2 ^ h * t = W) by (unfold t; rewrite <- Z.pow_add_r by lia; replace (h + (64 - h)) with 64 by lia; reflexivity).
  assert (Pt : 0 < t) by (unfold t; apply Z.pow_pos_nonneg; lia).
  assert (A1 : hi n + 1 <= t) by (clear - Hnorm Et P2 Pt; nia).
  assert (Nsmall : uval n * 2 ^ h < P128).
  { unfold uval. assert (X1 : hi n * 2 ^ h <= W - 2 ^ h) by (clear - A1 Et P2; nia).
    assert (X2 : lo n * 2 ^ h < W * 2 ^ h) by (clear - Wnl P2; nia).
    assert (X3 : hi n * W * 2 ^ h <= (W - 2 ^ h) * W) by (clear - X1; nia). clear - X2 X3. lia. }
  rewrite Z.mod_small in Vv by (split; [unfold uval; nia|exact Nsmall]).
  set (v := LeftShift n h) in *. set (v1 := hi v). destruct Wv as [Wv1 Wv0]. fold v1 in Wv1.
  assert (Ev : uval n * 2 ^ h = v1 * W + lo v) by (rewrite <- Vv; reflexivity).
  assert (Hv1 : SIGN <= v1 < W). { split; [|lia]. unfold uval in Ev. assert (hi n * 2 ^ h * W <= v1 * W + lo v) by nia. nia. }
  (* the halved dividend *)
  destruct (RightShift_spec u 1 Wu ltac:(lia)) as [Wu1 Vu1]. change (2 ^ 1) with 2 in Vu1. set (u1 := RightShift u 1) in *.
  assert (Hu1 : hi u1 < v1). { destruct Wu1 as [A B]. assert (uval u1 < P127) by (rewrite Vu1; apply Z.div_lt_upper_bound; lia). unfold uval in H. nia. }
  replace (divmod128by64 u1 v1 0) with (divmod128by64 u1 v1 (lz64 v1)) by (rewrite (lz64_top v1 Hv1); reflexivity).
  rewrite (divmod128by64_spec u1 v1 Wu1 ltac:(lia) Hu1).
  (* the estimate *)
  assert (Ht : t = 2 \/ 4 <= t).
  { unfold t. destruct (Z.eq_dec h 63) as [->|]; [left; reflexivity|right]. change 4 with (2 ^ 2). apply Z.pow_le_mono_r; lia. }
  assert (Hnt : v1 * t <= uval n < (v1 + 1) * t) by (split; nia).
  assert (Eq0 : shr (uval u1 / v1) (63 - h) = uval u / (v1 * t)).
  { rewrite shr_val by lia. rewrite Vu1, !Z.div_div by (try apply Z.pow_pos_nonneg; lia). f_equal.
    unfold t. replace (64 - h) with (Z.succ (63 - h)) by lia. rewrite Z.pow_succ_r by lia. ring. }
  rewrite Eq0. set (q0 := uval u / (v1 * t)).
  destruct (estimate_core (uval u) (uval n) v1 t q0 Ru ltac:(lia) Ht Hnt eq_refl) as [Lo Hi].
  assert (Hq0 : 0 <= q0 < W).
  { assert (HD : W <= v1 * t) by (clear - Hv1 Ht; destruct Ht as [->|Ht]; nia).
    unfold q0. split; [apply Z.div_pos; lia|]. apply Z.div_lt_upper_bound; [lia|]. clear - HD Ru. nia. }
  set (Q := uval u / uval n) in *.
  pose proof (Z.div_mod (uval u) (uval n) ltac:(lia)) as DM. pose proof (Z.mod_pos_bound (uval u) (uval n) ltac:(lia)) as MB. fold Q in DM.
  assert (HQ : 0 <= Q) by (apply Z.div_pos; lia).
  (* the decremented estimate is Q or Q - 1 and its product with n does not exceed u *)
  set (ql := if negb (q0 =? 0) then wrap (q0 - 1) else q0).
  assert (Hql : 0 <= ql < W /\ ql * uval n <= uval u /\ Q - 1 <= ql <= Q).
  { unfold ql. destruct (Z.eqb_spec q0 0) as [E|E]; cbn [negb].
    - rewrite E in *. split; [lia|]. split; [lia|lia].
    - rewrite wrap_small by (unfold w64; lia). split; [lia|]. split; [exact Hi|]. split; [lia|].
      (* q0 - 1 <= Q because (q0 - 1) * n <= u *)
      apply Z.div_le_lower_bound; lia. }
  destruct Hql as (Wql & Pql & Bql).
  set (q := mk 0 ql). assert (Wq : wf q) by (unfold wf, q; cbn; lia). assert (Vq : uval q = ql) by (unfold q; rewrite uval_mk; lia).
  assert (Pnn : 0 <= ql * uval n) by (apply Z.mul_nonneg_nonneg; lia).
  destruct (Mul_spec q n Wq Wn) as [Wm Vm]. rewrite Vq, Z.mod_small in Vm by lia.
  destruct (Sub_spec u (Mul q n) Wu Wm) as [Wr Vr]. rewrite Vm, Z.mod_small in Vr by lia. set (r := Sub u (Mul q n)) in *.
  rewrite (Cmp_spec r n Wr Wn). unfold zcmp3. unfold div_result. fold Q.
  (* ql = Q exactly when the remainder is below n *)
  assert (Key : (uval r < uval n -> ql = Q) /\ (uval n <= uval r -> ql = Q - 1)).
  { rewrite Vr. clear - DM MB Bql Rn. assert (C : ql = Q \/ ql = Q - 1) by lia. split; intro X; destruct C as [->| ->]; lia. }
  destruct Key as [K1 K2].
  destruct (Z.compare_spec (uval r) (uval n)) as [E|L|G]; cbn [Z.leb Z.compare].
  - destruct (Inc_spec q Wq) as [Wi Vi]. rewrite Vq, Z.mod_small in Vi by lia. destruct (Sub_spec r n Wr Wn) as [Ws Vs]. rewrite Z.mod_small in Vs by lia.
    exists (Inc q), (Sub r n). split; [reflexivity|]. split; [exact Wi|]. split; [exact Ws|]. rewrite Vi, Vs, Vr, (K2 ltac:(lia)). clear - DM. split; lia.
  - exists q, r. split; [reflexivity|]. split; [exact Wq|]. split; [exact Wr|]. rewrite Vq, Vr, (K1 L). clear - DM. split; lia.
  - destruct (Inc_spec q Wq) as [Wi Vi]. rewrite Vq, Z.mod_small in Vi by lia. destruct (Sub_spec r n Wr Wn) as [Ws Vs]. rewrite Z.mod_small in Vs by lia.
    exists (Inc q), (Sub r n). split; [reflexivity|]. split; [exact Wi|]. split; [exact Ws|]. rewrite Vi, Vs, Vr, (K2 ltac:(lia)). clear - DM. split; lia.
Qed.

