(* C01 — division, part 3: Int128. Quotient truncated toward zero, remainder with the dividend's sign (Go's / and %), reduced into
   the two's-complement range (only MinInt128 / -1 is affected by the reduction). *)
From Coq Require Import ZArith List Bool Lia.
From Verif Require Import common.Word64 common.Word64Facts C01.Model C01.ProofsArith C01.ProofsShift C01.ProofsBits C01.ProofsInt C01.ProofsDiv C01.ProofsDiv2.
Open Scope Z_scope.

(* magnitude of a negative value, read unsigned *)
Lemma neg_magnitude i : wf i -> sval i < 0 -> wf (Neg i) /\ uval (Neg i) = - sval i.
Proof.
  intros W H. destruct (Neg_spec i W) as [Wn Sn]. split; [exact Wn|]. pose proof (sval_range i W) as R.
  rewrite (uval_sval (Neg i) Wn), Sn. unfold smod. rewrite Zminus_mod_idemp_l. replace (- sval i + P127 - P127) with (- sval i) by lia. apply Z.mod_small. lia.
Qed.
Lemma nonneg_magnitude i : wf i -> 0 <= sval i -> uval i = sval i.
Proof. intros W H. rewrite (uval_sval i W). apply Z.mod_small. pose proof (sval_range i W). lia. Qed.
Lemma zero_sval : sval zero = 0. Proof. reflexivity. Qed.
Lemma isneg_lt i : wf i -> ILessThan i zero = (sval i <? 0).
Proof. intro W. destruct (Ipredicates_spec i zero W ltac:(unfold wf, zero; cbn; lia)) as (_ & _ & _ & L & _). rewrite L, zero_sval. reflexivity. Qed.
(* reading an unsigned result back as a signed one, possibly negated *)
Lemma signed_of_unsigned q (neg : bool) : wf q ->
  let q' := if neg then Neg q else q in wf q' /\ sval q' = smod (if neg then - uval q else uval q).
Proof.
  intros W. destruct neg; cbn zeta.
  - destruct (Neg_spec q W) as [Wn Sn]. split; [exact Wn|]. rewrite Sn, (sval_smod q W). unfold smod.
    generalize (uval q). intro x. Z.div_mod_to_equations. lia.
  - split; [exact W|apply sval_smod, W].
Qed.

Theorem IDivMod_spec i n : wf i -> wf n ->
  (sval n = 0 -> IDivMod i n = DivZero /\ IDiv i n = DivZero /\ IMod i n = DivZero) /\
  (sval n <> 0 -> exists q r, IDivMod i n = Ok (q, r) /\ IDiv i n = Ok q /\ IMod i n = Ok r /\ wf q /\ wf r /\
                  sval q = smod (Z.quot (sval i) (sval n)) /\ sval r = Z.rem (sval i) (sval n)).
Proof.
  intros Wi Wn. pose proof (sval_range i Wi) as Ri. pose proof (sval_range n Wn) as Rn.
  unfold IMod, IDivMod, IDiv. rewrite (isneg_lt i Wi), (isneg_lt n Wn).
  set (a := sval i) in *. set (b := sval n) in *.
  set (i' := if a <? 0 then Neg i else i). set (n' := if b <? 0 then Neg n else n).
  assert (Hi' : wf i' /\ uval i' = Z.abs a).
  { unfold i'. destruct (Z.ltb_spec a 0); [destruct (neg_magnitude i Wi ltac:(assumption)) as [X Y]; split; [exact X|fold a in Y; lia]|split; [exact Wi|rewrite (nonneg_magnitude i Wi) by (fold a; lia); fold a; lia]]. }
  assert (Hn' : wf n' /\ uval n' = Z.abs b).
  { unfold n'. destruct (Z.ltb_spec b 0); [destruct (neg_magnitude n Wn ltac:(assumption)) as [X Y]; split; [exact X|fold b in Y; lia]|split; [exact Wn|rewrite (nonneg_magnitude n Wn) by (fold b; lia); fold b; lia]]. }
  destruct Hi' as [Wi' Vi']. destruct Hn' as [Wn' Vn']. destruct (DivMod_spec i' n' Wi' Wn') as [DZ DK]. split.
  - intro B0. destruct (DZ ltac:(lia)) as (E1 & E2 & _). rewrite E1, E2. repeat split.
  - intro B0. destruct (DK ltac:(lia)) as (q & r & E1 & E2 & _ & Wq & Wr & Vq & Vr & _ & Vlt). rewrite E1, E2. cbn [rmap fst snd].
    destruct (signed_of_unsigned q (xorb (a <? 0) (b <? 0)) Wq) as [Wq' Sq']. destruct (signed_of_unsigned r (a <? 0) Wr) as [Wr' Sr'].
    eexists _, _. split; [reflexivity|]. split; [reflexivity|]. split; [reflexivity|]. split; [exact Wq'|]. split; [exact Wr'|]. split.
    + rewrite Sq'. f_equal. rewrite Vq, Vi', Vn'. rewrite (Z.quot_div a b B0).
      destruct (Z.ltb_spec a 0); destruct (Z.ltb_spec b 0); cbn [xorb];
        try (replace (Z.sgn a) with (-1) by lia); try (replace (Z.sgn b) with (-1) by lia);
        try (destruct (Z.eq_dec a 0) as [->|Na]; [cbn; rewrite ?Z.div_0_l by lia; lia|replace (Z.sgn a) with 1 by lia]);
        try (replace (Z.sgn b) with 1 by lia); lia.
    + rewrite Sr'. rewrite Vr, Vi', Vn'. rewrite (Z.rem_mod a b B0). pose proof (Z.mod_pos_bound (Z.abs a) (Z.abs b) ltac:(lia)) as M.
      destruct (Z.ltb_spec a 0).
      * replace (Z.sgn a) with (-1) by lia. rewrite smod_small by lia. lia.
      * destruct (Z.eq_dec a 0) as [->|Na]; [cbn; rewrite ?Z.mod_0_l by lia; reflexivity|]. replace (Z.sgn a) with 1 by lia. rewrite smod_small by lia. lia.
Qed.

Theorem IDivMod64_spec i n : wf i -> int64 n ->
  (n = 0 -> IDivMod64 i n = DivZero /\ IDiv64 i n = DivZero /\ IMod64 i n = DivZero) /\
  (n <> 0 -> exists q r, IDivMod64 i n = Ok (q, r) /\ IDiv64 i n = Ok q /\ IMod64 i n = Ok r /\ wf q /\ wf r /\
             sval q = smod (Z.quot (sval i) n) /\ sval r = Z.rem (sval i) n).
Proof.
  intros Wi Hn. destruct (From64_spec n Hn) as [Wf Sf]. destruct (IDivMod_spec i (From64 n) Wi Wf) as [DZ DK]. rewrite Sf in DZ, DK.
  unfold IMod64, IDivMod64. unfold IMod in DZ, DK.
  (* IDiv64 has its own code: the magnitude of n as a 64-bit word, Div64, then the sign *)
  pose proof (sval_range i Wi) as Ri. unfold int64 in Hn.
  assert (D64 : (n = 0 -> IDiv64 i n = DivZero) /\ (n <> 0 -> exists q, IDiv64 i n = Ok q /\ wf q /\ sval q = smod (Z.quot (sval i) n))).
  { unfold IDiv64. rewrite (isneg_lt i Wi). set (a := sval i) in *.
    set (i' := if a <? 0 then Neg i else i). set (n' := if n <? 0 then wrap (- n) else n).
    assert (Hi' : wf i' /\ uval i' = Z.abs a).
    { unfold i'. destruct (Z.ltb_spec a 0); [destruct (neg_magnitude i Wi ltac:(assumption)) as [X Y]; split; [exact X|fold a in Y; lia]|split; [exact Wi|rewrite (nonneg_magnitude i Wi) by (fold a; lia); fold a; lia]]. }
    assert (Hn' : w64 n' /\ n' = Z.abs n).
    { unfold n'. destruct (Z.ltb_spec n 0); [rewrite wrap_small by (unfold w64; lia); split; [unfold w64; lia|lia]|split; [unfold w64; lia|lia]]. }
    destruct Hi' as [Wi' Vi']. destruct Hn' as [Wn' Vn']. destruct (DivMod64_spec i' n' Wi' Wn') as [Z0 K]. split.
    - intro N0. destruct (Z0 ltac:(lia)) as (_ & E & _). rewrite E. reflexivity.
    - intro N0. destruct (K ltac:(lia)) as (q & r & _ & E & _ & Wq & _ & Vq & _). rewrite E. cbn [rmap].
      destruct (signed_of_unsigned q (xorb (a <? 0) (n <? 0)) Wq) as [Wq' Sq']. eexists. split; [reflexivity|]. split; [exact Wq'|].
      rewrite Sq'. f_equal. rewrite Vq, Vi', Vn'. rewrite (Z.quot_div a n N0).
      destruct (Z.ltb_spec a 0); destruct (Z.ltb_spec n 0); cbn [xorb];
        try (replace (Z.sgn a) with (-1) by lia); try (replace (Z.sgn n) with (-1) by lia);
        try (destruct (Z.eq_dec a 0) as [->|Na]; [cbn; rewrite ?Z.div_0_l by lia; lia|replace (Z.sgn a) with 1 by lia]);
        try (replace (Z.sgn n) with 1 by lia); lia. }
  destruct D64 as [D0 DQ]. split.
  - intro N0. destruct (DZ N0) as (E1 & _ & E3). rewrite E1. split; [reflexivity|]. split; [apply D0, N0|reflexivity].
  - intro N0. destruct (DK N0) as (q & r & E1 & _ & E3 & Wq & Wr & Sq & Sr). destruct (DQ N0) as (q2 & E2 & Wq2 & Sq2).
    assert (q2 = q) by (apply sval_inj; congruence). subst q2. exists q, r. rewrite E1. cbn [rmap snd]. split; [reflexivity|]. split; [exact E2|]. split; [reflexivity|]. repeat split; assumption || apply Wq || apply Wr.
Qed.
