(* C01 — Int128: two's-complement reading of the same words *)
From Coq Require Import ZArith List Bool Lia.
From Verif Require Import common.Word64 common.Word64Facts C01.Model C01.ProofsArith.
Open Scope Z_scope.
Ltac Zify.zify_post_hook ::= Z.div_mod_to_equations.

(* reduce into [-2^127, 2^127) *)
Definition smod (v : Z) : Z := (v + P127) mod P128 - P127.
Definition int64 (n : Z) : Prop := - SIGN <= n < SIGN.

Lemma sval_range u : wf u -> - P127 <= sval u < P127.
Proof. intros [? ?]. unfold sval, uval. destruct (Z.leb_spec SIGN (hi u)); lia. Qed.
Lemma sval_smod u : wf u -> sval u = smod (uval u).
Proof. intros [? ?]. unfold sval, smod, uval. destruct (Z.leb_spec SIGN (hi u)); lia. Qed.
Lemma uval_sval u : wf u -> uval u = sval u mod P128.
Proof. intros [? ?]. unfold sval, uval. destruct (Z.leb_spec SIGN (hi u)); lia. Qed.
Lemma smod_mod v : smod (v mod P128) = smod v.
Proof. unfold smod. lia. Qed.
Lemma smod_small v : - P127 <= v < P127 -> smod v = v.
Proof. unfold smod. lia. Qed.
Lemma sval_inj u n : wf u -> wf n -> sval u = sval n -> u = n.
Proof. intros Hu Hn E. apply uval_inj; auto. rewrite (uval_sval u), (uval_sval n), E by assumption. reflexivity. Qed.

(* signed readings of the shared operations *)
Theorem IAdd_spec i n : wf i -> wf n -> wf (Add i n) /\ sval (Add i n) = smod (sval i + sval n).
Proof.
  intros Hi Hn. destruct (Add_spec i n Hi Hn) as [WF E]. split; [exact WF|].
  rewrite sval_smod, E, smod_mod by exact WF. rewrite (uval_sval i), (uval_sval n) by assumption. unfold smod. lia.
Qed.
Theorem ISub_spec i n : wf i -> wf n -> wf (Sub i n) /\ sval (Sub i n) = smod (sval i - sval n).
Proof.
  intros Hi Hn. destruct (Sub_spec i n Hi Hn) as [WF E]. split; [exact WF|].
  rewrite sval_smod, E, smod_mod by exact WF. rewrite (uval_sval i), (uval_sval n) by assumption. unfold smod. lia.
Qed.
Theorem IMul_spec i n : wf i -> wf n -> wf (Mul i n) /\ sval (Mul i n) = smod (sval i * sval n).
Proof.
  intros Hi Hn. destruct (Mul_spec i n Hi Hn) as [WF E]. split; [exact WF|].
  rewrite sval_smod, E, smod_mod by exact WF. rewrite (uval_sval i), (uval_sval n) by assumption.
  unfold smod. set (a := sval i). set (b := sval n).
  assert (((a mod P128) * (b mod P128) + P127) mod P128 = (a * b + P127) mod P128); [|lia].
  rewrite <- Z.add_mod_idemp_l by lia. rewrite <- Z.mul_mod by lia. rewrite Z.add_mod_idemp_l by lia. reflexivity.
Qed.
Theorem IInc_spec i : wf i -> wf (Inc i) /\ sval (Inc i) = smod (sval i + 1).
Proof.
  intros Hi. destruct (Inc_spec i Hi) as [WF E]. split; [exact WF|].
  rewrite sval_smod, E, smod_mod by exact WF. rewrite (uval_sval i) by assumption. unfold smod. lia.
Qed.
Theorem IDec_spec i : wf i -> wf (Dec i) /\ sval (Dec i) = smod (sval i - 1).
Proof.
  intros Hi. destruct (Dec_spec i Hi) as [WF E]. split; [exact WF|].
  rewrite sval_smod, E, smod_mod by exact WF. rewrite (uval_sval i) by assumption. unfold smod. lia.
Qed.

(* From64 *)
Lemma From64_spec n : int64 n -> wf (From64 n) /\ sval (From64 n) = n.
Proof.
  unfold int64, From64, wf, sval, uval, wrap. intro H. cbn [hi lo]. destruct (Z.ltb_spec n 0).
  - change (SIGN <=? MAX64) with true. cbv iota. lia.
  - change (SIGN <=? 0) with false. cbv iota. lia.
Qed.

(* ---------- negation, absolute value, sign ---------- *)
Lemma negmag_val i : wf i -> uval i <> 0 -> wf (negmag i) /\ uval (negmag i) = P128 - uval i.
Proof.
  intros [Hh Hl] Hn. unfold negmag, not64, wrap, wf, uval in *. cbn [hi lo].
  destruct (Z.eq_dec (lo i) 0) as [E|E].
  - rewrite E in *. change ((0 - 1) mod W) with MAX64. change (MAX64 - MAX64) with 0. change (0 =? 0) with true. cbv iota. lia.
  - assert (E2 : (lo i - 1) mod W = lo i - 1) by lia. rewrite E2.
    rewrite (proj2 (Z.eqb_neq (MAX64 - (lo i - 1)) 0)) by lia. lia.
Qed.
Lemma isneg_sval i : wf i -> isneg i = (sval i <? 0).
Proof. intros [Hh Hl]. unfold isneg, sval, uval. destruct (Z.leb_spec SIGN (hi i)); symmetry; [apply Z.ltb_lt | apply Z.ltb_ge]; lia. Qed.

Theorem Neg_spec i : wf i -> wf (Neg i) /\ sval (Neg i) = smod (- sval i).
Proof.
  intros Hi. pose proof Hi as [Hh Hl].
  assert (G : wf (Neg i) /\ uval (Neg i) = (- uval i) mod P128).
  { unfold Neg. destruct (Z.eqb_spec (Z.lor (hi i) (lo i)) 0) as [E|E]; cbn [orb].
    - apply Z.lor_eq_0_iff in E. destruct E as [E1 E2]. split; [exact Hi|]. unfold uval. rewrite E1, E2. reflexivity.
    - assert (Hnz : uval i <> 0). { unfold uval. intro Z0. apply E. assert (hi i = 0 /\ lo i = 0) as [-> ->] by lia. reflexivity. }
      destruct (Equal i MinI) eqn:EM.
      + unfold Equal, MinI in EM. cbn [hi lo] in EM. apply andb_prop in EM. destruct EM as [E1 E2]. apply Z.eqb_eq in E1, E2.
        split; [exact Hi|]. unfold uval. rewrite E1, E2. reflexivity.
      + destruct (isneg i).
        * destruct (negmag_val i Hi Hnz) as [WF V]. split; [exact WF|]. rewrite V. pose proof (uval_range i Hi). lia.
        * (* the positive branch computes the same two's complement *)
          assert (P : mk (if wrap (not64 (lo i) + 1) =? 0 then wrap (not64 (hi i) + 1) else not64 (hi i)) (wrap (not64 (lo i) + 1)) = negmag i).
          { unfold negmag, not64, wrap. destruct (Z.eq_dec (lo i) 0) as [E0|E0].
            - rewrite E0. reflexivity.
            - assert ((lo i - 1) mod W = lo i - 1) by lia. assert ((MAX64 - lo i + 1) mod W = MAX64 - (lo i - 1)) by lia.
              rewrite H, H0. reflexivity. }
          rewrite P. destruct (negmag_val i Hi Hnz) as [WF V]. split; [exact WF|]. rewrite V. pose proof (uval_range i Hi). lia. }
  destruct G as [WF E]. split; [exact WF|]. rewrite sval_smod, E, smod_mod by exact WF. rewrite (uval_sval i) by assumption. unfold smod. lia.
Qed.

Theorem Abs_spec i : wf i -> wf (Abs i) /\ sval (Abs i) = smod (Z.abs (sval i)).
Proof.
  intros Hi. unfold Abs. rewrite isneg_sval by exact Hi. pose proof (sval_range i Hi).
  destruct (Z.ltb_spec (sval i) 0).
  - assert (Hnz : uval i <> 0) by (unfold sval in *; destruct (SIGN <=? hi i); pose proof (uval_range i Hi); lia).
    destruct (negmag_val i Hi Hnz) as [WF V]. split; [exact WF|].
    rewrite sval_smod, V by exact WF. rewrite (uval_sval i) by exact Hi. unfold smod. lia.
  - split; [exact Hi|]. rewrite smod_small by lia. lia.
Qed.
Theorem AbsUint128_spec i : wf i -> wf (AbsUint128 i) /\ uval (AbsUint128 i) = Z.abs (sval i).
Proof.
  intros Hi. unfold AbsUint128. pose proof (sval_range i Hi). pose proof Hi as [Hh Hl].
  destruct (Equal i MinI) eqn:EM.
  - unfold Equal, MinI in EM. cbn [hi lo] in EM. apply andb_prop in EM. destruct EM as [E1 E2]. apply Z.eqb_eq in E1, E2.
    split; [exact Hi|]. unfold sval, uval. rewrite E1, E2. reflexivity.
  - rewrite isneg_sval by exact Hi. destruct (Z.ltb_spec (sval i) 0).
    + assert (Hnz : uval i <> 0) by (unfold sval in *; destruct (SIGN <=? hi i); pose proof (uval_range i Hi); lia).
      destruct (negmag_val i Hi Hnz) as [WF V]. split; [exact WF|]. rewrite V. unfold sval in *. destruct (Z.leb_spec SIGN (hi i)); unfold uval in *; lia.
    + split; [exact Hi|]. unfold sval in *. destruct (Z.leb_spec SIGN (hi i)); unfold uval in *; lia.
Qed.
Theorem ISign_spec i : wf i -> ISign i = Z.sgn (sval i).
Proof.
  intros Hi. pose proof Hi as [Hh Hl]. unfold ISign. rewrite isneg_sval by exact Hi.
  destruct (Z.eqb_spec (Z.lor (hi i) (lo i)) 0) as [E|E].
  - apply Z.lor_eq_0_iff in E. destruct E as [E1 E2]. unfold sval, uval. rewrite E1, E2. reflexivity.
  - assert (Hnz : sval i <> 0).
    { unfold sval, uval. intro Z0. apply E. destruct (Z.leb_spec SIGN (hi i)); [lia|]. assert (hi i = 0 /\ lo i = 0) as [-> ->] by lia. reflexivity. }
    destruct (Z.ltb_spec (sval i) 0); [rewrite Z.sgn_neg by lia | rewrite Z.sgn_pos by lia]; reflexivity.
Qed.

(* ---------- signed comparisons ---------- *)
Ltac scmp := unfold ICmp, IGreaterThan, IGreaterThanOrEqual, ILessThan, ILessThanOrEqual, Equal, same_sign, ugt, ult, isneg, sval, uval, zcmp3;
  cbn [hi lo];
  repeat match goal with |- context [SIGN <=? ?a] => destruct (Z.leb_spec SIGN a) end;
  repeat match goal with
  | |- context [?a =? ?b] => destruct (Z.eqb_spec a b)
  | |- context [?a <? ?b] => destruct (Z.ltb_spec a b)
  | |- context [?a <=? ?b] => destruct (Z.leb_spec a b)
  | |- context [?a ?= ?b] => destruct (Z.compare_spec a b)
  end; cbn [andb orb negb Bool.eqb]; try reflexivity; try lia.

Theorem ICmp_spec i n : wf i -> wf n -> ICmp i n = zcmp3 (sval i) (sval n).
Proof. intros [? ?] [? ?]. destruct i as [h l], n as [h' l']; cbn [hi lo] in *. scmp. Qed.
Theorem Ipredicates_spec i n : wf i -> wf n ->
  IGreaterThan i n = (sval n <? sval i) /\ IGreaterThanOrEqual i n = (sval n <=? sval i) /\ Equal i n = (sval i =? sval n) /\
  ILessThan i n = (sval i <? sval n) /\ ILessThanOrEqual i n = (sval i <=? sval n).
Proof. intros [? ?] [? ?]. destruct i as [h l], n as [h' l']; cbn [hi lo] in *. repeat split; scmp. Qed.
Theorem ICmp64_spec i n : wf i -> int64 n ->
  ICmp64 i n = zcmp3 (sval i) n /\ IGreaterThan64 i n = (n <? sval i) /\ IGreaterThanOrEqual64 i n = (n <=? sval i) /\
  IEqual64 i n = (sval i =? n) /\ ILessThan64 i n = (sval i <? n) /\ ILessThanOrEqual64 i n = (sval i <=? n).
Proof.
  intros Hi Hn. destruct (From64_spec n Hn) as [WF E].
  unfold ICmp64, IGreaterThan64, IGreaterThanOrEqual64, IEqual64, ILessThan64, ILessThanOrEqual64.
  rewrite ICmp_spec by assumption. destruct (Ipredicates_spec i (From64 n) Hi WF) as (A & B & C & D & F). rewrite A, B, C, D, F, E. repeat split; reflexivity.
Qed.

(* ---------- 64-bit signed operands ---------- *)
Theorem IAdd64_spec i n : wf i -> int64 n -> wf (IAdd64 i n) /\ sval (IAdd64 i n) = smod (sval i + n).
Proof.
  intros Hi Hn. pose proof Hi as [Hh Hl]. unfold int64 in Hn.
  assert (G : wf (IAdd64 i n) /\ uval (IAdd64 i n) = (uval i + n) mod P128).
  { unfold IAdd64, add64, wrap, wf, uval. cbn [hi lo]. destruct i as [h l]. cbn [hi lo] in *.
    split; [split; apply Z.mod_pos_bound; lia|].
    apply mod128_unique.
    - destruct (n <? 0); [pose proof (Z.mod_pos_bound (h + ((l + n mod W + 0) / W + MAX64) mod W) W ltac:(lia)) | pose proof (Z.mod_pos_bound (h + (l + n mod W + 0) / W) W ltac:(lia))];
        pose proof (Z.mod_pos_bound (l + n mod W + 0) W ltac:(lia)); lia.
    - destruct (Z.ltb_spec n 0).
      + assert (En : n mod W = n + W) by lia. rewrite En.
        exists (1 - ((h + ((l + (n + W) + 0) / W + MAX64) mod W) / W) - ((l + (n + W) + 0) / W + MAX64) / W). lia.
      + assert (En : n mod W = n) by lia. rewrite En. exists (- ((h + (l + n + 0) / W) / W)). lia. }
  destruct G as [WF E]. split; [exact WF|]. rewrite sval_smod, E, smod_mod by exact WF. rewrite (uval_sval i) by assumption. unfold smod. lia.
Qed.
Theorem ISub64_spec i n : wf i -> int64 n -> wf (ISub64 i n) /\ sval (ISub64 i n) = smod (sval i - n).
Proof.
  intros Hi Hn. pose proof Hi as [Hh Hl]. unfold int64 in Hn.
  assert (G : wf (ISub64 i n) /\ uval (ISub64 i n) = (uval i - n) mod P128).
  { unfold ISub64, sub64, wrap, wf, uval. cbn [hi lo]. destruct i as [h l]. cbn [hi lo] in *.
    split; [split; [destruct (n <? 0)|]; apply Z.mod_pos_bound; lia|].
    apply mod128_unique.
    - pose proof (Z.mod_pos_bound (l - n mod W - 0) W ltac:(lia)).
      destruct (n <? 0); [pose proof (Z.mod_pos_bound ((h - (if l - n mod W - 0 <? 0 then 1 else 0)) mod W - MAX64) W ltac:(lia)) | pose proof (Z.mod_pos_bound (h - (if l - n mod W - 0 <? 0 then 1 else 0)) W ltac:(lia))]; lia.
    - destruct (Z.ltb_spec n 0).
      + assert (En : n mod W = n + W) by lia. rewrite En. destruct (Z.ltb_spec (l - (n + W) - 0) 0).
        * exists (- (((h - 1) mod W - MAX64) / W) - (h - 1) / W - 1). lia.
        * exists (- (((h - 0) mod W - MAX64) / W) - (h - 0) / W - 1). lia.
      + assert (En : n mod W = n) by lia. rewrite En. destruct (Z.ltb_spec (l - n - 0) 0).
        * exists (- ((h - 1) / W)). lia.
        * exists (- ((h - 0) / W)). lia. }
  destruct G as [WF E]. split; [exact WF|]. rewrite sval_smod, E, smod_mod by exact WF. rewrite (uval_sval i) by assumption. unfold smod. lia.
Qed.
Theorem IMul64_spec i n : wf i -> int64 n -> wf (IMul64 i n) /\ sval (IMul64 i n) = smod (sval i * n).
Proof.
  intros Hi Hn. destruct (From64_spec n Hn) as [WF E]. unfold IMul64. destruct (IMul_spec i (From64 n) Hi WF) as [A B]. rewrite E in B. auto.
Qed.
