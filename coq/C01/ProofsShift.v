(* C01 — LeftShift / RightShift equal multiplication / division by 2^n (mod 2^128), for every count n >= 0 *)
From Coq Require Import ZArith List Bool Lia.
From Verif Require Import common.Word64 common.Word64Facts C01.Model C01.ProofsArith C01.ProofsBits.
Open Scope Z_scope.
Ltac Zify.zify_post_hook ::= Z.div_mod_to_equations.

(* disjoint bits: lor is addition *)
Lemma lor_add_disjoint a c n : 0 <= n -> 0 <= a -> a mod 2 ^ n = 0 -> 0 <= c < 2 ^ n -> Z.lor a c = a + c.
Proof.
  intros Hn Ha Hm Hc.
  assert (L : Z.land a c = 0).
  { apply Z.bits_inj'. intros k Hk. rewrite Z.land_spec, Z.bits_0.
    destruct (Z.lt_ge_cases k n) as [Hlt|Hge].
    - assert (Z.testbit a k = false).
      { pose proof (Z.div_mod a (2^n) ltac:(apply Z.pow_nonzero; lia)) as H. rewrite Hm, Z.add_0_r in H. rewrite H, Z.mul_comm.
        apply Z.mul_pow2_bits_low. lia. }
      rewrite H. reflexivity.
    - assert (Z.testbit c k = false).
      { destruct (Z.eq_dec c 0) as [->|Hne]; [apply Z.bits_0|]. apply Z.bits_above_log2; [lia|].
        apply Z.log2_lt_pow2; [lia|]. apply Z.lt_le_trans with (2^n); [lia|]. apply Z.pow_le_mono_r; lia. }
      rewrite H. apply andb_false_r. }
  rewrite <- Z.lxor_lor by assumption. symmetry. apply Z.add_nocarry_lxor. assumption.
Qed.

Lemma pow_split n : 0 <= n <= 64 -> 2 ^ n * 2 ^ (64 - n) = W /\ 0 < 2 ^ n /\ 0 < 2 ^ (64 - n).
Proof. intro H. repeat split; try (apply Z.pow_pos_nonneg; lia). rewrite <- Z.pow_add_r by lia. replace (n + (64 - n)) with 64 by lia. reflexivity. Qed.

(* one word shifted left by k < 64 and the spill-over of the word below it *)
Lemma shl_val x k : w64 x -> 0 <= k < 64 -> shl x k = (x * 2 ^ k) mod W.
Proof. intros _ Hk. unfold shl, wrap. rewrite (proj2 (Z.ltb_lt k 64)) by lia. reflexivity. Qed.
Lemma shr_val x k : 0 <= k < 64 -> shr x k = x / 2 ^ k.
Proof. intro Hk. unfold shr. rewrite (proj2 (Z.ltb_lt k 64)) by lia. reflexivity. Qed.
Lemma shl_big x k : 64 <= k -> shl x k = 0.
Proof. intro Hk. unfold shl. rewrite (proj2 (Z.ltb_ge k 64)) by lia. reflexivity. Qed.
Lemma shr_big x k : 64 <= k -> shr x k = 0.
Proof. intro Hk. unfold shr. rewrite (proj2 (Z.ltb_ge k 64)) by lia. reflexivity. Qed.

Lemma LeftShift_mid u n : wf u -> 0 < n < 64 -> wf (LeftShift u n) /\ uval (LeftShift u n) = (uval u * 2 ^ n) mod P128.
Proof.
  intros [[Hh0 Hh1] [Hl0 Hl1]] Hn. unfold LeftShift.
  rewrite (proj2 (Z.eqb_neq n 0)) by lia. rewrite (proj2 (Z.ltb_ge 64 n)) by lia. rewrite (proj2 (Z.ltb_lt n 64)) by lia.
  unfold shl, shr. rewrite (proj2 (Z.ltb_lt n 64)) by lia. rewrite (proj2 (Z.ltb_lt (64 - n) 64)) by lia.
  unfold wf, uval, wrap. cbn [hi lo]. destruct u as [h l]; cbn [hi lo] in *.
  destruct (pow_split n ltac:(lia)) as (HPQ & HP & HQ). set (P := 2 ^ n) in *. set (Q := 2 ^ (64 - n)) in *.
  set (c := l / Q). set (a := (h * P) mod W).
  assert (Hc : 0 <= c < P). { unfold c. split; [apply Z.div_pos; lia|]. apply Z.div_lt_upper_bound; [lia|]. nia. }
  assert (Ha0 : 0 <= a < W) by (apply Z.mod_pos_bound; lia).
  assert (Ham : a mod P = 0).
  { unfold a. rewrite <- HPQ. rewrite Z.mul_comm. rewrite Z.mul_mod_distr_l by lia. rewrite Z.mul_comm. apply Z.mod_mul. lia. }
  rewrite (lor_add_disjoint a c n) by (try lia; assumption).
  assert (Hac : a + c < W).
  { pose proof (Z.div_mod a P ltac:(lia)) as H. rewrite Ham, Z.add_0_r in H.
    assert (a / P < Q) by (apply Z.div_lt_upper_bound; [lia|]; nia). nia. }
  split. { split; [lia|]. apply Z.mod_pos_bound. lia. }
  assert (Hd : (l * P) / W = c).
  { unfold c. replace W with (Q * P) by lia. apply Z.div_mul_cancel_r; lia. }
  assert (Hl : l * P = c * W + (l * P) mod W).
  { pose proof (Z.div_mod (l * P) W ltac:(lia)) as H. rewrite Hd in H. lia. }
  apply Z.mod_unique_pos with (q := (h * P) / W).
  - pose proof (Z.mod_pos_bound (l * P) W ltac:(lia)). lia.
  - pose proof (Z.div_mod (h * P) W ltac:(lia)) as H. fold a in H. nia.
Qed.

Theorem LeftShift_spec u n : wf u -> 0 <= n -> wf (LeftShift u n) /\ uval (LeftShift u n) = (uval u * 2 ^ n) mod P128.
Proof.
  intros Hu Hn. pose proof (uval_range u Hu) as R. pose proof Hu as [[Hh0 Hh1] [Hl0 Hl1]].
  destruct (Z.eq_dec n 0) as [->|Hn0].
  { unfold LeftShift. cbn [Z.eqb]. split; [exact Hu|]. rewrite Z.pow_0_r, Z.mul_1_r. symmetry. apply Z.mod_small. exact R. }
  destruct (Z_lt_le_dec n 64) as [Hlt|Hge]; [apply LeftShift_mid; [exact Hu | lia]|].
  unfold LeftShift. rewrite (proj2 (Z.eqb_neq n 0)) by lia.
  destruct (Z.ltb_spec 64 n) as [Hgt|Hle].
  - (* n > 64 *)
    destruct (Z_lt_le_dec (n - 64) 64) as [Hk|Hk].
    + rewrite shl_val by (unfold w64; lia). unfold wf, uval. cbn [hi lo].
      pose proof (Z.mod_pos_bound (lo u * 2 ^ (n - 64)) W ltac:(lia)).
      split; [lia|]. rewrite Z.add_0_r.
      assert (E : 2 ^ n = 2 ^ (n - 64) * W) by (rewrite W_pow, <- Z.pow_add_r by lia; f_equal; lia).
      rewrite E. assert (0 < 2 ^ (n - 64)) by (apply Z.pow_pos_nonneg; lia).
      set (T := 2 ^ (n - 64)) in *.
      replace ((hi u * W + lo u) * (T * W)) with ((lo u * T) * W + (hi u * T) * P128) by lia.
      rewrite Z.mod_add by lia. change P128 with (W * W). rewrite Z.mul_mod_distr_r by lia. reflexivity.
    + rewrite shl_big by lia. unfold wf, uval. cbn [hi lo]. split; [lia|].
      assert (E : 2 ^ n = 2 ^ (n - 128) * P128) by (rewrite P128_pow, <- Z.pow_add_r by lia; f_equal; lia).
      rewrite E, Z.mul_assoc, Z.mod_mul by lia. reflexivity.
  - (* n = 64 *)
    assert (n = 64) by lia. subst n. rewrite (proj2 (Z.ltb_ge 64 64)) by lia. unfold wf, uval. cbn [hi lo]. split; [lia|].
    rewrite <- W_pow. replace ((hi u * W + lo u) * W) with (lo u * W + hi u * P128) by lia. rewrite Z.mod_add by lia.
    rewrite Z.add_0_r. symmetry. apply Z.mod_small. lia.
Qed.

Lemma RightShift_mid u n : wf u -> 0 < n < 64 -> wf (RightShift u n) /\ uval (RightShift u n) = uval u / 2 ^ n.
Proof.
  intros [[Hh0 Hh1] [Hl0 Hl1]] Hn. unfold RightShift.
  rewrite (proj2 (Z.eqb_neq n 0)) by lia. rewrite (proj2 (Z.ltb_ge 64 n)) by lia. rewrite (proj2 (Z.ltb_lt n 64)) by lia.
  unfold shl, shr. rewrite (proj2 (Z.ltb_lt n 64)) by lia. rewrite (proj2 (Z.ltb_lt (64 - n) 64)) by lia.
  unfold wf, uval, wrap. cbn [hi lo]. destruct u as [h l]; cbn [hi lo] in *.
  destruct (pow_split n ltac:(lia)) as (HPQ & HP & HQ). set (P := 2 ^ n) in *. set (Q := 2 ^ (64 - n)) in *.
  (* (h*Q) mod W = (h mod P) * Q *)
  assert (Hm : (h * Q) mod W = (h mod P) * Q).
  { rewrite <- HPQ. rewrite Z.mul_mod_distr_r by lia. reflexivity. }
  rewrite Hm. set (c := l / P). set (a := (h mod P) * Q).
  assert (Hc : 0 <= c < Q). { unfold c. split; [apply Z.div_pos; lia|]. apply Z.div_lt_upper_bound; [lia|]. nia. }
  assert (Hmod : 0 <= h mod P < P) by (apply Z.mod_pos_bound; lia).
  assert (Ha0 : 0 <= a) by (unfold a; nia).
  assert (Ham : a mod 2 ^ (64 - n) = 0) by (unfold a; fold Q; apply Z.mod_mul; lia).
  rewrite Z.lor_comm. rewrite (lor_add_disjoint a c (64 - n)) by (try lia; assumption).
  assert (Hhd : 0 <= h / P < W). { split; [apply Z.div_pos; lia|]. apply Z.div_lt_upper_bound; nia. }
  assert (Hac : a + c < W) by (unfold a; nia).
  split; [lia|].
  (* value *)
  apply Z.div_unique with (r := l mod P); [left; apply Z.mod_pos_bound; lia|].
  pose proof (Z.div_mod h P ltac:(lia)) as Eh. pose proof (Z.div_mod l P ltac:(lia)) as El. fold c in El. unfold a. nia.
Qed.

Theorem RightShift_spec u n : wf u -> 0 <= n -> wf (RightShift u n) /\ uval (RightShift u n) = uval u / 2 ^ n.
Proof.
  intros Hu Hn. pose proof (uval_range u Hu) as R. pose proof Hu as [[Hh0 Hh1] [Hl0 Hl1]].
  destruct (Z.eq_dec n 0) as [->|Hn0].
  { unfold RightShift. cbn [Z.eqb]. split; [exact Hu|]. rewrite Z.pow_0_r, Z.div_1_r. reflexivity. }
  destruct (Z_lt_le_dec n 64) as [Hlt|Hge]; [apply RightShift_mid; [exact Hu | lia]|].
  unfold RightShift. rewrite (proj2 (Z.eqb_neq n 0)) by lia.
  assert (E : 2 ^ n = W * 2 ^ (n - 64)) by (rewrite W_pow, <- Z.pow_add_r by lia; f_equal; lia).
  assert (HT : 0 < 2 ^ (n - 64)) by (apply Z.pow_pos_nonneg; lia).
  assert (Hdiv : uval u / 2 ^ n = hi u / 2 ^ (n - 64)).
  { rewrite E, <- Z.div_div by lia. f_equal. unfold uval. rewrite Z.add_comm, Z.div_add by lia. rewrite Z.div_small by lia. lia. }
  destruct (Z.ltb_spec 64 n) as [Hgt|Hle].
  - destruct (Z_lt_le_dec (n - 64) 64) as [Hk|Hk].
    + rewrite shr_val by lia. rewrite Hdiv. unfold wf, uval. cbn [hi lo].
      assert (0 <= hi u / 2 ^ (n - 64) < W) by (split; [apply Z.div_pos; lia | apply Z.div_lt_upper_bound; nia]). split; lia.
    + rewrite shr_big by lia. rewrite Hdiv. unfold wf, uval. cbn [hi lo]. split; [lia|].
      symmetry. apply Z.div_small. split; [lia|]. apply Z.lt_le_trans with W; [lia|]. rewrite W_pow. apply Z.pow_le_mono_r; lia.
  - assert (n = 64) by lia. subst n. rewrite (proj2 (Z.ltb_ge 64 64)) by lia. rewrite Hdiv. unfold wf. cbn [hi lo]. split; [lia|].
    change (2 ^ (64 - 64)) with 1. rewrite Z.div_1_r. unfold uval. cbn [hi lo]. lia.
Qed.
