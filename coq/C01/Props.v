(* C01 — property theorems only. uval / sval read the two words as an unsigned / two's-complement 128-bit integer;
   wf says both words are in [0, 2^64). smod reduces into [-2^127, 2^127). Every statement is for all well-formed operands. *)
From Coq Require Import ZArith List Bool.
From Verif Require Import common.Word64 common.Word64Facts C01.Model C01.ProofsArith C01.ProofsBits C01.ProofsShift C01.ProofsInt C01.ProofsDiv C01.ProofsDiv2 C01.ProofsDiv3.
Open Scope Z_scope.

(* ---- Uint128 arithmetic = Z mod 2^128 ---- *)
Theorem C01_Add : forall u n, wf u -> wf n -> wf (Add u n) /\ uval (Add u n) = (uval u + uval n) mod P128.
Proof. exact Add_spec. Qed.
Print Assumptions C01_Add.
Theorem C01_Sub : forall u n, wf u -> wf n -> wf (Sub u n) /\ uval (Sub u n) = (uval u - uval n) mod P128.
Proof. exact Sub_spec. Qed.
Print Assumptions C01_Sub.
Theorem C01_Mul : forall u n, wf u -> wf n -> wf (Mul u n) /\ uval (Mul u n) = (uval u * uval n) mod P128.
Proof. exact Mul_spec. Qed.
Print Assumptions C01_Mul.
Theorem C01_Add64 : forall u n, wf u -> w64 n -> wf (Add64 u n) /\ uval (Add64 u n) = (uval u + n) mod P128.
Proof. exact Add64_spec. Qed.
Print Assumptions C01_Add64.
Theorem C01_Sub64 : forall u n, wf u -> w64 n -> wf (Sub64 u n) /\ uval (Sub64 u n) = (uval u - n) mod P128.
Proof. exact Sub64_spec. Qed.
Print Assumptions C01_Sub64.
Theorem C01_Mul64 : forall u n, wf u -> w64 n -> wf (Mul64 u n) /\ uval (Mul64 u n) = (uval u * n) mod P128.
Proof. exact Mul64_spec. Qed.
Print Assumptions C01_Mul64.
Theorem C01_Inc : forall u, wf u -> wf (Inc u) /\ uval (Inc u) = (uval u + 1) mod P128.
Proof. exact Inc_spec. Qed.
Print Assumptions C01_Inc.
Theorem C01_Dec : forall u, wf u -> wf (Dec u) /\ uval (Dec u) = (uval u - 1) mod P128.
Proof. exact Dec_spec. Qed.
Print Assumptions C01_Dec.

(* ---- Uint128 order ---- *)
Theorem C01_Cmp : forall u n, wf u -> wf n -> Cmp u n = zcmp3 (uval u) (uval n).
Proof. exact Cmp_spec. Qed.
Print Assumptions C01_Cmp.
Theorem C01_Cmp64 : forall u n, wf u -> w64 n -> Cmp64 u n = zcmp3 (uval u) n.
Proof. exact Cmp64_spec. Qed.
Print Assumptions C01_Cmp64.
Theorem C01_predicates : forall u n, wf u -> wf n ->
  GreaterThan u n = (uval n <? uval u) /\ GreaterThanOrEqual u n = (uval n <=? uval u) /\ Equal u n = (uval u =? uval n) /\
  LessThan u n = (uval u <? uval n) /\ LessThanOrEqual u n = (uval u <=? uval n) /\ IsZero u = (uval u =? 0).
Proof. exact predicates_spec. Qed.
Print Assumptions C01_predicates.
Theorem C01_predicates64 : forall u n, wf u -> w64 n ->
  GreaterThan64 u n = (n <? uval u) /\ GreaterThanOrEqual64 u n = (n <=? uval u) /\ Equal64 u n = (uval u =? n) /\
  LessThan64 u n = (uval u <? n) /\ LessThanOrEqual64 u n = (uval u <=? n).
Proof. exact predicates64_spec. Qed.
Print Assumptions C01_predicates64.

(* ---- bitwise operations and bit queries = binary representation ---- *)
Theorem C01_And : forall u n, wf u -> wf n -> wf (And u n) /\ uval (And u n) = Z.land (uval u) (uval n).
Proof. exact And_spec. Qed.
Print Assumptions C01_And.
Theorem C01_Or : forall u n, wf u -> wf n -> wf (Or u n) /\ uval (Or u n) = Z.lor (uval u) (uval n).
Proof. exact Or_spec. Qed.
Print Assumptions C01_Or.
Theorem C01_Xor : forall u n, wf u -> wf n -> wf (Xor u n) /\ uval (Xor u n) = Z.lxor (uval u) (uval n).
Proof. exact Xor_spec. Qed.
Print Assumptions C01_Xor.
Theorem C01_AndNot : forall u n, wf u -> wf n -> wf (AndNot u n) /\ uval (AndNot u n) = Z.ldiff (uval u) (uval n).
Proof. exact AndNot_spec. Qed.
Print Assumptions C01_AndNot.
Theorem C01_Not : forall u, wf u -> wf (Not u) /\ uval (Not u) = P128 - 1 - uval u.
Proof. exact Not_spec. Qed.
Print Assumptions C01_Not.
Theorem C01_And64 : forall u n, wf u -> w64 n -> wf (And64 u n) /\ uval (And64 u n) = Z.land (uval u) n.
Proof. exact And64_spec. Qed.
Print Assumptions C01_And64.
Theorem C01_Or64 : forall u n, wf u -> w64 n -> wf (Or64 u n) /\ uval (Or64 u n) = Z.lor (uval u) n.
Proof. exact Or64_spec. Qed.
Print Assumptions C01_Or64.
Theorem C01_Xor64 : forall u n, wf u -> w64 n -> wf (Xor64 u n) /\ uval (Xor64 u n) = Z.lxor (uval u) n.
Proof. exact Xor64_spec. Qed.
Print Assumptions C01_Xor64.
Theorem C01_AndNot64 : forall u n, wf u -> wf n -> wf (AndNot64 u n) /\ uval (AndNot64 u n) = Z.ldiff (uval u) (lo n).
Proof. exact AndNot64_spec. Qed.
Print Assumptions C01_AndNot64.
Theorem C01_Bit : forall u i, wf u -> Bit u i = if (0 <=? i) && (i <=? 127) then Z.b2z (Z.testbit (uval u) i) else 0.
Proof. exact Bit_spec. Qed.
Print Assumptions C01_Bit.
Theorem C01_SetBit : forall u i, wf u ->
  (0 <= i <= 127 -> (wf (SetBit u i 1) /\ uval (SetBit u i 1) = Z.lor (uval u) (2 ^ i)) /\
                    (wf (SetBit u i 0) /\ uval (SetBit u i 0) = Z.ldiff (uval u) (2 ^ i))) /\
  (i < 0 \/ 127 < i -> forall b, SetBit u i b = u).
Proof. exact SetBit_spec. Qed.
Print Assumptions C01_SetBit.
Theorem C01_BitLen : forall u, wf u -> BitLen u = if uval u =? 0 then 0 else Z.log2 (uval u) + 1.
Proof. exact BitLen_spec. Qed.
Print Assumptions C01_BitLen.
Theorem C01_LeadingZeros : forall u, wf u -> LeadingZeros u = 128 - BitLen u.
Proof. exact LeadingZeros_spec. Qed.
Print Assumptions C01_LeadingZeros.
Theorem C01_TrailingZeros : forall u, wf u ->
  (uval u = 0 -> TrailingZeros u = 128) /\ (uval u <> 0 -> 0 <= TrailingZeros u < 128 /\ is_tz (uval u) (TrailingZeros u)).
Proof. exact TrailingZeros_spec. Qed.
Print Assumptions C01_TrailingZeros.
Theorem C01_OnesCount : forall u, wf u -> OnesCount u = bitsum (uval u) 0 128.
Proof. exact OnesCount_spec. Qed.
Print Assumptions C01_OnesCount.

(* ---- shifts, every count n >= 0 ---- *)
Theorem C01_LeftShift : forall u n, wf u -> 0 <= n -> wf (LeftShift u n) /\ uval (LeftShift u n) = (uval u * 2 ^ n) mod P128.
Proof. exact LeftShift_spec. Qed.
Print Assumptions C01_LeftShift.
Theorem C01_RightShift : forall u n, wf u -> 0 <= n -> wf (RightShift u n) /\ uval (RightShift u n) = uval u / 2 ^ n.
Proof. exact RightShift_spec. Qed.
Print Assumptions C01_RightShift.

(* ---- Int128: two's complement ---- *)
Theorem C01_IAdd : forall i n, wf i -> wf n -> wf (Add i n) /\ sval (Add i n) = smod (sval i + sval n).
Proof. exact IAdd_spec. Qed.
Print Assumptions C01_IAdd.
Theorem C01_ISub : forall i n, wf i -> wf n -> wf (Sub i n) /\ sval (Sub i n) = smod (sval i - sval n).
Proof. exact ISub_spec. Qed.
Print Assumptions C01_ISub.
Theorem C01_IMul : forall i n, wf i -> wf n -> wf (Mul i n) /\ sval (Mul i n) = smod (sval i * sval n).
Proof. exact IMul_spec. Qed.
Print Assumptions C01_IMul.
Theorem C01_IInc : forall i, wf i -> wf (Inc i) /\ sval (Inc i) = smod (sval i + 1).
Proof. exact IInc_spec. Qed.
Print Assumptions C01_IInc.
Theorem C01_IDec : forall i, wf i -> wf (Dec i) /\ sval (Dec i) = smod (sval i - 1).
Proof. exact IDec_spec. Qed.
Print Assumptions C01_IDec.
Theorem C01_IAdd64 : forall i n, wf i -> int64 n -> wf (IAdd64 i n) /\ sval (IAdd64 i n) = smod (sval i + n).
Proof. exact IAdd64_spec. Qed.
Print Assumptions C01_IAdd64.
Theorem C01_ISub64 : forall i n, wf i -> int64 n -> wf (ISub64 i n) /\ sval (ISub64 i n) = smod (sval i - n).
Proof. exact ISub64_spec. Qed.
Print Assumptions C01_ISub64.
Theorem C01_IMul64 : forall i n, wf i -> int64 n -> wf (IMul64 i n) /\ sval (IMul64 i n) = smod (sval i * n).
Proof. exact IMul64_spec. Qed.
Print Assumptions C01_IMul64.
Theorem C01_Neg : forall i, wf i -> wf (Neg i) /\ sval (Neg i) = smod (- sval i).
Proof. exact Neg_spec. Qed.
Print Assumptions C01_Neg.
Theorem C01_Abs : forall i, wf i -> wf (Abs i) /\ sval (Abs i) = smod (Z.abs (sval i)).
Proof. exact Abs_spec. Qed.
Print Assumptions C01_Abs.
Theorem C01_AbsUint128 : forall i, wf i -> wf (AbsUint128 i) /\ uval (AbsUint128 i) = Z.abs (sval i).
Proof. exact AbsUint128_spec. Qed.
Print Assumptions C01_AbsUint128.
Theorem C01_Sign : forall i, wf i -> ISign i = Z.sgn (sval i).
Proof. exact ISign_spec. Qed.
Print Assumptions C01_Sign.
Theorem C01_ICmp : forall i n, wf i -> wf n -> ICmp i n = zcmp3 (sval i) (sval n).
Proof. exact ICmp_spec. Qed.
Print Assumptions C01_ICmp.
Theorem C01_Ipredicates : forall i n, wf i -> wf n ->
  IGreaterThan i n = (sval n <? sval i) /\ IGreaterThanOrEqual i n = (sval n <=? sval i) /\ Equal i n = (sval i =? sval n) /\
  ILessThan i n = (sval i <? sval n) /\ ILessThanOrEqual i n = (sval i <=? sval n).
Proof. exact Ipredicates_spec. Qed.
Print Assumptions C01_Ipredicates.
Theorem C01_Ipredicates64 : forall i n, wf i -> int64 n ->
  ICmp64 i n = zcmp3 (sval i) n /\ IGreaterThan64 i n = (n <? sval i) /\ IGreaterThanOrEqual64 i n = (n <=? sval i) /\
  IEqual64 i n = (sval i =? n) /\ ILessThan64 i n = (sval i <? n) /\ ILessThanOrEqual64 i n = (sval i <=? n).
Proof. exact ICmp64_spec. Qed.
Print Assumptions C01_Ipredicates64.

(* ---- division *)
(* the 128-by-64 kernel (Hacker's Delight divlu with its two-correction digit loop): exact quotient and remainder whenever the quotient fits *)
Theorem C01_divmod128by64 : forall u n0, wf u -> 0 < n0 < W -> hi u < n0 ->
  divmod128by64 u n0 (lz64 n0) = Some (uval u / n0, uval u mod n0).
Proof. exact divmod128by64_spec. Qed.
Print Assumptions C01_divmod128by64.
(* Div, Mod and DivMod of Uint128, through every path of the dispatch (divisor 0 and 1, 64-bit operands, powers of two, comparison
   shortcuts, the estimate-and-correct kernel, the shift-and-subtract kernel): division by zero is reported as such, and otherwise the
   exact quotient and remainder come back, so that q * n + r = u and r < n; no path runs out of fuel *)
Theorem C01_DivMod : forall u n, wf u -> wf n ->
  (uval n = 0 -> DivMod u n = DivZero /\ Div u n = DivZero /\ Mod u n = DivZero) /\
  (0 < uval n -> exists q r, DivMod u n = Ok (q, r) /\ Div u n = Ok q /\ Mod u n = Ok r /\
                 wf q /\ wf r /\ uval q = uval u / uval n /\ uval r = uval u mod uval n /\ uval q * uval n + uval r = uval u /\ uval r < uval n).
Proof. exact DivMod_spec. Qed.
Print Assumptions C01_DivMod.

(* the variants with a 64-bit divisor *)
Theorem C01_DivMod64 : forall u n, wf u -> w64 n ->
  (n = 0 -> DivMod64 u n = DivZero /\ Div64 u n = DivZero /\ Mod64 u n = DivZero) /\
  (0 < n -> exists q r, DivMod64 u n = Ok (q, r) /\ Div64 u n = Ok q /\ Mod64 u n = Ok r /\
            wf q /\ wf r /\ uval q = uval u / n /\ uval r = uval u mod n /\ uval q * n + uval r = uval u /\ uval r < n).
Proof. exact DivMod64_spec. Qed.
Print Assumptions C01_DivMod64.
(* Int128: quotient truncated toward zero (reduced into the two's-complement range: only MinInt128 / -1 is affected), remainder with
   the dividend's sign; division by zero reported *)
Theorem C01_IDivMod : forall i n, wf i -> wf n ->
  (sval n = 0 -> IDivMod i n = DivZero /\ IDiv i n = DivZero /\ IMod i n = DivZero) /\
  (sval n <> 0 -> exists q r, IDivMod i n = Ok (q, r) /\ IDiv i n = Ok q /\ IMod i n = Ok r /\ wf q /\ wf r /\
                  sval q = smod (Z.quot (sval i) (sval n)) /\ sval r = Z.rem (sval i) (sval n)).
Proof. exact IDivMod_spec. Qed.
Print Assumptions C01_IDivMod.
Theorem C01_IDivMod64 : forall i n, wf i -> int64 n ->
  (n = 0 -> IDivMod64 i n = DivZero /\ IDiv64 i n = DivZero /\ IMod64 i n = DivZero) /\
  (n <> 0 -> exists q r, IDivMod64 i n = Ok (q, r) /\ IDiv64 i n = Ok q /\ IMod64 i n = Ok r /\ wf q /\ wf r /\
             sval q = smod (Z.quot (sval i) n) /\ sval r = Z.rem (sval i) n).
Proof. exact IDivMod64_spec. Qed.
Print Assumptions C01_IDivMod64.

(* non-vacuity and regression *)
Example C01_ex_onescount : OnesCount (mk 3 7) = 5. Proof. reflexivity. Qed.
Example C01_ex_wrap : uval (Add (mk MAX64 MAX64) (mk 0 1)) = 0 /\ sval (Neg MinI) = - P127 /\ DivMod (mk 5 0) zero = DivZero.
Proof. repeat split. Qed.
Example C01_ex_div : DivMod (mk 1 0) (mk 0 3) = Ok (mk 0 6148914691236517205, mk 0 1). Proof. vm_compute. reflexivity. Qed.
