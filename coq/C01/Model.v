(* C01 — executable model of xmath/num Uint128 and Int128: every arithmetic, comparison and bit method of uint128.go /
   int128.go, transcribed over the Word64 primitives. Both types are a pair of 64-bit words (hi, lo).
   A Go panic (divide by zero) is DivZero; the goto-loops of divmod128by64 run on fuel and report OutOfFuel (proved
   unreachable). No proofs in this file. *)
From Coq Require Import ZArith List Bool.
From Verif Require Export common.Word64.
Import ListNotations.
Open Scope Z_scope.

Record w128 := mk { hi : Z; lo : Z }.
Definition zero := mk 0 0.
Definition wf (u : w128) : Prop := (0 <= hi u < W) /\ (0 <= lo u < W).
Definition uval (u : w128) : Z := hi u * W + lo u.
Definition sval (u : w128) : Z := if SIGN <=? hi u then uval u - P128 else uval u.
Definition of_uval (v : Z) : w128 := mk ((v mod P128) / W) (v mod W).

Inductive res (A : Type) := Ok (a : A) | DivZero | OutOfFuel.
Arguments Ok {A}. Arguments DivZero {A}. Arguments OutOfFuel {A}.

(* ---------------------------------------------------------------- Uint128 *)
Definition Add u n := let '(l, c) := add64 (lo u) (lo n) 0 in let '(h, _) := add64 (hi u) (hi n) c in mk h l.
Definition Add64 u n := let '(l, c) := add64 (lo u) n 0 in mk (wrap (hi u + c)) l.
Definition Sub u n := let '(l, b) := sub64 (lo u) (lo n) 0 in let '(h, _) := sub64 (hi u) (hi n) b in mk h l.
Definition Sub64 u n := let '(l, b) := sub64 (lo u) n 0 in mk (wrap (hi u - b)) l.
Definition Inc u := let '(l, c) := add64 (lo u) 1 0 in mk (wrap (hi u + c)) l.
Definition Dec u := let '(l, b) := sub64 (lo u) 1 0 in mk (wrap (hi u - b)) l.
Definition Cmp u n : Z :=
  if hi u =? hi n then (if lo n <? lo u then 1 else if lo u <? lo n then -1 else 0)
  else if hi n <? hi u then 1 else -1.
Definition Cmp64 u n : Z := if (0 <? hi u) || (n <? lo u) then 1 else if lo u <? n then -1 else 0.
Definition GreaterThan u n := (hi n <? hi u) || ((hi u =? hi n) && (lo n <? lo u)).
Definition GreaterThan64 u n := (0 <? hi u) || (n <? lo u).
Definition GreaterThanOrEqual u n := (hi n <? hi u) || ((hi u =? hi n) && (lo n <=? lo u)).
Definition GreaterThanOrEqual64 u n := (0 <? hi u) || (n <=? lo u).
Definition Equal u n := (hi u =? hi n) && (lo u =? lo n).
Definition Equal64 u n := (hi u =? 0) && (lo u =? n).
Definition LessThan u n := (hi u <? hi n) || ((hi u =? hi n) && (lo u <? lo n)).
Definition LessThan64 u n := (hi u =? 0) && (lo u <? n).
Definition LessThanOrEqual u n := (hi u <? hi n) || ((hi u =? hi n) && (lo u <=? lo n)).
Definition LessThanOrEqual64 u n := (hi u =? 0) && (lo u <=? n).
Definition IsZero u := (hi u =? 0) && (lo u =? 0).
Definition BitLen u := if negb (hi u =? 0) then len64 (hi u) + 64 else len64 (lo u).
Definition OnesCount u := pop64 (hi u) + pop64 (lo u).
Definition Bit u i := if (i <? 0) || (127 <? i) then 0 else if i <? 64 then Z.land (shr (lo u) i) 1 else Z.land (shr (hi u) (i - 64)) 1.
Definition SetBit u i b :=
  if (i <? 0) || (127 <? i) then u
  else if b =? 0 then (if 64 <=? i then mk (andnot64 (hi u) (shl 1 (i - 64))) (lo u) else mk (hi u) (andnot64 (lo u) (shl 1 i)))
  else (if 64 <=? i then mk (Z.lor (hi u) (shl 1 (i - 64))) (lo u) else mk (hi u) (Z.lor (lo u) (shl 1 i))).
Definition Not u := mk (not64 (hi u)) (not64 (lo u)).
Definition And u n := mk (Z.land (hi u) (hi n)) (Z.land (lo u) (lo n)).
Definition And64 u n := mk 0 (Z.land (lo u) n).
Definition AndNot u n := mk (andnot64 (hi u) (hi n)) (andnot64 (lo u) (lo n)).
Definition AndNot64 u n := mk (hi u) (andnot64 (lo u) (lo n)).        (* takes a Uint128, uses its low word *)
Definition Or u n := mk (Z.lor (hi u) (hi n)) (Z.lor (lo u) (lo n)).
Definition Or64 u n := mk (hi u) (Z.lor (lo u) n).
Definition Xor u n := mk (Z.lxor (hi u) (hi n)) (Z.lxor (lo u) (lo n)).
Definition Xor64 u n := mk (hi u) (Z.lxor (lo u) n).
Definition LeadingZeros u := if hi u =? 0 then lz64 (lo u) + 64 else lz64 (hi u).
Definition TrailingZeros u := if lo u =? 0 then tz64 (hi u) + 64 else tz64 (lo u).
Definition LeftShift u n :=
  if n =? 0 then u
  else if 64 <? n then mk (shl (lo u) (n - 64)) 0
  else if n <? 64 then mk (Z.lor (shl (hi u) n) (shr (lo u) (64 - n))) (shl (lo u) n)
  else mk (lo u) 0.
Definition RightShift u n :=
  if n =? 0 then u
  else if 64 <? n then mk 0 (shr (hi u) (n - 64))
  else if n <? 64 then mk (shr (hi u) n) (Z.lor (shr (lo u) n) (shl (hi u) (64 - n)))
  else mk 0 (hi u).
Definition Mul u n := let '(h, l) := mul64 (lo u) (lo n) in mk (wrap (h + wrap (hi u * lo n) + wrap (lo u * hi n))) l.
Definition Mul64 u n :=
  let x0 := Z.land (lo u) M32 in let x1 := shr (lo u) 32 in
  let y0 := Z.land n M32 in let y1 := shr n 32 in
  let t := wrap (wrap (x1 * y0) + shr (wrap (x0 * y0)) 32) in
  mk (wrap (wrap (x1 * y1) + shr t 32 + shr (wrap (Z.land t M32 + wrap (x0 * y1))) 32 + wrap (hi u * n))) (wrap (lo u * n)).

(* the goto loop of divmod128by64; at most two corrections happen, fuel 4 *)
Fixpoint qloop (fuel : nat) (q rhat left right vn1 vn0 un : Z) : option Z :=
  match fuel with O => None | S f =>
    if (B32 <=? q) || (right <? left) then
      let q := wrap (q - 1) in let rhat := wrap (rhat + vn1) in
      if rhat <? B32 then qloop f q rhat (wrap (left - vn0)) (Z.lor (shl rhat 32) un) vn1 vn0 un
      else Some q
    else Some q
  end.

(* requires u.hi < n; vn1 = 0 (division by zero in Go) cannot happen for a normalised divisor and is reported as None *)
Definition divmod128by64 (u : w128) (n nLeading0 : Z) : option (Z * Z) :=
  let n := shl n nLeading0 in
  let vn1 := shr n 32 in let vn0 := Z.land n M32 in
  let u := if 0 <? nLeading0 then mk (Z.lor (shl (hi u) nLeading0) (shr (lo u) (64 - nLeading0))) (shl (lo u) nLeading0) else u in
  let un1 := shr (lo u) 32 in let un0 := Z.land (lo u) M32 in
  if vn1 =? 0 then None else
  let q1 := hi u / vn1 in let rhat := hi u mod vn1 in
  match qloop 4 q1 rhat (wrap (q1 * vn0)) (wrap (shl rhat 32 + un1)) vn1 vn0 un1 with
  | None => None
  | Some q1 =>
    let un21 := wrap (shl (hi u) 32 + wrap (un1 - wrap (q1 * n))) in
    let q0 := un21 / vn1 in let rhat := un21 mod vn1 in
    match qloop 4 q0 rhat (wrap (q0 * vn0)) (Z.lor (shl rhat 32) un0) vn1 vn0 un0 with
    | None => None
    | Some q0 => Some (Z.lor (shl q1 32) q0, shr (wrap (shl un21 32 + wrap (un0 - wrap (q0 * n)))) nLeading0)
    end
  end.

Definition divmod128by128 (u n : w128) (nHiLeading0 nLoLeading0 : Z) : option (w128 * w128) :=
  if hi n =? 0 then
    if hi u <? lo n then
      match divmod128by64 u (lo n) nLoLeading0 with Some (q, r) => Some (mk 0 q, mk 0 r) | None => None end
    else
      let qh := hi u / lo n in
      match divmod128by64 (mk (hi u mod lo n) (lo u)) (lo n) nLoLeading0 with Some (q, r) => Some (mk qh q, mk 0 r) | None => None end
  else
    match divmod128by64 (RightShift u 1) (hi (LeftShift n nHiLeading0)) nLoLeading0 with
    | None => None
    | Some (ql, _) =>
      let ql := shr ql (63 - nHiLeading0) in
      let ql := if negb (ql =? 0) then wrap (ql - 1) else ql in
      let q := mk 0 ql in
      let r := Sub u (Mul q n) in
      if 0 <=? Cmp r n then Some (Inc q, Sub r n) else Some (q, r)
    end.

Fixpoint binloop (fuel : nat) (u n q : w128) (shift : Z) : option (w128 * w128) :=
  match fuel with O => None | S f =>
    let '(u, q) := if GreaterThanOrEqual u n then (Sub u n, mk (hi q) (Z.lor (lo q) 1)) else (u, q) in
    if shift <=? 0 then Some (q, u)
    else binloop f u (RightShift n 1) (LeftShift q 1) (shift - 1)
  end.
Definition divmod128bin (u n : w128) (uLeading0 byLeading0 : Z) : option (w128 * w128) :=
  let shift := byLeading0 - uLeading0 in
  binloop 130 u (LeftShift n shift) zero shift.

Definition lift {A} (sel : w128 -> w128 -> A) (o : option (w128 * w128)) : res A :=
  match o with Some (q, r) => Ok (sel q r) | None => OutOfFuel end.

(* Div, Mod and DivMod are three copies of the same dispatch in Go; sel picks what each returns at every exit *)
Definition divgen {A} (sel : w128 -> w128 -> A) (u n : w128) : res A :=
  let general (nLoLeading0 nHiLeading0 nLeading0 : Z) : res A :=
    let nTrailing0 := TrailingZeros n in
    if nLeading0 + nTrailing0 =? 127 then Ok (sel (RightShift u nTrailing0) (And (Dec n) u))
    else let c := Cmp u n in
      if c <? 0 then Ok (sel zero u)
      else if c =? 0 then Ok (sel (mk 0 1) zero)
      else let uLeading0 := LeadingZeros u in
        lift sel (if 16 <? nLeading0 - uLeading0 then divmod128by128 u n nHiLeading0 nLoLeading0 else divmod128bin u n uLeading0 nLeading0) in
  if hi n =? 0 then
    if lo n =? 0 then DivZero
    else if lo n =? 1 then Ok (sel u zero)
    else if hi u =? 0 then Ok (sel (mk 0 (lo u / lo n)) (mk 0 (lo u mod lo n)))
    else let l := lz64 (lo n) in general l 64 (l + 64)
  else let h := lz64 (hi n) in general 0 h h.
Definition DivMod := divgen (fun q r => (q, r)).
Definition Div := divgen (fun q _ => q).
Definition Mod := divgen (fun _ r => r).

Definition divgen64 {A} (sel : w128 -> w128 -> A) (u : w128) (n : Z) : res A :=
  if n =? 0 then DivZero
  else if n =? 1 then Ok (sel u zero)
  else if hi u =? 0 then Ok (sel (mk 0 (lo u / n)) (mk 0 (lo u mod n)))
  else
    let nLoLeading0 := lz64 n in let nLeading0 := nLoLeading0 + 64 in let nTrailing0 := tz64 n in
    if nLeading0 + nTrailing0 =? 127 then Ok (sel (RightShift u nTrailing0) (And64 u (wrap (n - 1))))
    else let c := Cmp64 u n in
      if c <? 0 then Ok (sel zero u)
      else if c =? 0 then Ok (sel (mk 0 1) zero)
      else let uLeading0 := LeadingZeros u in
        if 16 <? nLeading0 - uLeading0 then
          if hi u <? n then
            match divmod128by64 u n nLoLeading0 with Some (q, r) => Ok (sel (mk 0 q) (mk 0 r)) | None => OutOfFuel end
          else
            match divmod128by64 (mk (hi u mod n) (lo u)) n nLoLeading0 with Some (q, r) => Ok (sel (mk (hi u / n) q) (mk 0 r)) | None => OutOfFuel end
        else lift sel (divmod128bin u (mk 0 n) uLeading0 nLeading0).
Definition DivMod64 := divgen64 (fun q r => (q, r)).
Definition Div64 := divgen64 (fun q _ => q).
Definition Mod64 := divgen64 (fun _ r => r).

(* ---------------------------------------------------------------- Int128 (same representation, two's complement) *)
Definition isneg (i : w128) := SIGN <=? hi i.            (* i.hi & signBit != 0 *)
Definition MinI := mk SIGN 0.
Definition MaxI := mk (SIGN - 1) MAX64.
Definition From64 (n : Z) := mk (if n <? 0 then MAX64 else 0) (wrap n).    (* Int128From64, n an int64 value *)
Definition ISign (i : w128) : Z := if Z.lor (hi i) (lo i) =? 0 then 0 else if isneg i then -1 else 1.
Definition negmag (i : w128) : w128 :=                    (* the "hi = ^hi; lo = ^(lo-1); if lo == 0 { hi++ }" block *)
  let h := not64 (hi i) in let l := not64 (wrap (lo i - 1)) in mk (if l =? 0 then wrap (h + 1) else h) l.
Definition Neg (i : w128) : w128 :=
  if (Z.lor (hi i) (lo i) =? 0) || (Equal i MinI) then i
  else if isneg i then negmag i
  else let h := not64 (hi i) in let l := wrap (not64 (lo i) + 1) in mk (if l =? 0 then wrap (h + 1) else h) l.
Definition Abs (i : w128) : w128 := if isneg i then negmag i else i.
Definition AbsUint128 (i : w128) : w128 := if Equal i MinI then i else if isneg i then negmag i else i.
Definition same_sign (i n : w128) := Bool.eqb (isneg i) (isneg n).
Definition ugt (i n : w128) := (hi n <? hi i) || ((hi i =? hi n) && (lo n <? lo i)).
Definition ult (i n : w128) := (hi i <? hi n) || ((hi i =? hi n) && (lo i <? lo n)).
Definition ICmp (i n : w128) : Z :=
  if Equal i n then 0
  else if same_sign i n then (if ugt i n then 1 else -1)
  else if negb (isneg i) then 1 else -1.
Definition IGreaterThan (i n : w128) := if same_sign i n then ugt i n else negb (isneg i).
Definition IGreaterThanOrEqual (i n : w128) := if Equal i n then true else if same_sign i n then ugt i n else negb (isneg i).
Definition ILessThan (i n : w128) := if same_sign i n then ult i n else isneg i.
Definition ILessThanOrEqual (i n : w128) := if Equal i n then true else if same_sign i n then ult i n else isneg i.
Definition ICmp64 i n := ICmp i (From64 n).
Definition IGreaterThan64 i n := IGreaterThan i (From64 n).
Definition IGreaterThanOrEqual64 i n := IGreaterThanOrEqual i (From64 n).
Definition IEqual64 i n := Equal i (From64 n).
Definition ILessThan64 i n := ILessThan i (From64 n).
Definition ILessThanOrEqual64 i n := ILessThanOrEqual i (From64 n).
Definition IAdd64 (i : w128) (n : Z) :=
  let '(l, c) := add64 (lo i) (wrap n) 0 in
  let c := if n <? 0 then wrap (c + MAX64) else c in mk (wrap (hi i + c)) l.
Definition ISub64 (i : w128) (n : Z) :=
  let '(l, b) := sub64 (lo i) (wrap n) 0 in
  let h := wrap (hi i - b) in mk (if n <? 0 then wrap (h - MAX64) else h) l.
Definition IMul64 (i : w128) (n : Z) := Mul i (From64 n).
Definition rmap {A B} (f : A -> B) (r : res A) : res B := match r with Ok a => Ok (f a) | DivZero => DivZero | OutOfFuel => OutOfFuel end.
Definition IDivMod (i n : w128) : res (w128 * w128) :=
  let ineg := ILessThan i zero in let nneg := ILessThan n zero in
  let i' := if ineg then Neg i else i in let n' := if nneg then Neg n else n in
  rmap (fun qr => (if xorb ineg nneg then Neg (fst qr) else fst qr, if ineg then Neg (snd qr) else snd qr)) (DivMod i' n').
Definition IDiv (i n : w128) : res w128 :=
  let ineg := ILessThan i zero in let nneg := ILessThan n zero in
  let i' := if ineg then Neg i else i in let n' := if nneg then Neg n else n in
  rmap (fun q => if xorb ineg nneg then Neg q else q) (Div i' n').
Definition IMod (i n : w128) : res w128 := rmap snd (IDivMod i n).
Definition IDiv64 (i : w128) (n : Z) : res w128 :=
  let ineg := ILessThan i zero in let nneg := n <? 0 in
  let i' := if ineg then Neg i else i in
  let n' := if nneg then wrap (- n) else n in                 (* n = -n on int64, then uint64(n) *)
  rmap (fun q => if xorb ineg nneg then Neg q else q) (Div64 i' n').
Definition IDivMod64 (i : w128) (n : Z) := IDivMod i (From64 n).
Definition IMod64 (i : w128) (n : Z) : res w128 := rmap snd (IDivMod64 i n).
