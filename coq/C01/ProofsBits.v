(* C01 — bitwise operations, bit queries and shifts agree with the binary representation of uval *)
From Coq Require Import ZArith List Bool Lia.
From Verif Require Import common.Word64 common.Word64Facts C01.Model C01.ProofsArith.
Open Scope Z_scope.
Ltac Zify.zify_post_hook ::= Z.div_mod_to_equations.

Lemma W_pow : W = 2 ^ 64. Proof. reflexivity. Qed.
Lemma P128_pow : P128 = 2 ^ 128. Proof. reflexivity. Qed.

(* a 64-bit word is a non-negative number with no bit at or above 64 *)
Lemma w64_bits x : w64 x <-> 0 <= x /\ forall i, 64 <= i -> Z.testbit x i = false.
Proof.
  unfold w64. split.
  - intros [H0 H1]. split; [exact H0|]. intros i Hi. destruct (Z.eq_dec x 0) as [->|Hx]; [apply Z.bits_0|].
    apply Z.bits_above_log2; [lia|]. assert (Z.log2 x < 64) by (apply Z.log2_lt_pow2; lia). lia.
  - intros [H0 Hb]. split; [exact H0|]. destruct (Z_lt_le_dec x W) as [?|Hge]; [assumption|exfalso].
    assert (Hp : 0 < x) by lia. pose proof (Z.bit_log2 x Hp) as B.
    assert (64 <= Z.log2 x) by (apply Z.log2_le_pow2; lia). rewrite Hb in B by lia. discriminate.
Qed.

Lemma testbit_uval h l i : 0 <= h -> w64 l -> 0 <= i ->
  Z.testbit (h * W + l) i = if i <? 64 then Z.testbit l i else Z.testbit h (i - 64).
Proof.
  intros Hh Hl Hi. unfold w64 in Hl. destruct (i <? 64) eqn:E; [apply Z.ltb_lt in E | apply Z.ltb_ge in E].
  - rewrite <- (Z.mod_pow2_bits_low (h * W + l) 64 i) by lia. f_equal. rewrite <- W_pow. rewrite Z.add_comm, Z.mod_add by lia. apply Z.mod_small. lia.
  - replace i with ((i - 64) + 64) at 1 by lia. rewrite <- Z.div_pow2_bits by lia. f_equal. rewrite <- W_pow.
    rewrite Z.add_comm, Z.div_add by lia. rewrite Z.div_small by lia. lia.
Qed.
Lemma testbit_uval' u i : wf u -> 0 <= i ->
  Z.testbit (uval u) i = if i <? 64 then Z.testbit (lo u) i else Z.testbit (hi u) (i - 64).
Proof. intros [Hh Hl] Hi. apply testbit_uval; unfold w64; lia. Qed.

(* generic: a bitwise operation on the two halves is the operation on the values *)
Lemma bitwise_halves (op : Z -> Z -> Z) (f : bool -> bool -> bool) :
  (forall a b i, 0 <= i -> Z.testbit (op a b) i = f (Z.testbit a i) (Z.testbit b i)) ->
  (forall a b, 0 <= a -> 0 <= b -> 0 <= op a b) -> f false false = false ->
  forall u n, wf u -> wf n ->
  wf (mk (op (hi u) (hi n)) (op (lo u) (lo n))) /\ uval (mk (op (hi u) (hi n)) (op (lo u) (lo n))) = op (uval u) (uval n).
Proof.
  intros Hop Hnn Hff u n Hu Hn. pose proof Hu as [Hh Hl]. pose proof Hn as [Hh' Hl'].
  assert (Wop : forall a b, w64 a -> w64 b -> w64 (op a b)).
  { intros a b Ha Hb. apply w64_bits. apply w64_bits in Ha, Hb. destruct Ha as [Ha0 Ha], Hb as [Hb0 Hb].
    split; [apply Hnn; assumption|]. intros i Hi. rewrite Hop by lia. rewrite Ha, Hb by lia. exact Hff. }
  assert (WF : wf (mk (op (hi u) (hi n)) (op (lo u) (lo n)))) by (apply wf_mk; apply Wop; assumption).
  split; [exact WF|].
  apply Z.bits_inj'. intros i Hi. rewrite Hop by lia. rewrite !testbit_uval' by assumption. cbn [hi lo].
  destruct (i <? 64) eqn:E; [apply Z.ltb_lt in E | apply Z.ltb_ge in E]; rewrite Hop by lia; reflexivity.
Qed.

Theorem And_spec u n : wf u -> wf n -> wf (And u n) /\ uval (And u n) = Z.land (uval u) (uval n).
Proof. apply (bitwise_halves Z.land andb); [intros; apply Z.land_spec | intros; apply Z.land_nonneg; auto | reflexivity]. Qed.
Theorem Or_spec u n : wf u -> wf n -> wf (Or u n) /\ uval (Or u n) = Z.lor (uval u) (uval n).
Proof. apply (bitwise_halves Z.lor orb); [intros; apply Z.lor_spec | intros; apply Z.lor_nonneg; auto | reflexivity]. Qed.
Theorem Xor_spec u n : wf u -> wf n -> wf (Xor u n) /\ uval (Xor u n) = Z.lxor (uval u) (uval n).
Proof. apply (bitwise_halves Z.lxor xorb); [intros; apply Z.lxor_spec | intros; apply Z.lxor_nonneg; split; auto | reflexivity]. Qed.

(* x &^ y on words *)
Lemma not64_bits x i : w64 x -> 0 <= i -> Z.testbit (not64 x) i = (i <? 64) && negb (Z.testbit x i).
Proof.
  intros Hx Hi. unfold not64. change MAX64 with (Z.ones 64).
  rewrite Z.sub_nocarry_ldiff.
  - rewrite Z.ldiff_spec, Z.testbit_ones_nonneg by lia. reflexivity.
  - apply Z.bits_inj'. intros k Hk. rewrite Z.ldiff_spec, Z.bits_0, Z.testbit_ones_nonneg by lia.
    destruct (k <? 64) eqn:E; [apply andb_false_r|]. apply Z.ltb_ge in E. apply w64_bits in Hx. destruct Hx as [_ Hx]. rewrite Hx by lia. reflexivity.
Qed.
Lemma andnot64_ldiff x y : w64 x -> w64 y -> andnot64 x y = Z.ldiff x y.
Proof.
  intros Hx Hy. unfold andnot64. apply Z.bits_inj'. intros i Hi. rewrite Z.land_spec, Z.ldiff_spec, not64_bits by assumption.
  destruct (i <? 64) eqn:E; [reflexivity|]. apply Z.ltb_ge in E. apply w64_bits in Hx. destruct Hx as [_ Hx]. rewrite Hx by lia. reflexivity.
Qed.
Theorem AndNot_spec u n : wf u -> wf n -> wf (AndNot u n) /\ uval (AndNot u n) = Z.ldiff (uval u) (uval n).
Proof.
  intros Hu Hn. pose proof Hu as [Hh Hl]. pose proof Hn as [Hh' Hl']. unfold AndNot. rewrite !andnot64_ldiff by (unfold w64; lia).
  apply (bitwise_halves Z.ldiff (fun a b => a && negb b)); [intros; apply Z.ldiff_spec | intros; apply Z.ldiff_nonneg; auto | reflexivity | exact Hu | exact Hn].
Qed.
Theorem Not_spec u : wf u -> wf (Not u) /\ uval (Not u) = P128 - 1 - uval u.
Proof. intros [Hh Hl]. unfold Not, not64, wf, uval. cbn [hi lo]. lia. Qed.

Lemma uval_mk0 n : uval (mk 0 n) = n. Proof. unfold uval. cbn [hi lo]. lia. Qed.

(* the 64-bit-operand variants: the second operand is the word n (value n) *)
Theorem And64_spec u n : wf u -> w64 n -> wf (And64 u n) /\ uval (And64 u n) = Z.land (uval u) n.
Proof.
  intros Hu Hn. destruct (And_spec u (mk 0 n) Hu) as [WF E]; [apply wf_mk; unfold w64 in *; lia|].
  unfold And, And64 in *. cbn [hi lo] in *. rewrite Z.land_0_r in *. rewrite uval_mk0 in E. auto.
Qed.
Theorem Or64_spec u n : wf u -> w64 n -> wf (Or64 u n) /\ uval (Or64 u n) = Z.lor (uval u) n.
Proof.
  intros Hu Hn. destruct (Or_spec u (mk 0 n) Hu) as [WF E]; [apply wf_mk; unfold w64 in *; lia|].
  unfold Or, Or64 in *. cbn [hi lo] in *. rewrite Z.lor_0_r in *. rewrite uval_mk0 in E. auto.
Qed.
Theorem Xor64_spec u n : wf u -> w64 n -> wf (Xor64 u n) /\ uval (Xor64 u n) = Z.lxor (uval u) n.
Proof.
  intros Hu Hn. destruct (Xor_spec u (mk 0 n) Hu) as [WF E]; [apply wf_mk; unfold w64 in *; lia|].
  unfold Xor, Xor64 in *. cbn [hi lo] in *. rewrite Z.lxor_0_r in *. rewrite uval_mk0 in E. auto.
Qed.
Theorem AndNot64_spec u n : wf u -> wf n -> wf (AndNot64 u n) /\ uval (AndNot64 u n) = Z.ldiff (uval u) (lo n).
Proof.
  intros Hu [_ Hn]. destruct (AndNot_spec u (mk 0 (lo n)) Hu) as [WF E]; [apply wf_mk; unfold w64; lia|].
  pose proof Hu as [Hh Hl]. unfold AndNot, AndNot64 in *. cbn [hi lo] in *.
  assert (andnot64 (hi u) 0 = hi u) by (rewrite andnot64_ldiff by (unfold w64; lia); apply Z.ldiff_0_r).
  rewrite H in *. rewrite uval_mk0 in E. auto.
Qed.

(* ---------- Bit / SetBit ---------- *)
Lemma land1_b2z a : Z.land a 1 = Z.b2z (Z.odd a).
Proof. change 1 with (Z.ones 1). rewrite Z.land_ones by lia. change (2 ^ 1) with 2. rewrite Zmod_odd. destruct (Z.odd a); reflexivity. Qed.
Lemma shr_testbit x i : 0 <= i < 64 -> Z.land (shr x i) 1 = Z.b2z (Z.testbit x i).
Proof. intro Hi. unfold shr. rewrite (proj2 (Z.ltb_lt i 64)) by lia. rewrite land1_b2z, Z.testbit_odd, Z.shiftr_div_pow2 by lia. reflexivity. Qed.

Theorem Bit_spec u i : wf u -> Bit u i = if (0 <=? i) && (i <=? 127) then Z.b2z (Z.testbit (uval u) i) else 0.
Proof.
  intro Hu. unfold Bit. destruct (Z.ltb_spec i 0); cbn [orb]; [rewrite (proj2 (Z.leb_gt 0 i)) by lia; reflexivity|].
  rewrite (proj2 (Z.leb_le 0 i)) by lia. destruct (Z.ltb_spec 127 i); cbn [andb]; [rewrite (proj2 (Z.leb_gt i 127)) by lia; reflexivity|].
  rewrite (proj2 (Z.leb_le i 127)) by lia. rewrite testbit_uval' by (auto; lia).
  destruct (Z.ltb_spec i 64); apply shr_testbit; lia.
Qed.

Lemma shl1 k : 0 <= k < 64 -> shl 1 k = 2 ^ k.
Proof. intro Hk. unfold shl, wrap. rewrite (proj2 (Z.ltb_lt k 64)) by lia. rewrite Z.mul_1_l. apply Z.mod_small. split; [apply Z.pow_nonneg; lia|]. rewrite W_pow. apply Z.pow_lt_mono_r; lia. Qed.
Lemma pow2_w64 k : 0 <= k < 64 -> w64 (2 ^ k).
Proof. intro Hk. unfold w64. split; [apply Z.pow_nonneg; lia|]. rewrite W_pow. apply Z.pow_lt_mono_r; lia. Qed.
Lemma uval_mkhi h : uval (mk h 0) = h * W. Proof. unfold uval. cbn [hi lo]. lia. Qed.

Theorem SetBit_spec u i : wf u ->
  (0 <= i <= 127 -> (wf (SetBit u i 1) /\ uval (SetBit u i 1) = Z.lor (uval u) (2 ^ i)) /\
                    (wf (SetBit u i 0) /\ uval (SetBit u i 0) = Z.ldiff (uval u) (2 ^ i))) /\
  (i < 0 \/ 127 < i -> forall b, SetBit u i b = u).
Proof.
  intro Hu. split.
  - intro Hi. unfold SetBit. rewrite (proj2 (Z.ltb_ge i 0)), (proj2 (Z.ltb_ge 127 i)) by lia. cbn [orb]. change (1 =? 0) with false. change (0 =? 0) with true. cbv iota.
    pose proof Hu as [Hh Hl].
    destruct (Z.leb_spec 64 i).
    + rewrite shl1 by lia. assert (P : 2 ^ i = uval (mk (2 ^ (i - 64)) 0)).
      { rewrite uval_mkhi, W_pow, <- Z.pow_add_r by lia. f_equal. lia. }
      assert (WFp : wf (mk (2 ^ (i - 64)) 0)) by (apply wf_mk; [apply pow2_w64; lia | unfold w64; lia]).
      rewrite P. split.
      * destruct (Or_spec u _ Hu WFp) as [A B]. unfold Or in *. cbn [hi lo] in *. rewrite Z.lor_0_r in *. auto.
      * destruct (AndNot_spec u _ Hu WFp) as [A B]. unfold AndNot in *. cbn [hi lo] in *.
        assert (andnot64 (lo u) 0 = lo u) by (rewrite andnot64_ldiff by (unfold w64; lia); apply Z.ldiff_0_r). rewrite H0 in *. auto.
    + rewrite shl1 by lia. assert (P : 2 ^ i = uval (mk 0 (2 ^ i))) by (rewrite uval_mk0; reflexivity).
      assert (WFp : wf (mk 0 (2 ^ i))) by (apply wf_mk; [unfold w64; lia | apply pow2_w64; lia]).
      rewrite P. split.
      * destruct (Or_spec u _ Hu WFp) as [A B]. unfold Or in *. cbn [hi lo] in *. rewrite Z.lor_0_r in *. auto.
      * destruct (AndNot_spec u _ Hu WFp) as [A B]. unfold AndNot in *. cbn [hi lo] in *.
        assert (andnot64 (hi u) 0 = hi u) by (rewrite andnot64_ldiff by (unfold w64; lia); apply Z.ldiff_0_r). rewrite H0 in *. auto.
  - intros Hi b. unfold SetBit. destruct Hi; [rewrite (proj2 (Z.ltb_lt i 0)) by lia | rewrite (proj2 (Z.ltb_lt 127 i)) by lia; rewrite orb_true_r]; reflexivity.
Qed.

(* ---------- BitLen / LeadingZeros ---------- *)
Lemma log2_uval h l : 0 < h -> w64 l -> Z.log2 (h * W + l) = Z.log2 h + 64.
Proof.
  intros Hh Hl. unfold w64 in Hl. pose proof (Z.log2_spec h Hh) as [A B]. pose proof (Z.log2_nonneg h).
  apply Z.log2_unique; [lia|]. rewrite Z.pow_add_r by lia. replace (Z.succ (Z.log2 h + 64)) with (Z.succ (Z.log2 h) + 64) by lia.
  rewrite Z.pow_add_r by lia. rewrite <- W_pow. nia.
Qed.
Theorem BitLen_spec u : wf u -> BitLen u = if uval u =? 0 then 0 else Z.log2 (uval u) + 1.
Proof.
  intros [Hh Hl]. unfold BitLen, len64, uval. destruct (Z.eqb_spec (hi u) 0) as [E|E]; cbn [negb].
  - rewrite E. cbn [Z.mul Z.add]. reflexivity.
  - rewrite (proj2 (Z.eqb_neq (hi u * W + lo u) 0)) by lia. rewrite log2_uval by (unfold w64; lia). lia.
Qed.
Theorem LeadingZeros_spec u : wf u -> LeadingZeros u = 128 - BitLen u.
Proof. intros [Hh Hl]. unfold LeadingZeros, BitLen, lz64. destruct (Z.eqb_spec (hi u) 0); cbn [negb]; lia. Qed.
Lemma BitLen_range u : wf u -> 0 <= BitLen u <= 128.
Proof.
  intro Hu. rewrite BitLen_spec by exact Hu. pose proof (uval_range u Hu). destruct (Z.eqb_spec (uval u) 0); [lia|].
  assert (Z.log2 (uval u) < 128) by (apply Z.log2_lt_pow2; [lia | rewrite <- P128_pow; lia]). pose proof (Z.log2_nonneg (uval u)). lia.
Qed.

(* ---------- TrailingZeros ---------- *)
Definition is_tz (v k : Z) : Prop := Z.testbit v k = true /\ forall j, 0 <= j < k -> Z.testbit v j = false.
Lemma tz_aux_spec : forall fuel x acc, 0 < x < 2 ^ Z.of_nat fuel ->
  let k := tz_aux fuel x acc - acc in 0 <= k < Z.of_nat fuel /\ is_tz x k.
Proof.
  induction fuel as [|f IH]; intros x acc Hx; [cbn in Hx; lia|]. cbn [tz_aux]. destruct (Z.odd x) eqn:Eo.
  - replace (acc - acc) with 0 by lia. split; [lia|]. split; [rewrite Z.bit0_odd; exact Eo | intros j Hj; lia].
  - assert (Hx2 : 0 < x / 2 < 2 ^ Z.of_nat f).
    { rewrite Nat2Z.inj_succ, Z.pow_succ_r in Hx by lia. assert (x <> 1) by (intro; subst; discriminate).
      rewrite (Z.div2_odd x) in Hx. rewrite Eo in Hx. cbn [Z.b2z] in Hx. rewrite <- Z.div2_div. lia. }
    specialize (IH (x / 2) (acc + 1) Hx2). cbv zeta in IH. destruct IH as [R [T1 T2]].
    set (k' := tz_aux f (x / 2) (acc + 1) - (acc + 1)) in *.
    replace (tz_aux f (x / 2) (acc + 1) - acc) with (Z.succ k') by (unfold k'; lia).
    split; [lia|]. split.
    + rewrite <- Z.div2_bits by lia. exact T1.
    + intros j Hj. destruct (Z.eq_dec j 0) as [->|Hj0]; [rewrite Z.bit0_odd; exact Eo|].
      replace j with (Z.succ (j - 1)) by lia. rewrite <- Z.div2_bits by lia. apply T2. lia.
Qed.
Lemma tz64_spec x : w64 x -> x <> 0 -> 0 <= tz64 x < 64 /\ is_tz x (tz64 x).
Proof.
  intros Hx Hn. unfold tz64. rewrite (proj2 (Z.eqb_neq x 0)) by exact Hn. unfold w64 in Hx.
  pose proof (tz_aux_spec 64 x 0 ltac:(change (2 ^ Z.of_nat 64) with W; lia)) as H. cbv zeta in H. rewrite Z.sub_0_r in H. exact H.
Qed.
Theorem TrailingZeros_spec u : wf u ->
  (uval u = 0 -> TrailingZeros u = 128) /\ (uval u <> 0 -> 0 <= TrailingZeros u < 128 /\ is_tz (uval u) (TrailingZeros u)).
Proof.
  intros Hu. pose proof Hu as [Hh Hl]. unfold TrailingZeros. split.
  - intro E. unfold uval in E. assert (hi u = 0 /\ lo u = 0) as [-> ->] by lia. reflexivity.
  - intro Hn. destruct (Z.eqb_spec (lo u) 0) as [E|E].
    + assert (Hhn : hi u <> 0) by (unfold uval in Hn; lia).
      destruct (tz64_spec (hi u) ltac:(unfold w64; lia) Hhn) as [R [T1 T2]]. split; [lia|]. split.
      * rewrite testbit_uval' by (auto; lia). rewrite (proj2 (Z.ltb_ge _ 64)) by lia. replace (tz64 (hi u) + 64 - 64) with (tz64 (hi u)) by lia. exact T1.
      * intros j Hj. rewrite testbit_uval' by (auto; lia). destruct (Z.ltb_spec j 64); [rewrite E; apply Z.bits_0 | apply T2; lia].
    + destruct (tz64_spec (lo u) ltac:(unfold w64; lia) E) as [R [T1 T2]]. split; [lia|]. split.
      * rewrite testbit_uval' by (auto; lia). rewrite (proj2 (Z.ltb_lt _ 64)) by lia. exact T1.
      * intros j Hj. rewrite testbit_uval' by (auto; lia). rewrite (proj2 (Z.ltb_lt j 64)) by lia. apply T2. lia.
Qed.

(* ---------- OnesCount ---------- *)
Definition bitsum (v : Z) (from : nat) (n : nat) : Z := fold_right Z.add 0 (map (fun i => Z.b2z (Z.testbit v (Z.of_nat i))) (seq from n)).
Lemma pop_aux_spec : forall n x, pop_aux n x = bitsum x 0 n.
Proof.
  unfold bitsum. induction n as [|n IH]; intro x; [reflexivity|]. cbn [pop_aux seq map fold_right].
  rewrite <- Z.bit0_odd. change (Z.of_nat 0) with 0. destruct (Z.testbit x 0); cbn [Z.b2z]; f_equal; rewrite IH;
  rewrite <- seq_shift, map_map; f_equal; apply map_ext; intro i; rewrite Nat2Z.inj_succ, <- Z.div2_bits by lia; reflexivity.
Qed.
Lemma bitsum_app v a n m : bitsum v a (n + m) = bitsum v a n + bitsum v (a + n) m.
Proof.
  unfold bitsum. rewrite seq_app, map_app. induction (map (fun i => Z.b2z (Z.testbit v (Z.of_nat i))) (seq a n)) as [|y l IH]; cbn [app fold_right]; lia.
Qed.
Theorem OnesCount_spec u : wf u -> OnesCount u = bitsum (uval u) 0 128.
Proof.
  intro Hu. unfold OnesCount, pop64. rewrite !pop_aux_spec. change 128%nat with (64 + 64)%nat. rewrite bitsum_app.
  rewrite Z.add_comm. f_equal; unfold bitsum; f_equal.
  - apply map_ext_in. intros i Hi. apply in_seq in Hi. rewrite testbit_uval' by (auto; lia). rewrite (proj2 (Z.ltb_lt _ 64)) by lia. reflexivity.
  - change (0 + 64)%nat with 64%nat.
    assert (S64 : forall n, seq 64 n = map (fun i => (i + 64)%nat) (seq 0 n)).
    { induction n as [|n IHn]; [reflexivity|]. rewrite seq_S, IHn, seq_S, map_app. cbn [map]. do 2 f_equal. lia. }
    rewrite S64, map_map. apply map_ext_in. intros i Hi. apply in_seq in Hi.
    rewrite testbit_uval' by (auto; lia). rewrite (proj2 (Z.ltb_ge _ 64)) by lia. do 2 f_equal. lia.
Qed.
