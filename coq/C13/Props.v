(* C13 — property theorems only. Each is closed by [exact] of a lemma from Proofs.v and followed by Print Assumptions. *)
From Coq Require Import ZArith List Bool Arith.
From Verif Require Import C13.Model C13.Proofs.
Import ListNotations.
Open Scope Z_scope.

(* The line of a record: level tag, timestamp, message, then - after one " |" if there is anything - every leaf attribute of the
   handler's derivation chain and of the record exactly once, in order, each as " <groups in force><key>=<value>", empty groups
   and the empty attribute omitted; for every chain and every attribute tree in which no group consists of vanishing members only *)
Theorem C13_line_is_header_plus_every_leaf_once : forall h level msg attrs, forallb solid_entry h = true -> solid_attrs attrs = true ->
  render h level msg attrs = level_name level ++ header_time ++ msg ++ added true (line_leaves h attrs) ++ [10].
Proof. exact render_spec. Qed.
Print Assumptions C13_line_is_header_plus_every_leaf_once.

(* one attribute in any state of the renderer *)
Theorem C13_attribute_rendering : forall fuel s a, solid fuel a = true ->
  append_attr fuel s a = {| buf := buf s ++ added (needBar s) (flat fuel (group s) a); group := group s; needBar := still (needBar s) (flat fuel (group s) a) |}.
Proof. exact append_attr_spec. Qed.
Print Assumptions C13_attribute_rendering.

(* WithGroup / WithAttrs extend a copy: the parent's list is a prefix of the child's and is itself unchanged *)
Theorem C13_derivation_keeps_parent : forall h g l, firstn (length h) (with_group h g) = h /\ firstn (length h) (with_attrs h l) = h.
Proof. exact derive_keeps_parent. Qed.
Print Assumptions C13_derivation_keeps_parent.

(* Buffered mode, any interleaving of Handle calls and deliveries: what was written followed by what is queued is a subsequence, in
   order, of the records handled (whole records: the elements are the complete byte strings), so nothing is torn, duplicated or
   reordered; and the queue never exceeds its depth (Handle never waits for room) *)
Theorem C13_buffered_writes_are_a_subsequence : forall cap h ops b0, queue b0 = [] -> written b0 = [] ->
  let b := fold_left (bstep cap h) ops b0 in
  subseq (written b ++ queue b) (handled h ops) /\ (length (queue b) <= cap)%nat.
Proof. exact buffered_writes_subsequence. Qed.
Print Assumptions C13_buffered_writes_are_a_subsequence.

(* multilog: one delivery flag per child, set exactly for the children enabled for the record's level; the result is nil exactly
   when every enabled child succeeded (a failing or panicking child does not stop the others) *)
Theorem C13_multilog_delivers_once_to_every_enabled_child : forall cs r,
  length (fst (multi_handle cs r)) = length cs /\
  (forall i c, nth_error cs i = Some c -> nth_error (fst (multi_handle cs r)) i = Some (enabled (c_min c) r)) /\
  (snd (multi_handle cs r) = false <-> forall c, In c cs -> enabled (c_min c) r = true -> c_beh c = BOk).
Proof. exact multi_handle_spec. Qed.
Print Assumptions C13_multilog_delivers_once_to_every_enabled_child.

Module NonVacuous.
  (* handler: WithGroup "req", WithAttrs [id=7]; record: user="a b", g{ x=true, empty group, k{ n=<nil> } } *)
  Definition h := [EGroup [114;101;113]; EAttrs [([105;100], VInt 7)]].
  Definition attrs := [([117;115;101;114], VStr [97;32;98]); ([103], VGroup [([120], VBool true); ([101], VGroup []); ([107], VGroup [([110], VNil)])])].
  Example solid_here : forallb solid_entry h = true /\ solid_attrs attrs = true. Proof. split; vm_compute; reflexivity. Qed.
  Example the_line : render h 4 [104;105] attrs =
    (* WRN | 2024-03-09 | 10:11:12.123 | hi | req.id=7 req.user="a b" req.g.x=true req.g.k.n=<nil>\n *)
    [87;82;78] ++ header_time ++ [104;105;32;124;32;114;101;113;46;105;100;61;55;32;114;101;113;46;117;115;101;114;61;34;97;32;98;34;32;114;101;113;46;103;46;120;61;116;114;117;101;32;114;101;113;46;103;46;107;46;110;61;60;110;105;108;62;10].
  Proof. vm_compute. reflexivity. Qed.
End NonVacuous.
