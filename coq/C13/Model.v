(* C13 — executable model of log/tracelog (line rendering, derivation, synchronous and buffered delivery) and log/multilog
   (fan-out). Strings are byte lists. Attribute values: string (strconv.Quote on printable ASCII), int, bool, time (the harness
   uses one fixed instant: a constant text), nil (slog.Any(nil)), group. A record carrying an errs stack is rendered as its
   line followed by the stack block, which the harness replaces by one token. No proofs here. *)
From Coq Require Import ZArith List Bool Arith.
Import ListNotations.
Open Scope Z_scope.
Definition str := list Z.
Inductive value := VStr (s : str) | VInt (z : Z) | VBool (b : bool) | VTime | VNil | VGroup (l : list (str * value)).
Definition attr := (str * value)%type.
Inductive entry := EGroup (g : str) | EAttrs (l : list attr).

Fixpoint digits (fuel : nat) (n : Z) (acc : str) : str :=
  match fuel with O => acc | S f => if n <? 10 then (48 + n) :: acc else digits f (n / 10) ((48 + n mod 10) :: acc) end.
Definition dec (z : Z) : str := if z <? 0 then 45 :: digits 40 (- z) [] else digits 40 z [].
Definition quote (s : str) : str := 34 :: flat_map (fun c => if (c =? 34) || (c =? 92) then [92; c] else [c]) s ++ [34].
Definition time_text : str := [50;48;50;52;45;48;51;45;48;57;84;49;48;58;49;49;58;49;50;46;49;50;51;52;53;54;55;56;57;90]. (* 2024-03-09T10:11:12.123456789Z *)
Definition header_time : str := [32;124;32;50;48;50;52;45;48;51;45;48;57;32;124;32;49;48;58;49;49;58;49;50;46;49;50;51;32;124;32]. (* " | 2024-03-09 | 10:11:12.123 | " *)
Definition nil_text : str := [60;110;105;108;62].
Definition true_text : str := [116;114;117;101].
Definition false_text : str := [102;97;108;115;101].
Definition scalar_text (v : value) : str :=
  match v with VStr x => quote x | VInt z => dec z | VBool b => if b then true_text else false_text | VTime => time_text | VNil => nil_text | VGroup _ => [] end.

Record st := { buf : str; group : str; needBar : bool }.
Definition bar (s : st) := if needBar s then {| buf := buf s ++ [32; 124]; group := group s; needBar := false |} else s.
Definition wkey (s : st) (k : str) := {| buf := buf s ++ [32] ++ group s ++ k ++ [61]; group := group s; needBar := needBar s |}.
Definition emit (s : st) (x : str) := {| buf := buf s ++ x; group := group s; needBar := needBar s |}.
Definition add_group (s : st) (g : str) := {| buf := buf s; group := group s ++ g ++ [46]; needBar := needBar s |}.
(* slog.Attr{}: empty key and the zero Value, which is KindAny(nil) *)
Definition is_empty_attr (k : str) (v : value) := match k, v with [], VNil => true | _, _ => false end.

Fixpoint append_attr (fuel : nat) (s : st) (a : attr) : st :=
  match fuel with O => s | S f =>
  let '(k, v) := a in
  if is_empty_attr k v then s else
  match v with
  | VGroup l => match l with
                | [] => s
                | _ => let s1 := bar s in
                       let s2 := fold_left (append_attr f) l (add_group s1 k) in
                       {| buf := buf s2; group := group s1; needBar := needBar s2 |}
                end
  | _ => emit (wkey (bar s) k) (scalar_text v)
  end end.

Definition level_name (l : Z) : str :=
  if l =? -4 then [68;66;71] else if l =? 0 then [73;78;70] else if l =? 4 then [87;82;78] else if l =? 8 then [69;82;82]
  else let d := dec l in repeat 32 (3 - length d) ++ d.
Definition DEPTH := 24%nat.
Definition apply_entry (s : st) (e : entry) : st := match e with EGroup g => add_group s g | EAttrs l => fold_left (append_attr DEPTH) l s end.
Definition render (hlist : list entry) (level : Z) (msg : str) (attrs : list attr) : str :=
  let s0 := {| buf := level_name level ++ header_time ++ msg; group := []; needBar := true |} in
  let s1 := fold_left apply_entry hlist s0 in
  let s2 := fold_left (append_attr DEPTH) attrs s1 in
  buf s2 ++ [10].
(* derivation returns a new handler; WithGroup "" and WithAttrs [] return the handler itself *)
Definition with_group (h : list entry) (g : str) := match g with [] => h | _ => h ++ [EGroup g] end.
Definition with_attrs (h : list entry) (l : list attr) := match l with [] => h | _ => h ++ [EAttrs l] end.

(* ---- delivery *)
Record record := { r_level : Z; r_msg : str; r_attrs : list attr; r_stack : bool }.
Definition STACK : str := [60;83;84;65;67;75;62;10].   (* "<STACK>\n": the harness puts this token in place of the stack block *)
Definition bytes_of (h : list entry) (r : record) : str := render h (r_level r) (r_msg r) (r_attrs r) ++ (if r_stack r then STACK else []).
Definition enabled (min : Z) (r : record) : bool := min <=? r_level r.
(* synchronous handler: one Write per handled record; Handle returns the sink's verdict *)
Definition handle_sync (h : list entry) (sink_fails : bool) (r : record) : list str * bool := ([bytes_of h r], sink_fails).
(* buffered handler: a bounded queue; Handle never blocks and always reports success; [deliver] is the background goroutine *)
Record bstate := { queue : list str; written : list str }.
Definition handle_buffered (cap : nat) (h : list entry) (b : bstate) (r : record) : bstate :=
  if (length (queue b) <? cap)%nat then {| queue := queue b ++ [bytes_of h r]; written := written b |} else b.
Definition deliver (b : bstate) : bstate := match queue b with [] => b | x :: q => {| queue := q; written := written b ++ [x] |} end.

(* ---- multilog: children with a minimum level and a behaviour *)
Inductive behaviour := BOk | BFail | BPanic.
Record child := { c_min : Z; c_beh : behaviour }.
(* per child: whether it was handed the record; the result: true = error returned *)
Definition multi_handle (cs : list child) (r : record) : list bool * bool :=
  (map (fun c => enabled (c_min c) r) cs, existsb (fun c => enabled (c_min c) r && match c_beh c with BOk => false | _ => true end) cs).
Definition multi_enabled (cs : list child) (level : Z) : bool := existsb (fun c => c_min c <=? level) cs.
