(* C13 — lemmas: the rendering state machine produces exactly the flattened attribute list (each leaf once, prefixed by the groups in
   force, empty groups and the empty attribute omitted, the " |" separator once before the first), derivation leaves the parent's
   list alone, buffered delivery writes a subsequence of the handled records in order, multilog hands the record to every enabled child once. *)
From Coq Require Import ZArith List Bool Arith Lia.
From Verif Require Import C13.Model.
Import ListNotations.
Open Scope Z_scope.

(* ---- the declarative reading of an attribute list: leaves with their full keys *)
Fixpoint flat (fuel : nat) (prefix : str) (a : attr) : list (str * str) :=
  match fuel with O => [] | S f =>
  let '(k, v) := a in
  if is_empty_attr k v then [] else
  match v with
  | VGroup l => flat_map (flat f (prefix ++ k ++ [46])) l
  | _ => [(prefix ++ k, scalar_text v)]
  end end.
(* does the attribute contribute a leaf at all (independent of the prefix) *)
Fixpoint has_leaf (fuel : nat) (a : attr) : bool :=
  match fuel with O => false | S f =>
  let '(k, v) := a in
  if is_empty_attr k v then false else
  match v with VGroup l => existsb (has_leaf f) l | _ => true end end.
(* solid: every non-empty group below has a leaf somewhere inside (a group of nothing but vanishing members is not solid) *)
Fixpoint solid (fuel : nat) (a : attr) : bool :=
  match fuel with O => true | S f =>
  match snd a with VGroup l => (match l with [] => true | _ => existsb (has_leaf f) l end) && forallb (solid f) l | _ => true end end.

Lemma flat_nil_iff : forall fuel p a, flat fuel p a = [] <-> has_leaf fuel a = false.
Proof.
  induction fuel as [|f IH]; intros p [k v]; cbn [flat has_leaf]; [tauto|].
  destruct (is_empty_attr k v); [tauto|]. destruct v as [x|z|b| | |l]; try (split; discriminate).
  induction l as [|a l IHl]; cbn [flat_map existsb]; [tauto|]. split.
  - intro H. apply app_eq_nil in H. destruct H as [H1 H2]. apply IH in H1. apply IHl in H2. rewrite H1, H2. reflexivity.
  - intro H. apply orb_false_iff in H. destruct H as [H1 H2]. apply (IH (p ++ k ++ [46])) in H1. apply IHl in H2. rewrite H1, H2. reflexivity.
Qed.

Definition piece (p : str * str) : str := [32] ++ fst p ++ [61] ++ snd p.
Definition pieces (l : list (str * str)) : str := flat_map piece l.
Definition added (need : bool) (l : list (str * str)) : str := match l with [] => [] | _ => (if need then [32; 124] else []) ++ pieces l end.
Definition still (need : bool) (l : list (str * str)) : bool := match l with [] => need | _ => false end.

Lemma added_app need a b : added need (a ++ b) = added need a ++ added (still need a) b.
Proof.
  destruct a as [|x a]; [reflexivity|]. cbn [app added still]. destruct b as [|y b]; [cbn [added]; rewrite !app_nil_r; reflexivity|].
  cbn [added]. unfold pieces. rewrite <- app_assoc. f_equal. cbn [flat_map app]. rewrite <- app_assoc. f_equal. rewrite flat_map_app. reflexivity.
Qed.
Lemma still_app need a b : still need (a ++ b) = still (still need a) b.
Proof. destruct a; [reflexivity|]. cbn. destruct b; reflexivity. Qed.
Lemma st_eta s : {| buf := buf s ++ []; group := group s; needBar := needBar s |} = s.
Proof. rewrite app_nil_r. destruct s; reflexivity. Qed.

Lemma append_attr_spec : forall fuel s a, solid fuel a = true ->
  append_attr fuel s a = {| buf := buf s ++ added (needBar s) (flat fuel (group s) a); group := group s; needBar := still (needBar s) (flat fuel (group s) a) |}.
Proof.
  induction fuel as [|f IH]; intros s [k v] Hs; cbn [append_attr flat].
  - cbn. symmetry. apply st_eta.
  - destruct (is_empty_attr k v); [cbn; symmetry; apply st_eta|].
    assert (Scalar : forall v', emit (wkey (bar s) k) (scalar_text v') =
       {| buf := buf s ++ added (needBar s) [(group s ++ k, scalar_text v')]; group := group s; needBar := still (needBar s) [(group s ++ k, scalar_text v')] |}).
    { intro v'. destruct s as [sb sg [|]]; unfold emit, wkey, bar; cbn [added still buf group needBar]; unfold pieces, piece; cbn [flat_map fst snd buf group needBar]; f_equal;
        rewrite ?app_nil_r; repeat rewrite <- app_assoc; cbn [app]; repeat rewrite <- app_assoc; reflexivity. }
    destruct v as [x|z|b| | |l]; try apply Scalar.
    cbn [solid snd] in Hs. apply andb_prop in Hs. destruct Hs as [Hleaf Hall].
    destruct l as [|a0 l0]; [cbn; symmetry; apply st_eta|].
    set (l := a0 :: l0) in *.
    assert (F : forall l1 s0, forallb (solid f) l1 = true -> fold_left (append_attr f) l1 s0 =
              {| buf := buf s0 ++ added (needBar s0) (flat_map (flat f (group s0)) l1); group := group s0; needBar := still (needBar s0) (flat_map (flat f (group s0)) l1) |}).
    { induction l1 as [|a1 l1 IHl]; intros s0 Ha; cbn [fold_left flat_map].
      - cbn. symmetry. apply st_eta.
      - cbn [forallb] in Ha. apply andb_prop in Ha. destruct Ha as [Ha1 Ha2].
        rewrite IH by exact Ha1. rewrite IHl by exact Ha2. cbn [buf group needBar]. rewrite added_app, still_app, app_assoc. reflexivity. }
    rewrite F by exact Hall. clear Scalar F. destruct s as [sb sg nb]. unfold add_group, bar. cbn [buf group needBar].
    assert (NE : flat_map (flat f (sg ++ k ++ [46])) l <> []).
    { intro E. apply existsb_exists in Hleaf. destruct Hleaf as (a & Hin & Ha).
      assert (flat f (sg ++ k ++ [46]) a = []).
      { clear - E Hin. induction l as [|y l IHl]; [contradiction|]. cbn [flat_map] in E. apply app_eq_nil in E. destruct E as [E1 E2].
        destruct Hin as [->|Hin]; [exact E1|apply IHl; assumption]. }
      apply flat_nil_iff in H. congruence. }
    destruct nb; cbn [buf group needBar]; destruct (flat_map (flat f (sg ++ k ++ [46])) l) as [|p ps] eqn:E; try congruence;
      cbn [added still]; f_equal; repeat rewrite <- app_assoc; reflexivity.
Qed.

(* a handler entry, a list of attributes *)
Opaque DEPTH.
Definition solid_attrs (l : list attr) : bool := forallb (solid DEPTH) l.
Lemma attrs_spec : forall l s, solid_attrs l = true ->
  fold_left (append_attr DEPTH) l s =
  {| buf := buf s ++ added (needBar s) (flat_map (flat DEPTH (group s)) l); group := group s; needBar := still (needBar s) (flat_map (flat DEPTH (group s)) l) |}.
Proof.
  unfold solid_attrs. generalize DEPTH. intro d.
  induction l as [|a l IH]; intros s H; cbn [fold_left flat_map].
  - cbn [added still]. symmetry. apply st_eta.
  - cbn [forallb] in H. apply andb_prop in H. destruct H as [H1 H2].
    rewrite append_attr_spec by exact H1. rewrite IH by exact H2. cbn [buf group needBar]. rewrite added_app, still_app, app_assoc. reflexivity.
Qed.

(* the leaves a handler's derivation list contributes, and the prefix it leaves in force *)
Fixpoint chain_leaves (prefix : str) (h : list entry) : list (str * str) * str :=
  match h with
  | [] => ([], prefix)
  | EGroup g :: r => chain_leaves (prefix ++ g ++ [46]) r
  | EAttrs l :: r => let '(ls, p) := chain_leaves prefix r in (flat_map (flat DEPTH prefix) l ++ ls, p)
  end.
Definition solid_entry (e : entry) : bool := match e with EGroup _ => true | EAttrs l => solid_attrs l end.

Lemma chain_spec : forall h s, forallb solid_entry h = true ->
  fold_left apply_entry h s =
  {| buf := buf s ++ added (needBar s) (fst (chain_leaves (group s) h)); group := snd (chain_leaves (group s) h); needBar := still (needBar s) (fst (chain_leaves (group s) h)) |}.
Proof.
  induction h as [|e h IH]; intros s H; cbn [fold_left chain_leaves].
  - cbn [fst snd added still]. symmetry. apply st_eta.
  - cbn [forallb] in H. apply andb_prop in H. destruct H as [H1 H2]. destruct e as [g|l]; cbn [apply_entry].
    + rewrite IH by exact H2. unfold add_group. cbn [buf group needBar]. reflexivity.
    + cbn [solid_entry] in H1. rewrite attrs_spec by exact H1. rewrite IH by exact H2. cbn [buf group needBar].
      destruct (chain_leaves (group s) h) as [ls p]. cbn [fst snd]. rewrite added_app, still_app, app_assoc. reflexivity.
Qed.

(* the whole line *)
Definition line_leaves (h : list entry) (attrs : list attr) : list (str * str) :=
  fst (chain_leaves [] h) ++ flat_map (flat DEPTH (snd (chain_leaves [] h))) attrs.
Theorem render_spec h level msg attrs : forallb solid_entry h = true -> solid_attrs attrs = true ->
  render h level msg attrs = level_name level ++ header_time ++ msg ++ added true (line_leaves h attrs) ++ [10].
Proof.
  intros Hh Ha. unfold render. rewrite chain_spec by exact Hh. cbn [buf group needBar]. rewrite attrs_spec by exact Ha. cbn [buf group needBar].
  unfold line_leaves. rewrite added_app. repeat rewrite <- app_assoc. reflexivity.
Qed.

Transparent DEPTH.
(* a group of nothing but vanishing members still consumes the separator: the one place where the line is not the flat reading *)
Example group_of_nothing_leaves_a_dangling_bar :
  render [] 0 [109] [([103], VGroup [([], VNil)])] = level_name 0 ++ header_time ++ [109] ++ [32; 124] ++ [10]
  /\ line_leaves [] [([103], VGroup [([], VNil)])] = [].
Proof. split; vm_compute; reflexivity. Qed.

(* ---- derivation never touches the parent's list *)
Theorem derive_keeps_parent h g l : firstn (length h) (with_group h g) = h /\ firstn (length h) (with_attrs h l) = h.
Proof.
  split; [destruct g|destruct l]; cbn [with_group with_attrs]; rewrite ?firstn_all; try reflexivity;
    rewrite firstn_app, Nat.sub_diag, firstn_all; cbn; apply app_nil_r.
Qed.

(* ---- buffered delivery: what reaches the sink is, in order, a prefix of what was accepted; accepted = handled minus drops *)
Inductive bop := BHandle (r : record) | BDeliver.
Definition bstep (cap : nat) (h : list entry) (b : bstate) (o : bop) : bstate := match o with BHandle r => handle_buffered cap h b r | BDeliver => deliver b end.
Fixpoint handled (h : list entry) (ops : list bop) : list str := match ops with [] => [] | BHandle r :: t => bytes_of h r :: handled h t | BDeliver :: t => handled h t end.
Inductive subseq {A} : list A -> list A -> Prop :=
| sub_nil : subseq [] []
| sub_keep x a b : subseq a b -> subseq (x :: a) (x :: b)
| sub_drop x a b : subseq a b -> subseq a (x :: b).
Lemma subseq_app_r {A} (a b : list A) x : subseq a b -> subseq (a ++ [x]) (b ++ [x]).
Proof. induction 1; cbn; [repeat constructor|constructor; assumption|constructor; assumption]. Qed.
Lemma subseq_app_drop {A} (a b : list A) x : subseq a b -> subseq a (b ++ [x]).
Proof. induction 1; cbn; [repeat constructor|constructor; assumption|constructor; assumption]. Qed.
Lemma handled_app h a b : handled h (a ++ b) = handled h a ++ handled h b.
Proof. induction a as [|[r|] a IH]; cbn; [reflexivity|rewrite IH; reflexivity|exact IH]. Qed.
Theorem buffered_writes_subsequence cap h : forall ops b0, queue b0 = [] -> written b0 = [] ->
  let b := fold_left (bstep cap h) ops b0 in
  subseq (written b ++ queue b) (handled h ops) /\ (length (queue b) <= cap)%nat.
Proof.
  intros ops b0 Q0 W0. induction ops as [|o ops IH] using rev_ind; cbn zeta.
  - cbn [fold_left handled]. rewrite Q0, W0. split; [apply sub_nil|cbn; lia].
  - rewrite fold_left_app. cbn [fold_left]. cbn zeta in IH. destruct IH as [IH1 IH2]. set (b := fold_left (bstep cap h) ops b0) in *.
    rewrite handled_app. destruct o as [r|]; cbn [bstep handled].
    + unfold handle_buffered. destruct (Nat.ltb_spec (length (queue b)) cap); cbn [queue written].
      * rewrite app_assoc. split; [apply subseq_app_r, IH1|rewrite app_length; cbn; lia].
      * split; [apply subseq_app_drop, IH1|exact IH2].
    + rewrite app_nil_r. unfold deliver. destruct (queue b) as [|x q] eqn:E; [rewrite ?E in *; split; assumption|]. cbn [queue written].
      rewrite <- app_assoc. cbn [app]. split; [exact IH1|cbn in IH2; lia].
Qed.

(* ---- multilog: every enabled child is handed the record exactly once (one flag per child, in order); nil iff all enabled children succeeded *)
Theorem multi_handle_spec cs r :
  length (fst (multi_handle cs r)) = length cs /\
  (forall i c, nth_error cs i = Some c -> nth_error (fst (multi_handle cs r)) i = Some (enabled (c_min c) r)) /\
  (snd (multi_handle cs r) = false <-> forall c, In c cs -> enabled (c_min c) r = true -> c_beh c = BOk).
Proof.
  unfold multi_handle. cbn [fst snd]. split; [apply map_length|]. split.
  - intros i c H. rewrite nth_error_map, H. reflexivity.
  - split.
    + intros H c Hin He. destruct (c_beh c) eqn:B; [reflexivity| |];
        (assert (X : existsb (fun c => enabled (c_min c) r && match c_beh c with BOk => false | _ => true end) cs = true)
          by (apply existsb_exists; exists c; split; [exact Hin|rewrite He, B; reflexivity]); congruence).
    + intro H. destruct (existsb _ cs) eqn:E; [|reflexivity]. apply existsb_exists in E. destruct E as (c & Hin & Hc).
      apply andb_prop in Hc. destruct Hc as [He Hb]. rewrite (H c Hin He) in Hb. discriminate.
Qed.
