(* C20 — executable model of txt.NaturalCmp / NaturalLess / SortStringsNatural* (txt/natural_sort.go).
   Strings are lists of byte values (Z in 0..255). The Go loop keeps i1 = i2 whenever it continues, so the
   model recurses on the two remaining suffixes. No proofs in this file. *)
From Coq Require Import ZArith List Bool.
Import ListNotations.
Open Scope Z_scope.

Definition str := list Z.
Definition is_digit (c : Z) : bool := (48 <=? c) && (c <=? 57).
Definition fold (ci : bool) (c : Z) : Z := if ci && (97 <=? c) && (c <=? 122) then c - 32 else c.

(* "Eat zeros": remaining string and number of zeros eaten *)
Fixpoint skip0 (s : str) : str * nat :=
  match s with
  | c :: r => if c =? 48 then let '(t, n) := skip0 r in (t, S n) else (s, O)
  | [] => ([], O)
  end.
(* "Eat all digits": digit run and the rest *)
Fixpoint span_digits (s : str) : str * str :=
  match s with
  | c :: r => if is_digit c then let '(d, t) := span_digits r in (c :: d, t) else ([], s)
  | [] => ([], [])
  end.
(* Go string comparison nr1 < nr2 on strings (used on equal-length digit runs) *)
Fixpoint lexcmp (a b : str) : Z :=
  match a, b with
  | [], [] => 0 | [], _ => -1 | _, [] => 1
  | x :: a', y :: b' => if x <? y then -1 else if y <? x then 1 else lexcmp a' b'
  end.

Fixpoint loop (fuel : nat) (ci : bool) (s1 s2 : str) : Z :=
  match fuel with O => 0 | S f =>
  match s1, s2 with
  | [], [] => 0
  | [], _ => -1
  | _, [] => 1
  | c1 :: r1, c2 :: r2 =>
    let d1 := is_digit c1 in let d2 := is_digit c2 in
    if negb (Bool.eqb d1 d2) then (if d1 then -1 else 1)
    else if negb d1 then
      let a := fold ci c1 in let b := fold ci c2 in
      if a <? b then -1 else if b <? a then 1 else loop f ci r1 r2
    else
      let '(t1, z1) := skip0 s1 in let '(t2, z2) := skip0 s2 in
      let '(n1, u1) := span_digits t1 in let '(n2, u2) := span_digits t2 in
      let l1 := length n1 in let l2 := length n2 in
      if (l1 <? l2)%nat then -1 else if (l2 <? l1)%nat then 1
      else let c := lexcmp n1 n2 in if negb (c =? 0) then c
      else if (z1 <? z2)%nat then -1 else if (z2 <? z1)%nat then 1
      else loop f ci u1 u2
  end end.

Definition cmp_cs (a b : str) : Z := loop (S (length a + length b)) false a b.
Definition natural_cmp (a b : str) (ci : bool) : Z :=
  if ci then let c := loop (S (length a + length b)) true a b in if c =? 0 then cmp_cs a b else c
  else cmp_cs a b.
Definition natural_less (a b : str) (ci : bool) : bool := natural_cmp a b ci <? 0.

(* slices.SortFunc is not modelled; what a correct sort by a comparison returns is: insertion sort *)
Fixpoint insert_by (cmp : str -> str -> Z) (x : str) (l : list str) : list str :=
  match l with
  | [] => [x]
  | y :: r => if cmp x y <=? 0 then x :: l else y :: insert_by cmp x r
  end.
Definition sort_by (cmp : str -> str -> Z) (l : list str) : list str := fold_right (insert_by cmp) [] l.
Definition sort_asc (l : list str) := sort_by (fun a b => natural_cmp a b true) l.
Definition sort_desc (l : list str) := sort_by (fun a b => natural_cmp b a true) l.

(* executable predicates used on the implementation's own answers (S) *)
Fixpoint sorted_by (cmp : str -> str -> Z) (l : list str) : bool :=
  match l with
  | x :: ((y :: _) as r) => (cmp x y <=? 0) && sorted_by cmp r
  | _ => true
  end.
