(* C20 — property theorems only. Each is closed by [exact] of a lemma from Proofs.v and followed by Print Assumptions. *)
From Coq Require Import ZArith List Bool Permutation.
From Verif Require Import C20.Model C20.Proofs.
Import ListNotations.
Open Scope Z_scope.

(* antisymmetry, both modes, all byte strings *)
Theorem C20_antisymmetric : forall (a b : str) (ci : bool), natural_cmp a b ci = - natural_cmp b a ci.
Proof. exact natural_cmp_antisym. Qed.
Print Assumptions C20_antisymmetric.

(* transitivity of <= (hence of <, by antisymmetry) *)
Theorem C20_transitive : forall (a b c : str) (ci : bool),
  natural_cmp a b ci <= 0 -> natural_cmp b c ci <= 0 -> natural_cmp a c ci <= 0.
Proof. exact natural_cmp_trans. Qed.
Print Assumptions C20_transitive.

(* 0 only for identical strings *)
Theorem C20_zero_iff_identical : forall (a b : str) (ci : bool), natural_cmp a b ci = 0 <-> a = b.
Proof. exact natural_cmp_zero_iff. Qed.
Print Assumptions C20_zero_iff_identical.

(* result is -1, 0 or 1 *)
Theorem C20_result_range : forall (a b : str) (ci : bool),
  natural_cmp a b ci = -1 \/ natural_cmp a b ci = 0 \/ natural_cmp a b ci = 1.
Proof. exact natural_cmp_range. Qed.
Print Assumptions C20_result_range.

(* NaturalLess agrees with NaturalCmp *)
Theorem C20_less_agrees : forall (a b : str) (ci : bool), natural_less a b ci = true <-> natural_cmp a b ci < 0.
Proof. exact natural_less_spec. Qed.
Print Assumptions C20_less_agrees.

(* sorting: the sorted permutation of any input is unique, so any correct sort returns exactly sort_asc / sort_desc *)
Theorem C20_sort_ascending_deterministic : forall l : list str,
  Permutation l (sort_asc l) /\ sorted_by (fun a b => natural_cmp a b true) (sort_asc l) = true /\
  forall out, Permutation l out -> sorted_by (fun a b => natural_cmp a b true) out = true -> out = sort_asc l.
Proof. exact sort_asc_spec. Qed.
Print Assumptions C20_sort_ascending_deterministic.

Theorem C20_sort_descending_deterministic : forall l : list str,
  Permutation l (sort_desc l) /\ sorted_by (fun a b => natural_cmp b a true) (sort_desc l) = true /\
  forall out, Permutation l out -> sorted_by (fun a b => natural_cmp b a true) out = true -> out = sort_desc l.
Proof. exact sort_desc_spec. Qed.
Print Assumptions C20_sort_descending_deterministic.

(* non-vacuity / regression examples: "a2" < "a12", "2" < "02", "A" vs "a" *)
Example C20_ex_numeric : natural_cmp [97;50] [97;49;50] false = -1. Proof. reflexivity. Qed.
Example C20_ex_zeros : natural_cmp [50] [48;50] true = -1. Proof. reflexivity. Qed.
Example C20_ex_case : natural_cmp [65] [97] true = -1 /\ natural_cmp [65] [97] false = -1 /\ natural_cmp [97;49] [65;50] true = -1.
Proof. repeat split. Qed.
