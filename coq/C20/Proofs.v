(* C20 — lemmas about the NaturalCmp model *)
From Coq Require Import ZArith List Bool Lia.
From Verif Require Import C20.Model.
Import ListNotations.
Open Scope Z_scope.

Lemma lexcmp_anti a : forall b, lexcmp a b = - lexcmp b a.
Proof. induction a as [|x a IH]; destruct b as [|y b]; cbn; try reflexivity.
  destruct (x <? y) eqn:E1, (y <? x) eqn:E2; try lia; auto. Qed.

Lemma loop_anti ci : forall f a b, loop f ci a b = - loop f ci b a.
Proof.
  induction f as [|f IH]; intros a b; cbn [loop]; [reflexivity|].
  destruct a as [|c1 r1], b as [|c2 r2]; try reflexivity.
  destruct (is_digit c1) eqn:D1, (is_digit c2) eqn:D2; cbn [Bool.eqb negb]; try reflexivity.
  - (* digits *)
    destruct (skip0 (c1 :: r1)) as [t1 z1], (skip0 (c2 :: r2)) as [t2 z2].
    destruct (span_digits t1) as [n1 u1], (span_digits t2) as [n2 u2].
    rewrite (lexcmp_anti n1 n2).
    destruct (length n1 <? length n2)%nat eqn:L1, (length n2 <? length n1)%nat eqn:L2;
      try (apply Nat.ltb_lt in L1; apply Nat.ltb_lt in L2; lia); try reflexivity.
    destruct (lexcmp n2 n1 =? 0) eqn:C.
    + apply Z.eqb_eq in C. rewrite C. change (- 0 =? 0) with true. cbn [negb].
      destruct (z1 <? z2)%nat eqn:Z1, (z2 <? z1)%nat eqn:Z2;
        try (apply Nat.ltb_lt in Z1; apply Nat.ltb_lt in Z2; lia); try reflexivity. apply IH.
    + assert (- lexcmp n2 n1 =? 0 = false) by (apply Z.eqb_neq; apply Z.eqb_neq in C; lia).
      rewrite H. cbn [negb]. reflexivity.
  - (* non digits *)
    destruct (fold ci c1 <? fold ci c2) eqn:E1, (fold ci c2 <? fold ci c1) eqn:E2; try lia; try reflexivity. apply IH.
Qed.
Theorem natural_cmp_antisym a b ci : natural_cmp a b ci = - natural_cmp b a ci.
Proof.
  unfold natural_cmp, cmp_cs. replace (length b + length a)%nat with (length a + length b)%nat by lia. set (F := S (length a + length b)).
  destruct ci; [|apply loop_anti].
  pose proof (loop_anti true F b a) as H1. pose proof (loop_anti false F b a) as H2. rewrite H1, H2.
  destruct (loop F true a b =? 0) eqn:E.
  - apply Z.eqb_eq in E. rewrite E. change (- 0 =? 0) with true. cbn beta iota. lia.
  - assert (- loop F true a b =? 0 = false) by (apply Z.eqb_neq; apply Z.eqb_neq in E; lia). rewrite H. lia.
Qed.

Lemma lexcmp_range a : forall b, lexcmp a b = -1 \/ lexcmp a b = 0 \/ lexcmp a b = 1.
Proof. induction a as [|x a IH]; destruct b as [|y b]; cbn; auto. destruct (x <? y); auto. destruct (y <? x); auto. Qed.
Lemma lexcmp_eq a : forall b, length a = length b -> lexcmp a b = 0 -> a = b.
Proof. induction a as [|x a IH]; destruct b as [|y b]; cbn; intros L H; try discriminate; auto.
  destruct (x <? y) eqn:E1; [discriminate|]. destruct (y <? x) eqn:E2; [discriminate|].
  apply Z.ltb_ge in E1, E2. f_equal; [lia|]. apply IH; auto. Qed.
Lemma lexcmp_refl a : lexcmp a a = 0.
Proof. induction a; cbn; auto. rewrite Z.ltb_irrefl. auto. Qed.
Ltac ltb_dec x y := destruct (Z.lt_trichotomy x y) as [?|[?|?]];
  [ rewrite (proj2 (Z.ltb_lt x y)) by lia | subst; rewrite ?Z.ltb_irrefl | rewrite (proj2 (Z.ltb_ge x y)) by lia; rewrite (proj2 (Z.ltb_lt y x)) by lia ].
Lemma lexcmp_trans a : forall b c, lexcmp a b <= 0 -> lexcmp b c <= 0 -> lexcmp a c <= 0.
Proof.
  induction a as [|x a IH]; destruct b as [|y b], c as [|z c]; cbn; intros H1 H2; try lia.
  destruct (Z.lt_trichotomy x y) as [Hxy|[Hxy|Hxy]].
  - rewrite (proj2 (Z.ltb_lt x y)) in H1 by lia.
    destruct (Z.lt_trichotomy y z) as [Hyz|[Hyz|Hyz]].
    + rewrite (proj2 (Z.ltb_lt x z)) by lia. lia.
    + subst. rewrite (proj2 (Z.ltb_lt x z)) by lia. lia.
    + rewrite (proj2 (Z.ltb_ge y z)) in H2 by lia. rewrite (proj2 (Z.ltb_lt z y)) in H2 by lia. lia.
  - subst. rewrite Z.ltb_irrefl in H1.
    destruct (Z.lt_trichotomy y z) as [Hyz|[Hyz|Hyz]].
    + rewrite (proj2 (Z.ltb_lt y z)) by lia. lia.
    + subst. rewrite Z.ltb_irrefl in *. eapply IH; eauto.
    + rewrite (proj2 (Z.ltb_ge y z)) in H2 by lia. rewrite (proj2 (Z.ltb_lt z y)) in H2 by lia. lia.
  - rewrite (proj2 (Z.ltb_ge x y)) in H1 by lia. rewrite (proj2 (Z.ltb_lt y x)) in H1 by lia. lia.
Qed.

Lemma skip0_len s : forall t z, skip0 s = (t, z) -> (length t + z = length s)%nat.
Proof. induction s as [|c s IH]; cbn; intros t z H. { injection H as <- <-. reflexivity. }
  destruct (c =? 48).
  - destruct (skip0 s) as [t' z'] eqn:S. injection H as <- <-. specialize (IH _ _ eq_refl). lia.
  - injection H as <- <-. cbn. lia.
Qed.
Lemma span_len s : forall n u, span_digits s = (n, u) -> (length n + length u = length s)%nat.
Proof. induction s as [|c s IH]; cbn; intros n u H. { injection H as <- <-. reflexivity. }
  destruct (is_digit c).
  - destruct (span_digits s) as [d t] eqn:S. injection H as <- <-. specialize (IH _ _ eq_refl). cbn. lia.
  - injection H as <- <-. cbn. lia.
Qed.
(* a digit chunk is never empty: leading zeros + significant digits >= 1 *)
Lemma chunk_nonempty c r t z n u : is_digit c = true -> skip0 (c :: r) = (t, z) -> span_digits t = (n, u) -> (length u < length (c :: r))%nat.
Proof.
  intros D S P. pose proof (skip0_len _ _ _ S). pose proof (span_len _ _ _ P).
  cbn in S. destruct (c =? 48) eqn:E.
  - destruct (skip0 r) as [t' z'] eqn:S'. injection S as <- <-. cbn in *. lia.
  - injection S as <- <-. cbn in P. rewrite D in P. destruct (span_digits r) as [d t'] eqn:S'. injection P as <- <-. cbn in *. lia.
Qed.

Definition kcmp (n1 : str) (z1 : nat) (n2 : str) (z2 : nat) : Z :=
  if (length n1 <? length n2)%nat then -1 else if (length n2 <? length n1)%nat then 1
  else let c := lexcmp n1 n2 in if negb (c =? 0) then c else if (z1 <? z2)%nat then -1 else if (z2 <? z1)%nat then 1 else 0.

Lemma kcmp_trans n1 z1 n2 z2 n3 z3 :
  kcmp n1 z1 n2 z2 <= 0 -> kcmp n2 z2 n3 z3 <= 0 ->
  kcmp n1 z1 n3 z3 <= 0 /\ (kcmp n1 z1 n3 z3 = 0 -> kcmp n1 z1 n2 z2 = 0 /\ kcmp n2 z2 n3 z3 = 0).
Proof.
  unfold kcmp.
  destruct (length n1 <? length n2)%nat eqn:A1; [apply Nat.ltb_lt in A1 | apply Nat.ltb_ge in A1].
  - intros _ H2. destruct (length n2 <? length n3)%nat eqn:B1; [apply Nat.ltb_lt in B1 | apply Nat.ltb_ge in B1].
    + rewrite (proj2 (Nat.ltb_lt _ _)) by lia. lia.
    + destruct (length n3 <? length n2)%nat eqn:B2; [lia|]. apply Nat.ltb_ge in B2.
      rewrite (proj2 (Nat.ltb_lt (length n1) (length n3))) by lia. lia.
  - destruct (length n2 <? length n1)%nat eqn:A2; [lia|]. apply Nat.ltb_ge in A2. assert (L12 : length n1 = length n2) by lia.
    intros H1 H2.
    destruct (length n2 <? length n3)%nat eqn:B1; [apply Nat.ltb_lt in B1 | apply Nat.ltb_ge in B1].
    + rewrite (proj2 (Nat.ltb_lt (length n1) (length n3))) by lia. lia.
    + destruct (length n3 <? length n2)%nat eqn:B2; [lia|]. apply Nat.ltb_ge in B2. assert (L23 : length n2 = length n3) by lia.
      rewrite (proj2 (Nat.ltb_ge (length n1) (length n3))) by lia. rewrite (proj2 (Nat.ltb_ge (length n3) (length n1))) by lia.
      pose proof (lexcmp_range n1 n2) as R12. pose proof (lexcmp_range n2 n3) as R23. pose proof (lexcmp_range n1 n3) as R13.
      assert (C12 : lexcmp n1 n2 <= 0) by (destruct (lexcmp n1 n2 =? 0) eqn:E; cbn [negb] in H1; [apply Z.eqb_eq in E; lia | lia]).
      assert (C23 : lexcmp n2 n3 <= 0) by (destruct (lexcmp n2 n3 =? 0) eqn:E; cbn [negb] in H2; [apply Z.eqb_eq in E; lia | lia]).
      pose proof (lexcmp_trans _ _ _ C12 C23) as C13.
      destruct (lexcmp n1 n3 =? 0) eqn:E13; cbn [negb]; [apply Z.eqb_eq in E13 | apply Z.eqb_neq in E13; split; [lia|lia]].
      (* n1 = n3 *)
      assert (n1 = n3) by (apply lexcmp_eq; [lia|assumption]). subst n3.
      assert (lexcmp n1 n2 = 0) by (rewrite (lexcmp_anti n2 n1) in C23; lia).
      assert (lexcmp n2 n1 = 0) by (rewrite (lexcmp_anti n2 n1); lia).
      rewrite H, H0 in *. cbn [Z.eqb negb] in *.
      destruct (z1 <? z2)%nat eqn:Z12; [apply Nat.ltb_lt in Z12 | apply Nat.ltb_ge in Z12].
      * destruct (z2 <? z3)%nat eqn:Z23; [apply Nat.ltb_lt in Z23 | apply Nat.ltb_ge in Z23].
        -- rewrite (proj2 (Nat.ltb_lt z1 z3)) by lia. lia.
        -- destruct (z3 <? z2)%nat eqn:Z32; [lia|]. apply Nat.ltb_ge in Z32. rewrite (proj2 (Nat.ltb_lt z1 z3)) by lia. lia.
      * destruct (z2 <? z1)%nat eqn:Z21; [lia|]. apply Nat.ltb_ge in Z21.
        destruct (z2 <? z3)%nat eqn:Z23; [apply Nat.ltb_lt in Z23 | apply Nat.ltb_ge in Z23].
        -- rewrite (proj2 (Nat.ltb_lt z1 z3)) by lia. lia.
        -- destruct (z3 <? z2)%nat eqn:Z32; [lia|]. apply Nat.ltb_ge in Z32.
           rewrite (proj2 (Nat.ltb_ge z1 z3)) by lia. rewrite (proj2 (Nat.ltb_ge z3 z1)) by lia. lia.
Qed.

(* per-string decomposition of a digit-headed string *)
Definition dkey (s : str) : str * nat * str := let '(t, z) := skip0 s in let '(n, u) := span_digits t in (n, z, u).
Lemma loop_digits f ci s1 s2 c1 r1 c2 r2 :
  s1 = c1 :: r1 -> s2 = c2 :: r2 -> is_digit c1 = true -> is_digit c2 = true ->
  loop (S f) ci s1 s2 =
    let '(n1, z1, u1) := dkey s1 in let '(n2, z2, u2) := dkey s2 in
    let k := kcmp n1 z1 n2 z2 in if negb (k =? 0) then k else loop f ci u1 u2.
Proof.
  intros -> -> D1 D2. cbn [loop]. rewrite D1, D2. cbn [Bool.eqb negb]. unfold dkey, kcmp.
  destruct (skip0 (c1 :: r1)) as [t1 z1], (skip0 (c2 :: r2)) as [t2 z2].
  destruct (span_digits t1) as [n1 u1], (span_digits t2) as [n2 u2].
  destruct (length n1 <? length n2)%nat; [reflexivity|]. destruct (length n2 <? length n1)%nat; [reflexivity|].
  pose proof (lexcmp_range n1 n2) as R.
  destruct (lexcmp n1 n2 =? 0) eqn:E; cbn [negb].
  - destruct (z1 <? z2)%nat; [reflexivity|]. destruct (z2 <? z1)%nat; reflexivity.
  - apply Z.eqb_neq in E. destruct R as [R|[R|R]]; rewrite R in *; try lia; reflexivity.
Qed.

Lemma dkey_len c r n z u : is_digit c = true -> dkey (c :: r) = (n, z, u) -> (length u < length (c :: r))%nat.
Proof. unfold dkey. intros D H. destruct (skip0 (c :: r)) as [t z'] eqn:S. destruct (span_digits t) as [n' u'] eqn:P. injection H as <- <- <-. eapply chunk_nonempty; eauto. Qed.

Theorem loop_trans ci : forall F a b c, (length a + length b + length c < F)%nat ->
  loop F ci a b <= 0 -> loop F ci b c <= 0 -> loop F ci a c <= 0.
Proof.
  induction F as [|F IH]; intros a b c L H1 H2; [lia|].
  destruct a as [|x a], b as [|y b], c as [|z c]; try (cbn in *; lia).
  destruct (is_digit x) eqn:Dx, (is_digit y) eqn:Dy, (is_digit z) eqn:Dz;
    try (cbn [loop] in *; rewrite ?Dx, ?Dy, ?Dz in *; cbn [Bool.eqb negb] in *; lia).
  - (* three digit chunks *)
    rewrite (loop_digits F ci _ _ x a y b eq_refl eq_refl Dx Dy) in H1.
    rewrite (loop_digits F ci _ _ y b z c eq_refl eq_refl Dy Dz) in H2.
    rewrite (loop_digits F ci _ _ x a z c eq_refl eq_refl Dx Dz).
    destruct (dkey (x :: a)) as [[n1 z1] u1] eqn:K1, (dkey (y :: b)) as [[n2 z2] u2] eqn:K2, (dkey (z :: c)) as [[n3 z3] u3] eqn:K3.
    cbn zeta in *.
    pose proof (dkey_len _ _ _ _ _ Dx K1). pose proof (dkey_len _ _ _ _ _ Dy K2). pose proof (dkey_len _ _ _ _ _ Dz K3).
    assert (A : kcmp n1 z1 n2 z2 <= 0) by (destruct (kcmp n1 z1 n2 z2 =? 0) eqn:E; cbn [negb] in H1; [apply Z.eqb_eq in E; lia|lia]).
    assert (B : kcmp n2 z2 n3 z3 <= 0) by (destruct (kcmp n2 z2 n3 z3 =? 0) eqn:E; cbn [negb] in H2; [apply Z.eqb_eq in E; lia|lia]).
    destruct (kcmp_trans _ _ _ _ _ _ A B) as [C Ceq].
    destruct (kcmp n1 z1 n3 z3 =? 0) eqn:E; cbn [negb]; [apply Z.eqb_eq in E | lia].
    destruct (Ceq E) as [E1 E2]. rewrite E1, E2 in *. cbn [Z.eqb negb] in *.
    apply (IH u1 u2 u3); [cbn [length] in *; lia | assumption | assumption].
  - (* three non-digits *)
    cbn [loop] in *. rewrite ?Dx, ?Dy, ?Dz in *. cbn [Bool.eqb negb] in *.
    set (fx := fold ci x) in *; set (fy := fold ci y) in *; set (fz := fold ci z) in *.
    destruct (Z.lt_trichotomy fx fy) as [Hxy|[Hxy|Hxy]].
    + rewrite (proj2 (Z.ltb_lt fx fy)) in H1 by lia.
      destruct (Z.lt_trichotomy fy fz) as [Hyz|[Hyz|Hyz]].
      * rewrite (proj2 (Z.ltb_lt fx fz)) by lia. lia.
      * rewrite (proj2 (Z.ltb_lt fx fz)) by lia. lia.
      * rewrite (proj2 (Z.ltb_ge fy fz)) in H2 by lia. rewrite (proj2 (Z.ltb_lt fz fy)) in H2 by lia. lia.
    + rewrite Hxy in *. rewrite Z.ltb_irrefl in H1.
      destruct (Z.lt_trichotomy fy fz) as [Hyz|[Hyz|Hyz]].
      * rewrite (proj2 (Z.ltb_lt fy fz)) by lia. lia.
      * rewrite Hyz in *. rewrite Z.ltb_irrefl in *. apply (IH a b c); [cbn [length] in *; lia | assumption | assumption].
      * rewrite (proj2 (Z.ltb_ge fy fz)) in H2 by lia. rewrite (proj2 (Z.ltb_lt fz fy)) in H2 by lia. lia.
    + rewrite (proj2 (Z.ltb_ge fx fy)) in H1 by lia. rewrite (proj2 (Z.ltb_lt fy fx)) in H1 by lia. lia.
Qed.

(* ---------- build phase: fuel irrelevance, reflexivity, zero iff equal, case-insensitive mode ---------- *)
Lemma loop_fuel ci : forall F F' a b, (length a + length b < F)%nat -> (length a + length b < F')%nat ->
  loop F ci a b = loop F' ci a b.
Proof.
  induction F as [|F IH]; intros F' a b L L'; [lia|]. destruct F' as [|F']; [lia|].
  destruct a as [|x a], b as [|y b]; try reflexivity.
  destruct (is_digit x) eqn:Dx, (is_digit y) eqn:Dy.
  - rewrite (loop_digits F ci _ _ x a y b eq_refl eq_refl Dx Dy), (loop_digits F' ci _ _ x a y b eq_refl eq_refl Dx Dy).
    destruct (dkey (x :: a)) as [[n1 z1] u1] eqn:K1, (dkey (y :: b)) as [[n2 z2] u2] eqn:K2. cbn zeta.
    pose proof (dkey_len _ _ _ _ _ Dx K1). pose proof (dkey_len _ _ _ _ _ Dy K2).
    destruct (negb (kcmp n1 z1 n2 z2 =? 0)); [reflexivity|]. apply IH; cbn [length] in *; lia.
  - cbn [loop]. rewrite Dx, Dy. reflexivity.
  - cbn [loop]. rewrite Dx, Dy. reflexivity.
  - cbn [loop]. rewrite Dx, Dy. cbn [Bool.eqb negb].
    destruct (fold ci x <? fold ci y); [reflexivity|]. destruct (fold ci y <? fold ci x); [reflexivity|].
    apply IH; cbn [length] in *; lia.
Qed.

Lemma kcmp_refl n z : kcmp n z n z = 0.
Proof. unfold kcmp. rewrite !Nat.ltb_irrefl, lexcmp_refl. reflexivity. Qed.

Lemma kcmp_zero n1 z1 n2 z2 : kcmp n1 z1 n2 z2 = 0 -> n1 = n2 /\ z1 = z2.
Proof.
  unfold kcmp.
  destruct (length n1 <? length n2)%nat eqn:A1; [lia|]. destruct (length n2 <? length n1)%nat eqn:A2; [lia|].
  apply Nat.ltb_ge in A1, A2.
  destruct (lexcmp n1 n2 =? 0) eqn:E; cbn [negb]; [apply Z.eqb_eq in E | apply Z.eqb_neq in E; lia].
  destruct (z1 <? z2)%nat eqn:Z1; [lia|]. destruct (z2 <? z1)%nat eqn:Z2; [lia|]. apply Nat.ltb_ge in Z1, Z2.
  intros _. split; [apply lexcmp_eq; [lia|assumption] | lia].
Qed.

Lemma loop_refl ci : forall F a, loop F ci a a = 0.
Proof.
  induction F as [|F IH]; intros a; [reflexivity|]. destruct a as [|x a]; [reflexivity|].
  destruct (is_digit x) eqn:Dx.
  - rewrite (loop_digits F ci _ _ x a x a eq_refl eq_refl Dx Dx).
    destruct (dkey (x :: a)) as [[n z] u]. cbn zeta. rewrite kcmp_refl. cbn. apply IH.
  - cbn [loop]. rewrite Dx. cbn [Bool.eqb negb]. rewrite Z.ltb_irrefl. apply IH.
Qed.

Lemma skip0_spec s : forall t z, skip0 s = (t, z) -> s = repeat 48 z ++ t.
Proof.
  induction s as [|c s IH]; cbn; intros t z H. { injection H as <- <-. reflexivity. }
  destruct (c =? 48) eqn:E.
  - destruct (skip0 s) as [t' z'] eqn:S. injection H as <- <-. apply Z.eqb_eq in E. subst c. cbn. f_equal. apply IH. reflexivity.
  - injection H as <- <-. reflexivity.
Qed.
Lemma span_spec s : forall n u, span_digits s = (n, u) -> s = n ++ u.
Proof.
  induction s as [|c s IH]; cbn; intros n u H. { injection H as <- <-. reflexivity. }
  destruct (is_digit c).
  - destruct (span_digits s) as [d t] eqn:S. injection H as <- <-. cbn. f_equal. apply IH. reflexivity.
  - injection H as <- <-. reflexivity.
Qed.
Lemma dkey_spec s n z u : dkey s = (n, z, u) -> s = repeat 48 z ++ n ++ u.
Proof.
  unfold dkey. destruct (skip0 s) as [t z'] eqn:S. destruct (span_digits t) as [n' u'] eqn:P. intros H. injection H as <- <- <-.
  rewrite (skip0_spec _ _ _ S), (span_spec _ _ _ P). reflexivity.
Qed.

Lemma fold_false c : fold false c = c.
Proof. reflexivity. Qed.

Lemma loop_zero_eq : forall F a b, (length a + length b < F)%nat -> loop F false a b = 0 -> a = b.
Proof.
  induction F as [|F IH]; intros a b L H; [lia|].
  destruct a as [|x a], b as [|y b]; try reflexivity; try (cbn in H; lia).
  destruct (is_digit x) eqn:Dx, (is_digit y) eqn:Dy.
  - rewrite (loop_digits F false _ _ x a y b eq_refl eq_refl Dx Dy) in H.
    destruct (dkey (x :: a)) as [[n1 z1] u1] eqn:K1, (dkey (y :: b)) as [[n2 z2] u2] eqn:K2. cbn zeta in H.
    pose proof (dkey_len _ _ _ _ _ Dx K1). pose proof (dkey_len _ _ _ _ _ Dy K2).
    destruct (kcmp n1 z1 n2 z2 =? 0) eqn:E; cbn [negb] in H; [apply Z.eqb_eq in E | apply Z.eqb_neq in E; lia].
    destruct (kcmp_zero _ _ _ _ E) as [-> ->].
    assert (u1 = u2) by (apply IH; [cbn [length] in *; lia | assumption]). subst u2.
    rewrite (dkey_spec _ _ _ _ K1), (dkey_spec _ _ _ _ K2). reflexivity.
  - cbn [loop] in H. rewrite Dx, Dy in H. cbn in H. lia.
  - cbn [loop] in H. rewrite Dx, Dy in H. cbn in H. lia.
  - cbn [loop] in H. rewrite Dx, Dy in H. cbn [Bool.eqb negb] in H. rewrite !fold_false in H.
    destruct (x <? y) eqn:E1; [lia|]. destruct (y <? x) eqn:E2; [lia|]. apply Z.ltb_ge in E1, E2.
    assert (x = y) by lia. subst y. f_equal. apply IH; [cbn [length] in *; lia | assumption].
Qed.

Lemma loop_range ci : forall F a b, loop F ci a b = -1 \/ loop F ci a b = 0 \/ loop F ci a b = 1.
Proof.
  induction F as [|F IH]; intros a b; [cbn; auto|].
  destruct a as [|x a], b as [|y b]; cbn [loop]; auto.
  destruct (is_digit x) eqn:Dx, (is_digit y) eqn:Dy; cbn [Bool.eqb negb]; auto.
  - destruct (skip0 (x :: a)) as [t1 z1], (skip0 (y :: b)) as [t2 z2].
    destruct (span_digits t1) as [n1 u1], (span_digits t2) as [n2 u2].
    destruct (length n1 <? length n2)%nat; auto. destruct (length n2 <? length n1)%nat; auto.
    pose proof (lexcmp_range n1 n2) as R.
    destruct (negb (lexcmp n1 n2 =? 0)); auto.
    destruct (z1 <? z2)%nat; auto. destruct (z2 <? z1)%nat; auto.
  - destruct (fold ci x <? fold ci y); auto. destruct (fold ci y <? fold ci x); auto.
Qed.

(* ---------- the comparison as exported ---------- *)
Definition lp (ci : bool) (a b : str) : Z := loop (S (length a + length b)) ci a b.

Lemma lp_big ci F a b : (length a + length b < F)%nat -> loop F ci a b = lp ci a b.
Proof. intros L. unfold lp. apply loop_fuel; lia. Qed.

Lemma lp_anti ci a b : lp ci a b = - lp ci b a.
Proof. unfold lp. replace (length b + length a)%nat with (length a + length b)%nat by lia. apply loop_anti. Qed.

Lemma lp_trans ci a b c : lp ci a b <= 0 -> lp ci b c <= 0 -> lp ci a c <= 0.
Proof.
  set (F := S (length a + length b + length c)).
  rewrite <- (lp_big ci F a b), <- (lp_big ci F b c), <- (lp_big ci F a c) by (unfold F; lia).
  apply loop_trans. unfold F; lia.
Qed.

Lemma lp_refl ci a : lp ci a a = 0.
Proof. apply loop_refl. Qed.

Lemma lp_zero_eq a b : lp false a b = 0 -> a = b.
Proof. apply loop_zero_eq. lia. Qed.

(* if a ~ c (folded) and a <= b <= c then all three are folded-equal *)
Lemma lp_squeeze ci a b c : lp ci a b <= 0 -> lp ci b c <= 0 -> lp ci a c = 0 -> lp ci a b = 0 /\ lp ci b c = 0.
Proof.
  intros H1 H2 H3.
  assert (Hca : lp ci c a <= 0) by (rewrite lp_anti; lia).
  pose proof (lp_trans ci c a b Hca H1) as Hcb. rewrite lp_anti in Hcb.
  pose proof (lp_trans ci b c a H2 Hca) as Hba. rewrite lp_anti in Hba.
  lia.
Qed.

Lemma natural_cmp_unfold a b ci :
  natural_cmp a b ci = if ci then (if lp true a b =? 0 then lp false a b else lp true a b) else lp false a b.
Proof. reflexivity. Qed.

Theorem natural_cmp_trans a b c ci :
  natural_cmp a b ci <= 0 -> natural_cmp b c ci <= 0 -> natural_cmp a c ci <= 0.
Proof.
  rewrite !natural_cmp_unfold. destruct ci; [|apply lp_trans].
  intros H1 H2.
  assert (A : lp true a b <= 0).
  { destruct (lp true a b =? 0) eqn:E; [apply Z.eqb_eq in E; lia | assumption]. }
  assert (B : lp true b c <= 0).
  { destruct (lp true b c =? 0) eqn:E; [apply Z.eqb_eq in E; lia | assumption]. }
  pose proof (lp_trans true a b c A B) as C.
  destruct (lp true a c =? 0) eqn:E; [apply Z.eqb_eq in E | assumption].
  destruct (lp_squeeze true a b c A B E) as [E1 E2]. rewrite E1, E2 in *. cbn [Z.eqb] in *.
  eapply lp_trans; eauto.
Qed.

Theorem natural_cmp_zero_iff a b ci : natural_cmp a b ci = 0 <-> a = b.
Proof.
  rewrite natural_cmp_unfold. split.
  - destruct ci; [|apply lp_zero_eq].
    destruct (lp true a b =? 0) eqn:E; [apply lp_zero_eq | apply Z.eqb_neq in E; intros; lia].
  - intros ->. destruct ci; rewrite ?lp_refl; reflexivity.
Qed.

Theorem natural_cmp_range a b ci : natural_cmp a b ci = -1 \/ natural_cmp a b ci = 0 \/ natural_cmp a b ci = 1.
Proof.
  rewrite natural_cmp_unfold. destruct ci; [|apply loop_range].
  destruct (lp true a b =? 0); apply loop_range.
Qed.

Theorem natural_less_spec a b ci : natural_less a b ci = true <-> natural_cmp a b ci < 0.
Proof. unfold natural_less. apply Z.ltb_lt. Qed.

(* strict-weak-order premise that slices.SortFunc needs, in one statement *)
Theorem natural_cmp_total_order ci :
  (forall a b, natural_cmp a b ci = - natural_cmp b a ci) /\
  (forall a b c, natural_cmp a b ci <= 0 -> natural_cmp b c ci <= 0 -> natural_cmp a c ci <= 0) /\
  (forall a b, natural_cmp a b ci = 0 <-> a = b).
Proof.
  split; [intros; apply natural_cmp_antisym|]. split; [intros a b c; apply natural_cmp_trans|]. intros; apply natural_cmp_zero_iff.
Qed.

(* ---------- sorting with a total order is deterministic ---------- *)
From Coq Require Import Permutation Sorted.
Section SortBy.
  Variable cmp : str -> str -> Z.
  Hypothesis anti : forall a b, cmp a b = - cmp b a.
  Hypothesis trans : forall a b c, cmp a b <= 0 -> cmp b c <= 0 -> cmp a c <= 0.
  Hypothesis zero : forall a b, cmp a b = 0 <-> a = b.
  Definition le (a b : str) : Prop := cmp a b <= 0.

  Lemma le_refl a : le a a.
  Proof. unfold le. assert (cmp a a = 0) by (apply zero; reflexivity). lia. Qed.

  Lemma insert_perm x l : Permutation (x :: l) (insert_by cmp x l).
  Proof.
    induction l as [|y l IH]; cbn; [reflexivity|]. destruct (cmp x y <=? 0); [reflexivity|].
    rewrite perm_swap. constructor. exact IH.
  Qed.
  Lemma insert_sorted x l : StronglySorted le l -> StronglySorted le (insert_by cmp x l).
  Proof.
    induction l as [|y l IH]; cbn; intros S. { repeat constructor. }
    inversion S as [|? ? S' F]; subst.
    destruct (cmp x y <=? 0) eqn:E.
    - apply Z.leb_le in E. constructor; [assumption|]. constructor; [exact E|].
      eapply Forall_impl; [|exact F]. intros z Hz. eapply trans; eauto.
    - apply Z.leb_gt in E. constructor; [apply IH; assumption|].
      assert (Hyx : le y x) by (unfold le; rewrite anti; lia).
      eapply Permutation_Forall; [apply insert_perm|]. constructor; assumption.
  Qed.
  Lemma sort_perm l : Permutation l (sort_by cmp l).
  Proof. induction l as [|x l IH]; cbn; [reflexivity|]. rewrite <- insert_perm. constructor. exact IH. Qed.
  Lemma sort_sorted l : StronglySorted le (sort_by cmp l).
  Proof. induction l as [|x l IH]; cbn; [constructor|]. apply insert_sorted. exact IH. Qed.

  Lemma sorted_by_strong l : sorted_by cmp l = true -> StronglySorted le l.
  Proof.
    induction l as [|x l IH]; intros H; [constructor|].
    destruct l as [|y l]; [repeat constructor|].
    cbn [sorted_by] in H. apply andb_true_iff in H. destruct H as [H1 H2]. apply Z.leb_le in H1.
    specialize (IH H2). constructor; [exact IH|]. inversion IH as [|? ? S F]; subst.
    constructor; [exact H1|]. eapply Forall_impl; [|exact F]. intros z Hz. eapply trans; eauto.
  Qed.
  Lemma strong_sorted_by l : StronglySorted le l -> sorted_by cmp l = true.
  Proof.
    induction l as [|x l IH]; intros S; [reflexivity|]. inversion S as [|? ? S' F]; subst.
    destruct l as [|y l]; [reflexivity|]. cbn [sorted_by]. apply andb_true_iff. split; [|apply IH; assumption].
    inversion F; subst. apply Z.leb_le. assumption.
  Qed.

  Lemma sorted_perm_unique : forall l l', StronglySorted le l -> StronglySorted le l' -> Permutation l l' -> l = l'.
  Proof.
    induction l as [|x l IH]; intros l' S S' P.
    - apply Permutation_nil in P. subst. reflexivity.
    - destruct l' as [|y l']; [apply Permutation_sym, Permutation_nil in P; discriminate|].
      inversion S as [|? ? S1 F1]; subst. inversion S' as [|? ? S2 F2]; subst.
      assert (Hxy : le x y).
      { assert (I : In y (x :: l)) by (eapply Permutation_in; [apply Permutation_sym; exact P | left; reflexivity]).
        destruct I as [->|I]; [apply le_refl|]. rewrite Forall_forall in F1. apply F1. exact I. }
      assert (Hyx : le y x).
      { assert (I : In x (y :: l')) by (eapply Permutation_in; [exact P | left; reflexivity]).
        destruct I as [->|I]; [apply le_refl|]. rewrite Forall_forall in F2. apply F2. exact I. }
      assert (x = y) by (apply zero; unfold le in *; rewrite anti in Hyx; lia). subst y.
      f_equal. apply IH; try assumption. eapply Permutation_cons_inv; exact P.
  Qed.

  Theorem sort_deterministic l out : Permutation l out -> sorted_by cmp out = true -> out = sort_by cmp l.
  Proof.
    intros P S. apply sorted_perm_unique; [apply sorted_by_strong; exact S | apply sort_sorted |].
    rewrite <- P. apply sort_perm.
  Qed.
End SortBy.

Lemma desc_anti a b : natural_cmp b a true = - natural_cmp a b true.
Proof. apply natural_cmp_antisym. Qed.

Theorem sort_asc_spec l : Permutation l (sort_asc l) /\ sorted_by (fun a b => natural_cmp a b true) (sort_asc l) = true /\
  forall out, Permutation l out -> sorted_by (fun a b => natural_cmp a b true) out = true -> out = sort_asc l.
Proof.
  set (cmp := fun a b => natural_cmp a b true).
  assert (A : forall a b, cmp a b = - cmp b a) by (intros; apply natural_cmp_antisym).
  assert (T : forall a b c, cmp a b <= 0 -> cmp b c <= 0 -> cmp a c <= 0) by (intros a b c; apply natural_cmp_trans).
  assert (Z0 : forall a b, cmp a b = 0 <-> a = b) by (intros; apply natural_cmp_zero_iff).
  split; [apply sort_perm|]. split; [apply strong_sorted_by, sort_sorted; assumption|].
  intros out P S. apply sort_deterministic; assumption.
Qed.

Theorem sort_desc_spec l : Permutation l (sort_desc l) /\ sorted_by (fun a b => natural_cmp b a true) (sort_desc l) = true /\
  forall out, Permutation l out -> sorted_by (fun a b => natural_cmp b a true) out = true -> out = sort_desc l.
Proof.
  set (cmp := fun a b => natural_cmp b a true).
  assert (A : forall a b, cmp a b = - cmp b a) by (intros; apply natural_cmp_antisym).
  assert (T : forall a b c, cmp a b <= 0 -> cmp b c <= 0 -> cmp a c <= 0) by (intros a b c H1 H2; unfold cmp in *; eapply natural_cmp_trans; eauto).
  assert (Z0 : forall a b, cmp a b = 0 <-> a = b) by (intros a b; unfold cmp; rewrite natural_cmp_zero_iff; split; congruence).
  split; [apply sort_perm|]. split; [apply strong_sorted_by, sort_sorted; assumption|].
  intros out P S. apply sort_deterministic; assumption.
Qed.
