(* C08 — refinement: every history of valid operations acts on membership as the same operations on a mathematical set *)
From Coq Require Import ZArith List Bool Lia.
From Verif Require Import C08.Model C08.Proofs C08.Proofs2 C08.Proofs3 C08.Proofs4.
Import ListNotations.
Open Scope Z_scope.

(* the specification: a set of non-negative integers as its characteristic function *)
Definition zset := Z -> bool.
Definition sstep (S : zset) (o : op) : zset :=
  match o with
  | OSet i => fun j => (j =? i) || S j
  | OClear i => fun j => S j && negb (j =? i)
  | OFlip i => fun j => xorb (S j) (j =? i)
  | OSetRange s e => fun j => S j || in_range (Z.min s e) (Z.max s e) j
  | OClearRange s e => fun j => S j && negb (in_range (Z.min s e) (Z.max s e) j)
  | OFlipRange s e => fun j => xorb (S j) (in_range (Z.min s e) (Z.max s e) j)
  | OReset => fun _ => false
  | OLoad d => bitat d
  | OTrim | OEnsure _ | OData | OReload | OCopy | OClone => S
  end.
Definition srun (ops : list op) : zset := fold_left sstep ops (fun _ => false).

Lemma mem_step b S o : op_ok o -> Inv b -> (forall j, 0 <= j -> mem b j = S j) -> forall j, 0 <= j -> mem (step b o) j = sstep S o j.
Proof.
  intros Ho HI H j Hj. destruct o; cbn [step sstep op_ok] in *.
  - rewrite mem_set by assumption. rewrite H by assumption. reflexivity.
  - rewrite mem_clear by assumption. rewrite H by assumption. reflexivity.
  - rewrite mem_flip by assumption. rewrite H by assumption. reflexivity.
  - destruct Ho. rewrite mem_set_range by assumption. rewrite H by assumption. reflexivity.
  - destruct Ho. rewrite mem_clear_range by assumption. rewrite H by assumption. reflexivity.
  - destruct Ho. rewrite mem_flip_range by assumption. rewrite H by assumption. reflexivity.
  - rewrite mem_trim by assumption. apply H. assumption.
  - rewrite mem_ensure by assumption. apply H. assumption.
  - rewrite mem_data by assumption. apply H. assumption.
  - apply mem_reset.
  - rewrite mem_load by assumption. reflexivity.
  - destruct (load_data b HI) as (_ & M & _). rewrite M by assumption. apply H. assumption.
  - apply H. assumption.
  - apply H. assumption.
Qed.
Theorem refines ops : Forall op_ok ops -> Inv (run ops) /\ forall j, 0 <= j -> mem (run ops) j = srun ops j.
Proof.
  unfold run, srun.
  assert (G : forall b S, Inv b -> (forall j, 0 <= j -> mem b j = S j) -> Forall op_ok ops ->
    Inv (fold_left step ops b) /\ forall j, 0 <= j -> mem (fold_left step ops b) j = fold_left sstep ops S j).
  { induction ops as [|o ops IH]; intros b S HI H HF; [split; assumption|]. cbn [fold_left]. inversion HF as [|? ? Ho HF']; subst.
    apply IH; [apply inv_step; assumption|apply mem_step; assumption|exact HF']. }
  intros HF. apply G; [apply inv_empty|intros j Hj; apply mem_empty|exact HF].
Qed.
