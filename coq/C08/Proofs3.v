(* C08 — the cached count is the cardinality: an invariant of every history (words stay 64-bit, count = population of the words),
   and the population of the words is the number of members. *)
From Coq Require Import ZArith List Bool Lia.
From Verif Require Import common.Word64 common.Word64Facts C01.ProofsBits C08.Model C08.Proofs C08.Proofs2.
Import ListNotations.
Open Scope Z_scope.

(* ---- finite sums over 0..n-1 ---- *)
Fixpoint zsum (h : Z -> Z) (n : nat) : Z := match n with O => 0 | S m => h 0 + zsum (fun k => h (k + 1)) m end.
Lemma zsum_ext n : forall h h', (forall k, 0 <= k < Z.of_nat n -> h k = h' k) -> zsum h n = zsum h' n.
Proof.
  induction n as [|n IH]; intros h h' H; cbn [zsum]; [reflexivity|]. rewrite (H 0) by lia. f_equal. apply IH. intros k Hk. apply H. lia.
Qed.
Lemma zsum_zero n h : (forall k, 0 <= k < Z.of_nat n -> h k = 0) -> zsum h n = 0.
Proof. revert h. induction n as [|n IH]; intros h H; cbn [zsum]; [reflexivity|]. rewrite (H 0) by lia. rewrite IH; [reflexivity|]. intros k Hk. apply H. lia. Qed.
Lemma zsum_app n : forall m h, zsum h (n + m) = zsum h n + zsum (fun k => h (k + Z.of_nat n)) m.
Proof.
  induction n as [|n IH]; intros m h; cbn [zsum Nat.add].
  - rewrite Z.add_0_l. apply zsum_ext. intros k _. f_equal. lia.
  - rewrite IH. rewrite <- Z.add_assoc. f_equal. f_equal. apply zsum_ext. intros k _. f_equal. lia.
Qed.
Lemma zsum_diff1 n : forall h h' j, 0 <= j < Z.of_nat n -> (forall k, 0 <= k < Z.of_nat n -> k <> j -> h' k = h k) -> zsum h' n = zsum h n + h' j - h j.
Proof.
  induction n as [|n IH]; intros h h' j Hj H; [lia|]. cbn [zsum]. destruct (Z.eq_dec j 0) as [->|N].
  - rewrite (zsum_ext n (fun k => h' (k + 1)) (fun k => h (k + 1))) by (intros k Hk; apply H; lia). lia.
  - rewrite (H 0) by lia. rewrite (IH (fun k => h (k + 1)) (fun k => h' (k + 1)) (j - 1)) by (try lia; intros k Hk Hn; apply H; lia).
    replace (j - 1 + 1) with j by lia. lia.
Qed.
Lemma zsum_nonneg n : forall h, (forall k, 0 <= k < Z.of_nat n -> 0 <= h k) -> 0 <= zsum h n.
Proof. induction n as [|n IH]; intros h H; cbn [zsum]; [lia|]. pose proof (H 0 ltac:(lia)). pose proof (IH (fun k => h (k + 1)) ltac:(intros k Hk; apply H; lia)). lia. Qed.
(* blocks of 64 *)
Lemma zsum_blocks N : forall h, zsum (fun i => zsum (fun k => h (64 * i + k)) 64) N = zsum h (64 * N).
Proof.
  induction N as [|N IH]; intros h; [reflexivity|]. replace (64 * S N)%nat with (64 + 64 * N)%nat by lia. rewrite zsum_app.
  set (F := fun i => zsum (fun k => h (64 * i + k)) 64). change (zsum F (S N)) with (F 0 + zsum (fun k => F (k + 1)) N). unfold F.
  apply f_equal2; [apply zsum_ext; intros k _; f_equal; lia|]. rewrite <- IH. apply zsum_ext. intros i _. apply zsum_ext. intros k _. f_equal. lia.
Qed.

(* ---- population count = number of set bits below 64 ---- *)
Definition bcount (p : Z -> bool) (n : nat) : Z := zsum (fun k => Z.b2z (p k)) n.
Lemma pop_aux_bits fuel : forall x, pop_aux fuel x = bcount (Z.testbit x) fuel.
Proof.
  induction fuel as [|f IH]; intros x; [reflexivity|]. cbn [pop_aux]. unfold bcount. cbn [zsum]. rewrite Z.bit0_odd. apply f_equal2; [destruct (Z.odd x); reflexivity|].
  rewrite IH. unfold bcount. apply zsum_ext. intros k Hk. f_equal. rewrite Z.div2_bits by lia. reflexivity.
Qed.
Lemma pop64_bits x : pop64 x = bcount (Z.testbit x) 64.
Proof. apply pop_aux_bits. Qed.
Lemma pop64_0 : pop64 0 = 0. Proof. reflexivity. Qed.
Lemma pop64_nonneg x : 0 <= pop64 x.
Proof. rewrite pop64_bits. apply zsum_nonneg. intros k _. destruct (Z.testbit x k); cbn; lia. Qed.

(* ---- the words: total = sum of the populations of word 0..N-1 for any N covering the slice ---- *)
Lemma word_cons_0 w d : word (w :: d) 0 = w. Proof. reflexivity. Qed.
Lemma word_cons_S w d k : 0 <= k -> word (w :: d) (k + 1) = word d k.
Proof. intro Hk. unfold word. replace (Z.to_nat (k + 1)) with (S (Z.to_nat k)) by lia. reflexivity. Qed.
Lemma total_words d : total d = zsum (fun i => pop64 (word d i)) (length d).
Proof.
  induction d as [|w d IH]; [reflexivity|]. cbn [total fold_right length zsum]. fold (total d). rewrite word_cons_0, IH. f_equal.
  apply zsum_ext. intros k Hk. rewrite word_cons_S by lia. reflexivity.
Qed.
Lemma total_words_ext d N : (length d <= N)%nat -> total d = zsum (fun i => pop64 (word d i)) N.
Proof.
  intros H. replace N with (length d + (N - length d))%nat by lia. rewrite zsum_app, <- total_words.
  rewrite zsum_zero; [lia|]. intros k Hk. rewrite word_beyond by lia. reflexivity.
Qed.
Lemma total_same_words d d' : (forall i, 0 <= i -> word d i = word d' i) -> total d = total d'.
Proof.
  intros H. rewrite (total_words_ext d (Nat.max (length d) (length d'))) by lia. rewrite (total_words_ext d' (Nat.max (length d) (length d'))) by lia.
  apply zsum_ext. intros k Hk. rewrite H by lia. reflexivity.
Qed.

(* ---- cardinality: members below 64*N ---- *)
Definition card (b : bs) (N : nat) : Z := bcount (mem b) (64 * N).
Lemma total_card b N : (length (data b) <= N)%nat -> total (data b) = card b N.
Proof.
  intros H. rewrite (total_words_ext _ N H). unfold card, bcount. rewrite <- zsum_blocks. apply zsum_ext. intros i Hi.
  rewrite pop64_bits. unfold bcount. apply zsum_ext. intros k Hk. f_equal. unfold mem.
  replace ((64 * i + k) / 64) with i by (apply (Z.div_unique_pos _ 64 i k); lia).
  replace ((64 * i + k) mod 64) with k by (apply (Z.mod_unique_pos _ 64 i k); lia). reflexivity.
Qed.
(* the same number, as the length of the list of members *)
Lemma bcount_filter p n : bcount p n = Z.of_nat (length (filter p (map Z.of_nat (seq 0 n)))).
Proof.
  unfold bcount. revert p. induction n as [|n IH]; intros p; [reflexivity|]. cbn [zsum].
  change (seq 0 (S n)) with (0%nat :: seq 1 n). rewrite <- seq_shift, map_cons, map_map. cbn [filter]. change (Z.of_nat 0) with 0.
  assert (E : filter p (map (fun x => Z.of_nat (S x)) (seq 0 n)) = map (fun k => k + 1) (filter (fun k => p (k + 1)) (map Z.of_nat (seq 0 n)))).
  { generalize (seq 0 n). intro l. induction l as [|a l IHl]; [reflexivity|]. cbn [map filter]. replace (Z.of_nat (S a)) with (Z.of_nat a + 1) by lia.
    destruct (p (Z.of_nat a + 1)); cbn [map]; rewrite IHl; reflexivity. }
  rewrite (IH (fun k => p (k + 1))), E. destruct (p 0); cbn [length Z.b2z]; rewrite map_length; lia.
Qed.

(* ---- the invariant ---- *)
Definition wfd (d : list Z) : Prop := forall i, 0 <= i -> w64 (word d i).
Definition Inv (b : bs) : Prop := wfd (data b) /\ cnt b = total (data b).

Lemma w64_0 : w64 0. Proof. unfold w64. lia. Qed.
Lemma w64_op (op : Z -> Z -> Z) (f : bool -> bool -> bool) :
  (forall a b i, 0 <= i -> Z.testbit (op a b) i = f (Z.testbit a i) (Z.testbit b i)) -> (forall a b, 0 <= a -> 0 <= b -> 0 <= op a b) -> f false false = false ->
  forall a b, w64 a -> w64 b -> w64 (op a b).
Proof.
  intros Hop Hnn Hff a b Ha Hb. apply w64_bits. apply w64_bits in Ha, Hb. destruct Ha as [Ha0 Ha], Hb as [Hb0 Hb].
  split; [apply Hnn; assumption|]. intros i Hi. rewrite Hop by lia. rewrite Ha, Hb by lia. exact Hff.
Qed.
Lemma w64_lor a b : w64 a -> w64 b -> w64 (Z.lor a b).
Proof. apply (w64_op Z.lor orb); [intros; apply Z.lor_spec|intros; apply Z.lor_nonneg; lia|reflexivity]. Qed.
Lemma w64_lxor a b : w64 a -> w64 b -> w64 (Z.lxor a b).
Proof. apply (w64_op Z.lxor xorb); [intros; apply Z.lxor_spec|intros; apply Z.lxor_nonneg; lia|reflexivity]. Qed.
Lemma w64_land a b : w64 a -> w64 b -> w64 (Z.land a b).
Proof. apply (w64_op Z.land andb); [intros; apply Z.land_spec|intros; apply Z.land_nonneg; lia|reflexivity]. Qed.
Lemma w64_bitmask j : 0 <= j < 64 -> w64 (bitmask j).
Proof. intros H. unfold w64, bitmask. split; [apply Z.pow_nonneg; lia|]. change W with (2 ^ 64). apply Z.pow_lt_mono_r; lia. Qed.
Lemma w64_mask j l : 0 <= j -> 0 <= l <= 64 -> w64 (range_mask j l).
Proof. intros Hj Hl. pose proof (range_mask_range j l Hj Hl). unfold w64. change W with 18446744073709551616. lia. Qed.
Lemma w64_not m : w64 m -> w64 (18446744073709551615 - m).
Proof. unfold w64. change W with 18446744073709551616. lia. Qed.

Lemma wfd_setw d i x : wfd d -> w64 x -> 0 <= i < Z.of_nat (length d) -> wfd (setw d i x).
Proof. intros H Hx Hi k Hk. rewrite word_setw by lia. destruct (k =? i); [exact Hx|apply H; exact Hk]. Qed.

Lemma total_app_zeros d n : total (d ++ repeat 0 n) = total d.
Proof. apply total_same_words. intros i Hi. apply word_app_zeros. exact Hi. Qed.
Lemma inv_ensure b w : Inv b -> Inv (ensure b w).
Proof.
  intros [H1 H2]. unfold ensure. destruct (len b <? w); [|split; assumption]. split; cbn [data cnt].
  - intros i Hi. rewrite word_app_zeros by exact Hi. apply H1. exact Hi.
  - rewrite total_app_zeros. exact H2.
Qed.

(* one changed bit changes the population by one *)
Lemma pop64_change x y j : 0 <= j < 64 -> (forall k, 0 <= k < 64 -> k <> j -> Z.testbit y k = Z.testbit x k) ->
  pop64 y = pop64 x + Z.b2z (Z.testbit y j) - Z.b2z (Z.testbit x j).
Proof.
  intros Hj H. rewrite !pop64_bits. unfold bcount. apply (zsum_diff1 64 (fun k => Z.b2z (Z.testbit x k)) (fun k => Z.b2z (Z.testbit y k)) j); [lia|].
  intros k Hk Hn. cbv beta. rewrite H by lia. reflexivity.
Qed.

Lemma inv_set b i : 0 <= i -> Inv b -> Inv (set b i).
Proof.
  intros Hi HI. unfold set. set (b1 := ensure b (i / 64 + 1)). assert (I1 : Inv b1) by (apply inv_ensure; exact HI).
  assert (L : i / 64 + 1 <= len b1) by apply len_ensure. assert (Hq : 0 <= i / 64) by (apply Z.div_pos; lia). pose proof (Z.mod_pos_bound i 64 ltac:(lia)) as Hm.
  destruct I1 as [W1 C1]. unfold len in L. destruct (has (word (data b1) (i / 64)) (i mod 64)) eqn:Hb; [split; assumption|]. split; cbn [data cnt].
  - apply wfd_setw; [exact W1| |lia]. apply w64_lor; [apply W1; lia|apply w64_bitmask; lia].
  - rewrite total_setw by lia. rewrite (pop64_change (word (data b1) (i / 64)) (Z.lor (word (data b1) (i / 64)) (bitmask (i mod 64))) (i mod 64) Hm).
    + unfold has in Hb. rewrite Hb. unfold bitmask. rewrite Z.lor_spec, Z.pow2_bits_true by lia. rewrite orb_true_r. cbn [Z.b2z]. lia.
    + intros k Hk Hn. unfold bitmask. rewrite Z.lor_spec, Z.pow2_bits_false by lia. apply orb_false_r.
Qed.
Lemma inv_clear b i : 0 <= i -> Inv b -> Inv (clear b i).
Proof.
  intros Hi [W1 C1]. unfold clear. assert (Hq : 0 <= i / 64) by (apply Z.div_pos; lia). pose proof (Z.mod_pos_bound i 64 ltac:(lia)) as Hm.
  destruct (Z.ltb_spec (i / 64) (len b)) as [L|L]; [|split; assumption]. unfold len in L.
  destruct (has (word (data b) (i / 64)) (i mod 64)) eqn:Hb; [|split; assumption]. split; cbn [data cnt].
  - apply wfd_setw; [exact W1| |lia]. apply w64_land; [apply W1; lia|apply w64_not; apply w64_bitmask; lia].
  - rewrite total_setw by lia. rewrite (pop64_change (word (data b) (i / 64)) (Z.land (word (data b) (i / 64)) (18446744073709551615 - bitmask (i mod 64))) (i mod 64) Hm).
    + unfold has in Hb. rewrite Hb. rewrite Z.land_spec, clearmask_bits by lia. rewrite Z.eqb_refl. cbn [negb]. rewrite !andb_false_r. cbn [Z.b2z]. lia.
    + intros k Hk Hn. rewrite Z.land_spec, clearmask_bits by lia. rewrite (proj2 (Z.ltb_lt k 64)) by lia. rewrite (proj2 (Z.eqb_neq k (i mod 64))) by lia. apply andb_true_r.
Qed.
Lemma inv_flip b i : 0 <= i -> Inv b -> Inv (flip b i).
Proof.
  intros Hi HI. unfold flip. set (b1 := ensure b (i / 64 + 1)). assert (I1 : Inv b1) by (apply inv_ensure; exact HI).
  assert (L : i / 64 + 1 <= len b1) by apply len_ensure. assert (Hq : 0 <= i / 64) by (apply Z.div_pos; lia). pose proof (Z.mod_pos_bound i 64 ltac:(lia)) as Hm.
  destruct I1 as [W1 C1]. unfold len in L. split; cbn [data cnt].
  - apply wfd_setw; [exact W1| |lia]. apply w64_lxor; [apply W1; lia|apply w64_bitmask; lia].
  - rewrite total_setw by lia. rewrite (pop64_change (word (data b1) (i / 64)) (Z.lxor (word (data b1) (i / 64)) (bitmask (i mod 64))) (i mod 64) Hm).
    + unfold bitmask. rewrite Z.lxor_spec, Z.pow2_bits_true by lia. unfold has. destruct (Z.testbit (word (data b1) (i / 64)) (i mod 64)); cbn [xorb Z.b2z]; lia.
    + intros k Hk Hn. unfold bitmask. rewrite Z.lxor_spec, Z.pow2_bits_false by lia. apply xorb_false_r.
Qed.

(* range operations *)
Lemma inv_apply (f : Z -> Z -> Z) b lo hi : (forall o j l, w64 o -> 0 <= j -> 0 <= l <= 64 -> w64 (f o (range_mask j l))) ->
  0 <= lo -> lo <= hi -> hi / 64 < len b -> Inv b ->
  let r := range_loop (Z.to_nat (hi / 64 - lo / 64 + 1)) f (data b) (cnt b) (lo / 64) (lo / 64) (hi / 64) (lo mod 64) hi in Inv (mk (fst r) (snd r)).
Proof.
  intros Hf H0 H1 Hl [W1 C1]. assert (Q : lo / 64 <= hi / 64) by (apply Z.div_le_mono; lia). assert (0 <= lo / 64) by (apply Z.div_pos; lia).
  pose proof (Z.mod_pos_bound lo 64 ltac:(lia)). pose proof (Z.mod_pos_bound hi 64 ltac:(lia)).
  pose proof (range_loop_spec f (lo / 64) (hi / 64) (lo mod 64) hi (Z.to_nat (hi / 64 - lo / 64 + 1)) (data b) (cnt b) (lo / 64) (lo mod 64)
    ltac:(lia) ltac:(rewrite Z.eqb_refl; reflexivity) ltac:(lia) ltac:(lia) Hl) as (A & B & C).
  cbv zeta. split; cbn [data cnt].
  - intros i Hi. rewrite B by exact Hi. destruct ((lo / 64 <=? i) && (i <=? hi / 64)); [|apply W1; exact Hi]. unfold mask_at. apply Hf; [apply W1; exact Hi| |]; destruct (_ =? _); lia.
  - rewrite C. lia.
Qed.
Lemma inv_set_range b s e : 0 <= s -> 0 <= e -> Inv b -> Inv (set_range b s e).
Proof.
  intros Hs He HI. unfold set_range. rewrite order_spec. set (lo := Z.min s e). set (hi := Z.max s e).
  set (b1 := ensure b (hi / 64 + 1)). assert (L : hi / 64 + 1 <= len b1) by apply len_ensure. assert (I1 : Inv b1) by (apply inv_ensure; exact HI).
  pose proof (inv_apply (fun o m => Z.lor o m) b1 lo hi ltac:(intros; apply w64_lor; [assumption|apply w64_mask; assumption]) ltac:(lia) ltac:(lia) ltac:(lia) I1) as R.
  cbv zeta in R. destruct (range_loop _ _ _ _ _ _ _ _ _) as [d c]. exact R.
Qed.
Lemma inv_flip_range b s e : 0 <= s -> 0 <= e -> Inv b -> Inv (flip_range b s e).
Proof.
  intros Hs He HI. unfold flip_range. rewrite order_spec. set (lo := Z.min s e). set (hi := Z.max s e).
  set (b1 := ensure b (hi / 64 + 1)). assert (L : hi / 64 + 1 <= len b1) by apply len_ensure. assert (I1 : Inv b1) by (apply inv_ensure; exact HI).
  pose proof (inv_apply (fun o m => Z.lxor o m) b1 lo hi ltac:(intros; apply w64_lxor; [assumption|apply w64_mask; assumption]) ltac:(lia) ltac:(lia) ltac:(lia) I1) as R.
  cbv zeta in R. destruct (range_loop _ _ _ _ _ _ _ _ _) as [d c]. exact R.
Qed.
Lemma inv_clear_range b s e : 0 <= s -> 0 <= e -> Inv b -> Inv (clear_range b s e).
Proof.
  intros Hs He HI. unfold clear_range. rewrite order_spec. set (lo := Z.min s e). set (hi := Z.max s e).
  assert (Hlo : 0 <= lo) by lia. assert (Hlh : lo <= hi) by lia. clearbody lo hi.
  assert (Hf : forall o j l, w64 o -> 0 <= j -> 0 <= l <= 64 -> w64 (Z.land o (18446744073709551615 - range_mask j l))) by (intros; apply w64_land; [assumption|apply w64_not, w64_mask; assumption]).
  destruct (Z.ltb_spec (len b - 1) (lo / 64)) as [Hm|Hm]; [exact HI|].
  destruct (Z.ltb_spec (len b - 1) (hi / 64)) as [Hc|Hc].
  - set (hi' := (len b - 1 + 1) * 64 - 1).
    assert (Ed : hi' / 64 = len b - 1) by (unfold hi'; symmetry; apply (Z.div_unique_pos _ 64 _ 63); lia).
    assert (Hl' : lo <= hi'). { pose proof (Z.div_mod lo 64 ltac:(lia)). pose proof (Z.mod_pos_bound lo 64 ltac:(lia)). unfold hi'. lia. }
    pose proof (inv_apply (fun o m => Z.land o (18446744073709551615 - m)) b lo hi' Hf Hlo Hl' ltac:(lia) HI) as R. cbv zeta in R. rewrite Ed in R. destruct (range_loop _ _ _ _ _ _ _ _ _) as [d c]. exact R.
  - pose proof (inv_apply (fun o m => Z.land o (18446744073709551615 - m)) b lo hi Hf Hlo Hlh ltac:(lia) HI) as R. cbv zeta in R. destruct (range_loop _ _ _ _ _ _ _ _ _) as [d c]. exact R.
Qed.

(* capacity, export, import *)
Lemma trim_words b i : 0 <= i -> word (data (trim b)) i = word (data b) i.
Proof. intros Hi. unfold trim. cbn [data]. unfold len. apply trim_loop_word; lia. Qed.
Lemma inv_trim b : Inv b -> Inv (trim b).
Proof.
  intros [W1 C1]. split.
  - intros i Hi. rewrite trim_words by exact Hi. apply W1. exact Hi.
  - change (cnt (trim b)) with (cnt b). rewrite C1. apply total_same_words. intros i Hi. symmetry. apply trim_words. exact Hi.
Qed.
Lemma fold_total d : forall a, fold_left (fun a w => a + pop64 w) d a = a + total d.
Proof. induction d as [|w d IH]; intros a; cbn [fold_left total fold_right]; [lia|]. fold (total d). rewrite IH. lia. Qed.
Lemma inv_load d : wfd d -> Inv (load d).
Proof.
  intros H. unfold load. split; cbn [data cnt].
  - intros i Hi. rewrite trim_words by exact Hi. apply H. exact Hi.
  - rewrite fold_total. lia.
Qed.
Lemma mem_load d i : 0 <= i -> mem (load d) i = mem (mk d 0) i.
Proof. intros Hi. unfold load, mem. cbn [data]. rewrite trim_words by (apply Z.div_pos; lia). reflexivity. Qed.
Lemma inv_empty : Inv empty.
Proof. split; [intros i Hi; unfold empty; cbn [data]; rewrite word_nil; apply w64_0|reflexivity]. Qed.

(* operations with valid arguments: indexes are non-negative (the library exits otherwise), loaded words are 64-bit *)
Definition op_ok (o : op) : Prop :=
  match o with
  | OSet i | OClear i | OFlip i => 0 <= i
  | OSetRange s e | OClearRange s e | OFlipRange s e => 0 <= s /\ 0 <= e
  | OLoad d => wfd d
  | _ => True
  end.
Lemma inv_step b o : op_ok o -> Inv b -> Inv (step b o).
Proof.
  intros Ho HI. destruct o; cbn [step op_ok] in *.
  - apply inv_set; assumption.
  - apply inv_clear; assumption.
  - apply inv_flip; assumption.
  - destruct Ho. apply inv_set_range; assumption.
  - destruct Ho. apply inv_clear_range; assumption.
  - destruct Ho. apply inv_flip_range; assumption.
  - apply inv_trim; exact HI.
  - apply inv_ensure; exact HI.
  - apply inv_trim; exact HI.
  - apply inv_empty.
  - apply inv_load; exact Ho.
  - apply inv_load. unfold get_data. cbn [snd]. apply (inv_trim b HI).
  - exact HI.
  - exact HI.
Qed.
Theorem inv_run ops : Forall op_ok ops -> Inv (run ops).
Proof.
  unfold run. assert (G : forall b, Inv b -> Forall op_ok ops -> Inv (fold_left step ops b)).
  { induction ops as [|o ops IH]; intros b HI HF; [exact HI|]. cbn [fold_left]. inversion HF as [|? ? Ho HF']; subst. apply IH; [apply inv_step; assumption|exact HF']. }
  apply G. apply inv_empty.
Qed.

(* Count is the cardinality *)
Theorem count_card b N : Inv b -> (length (data b) <= N)%nat ->
  count b = Z.of_nat (length (filter (mem b) (map Z.of_nat (seq 0 (64 * N))))) /\ (forall i, 64 * Z.of_nat N <= i -> mem b i = false).
Proof.
  intros [W1 C1] HN. split.
  - unfold count. rewrite C1, (total_card b N HN). unfold card. apply bcount_filter.
  - intros i Hi. apply mem_beyond; [lia|]. unfold len. apply Z.div_le_lower_bound; lia.
Qed.
(* two sets with the same members have the same count *)
Lemma same_count a b : Inv a -> Inv b -> (forall i, 0 <= i -> mem a i = mem b i) -> count a = count b.
Proof.
  intros [_ Ca] [_ Cb] H. unfold count. rewrite Ca, Cb.
  rewrite (total_card a (Nat.max (length (data a)) (length (data b)))) by lia. rewrite (total_card b (Nat.max (length (data a)) (length (data b)))) by lia.
  unfold card, bcount. apply zsum_ext. intros k Hk. rewrite H by lia. reflexivity.
Qed.
