(* C08 — property theorems only. mem b i is the abstract set membership (bit i of the word list, words beyond the slice
   reading as 0). Indexes are all i >= 0; negative indexes exit the process in the Go code and are outside the quantifier. *)
From Coq Require Import ZArith List Bool Lia.
From Verif Require Import common.Word64Facts C08.Model C08.Proofs C08.Proofs2 C08.Proofs3 C08.Proofs4 C08.Proofs5.
Import ListNotations.
Open Scope Z_scope.

Theorem C08_state_is_membership : forall b i, 0 <= i -> state b i = mem b i.
Proof. exact state_mem. Qed.
Print Assumptions C08_state_is_membership.

Theorem C08_set : forall b i j, 0 <= i -> 0 <= j -> mem (set b i) j = (j =? i) || mem b j.
Proof. exact mem_set. Qed.
Print Assumptions C08_set.
Theorem C08_clear : forall b i j, 0 <= i -> 0 <= j -> mem (clear b i) j = mem b j && negb (j =? i).
Proof. exact mem_clear. Qed.
Print Assumptions C08_clear.
Theorem C08_flip : forall b i j, 0 <= i -> 0 <= j -> mem (flip b i) j = xorb (mem b j) (j =? i).
Proof. exact mem_flip. Qed.
Print Assumptions C08_flip.

(* Data, Trim, EnsureCapacity, Clone/Copy never change the set; Reset empties it *)
Theorem C08_trim_keeps_set : forall b i, 0 <= i -> mem (trim b) i = mem b i.
Proof. exact mem_trim. Qed.
Print Assumptions C08_trim_keeps_set.
Theorem C08_ensure_keeps_set : forall b w i, 0 <= i -> mem (ensure b w) i = mem b i.
Proof. exact mem_ensure. Qed.
Print Assumptions C08_ensure_keeps_set.
Theorem C08_data_keeps_set : forall b i, 0 <= i -> mem (fst (get_data b)) i = mem b i.
Proof. exact mem_data. Qed.
Print Assumptions C08_data_keeps_set.
Theorem C08_data_canonical : forall b, let d := snd (get_data b) in d = [] \/ word d (Z.of_nat (length d) - 1) <> 0.
Proof. exact data_canonical. Qed.
Print Assumptions C08_data_canonical.
Theorem C08_copy_keeps_set : forall b i, mem (copy_of b) i = mem b i /\ count (copy_of b) = count b.
Proof. exact mem_copy. Qed.
Print Assumptions C08_copy_keeps_set.
Theorem C08_reset_empties : forall b i, mem (reset b) i = false.
Proof. exact mem_reset. Qed.
Print Assumptions C08_reset_empties.
Theorem C08_count_unchanged_by_capacity_ops : forall b w, count (trim b) = count b /\ count (ensure b w) = count b.
Proof. intros b w. split; [exact (count_trim b) | exact (count_ensure b w)]. Qed.
Print Assumptions C08_count_unchanged_by_capacity_ops.

(* ---- range forms: ranges in either order, inside one word, across words, beyond the capacity ---- *)
Theorem C08_set_range : forall b s e k, 0 <= s -> 0 <= e -> 0 <= k -> mem (set_range b s e) k = mem b k || in_range (Z.min s e) (Z.max s e) k.
Proof. exact mem_set_range. Qed.
Print Assumptions C08_set_range.
Theorem C08_clear_range : forall b s e k, 0 <= s -> 0 <= e -> 0 <= k -> mem (clear_range b s e) k = mem b k && negb (in_range (Z.min s e) (Z.max s e) k).
Proof. exact mem_clear_range. Qed.
Print Assumptions C08_clear_range.
Theorem C08_flip_range : forall b s e k, 0 <= s -> 0 <= e -> 0 <= k -> mem (flip_range b s e) k = xorb (mem b k) (in_range (Z.min s e) (Z.max s e) k).
Proof. exact mem_flip_range. Qed.
Print Assumptions C08_flip_range.

(* ---- every history: State agrees with a mathematical set subjected to the same operations (sstep/srun, Proofs5.v), the words
   stay 64-bit and the cached count stays the population of the words (Inv) ---- *)
Theorem C08_history_refines_set : forall ops, Forall op_ok ops ->
  Inv (run ops) /\ (forall j, 0 <= j -> state (run ops) j = srun ops j).
Proof. intros ops H. destruct (refines ops H) as [I M]. split; [exact I|]. intros j Hj. rewrite state_mem by exact Hj. apply M. exact Hj. Qed.
Print Assumptions C08_history_refines_set.
(* Count is the cardinality: the number of members below 64*N for any N covering the storage, and there is no member above *)
Theorem C08_count_is_cardinality : forall ops N, Forall op_ok ops -> (length (data (run ops)) <= N)%nat ->
  count (run ops) = Z.of_nat (length (filter (mem (run ops)) (map Z.of_nat (seq 0 (64 * N)))))%nat /\
  (forall i, 64 * Z.of_nat N <= i -> mem (run ops) i = false).
Proof. intros ops N H HN. apply count_card; [exact (proj1 (refines ops H))|exact HN]. Qed.
Print Assumptions C08_count_is_cardinality.

(* ---- searches: the extreme matching index, or the documented sentinel ---- *)
Theorem C08_next_set : forall b s, 0 <= s -> let r := next_set b s in
  (r = -1 /\ forall k, s <= k -> mem b k = false) \/ (s <= r /\ mem b r = true /\ forall k, s <= k < r -> mem b k = false).
Proof. exact next_set_spec. Qed.
Print Assumptions C08_next_set.
Theorem C08_next_clear : forall b s, 0 <= s -> let r := next_clear b s in s <= r /\ mem b r = false /\ forall k, s <= k < r -> mem b k = true.
Proof. exact next_clear_spec. Qed.
Print Assumptions C08_next_clear.
Theorem C08_previous_set : forall b s, 0 <= s -> let r := previous_set b s in
  (r = -1 /\ forall k, 0 <= k <= s -> mem b k = false) \/ (0 <= r <= s /\ mem b r = true /\ forall k, r < k <= s -> mem b k = false).
Proof. exact previous_set_spec. Qed.
Print Assumptions C08_previous_set.
Theorem C08_previous_clear : forall b s, 0 <= s -> let r := previous_clear b s in
  (r = -1 /\ forall k, 0 <= k <= s -> mem b k = true) \/ (0 <= r <= s /\ mem b r = false /\ forall k, r < k <= s -> mem b k = true).
Proof. exact previous_clear_spec. Qed.
Print Assumptions C08_previous_clear.
Theorem C08_first_last_set : forall b,
  (let r := first_set b in (r = -1 /\ forall k, 0 <= k -> mem b k = false) \/ (0 <= r /\ mem b r = true /\ forall k, 0 <= k < r -> mem b k = false)) /\
  (let r := last_set b in (r = -1 /\ forall k, 0 <= k -> mem b k = false) \/ (0 <= r /\ mem b r = true /\ forall k, r < k -> mem b k = false)).
Proof. intros b. split; [exact (first_set_spec b)|exact (last_set_spec b)]. Qed.
Print Assumptions C08_first_last_set.

(* ---- Equal is extensional equality; Load(Data()) reproduces the set; Load builds the set the words denote ---- *)
Theorem C08_equal_iff_same_members : forall a b, Inv a -> Inv b -> (equal a b = true <-> forall i, 0 <= i -> mem a i = mem b i).
Proof. exact equal_spec. Qed.
Print Assumptions C08_equal_iff_same_members.
Theorem C08_load_data_reproduces : forall b, Inv b -> let b' := load (snd (get_data b)) in
  Inv b' /\ (forall i, 0 <= i -> mem b' i = mem b i) /\ count b' = count b.
Proof. exact load_data. Qed.
Print Assumptions C08_load_data_reproduces.
Theorem C08_load : forall d, wfd d -> Inv (load d) /\ forall i, 0 <= i -> mem (load d) i = bitat d i.
Proof. exact load_spec. Qed.
Print Assumptions C08_load.
(* non-vacuity: a history with every kind of operation meets op_ok, and its final state is the one computed by the set specification *)
Example C08_ex_history : let ops := [OSetRange 200 3; OFlipRange 60 70; OClearRange 130 5000; OTrim; OEnsure 9; OFlip 1000; OReload; OClear 1000; OData] in
  Forall op_ok ops /\ map (state (run ops)) [2; 3; 59; 60; 64; 70; 71; 129; 130; 1000] = map (srun ops) [2; 3; 59; 60; 64; 70; 71; 129; 130; 1000] /\ count (run ops) = 116.
Proof. cbv zeta. split; [repeat constructor; cbn; lia|]. split; vm_compute; reflexivity. Qed.

(* regression examples: the three histories that failed before the repairs *)
Example C08_ex_trim : state (trim (ensure (set empty 0) 2)) 0 = true. Proof. reflexivity. Qed.
Example C08_ex_clear_range : count (clear_range (set_range empty 0 127) 0 200) = 0. Proof. vm_compute. reflexivity. Qed.
Example C08_ex_equal : equal (set empty 3) (ensure (set empty 3) 4) = true. Proof. reflexivity. Qed.
