(* C08 — property theorems only. mem b i is the abstract set membership (bit i of the word list, words beyond the slice
   reading as 0). Indexes are all i >= 0; negative indexes exit the process in the Go code and are outside the quantifier. *)
From Coq Require Import ZArith List Bool.
From Verif Require Import C08.Model C08.Proofs.
Import ListNotations.
Open Scope Z_scope.

Theorem C08_state_is_membership : forall b i, 0 <= i -> state b i = mem b i.
Proof. exact state_mem. Qed.
Print Assumptions C08_state_is_membership.

Theorem C08_set : forall b i j, 0 <= i -> 0 <= j -> mem (set b i) j = (j =? i) || mem b j.
Proof. exact mem_set. Qed.
Print Assumptions C08_set.
Theorem C08_clear : forall b i j, 0 <= i -> 0 <= j -> mem (clear b i) j = mem b j && negb (j =? i).
Proof. exact mem_clear. Qed.
Print Assumptions C08_clear.
Theorem C08_flip : forall b i j, 0 <= i -> 0 <= j -> mem (flip b i) j = xorb (mem b j) (j =? i).
Proof. exact mem_flip. Qed.
Print Assumptions C08_flip.

(* Data, Trim, EnsureCapacity, Clone/Copy never change the set; Reset empties it *)
Theorem C08_trim_keeps_set : forall b i, 0 <= i -> mem (trim b) i = mem b i.
Proof. exact mem_trim. Qed.
Print Assumptions C08_trim_keeps_set.
Theorem C08_ensure_keeps_set : forall b w i, 0 <= i -> mem (ensure b w) i = mem b i.
Proof. exact mem_ensure. Qed.
Print Assumptions C08_ensure_keeps_set.
Theorem C08_data_keeps_set : forall b i, 0 <= i -> mem (fst (get_data b)) i = mem b i.
Proof. exact mem_data. Qed.
Print Assumptions C08_data_keeps_set.
Theorem C08_data_canonical : forall b, let d := snd (get_data b) in d = [] \/ word d (Z.of_nat (length d) - 1) <> 0.
Proof. exact data_canonical. Qed.
Print Assumptions C08_data_canonical.
Theorem C08_copy_keeps_set : forall b i, mem (copy_of b) i = mem b i /\ count (copy_of b) = count b.
Proof. exact mem_copy. Qed.
Print Assumptions C08_copy_keeps_set.
Theorem C08_reset_empties : forall b i, mem (reset b) i = false.
Proof. exact mem_reset. Qed.
Print Assumptions C08_reset_empties.
Theorem C08_count_unchanged_by_capacity_ops : forall b w, count (trim b) = count b /\ count (ensure b w) = count b.
Proof. intros b w. split; [exact (count_trim b) | exact (count_ensure b w)]. Qed.
Print Assumptions C08_count_unchanged_by_capacity_ops.

(* regression examples: the three histories that failed before the repairs *)
Example C08_ex_trim : state (trim (ensure (set empty 0) 2)) 0 = true. Proof. reflexivity. Qed.
Example C08_ex_clear_range : count (clear_range (set_range empty 0 127) 0 200) = 0. Proof. vm_compute. reflexivity. Qed.
Example C08_ex_equal : equal (set empty 3) (ensure (set empty 3) 4) = true. Proof. reflexivity. Qed.
