(* C08 — searches return the extreme matching index (or the documented sentinel); Equal is extensional equality; Load(Data()) reproduces the set. *)
From Coq Require Import ZArith List Bool Lia.
From Verif Require Import common.Word64 common.Word64Facts C01.ProofsBits C08.Model C08.Proofs C08.Proofs2 C08.Proofs3.
Import ListNotations.
Open Scope Z_scope.

Definition bitat (d : list Z) (k : Z) : bool := Z.testbit (word d (k / 64)) (k mod 64).
Lemma mem_bitat b k : mem b k = bitat (data b) k. Proof. reflexivity. Qed.
Lemma bitat_at d q t : 0 <= t < 64 -> bitat d (64 * q + t) = Z.testbit (word d q) t.
Proof.
  intros Ht. unfold bitat. replace ((64 * q + t) / 64) with q by (apply (Z.div_unique_pos _ 64 q t); lia).
  replace ((64 * q + t) mod 64) with t by (apply (Z.mod_unique_pos _ 64 q t); lia). reflexivity.
Qed.
Lemma eqb_want x want : Bool.eqb x want = false -> x = negb want.
Proof. destruct x, want; cbn; congruence. Qed.

Lemma up_bit_spec fuel w want : forall j, 0 <= j <= 64 -> 64 - j < Z.of_nat fuel ->
  match up_bit fuel w j want with
  | Some r => j <= r < 64 /\ Z.testbit w r = want /\ (forall k, j <= k < r -> Z.testbit w k = negb want)
  | None => forall k, j <= k < 64 -> Z.testbit w k = negb want end.
Proof.
  induction fuel as [|f IH]; intros j Hj Hf; [lia|]. cbn [up_bit]. destruct (Z.leb_spec 64 j); [intros k Hk; lia|].
  unfold has. destruct (Bool.eqb (Z.testbit w j) want) eqn:E.
  - apply Bool.eqb_prop in E. split; [lia|]. split; [exact E|]. intros k Hk. lia.
  - apply eqb_want in E. specialize (IH (j + 1) ltac:(lia) ltac:(lia)). destruct (up_bit f w (j + 1) want) as [r|].
    + destruct IH as (A & B & C). split; [lia|]. split; [exact B|]. intros k Hk. destruct (Z.eq_dec k j) as [->|]; [exact E|apply C; lia].
    + intros k Hk. destruct (Z.eq_dec k j) as [->|]; [exact E|apply IH; lia].
Qed.
Lemma down_bit_spec fuel w want : forall j, -1 <= j < 64 -> j + 1 < Z.of_nat fuel ->
  match down_bit fuel w j want with
  | Some r => 0 <= r <= j /\ Z.testbit w r = want /\ (forall k, r < k <= j -> Z.testbit w k = negb want)
  | None => forall k, 0 <= k <= j -> Z.testbit w k = negb want end.
Proof.
  induction fuel as [|f IH]; intros j Hj Hf; [lia|]. cbn [down_bit]. destruct (Z.ltb_spec j 0); [intros k Hk; lia|].
  unfold has. destruct (Bool.eqb (Z.testbit w j) want) eqn:E.
  - apply Bool.eqb_prop in E. split; [lia|]. split; [exact E|]. intros k Hk. lia.
  - apply eqb_want in E. specialize (IH (j - 1) ltac:(lia) ltac:(lia)). destruct (down_bit f w (j - 1) want) as [r|].
    + destruct IH as (A & B & C). split; [lia|]. split; [exact B|]. intros k Hk. destruct (Z.eq_dec k j) as [->|]; [exact E|apply C; lia].
    + intros k Hk. destruct (Z.eq_dec k j) as [->|]; [exact E|apply IH; lia].
Qed.

Ltac split_pos k := pose proof (Z.div_mod k 64 ltac:(lia)); pose proof (Z.mod_pos_bound k 64 ltac:(lia)).

Lemma next_loop_spec fuel d n want : forall i fb, 0 <= i -> 0 <= fb < 64 -> n - i < Z.of_nat fuel ->
  match next_loop fuel d i fb n want with
  | Some r => 64 * i + fb <= r < 64 * n /\ bitat d r = want /\ (forall k, 64 * i + fb <= k < r -> bitat d k = negb want)
  | None => forall k, 64 * i + fb <= k < 64 * n -> bitat d k = negb want end.
Proof.
  induction fuel as [|f IH]; intros i fb Hi Hfb Hf; [cbn [next_loop]; intros k Hk; lia|]. cbn [next_loop].
  destruct (Z.leb_spec n i); [intros k Hk; lia|].
  pose proof (up_bit_spec 65 (word d i) want fb ltac:(lia) ltac:(lia)) as U. destruct (up_bit 65 (word d i) fb want) as [j|].
  - destruct U as (A & B & C). replace (i * 64 + j) with (64 * i + j) by lia. split; [lia|]. split; [rewrite bitat_at by lia; exact B|].
    intros k Hk. split_pos k. assert (k / 64 = i) by lia. rewrite (Z.div_mod k 64) by lia. rewrite bitat_at by lia. rewrite H2. apply C. lia.
  - specialize (IH (i + 1) 0 ltac:(lia) ltac:(lia) ltac:(lia)). destruct (next_loop f d (i + 1) 0 n want) as [r|].
    + destruct IH as (A & B & C). split; [lia|]. split; [exact B|]. intros k Hk. destruct (Z_lt_le_dec k (64 * (i + 1))).
      * split_pos k. assert (k / 64 = i) by lia. rewrite (Z.div_mod k 64) by lia. rewrite bitat_at by lia. rewrite H2. apply U. lia.
      * apply C. lia.
    + intros k Hk. destruct (Z_lt_le_dec k (64 * (i + 1))).
      * split_pos k. assert (k / 64 = i) by lia. rewrite (Z.div_mod k 64) by lia. rewrite bitat_at by lia. rewrite H2. apply U. lia.
      * apply IH. lia.
Qed.
Lemma prev_loop_spec fuel d want : forall i fb, -1 <= i -> 0 <= fb < 64 -> i + 1 < Z.of_nat fuel ->
  let r := prev_loop fuel d i fb want in
  (r = -1 /\ forall k, 0 <= k <= 64 * i + fb -> bitat d k = negb want) \/
  (0 <= r <= 64 * i + fb /\ bitat d r = want /\ forall k, r < k <= 64 * i + fb -> bitat d k = negb want).
Proof.
  induction fuel as [|f IH]; intros i fb Hi Hfb Hf; [lia|]. cbn [prev_loop]. cbv zeta.
  destruct (Z.ltb_spec i 0); [left; split; [reflexivity|intros k Hk; lia]|].
  pose proof (down_bit_spec 65 (word d i) want fb ltac:(lia) ltac:(lia)) as U. destruct (down_bit 65 (word d i) fb want) as [j|].
  - destruct U as (A & B & C). right. replace (i * 64 + j) with (64 * i + j) by lia. split; [lia|]. split; [rewrite bitat_at by lia; exact B|].
    intros k Hk. split_pos k. assert (k / 64 = i) by lia. rewrite (Z.div_mod k 64) by lia. rewrite bitat_at by lia. rewrite H2. apply C. lia.
  - specialize (IH (i - 1) 63 ltac:(lia) ltac:(lia) ltac:(lia)). cbv zeta in IH.
    assert (Hw : forall k, 64 * i <= k <= 64 * i + fb -> bitat d k = negb want).
    { intros k Hk. split_pos k. assert (k / 64 = i) by lia. rewrite (Z.div_mod k 64) by lia. rewrite bitat_at by lia. rewrite H2. apply U. lia. }
    destruct IH as [[E A]|(A & B & C)].
    + left. split; [exact E|]. intros k Hk. destruct (Z_lt_le_dec k (64 * i)); [apply A; lia|apply Hw; lia].
    + right. split; [lia|]. split; [exact B|]. intros k Hk. destruct (Z_lt_le_dec k (64 * i)); [apply C; lia|apply Hw; lia].
Qed.

Lemma start_split s : 0 <= s -> 64 * (s / 64) + s mod 64 = s /\ 0 <= s / 64 /\ 0 <= s mod 64 < 64.
Proof. intros H. split_pos s. split; [lia|]. split; [apply Z.div_pos; lia|lia]. Qed.
Lemma mem_above b k : 64 * len b <= k -> mem b k = false.
Proof. intros H. assert (0 <= len b) by (unfold len; lia). apply mem_beyond; [lia|]. apply Z.div_le_lower_bound; lia. Qed.

Theorem next_set_spec b s : 0 <= s ->
  let r := next_set b s in
  (r = -1 /\ forall k, s <= k -> mem b k = false) \/ (s <= r /\ mem b r = true /\ forall k, s <= k < r -> mem b k = false).
Proof.
  intros Hs. cbv zeta. unfold next_set. destruct (start_split s Hs) as (E & Hq & Hm).
  pose proof (next_loop_spec (S (length (data b))) (data b) (len b) true (s / 64) (s mod 64) Hq Hm ltac:(unfold len; lia)) as N. rewrite E in N.
  destruct (next_loop _ _ _ _ _ _) as [r|].
  - destruct N as (A & B & C). right. split; [lia|]. split; [exact B|]. intros k Hk. apply C. lia.
  - left. split; [reflexivity|]. intros k Hk. destruct (Z_lt_le_dec k (64 * len b)); [apply N; lia|apply mem_above; lia].
Qed.
Theorem next_clear_spec b s : 0 <= s ->
  let r := next_clear b s in s <= r /\ mem b r = false /\ forall k, s <= k < r -> mem b k = true.
Proof.
  intros Hs. cbv zeta. unfold next_clear. destruct (start_split s Hs) as (E & Hq & Hm).
  pose proof (next_loop_spec (S (length (data b))) (data b) (len b) false (s / 64) (s mod 64) Hq Hm ltac:(unfold len; lia)) as N. rewrite E in N.
  destruct (next_loop _ _ _ _ _ _) as [r|].
  - destruct N as (A & B & C). split; [lia|]. split; [exact B|]. intros k Hk. apply C. lia.
  - split; [lia|]. split; [apply mem_above; lia|]. intros k Hk. apply N. lia.
Qed.
Theorem previous_set_spec b s : 0 <= s ->
  let r := previous_set b s in
  (r = -1 /\ forall k, 0 <= k <= s -> mem b k = false) \/ (0 <= r <= s /\ mem b r = true /\ forall k, r < k <= s -> mem b k = false).
Proof.
  intros Hs. cbv zeta. unfold previous_set. destruct (start_split s Hs) as (E & Hq & Hm). assert (0 <= len b) by (unfold len; lia).
  destruct (Z.ltb_spec (len b - 1) (s / 64)).
  - pose proof (prev_loop_spec (S (length (data b))) (data b) true (len b - 1) 63 ltac:(lia) ltac:(lia) ltac:(unfold len; lia)) as P. cbv zeta in P.
    destruct P as [[Er A]|(A & B & C)].
    + left. split; [exact Er|]. intros k Hk. destruct (Z_lt_le_dec k (64 * len b)); [apply A; lia|apply mem_above; lia].
    + right. split; [lia|]. split; [exact B|]. intros k Hk. destruct (Z_lt_le_dec k (64 * len b)); [apply C; lia|apply mem_above; lia].
  - pose proof (prev_loop_spec (S (length (data b))) (data b) true (s / 64) (s mod 64) ltac:(lia) Hm ltac:(unfold len in *; lia)) as P. cbv zeta in P. rewrite E in P. exact P.
Qed.
Theorem previous_clear_spec b s : 0 <= s ->
  let r := previous_clear b s in
  (r = -1 /\ forall k, 0 <= k <= s -> mem b k = true) \/ (0 <= r <= s /\ mem b r = false /\ forall k, r < k <= s -> mem b k = true).
Proof.
  intros Hs. cbv zeta. unfold previous_clear. destruct (start_split s Hs) as (E & Hq & Hm). assert (0 <= len b) by (unfold len; lia).
  destruct (Z.ltb_spec (len b - 1) (s / 64)).
  - right. split; [lia|]. split; [apply mem_beyond; lia|]. intros k Hk. lia.
  - pose proof (prev_loop_spec (S (length (data b))) (data b) false (s / 64) (s mod 64) ltac:(lia) Hm ltac:(unfold len in *; lia)) as P. cbv zeta in P. rewrite E in P. exact P.
Qed.
Theorem first_set_spec b : let r := first_set b in
  (r = -1 /\ forall k, 0 <= k -> mem b k = false) \/ (0 <= r /\ mem b r = true /\ forall k, 0 <= k < r -> mem b k = false).
Proof. exact (next_set_spec b 0 ltac:(lia)). Qed.
Theorem last_set_spec b : let r := last_set b in
  (r = -1 /\ forall k, 0 <= k -> mem b k = false) \/ (0 <= r /\ mem b r = true /\ forall k, r < k -> mem b k = false).
Proof.
  cbv zeta. unfold last_set. assert (0 <= len b) by (unfold len; lia). destruct (previous_set_spec b (len b * 64) ltac:(lia)) as [[E A]|(A & B & C)].
  - left. split; [exact E|]. intros k Hk. destruct (Z_lt_le_dec k (64 * len b)); [apply A; lia|apply mem_above; lia].
  - right. split; [lia|]. split; [exact B|]. intros k Hk. destruct (Z_lt_le_dec k (64 * len b)); [apply C; lia|apply mem_above; lia].
Qed.

(* ---- Equal ---- *)
Lemma words_of_mem a b : wfd a -> wfd b -> (forall i, 0 <= i -> bitat a i = bitat b i) -> forall w, 0 <= w -> word a w = word b w.
Proof.
  intros Wa Wb H w Hw. pose proof (Wa w Hw) as A. pose proof (Wb w Hw) as B. apply w64_bits in A, B. destruct A as [A0 A], B as [B0 B].
  apply Z.bits_inj'. intros n Hn. destruct (Z_lt_le_dec n 64).
  - specialize (H (64 * w + n) ltac:(lia)). rewrite !bitat_at in H by lia. exact H.
  - rewrite A, B by lia. reflexivity.
Qed.
Lemma forallb_combine_words a : forall b, forallb (fun p => fst p =? snd p) (combine a b) = true <->
  (forall i, (i < Nat.min (length a) (length b))%nat -> nth i a 0 = nth i b 0).
Proof.
  induction a as [|x a IH]; intros b; [cbn; split; [intros _ i Hi; lia|reflexivity]|]. destruct b as [|y b]; [cbn; split; [intros _ i Hi; lia|reflexivity]|].
  cbn [combine forallb fst snd length Nat.min]. rewrite andb_true_iff, IH, Z.eqb_eq. split.
  - intros [E H] [|i] Hi; [exact E|]. cbn [nth]. apply H. lia.
  - intros H. split; [exact (H 0%nat ltac:(lia))|]. intros i Hi. apply (H (S i)). lia.
Qed.
Lemma forallb_skipn_zero a : forall n, forallb (fun w => w =? 0) (skipn n a) = true <-> (forall i, (n <= i)%nat -> nth i a 0 = 0).
Proof.
  induction a as [|x a IH]; intros n.
  - rewrite skipn_nil. cbn. split; [intros _ i _; destruct i; reflexivity|reflexivity].
  - destruct n as [|n].
    + cbn [skipn forallb]. rewrite andb_true_iff, Z.eqb_eq. rewrite (IH 0%nat). split.
      * intros [E H] [|i] _; [exact E|]. cbn [nth]. apply H. lia.
      * intros H. split; [exact (H 0%nat ltac:(lia))|]. intros i _. apply (H (S i)). lia.
    + cbn [skipn]. rewrite IH. split.
      * intros H [|i] Hi; [lia|]. cbn [nth]. apply H. lia.
      * intros H i Hi. apply (H (S i)). lia.
Qed.
Theorem equal_spec a b : Inv a -> Inv b -> (equal a b = true <-> forall i, 0 <= i -> mem a i = mem b i).
Proof.
  intros Ia Ib. pose proof Ia as [Wa Ca]. pose proof Ib as [Wb Cb]. unfold equal. rewrite !andb_true_iff, forallb_combine_words, !forallb_skipn_zero, Z.eqb_eq. split.
  - intros [[[_ Hc] Ha] Hb] i Hi. unfold mem. f_equal. assert (Hq : 0 <= i / 64) by (apply Z.div_pos; lia). unfold word.
    set (n := Z.to_nat (i / 64)). destruct (Nat.lt_ge_cases n (Nat.min (length (data a)) (length (data b)))) as [L|L]; [apply Hc; exact L|].
    destruct (Nat.le_ge_cases (length (data a)) (length (data b))).
    + rewrite (nth_overflow (data a)) by lia. symmetry. apply Hb. lia.
    + rewrite (nth_overflow (data b)) by lia. apply Ha. lia.
  - intros H. assert (Hw : forall w, 0 <= w -> word (data a) w = word (data b) w) by (apply words_of_mem; assumption).
    assert (Hn : forall n, nth n (data a) 0 = nth n (data b) 0). { intros n. specialize (Hw (Z.of_nat n) ltac:(lia)). unfold word in Hw. rewrite Nat2Z.id in Hw. exact Hw. }
    split; [split; [split|]|].
    + apply (same_count a b Ia Ib H).
    + intros i _. apply Hn.
    + intros i Hi. rewrite Hn. apply nth_overflow. lia.
    + intros i Hi. rewrite <- Hn. apply nth_overflow. lia.
Qed.

(* ---- Load(Data()) reproduces the set; Load builds exactly the set denoted by the words ---- *)
Theorem load_data b : Inv b -> let b' := load (snd (get_data b)) in Inv b' /\ (forall i, 0 <= i -> mem b' i = mem b i) /\ count b' = count b.
Proof.
  intros HI. cbv zeta. unfold get_data. cbn [snd].
  assert (I' : Inv (load (data (trim b)))) by (apply inv_load; apply (inv_trim b HI)).
  assert (M : forall i, 0 <= i -> mem (load (data (trim b))) i = mem b i). { intros i Hi. rewrite mem_load by exact Hi. rewrite <- (mem_trim b i Hi). reflexivity. }
  split; [exact I'|]. split; [exact M|]. apply same_count; assumption.
Qed.
Theorem load_spec d : wfd d -> Inv (load d) /\ forall i, 0 <= i -> mem (load d) i = bitat d i.
Proof. intros H. split; [apply inv_load; exact H|]. intros i Hi. rewrite mem_load by exact Hi. reflexivity. Qed.
