(* C08 — executable model of xmath.BitSet (xmath/bitset.go) on a list of 64-bit words plus the cached count.
   Per-bit inner loops of the range operations are written as the equivalent word mask; countSetBits is the population
   count. Negative indexes (process exit) are outside the model. No proofs in this file. *)
From Coq Require Import ZArith List Bool.
Import ListNotations.
Open Scope Z_scope.
Notation MAX64 := 18446744073709551615 (only parsing).

Record bs := mk { data : list Z; cnt : Z }.
Definition empty := mk [] 0.
Definition len (b : bs) := Z.of_nat (length (data b)).
Definition word (d : list Z) (i : Z) := nth (Z.to_nat i) d 0.
Fixpoint upd (d : list Z) (i : nat) (x : Z) : list Z :=
  match d, i with [], _ => [] | _ :: r, O => x :: r | y :: r, S i' => y :: upd r i' x end.
Definition setw (d : list Z) (i : Z) (x : Z) := upd d (Z.to_nat i) x.
Fixpoint pop_aux (fuel : nat) (x : Z) : Z := match fuel with O => 0 | S f => (if Z.odd x then 1 else 0) + pop_aux f (x / 2) end.
Definition pop64 := pop_aux 64.
Definition bitmask (j : Z) := 2 ^ j.
Definition has (w j : Z) := Z.testbit w j.
(* bits [j, last) *)
Definition range_mask (j last : Z) := if last <=? j then 0 else 2 ^ last - 2 ^ j.

Definition ensure (b : bs) (words : Z) : bs :=
  let size := len b in
  if size <? words then
    let s2 := size * 2 in let s2 := if s2 <? words then words else s2 in
    mk (data b ++ repeat 0 (Z.to_nat (s2 - size))) (cnt b)
  else b.
Definition state (b : bs) (i : Z) : bool := let w := i / 64 in if len b <=? w then false else has (word (data b) w) (i mod 64).
Definition set (b : bs) (i : Z) : bs :=
  let w := i / 64 in let b := ensure b (w + 1) in let x := word (data b) w in
  if has x (i mod 64) then b else mk (setw (data b) w (Z.lor x (bitmask (i mod 64)))) (cnt b + 1).
Definition clear (b : bs) (i : Z) : bs :=
  let w := i / 64 in
  if w <? len b then let x := word (data b) w in
    if has x (i mod 64) then mk (setw (data b) w (Z.land x (MAX64 - bitmask (i mod 64)))) (cnt b - 1) else b
  else b.
Definition flip (b : bs) (i : Z) : bs :=
  let w := i / 64 in let b := ensure b (w + 1) in let x := word (data b) w in
  mk (setw (data b) w (Z.lxor x (bitmask (i mod 64)))) (if has x (i mod 64) then cnt b - 1 else cnt b + 1).

(* generic word-range loop: f old mask -> new word; counts adjusted by popcounts *)
Fixpoint range_loop (fuel : nat) (f : Z -> Z -> Z) (d : list Z) (c : Z) (i i1 i2 j e : Z) : list Z * Z :=
  match fuel with O => (d, c) | S fu =>
    if i2 <? i then (d, c) else
    let old := word d i in
    let m := if negb (i =? i1) && negb (i =? i2) then MAX64 else range_mask j (if i =? i2 then e mod 64 + 1 else 64) in
    let nw := f old m in
    range_loop fu f (setw d i nw) (c + pop64 nw - pop64 old) (i + 1) i1 i2 0 e
  end.
Definition order (s e : Z) := if e <? s then (e, s) else (s, e).
Definition set_range (b : bs) (s e : Z) : bs :=
  let '(s, e) := order s e in let i1 := s / 64 in let i2 := e / 64 in let b := ensure b (i2 + 1) in
  let '(d, c) := range_loop (Z.to_nat (i2 - i1 + 1)) (fun o m => Z.lor o m) (data b) (cnt b) i1 i1 i2 (s mod 64) e in mk d c.
Definition flip_range (b : bs) (s e : Z) : bs :=
  let '(s, e) := order s e in let i1 := s / 64 in let i2 := e / 64 in let b := ensure b (i2 + 1) in
  let '(d, c) := range_loop (Z.to_nat (i2 - i1 + 1)) (fun o m => Z.lxor o m) (data b) (cnt b) i1 i1 i2 (s mod 64) e in mk d c.
Definition clear_range (b : bs) (s e : Z) : bs :=
  let '(s, e) := order s e in let maximum := len b - 1 in let i1 := s / 64 in
  if maximum <? i1 then b else
  let i2 := e / 64 in
  let '(i2, e) := if maximum <? i2 then (maximum, (maximum + 1) * 64 - 1) else (i2, e) in
  let '(d, c) := range_loop (Z.to_nat (i2 - i1 + 1)) (fun o m => Z.land o (MAX64 - m)) (data b) (cnt b) i1 i1 i2 (s mod 64) e in mk d c.

(* searches *)
Fixpoint down_bit (fuel : nat) (w j : Z) (want : bool) : option Z :=
  match fuel with O => None | S f => if j <? 0 then None else if Bool.eqb (has w j) want then Some j else down_bit f w (j - 1) want end.
Fixpoint up_bit (fuel : nat) (w j : Z) (want : bool) : option Z :=
  match fuel with O => None | S f => if 64 <=? j then None else if Bool.eqb (has w j) want then Some j else up_bit f w (j + 1) want end.
Fixpoint prev_loop (fuel : nat) (d : list Z) (i fb : Z) (want : bool) : Z :=
  match fuel with O => -1 | S f => if i <? 0 then -1 else
    match down_bit 65 (word d i) fb want with Some j => i * 64 + j | None => prev_loop f d (i - 1) 63 want end end.
Fixpoint next_loop (fuel : nat) (d : list Z) (i fb n : Z) (want : bool) : option Z :=
  match fuel with O => None | S f => if n <=? i then None else
    match up_bit 65 (word d i) fb want with Some j => Some (i * 64 + j) | None => next_loop f d (i + 1) 0 n want end end.
Definition previous_set (b : bs) (start : Z) : Z :=
  let i := start / 64 in let maximum := len b - 1 in
  let '(i, fb) := if maximum <? i then (maximum, 63) else (i, start mod 64) in
  prev_loop (S (length (data b))) (data b) i fb true.
Definition next_set (b : bs) (start : Z) : Z :=
  match next_loop (S (length (data b))) (data b) (start / 64) (start mod 64) (len b) true with Some r => r | None => -1 end.
Definition previous_clear (b : bs) (start : Z) : Z :=
  let i := start / 64 in if len b - 1 <? i then start else prev_loop (S (length (data b))) (data b) i (start mod 64) false.
Definition next_clear (b : bs) (start : Z) : Z :=
  match next_loop (S (length (data b))) (data b) (start / 64) (start mod 64) (len b) false with Some r => r | None => Z.max (len b * 64) start end.
Definition first_set b := next_set b 0.
Definition last_set b := previous_set b (len b * 64).

(* Trim: drop trailing zero words *)
Fixpoint trim_loop (fuel : nat) (d : list Z) (i : Z) : list Z :=
  match fuel with O => [] | S f => if i <? 0 then [] else
    if negb (word d i =? 0) then firstn (Z.to_nat (i + 1)) d else trim_loop f d (i - 1) end.
Definition trim (b : bs) : bs := mk (trim_loop (S (length (data b))) (data b) (len b - 1)) (cnt b).
Definition get_data (b : bs) : bs * list Z := let t := trim b in (t, data t).
Definition load (d : list Z) : bs := let t := trim (mk d 0) in mk (data t) (fold_left (fun a w => a + pop64 w) (data t) 0).
Definition copy_of (b : bs) : bs := mk (data b) (cnt b).
(* Equal: same count, equal on the common prefix, remaining words of the longer one all zero *)
Definition equal (a b : bs) : bool :=
  (cnt a =? cnt b) &&
  forallb (fun p => fst p =? snd p) (combine (data a) (data b)) &&
  forallb (fun w => w =? 0) (skipn (length (data b)) (data a)) && forallb (fun w => w =? 0) (skipn (length (data a)) (data b)).
Definition count (b : bs) : Z := cnt b.
Definition reset (b : bs) : bs := empty.

(* operations as data, for histories *)
Inductive op :=
| OSet (i : Z) | OClear (i : Z) | OFlip (i : Z)
| OSetRange (s e : Z) | OClearRange (s e : Z) | OFlipRange (s e : Z)
| OTrim | OEnsure (w : Z) | OData | OReset | OLoad (d : list Z) | OReload | OCopy | OClone.
Definition step (b : bs) (o : op) : bs :=
  match o with
  | OSet i => set b i | OClear i => clear b i | OFlip i => flip b i
  | OSetRange s e => set_range b s e | OClearRange s e => clear_range b s e | OFlipRange s e => flip_range b s e
  | OTrim => trim b | OEnsure w => ensure b w | OData => fst (get_data b) | OReset => reset b
  | OLoad d => load d | OReload => load (snd (get_data b)) | OCopy => copy_of b | OClone => copy_of b
  end.
Definition run (ops : list op) : bs := fold_left step ops empty.

(* abstraction: membership, total on all i >= 0 because words beyond the slice read as 0 *)
Definition mem (b : bs) (i : Z) : bool := Z.testbit (word (data b) (i / 64)) (i mod 64).
