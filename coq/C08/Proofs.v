(* C08 — lemmas: the BitSet model refines a set of naturals (membership function mem) *)
From Coq Require Import ZArith List Bool Lia.
From Verif Require Import C08.Model.
Import ListNotations.
Open Scope Z_scope.

Lemma word_beyond d i : 0 <= i -> Z.of_nat (length d) <= i -> word d i = 0.
Proof. intros H0 H. unfold word. apply nth_overflow. lia. Qed.
Lemma state_mem b i : 0 <= i -> state b i = mem b i.
Proof.
  intros Hi. unfold state, mem, has, len. destruct (Z.of_nat (length (data b)) <=? i / 64) eqn:E; [|reflexivity].
  apply Z.leb_le in E. rewrite word_beyond by (try apply Z.div_pos; lia). now rewrite Z.testbit_0_l.
Qed.
Lemma word_app_zeros d n i : 0 <= i -> word (d ++ repeat 0 n) i = word d i.
Proof.
  intros Hi. unfold word. destruct (Z.to_nat i <? length d)%nat eqn:E.
  - apply Nat.ltb_lt in E. now rewrite app_nth1.
  - apply Nat.ltb_ge in E. rewrite app_nth2 by lia. rewrite (nth_overflow d) by lia.
    destruct (Nat.ltb (Z.to_nat i - length d) n) eqn:E2.
    + apply Nat.ltb_lt in E2. apply nth_repeat.
    + apply Nat.ltb_ge in E2. apply nth_overflow. rewrite repeat_length. lia.
Qed.
Lemma mem_ensure b w i : 0 <= i -> mem (ensure b w) i = mem b i.
Proof.
  intros Hi. unfold ensure, mem. destruct (len b <? w); [|reflexivity]. cbn [data].
  rewrite word_app_zeros by (apply Z.div_pos; lia). reflexivity.
Qed.
Lemma len_ensure b w : w <= len (ensure b w).
Proof.
  unfold ensure, len. destruct (Z.of_nat (length (data b)) <? w) eqn:E; [apply Z.ltb_lt in E | apply Z.ltb_ge in E; lia].
  cbn [data]. rewrite app_length, repeat_length.
  destruct (Z.of_nat (length (data b)) * 2 <? w) eqn:E2; [apply Z.ltb_lt in E2 | apply Z.ltb_ge in E2]; lia.
Qed.
Lemma word_upd d : forall w x i, (w < length d)%nat -> nth i (upd d w x) 0 = if (i =? w)%nat then x else nth i d 0.
Proof.
  induction d as [|y d IH]; intros w x i H; [cbn in H; lia|].
  destruct w, i; cbn; try reflexivity. apply IH. cbn in H. lia.
Qed.
Lemma word_setw d w x i : 0 <= w < Z.of_nat (length d) -> 0 <= i -> word (setw d w x) i = if i =? w then x else word d i.
Proof.
  intros Hw Hi. unfold word, setw. rewrite word_upd by lia.
  destruct (Z.to_nat i =? Z.to_nat w)%nat eqn:E; [apply Nat.eqb_eq in E | apply Nat.eqb_neq in E].
  - rewrite (proj2 (Z.eqb_eq i w)) by lia. reflexivity.
  - rewrite (proj2 (Z.eqb_neq i w)) by lia. reflexivity.
Qed.

Theorem mem_set b i j : 0 <= i -> 0 <= j -> mem (set b i) j = (j =? i) || mem b j.
Proof.
  intros Hi Hj. unfold set.
  set (b1 := ensure b (i / 64 + 1)).
  assert (L : i / 64 + 1 <= len b1) by apply len_ensure.
  assert (M : forall k, 0 <= k -> mem b1 k = mem b k) by (intros; apply mem_ensure; assumption).
  assert (Hq : 0 <= i / 64) by (apply Z.div_pos; lia).
  assert (Hm : 0 <= i mod 64 < 64) by (apply Z.mod_pos_bound; lia).
  destruct (has (word (data b1) (i / 64)) (i mod 64)) eqn:Hb.
  - (* already set *) rewrite M by assumption.
    destruct (j =? i) eqn:E; [|reflexivity]. apply Z.eqb_eq in E. subst j. rewrite <- M by assumption. exact Hb.
  - unfold mem at 1. cbn [data]. unfold len in L.
    rewrite word_setw by (try apply Z.div_pos; lia).
    destruct (j / 64 =? i / 64) eqn:Ew.
    + apply Z.eqb_eq in Ew. unfold bitmask. rewrite Z.lor_spec, Z.pow2_bits_eqb by lia.
      rewrite <- M by assumption. unfold mem. rewrite Ew.
      destruct (j =? i) eqn:E; [apply Z.eqb_eq in E; subst; rewrite Z.eqb_refl; now rewrite orb_true_r|].
      apply Z.eqb_neq in E.
      assert (i mod 64 <> j mod 64). { intro. pose proof (Z.div_mod i 64 ltac:(lia)). pose proof (Z.div_mod j 64 ltac:(lia)). lia. }
      rewrite (proj2 (Z.eqb_neq _ _) H). now rewrite orb_false_r.
    + apply Z.eqb_neq in Ew. rewrite <- M by assumption. unfold mem.
      destruct (j =? i) eqn:E; [apply Z.eqb_eq in E; subst; congruence | reflexivity].
Qed.

(* ---------- single-bit operations ---------- *)
Lemma max64_ones : 18446744073709551615 = Z.ones 64.
Proof. reflexivity. Qed.
Lemma clearmask_bits k m : 0 <= k < 64 -> 0 <= m ->
  Z.testbit (18446744073709551615 - bitmask k) m = (m <? 64) && negb (m =? k).
Proof.
  intros Hk Hm. rewrite max64_ones. unfold bitmask.
  rewrite Z.sub_nocarry_ldiff.
  - rewrite Z.ldiff_spec, Z.pow2_bits_eqb by lia. rewrite Z.testbit_ones_nonneg by lia.
    rewrite Z.eqb_sym. reflexivity.
  - apply Z.bits_inj'. intros n Hn. rewrite Z.ldiff_spec, Z.pow2_bits_eqb, Z.bits_0 by lia.
    destruct (k =? n) eqn:E; [|reflexivity]. apply Z.eqb_eq in E. subst n.
    rewrite Z.testbit_ones_nonneg by lia. rewrite (proj2 (Z.ltb_lt k 64)) by lia. reflexivity.
Qed.

Lemma split_index i j : 0 <= i -> 0 <= j -> (j =? i) = (j / 64 =? i / 64) && (j mod 64 =? i mod 64).
Proof.
  intros Hi Hj. pose proof (Z.div_mod i 64 ltac:(lia)). pose proof (Z.div_mod j 64 ltac:(lia)).
  destruct (j =? i) eqn:E; [apply Z.eqb_eq in E; subst; now rewrite !Z.eqb_refl|].
  apply Z.eqb_neq in E. symmetry. apply andb_false_iff.
  destruct (j / 64 =? i / 64) eqn:E1; [|auto]. right. apply Z.eqb_eq in E1. apply Z.eqb_neq. lia.
Qed.

Theorem mem_clear b i j : 0 <= i -> 0 <= j -> mem (clear b i) j = mem b j && negb (j =? i).
Proof.
  intros Hi Hj. unfold clear.
  assert (Hq : 0 <= i / 64) by (apply Z.div_pos; lia).
  assert (Hm : 0 <= i mod 64 < 64) by (apply Z.mod_pos_bound; lia).
  assert (Hmj : 0 <= j mod 64 < 64) by (apply Z.mod_pos_bound; lia).
  rewrite (split_index i j Hi Hj).
  destruct (i / 64 <? len b) eqn:L; [apply Z.ltb_lt in L | apply Z.ltb_ge in L].
  - destruct (has (word (data b) (i / 64)) (i mod 64)) eqn:Hb.
    + unfold mem at 1. cbn [data]. unfold len in L. rewrite word_setw by (try apply Z.div_pos; lia).
      destruct (j / 64 =? i / 64) eqn:Ew.
      * apply Z.eqb_eq in Ew. rewrite Z.land_spec, clearmask_bits by lia. unfold mem. rewrite Ew.
        rewrite (proj2 (Z.ltb_lt (j mod 64) 64)) by lia. reflexivity.
      * cbn [andb negb]. rewrite andb_true_r. reflexivity.
    + destruct (j / 64 =? i / 64) eqn:Ew; [|cbn; now rewrite andb_true_r]. apply Z.eqb_eq in Ew. cbn [andb].
      destruct (j mod 64 =? i mod 64) eqn:Eb; [|cbn; now rewrite andb_true_r]. apply Z.eqb_eq in Eb.
      unfold mem, has in *. rewrite Ew, Eb, Hb. reflexivity.
  - (* beyond the capacity: nothing there *)
    destruct (j / 64 =? i / 64) eqn:Ew; [|cbn; now rewrite andb_true_r]. apply Z.eqb_eq in Ew.
    unfold mem. rewrite Ew. unfold len in L. rewrite word_beyond by lia. rewrite Z.testbit_0_l. reflexivity.
Qed.

Theorem mem_flip b i j : 0 <= i -> 0 <= j -> mem (flip b i) j = xorb (mem b j) (j =? i).
Proof.
  intros Hi Hj. unfold flip.
  set (b1 := ensure b (i / 64 + 1)).
  assert (L : i / 64 + 1 <= len b1) by apply len_ensure.
  assert (M : forall k, 0 <= k -> mem b1 k = mem b k) by (intros; apply mem_ensure; assumption).
  assert (Hq : 0 <= i / 64) by (apply Z.div_pos; lia).
  assert (Hm : 0 <= i mod 64 < 64) by (apply Z.mod_pos_bound; lia).
  assert (Hmj : 0 <= j mod 64 < 64) by (apply Z.mod_pos_bound; lia).
  rewrite (split_index i j Hi Hj). rewrite <- M by assumption.
  unfold mem at 1. cbn [data]. unfold len in L. rewrite word_setw by (try apply Z.div_pos; lia).
  destruct (j / 64 =? i / 64) eqn:Ew.
  - apply Z.eqb_eq in Ew. unfold bitmask. rewrite Z.lxor_spec, Z.pow2_bits_eqb by lia. unfold mem. rewrite Ew.
    rewrite (Z.eqb_sym (i mod 64)). reflexivity.
  - cbn [andb]. rewrite xorb_false_r. reflexivity.
Qed.

(* ---------- capacity management never changes the set ---------- *)
Lemma word_firstn d n i : 0 <= i -> word (firstn n d) i = if (Z.to_nat i <? n)%nat then word d i else 0.
Proof.
  intros Hi. unfold word. revert n i Hi. induction d as [|y d IH]; intros n i Hi.
  - rewrite firstn_nil. destruct (Z.to_nat i); destruct (_ <? _)%nat; reflexivity.
  - destruct n as [|n]; [cbn; destruct (Z.to_nat i); reflexivity|].
    cbn [firstn]. destruct (Z.to_nat i) as [|k] eqn:E; [reflexivity|]. cbn [nth].
    specialize (IH n (Z.of_nat k) ltac:(lia)). rewrite Nat2Z.id in IH. rewrite IH.
    change (S k <? S n)%nat with (k <? n)%nat. reflexivity.
Qed.

Lemma word_nil k : word [] k = 0.
Proof. unfold word. destruct (Z.to_nat k); reflexivity. Qed.
Lemma trim_loop_word fuel d : forall i k, 0 <= k -> i < Z.of_nat fuel -> i < Z.of_nat (length d) ->
  (forall m, i < m -> m < Z.of_nat (length d) -> word d m = 0) ->
  word (trim_loop fuel d i) k = word d k.
Proof.
  induction fuel as [|f IH]; intros i k Hk Hf Hl Hz.
  - cbn [trim_loop]. rewrite word_nil. symmetry. destruct (Z_lt_le_dec k (Z.of_nat (length d))); [apply Hz; lia | apply word_beyond; lia].
  - cbn [trim_loop]. destruct (i <? 0) eqn:E0; [apply Z.ltb_lt in E0 | apply Z.ltb_ge in E0].
    + rewrite word_nil. symmetry.
      destruct (Z_lt_le_dec k (Z.of_nat (length d))); [apply Hz; lia | apply word_beyond; lia].
    + destruct (word d i =? 0) eqn:Ew; cbn [negb].
      * apply Z.eqb_eq in Ew. apply IH; try lia. intros m Hm1 Hm2.
        destruct (Z.eq_dec m i); [subst; assumption | apply Hz; lia].
      * rewrite word_firstn by lia.
        destruct (Z.to_nat k <? Z.to_nat (i + 1))%nat eqn:E; [reflexivity|]. apply Nat.ltb_ge in E.
        symmetry. destruct (Z_lt_le_dec k (Z.of_nat (length d))); [apply Hz; lia | apply word_beyond; lia].
Qed.

Theorem mem_trim b i : 0 <= i -> mem (trim b) i = mem b i.
Proof.
  intros Hi. unfold mem, trim. cbn [data]. f_equal. unfold len.
  apply trim_loop_word; try (apply Z.div_pos; lia); try lia.
Qed.
Theorem count_trim b : count (trim b) = count b. Proof. reflexivity. Qed.
Theorem count_ensure b w : count (ensure b w) = count b.
Proof. unfold ensure, count. destruct (len b <? w); reflexivity. Qed.
Theorem mem_data b i : 0 <= i -> mem (fst (get_data b)) i = mem b i.
Proof. apply mem_trim. Qed.
Theorem mem_copy b i : mem (copy_of b) i = mem b i /\ count (copy_of b) = count b.
Proof. split; reflexivity. Qed.
Theorem mem_reset b i : mem (reset b) i = false.
Proof. unfold reset, mem, empty, word. cbn. destruct (Z.to_nat (i / 64)); apply Z.testbit_0_l. Qed.
Theorem mem_empty i : mem empty i = false.
Proof. apply (mem_reset empty). Qed.

(* trim really shrinks: the last word of a trimmed set is not zero *)
Lemma trim_loop_last fuel d : forall i, i < Z.of_nat fuel -> i < Z.of_nat (length d) ->
  let t := trim_loop fuel d i in t = [] \/ word t (Z.of_nat (length t) - 1) <> 0.
Proof.
  induction fuel as [|f IH]; intros i Hf Hl; cbn [trim_loop]; [left; reflexivity|].
  destruct (i <? 0) eqn:E0; [left; reflexivity|]. apply Z.ltb_ge in E0.
  destruct (word d i =? 0) eqn:Ew; cbn [negb]; [apply IH; lia|]. apply Z.eqb_neq in Ew. right.
  rewrite firstn_length_le by lia. rewrite word_firstn by lia.
  replace (Z.of_nat (Z.to_nat (i + 1)) - 1) with i by lia.
  rewrite (proj2 (Nat.ltb_lt _ _)) by lia. exact Ew.
Qed.
Theorem data_canonical b : let d := snd (get_data b) in d = [] \/ word d (Z.of_nat (length d) - 1) <> 0.
Proof. unfold get_data, trim. cbn [snd data]. apply trim_loop_last; unfold len; lia. Qed.
