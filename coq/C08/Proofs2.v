(* C08 — range operations: SetRange / ClearRange / FlipRange act on membership exactly as on a set of naturals, for ranges in
   either order, inside one word, across any number of words and beyond the capacity. *)
From Coq Require Import ZArith List Bool Lia.
From Verif Require Import C08.Model C08.Proofs.
Import ListNotations.
Open Scope Z_scope.

Lemma range_mask_bits j last k : 0 <= j -> 0 <= k -> 0 <= last -> Z.testbit (range_mask j last) k = (j <=? k) && (k <? last).
Proof.
  intros Hj Hk Hl. unfold range_mask. destruct (Z.leb_spec last j).
  - rewrite Z.testbit_0_l. destruct (Z.leb_spec j k), (Z.ltb_spec k last); try reflexivity; lia.
  - assert (E : 2 ^ last - 2 ^ j = Z.shiftl (Z.ones (last - j)) j).
    { rewrite Z.shiftl_mul_pow2 by lia. rewrite Z.ones_equiv. assert (2 ^ last = 2 ^ (last - j) * 2 ^ j) by (rewrite <- Z.pow_add_r by lia; f_equal; lia). lia. }
    rewrite E, Z.shiftl_spec by lia. destruct (Z.leb_spec j k).
    + rewrite Z.testbit_ones_nonneg by lia. cbn [andb]. destruct (Z.ltb_spec (k - j) (last - j)), (Z.ltb_spec k last); try reflexivity; lia.
    + rewrite Z.testbit_neg_r by lia. reflexivity.
Qed.
Lemma range_mask_range j last : 0 <= j -> 0 <= last <= 64 -> 0 <= range_mask j last <= 18446744073709551615.
Proof.
  intros Hj Hl. unfold range_mask. destruct (Z.leb_spec last j); [lia|].
  assert (0 < 2 ^ j) by (apply Z.pow_pos_nonneg; lia). assert (2 ^ j < 2 ^ last) by (apply Z.pow_lt_mono_r; lia).
  assert (2 ^ last <= 2 ^ 64) by (apply Z.pow_le_mono_r; lia). change (2 ^ 64) with 18446744073709551616 in *. lia.
Qed.
Lemma max64_mask : 18446744073709551615 = range_mask 0 64. Proof. reflexivity. Qed.

(* total population of the words *)
Definition total (d : list Z) : Z := fold_right (fun w a => pop64 w + a) 0 d.
Lemma total_upd d : forall i x, (i < length d)%nat -> total (upd d i x) = total d - pop64 (nth i d 0) + pop64 x.
Proof.
  induction d as [|y d IH]; intros i x H; [cbn in H; lia|]. destruct i as [|i]; cbn [upd total fold_right nth].
  - lia.
  - fold (total d). fold (total (upd d i x)). rewrite IH by (cbn in H; lia). lia.
Qed.
Lemma total_setw d i x : 0 <= i < Z.of_nat (length d) -> total (setw d i x) = total d - pop64 (word d i) + pop64 x.
Proof. intros H. unfold setw, word. apply total_upd. lia. Qed.
Lemma upd_length d : forall i x, length (upd d i x) = length d.
Proof. induction d as [|y d IH]; intros [|i] x; cbn; try reflexivity. now rewrite IH. Qed.
Lemma setw_length d i x : length (setw d i x) = length d.
Proof. apply upd_length. Qed.

Section Loop.
Variables (f : Z -> Z -> Z) (i1 i2 sm e : Z).
Definition mask_at (i : Z) := range_mask (if i =? i1 then sm else 0) (if i =? i2 then e mod 64 + 1 else 64).
Lemma loop_mask i j : j = (if i =? i1 then sm else 0) ->
  (if negb (i =? i1) && negb (i =? i2) then 18446744073709551615 else range_mask j (if i =? i2 then e mod 64 + 1 else 64)) = mask_at i.
Proof. intros ->. unfold mask_at. destruct (i =? i1), (i =? i2); cbn [negb andb]; try reflexivity. Qed.

Lemma range_loop_spec fuel : forall d c i j, i1 <= i -> j = (if i =? i1 then sm else 0) -> Z.of_nat fuel = i2 - i + 1 -> 0 <= i -> i2 < Z.of_nat (length d) ->
  let r := range_loop fuel f d c i i1 i2 j e in
  length (fst r) = length d /\
  (forall w, 0 <= w -> word (fst r) w = if (i <=? w) && (w <=? i2) then f (word d w) (mask_at w) else word d w) /\
  snd r = c + (total (fst r) - total d).
Proof.
  induction fuel as [|fu IH]; intros d c i j Hi Hj Hf H0 Hl; cbn [range_loop].
  - cbn [fst snd]. split; [reflexivity|]. split; [|lia]. intros w Hw. destruct (Z.leb_spec i w), (Z.leb_spec w i2); cbn [andb]; try reflexivity; lia.
  - destruct (Z.ltb_spec i2 i); [lia|]. rewrite (loop_mask i j Hj).
    set (nw := f (word d i) (mask_at i)). set (d1 := setw d i nw).
    assert (L1 : length d1 = length d) by apply setw_length.
    specialize (IH d1 (c + pop64 nw - pop64 (word d i)) (i + 1) 0 ltac:(lia)).
    destruct IH as (A & B & C); [destruct (Z.eqb_spec (i + 1) i1); [lia|reflexivity] | lia | lia | rewrite L1; exact Hl |].
    split; [rewrite A; exact L1|]. split.
    + intros w Hw. rewrite (B w Hw). unfold d1. rewrite (word_setw d i nw w) by lia.
      destruct (Z.eqb_spec w i) as [->|N].
      * destruct (Z.leb_spec (i + 1) i); [lia|]. cbn [andb]. destruct (Z.leb_spec i i); [|lia]. destruct (Z.leb_spec i i2); [|lia]. reflexivity.
      * destruct (Z.leb_spec (i + 1) w), (Z.leb_spec i w), (Z.leb_spec w i2); cbn [andb]; try reflexivity; lia.
    + rewrite C. unfold d1. rewrite (total_setw d i nw) by lia. lia.
Qed.
End Loop.

(* position arithmetic: the word-and-bit description of "lo <= k <= hi" *)
Lemma in_range_split lo hi k : 0 <= lo -> lo <= hi -> 0 <= k ->
  ((lo / 64 <=? k / 64) && (k / 64 <=? hi / 64)) &&
  (((if k / 64 =? lo / 64 then lo mod 64 else 0) <=? k mod 64) && (k mod 64 <? (if k / 64 =? hi / 64 then hi mod 64 + 1 else 64)))
  = (lo <=? k) && (k <=? hi).
Proof.
  intros H0 H1 H2. pose proof (Z.div_mod lo 64 ltac:(lia)). pose proof (Z.div_mod hi 64 ltac:(lia)). pose proof (Z.div_mod k 64 ltac:(lia)).
  pose proof (Z.mod_pos_bound lo 64 ltac:(lia)). pose proof (Z.mod_pos_bound hi 64 ltac:(lia)). pose proof (Z.mod_pos_bound k 64 ltac:(lia)).
  set (ql := lo / 64) in *. set (rl := lo mod 64) in *. set (qh := hi / 64) in *. set (rh := hi mod 64) in *. set (qk := k / 64) in *. set (rk := k mod 64) in *.
  clearbody ql rl qh rh qk rk.
  destruct (Z.eqb_spec qk ql), (Z.eqb_spec qk qh);
  repeat match goal with
  | |- context [?a <=? ?b] => destruct (Z.leb_spec a b)
  | |- context [?a <? ?b] => destruct (Z.ltb_spec a b)
  end; cbn [andb]; try reflexivity; lia.
Qed.

(* a bitwise word function applied to [lo, hi] *)
Section Apply.
Variables (f : Z -> Z -> Z) (g : bool -> bool -> bool).
Hypothesis f_bits : forall o j l k, 0 <= j -> 0 <= l <= 64 -> 0 <= k < 64 -> Z.testbit (f o (range_mask j l)) k = g (Z.testbit o k) (Z.testbit (range_mask j l) k).
Hypothesis g_false : forall x, g x false = x.
Definition in_range lo hi k := (lo <=? k) && (k <=? hi).
Lemma apply_mem b lo hi : 0 <= lo -> lo <= hi -> hi / 64 < len b ->
  let r := range_loop (Z.to_nat (hi / 64 - lo / 64 + 1)) f (data b) (cnt b) (lo / 64) (lo / 64) (hi / 64) (lo mod 64) hi in
  length (fst r) = length (data b) /\ (forall k, 0 <= k -> mem (mk (fst r) (snd r)) k = g (mem b k) (in_range lo hi k)) /\
  snd r = cnt b + (total (fst r) - total (data b)).
Proof.
  intros H0 H1 Hl. assert (Q : lo / 64 <= hi / 64) by (apply Z.div_le_mono; lia). assert (0 <= lo / 64) by (apply Z.div_pos; lia).
  pose proof (range_loop_spec f (lo / 64) (hi / 64) (lo mod 64) hi (Z.to_nat (hi / 64 - lo / 64 + 1)) (data b) (cnt b) (lo / 64) (lo mod 64)
    ltac:(lia) ltac:(rewrite Z.eqb_refl; reflexivity) ltac:(lia) ltac:(lia) Hl) as (A & B & C).
  cbv zeta. split; [exact A|]. split; [|exact C]. intros k Hk. unfold mem. cbn [data].
  assert (0 <= k / 64) by (apply Z.div_pos; lia). pose proof (Z.mod_pos_bound k 64 ltac:(lia)). pose proof (Z.mod_pos_bound lo 64 ltac:(lia)). pose proof (Z.mod_pos_bound hi 64 ltac:(lia)).
  rewrite B by lia. unfold in_range. rewrite <- (in_range_split lo hi k H0 H1 Hk).
  destruct ((lo / 64 <=? k / 64) && (k / 64 <=? hi / 64)); cbn [andb]; [|symmetry; apply g_false].
  unfold mask_at. rewrite f_bits by (try destruct (_ =? _); lia). f_equal.
  apply range_mask_bits; try destruct (_ =? _); lia.
Qed.
End Apply.

Lemma lor_bits o j l k : 0 <= j -> 0 <= l <= 64 -> 0 <= k < 64 -> Z.testbit (Z.lor o (range_mask j l)) k = orb (Z.testbit o k) (Z.testbit (range_mask j l) k).
Proof. intros. apply Z.lor_spec. Qed.
Lemma lxor_bits o j l k : 0 <= j -> 0 <= l <= 64 -> 0 <= k < 64 -> Z.testbit (Z.lxor o (range_mask j l)) k = xorb (Z.testbit o k) (Z.testbit (range_mask j l) k).
Proof. intros. apply Z.lxor_spec. Qed.
Lemma notmask_bits m k : 0 <= m <= 18446744073709551615 -> 0 <= k < 64 -> Z.testbit (18446744073709551615 - m) k = negb (Z.testbit m k).
Proof.
  intros Hm Hk. rewrite max64_ones. rewrite Z.sub_nocarry_ldiff.
  - rewrite Z.ldiff_spec, Z.testbit_ones_nonneg by lia. rewrite (proj2 (Z.ltb_lt k 64)) by lia. reflexivity.
  - apply Z.bits_inj'. intros n Hn. rewrite Z.ldiff_spec, Z.bits_0. destruct (Z.ltb_spec n 64).
    + rewrite Z.testbit_ones_nonneg by lia. rewrite (proj2 (Z.ltb_lt n 64)) by lia. apply andb_false_r.
    + assert (Z.testbit m n = false) as ->; [|reflexivity]. destruct (Z.eq_dec m 0) as [->|]; [apply Z.bits_0|]. apply Z.bits_above_log2; [lia|].
      assert (Z.log2 m < 64); [|lia]. apply Z.log2_lt_pow2; [lia|]. change (2 ^ 64) with 18446744073709551616. lia.
Qed.
Lemma landnot_bits o j l k : 0 <= j -> 0 <= l <= 64 -> 0 <= k < 64 ->
  Z.testbit (Z.land o (18446744073709551615 - range_mask j l)) k = andb (Z.testbit o k) (negb (Z.testbit (range_mask j l) k)).
Proof. intros Hj Hl Hk. rewrite Z.land_spec, notmask_bits by (try apply range_mask_range; lia). reflexivity. Qed.

Lemma order_spec s e : order s e = (Z.min s e, Z.max s e).
Proof. unfold order. destruct (Z.ltb_spec e s); f_equal; lia. Qed.

Theorem mem_set_range b s e k : 0 <= s -> 0 <= e -> 0 <= k -> mem (set_range b s e) k = mem b k || in_range (Z.min s e) (Z.max s e) k.
Proof.
  intros Hs He Hk. unfold set_range. rewrite order_spec. set (lo := Z.min s e). set (hi := Z.max s e).
  set (b1 := ensure b (hi / 64 + 1)). assert (L : hi / 64 + 1 <= len b1) by apply len_ensure.
  destruct (apply_mem (fun o m => Z.lor o m) orb lor_bits orb_false_r b1 lo hi ltac:(lia) ltac:(lia) ltac:(lia)) as (_ & B & _).
  destruct (range_loop _ _ _ _ _ _ _ _ _) as [d c]. cbn [fst snd] in B. rewrite B by exact Hk. unfold b1. rewrite mem_ensure by exact Hk. reflexivity.
Qed.
Theorem mem_flip_range b s e k : 0 <= s -> 0 <= e -> 0 <= k -> mem (flip_range b s e) k = xorb (mem b k) (in_range (Z.min s e) (Z.max s e) k).
Proof.
  intros Hs He Hk. unfold flip_range. rewrite order_spec. set (lo := Z.min s e). set (hi := Z.max s e).
  set (b1 := ensure b (hi / 64 + 1)). assert (L : hi / 64 + 1 <= len b1) by apply len_ensure.
  destruct (apply_mem (fun o m => Z.lxor o m) xorb lxor_bits xorb_false_r b1 lo hi ltac:(lia) ltac:(lia) ltac:(lia)) as (_ & B & _).
  destruct (range_loop _ _ _ _ _ _ _ _ _) as [d c]. cbn [fst snd] in B. rewrite B by exact Hk. unfold b1. rewrite mem_ensure by exact Hk. reflexivity.
Qed.
Lemma mem_beyond b k : 0 <= k -> len b <= k / 64 -> mem b k = false.
Proof. intros Hk H. unfold mem. unfold len in H. rewrite word_beyond by (try apply Z.div_pos; lia). apply Z.bits_0. Qed.
Theorem mem_clear_range b s e k : 0 <= s -> 0 <= e -> 0 <= k -> mem (clear_range b s e) k = mem b k && negb (in_range (Z.min s e) (Z.max s e) k).
Proof.
  intros Hs He Hk. unfold clear_range. rewrite order_spec. set (lo := Z.min s e). set (hi := Z.max s e).
  assert (Hlo : 0 <= lo) by lia. assert (Hlh : lo <= hi) by lia. clearbody lo hi.
  assert (Q : lo / 64 <= hi / 64) by (apply Z.div_le_mono; lia).
  destruct (Z.ltb_spec (len b - 1) (lo / 64)) as [Hm|Hm].
  - (* the whole range is beyond the capacity *)
    unfold in_range. destruct (Z.leb_spec lo k); cbn [andb negb]; [|now rewrite andb_true_r].
    assert (lo / 64 <= k / 64) by (apply Z.div_le_mono; lia). rewrite mem_beyond by lia. reflexivity.
  - destruct (Z.ltb_spec (len b - 1) (hi / 64)) as [Hc|Hc].
    + (* clamped to the last word *)
      set (hi' := (len b - 1 + 1) * 64 - 1).
      assert (Ed : hi' / 64 = len b - 1) by (unfold hi'; symmetry; apply (Z.div_unique_pos _ 64 _ 63); lia).
      assert (Em : hi' mod 64 = 63) by (unfold hi'; symmetry; apply (Z.mod_unique_pos _ 64 (len b - 1) 63); lia).
      assert (Hl' : lo <= hi'). { pose proof (Z.div_mod lo 64 ltac:(lia)). pose proof (Z.mod_pos_bound lo 64 ltac:(lia)). unfold hi'. lia. }
      destruct (apply_mem (fun o m => Z.land o (18446744073709551615 - m)) (fun x y => x && negb y) landnot_bits (fun x => andb_true_r x) b lo hi' Hlo Hl' ltac:(lia)) as (_ & B & _).
      rewrite Ed in B. destruct (range_loop _ _ _ _ _ _ _ _ _) as [d c]. cbn [fst snd] in B. rewrite B by exact Hk.
      unfold in_range. destruct (Z.leb_spec k hi').
      * destruct (Z.leb_spec k hi); [reflexivity|]. pose proof (Z.div_mod hi 64 ltac:(lia)). pose proof (Z.mod_pos_bound hi 64 ltac:(lia)). unfold hi' in *. lia.
      * rewrite andb_false_r. cbn [negb]. rewrite andb_true_r. assert (len b <= k / 64). { apply Z.div_le_lower_bound; [lia|]. unfold hi' in *. lia. }
        rewrite mem_beyond by lia. reflexivity.
    + destruct (apply_mem (fun o m => Z.land o (18446744073709551615 - m)) (fun x y => x && negb y) landnot_bits (fun x => andb_true_r x) b lo hi Hlo Hlh ltac:(lia)) as (_ & B & _).
      destruct (range_loop _ _ _ _ _ _ _ _ _) as [d c]. cbn [fst snd] in B. rewrite B by exact Hk. reflexivity.
Qed.
