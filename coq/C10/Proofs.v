(* C10 — lemmas: the option map finds every declared name; each valid spelling is scanned into exactly its assignments;
   positional collection returns the tail verbatim; a response-file reference is its content; malformed vectors are fatal. *)
From Coq Require Import ZArith List Bool Lia.
From Verif Require Import C10.Model C10.Spec.
Import ListNotations.
Open Scope Z_scope.

Lemma seq_eq_true : forall a b, seq_eq a b = true -> a = b.
Proof.
  induction a as [|x a IH]; intros [|y b] H; cbn in H; try discriminate; [reflexivity|].
  apply andb_prop in H. destruct H as [H1 H2]. apply Z.eqb_eq in H1. subst. f_equal. apply IH, H2.
Qed.
Lemma seq_eq_refl : forall a, seq_eq a a = true.
Proof. induction a as [|x a IH]; [reflexivity|]. cbn. rewrite Z.eqb_refl. exact IH. Qed.
Lemma seq_eq_neq a b : a <> b -> seq_eq a b = false.
Proof. intro H. destruct (seq_eq a b) eqn:E; [|reflexivity]. apply seq_eq_true in E. contradiction. Qed.

(* ---- the option map *)
Lemma lookup_cons k i m k' : lookup ((k, i) :: m) k' = if seq_eq k k' then Some i else lookup m k'.
Proof. unfold lookup. cbn. destruct (seq_eq k k'); reflexivity. Qed.
Lemma lookup_add_fresh m k i k' j : lookup m k = None -> lookup m k' = Some j -> lookup ((k, i) :: m) k' = Some j.
Proof.
  intros Hf Hk. rewrite lookup_cons. destruct (seq_eq k k') eqn:E; [|exact Hk].
  apply seq_eq_true in E. subst. congruence.
Qed.
Lemma lookup_add_same m k i : lookup ((k, i) :: m) k = Some i.
Proof. rewrite lookup_cons, seq_eq_refl. reflexivity. Qed.

Lemma build_spec : forall opts i m m', build opts i m = Some m' ->
  (forall k j, lookup m k = Some j -> lookup m' k = Some j) /\
  (forall n o, nth_error opts n = Some o ->
     (forall c, single o = Some c -> lookup m' [c] = Some (i + n)%nat) /\ (forall nm, name o = Some nm -> lookup m' nm = Some (i + n)%nat)).
Proof.
  induction opts as [|o opts IH]; intros i m m' H.
  - cbn in H. injection H as <-. split; [auto|]. intros [|n] o' Hn; discriminate.
  - cbn [build] in H.
    set (m1 := match single o with
               | Some c => match lookup m [c] with Some _ => None | None => Some (([c], i) :: m) end
               | None => Some m end) in H.
    assert (exists m1' m2', m1 = Some m1' /\
        (match name o with Some n => match lookup m1' n with Some _ => None | None => Some ((n, i) :: m1') end | None => Some m1' end) = Some m2' /\
        build opts (S i) m2' = Some m') as (m1' & m2' & E1 & E2 & E3).
    { destruct (single o) as [c|] eqn:Es; destruct (name o) as [nm|] eqn:En; try discriminate;
      destruct m1 as [m1'|] eqn:E1; try discriminate; exists m1'.
      - destruct (lookup m1' nm) eqn:L; [discriminate|]. eexists; repeat split; eauto.
      - eexists; repeat split; eauto.
      - destruct (lookup m1' nm) eqn:L; [discriminate|]. eexists; repeat split; eauto. }
    destruct (IH _ _ _ E3) as [Hkeep Hnew].
    assert (K1 : forall k j, lookup m k = Some j -> lookup m1' k = Some j).
    { intros k j Hk. unfold m1 in E1. destruct (single o) as [c|]; [|injection E1 as <-; exact Hk].
      destruct (lookup m [c]) eqn:L; [discriminate|]. injection E1 as <-. apply lookup_add_fresh; assumption. }
    assert (K2 : forall k j, lookup m1' k = Some j -> lookup m2' k = Some j).
    { intros k j Hk. destruct (name o) as [nm|]; [|injection E2 as <-; exact Hk].
      destruct (lookup m1' nm) eqn:L; [discriminate|]. injection E2 as <-. apply lookup_add_fresh; assumption. }
    split; [intros k j Hk; apply Hkeep, K2, K1, Hk|].
    intros [|n] o' Hn.
    + cbn in Hn. injection Hn as <-. rewrite Nat.add_0_r. split.
      * intros c Hc. apply Hkeep, K2. unfold m1 in E1. rewrite Hc in E1.
        destruct (lookup m [c]); [discriminate|]. injection E1 as <-. apply lookup_add_same.
      * intros nm Hnm. apply Hkeep. rewrite Hnm in E2. destruct (lookup m1' nm); [discriminate|]. injection E2 as <-. apply lookup_add_same.
    + cbn in Hn. replace (i + S n)%nat with (S i + n)%nat by lia. apply Hnew, Hn.
Qed.

(* ---- scanning *)
Section Scan.
Variable opts : list option_.
Variable files : list (str * list str).
Variable m : list (str * nat).
Hypothesis Hm : build opts 0 [] = Some m.

Lemma lookup_single i o c : nth_error opts i = Some o -> single o = Some c -> lookup m [c] = Some i.
Proof. intros Hn Hc. destruct (build_spec _ _ _ _ Hm) as [_ H]. destruct (H i o Hn) as [H1 _]. apply H1. exact Hc. Qed.
Lemma lookup_name i o n : nth_error opts i = Some o -> name o = Some n -> lookup m n = Some i.
Proof. intros Hn Hc. destruct (build_spec _ _ _ _ Hm) as [_ H]. destruct (H i o Hn) as [_ H1]. apply H1. exact Hc. Qed.

Lemma has_short_lookup i : has_short opts i -> lookup m [single_of opts i] = Some i /\ single_of opts i <> 45.
Proof. intros (o & c & Hn & Hs & Hc). unfold single_of. rewrite Hn, Hs. split; [eapply lookup_single; eauto|exact Hc]. Qed.
Lemma has_long_lookup i : has_long opts i ->
  lookup m (name_of opts i) = Some i /\ name_of opts i <> [] /\ index_of 61 (name_of opts i) 0 = None.
Proof. intros (o & n & Hn & Hs & Hne & Hi). unfold name_of. rewrite Hn, Hs. split; [eapply lookup_name; eauto|split; assumption]. Qed.

(* grouped flags *)
Lemma shorts_flags : forall fl tl sets, short_flags opts fl ->
  shorts opts m (map (single_of opts) fl ++ tl) sets = shorts opts m tl (sets ++ set_flags fl).
Proof.
  induction fl as [|i fl IH]; intros tl sets H.
  - cbn. rewrite app_nil_r. reflexivity.
  - inversion H as [|? ? [Hs Hf] Hr]; subst. cbn [map app shorts]. destruct (has_short_lookup i Hs) as [L _]. rewrite L.
    unfold flag in Hf. rewrite Hf. rewrite IH by exact Hr. unfold set_flags. cbn [map]. rewrite <- app_assoc. reflexivity.
Qed.

Lemma index_of_app : forall n v k, index_of 61 n k = None -> index_of 61 (n ++ 61 :: v) k = Some (k + length n)%nat.
Proof.
  induction n as [|c n IH]; intros v k H.
  - cbn. f_equal. lia.
  - cbn in H |- *. destruct (c =? 61); [discriminate|]. rewrite IH by exact H. f_equal. lia.
Qed.
Lemma index_of_none_ge : forall n k, index_of 61 n k = None -> True. Proof. trivial. Qed.

Lemma firstn_app_exact {A} (a b : list A) : firstn (length a) (a ++ b) = a.
Proof. induction a; cbn; [destruct b; reflexivity|f_equal; assumption]. Qed.
Lemma skipn_app_exact {A} (a : list A) x b : skipn (S (length a)) (a ++ x :: b) = b.
Proof. induction a; cbn; [reflexivity|assumption]. Qed.

(* one step of the scanner on a long option *)
Lemma scan_long_noeq F nm more seen sets rest : nm <> [] -> index_of 61 nm 0 = None ->
  scan opts files (S F) m (dashes nm :: more) Look seen sets rest =
  match lookup m nm with
  | None => Fatal
  | Some oi => if is_bool (kind_of opts oi) then scan opts files F m more Look seen (sets ++ [(oi, str_true)]) rest
               else scan opts files F m more (SetVal oi) seen sets rest
  end.
Proof.
  intros Hne Hi. destruct nm as [|c nm]; [congruence|]. unfold dashes. cbn [scan]. change (45 =? 64) with false. change (45 =? 45) with true. cbv iota.
  rewrite Hi. reflexivity.
Qed.

Lemma scan_long_eq F nm v more seen sets rest : nm <> [] -> index_of 61 nm 0 = None ->
  scan opts files (S F) m (dashes (nm ++ 61 :: v) :: more) Look seen sets rest =
  match lookup m nm with
  | None => Fatal
  | Some oi => if is_bool (kind_of opts oi) then Fatal
               else if valid (kind_of opts oi) v then scan opts files F m more Look seen (sets ++ [(oi, v)]) rest else Fatal
  end.
Proof.
  intros Hne Hi. destruct nm as [|c nm]; [congruence|]. unfold dashes. cbn [scan app]. change (45 =? 64) with false. change (45 =? 45) with true. cbv iota.
  change (c :: nm ++ 61 :: v) with ((c :: nm) ++ 61 :: v). rewrite (index_of_app _ v 0%nat Hi). cbn [Nat.add].
  rewrite firstn_app_exact, skipn_app_exact. reflexivity.
Qed.
Lemma scan_setval F v more cur seen sets rest :
  scan opts files (S F) m (v :: more) (SetVal cur) seen sets rest =
  if valid (kind_of opts cur) v then scan opts files F m more Look seen (sets ++ [(cur, v)]) rest else Fatal.
Proof. reflexivity. Qed.
Lemma scan_short F c1 body more seen sets rest : c1 <> 45 ->
  scan opts files (S F) m ((45 :: c1 :: body) :: more) Look seen sets rest =
  match shorts opts m (c1 :: body) sets with
  | None => Fatal
  | Some (sets', st') => scan opts files F m more st' seen sets' rest
  end.
Proof.
  intro H. cbn [scan]. change (45 =? 64) with false. change (45 =? 45) with true. cbv iota.
  rewrite (proj2 (Z.eqb_neq c1 45) H). reflexivity.
Qed.
Lemma shorts_last c i sets : lookup m [c] = Some i -> is_bool (kind_of opts i) = false -> shorts opts m [c] sets = Some (sets, SetVal i).
Proof. intros L B. cbn [shorts]. rewrite L, B. reflexivity. Qed.
Lemma shorts_join c i c' r sets : lookup m [c] = Some i -> is_bool (kind_of opts i) = false -> c' <> 61 ->
  shorts opts m (c :: c' :: r) sets = if valid (kind_of opts i) (c' :: r) then Some (sets ++ [(i, c' :: r)], Look) else None.
Proof. intros L B N. cbn [shorts]. rewrite L, B. rewrite (proj2 (Z.eqb_neq c' 61) N). reflexivity. Qed.
Lemma shorts_eq c i v sets : lookup m [c] = Some i -> is_bool (kind_of opts i) = false ->
  shorts opts m (c :: 61 :: v) sets = if valid (kind_of opts i) v then Some (sets ++ [(i, v)], Look) else None.
Proof. intros L B. cbn [shorts]. rewrite L, B. change (61 =? 61) with true. reflexivity. Qed.

(* the head of a spelled group is never '-' *)
Lemma group_head fl i tl : short_flags opts fl -> has_short opts i ->
  exists c1 body, map (single_of opts) fl ++ single_of opts i :: tl = c1 :: body /\ c1 <> 45.
Proof.
  intros Hf Hi. destruct fl as [|f fl].
  - cbn. eexists _, _. split; [reflexivity|]. apply (has_short_lookup i Hi).
  - inversion Hf as [|? ? [Hs _] _]; subst. cbn. eexists _, _. split; [reflexivity|]. apply (has_short_lookup f Hs).
Qed.

Lemma scan_intent it more seen sets rest F : wf_intent opts it -> (length (spell opts it) <= F)%nat ->
  scan opts files F m (spell opts it ++ more) Look seen sets rest =
  scan opts files (F - length (spell opts it)) m more Look seen (sets ++ assigns it) rest.
Proof.
  intros W HF. destruct it as [i|i v|i v|fl|fl i v|fl i v|fl i v]; cbn [spell assigns length app] in *.
  - destruct W as [Hl Hf]. destruct (has_long_lookup i Hl) as (L & Hne & Hi). destruct F as [|F]; [lia|].
    rewrite scan_long_noeq by assumption. rewrite L. unfold flag in Hf. rewrite Hf. f_equal. lia.
  - destruct W as [Hl [Hb Hv]]. destruct (has_long_lookup i Hl) as (L & Hne & Hi). destruct F as [|F]; [lia|].
    rewrite scan_long_eq by assumption. rewrite L, Hb, Hv. f_equal. lia.
  - destruct W as [Hl [Hb Hv]]. destruct (has_long_lookup i Hl) as (L & Hne & Hi). destruct F as [|[|F]]; try lia.
    rewrite scan_long_noeq by assumption. rewrite L, Hb. rewrite scan_setval, Hv. f_equal. lia.
  - destruct W as [Hne Hf]. destruct F as [|F]; [lia|]. destruct fl as [|f fl]; [congruence|].
    inversion Hf as [|? ? [Hs _] _]; subst. cbn [map]. rewrite scan_short by apply (has_short_lookup f Hs).
    change (single_of opts f :: map (single_of opts) fl) with (map (single_of opts) (f :: fl)).
    rewrite <- (app_nil_r (map (single_of opts) (f :: fl))). rewrite shorts_flags by exact Hf. cbn [shorts]. f_equal. lia.
  - destruct W as (Hf & Hs & Hb & Hv). destruct F as [|[|F]]; try lia.
    destruct (group_head fl i [] Hf Hs) as (c1 & body & E & Hc). rewrite E, scan_short by exact Hc. rewrite <- E.
    rewrite shorts_flags by exact Hf. rewrite (shorts_last _ i) by (try apply (has_short_lookup i Hs); exact Hb).
    rewrite scan_setval, Hv. rewrite <- app_assoc. f_equal. lia.
  - destruct W as (Hf & Hs & [Hb Hv] & (c & r & -> & Hc)). destruct F as [|F]; [lia|].
    destruct (group_head fl i (c :: r) Hf Hs) as (c1 & body & E & Hc1). rewrite E, scan_short by exact Hc1. rewrite <- E.
    rewrite shorts_flags by exact Hf. rewrite (shorts_join _ i) by (try apply (has_short_lookup i Hs); assumption).
    rewrite Hv. rewrite <- app_assoc. f_equal. lia.
  - destruct W as (Hf & Hs & Hb & Hv). destruct F as [|F]; [lia|].
    destruct (group_head fl i (61 :: v) Hf Hs) as (c1 & body & E & Hc1). rewrite E, scan_short by exact Hc1. rewrite <- E.
    rewrite shorts_flags by exact Hf. rewrite (shorts_eq _ i) by (try apply (has_short_lookup i Hs); assumption).
    rewrite Hv. rewrite <- app_assoc. f_equal. lia.
Qed.

Lemma scan_intents : forall its more seen sets rest F, Forall (wf_intent opts) its -> (length (spell_all opts its) <= F)%nat ->
  scan opts files F m (spell_all opts its ++ more) Look seen sets rest =
  scan opts files (F - length (spell_all opts its)) m more Look seen (sets ++ assigns_all its) rest.
Proof.
  induction its as [|it its IH]; intros more seen sets rest F W HF.
  - cbn. rewrite app_nil_r, Nat.sub_0_r. reflexivity.
  - inversion W as [|? ? W1 W2]; subst. unfold spell_all, assigns_all in *. cbn [flat_map] in *. rewrite app_length in HF.
    rewrite <- app_assoc. rewrite scan_intent by (try exact W1; lia). rewrite IH by (try exact W2; lia).
    rewrite app_length, app_assoc. f_equal. lia.
Qed.

Lemma scan_collect : forall tl F seen sets rest, (length tl < F)%nat -> scan opts files F m tl Collect seen sets rest = Done sets (rest ++ tl).
Proof.
  induction tl as [|a tl IH]; intros F seen sets rest HF; (destruct F as [|F]; [cbn in HF; lia|]).
  - cbn. rewrite app_nil_r. reflexivity.
  - cbn [scan]. rewrite IH by (cbn in HF; lia). rewrite <- app_assoc. reflexivity.
Qed.

Lemma scan_tail t F seen sets rest : wf_tail t -> (length (tail_args t) < F)%nat ->
  scan opts files F m (tail_args t) Look seen sets rest = Done sets (rest ++ tail_rest t).
Proof.
  intros W HF. destruct t as [|l|p l]; cbn [tail_args tail_rest] in *.
  - destruct F; [lia|]. cbn. rewrite app_nil_r. reflexivity.
  - destruct F as [|F]; [lia|]. cbn [scan]. change (45 =? 64) with false. change (45 =? 45) with true. cbv iota.
    apply scan_collect. cbn in HF. lia.
  - destruct F as [|F]; [lia|]. cbn in HF. assert (HF' : (length l < F)%nat) by lia.
    destruct W as [-> | [-> | (c & r & -> & H1 & H2)]].
    + cbn [scan]. rewrite scan_collect by exact HF'. rewrite <- app_assoc. reflexivity.
    + cbn [scan]. change (45 =? 64) with false. change (45 =? 45) with true. cbv iota.
      rewrite scan_collect by exact HF'. rewrite <- app_assoc. reflexivity.
    + cbn [scan]. rewrite (proj2 (Z.eqb_neq c 64) H2), (proj2 (Z.eqb_neq c 45) H1).
      rewrite scan_collect by exact HF'. rewrite <- app_assoc. reflexivity.
Qed.

(* a response-file reference, met while looking for an option, is its content *)
Lemma scan_file F f ins more seen sets rest : mem f seen = false -> find (fun p => seq_eq (fst p) f) files = Some (f, ins) ->
  scan opts files (S F) m ((64 :: f) :: more) Look seen sets rest = scan opts files F m (ins ++ more) Look (f :: seen) sets rest.
Proof. intros Hs Hf. cbn [scan]. change (64 =? 64) with true. cbv iota. rewrite Hs, Hf. reflexivity. Qed.
(* ... and a second reference to the same file, or to a file that does not exist, is fatal *)
Lemma scan_file_again F f more seen sets rest : mem f seen = true -> scan opts files F m ((64 :: f) :: more) Look seen sets rest = Fatal.
Proof. intro Hs. destruct F; [reflexivity|]. cbn [scan]. change (64 =? 64) with true. cbv iota. rewrite Hs. reflexivity. Qed.
Lemma scan_file_missing F f more seen sets rest : find (fun p => seq_eq (fst p) f) files = None ->
  scan opts files F m ((64 :: f) :: more) Look seen sets rest = Fatal.
Proof. intro Hf. destruct F; [reflexivity|]. cbn [scan]. change (64 =? 64) with true. cbv iota. rewrite Hf. destruct (mem f seen); reflexivity. Qed.

(* ---- malformed continuations *)
Lemma shorts_unknown c r sets : lookup m [c] = None -> shorts opts m (c :: r) sets = None.
Proof. intro L. cbn [shorts]. rewrite L. reflexivity. Qed.

Lemma scan_malformed sfx : malformed opts m sfx -> forall F seen sets rest, scan opts files F m sfx Look seen sets rest = Fatal.
Proof.
  intros B F seen sets rest. destruct F as [|F]; [reflexivity|].
  destruct B as [nm more Hne Hi L | nm v more Hne Hi L | v more L | i v more Hl Hf | i v more Hl [Hb Hv] | i v more Hl [Hb Hv] | i Hl Hb
                | fl c r more Hf L Hc | fl i v more Hf Hs [Hb Hv] | fl i c r more Hf Hs [Hb Hv] Hc | fl i v more Hf Hs [Hb Hv] | fl i Hf Hs Hb].
  - rewrite scan_long_noeq by assumption. rewrite L. reflexivity.
  - rewrite scan_long_eq by assumption. rewrite L. reflexivity.
  - unfold dashes. cbn [scan]. change (45 =? 64) with false. change (45 =? 45) with true. cbv iota. cbn [index_of]. change (61 =? 61) with true. cbv iota.
    cbn [firstn]. rewrite L. reflexivity.
  - destruct (has_long_lookup i Hl) as (L & Hne & Hi). rewrite scan_long_eq by assumption. rewrite L. unfold flag in Hf. rewrite Hf. reflexivity.
  - destruct (has_long_lookup i Hl) as (L & Hne & Hi). rewrite scan_long_eq by assumption. rewrite L, Hb, Hv. reflexivity.
  - destruct (has_long_lookup i Hl) as (L & Hne & Hi). rewrite scan_long_noeq by assumption. rewrite L, Hb.
    destruct F as [|F]; [reflexivity|]. rewrite scan_setval, Hv. reflexivity.
  - destruct (has_long_lookup i Hl) as (L & Hne & Hi). rewrite scan_long_noeq by assumption. rewrite L, Hb. destruct F; reflexivity.
  - assert (exists c1 body, map (single_of opts) fl ++ c :: r = c1 :: body /\ c1 <> 45) as (c1 & body & E & Hc1).
    { destruct fl as [|f fl].
      - cbn. destruct Hc as [Hc|Hc]; [congruence|]. eauto.
      - inversion Hf as [|? ? [Hs _] _]; subst. cbn. eexists _, _. split; [reflexivity|]. apply (has_short_lookup f Hs). }
    rewrite E, scan_short by exact Hc1. rewrite <- E. rewrite shorts_flags by exact Hf. rewrite shorts_unknown by exact L. reflexivity.
  - destruct (group_head fl i [] Hf Hs) as (c1 & body & E & Hc1). rewrite E, scan_short by exact Hc1. rewrite <- E.
    rewrite shorts_flags by exact Hf. rewrite (shorts_last _ i) by (try apply (has_short_lookup i Hs); exact Hb).
    destruct F as [|F]; [reflexivity|]. rewrite scan_setval, Hv. reflexivity.
  - destruct (group_head fl i (c :: r) Hf Hs) as (c1 & body & E & Hc1). rewrite E, scan_short by exact Hc1. rewrite <- E.
    rewrite shorts_flags by exact Hf. rewrite (shorts_join _ i) by (try apply (has_short_lookup i Hs); assumption). rewrite Hv. reflexivity.
  - destruct (group_head fl i (61 :: v) Hf Hs) as (c1 & body & E & Hc1). rewrite E, scan_short by exact Hc1. rewrite <- E.
    rewrite shorts_flags by exact Hf. rewrite (shorts_eq _ i) by (try apply (has_short_lookup i Hs); assumption). rewrite Hv. reflexivity.
  - destruct (group_head fl i [] Hf Hs) as (c1 & body & E & Hc1). rewrite E, scan_short by exact Hc1. rewrite <- E.
    rewrite shorts_flags by exact Hf. rewrite (shorts_last _ i) by (try apply (has_short_lookup i Hs); exact Hb). destruct F; reflexivity.
Qed.

(* ---- vectors split into response files *)
Definition seg_need (s : seg) : nat := match s with Inline its => length (spell_all opts its) | InFile _ its => S (length (spell_all opts its)) end.
Definition need (segs : list seg) : nat := fold_right (fun s a => (seg_need s + a)%nat) 0%nat segs.

Lemma mem_cons f g seen : mem f (g :: seen) = seq_eq f g || mem f seen.
Proof. reflexivity. Qed.

Lemma scan_segs : forall segs more seen sets rest F,
  (forall f its, In (InFile f its) segs -> find (fun p => seq_eq (fst p) f) files = Some (f, spell_all opts its)) ->
  NoDup (file_names segs) -> (forall f, In f (file_names segs) -> mem f seen = false) ->
  Forall (wf_intent opts) (intents_of segs) -> (need segs <= F)%nat ->
  exists seen', scan opts files F m (render opts segs ++ more) Look seen sets rest =
                scan opts files (F - need segs) m more Look seen' (sets ++ assigns_all (intents_of segs)) rest.
Proof.
  induction segs as [|s segs IH]; intros more seen sets rest F Hfind Hnd Hseen W HF.
  - exists seen. cbn. rewrite app_nil_r, Nat.sub_0_r. reflexivity.
  - unfold render, intents_of, file_names in *. cbn [flat_map] in *. change (need (s :: segs)) with (seg_need s + need segs)%nat in *.
    apply Forall_app in W. destruct W as [W1 W2].
    destruct s as [its|f its]; cbn [seg_args seg_intents seg_names seg_need app] in *.
    + destruct (IH more seen (sets ++ assigns_all its) rest (F - length (spell_all opts its))%nat) as [seen' E];
        [intros; apply Hfind; right; assumption | exact Hnd | exact Hseen | exact W2 | lia |].
      exists seen'. rewrite <- app_assoc. rewrite scan_intents by (try exact W1; lia). rewrite E.
      unfold assigns_all. rewrite flat_map_app, app_assoc. f_equal. lia.
    + inversion Hnd as [|? ? Hnotin Hnd']; subst. destruct F as [|F]; [lia|].
      rewrite (scan_file F f (spell_all opts its)) by (try (apply Hseen; left; reflexivity); apply Hfind; left; reflexivity).
      destruct (IH more (f :: seen) (sets ++ assigns_all its) rest (F - length (spell_all opts its))%nat) as [seen' E];
        [intros; apply Hfind; right; assumption | exact Hnd' | | exact W2 | lia |].
      { intros g Hg. rewrite mem_cons. rewrite (Hseen g (or_intror Hg)). rewrite seq_eq_neq; [reflexivity|]. intros ->. contradiction. }
      exists seen'. rewrite scan_intents by (try exact W1; lia). rewrite E.
      unfold assigns_all. rewrite flat_map_app, app_assoc. f_equal. lia.
Qed.
End Scan.

(* ---- Parse as a whole *)
Lemma find_files_of opts : forall segs f its, NoDup (file_names segs) -> In (InFile f its) segs ->
  find (fun p => seq_eq (fst p) f) (files_of opts segs) = Some (f, spell_all opts its).
Proof.
  induction segs as [|s segs IH]; intros f its Hnd Hin; [contradiction|].
  unfold files_of, file_names in *. cbn [flat_map] in *. destruct Hin as [->|Hin].
  - cbn. rewrite seq_eq_refl. reflexivity.
  - destruct s as [its'|g its']; cbn [seg_files seg_names app] in *; [apply IH; assumption|].
    inversion Hnd as [|? ? Hnotin Hnd']; subst. cbn [find fst]. rewrite seq_eq_neq; [apply IH; assumption|].
    intros ->. apply Hnotin. apply in_flat_map. exists (InFile f its). split; [exact Hin|left; reflexivity].
Qed.

Lemma fold_len_acc {A} (l : list (A * list str)) : forall a, fold_left (fun a p => (a + length (snd p))%nat) l a = (a + fold_left (fun a p => (a + length (snd p))%nat) l 0)%nat.
Proof. induction l as [|p l IH]; intro a; cbn; [lia|]. rewrite IH, (IH (length (snd p))). lia. Qed.
Lemma total_len_segs opts : forall segs, total_len (files_of opts segs) (render opts segs) = need opts segs.
Proof.
  unfold total_len. induction segs as [|s segs IH]; [reflexivity|].
  unfold files_of, render in *. cbn [flat_map]. change (need opts (s :: segs)) with (seg_need opts s + need opts segs)%nat.
  destruct s as [its|f its]; cbn [seg_files seg_args seg_need app].
  - rewrite app_length. rewrite <- IH. lia.
  - cbn [fold_left length snd]. rewrite fold_len_acc. cbn [Nat.add]. rewrite <- IH. lia.
Qed.

Lemma no_help sets : Forall (fun p : nat * str => fst p <> 0%nat) sets -> existsb (fun p => (fst p =? 0)%nat) sets = false.
Proof. induction 1 as [|p l Hp _ IH]; [reflexivity|]. cbn. rewrite IH. rewrite (proj2 (Nat.eqb_neq _ _) Hp). reflexivity. Qed.

Theorem parse_valid opts m segs t : build opts 0 [] = Some m ->
  Forall (wf_intent opts) (intents_of segs) -> wf_tail t -> NoDup (file_names segs) ->
  Forall (fun p => fst p <> 0%nat) (assigns_all (intents_of segs)) ->
  parse opts (files_of opts segs) (render opts segs ++ tail_args t) = Done (assigns_all (intents_of segs)) (tail_rest t).
Proof.
  intros Hm W Wt Hnd Hh. unfold parse. rewrite Hm.
  set (F := (S (total_len (files_of opts segs) (render opts segs ++ tail_args t)) * 2)%nat).
  assert (HF : (need opts segs + length (tail_args t) < F)%nat).
  { unfold F, total_len. rewrite app_length. pose proof (total_len_segs opts segs) as T. unfold total_len in T. lia. }
  destruct (scan_segs opts (files_of opts segs) m Hm segs (tail_args t) [] [] [] F) as [seen' E];
    [intros; apply find_files_of; assumption | exact Hnd | reflexivity | exact W | lia |].
  rewrite E. rewrite scan_tail by (try exact Wt; lia). cbn [app]. rewrite no_help by exact Hh. reflexivity.
Qed.

Theorem parse_malformed opts files m its sfx : build opts 0 [] = Some m ->
  Forall (wf_intent opts) its -> malformed opts m sfx -> parse opts files (spell_all opts its ++ sfx) = Fatal.
Proof.
  intros Hm W B. unfold parse. rewrite Hm.
  rewrite (scan_intents opts files m Hm) by (try exact W; unfold total_len; rewrite app_length; lia).
  rewrite (scan_malformed opts files m Hm) by exact B. reflexivity.
Qed.

Theorem parse_help opts files args : (forall m sets rest F, build opts 0 [] = Some m -> scan opts files F m args Look [] [] [] = Done sets rest ->
  existsb (fun p => (fst p =? 0)%nat) sets = true) -> parse opts files args = Fatal.
Proof.
  intro H. unfold parse. destruct (build opts 0 []) as [m|] eqn:Hm; [|reflexivity].
  destruct (scan _ _ _ _ _ _ _ _ _) as [|sets rest] eqn:E; [reflexivity|]. rewrite (H m sets rest _ eq_refl E). reflexivity.
Qed.

Theorem parse_bad_table opts files args : build opts 0 [] = None -> parse opts files args = Fatal.
Proof. intro H. unfold parse. rewrite H. reflexivity. Qed.

Theorem parse_files_transparent opts m segs t : build opts 0 [] = Some m ->
  Forall (wf_intent opts) (intents_of segs) -> wf_tail t -> NoDup (file_names segs) ->
  Forall (fun p => fst p <> 0%nat) (assigns_all (intents_of segs)) ->
  parse opts (files_of opts segs) (render opts segs ++ tail_args t) = parse opts [] (spell_all opts (intents_of segs) ++ tail_args t).
Proof.
  intros Hm W Wt Hnd Hh. rewrite (parse_valid opts m segs t) by assumption.
  pose proof (parse_valid opts m [Inline (intents_of segs)] t Hm) as P.
  unfold render, files_of, file_names, intents_of in P. cbn [flat_map seg_args seg_files seg_names seg_intents app] in P.
  rewrite !app_nil_r in P. symmetry. apply P; [exact W | exact Wt | constructor | exact Hh].
Qed.

Theorem parse_help_requested opts m segs t : build opts 0 [] = Some m ->
  Forall (wf_intent opts) (intents_of segs) -> wf_tail t -> NoDup (file_names segs) ->
  Exists (fun p => fst p = 0%nat) (assigns_all (intents_of segs)) ->
  parse opts (files_of opts segs) (render opts segs ++ tail_args t) = Fatal.
Proof.
  intros Hm W Wt Hnd Hh. unfold parse. rewrite Hm.
  set (F := (S (total_len (files_of opts segs) (render opts segs ++ tail_args t)) * 2)%nat).
  assert (HF : (need opts segs + length (tail_args t) < F)%nat).
  { unfold F, total_len. rewrite app_length. pose proof (total_len_segs opts segs) as T. unfold total_len in T. lia. }
  destruct (scan_segs opts (files_of opts segs) m Hm segs (tail_args t) [] [] [] F) as [seen' E];
    [intros; apply find_files_of; assumption | exact Hnd | reflexivity | exact W | lia |].
  rewrite E. rewrite scan_tail by (try exact Wt; lia). cbn [app].
  replace (existsb _ _) with true; [reflexivity|]. symmetry. apply existsb_exists. apply Exists_exists in Hh.
  destruct Hh as (p & Hin & Hp). exists p. split; [exact Hin|]. rewrite Hp. reflexivity.
Qed.

Theorem unnamed_option_rejected : forall opts i m o, In o opts -> single o = None -> name o = None -> build opts i m = None.
Proof.
  induction opts as [|o' opts IH]; intros i m o Hin Hs Hn; [contradiction|]. destruct Hin as [->|Hin].
  - cbn [build]. rewrite Hs, Hn. reflexivity.
  - cbn [build]. destruct (single o') as [c|]; destruct (name o') as [nm|]; try reflexivity;
      repeat match goal with |- context[match lookup ?a ?b with _ => _ end] => destruct (lookup a b) end; try reflexivity; eapply IH; eauto.
Qed.
