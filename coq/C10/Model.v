(* C10 — executable model of cmdline.Parse (cmdline.go) with GeneralValue.Set (values.go): the option table, the three-state
   scanner over the argument vector (grouped short options, =, --, a lone -, @file response files with the seen set), and the
   fatal-exit path (atexit.Exit) as the outcome Fatal. Values are kept as the raw strings that were assigned; which strings a
   kind accepts is valid. Integer kinds accept decimal spellings in range (base prefixes and underscores, which strconv also
   accepts, are not generated); float and duration kinds accept the spellings of a fixed pool. No proofs in this file. *)
From Coq Require Import ZArith List Bool.
Import ListNotations.
Open Scope Z_scope.
Definition str := list Z.
Fixpoint seq_eq (a b : str) : bool := match a, b with [], [] => true | x :: a', y :: b' => (x =? y) && seq_eq a' b' | _, _ => false end.

Inductive kind := KBool | KStr | KInt (bits : Z) (signed : bool) | KFloat | KDur | KSlice (elem : kind).
Record option_ := { single : option Z; name : option str; knd : kind }.

Definition is_digit (c : Z) := (48 <=? c) && (c <=? 57).
Fixpoint dec_val (s : str) (acc : Z) : Z := match s with [] => acc | c :: r => dec_val r (acc * 10 + (c - 48)) end.
Fixpoint oct_val (s : str) (acc : Z) : Z := match s with [] => acc | c :: r => oct_val r (acc * 8 + (c - 48)) end.
Definition is_octal (c : Z) := (48 <=? c) && (c <=? 55).
(* strconv.ParseInt(s, 0, bits) on the spellings generated: optional sign, then decimal digits, or 0 followed by octal digits.
   sign: 0 none, 1 plus, 2 minus *)
Definition split_sign (s : str) : Z * str :=
  match s with c :: r => if c =? 45 then (2, r) else if c =? 43 then (1, r) else (0, s) | [] => (0, s) end.
Definition int_value (s : str) : option Z :=
  let '(sg, body) := split_sign s in
  match body with
  | [] => None
  | c :: r =>
    if forallb is_digit body then
      let mag := if c =? 48 then (if forallb is_octal r then Some (oct_val r 0) else None) else Some (dec_val body 0) in
      match mag with Some v => Some (if sg =? 2 then - v else v) | None => None end
    else None
  end.
Definition valid_int (bits : Z) (signed : bool) (s : str) : bool :=
  match int_value s with
  | None => false
  | Some v => if signed then (- 2 ^ (bits - 1) <=? v) && (v <? 2 ^ (bits - 1))
              else (0 <=? v) && (v <? 2 ^ bits) && (fst (split_sign s) =? 0)      (* ParseUint permits no sign *)
  end.
Definition mem (s : str) (l : list str) := existsb (seq_eq s) l.
Definition bool_spellings : list str :=
  [[49];[116];[84];[84;82;85;69];[116;114;117;101];[84;114;117;101];[48];[102];[70];[70;65;76;83;69];[102;97;108;115;101];[70;97;108;115;101]].
Definition float_pool : list str := [[49;46;53];[45;50];[48;46;50;53];[49;101;51];[43;55];[46;53]].            (* 1.5 -2 0.25 1e3 +7 .5 *)
Definition dur_pool : list str := [[49;115];[57;48;115];[50;104];[49;46;53;104];[51;48;48;109;115];[48]].      (* 1s 90s 2h 1.5h 300ms 0 *)
Fixpoint valid (k : kind) (s : str) : bool :=
  match k with
  | KBool => mem s bool_spellings
  | KStr => true
  | KInt b sg => valid_int b sg s
  | KFloat => mem s float_pool
  | KDur => mem s dur_pool
  | KSlice e => valid e s
  end.
Definition is_bool (k : kind) := match k with KBool => true | _ => false end.

(* availableOptions: one map keyed by both spellings; Fatal (None) on an option without any name or on a duplicate *)
Definition lookup (m : list (str * nat)) (k : str) : option nat :=
  match find (fun p => seq_eq (fst p) k) m with Some p => Some (snd p) | None => None end.
Fixpoint build (opts : list option_) (i : nat) (m : list (str * nat)) : option (list (str * nat)) :=
  match opts with
  | [] => Some m
  | o :: r =>
    match single o, name o with
    | None, None => None
    | _, _ =>
      let m1 := match single o with
                | Some c => match lookup m [c] with Some _ => None | None => Some (([c], i) :: m) end
                | None => Some m end in
      match m1 with None => None | Some m1 =>
        let m2 := match name o with
                  | Some n => match lookup m1 n with Some _ => None | None => Some ((n, i) :: m1) end
                  | None => Some m1 end in
        match m2 with None => None | Some m2 => build r (S i) m2 end end
    end
  end.

Inductive state := Look | SetVal (cur : nat) | Collect.
Inductive outcome := Fatal | Done (sets : list (nat * str)) (rest : list str).
Fixpoint index_of (c : Z) (s : str) (i : nat) : option nat := match s with [] => None | x :: r => if x =? c then Some i else index_of c r (S i) end.
Definition str_true : str := [116;114;117;101].

Section P.
Variable opts : list option_.
Variable files : list (str * list str).
Definition kind_of (i : nat) := match nth_error opts i with Some o => knd o | None => KStr end.

(* grouped short options: None = Fatal, Some (assignments, new state) *)
Fixpoint shorts (m : list (str * nat)) (arg : str) (sets : list (nat * str)) : option (list (nat * str) * state) :=
  match arg with
  | [] => Some (sets, Look)
  | ch :: rest =>
    match lookup m [ch] with
    | None => None
    | Some oi =>
      let k := kind_of oi in
      if is_bool k then shorts m rest (sets ++ [(oi, str_true)])
      else match rest with
           | [] => Some (sets, SetVal oi)
           | c :: v => let v' := if c =? 61 then v else rest in
                       if valid k v' then Some (sets ++ [(oi, v')], Look) else None
           end
    end
  end.

Fixpoint scan (fuel : nat) (m : list (str * nat)) (args : list str) (st : state) (seen : list str) (sets : list (nat * str)) (rest : list str) : outcome :=
  match fuel with O => Fatal | S f =>
  match args with
  | [] => match st with SetVal _ => Fatal | _ => Done sets rest end
  | arg :: more =>
    match st with
    | Collect => scan f m more Collect seen sets (rest ++ [arg])
    | SetVal cur => if valid (kind_of cur) arg then scan f m more Look seen (sets ++ [(cur, arg)]) rest else Fatal
    | Look =>
      match arg with
      | [] => scan f m more Collect seen sets (rest ++ [arg])
      | c0 :: tl0 =>
        if c0 =? 64 then                                             (* @file *)
          if mem tl0 seen then Fatal else
          match find (fun p => seq_eq (fst p) tl0) files with
          | None => Fatal
          | Some (_, ins) => scan f m (ins ++ more) Look (tl0 :: seen) sets rest
          end
        else if c0 =? 45 then
          match tl0 with
          | [] => scan f m more Collect seen sets (rest ++ [arg])     (* a lone "-" is the first positional argument *)
          | c1 :: body =>
            if c1 =? 45 then
              match body with
              | [] => scan f m more Collect seen sets rest             (* "--" *)
              | _ =>
                let '(nm, val) := match index_of 61 body 0 with
                                  | Some i => (firstn i body, Some (skipn (S i) body))
                                  | None => (body, None) end in
                match lookup m nm with
                | None => Fatal
                | Some oi =>
                  let k := kind_of oi in
                  match val with
                  | Some v => if is_bool k then Fatal else if valid k v then scan f m more Look seen (sets ++ [(oi, v)]) rest else Fatal
                  | None => if is_bool k then scan f m more Look seen (sets ++ [(oi, str_true)]) rest else scan f m more (SetVal oi) seen sets rest
                  end
                end
              end
            else
              match shorts m tl0 sets with
              | None => Fatal
              | Some (sets', st') => scan f m more st' seen sets' rest
              end
          end
        else scan f m more Collect seen sets (rest ++ [arg])
      end
    end
  end end.

Definition total_len (args : list str) := (length args + fold_left (fun a p => a + length (snd p)) files 0)%nat.
(* option 0 is the help flag that cmdline.New always adds: asking for help prints the usage and exits *)
Definition parse (args : list str) : outcome :=
  match build opts 0 [] with
  | None => Fatal
  | Some m =>
    match scan (S (total_len args) * 2) m args Look [] [] [] with
    | Done sets rest => if existsb (fun p => (fst p =? 0)%nat) sets then Fatal else Done sets rest
    | Fatal => Fatal
    end
  end.
End P.
