(* C10 — what "a valid spelling of an assignment" is: intents, their spelling as arguments, the assignments they denote,
   positional tails, and splits into response files. Definitions only; the theorems about them are in Proofs.v / Props.v. *)
From Coq Require Import ZArith List Bool.
From Verif Require Import C10.Model.
Import ListNotations.
Open Scope Z_scope.

Section S.
Variable opts : list option_.
Definition name_of (i : nat) : str := match nth_error opts i with Some o => match name o with Some n => n | None => [] end | None => [] end.
Definition single_of (i : nat) : Z := match nth_error opts i with Some o => match single o with Some c => c | None => 0 end | None => 0 end.

Inductive intent :=
| ILongFlag (i : nat)                                  (* --flag *)
| ILongEq (i : nat) (v : str)                          (* --name=value *)
| ILongSep (i : nat) (v : str)                         (* --name value *)
| IGroup (flags : list nat)                            (* -abc: grouped boolean flags *)
| IShortSep (flags : list nat) (i : nat) (v : str)     (* -n value, possibly after grouped flags: -abn value *)
| IShortJoin (flags : list nat) (i : nat) (v : str)    (* -nvalue *)
| IShortEq (flags : list nat) (i : nat) (v : str).     (* -n=value *)

Definition dashes (s : str) : str := 45 :: 45 :: s.
Definition spell (it : intent) : list str :=
  match it with
  | ILongFlag i => [dashes (name_of i)]
  | ILongEq i v => [dashes (name_of i ++ 61 :: v)]
  | ILongSep i v => [dashes (name_of i); v]
  | IGroup fl => [45 :: map single_of fl]
  | IShortSep fl i v => [45 :: map single_of fl ++ [single_of i]; v]
  | IShortJoin fl i v => [45 :: map single_of fl ++ single_of i :: v]
  | IShortEq fl i v => [45 :: map single_of fl ++ single_of i :: 61 :: v]
  end.
Definition set_flags (fl : list nat) : list (nat * str) := map (fun i => (i, str_true)) fl.
Definition assigns (it : intent) : list (nat * str) :=
  match it with
  | ILongFlag i => [(i, str_true)]
  | ILongEq i v | ILongSep i v => [(i, v)]
  | IGroup fl => set_flags fl
  | IShortSep fl i v | IShortJoin fl i v | IShortEq fl i v => set_flags fl ++ [(i, v)]
  end.

(* well-formedness against the declared table: the option exists under the spelled name, the name is usable
   (long names are non-empty and contain no '=', short names are not '-'), the kind fits the spelling, the value is one the kind accepts *)
Definition has_long (i : nat) : Prop := exists o n, nth_error opts i = Some o /\ name o = Some n /\ n <> [] /\ index_of 61 n 0 = None.
Definition has_short (i : nat) : Prop := exists o c, nth_error opts i = Some o /\ single o = Some c /\ c <> 45.
Definition flag (i : nat) : Prop := is_bool (kind_of opts i) = true.
Definition valued (i : nat) (v : str) : Prop := is_bool (kind_of opts i) = false /\ valid (kind_of opts i) v = true.
Definition short_flags (fl : list nat) : Prop := Forall (fun i => has_short i /\ flag i) fl.
Definition wf_intent (it : intent) : Prop :=
  match it with
  | ILongFlag i => has_long i /\ flag i
  | ILongEq i v | ILongSep i v => has_long i /\ valued i v
  | IGroup fl => fl <> [] /\ short_flags fl
  | IShortSep fl i v | IShortEq fl i v => short_flags fl /\ has_short i /\ valued i v
  | IShortJoin fl i v => short_flags fl /\ has_short i /\ valued i v /\ (exists c r, v = c :: r /\ c <> 61)
  end.

(* positional tails: nothing; the separator and anything after it; or a first argument that is not option-like and anything after it *)
Inductive tail := TNone | TSep (t : list str) | TPos (p : str) (t : list str).
Definition positional_start (p : str) : Prop := p = [] \/ p = [45] \/ exists c r, p = c :: r /\ c <> 45 /\ c <> 64.
Definition wf_tail (t : tail) : Prop := match t with TPos p _ => positional_start p | _ => True end.
Definition tail_args (t : tail) : list str := match t with TNone => [] | TSep l => [45; 45] :: l | TPos p l => p :: l end.
Definition tail_rest (t : tail) : list str := match t with TNone => [] | TSep l => l | TPos p l => p :: l end.

(* a vector split into segments: written inline, or placed in a response file and referred to as @file *)
Inductive seg := Inline (its : list intent) | InFile (f : str) (its : list intent).
Definition spell_all (its : list intent) : list str := flat_map spell its.
Definition assigns_all (its : list intent) : list (nat * str) := flat_map assigns its.
Definition seg_args (s : seg) : list str := match s with Inline its => spell_all its | InFile f _ => [64 :: f] end.
Definition seg_intents (s : seg) : list intent := match s with Inline its | InFile _ its => its end.
Definition seg_files (s : seg) : list (str * list str) := match s with Inline _ => [] | InFile f its => [(f, spell_all its)] end.
Definition render (segs : list seg) : list str := flat_map seg_args segs.
Definition intents_of (segs : list seg) : list intent := flat_map seg_intents segs.
Definition files_of (segs : list seg) : list (str * list str) := flat_map seg_files segs.
Definition seg_names (s : seg) : list str := match s with Inline _ => [] | InFile f _ => [f] end.
Definition file_names (segs : list seg) : list str := flat_map seg_names segs.

(* malformed continuations, met where the scanner looks for an option (m is the option map built from the table) *)
Definition unvalued (i : nat) (v : str) : Prop := is_bool (kind_of opts i) = false /\ valid (kind_of opts i) v = false.
Inductive malformed (m : list (str * nat)) : list str -> Prop :=
| BadUnknownLong nm more : nm <> [] -> index_of 61 nm 0 = None -> lookup m nm = None -> malformed m (dashes nm :: more)
| BadUnknownLongEq nm v more : nm <> [] -> index_of 61 nm 0 = None -> lookup m nm = None -> malformed m (dashes (nm ++ 61 :: v) :: more)
| BadNamelessLong v more : lookup m [] = None -> malformed m (dashes (61 :: v) :: more)
| BadFlagValue i v more : has_long i -> flag i -> malformed m (dashes (name_of i ++ 61 :: v) :: more)
| BadLongEqValue i v more : has_long i -> unvalued i v -> malformed m (dashes (name_of i ++ 61 :: v) :: more)
| BadLongSepValue i v more : has_long i -> unvalued i v -> malformed m (dashes (name_of i) :: v :: more)
| BadLongMissing i : has_long i -> is_bool (kind_of opts i) = false -> malformed m [dashes (name_of i)]
| BadUnknownShort fl c r more : short_flags fl -> lookup m [c] = None -> (fl <> [] \/ c <> 45) ->
    malformed m ((45 :: map single_of fl ++ c :: r) :: more)
| BadShortSepValue fl i v more : short_flags fl -> has_short i -> unvalued i v -> malformed m ((45 :: map single_of fl ++ [single_of i]) :: v :: more)
| BadShortJoinValue fl i c r more : short_flags fl -> has_short i -> unvalued i (c :: r) -> c <> 61 ->
    malformed m ((45 :: map single_of fl ++ single_of i :: c :: r) :: more)
| BadShortEqValue fl i v more : short_flags fl -> has_short i -> unvalued i v -> malformed m ((45 :: map single_of fl ++ single_of i :: 61 :: v) :: more)
| BadShortMissing fl i : short_flags fl -> has_short i -> is_bool (kind_of opts i) = false -> malformed m [45 :: map single_of fl ++ [single_of i]].
End S.
