(* C10 — property theorems only. Each is closed by [exact] of a lemma from Proofs.v and followed by Print Assumptions.
   Vocabulary (Spec.v): an intent is one assignment in one of the seven spellings; spell/assigns give its arguments and the
   assignments it denotes; a tail is nothing, "--" and anything, or a non-option-like first positional and anything; segments
   are runs of intents written inline or placed in a response file; malformed lists the ill-formed continuations. *)
From Coq Require Import ZArith List Bool.
From Verif Require Import C10.Model C10.Spec C10.Proofs.
Import ListNotations.
Open Scope Z_scope.

(* Every vector of valid spellings, in any order, split in any way into distinct response files, followed by any positional
   tail: Parse performs exactly the denoted assignments in order (so the last one wins and slices append, see the driver) and
   returns exactly the positional arguments, whatever they look like. Option 0 is the built-in help flag. *)
Theorem C10_valid_vector_assigns_exactly : forall opts m segs t, build opts 0 [] = Some m ->
  Forall (wf_intent opts) (intents_of segs) -> wf_tail t -> NoDup (file_names segs) ->
  Forall (fun p => fst p <> 0%nat) (assigns_all (intents_of segs)) ->
  parse opts (files_of opts segs) (render opts segs ++ tail_args t) = Done (assigns_all (intents_of segs)) (tail_rest t).
Proof. exact parse_valid. Qed.
Print Assumptions C10_valid_vector_assigns_exactly.

(* Splitting across response files changes nothing *)
Theorem C10_response_files_transparent : forall opts m segs t, build opts 0 [] = Some m ->
  Forall (wf_intent opts) (intents_of segs) -> wf_tail t -> NoDup (file_names segs) ->
  Forall (fun p => fst p <> 0%nat) (assigns_all (intents_of segs)) ->
  parse opts (files_of opts segs) (render opts segs ++ tail_args t) = parse opts [] (spell_all opts (intents_of segs) ++ tail_args t).
Proof. exact parse_files_transparent. Qed.
Print Assumptions C10_response_files_transparent.

(* A malformed continuation after any valid prefix takes the fatal-exit path: unknown long or short option (alone, with a value,
   after grouped flags), a value given to a boolean flag, a value the option's type rejects in each of the five spellings, a
   missing value at the end of the vector *)
Theorem C10_malformed_vector_is_fatal : forall opts files m its sfx, build opts 0 [] = Some m ->
  Forall (wf_intent opts) its -> malformed opts m sfx -> parse opts files (spell_all opts its ++ sfx) = Fatal.
Proof. exact parse_malformed. Qed.
Print Assumptions C10_malformed_vector_is_fatal.

(* A response file named twice (so also one that names itself) or missing is fatal wherever an option is looked for *)
Theorem C10_response_file_reuse_is_fatal : forall opts files m F f more seen sets rest, mem f seen = true ->
  scan opts files F m ((64 :: f) :: more) Look seen sets rest = Fatal.
Proof. exact scan_file_again. Qed.
Print Assumptions C10_response_file_reuse_is_fatal.
Theorem C10_response_file_missing_is_fatal : forall opts files m F f more seen sets rest, find (fun p => seq_eq (fst p) f) files = None ->
  scan opts files F m ((64 :: f) :: more) Look seen sets rest = Fatal.
Proof. exact scan_file_missing. Qed.
Print Assumptions C10_response_file_missing_is_fatal.

(* Asking for help anywhere in an otherwise valid vector exits *)
Theorem C10_help_exits : forall opts m segs t, build opts 0 [] = Some m ->
  Forall (wf_intent opts) (intents_of segs) -> wf_tail t -> NoDup (file_names segs) ->
  Exists (fun p => fst p = 0%nat) (assigns_all (intents_of segs)) ->
  parse opts (files_of opts segs) (render opts segs ++ tail_args t) = Fatal.
Proof. exact parse_help_requested. Qed.
Print Assumptions C10_help_exits.

(* Ill-formed tables are rejected before any argument is read *)
Theorem C10_rejected_table_is_fatal : forall opts files args, build opts 0 [] = None -> parse opts files args = Fatal.
Proof. exact parse_bad_table. Qed.
Print Assumptions C10_rejected_table_is_fatal.
Theorem C10_unnamed_option_rejected : forall opts i m o, In o opts -> single o = None -> name o = None -> build opts i m = None.
Proof. exact unnamed_option_rejected. Qed.
Print Assumptions C10_unnamed_option_rejected.

(* Every declared name is found under its own index (no declaration shadows another) *)
Theorem C10_option_table_complete : forall opts i m m', build opts i m = Some m' ->
  (forall k j, lookup m k = Some j -> lookup m' k = Some j) /\
  (forall n o, nth_error opts n = Some o ->
     (forall c, single o = Some c -> lookup m' [c] = Some (i + n)%nat) /\ (forall nm, name o = Some nm -> lookup m' nm = Some (i + n)%nat)).
Proof. exact build_spec. Qed.
Print Assumptions C10_option_table_complete.

(* ---- the hypotheses are satisfiable: a concrete table, vector, split and tail *)
Module NonVacuous.
  (* -h/--help, -v/--verbose (bool), -n/--num (int8), --out (string), -I (slice of string) *)
  Definition tbl : list option_ :=
    [ {| single := Some 104; name := Some [104;101;108;112]; knd := KBool |};
      {| single := Some 118; name := Some [118;101;114;98;111;115;101]; knd := KBool |};
      {| single := Some 110; name := Some [110;117;109]; knd := KInt 8 true |};
      {| single := None; name := Some [111;117;116]; knd := KStr |};
      {| single := Some 73; name := None; knd := KSlice KStr |} ].
  Definition segs : list seg :=
    [ Inline [IShortJoin [1%nat] 2%nat [45;49;50;56]; ILongSep 3%nat [64;120]];          (* -vn-128 --out @x *)
      InFile [114;115;112] [IShortEq [] 4%nat [45;45]; ILongEq 2%nat [48;49;55]; IGroup [1%nat; 1%nat]];   (* @rsp: -I=-- --num=017 -vv *)
      Inline [IShortSep [] 4%nat []] ].                                                  (* -I "" *)
  Definition tl := TPos [45] [[45;45;110;117;109]; [64;114;115;112]; []].               (* - --num @rsp "" *)
  Example table_accepted : exists m, build tbl 0 [] = Some m.
  Proof. eexists. vm_compute. reflexivity. Qed.
  Example intents_wf : Forall (wf_intent tbl) (intents_of segs).
  Proof.
    unfold segs, intents_of. cbn [flat_map seg_intents app].
    repeat constructor; try (cbn; unfold has_long, has_short, flag, valued; repeat split);
      try (eexists _, _; repeat split; try reflexivity; try discriminate; vm_compute; congruence);
      try (vm_compute; reflexivity); try discriminate; try (eexists _, _; split; [reflexivity|discriminate]).
  Qed.
  Example tail_wf : wf_tail tl. Proof. right; left; reflexivity. Qed.
  Example names_distinct : NoDup (file_names segs). Proof. repeat constructor; intros []. Qed.
  Example nobody_asks_for_help : Forall (fun p => fst p <> 0%nat) (assigns_all (intents_of segs)).
  Proof. repeat constructor; discriminate. Qed.
  Example result :
    parse tbl (files_of tbl segs) (render tbl segs ++ tail_args tl) =
    Done [(1%nat, str_true); (2%nat, [45;49;50;56]); (3%nat, [64;120]); (4%nat, [45;45]); (2%nat, [48;49;55]); (1%nat, str_true); (1%nat, str_true); (4%nat, [])]
         [[45]; [45;45;110;117;109]; [64;114;115;112]; []].
  Proof. vm_compute. reflexivity. Qed.
  Example a_malformed_continuation : exists m, build tbl 0 [] = Some m /\ malformed tbl m [dashes [118;101;114;98;111;115;101;61;49]].   (* --verbose=1 *)
  Proof.
    eexists. split; [vm_compute; reflexivity|].
    apply (BadFlagValue tbl _ 1%nat [49] []); [|reflexivity].
    eexists _, _. repeat split; try reflexivity; try discriminate.
  Qed.
End NonVacuous.
