(* C18 — property theorems only (closed by [exact]), each followed by Print Assumptions. Coordinates range over all rationals,
   which contain every Go int and every finite float64. *)
From Coq Require Import QArith List Bool.
From Verif Require Import C18.Model C18.Proofs.
Import ListNotations.
Open Scope Q_scope.

(* a.Contains(b) <-> b non-empty and every point of b is In a *)
Theorem C18_contains_iff_inclusion : forall a b : rect,
  contains a b = true <-> (empty b = false /\ forall px py, pt_in px py b = true -> pt_in px py a = true).
Proof. exact contains_spec. Qed.
Print Assumptions C18_contains_iff_inclusion.

(* a.Intersects(b) <-> some point is In both *)
Theorem C18_intersects_iff_common_point : forall a b : rect,
  intersects a b = true <-> exists px py, pt_in px py a = true /\ pt_in px py b = true.
Proof. exact intersects_spec. Qed.
Print Assumptions C18_intersects_iff_common_point.

(* Intersect returns precisely the common points *)
Theorem C18_intersect_is_common_points : forall (a b : rect) (px py : Q),
  pt_in px py (intersect a b) = pt_in px py a && pt_in px py b.
Proof. exact intersect_spec. Qed.
Print Assumptions C18_intersect_is_common_points.

(* Union covers both operands ... *)
Theorem C18_union_covers : forall a b : rect,
  (empty a = false -> contains (union a b) a = true) /\ (empty b = false -> contains (union a b) b = true).
Proof. exact union_covers. Qed.
Print Assumptions C18_union_covers.
(* ... and is the least such rectangle *)
Theorem C18_union_least : forall a b c : rect, (empty a = false \/ empty b = false) ->
  (empty a = false -> contains c a = true) -> (empty b = false -> contains c b = true) -> contains c (union a b) = true.
Proof. exact union_least. Qed.
Print Assumptions C18_union_least.
Theorem C18_union_with_empty : forall a b : rect,
  (empty a = true -> empty b = true -> union a b = zero_rect) /\
  (empty a = true -> empty b = false -> union a b = b) /\ (empty a = false -> empty b = true -> union a b = a).
Proof. exact union_empty. Qed.
Print Assumptions C18_union_with_empty.

(* empty rectangles contain and intersect nothing and hold no point *)
Theorem C18_empty_contains_nothing : forall a b : rect, empty a = true \/ empty b = true -> contains a b = false.
Proof. exact empty_contains_nothing. Qed.
Print Assumptions C18_empty_contains_nothing.
Theorem C18_empty_intersects_nothing : forall a b : rect, empty a = true \/ empty b = true -> intersects a b = false.
Proof. exact empty_intersects_nothing. Qed.
Print Assumptions C18_empty_intersects_nothing.
Theorem C18_empty_has_no_point : forall (a : rect) (px py : Q), empty a = true -> pt_in px py a = false.
Proof. exact empty_has_no_point. Qed.
Print Assumptions C18_empty_has_no_point.

(* affine composition: transforming by m.Multiply(n) / Translate / Scale / Rotate = transforming by m, then by the second *)
Theorem C18_multiply_composes : forall (m n : matrix) (p : Q * Q),
  peq (m_transform (m_multiply m n) p) (m_transform n (m_transform m p)).
Proof. exact multiply_composes. Qed.
Print Assumptions C18_multiply_composes.
Theorem C18_translate_composes : forall (m : matrix) (dx dy : Q) (p : Q * Q),
  peq (m_transform (m_translate m dx dy) p) (m_transform (translation dx dy) (m_transform m p)).
Proof. exact translate_composes. Qed.
Print Assumptions C18_translate_composes.
Theorem C18_scale_composes : forall (m : matrix) (fx fy : Q) (p : Q * Q),
  peq (m_transform (m_scale m fx fy) p) (m_transform (scaling fx fy) (m_transform m p)).
Proof. exact scale_composes. Qed.
Print Assumptions C18_scale_composes.
(* s, c: whatever xmath.Sin / xmath.Cos return for the angle; the law is linear algebra and holds for any s, c *)
Theorem C18_rotate_composes : forall (m : matrix) (s c : Q) (p : Q * Q),
  peq (m_transform (m_rotate m s c) p) (m_transform (rotation s c) (m_transform m p)).
Proof. exact rotate_composes. Qed.
Print Assumptions C18_rotate_composes.
Theorem C18_identity_neutral : forall p : Q * Q, peq (m_transform identity p) p.
Proof. exact identity_neutral. Qed.
Print Assumptions C18_identity_neutral.
Theorem C18_multiply_identity : forall (m : matrix) (p : Q * Q),
  peq (m_transform (m_multiply m identity) p) (m_transform m p) /\ peq (m_transform (m_multiply identity m) p) (m_transform m p).
Proof. exact multiply_identity. Qed.
Print Assumptions C18_multiply_identity.

(* Contour.Contains = parity of the textbook crossing number, for points on no edge *)
Theorem C18_contour_contains_is_crossing_parity : forall (c : contour) (px py : Q),
  (forall e, List.In e (edges c) -> on_edge px py e = false) -> c_contains c px py = Nat.odd (crossings c px py).
Proof. exact contour_contains_crossing. Qed.
Print Assumptions C18_contour_contains_is_crossing_parity.
Theorem C18_polygon_contains : forall (p : polygon) (px py : Q),
  p_contains p px py = existsb (fun c => c_contains c px py) p /\
  p_contains_evenodd p px py = Nat.odd (length (filter (fun c => c_contains c px py) p)).
Proof. exact polygon_contains_spec. Qed.
Print Assumptions C18_polygon_contains.

(* Bounds encloses every vertex *)
Theorem C18_bounds_encloses_vertices : forall (c : contour) (v : Q * Q), List.In v c -> pt_in (fst v) (snd v) (c_bounds c) = true.
Proof. exact bounds_encloses. Qed.
Print Assumptions C18_bounds_encloses_vertices.

(* Transform maps every vertex by the matrix (the result is a new value; the harness checks the operand is untouched) *)
Theorem C18_transform_maps_vertices : forall (p : polygon) (m : matrix),
  p_transform p m = map (map (m_transform m)) p /\ length (p_transform p m) = length p /\
  forall i c, nth_error p i = Some c -> nth_error (p_transform p m) i = Some (map (m_transform m) c).
Proof. exact transform_maps_vertices. Qed.
Print Assumptions C18_transform_maps_vertices.

(* non-vacuity: the float witnesses that failed before the repairs *)
Example C18_ex_contains_fractional :
  contains (mkr 0 0 10 10) (mkr (1#5) (1#5) (1#2) (1#2)) = true /\ contains (mkr 0 0 10 10) (mkr 5 5 (11#2) (11#2)) = false.
Proof. split; reflexivity. Qed.
Example C18_ex_multiply_translations :
  m_transform (m_multiply (translation 1 2) (translation 10 20)) (0, 0) = (0 * 0 + 0 * 0 + (1 * 1 + 2 * 0 + 10), 0 * 0 + 0 * 0 + (1 * 0 + 2 * 1 + 20)).
Proof. reflexivity. Qed.
Example C18_ex_square_contains : c_contains [(0,0);(4,0);(4,4);(0,4)] 1 1 = true /\ c_contains [(0,0);(4,0);(4,4);(0,4)] 5 1 = false.
Proof. split; reflexivity. Qed.
