(* C18 — lemmas: rectangle predicates as point sets, affine composition laws, contour containment *)
From Coq Require Import QArith List Bool Lia Lqa.
From Verif Require Import C18.Model.
Import ListNotations.
Open Scope Q_scope.

Lemma Qltb_iff x y : Qltb x y = true <-> x < y.
Proof.
  unfold Qltb. rewrite negb_true_iff. split.
  - intro H. apply Qnot_le_lt. intro L. apply Qle_bool_iff in L. congruence.
  - intro H. destruct (Qle_bool y x) eqn:E; auto. apply Qle_bool_iff in E. exfalso. apply (Qlt_not_le _ _ H E).
Qed.
Lemma Qle_bool_false x y : Qle_bool x y = false <-> y < x.
Proof.
  split.
  - intro H. apply Qnot_le_lt. intro L. apply Qle_bool_iff in L. congruence.
  - intro H. destruct (Qle_bool x y) eqn:E; auto. apply Qle_bool_iff in E. exfalso. apply (Qlt_not_le _ _ H E).
Qed.
Lemma Qltb_false x y : Qltb x y = false <-> y <= x.
Proof. unfold Qltb. rewrite negb_false_iff. apply Qle_bool_iff. Qed.

Ltac b2p := repeat match goal with
  | H : _ && _ = true |- _ => apply andb_prop in H; destruct H
  | H : _ || _ = false |- _ => apply orb_false_elim in H; destruct H
  | H : Qle_bool _ _ = true |- _ => apply Qle_bool_iff in H
  | H : Qle_bool _ _ = false |- _ => apply Qle_bool_false in H
  | H : Qltb _ _ = true |- _ => apply Qltb_iff in H
  | H : Qltb _ _ = false |- _ => apply Qltb_false in H
  end.
Ltac p2b := repeat (apply andb_true_intro; split);
  repeat match goal with
  | |- Qle_bool _ _ = true => apply Qle_bool_iff
  | |- Qle_bool _ _ = false => apply Qle_bool_false
  | |- Qltb _ _ = true => apply Qltb_iff
  | |- Qltb _ _ = false => apply Qltb_false
  | |- _ || _ = false => apply orb_false_intro
  end.
Ltac mm := unfold qmax, qmin in *; repeat match goal with
  | |- context [if Qle_bool ?a ?b then _ else _] => let E := fresh "E" in destruct (Qle_bool a b) eqn:E
  | H : context [if Qle_bool ?a ?b then _ else _] |- _ => let E := fresh "E" in destruct (Qle_bool a b) eqn:E
  end.

Definition In (px py : Q) (r : rect) : Prop := pt_in px py r = true.
Definition NonEmpty (r : rect) : Prop := empty r = false.

Lemma nonempty_iff r : NonEmpty r <-> 0 < rw r /\ 0 < rh r.
Proof. unfold NonEmpty, empty. split; intro H. - b2p. auto. - destruct H. p2b; auto. Qed.

Lemma in_iff px py r : In px py r <-> 0 < rw r /\ 0 < rh r /\ rx r <= px /\ ry r <= py /\ px < rx r + rw r /\ py < ry r + rh r.
Proof.
  unfold In, pt_in. destruct (empty r) eqn:E.
  - split; [discriminate|]. intros (Hw & Hh & _). assert (NonEmpty r) by (apply nonempty_iff; auto). unfold NonEmpty in *. congruence.
  - apply nonempty_iff in E. destruct E. unfold right, bottom. split; intro H1.
    + b2p. repeat split; auto.
    + destruct H1 as (_ & _ & ? & ? & ? & ?). p2b; auto.
Qed.

Lemma contains_iff_coords r i : contains r i = true <->
  0 < rw r /\ 0 < rh r /\ 0 < rw i /\ 0 < rh i /\ rx r <= rx i /\ ry r <= ry i /\ rx i + rw i <= rx r + rw r /\ ry i + rh i <= ry r + rh r.
Proof.
  unfold contains. destruct (empty r || empty i) eqn:E.
  - split; [discriminate|]. intros (A & B & C & D & _).
    assert (NonEmpty r) by (apply nonempty_iff; auto). assert (NonEmpty i) by (apply nonempty_iff; auto).
    unfold NonEmpty in *. rewrite H, H0 in E. discriminate.
  - apply orb_false_elim in E. destruct E as [Er Ei]. apply nonempty_iff in Er, Ei. destruct Er, Ei.
    unfold right, bottom. split; intro H3.
    + b2p. repeat split; auto.
    + destruct H3 as (_ & _ & _ & _ & ? & ? & ? & ?). p2b; auto.
Qed.

Theorem contains_spec r i : contains r i = true <-> NonEmpty i /\ forall px py, In px py i -> In px py r.
Proof.
  rewrite contains_iff_coords. split.
  - intros (A & B & C & D & E & F & G & H). split; [apply nonempty_iff; auto|].
    intros px py. rewrite !in_iff. intros (_ & _ & ? & ? & ? & ?). repeat split; auto; lra.
  - intros [Hi H]. apply nonempty_iff in Hi. destruct Hi as [C D].
    assert (P0 : In (rx i) (ry i) i) by (apply in_iff; repeat split; auto; lra).
    pose proof (H _ _ P0) as R0. apply in_iff in R0. destruct R0 as (A & B & E & F & E' & F').
    repeat split; auto.
    + (* right edge *)
      apply Qnot_lt_le. intro L.
      set (px := qmax (rx i) (rx r + rw r)).
      assert (Pin : In px (ry i) i).
      { apply in_iff. unfold px. repeat split; auto; mm; b2p; lra. }
      apply H in Pin. apply in_iff in Pin. destruct Pin as (_ & _ & _ & _ & Lt & _).
      unfold px in Lt. mm; b2p; lra.
    + apply Qnot_lt_le. intro L.
      set (py := qmax (ry i) (ry r + rh r)).
      assert (Pin : In (rx i) py i).
      { apply in_iff. unfold py. repeat split; auto; mm; b2p; lra. }
      apply H in Pin. apply in_iff in Pin. destruct Pin as (_ & _ & _ & _ & _ & Lt).
      unfold py in Lt. mm; b2p; lra.
Qed.

Lemma intersects_iff_coords r o : intersects r o = true <->
  0 < rw r /\ 0 < rh r /\ 0 < rw o /\ 0 < rh o /\ rx r < rx o + rw o /\ ry r < ry o + rh o /\ rx o < rx r + rw r /\ ry o < ry r + rh r.
Proof.
  unfold intersects. destruct (empty r || empty o) eqn:E.
  - split; [discriminate|]. intros (A & B & C & D & _).
    assert (NonEmpty r) by (apply nonempty_iff; auto). assert (NonEmpty o) by (apply nonempty_iff; auto).
    unfold NonEmpty in *. rewrite H, H0 in E. discriminate.
  - apply orb_false_elim in E. destruct E as [Er Eo]. apply nonempty_iff in Er, Eo. destruct Er, Eo.
    unfold right, bottom. split; intro H3.
    + b2p. repeat split; auto.
    + destruct H3 as (_ & _ & _ & _ & ? & ? & ? & ?). p2b; auto.
Qed.

Theorem intersects_spec r o : intersects r o = true <-> exists px py, In px py r /\ In px py o.
Proof.
  rewrite intersects_iff_coords. split.
  - intros (A & B & C & D & E & F & G & H). exists (qmax (rx r) (rx o)), (qmax (ry r) (ry o)).
    rewrite !in_iff. repeat split; auto; mm; b2p; lra.
  - intros (px & py & H1 & H2). apply in_iff in H1, H2.
    destruct H1 as (? & ? & ? & ? & ? & ?), H2 as (? & ? & ? & ? & ? & ?). repeat split; auto; lra.
Qed.

Lemma in_zero px py : pt_in px py zero_rect = false.
Proof. reflexivity. Qed.

Theorem intersect_spec r o px py : pt_in px py (intersect r o) = pt_in px py r && pt_in px py o.
Proof.
  destruct (pt_in px py (intersect r o)) eqn:L; symmetry.
  - change (In px py (intersect r o)) in L. apply andb_true_intro.
    unfold intersect in L. destruct (empty r || empty o) eqn:E; [unfold In in L; rewrite in_zero in L; discriminate|].
    apply orb_false_elim in E. destruct E as [Er Eo]. apply nonempty_iff in Er, Eo. destruct Er, Eo.
    cbv zeta in L.
    destruct (Qle_bool (qmin (right r) (right o) - qmax (rx r) (rx o)) 0 || Qle_bool (qmin (bottom r) (bottom o) - qmax (ry r) (ry o)) 0) eqn:E2;
      [unfold In in L; rewrite in_zero in L; discriminate|].
    apply in_iff in L. cbn [rx ry rw rh] in L. destruct L as (? & ? & ? & ? & ? & ?).
    change (In px py r /\ In px py o). rewrite !in_iff. unfold right, bottom in *.
    repeat split; auto; mm; b2p; lra.
  - apply andb_false_iff.
    destruct (pt_in px py r) eqn:A; [|auto]. destruct (pt_in px py o) eqn:B; [|auto]. exfalso.
    change (In px py r) in A. change (In px py o) in B. apply in_iff in A, B.
    destruct A as (? & ? & ? & ? & ? & ?), B as (? & ? & ? & ? & ? & ?).
    assert (In px py (intersect r o)); [|unfold In in *; congruence].
    unfold intersect.
    assert (Er : empty r = false) by (apply nonempty_iff; auto). assert (Eo : empty o = false) by (apply nonempty_iff; auto).
    rewrite Er, Eo. cbn [orb]. cbv zeta. unfold right, bottom.
    destruct (Qle_bool (qmin (rx r + rw r) (rx o + rw o) - qmax (rx r) (rx o)) 0 || Qle_bool (qmin (ry r + rh r) (ry o + rh o) - qmax (ry r) (ry o)) 0) eqn:E2.
    + exfalso. apply orb_true_iff in E2. destruct E2 as [E2|E2]; mm; b2p; lra.
    + apply orb_false_elim in E2. destruct E2. apply in_iff. cbn [rx ry rw rh]. repeat split; mm; b2p; lra.
Qed.

Theorem empty_contains_nothing r i : empty r = true \/ empty i = true -> contains r i = false.
Proof. unfold contains. intros [->| ->]; rewrite ?orb_true_r; reflexivity. Qed.
Theorem empty_intersects_nothing r o : empty r = true \/ empty o = true -> intersects r o = false.
Proof. unfold intersects. intros [->| ->]; rewrite ?orb_true_r; reflexivity. Qed.
Theorem empty_has_no_point r px py : empty r = true -> pt_in px py r = false.
Proof. unfold pt_in. intros ->. reflexivity. Qed.

(* Union: least rectangle covering both *)
Theorem union_covers r o : (NonEmpty r -> contains (union r o) r = true) /\ (NonEmpty o -> contains (union r o) o = true).
Proof.
  unfold union. destruct (empty r) eqn:Er, (empty o) eqn:Eo; unfold NonEmpty; split; intro H; try congruence.
  - apply contains_iff_coords. apply nonempty_iff in Eo. destruct Eo. repeat split; auto; lra.
  - apply contains_iff_coords. apply nonempty_iff in Er. destruct Er. repeat split; auto; lra.
  - apply nonempty_iff in Er, Eo. destruct Er, Eo. apply contains_iff_coords. cbn [rx ry rw rh]. unfold right, bottom.
    repeat split; auto; mm; b2p; lra.
  - apply nonempty_iff in Er, Eo. destruct Er, Eo. apply contains_iff_coords. cbn [rx ry rw rh]. unfold right, bottom.
    repeat split; auto; mm; b2p; lra.
Qed.
Theorem union_least r o c : (NonEmpty r \/ NonEmpty o) ->
  (NonEmpty r -> contains c r = true) -> (NonEmpty o -> contains c o = true) -> contains c (union r o) = true.
Proof.
  unfold union, NonEmpty. intros Hne Hr Ho. destruct (empty r) eqn:Er, (empty o) eqn:Eo.
  - destruct Hne; congruence.
  - auto.
  - auto.
  - specialize (Hr eq_refl). specialize (Ho eq_refl). apply contains_iff_coords in Hr, Ho. apply contains_iff_coords.
    destruct Hr as (? & ? & ? & ? & ? & ? & ? & ?), Ho as (? & ? & ? & ? & ? & ? & ? & ?).
    cbn [rx ry rw rh]. unfold right, bottom. repeat split; auto; mm; b2p; lra.
Qed.
Theorem union_empty r o : (empty r = true -> empty o = true -> union r o = zero_rect) /\
  (empty r = true -> empty o = false -> union r o = o) /\ (empty r = false -> empty o = true -> union r o = r).
Proof. unfold union. repeat split; intros -> ->; reflexivity. Qed.

(* ---------- matrices ---------- *)
Definition peq (p q : Q * Q) : Prop := fst p == fst q /\ snd p == snd q.
Theorem multiply_composes m o p : peq (m_transform (m_multiply m o) p) (m_transform o (m_transform m p)).
Proof. unfold peq, m_transform, m_multiply. cbn [fst snd sx kx tx ky sy ty]. split; ring. Qed.
Theorem translate_composes m dx dy p : peq (m_transform (m_translate m dx dy) p) (m_transform (translation dx dy) (m_transform m p)).
Proof. unfold peq, m_transform, m_translate, translation. cbn [fst snd sx kx tx ky sy ty]. split; ring. Qed.
Theorem scale_composes m fx fy p : peq (m_transform (m_scale m fx fy) p) (m_transform (scaling fx fy) (m_transform m p)).
Proof. unfold peq, m_transform, m_scale, scaling. cbn [fst snd sx kx tx ky sy ty]. split; ring. Qed.
Theorem rotate_composes m s c p : peq (m_transform (m_rotate m s c) p) (m_transform (rotation s c) (m_transform m p)).
Proof. unfold peq, m_transform, m_rotate, rotation. cbn [fst snd sx kx tx ky sy ty]. split; ring. Qed.
Theorem identity_neutral p : peq (m_transform identity p) p.
Proof. unfold peq, m_transform, identity. cbn [fst snd sx kx tx ky sy ty]. split; ring. Qed.
Theorem multiply_identity m p : peq (m_transform (m_multiply m identity) p) (m_transform m p) /\
  peq (m_transform (m_multiply identity m) p) (m_transform m p).
Proof. unfold peq, m_transform, m_multiply, identity. cbn [fst snd sx kx tx ky sy ty]. repeat split; ring. Qed.
(* the structured forms agree with multiplication by the elementary matrices, entry by entry *)
Definition meq (a b : matrix) : Prop :=
  sx a == sx b /\ kx a == kx b /\ tx a == tx b /\ ky a == ky b /\ sy a == sy b /\ ty a == ty b.
Theorem translate_is_multiply m dx dy : meq (m_translate m dx dy) (m_multiply m (translation dx dy)).
Proof. unfold meq, m_translate, m_multiply, translation. cbn [sx kx tx ky sy ty]. repeat split; ring. Qed.
Theorem scale_is_multiply m fx fy : meq (m_scale m fx fy) (m_multiply m (scaling fx fy)).
Proof. unfold meq, m_scale, m_multiply, scaling. cbn [sx kx tx ky sy ty]. repeat split; ring. Qed.
Theorem rotate_is_multiply m s c : meq (m_rotate m s c) (m_multiply m (rotation s c)).
Proof. unfold meq, m_rotate, m_multiply, rotation. cbn [sx kx tx ky sy ty]. repeat split; ring. Qed.

(* ---------- polygon transform / bounds ---------- *)
Theorem transform_maps_vertices p m : p_transform p m = map (map (m_transform m)) p /\
  length (p_transform p m) = length p /\
  forall i c, nth_error p i = Some c -> nth_error (p_transform p m) i = Some (map (m_transform m) c).
Proof.
  unfold p_transform. split; [reflexivity|]. split; [apply map_length|].
  intros i c H. apply map_nth_error. exact H.
Qed.

(* ---------- Bounds encloses every vertex ---------- *)
Section Folds.
  Variable f : Q * Q -> Q.
  Lemma fold_min_le_init l : forall a, fold_left (fun a p => qmin a (f p)) l a <= a.
  Proof. induction l as [|p l IH]; intro a; cbn [fold_left]; [lra|]. specialize (IH (qmin a (f p))). mm; b2p; lra. Qed.
  Lemma fold_min_le_elem l : forall a p, List.In p l -> fold_left (fun a p => qmin a (f p)) l a <= f p.
  Proof.
    induction l as [|q l IH]; intros a p H; [destruct H|]. cbn [fold_left]. destruct H as [->|H]; [|apply IH; exact H].
    pose proof (fold_min_le_init l (qmin a (f p))). mm; b2p; lra.
  Qed.
  Lemma fold_max_ge_init l : forall a, a <= fold_left (fun a p => qmax a (f p)) l a.
  Proof. induction l as [|p l IH]; intro a; cbn [fold_left]; [lra|]. specialize (IH (qmax a (f p))). mm; b2p; lra. Qed.
  Lemma fold_max_ge_elem l : forall a p, List.In p l -> f p <= fold_left (fun a p => qmax a (f p)) l a.
  Proof.
    induction l as [|q l IH]; intros a p H; [destruct H|]. cbn [fold_left]. destruct H as [->|H]; [|apply IH; exact H].
    pose proof (fold_max_ge_init l (qmax a (f p))). mm; b2p; lra.
  Qed.
End Folds.

Theorem bounds_encloses c v : List.In v c -> In (fst v) (snd v) (c_bounds c).
Proof.
  destruct c as [|[x0 y0] r]; [intros []|]. intros H. unfold c_bounds. apply in_iff. cbn [rx ry rw rh].
  pose proof (fold_min_le_init fst r x0). pose proof (fold_min_le_init snd r y0).
  pose proof (fold_max_ge_init fst r x0). pose proof (fold_max_ge_init snd r y0).
  destruct H as [<-|H].
  - cbn [fst snd]. repeat split; lra.
  - pose proof (fold_min_le_elem fst r x0 v H). pose proof (fold_min_le_elem snd r y0 v H).
    pose proof (fold_max_ge_elem fst r x0 v H). pose proof (fold_max_ge_elem snd r y0 v H).
    repeat split; lra.
Qed.

(* ---------- Contour.Contains = parity of the textbook crossing number, away from edges ---------- *)
Lemma Qeqb_iff x y : Qeqb x y = true <-> x == y.
Proof. unfold Qeqb. rewrite andb_true_iff, !Qle_bool_iff. split; [intros []; lra | intro; split; lra]. Qed.
Lemma Qeqb_false x y : Qeqb x y = false <-> ~ x == y.
Proof. rewrite <- Qeqb_iff. destruct (Qeqb x y); split; congruence. Qed.

Lemma between (cx nx t : Q) : 0 <= t -> t <= 1 -> qmin cx nx <= cx + t * (nx - cx) /\ cx + t * (nx - cx) <= qmax cx nx.
Proof. intros H0 H1. mm; b2p; split; nra. Qed.

Lemma span_core (cx cy nx ny py : Q) : qmin cy ny <= py -> py < qmax cy ny ->
  let q := (py - cy) * (nx - cx) / (ny - cy) in
  qmin cx nx <= cx + q /\ cx + q <= qmax cx nx /\ q * (ny - cy) == (py - cy) * (nx - cx) /\ ~ ny == cy.
Proof.
  intros Hlo Hhi q.
  assert (Hd : ~ ny - cy == 0) by (mm; b2p; lra).
  set (t := (py - cy) / (ny - cy)).
  assert (Ht : t * (ny - cy) == py - cy) by (unfold t; field; exact Hd).
  assert (Hq : q == t * (nx - cx)) by (unfold q, t; field; exact Hd).
  assert (T01 : 0 <= t /\ t <= 1).
  { destruct (Qlt_le_dec 0 (ny - cy)) as [P|P].
    - assert (0 <= py - cy /\ py - cy <= ny - cy) as [A B] by (mm; b2p; lra). split; nra.
    - assert (ny - cy < 0) by lra. assert (ny - cy <= py - cy /\ py - cy <= 0) as [A B] by (mm; b2p; lra). split; nra. }
  destruct T01 as [T0 T1]. destruct (between cx nx t T0 T1) as [B1 B2].
  repeat split; try lra. rewrite Hq. nra.
Qed.

Lemma edge_agree px py e : on_edge px py e = false -> edge_counts px py e = crosses px py e.
Proof.
  destruct e as [[cx cy] [nx ny]]. unfold on_edge, edge_counts, crosses. intro NE.
  set (q := (py - cy) * (nx - cx) / (ny - cy)) in *.
  apply eq_true_iff_eq. split; intro H.
  - assert (S : qmin cy ny <= py /\ py < qmax cy ny).
    { destruct (Qltb ny cy) eqn:L; b2p; mm; b2p; split; lra. }
    destruct S as [S1 S2]. destruct (span_core cx cy nx ny py S1 S2) as (B1 & B2 & Bq & Bd). fold q in B1, B2, Bq.
    assert (G : px <= q + cx \/ cx == nx).
    { destruct (Qltb ny cy); b2p; match goal with H : _ || _ = true |- _ => apply orb_true_iff in H; destruct H as [H|H] end;
        [right; apply Qeqb_iff; assumption | left; b2p; assumption | right; apply Qeqb_iff; assumption | left; b2p; assumption]. }
    assert (M : px < qmax cx nx) by (destruct (Qltb ny cy); b2p; assumption).
    p2b; try assumption.
    destruct G as [G|G].
    + destruct (Qlt_le_dec px (cx + q)) as [?|Ge]; [assumption|exfalso].
      assert (E : px == cx + q) by lra.
      assert (on : Qeqb ((px - cx) * (ny - cy)) ((py - cy) * (nx - cx)) && Qle_bool (qmin cx nx) px && Qle_bool px (qmax cx nx) &&
                   Qle_bool (qmin cy ny) py && Qle_bool py (qmax cy ny) = true).
      { assert (Q1 : Qeqb ((px - cx) * (ny - cy)) ((py - cy) * (nx - cx)) = true) by (apply Qeqb_iff; rewrite <- Bq; rewrite E; ring).
        rewrite Q1. cbn [andb]. p2b; lra. }
      congruence.
    + mm; b2p; lra.
  - b2p. destruct (span_core cx cy nx ny py H H1) as (B1 & B2 & Bq & Bd). fold q in B1, B2, Bq.
    assert (R : (Qeqb cx nx || Qle_bool px (q + cx)) = true) by (apply orb_true_iff; right; apply Qle_bool_iff; lra).
    assert (D : negb (Qeqb ny cy) = true) by (apply negb_true_iff, Qeqb_false; exact Bd).
    destruct (Qltb ny cy) eqn:L; b2p; rewrite R, D; p2b; mm; b2p; lra.
Qed.

Theorem contour_contains_crossing c px py :
  (forall e, List.In e (edges c) -> on_edge px py e = false) -> c_contains c px py = Nat.odd (crossings c px py).
Proof.
  intro H. unfold c_contains, c_count, crossings. f_equal. f_equal.
  induction (edges c) as [|e l IH]; [reflexivity|]. cbn [filter].
  rewrite (edge_agree px py e) by (apply H; left; reflexivity). rewrite IH by (intros e' He'; apply H; right; exact He'). reflexivity.
Qed.

Theorem polygon_contains_spec p px py :
  p_contains p px py = existsb (fun c => c_contains c px py) p /\
  p_contains_evenodd p px py = Nat.odd (length (filter (fun c => c_contains c px py) p)).
Proof. split; reflexivity. Qed.
