(* C18 — executable model of xmath/geom Point.In, Rect.{Empty,Contains,Intersects,Intersect,Union}, Matrix, and of
   poly.Contour.{Contains,Bounds}, Polygon.{Contains,ContainsEvenOdd,Bounds,Transform}.
   Coordinates are rationals: Go int values are n/1, float64 values (finite) are exact dyadic rationals. The model
   computes with exact arithmetic; it coincides with Go's where Go's +,-,* are exact (the harness's dyadic domain). *)
From Coq Require Import QArith List Bool.
Import ListNotations.
Open Scope Q_scope.

Definition Qltb (x y : Q) : bool := negb (Qle_bool y x).
Definition qmax (x y : Q) : Q := if Qle_bool x y then y else x.
Definition qmin (x y : Q) : Q := if Qle_bool x y then x else y.

Record rect := mkr { rx : Q; ry : Q; rw : Q; rh : Q }.
Definition zero_rect := mkr 0 0 0 0.
Definition empty (r : rect) : bool := Qle_bool (rw r) 0 || Qle_bool (rh r) 0.
Definition right (r : rect) : Q := rx r + rw r.
Definition bottom (r : rect) : Q := ry r + rh r.

(* Point.In *)
Definition pt_in (px py : Q) (r : rect) : bool :=
  if empty r then false
  else Qle_bool (rx r) px && Qle_bool (ry r) py && Qltb px (right r) && Qltb py (bottom r).

(* Rect.Contains *)
Definition contains (r i : rect) : bool :=
  if empty r || empty i then false
  else Qle_bool (rx r) (rx i) && Qle_bool (ry r) (ry i) && Qle_bool (right i) (right r) && Qle_bool (bottom i) (bottom r).

(* Rect.Intersects *)
Definition intersects (r o : rect) : bool :=
  if empty r || empty o then false
  else Qltb (rx r) (right o) && Qltb (ry r) (bottom o) && Qltb (rx o) (right r) && Qltb (ry o) (bottom r).

(* Rect.Intersect *)
Definition intersect (r o : rect) : rect :=
  if empty r || empty o then zero_rect
  else
    let x := qmax (rx r) (rx o) in
    let y := qmax (ry r) (ry o) in
    let w := qmin (right r) (right o) - x in
    let h := qmin (bottom r) (bottom o) - y in
    if Qle_bool w 0 || Qle_bool h 0 then zero_rect else mkr x y w h.

(* Rect.Union *)
Definition union (r o : rect) : rect :=
  match empty r, empty o with
  | true, true => zero_rect
  | true, false => o
  | false, true => r
  | false, false =>
    let x := qmin (rx r) (rx o) in
    let y := qmin (ry r) (ry o) in
    mkr x y (qmax (right r) (right o) - x) (qmax (bottom r) (bottom o) - y)
  end.

(* Matrix: | ScaleX SkewX TransX | / | SkewY ScaleY TransY | *)
Record matrix := mkm { sx : Q; kx : Q; tx : Q; ky : Q; sy : Q; ty : Q }.
Definition identity := mkm 1 0 0 0 1 0.
Definition translation (dx dy : Q) := mkm 1 0 dx 0 1 dy.
Definition scaling (fx fy : Q) := mkm fx 0 0 0 fy 0.
Definition rotation (s c : Q) := mkm c (- s) 0 s c 0.      (* s, c stand for xmath.Sin / xmath.Cos of the angle *)
Definition m_translate (m : matrix) (dx dy : Q) := mkm (sx m) (kx m) (tx m + dx) (ky m) (sy m) (ty m + dy).
Definition m_scale (m : matrix) (fx fy : Q) := mkm (sx m * fx) (kx m * fx) (tx m * fx) (ky m * fy) (sy m * fy) (ty m * fy).
Definition m_rotate (m : matrix) (s c : Q) :=
  mkm (sx m * c - s * ky m) (kx m * c - s * sy m) (tx m * c - s * ty m)
      (sx m * s + ky m * c) (kx m * s + sy m * c) (tx m * s + ty m * c).
Definition m_multiply (m o : matrix) :=
  mkm (sx m * sx o + ky m * kx o) (kx m * sx o + sy m * kx o) (tx m * sx o + ty m * kx o + tx o)
      (sx m * ky o + ky m * sy o) (kx m * ky o + sy m * sy o) (tx m * ky o + ty m * sy o + ty o).
Definition m_transform (m : matrix) (p : Q * Q) : Q * Q :=
  (sx m * fst p + kx m * snd p + tx m, ky m * fst p + sy m * snd p + ty m).

(* Contour *)
Definition contour := list (Q * Q).
Definition rot1 (c : contour) : contour := match c with [] => [] | p :: r => r ++ [p] end.
Definition edges (c : contour) : list ((Q * Q) * (Q * Q)) := combine c (rot1 c).
Definition Qeqb (x y : Q) : bool := Qle_bool x y && Qle_bool y x.
(* the guard of Contour.Contains for one edge cur->next *)
Definition edge_counts (px py : Q) (e : (Q * Q) * (Q * Q)) : bool :=
  let '((cx, cy), (nx, ny)) := e in
  let '(by_, ty_) := if Qltb ny cy then (ny, cy) else (cy, ny) in     (* bottom.Y > top.Y => swap *)
  Qle_bool by_ py && Qltb py ty_ && Qltb px (qmax cx nx) && negb (Qeqb ny cy) &&
  (Qeqb cx nx || Qle_bool px ((py - cy) * (nx - cx) / (ny - cy) + cx)).
Definition c_count (c : contour) (px py : Q) : nat := length (filter (edge_counts px py) (edges c)).
Definition c_contains (c : contour) (px py : Q) : bool := Nat.odd (c_count c px py).
Definition c_bounds (c : contour) : rect :=
  match c with
  | [] => zero_rect
  | (x0, y0) :: r =>
    let mnx := fold_left (fun a p => qmin a (fst p)) r x0 in
    let mny := fold_left (fun a p => qmin a (snd p)) r y0 in
    let mxx := fold_left (fun a p => qmax a (fst p)) r x0 in
    let mxy := fold_left (fun a p => qmax a (snd p)) r y0 in
    mkr mnx mny (1 + mxx - mnx) (1 + mxy - mny)
  end.
Definition polygon := list contour.
Definition p_contains (p : polygon) (px py : Q) : bool := existsb (fun c => c_contains c px py) p.
Definition p_contains_evenodd (p : polygon) (px py : Q) : bool :=
  Nat.odd (length (filter (fun c => c_contains c px py) p)).
Definition p_bounds (p : polygon) : rect :=
  match p with [] => zero_rect | c :: r => fold_left (fun b c' => union b (c_bounds c')) r (c_bounds c) end.
Definition p_transform (p : polygon) (m : matrix) : polygon := map (map (m_transform m)) p.

(* textbook crossing number (the specification side of Contour.Contains): an edge is crossed by the ray from p towards +x
   when p.y lies in the edge's half-open y-span [min y, max y) and the edge's point at height p.y is strictly right of p *)
Definition crosses (px py : Q) (e : (Q * Q) * (Q * Q)) : bool :=
  let '((cx, cy), (nx, ny)) := e in
  Qle_bool (qmin cy ny) py && Qltb py (qmax cy ny) && Qltb px (cx + (py - cy) * (nx - cx) / (ny - cy)).
Definition crossings (c : contour) (px py : Q) : nat := length (filter (crosses px py) (edges c)).
(* p lies on the (closed) edge *)
Definition on_edge (px py : Q) (e : (Q * Q) * (Q * Q)) : bool :=
  let '((cx, cy), (nx, ny)) := e in
  Qeqb ((px - cx) * (ny - cy)) ((py - cy) * (nx - cx)) &&
  Qle_bool (qmin cx nx) px && Qle_bool px (qmax cx nx) && Qle_bool (qmin cy ny) py && Qle_bool py (qmax cy ny).
