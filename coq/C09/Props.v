(* C09 — property theorems only. *)
From Coq Require Import ZArith NArith List Bool Arith Lia.
From Verif Require Import C09.Model C09.Proofs C09.ProofsFuel C09.Token.
Import ListNotations.

(* for every input string whatsoever and every operator/function table, the parser and the evaluation of the tree it builds
   never perform an unchecked pop or apply a missing operator: no panic *)
Theorem C09_no_input_panics : forall (ops : list oper) (funs : list bytes) (expr : bytes), evaluate ops funs expr <> Panic.
Proof. exact evaluate_never_panics. Qed.
Print Assumptions C09_no_input_panics.

(* bounded time: for every input string whatsoever and every operator table whose symbols are not empty (the standard table is
   one), no loop of the model runs out of its fuel - the scan position strictly increases and stays within the input, every reduction
   pops an operator, the parenthesis matcher's fuel is enough (more fuel gives the same answer) *)
Theorem C09_no_input_exhausts_the_fuel : forall (ops : list oper) (funs : list bytes) (expr : bytes),
  (forall o, In o ops -> sym o <> []) -> evaluate ops funs expr <> OutOfFuel.
Proof. exact evaluate_never_out_of_fuel. Qed.
Print Assumptions C09_no_input_exhausts_the_fuel.
Theorem C09_standard_table_total : forall funs expr, evaluate std_ops funs expr <> OutOfFuel /\ evaluate std_ops funs expr <> Panic.
Proof. intros funs expr. split; [apply evaluate_never_out_of_fuel; exact std_ops_syms|apply evaluate_never_panics]. Qed.
Print Assumptions C09_standard_table_total.
Theorem C09_paren_matcher_fuel_suffices : forall ops, (forall o, In o ops -> sym o <> []) -> forall expr next parens k,
  match_paren ops (S (length expr) + k) expr next parens = match_paren ops (S (length expr)) expr next parens.
Proof. intros ops H expr next parens k. apply match_paren_stable; [exact H|lia]. Qed.
Print Assumptions C09_paren_matcher_fuel_suffices.

(* token level: for every well-formed expression (binary operators with the conventional precedences and left associativity, a
   unary sign or negation before a literal or before a parenthesised expression, redundant parentheses), the two-stack reduction
   ends with exactly the conventional tree: a unary operator applies to its operand only *)
Theorem C09_precedence_associativity_and_unary_scope : forall e : expr, wf e ->
  exists s, Token.run {| vs := []; os := []; have := false; pend := None |} (tokens e) = Some s /\
            Token.finish s = [tree_of e] /\ snd (reduce_lp (vs s) (os s)) = [].
Proof. exact parse_correct. Qed.
Print Assumptions C09_precedence_associativity_and_unary_scope.

(* regression examples on the byte-level model: 2*-3, 3 - -2, -() and (abs(1)) + 1 with f standing for a function *)
Definition str (l : list N) : bytes := l.
Open Scope N_scope.
Example C09_ex_unary_after_operator :
  evaluate std_ops [] (str [50; 42; 45; 51]) = Ok (str [40; 50; 42; 91; 45; 51; 93; 41]) /\      (* 2*-3 = (2*[-3]) *)
  evaluate std_ops [] (str [51; 32; 45; 32; 45; 50]) = Ok (str [40; 51; 45; 91; 45; 50; 93; 41]). (* 3 - -2 = (3-[-2]) *)
Proof. split; vm_compute; reflexivity. Qed.
Example C09_ex_empty_parens : evaluate std_ops [] (str [45; 40; 41]) = Err.
Proof. vm_compute. reflexivity. Qed.
Example C09_ex_precedence :
  evaluate std_ops [] (str [49; 43; 50; 42; 51; 94; 52; 45; 53]) = Ok (str [40; 40; 49; 43; 40; 50; 42; 40; 51; 94; 52; 41; 41; 41; 45; 53; 41]).
Proof. vm_compute. reflexivity. Qed.
