(* C09 — property theorems only. *)
From Coq Require Import ZArith NArith List Bool Arith.
From Verif Require Import C09.Model C09.Proofs C09.Token.
Import ListNotations.

(* for every input string whatsoever and every operator/function table, the parser and the evaluation of the tree it builds
   never perform an unchecked pop or apply a missing operator: no panic *)
Theorem C09_no_input_panics : forall (ops : list oper) (funs : list bytes) (expr : bytes), evaluate ops funs expr <> Panic.
Proof. exact evaluate_never_panics. Qed.
Print Assumptions C09_no_input_panics.

(* token level: for every well-formed expression (binary operators with the conventional precedences and left associativity, a
   unary sign or negation before a literal or before a parenthesised expression, redundant parentheses), the two-stack reduction
   ends with exactly the conventional tree: a unary operator applies to its operand only *)
Theorem C09_precedence_associativity_and_unary_scope : forall e : expr, wf e ->
  exists s, Token.run {| vs := []; os := []; have := false; pend := None |} (tokens e) = Some s /\
            Token.finish s = [tree_of e] /\ snd (reduce_lp (vs s) (os s)) = [].
Proof. exact parse_correct. Qed.
Print Assumptions C09_precedence_associativity_and_unary_scope.

(* regression examples on the byte-level model: 2*-3, 3 - -2, -() and (abs(1)) + 1 with f standing for a function *)
Definition str (l : list N) : bytes := l.
Open Scope N_scope.
Example C09_ex_unary_after_operator :
  evaluate std_ops [] (str [50; 42; 45; 51]) = Ok (str [40; 50; 42; 91; 45; 51; 93; 41]) /\      (* 2*-3 = (2*[-3]) *)
  evaluate std_ops [] (str [51; 32; 45; 32; 45; 50]) = Ok (str [40; 51; 45; 91; 45; 50; 93; 41]). (* 3 - -2 = (3-[-2]) *)
Proof. split; vm_compute; reflexivity. Qed.
Example C09_ex_empty_parens : evaluate std_ops [] (str [45; 40; 41]) = Err.
Proof. vm_compute. reflexivity. Qed.
Example C09_ex_precedence :
  evaluate std_ops [] (str [49; 43; 50; 42; 51; 94; 52; 45; 53]) = Ok (str [40; 40; 49; 43; 40; 50; 42; 40; 51; 94; 52; 41; 41; 41; 45; 53; 41]).
Proof. vm_compute. reflexivity. Qed.
