(* C09 — token-level model of the two-stack reduction (with the repaired unary rule) and its correctness proof:
   for every well-formed expression the operator/operand stacks end up holding exactly the conventional tree. *)
From Coq Require Import List Bool Arith Lia.
Import ListNotations.

Record op := { oid : nat; prec : nat; una : bool }.
Inductive tok := TOperand (s : nat) | TOp (o : op) | TLP | TRP.
Inductive tree := Leaf (u : option op) (s : nat) | Node (o : op) (l r : option tree) | UnaryP (u : op) (t : tree).
Inductive oentry := OLP (u : option op) | OBin (o : op).
Record st := { vs : list tree; os : list oentry; have : bool; pend : option op }.

(* processTree *)
Definition reduce1 (o : op) (v : list tree) : list tree :=
  match v with
  | r :: l :: rest => Node o (Some l) (Some r) :: rest
  | [r] => [Node o None (Some r)]
  | [] => [Node o None None]
  end.
(* reduce while top is a binary operator of precedence >= p *)
Fixpoint reduce_ge (p : nat) (v : list tree) (o : list oentry) : list tree * list oentry :=
  match o with
  | OBin b :: o' => if p <=? prec b then reduce_ge p (reduce1 b v) o' else (v, o)
  | _ => (v, o)
  end.
(* reduce until an open parenthesis (or the bottom) *)
Fixpoint reduce_lp (v : list tree) (o : list oentry) : list tree * list oentry :=
  match o with
  | OBin b :: o' => reduce_lp (reduce1 b v) o'
  | _ => (v, o)
  end.

Definition step (s : st) (t : tok) : option st :=
  match t with
  | TOperand x => Some {| vs := Leaf (pend s) x :: vs s; os := os s; have := true; pend := None |}
  | TOp o =>
    if una o && negb (have s) then
      match pend s with Some _ => None | None => Some {| vs := vs s; os := os s; have := false; pend := Some o |} end
    else let '(v, o') := reduce_ge (prec o) (vs s) (os s) in
         Some {| vs := v; os := OBin o :: o'; have := false; pend := None |}
  | TLP => Some {| vs := vs s; os := OLP (pend s) :: os s; have := false; pend := None |}     (* function calls not modelled here *)
  | TRP =>
    let '(v, o') := reduce_lp (vs s) (os s) in
    match o' with
    | OLP u :: o'' =>
      match u with
      | None => Some {| vs := v; os := o''; have := have s; pend := None |}
      | Some uo => match v with x :: xs => Some {| vs := UnaryP uo x :: xs; os := o''; have := have s; pend := None |} | [] => None end
      end
    | _ => None
    end
  end.
Fixpoint run (s : st) (ts : list tok) : option st :=
  match ts with [] => Some s | t :: r => match step s t with Some s' => run s' r | None => None end end.

(* ---- specification: well-formed expressions ---- *)
Inductive expr := Lit (s : nat) | ULit (o : op) (s : nat) | Par (e : expr) | UPar (o : op) (e : expr) | Bin (o : op) (l r : expr).
Fixpoint tokens (e : expr) : list tok :=
  match e with
  | Lit s => [TOperand s] | ULit o s => [TOp o; TOperand s]
  | Par e => TLP :: tokens e ++ [TRP] | UPar o e => TOp o :: TLP :: tokens e ++ [TRP]
  | Bin o l r => tokens l ++ TOp o :: tokens r
  end.
Fixpoint tree_of (e : expr) : tree :=
  match e with
  | Lit s => Leaf None s | ULit o s => Leaf (Some o) s
  | Par e => tree_of e | UPar o e => UnaryP o (tree_of e)
  | Bin o l r => Node o (Some (tree_of l)) (Some (tree_of r))
  end.
Definition INF := 1000.
Definition minprec (e : expr) : nat := match e with Bin o _ _ => prec o | _ => INF end.
Fixpoint wf (e : expr) : Prop :=
  match e with
  | Lit _ => True | ULit o _ => una o = true
  | Par e => wf e | UPar o e => una o = true /\ wf e
  | Bin o l r => wf l /\ wf r /\ prec o <= minprec l /\ prec o < minprec r /\ prec o < INF
  end.

Definition all_bin_ge (p : nat) (o : list oentry) : Prop := Forall (fun e => match e with OBin b => p <= prec b | OLP _ => False end) o.

Lemma reduce_ge_app p o' : forall v o, all_bin_ge p o' -> reduce_ge p v (o' ++ o) = reduce_ge p (fst (reduce_lp v o')) o.
Proof.
  induction o' as [|e o' IH]; intros v o H; cbn; auto.
  inversion H as [|? ? He Hr]; subst. destruct e as [|b]; [contradiction|].
  apply Nat.leb_le in He. rewrite He. apply IH. exact Hr.
Qed.
Lemma reduce_lp_app o' : forall v o p, all_bin_ge p o' -> reduce_lp v (o' ++ o) = reduce_lp (fst (reduce_lp v o')) o.
Proof.
  induction o' as [|e o' IH]; intros v o p H; cbn; auto.
  inversion H as [|? ? He Hr]; subst. destruct e as [|b]; [contradiction|]. eapply IH. exact Hr.
Qed.
Lemma reduce_lp_allbin o' : forall v p, all_bin_ge p o' -> snd (reduce_lp v o') = [].
Proof. induction o' as [|e o' IH]; intros v p H; cbn; auto. inversion H; subst. destruct e; [contradiction|]. eapply IH; eauto. Qed.
Lemma all_bin_weaken p q o : q <= p -> all_bin_ge p o -> all_bin_ge q o.
Proof. intros Hq H. induction H; constructor; auto. destruct x; auto. lia. Qed.

Definition stable (p : nat) (o : list oentry) : Prop := match o with OBin c :: _ => prec c < p | _ => True end.
Lemma reduce_ge_stable p v o : stable p o -> reduce_ge p v o = (v, o).
Proof. destruct o as [|[|c] o]; cbn; auto. intro H. apply Nat.leb_gt in H. now rewrite H. Qed.
Lemma all_bin_app p a b : all_bin_ge p a -> all_bin_ge p b -> all_bin_ge p (a ++ b).
Proof. apply Forall_app_in || (intros; apply Forall_app; split; assumption). Qed.

(* main lemma: after the tokens of e, the pending operators (all binary, precedence >= minprec e) flush to tree_of e *)
Lemma run_tokens : forall e v o k, wf e -> stable (minprec e) o ->
  exists v' o', run {| vs := v; os := o; have := false; pend := None |} (tokens e ++ k)
                = run {| vs := v'; os := o' ++ o; have := true; pend := None |} k
             /\ all_bin_ge (minprec e) o' /\ fst (reduce_lp v' o') = tree_of e :: v.
Proof.
  induction e as [s | u s | e IH | u e IH | b l IHl r IHr]; intros v o k W S; cbn [tokens wf] in *.
  - exists (Leaf None s :: v), []. cbn. repeat split; constructor.
  - exists (Leaf (Some u) s :: v), []. cbn. rewrite W. cbn. repeat split; constructor.
  - destruct (IH v (OLP None :: o) (TRP :: k) W I) as (v' & o' & R & A & F).
    exists (tree_of e :: v), []. cbn [app run step vs os have pend]. rewrite <- app_assoc. cbn [app]. rewrite R.
    cbn [run step vs os have pend]. rewrite (reduce_lp_app _ _ _ _ A). rewrite F. cbn. repeat split; constructor.
  - destruct W as [Wu W]. destruct (IH v (OLP (Some u) :: o) (TRP :: k) W I) as (v' & o' & R & A & F).
    exists (UnaryP u (tree_of e) :: v), []. cbn [app run step vs os have pend]. rewrite Wu. cbn [andb negb run step vs os have pend].
    rewrite <- app_assoc. cbn [app]. rewrite R.
    cbn [run step vs os have pend]. rewrite (reduce_lp_app _ _ _ _ A). rewrite F. cbn. repeat split; constructor.
  - destruct W as (Wl & Wr & Pl & Pr & Pinf). cbn [minprec] in S.
    assert (Sl : stable (minprec l) o) by (destruct o as [|[|c] o]; cbn in *; auto; lia).
    destruct (IHl v o (TOp b :: tokens r ++ k) Wl Sl) as (vl & ol & Rl & Al & Fl).
    rewrite <- app_assoc. cbn [app]. rewrite Rl. cbn [run step vs os have pend].
    rewrite andb_false_r.
    rewrite (reduce_ge_app _ _ _ _ (all_bin_weaken _ _ _ Pl Al)). rewrite Fl.
    rewrite (reduce_ge_stable _ _ _ S).
    destruct (IHr (tree_of l :: v) (OBin b :: o) k Wr Pr) as (vr & or & Rr & Ar & Fr).
    rewrite Rr. exists vr, (or ++ [OBin b]). rewrite <- app_assoc. cbn [app]. split; [reflexivity|]. split.
    + cbn [minprec]. apply all_bin_app. { eapply all_bin_weaken; [|exact Ar]. lia. } constructor; [cbn; lia|constructor].
    + rewrite (reduce_lp_app _ _ _ _ Ar). rewrite Fr. reflexivity.
Qed.

(* end of input: everything left is reduced *)
Definition finish (s : st) : list tree := fst (reduce_lp (vs s) (os s)).
Theorem parse_correct e : wf e ->
  exists s, run {| vs := []; os := []; have := false; pend := None |} (tokens e) = Some s /\ finish s = [tree_of e] /\ snd (reduce_lp (vs s) (os s)) = [].
Proof.
  intro W. destruct (run_tokens e [] [] [] W I) as (v' & o' & R & A & F).
  rewrite app_nil_r in R. cbn [run] in R. rewrite app_nil_r in R.
  eexists. split; [exact R|]. unfold finish; cbn [vs os]. split; [exact F|]. eapply reduce_lp_allbin; eauto.
Qed.
