(* C09 — the byte-level parser never reaches a Go panic: no unchecked pop, and evaluation of the trees it builds never applies a
   missing binary operator. *)
From Coq Require Import ZArith NArith List Bool Lia.
From Verif Require Import C09.Model.
Import ListNotations.

Fixpoint tree_ok (x : operand) : Prop :=
  match x with
  | OpText _ _ | OpFun _ _ _ => True
  | OpTree l r o u => (match l with Some a => tree_ok a | None => True end) /\ (match r with Some a => tree_ok a | None => True end) /\
                      (o = None -> r = None)
  end.
Definition st_ok (s : st) : Prop := Forall tree_ok (opnds s).

Lemma processTree_ok s s' : st_ok s -> processTree s = Ok s' -> st_ok s'.
Proof.
  unfold processTree, st_ok. intros H. destruct (optrs s) as [|o os]; [discriminate|].
  destruct (opnds s) as [|x xs] eqn:E1; cbn.
  - intros [= <-]. cbn. constructor; [cbn; repeat split; auto; discriminate|constructor].
  - inversion H as [|? ? Hx Hxs]; subst. destruct xs as [|y ys]; cbn; intros [= <-]; cbn.
    + constructor; [cbn; repeat split; auto; discriminate|constructor].
    + inversion Hxs; subst. constructor; [cbn; repeat split; auto; discriminate|assumption].
Qed.
Lemma processTree_not_panic s : optrs s <> [] -> processTree s <> Panic.
Proof. unfold processTree. destruct (optrs s); [congruence|]. destruct (opnds s) as [|x [|y ys]]; cbn; discriminate. Qed.

Lemma reduce_to_paren_ok : forall fuel s, st_ok s -> reduce_to_paren fuel s <> Panic /\ (forall s', reduce_to_paren fuel s = Ok s' -> st_ok s').
Proof.
  induction fuel as [|f IH]; intros s H; cbn [reduce_to_paren]; [split; [discriminate|intros; discriminate]|].
  destruct (optrs s) as [|o os] eqn:E; [split; [discriminate|intros s' [= <-]; exact H]|].
  destruct (is_sym (s_op o) 40); [split; [discriminate|intros s' [= <-]; exact H]|].
  destruct (processTree s) as [s1| | |] eqn:P; try (split; [discriminate|intros; discriminate]).
  - apply IH. eapply processTree_ok; eauto.
  - exfalso. apply (processTree_not_panic s); [rewrite E; discriminate|exact P].
Qed.
Lemma reduce_prec_ok : forall fuel p s, st_ok s -> reduce_prec fuel p s <> Panic /\ (forall s', reduce_prec fuel p s = Ok s' -> st_ok s').
Proof.
  induction fuel as [|f IH]; intros p s H; cbn [reduce_prec]; [split; [discriminate|intros; discriminate]|].
  destruct (optrs s) as [|o os] eqn:E; [split; [discriminate|intros s' [= <-]; exact H]|].
  destruct (p <=? prec (s_op o))%Z; [|split; [discriminate|intros s' [= <-]; exact H]].
  destruct (processTree s) as [s1| | |] eqn:P; try (split; [discriminate|intros; discriminate]).
  - apply IH. eapply processTree_ok; eauto.
  - exfalso. apply (processTree_not_panic s); [rewrite E; discriminate|exact P].
Qed.
Lemma finish_ok : forall fuel s, st_ok s -> finish fuel s <> Panic /\ (forall s', finish fuel s = Ok s' -> st_ok s').
Proof.
  induction fuel as [|f IH]; intros s H; cbn [finish]; [split; [discriminate|intros; discriminate]|].
  destruct (optrs s) as [|o os] eqn:E; [split; [discriminate|intros s' [= <-]; exact H]|].
  destruct (processTree s) as [s1| | |] eqn:P; try (split; [discriminate|intros; discriminate]).
  - apply IH. eapply processTree_ok; eauto.
  - exfalso. apply (processTree_not_panic s); [rewrite E; discriminate|exact P].
Qed.

Section P.
Variable ops : list oper.
Variable funs : list bytes.

Lemma processFunction_ok expr i s : st_ok s -> processFunction ops funs expr i s <> Panic /\
  (forall n s', processFunction ops funs expr i s = Ok (n, s') -> st_ok s').
Proof.
  intro H. unfold processFunction. destruct (match_paren ops (S (length expr)) expr i 1); [|split; [discriminate|intros; discriminate]].
  destruct (opnds s) as [|[u name| | ] rest] eqn:E; try (split; [discriminate|intros; discriminate]).
  destruct (existsb (beq name) funs); [|split; [discriminate|intros; discriminate]].
  split; [discriminate|]. intros n0 s' [= _ <-]. unfold st_ok in *. cbn. rewrite E in H. inversion H; subst. constructor; [exact I|assumption].
Qed.

Lemma processOperator_ok expr i o have u s : st_ok s -> processOperator ops funs expr i o have u s <> Panic /\
  (forall n o' s', processOperator ops funs expr i o have u s = Ok (n, o', s') -> st_ok s').
Proof.
  intro H. unfold processOperator. cbv zeta.
  assert (C : forall idx o0 s0, st_ok s0 -> opCont u (S (length (optrs s))) idx o0 s0 <> Panic /\
              (forall n o' s', opCont u (S (length (optrs s))) idx o0 s0 = Ok (n, o', s') -> st_ok s')).
  { intros idx o0 s0 H0. unfold opCont. destruct (is_sym o0 40).
    - split; [discriminate|]. intros n o' s' [= _ _ <-]. exact H0.
    - destruct (is_sym o0 41).
      + destruct (reduce_to_paren_ok (S (length (optrs s))) s0 H0) as [NP OK].
        destruct (reduce_to_paren (S (length (optrs s))) s0) as [s1| | |] eqn:R; try (split; [discriminate|intros; discriminate]); [|congruence].
        specialize (OK s1 eq_refl). destruct (optrs s1) as [|top os]; [split; [discriminate|intros; discriminate]|].
        destruct (is_sym (s_op top) 40); [|split; [discriminate|intros; discriminate]].
        destruct (s_un top) as [uo|].
        * destruct (opnds s1) as [|x xs] eqn:E; [split; [discriminate|intros; discriminate]|].
          split; [discriminate|]. intros n o' s' [= _ _ <-]. unfold st_ok in *. cbn. rewrite E in OK. inversion OK; subst.
          constructor; [cbn; repeat split; auto|assumption].
        * split; [discriminate|]. intros n o' s' [= _ _ <-]. exact OK.
      + destruct (reduce_prec_ok (S (length (optrs s))) (prec o0) s0 H0) as [NP OK].
        destruct (reduce_prec (S (length (optrs s))) (prec o0) s0) as [s1| | |] eqn:R; try (split; [discriminate|intros; discriminate]); [|congruence].
        split; [discriminate|]. intros n o' s' [= _ _ <-]. exact (OK s1 eq_refl). }
  destruct (have && is_sym o 40).
  - destruct (processFunction_ok expr i s H) as [NP OK].
    destruct (processFunction ops funs expr i s) as [[idx s1]| | |] eqn:F; try (split; [discriminate|intros; discriminate]); [|congruence].
    specialize (OK idx s1 eq_refl).
    destruct (nextOperator ops expr (idx + 1)) as [[tmp o2]|].
    + apply C. exact OK.
    + destruct (find_close ops); [|split; [discriminate|intros; discriminate]]. split; [discriminate|]. intros n o' s' [= _ _ <-]. exact OK.
  - apply C. exact H.
Qed.

Lemma parse_loop_ok : forall fuel expr i u have s, st_ok s -> parse_loop ops funs fuel expr i u have s <> Panic /\
  (forall s', parse_loop ops funs fuel expr i u have s = Ok s' -> st_ok s').
Proof.
  induction fuel as [|f IH]; intros expr i u have s H; cbn [parse_loop]; [split; [discriminate|intros; discriminate]|].
  destruct (length expr <=? i)%nat; [split; [discriminate|intros s' [= <-]; exact H]|].
  destruct (is_ws (nthb expr i)); [apply IH; exact H|].
  set (no := nextOperator ops expr i).
  assert (Hpush : forall text, st_ok {| opnds := OpText u text :: opnds s; optrs := optrs s |}).
  { intro text. unfold st_ok in *. cbn. constructor; [exact I|exact H]. }
  destruct no as [[oi o]|] eqn:En.
  - destruct (i <? oi)%nat.
    + destruct (trim (slice expr i oi)) as [|c t]; [split; [discriminate|intros; discriminate]|].
      destruct (oi =? oi)%nat; [|apply IH; apply Hpush].
      destruct (una o && negb true); [apply IH; apply Hpush|].
      destruct (processOperator_ok expr oi o true None _ (Hpush (c :: t))) as [NP OK].
      destruct (processOperator ops funs expr oi o true None _) as [[[i2 lastop] s2]| | |] eqn:PO; try (split; [discriminate|intros; discriminate]); [|congruence].
      apply IH. exact (OK _ _ _ eq_refl).
    + destruct (oi =? i)%nat; [|apply IH; exact H].
      destruct (una o && negb have).
      * destruct u; [split; [discriminate|intros; discriminate]|]. apply IH. exact H.
      * destruct (processOperator_ok expr oi o have u s H) as [NP OK].
        destruct (processOperator ops funs expr oi o have u s) as [[[i2 lastop] s2]| | |] eqn:PO; try (split; [discriminate|intros; discriminate]); [|congruence].
        apply IH. exact (OK _ _ _ eq_refl).
  - destruct (trim (skipn i expr)) as [|c t]; [split; [discriminate|intros; discriminate]|]. apply IH. apply Hpush.
Qed.
End P.

Lemma evalO_not_panic : forall x, tree_ok x -> evalO x <> Panic.
Proof.
  fix IH 1. intros x H. destruct x as [u t | u name args | l r o u]; cbn [evalO]; try discriminate.
  cbn [tree_ok] in H. destruct H as (Hl & Hr & Ho).
  destruct l as [a|].
  - pose proof (IH a Hl) as NA. destruct (evalO a) as [va| | |]; try discriminate; [|congruence].
    destruct r as [b|].
    + pose proof (IH b Hr) as NB. destruct (evalO b) as [vb| | |]; try discriminate; [|congruence].
      destruct o as [oo|]; [destruct (bin oo); discriminate|]. specialize (Ho eq_refl). discriminate.
    + destruct u as [uo|]; [destruct (una uo); [discriminate|]|]; destruct o as [oo|]; try discriminate; destruct (una oo); discriminate.
  - destruct r as [b|].
    + pose proof (IH b Hr) as NB. destruct (evalO b) as [vb| | |]; try discriminate; [|congruence].
      destruct u as [uo|]; [destruct (una uo); [discriminate|]|]; destruct o as [oo|]; try discriminate; destruct (una oo); discriminate.
    + discriminate.
Qed.

Theorem evaluate_never_panics ops funs expr : evaluate ops funs expr <> Panic.
Proof.
  unfold evaluate.
  assert (H0 : st_ok {| opnds := []; optrs := [] |}) by constructor.
  destruct (parse_loop_ok ops funs (2 * length expr + 2) expr 0 None false _ H0) as [NP OK].
  destruct (parse_loop ops funs (2 * length expr + 2) expr 0 None false _) as [s| | |] eqn:P; try discriminate; [|congruence].
  specialize (OK s eq_refl). destruct (finish_ok (S (length (optrs s))) s OK) as [NF OKF].
  destruct (finish (S (length (optrs s))) s) as [s'| | |] eqn:F; try discriminate; [|congruence].
  specialize (OKF s' eq_refl). destruct (opnds s') as [|x xs] eqn:E; [discriminate|]. unfold st_ok in OKF. rewrite E in OKF. inversion OKF; subst.
  apply evalO_not_panic. assumption.
Qed.
