(* C09 — executable byte-level model of eval.Evaluator (evaluator.go, operator.go): nextOperator, parse with its
   haveOperand / unaryOp bookkeeping, processOperand, processOperator (function capture by parenthesis matching, "(", ")",
   precedence reduction), processTree, and evaluation of the resulting operand tree with SYMBOLIC operators: a binary operator
   builds "(l<sym>r)", a unary one "[<sym>a]", a function "name{args}" - so the value of an expression is its parse tree.
   A pop the Go code performs without a length check is Panic; loops run on fuel (OutOfFuel is proved unreachable for the parser). *)
From Coq Require Import ZArith NArith List Bool.
Import ListNotations.
Open Scope N_scope.

Definition bytes := list N.
Record oper := { sym : bytes; prec : Z; bin : bool; una : bool }.
Inductive operand :=
 | OpText (u : option oper) (text : bytes)
 | OpFun (u : option oper) (name args : bytes)
 | OpTree (l r : option operand) (o : option oper) (u : option oper).
Record sop := { s_op : oper; s_un : option oper }.
Inductive res (A : Type) := Ok (a : A) | Err | Panic | OutOfFuel.
Arguments Ok {A}. Arguments Err {A}. Arguments Panic {A}. Arguments OutOfFuel {A}.

Fixpoint beq (a b : bytes) : bool :=
  match a, b with [], [] => true | x :: a', y :: b' => (x =? y) && beq a' b' | _, _ => false end.
Fixpoint is_prefix (p s : bytes) : bool :=
  match p, s with [] , _ => true | x :: p', y :: s' => (x =? y) && is_prefix p' s' | _, [] => false end.
Definition is_digit (c : N) := (48 <=? c) && (c <=? 57).
Definition is_ws (c : N) := (c =? 32) || (c =? 9) || (c =? 10) || (c =? 13).
Definition nthb (s : bytes) (i : nat) : N := nth i s 0.

(* Operator.match at position start; rest = skipn start expr *)
Definition op_match (expr : bytes) (start : nat) (rest : bytes) (o : oper) : bool :=
  is_prefix (sym o) rest &&
  negb (beq (sym o) [45] && (1 <? N.of_nat start) && (nthb expr (start - 1) =? 101) && is_digit (nthb expr (start - 2))).

Fixpoint first_match (ops : list oper) (expr : bytes) (start : nat) (rest : bytes) : option oper :=
  match ops with [] => None | o :: ops' => if op_match expr start rest o then Some o else first_match ops' expr start rest end.

(* nextOperator: scan rest (= skipn start expr) *)
Fixpoint next_op (ops : list oper) (expr : bytes) (start : nat) (rest : bytes) : option (nat * oper) :=
  match rest with
  | [] => None
  | _ :: rest' => match first_match ops expr start rest with
                  | Some o => Some (start, o)
                  | None => next_op ops expr (S start) rest'
                  end
  end.
Definition nextOperator ops expr start := next_op ops expr start (skipn start expr).

Definition trim_l := fix f (s : bytes) := match s with c :: s' => if is_ws c then f s' else s | [] => [] end.
Definition trim (s : bytes) := rev (trim_l (rev (trim_l s))).
Definition slice (s : bytes) (a b : nat) := firstn (b - a) (skipn a s).

Record st := { opnds : list operand; optrs : list sop }.

Definition processTree (s : st) : res st :=
  match optrs s with
  | [] => Panic
  | o :: os =>
    let '(r, rest1) := match opnds s with x :: xs => (Some x, xs) | [] => (None, []) end in
    let '(l, rest2) := match rest1 with x :: xs => (Some x, xs) | [] => (None, []) end in
    Ok {| opnds := OpTree l r (Some (s_op o)) None :: rest2; optrs := os |}
  end.

Definition is_sym (o : oper) (c : N) := beq (sym o) [c].

Fixpoint reduce_to_paren (fuel : nat) (s : st) : res st :=
  match fuel with O => OutOfFuel | S f =>
    match optrs s with
    | [] => Ok s
    | o :: _ => if is_sym (s_op o) 40 then Ok s else
                match processTree s with Ok s' => reduce_to_paren f s' | e => e end
    end end.
Fixpoint reduce_prec (fuel : nat) (p : Z) (s : st) : res st :=
  match fuel with O => OutOfFuel | S f =>
    match optrs s with
    | [] => Ok s
    | o :: _ => if (p <=? prec (s_op o))%Z then
                  match processTree s with Ok s' => reduce_prec f p s' | e => e end
                else Ok s
    end end.

Section P.
Variable ops : list oper.
Variable funs : list bytes.   (* defined function names *)

(* processFunction: returns position of matching ')' *)
Fixpoint match_paren (fuel : nat) (expr : bytes) (next : nat) (parens : nat) : option nat :=
  match fuel with O => None | S f =>
    match nextOperator ops expr (S next) with
    | None => None
    | Some (i, o) =>
      if is_sym o 40 then match_paren f expr i (S parens)
      else if is_sym o 41 then (match parens with 1%nat => Some i | _ => match_paren f expr i (parens - 1) end)
      else match_paren f expr i parens
    end end.

Definition processFunction (expr : bytes) (opIndex : nat) (s : st) : res (nat * st) :=
  match match_paren (S (length expr)) expr opIndex 1 with
  | None => Err
  | Some next =>
    match opnds s with
    | [] => Err
    | OpText u name :: rest =>
      if existsb (beq name) funs then Ok (next, {| opnds := OpFun u name (slice expr (S opIndex) next) :: rest; optrs := optrs s |})
      else Err
    | _ => Err
    end
  end.

Definition find_close := find (fun o => is_sym o 41) ops.

Definition opCont (u : option oper) (fuel : nat) (index : nat) (o : oper) (s : st) : res (nat * oper * st) :=
    if is_sym o 40 then Ok ((index + length (sym o))%nat, o, {| opnds := opnds s; optrs := {| s_op := o; s_un := u |} :: optrs s |})
    else if is_sym o 41 then
      match reduce_to_paren fuel s with
      | Ok s1 =>
        match optrs s1 with
        | [] => Err
        | top :: os =>
          if is_sym (s_op top) 40 then
            match s_un top with
            | None => Ok ((index + length (sym o))%nat, o, {| opnds := opnds s1; optrs := os |})
            | Some uo => match opnds s1 with
                         | [] => Err
                         | x :: xs => Ok ((index + length (sym o))%nat, o, {| opnds := OpTree (Some x) None None (Some uo) :: xs; optrs := os |})
                         end
            end
          else Err
        end
      | Err => Err | Panic => Panic | OutOfFuel => OutOfFuel
      end
    else
      match reduce_prec fuel (prec o) s with
      | Ok s1 => Ok ((index + length (sym o))%nat, o, {| opnds := opnds s1; optrs := {| s_op := o; s_un := u |} :: optrs s1 |})
      | Err => Err | Panic => Panic | OutOfFuel => OutOfFuel
      end.

Definition processOperator (expr : bytes) (index : nat) (o : oper) (haveOperand : bool) (u : option oper) (s : st) : res (nat * oper * st) :=
  let fuel := S (length (optrs s)) in
  let cont := opCont u fuel in
  if haveOperand && is_sym o 40 then
    match processFunction expr index s with
    | Ok (idx, s1) =>
      let idx := (idx + 1)%nat in
      match nextOperator ops expr idx with
      | None => match find_close with Some cp => Ok (idx, cp, s1) | None => Err end
      | Some (tmp, o2) => cont tmp o2 s1
      end
    | Err => Err | Panic => Panic | OutOfFuel => OutOfFuel
    end
  else cont index o s.

Fixpoint parse_loop (fuel : nat) (expr : bytes) (i : nat) (u : option oper) (have : bool) (s : st) : res st :=
  match fuel with O => OutOfFuel | S f =>
    if (length expr <=? i)%nat then Ok s else
    if is_ws (nthb expr i) then parse_loop f expr (S i) u have s else
    let no := nextOperator ops expr i in
    (* operand part *)
    let r1 : res (nat * option oper * bool * st) :=
      match no with
      | None =>
        let text := trim (skipn i expr) in
        match text with [] => Err | _ => Ok (length expr, None, true, {| opnds := OpText u text :: opnds s; optrs := optrs s |}) end
      | Some (oi, _) =>
        if (i <? oi)%nat then
          let text := trim (slice expr i oi) in
          match text with [] => Err | _ => Ok (oi, None, true, {| opnds := OpText u text :: opnds s; optrs := optrs s |}) end
        else Ok (i, u, have, s)
      end in
    match r1 with
    | Ok (i1, u1, have1, s1) =>
      match no with
      | Some (oi, o) =>
        if (oi =? i1)%nat then
          if una o && negb have1 then
            match u1 with
            | Some _ => Err
            | None => parse_loop f expr (oi + length (sym o))%nat (Some o) (if is_sym o 41 then have1 else false) s1
            end
          else
            match processOperator expr oi o have1 u1 s1 with
            | Ok (i2, lastop, s2) => parse_loop f expr i2 None (if is_sym lastop 41 then have1 else false) s2
            | Err => Err | Panic => Panic | OutOfFuel => OutOfFuel
            end
        else parse_loop f expr i1 u1 have1 s1
      | None => parse_loop f expr i1 u1 have1 s1
      end
    | Err => Err | Panic => Panic | OutOfFuel => OutOfFuel
    end
  end.

Fixpoint finish (fuel : nat) (s : st) : res st :=
  match fuel with O => OutOfFuel | S f =>
    match optrs s with [] => Ok s | _ => match processTree s with Ok s' => finish f s' | e => e end end end.

(* symbolic evaluation: operators build text *)
Definition app_un (u : option oper) (v : bytes) : bytes :=
  match u with Some o => if una o then [91] ++ sym o ++ v ++ [93] else v | None => v end.

Fixpoint evalO (x : operand) : res bytes :=
  match x with
  | OpText u t => Ok (app_un u t)
  | OpFun u name args => Ok (app_un u (name ++ [123] ++ args ++ [125]))
  | OpTree l r o u =>
    let el := match l with Some a => match evalO a with Ok v => Ok (Some v) | Err => Err | Panic => Panic | OutOfFuel => OutOfFuel end | None => Ok None end in
    match el with
    | Ok lv =>
      let er := match r with Some a => match evalO a with Ok v => Ok (Some v) | Err => Err | Panic => Panic | OutOfFuel => OutOfFuel end | None => Ok None end in
      match er with
      | Ok rv =>
        match lv, rv with
        | Some a, Some b' =>
          match o with
          | Some oo => if bin oo then Ok (app_un u ([40] ++ a ++ sym oo ++ b' ++ [41])) else Err
          | None => Panic
          end
        | _, _ =>
          let v := match rv with None => lv | Some _ => rv end in
          match v with
          | None => Err
          | Some vv =>
            match u with
            | Some uo => if una uo then Ok (app_un u vv) else
                           match o with Some oo => if una oo then Ok (app_un o vv) else Ok vv | None => Ok vv end
            | None => match o with Some oo => if una oo then Ok (app_un o vv) else Ok vv | None => Ok vv end
            end
          end
        end
      | Err => Err | Panic => Panic | OutOfFuel => OutOfFuel
      end
    | Err => Err | Panic => Panic | OutOfFuel => OutOfFuel
    end
  end.

Definition evaluate (expr : bytes) : res bytes :=
  match parse_loop (2 * length expr + 2) expr 0 None false {| opnds := []; optrs := [] |} with
  | Ok s => match finish (S (length (optrs s))) s with
            | Ok s' => match opnds s' with [] => Ok [] | x :: _ => evalO x end
            | Err => Err | Panic => Panic | OutOfFuel => OutOfFuel
            end
  | Err => Err | Panic => Panic | OutOfFuel => OutOfFuel
  end.
End P.

Definition mk (s : bytes) (p : Z) (b u : bool) := {| sym := s; prec := p; bin := b; una := u |}.
Definition std_ops : list oper :=
  [ mk [40] 0 false false; mk [41] 0 false false; mk [124;124] 10 true false; mk [38;38] 20 true false;
    mk [33;61] 30 true false; mk [33] 0 false true; mk [61;61] 30 true false; mk [62;61] 40 true false; mk [62] 40 true false;
    mk [60;61] 40 true false; mk [60] 40 true false; mk [43] 50 true true; mk [45] 50 true true; mk [42] 60 true false;
    mk [47] 60 true false; mk [37] 60 true false; mk [94] 70 true false ].
Definition run (funs : list bytes) (l : list bytes) := map (evaluate std_ops funs) l.
