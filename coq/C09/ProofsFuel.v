(* C09 — bounded time: with operator symbols that are not empty, no input exhausts the fuel of any loop of the model: the parser's
   position strictly increases and stays within the input, every reduction pops an operator. *)
From Coq Require Import ZArith NArith List Bool Lia Arith.
From Verif Require Import C09.Model.
Import ListNotations.

Lemma processTree_len s s' : processTree s = Ok s' -> S (length (optrs s')) = length (optrs s).
Proof. unfold processTree. destruct (optrs s) as [|o os]; [discriminate|]. destruct (opnds s) as [|x [|y ys]]; cbn; intros [= <-]; reflexivity. Qed.
Lemma processTree_nofuel s : processTree s <> OutOfFuel.
Proof. unfold processTree. destruct (optrs s); [discriminate|]. destruct (opnds s) as [|x [|y ys]]; cbn; discriminate. Qed.

Lemma reduce_to_paren_fuel : forall fuel s, (length (optrs s) < fuel)%nat -> reduce_to_paren fuel s <> OutOfFuel.
Proof.
  induction fuel as [|f IH]; intros s H; [lia|]. cbn [reduce_to_paren]. destruct (optrs s) as [|o os] eqn:E; [discriminate|].
  destruct (is_sym (s_op o) 40); [discriminate|]. destruct (processTree s) as [s1| | |] eqn:P; try discriminate.
  - apply IH. apply processTree_len in P. rewrite E in P. cbn in *. lia.
  - exfalso. exact (processTree_nofuel s P).
Qed.
Lemma reduce_prec_fuel : forall fuel p s, (length (optrs s) < fuel)%nat -> reduce_prec fuel p s <> OutOfFuel.
Proof.
  induction fuel as [|f IH]; intros p s H; [lia|]. cbn [reduce_prec]. destruct (optrs s) as [|o os] eqn:E; [discriminate|].
  destruct (p <=? prec (s_op o))%Z; [|discriminate]. destruct (processTree s) as [s1| | |] eqn:P; try discriminate.
  - apply IH. apply processTree_len in P. rewrite E in P. cbn in *. lia.
  - exfalso. exact (processTree_nofuel s P).
Qed.
Lemma finish_fuel : forall fuel s, (length (optrs s) < fuel)%nat -> finish fuel s <> OutOfFuel.
Proof.
  induction fuel as [|f IH]; intros s H; [lia|]. cbn [finish]. destruct (optrs s) as [|o os] eqn:E; [discriminate|].
  destruct (processTree s) as [s1| | |] eqn:P; try discriminate.
  - apply IH. apply processTree_len in P. rewrite E in P. cbn in *. lia.
  - exfalso. exact (processTree_nofuel s P).
Qed.

Lemma is_prefix_len p : forall s, is_prefix p s = true -> (length p <= length s)%nat.
Proof. induction p as [|x p IH]; intros s H; [cbn; lia|]. destruct s as [|y s]; [discriminate|]. cbn in *. apply andb_true_iff in H. destruct H as [_ H]. apply IH in H. lia. Qed.
Lemma first_match_in ops expr start rest o : first_match ops expr start rest = Some o -> In o ops /\ is_prefix (sym o) rest = true.
Proof.
  induction ops as [|x ops IH]; [discriminate|]. cbn [first_match]. destruct (op_match expr start rest x) eqn:E.
  - intros [= <-]. split; [left; reflexivity|]. unfold op_match in E. apply andb_true_iff in E. tauto.
  - intro H. destruct (IH H). split; [right; assumption|assumption].
Qed.
Lemma next_op_spec ops expr : forall rest start i o, rest = skipn start expr -> next_op ops expr start rest = Some (i, o) ->
  (start <= i)%nat /\ In o ops /\ is_prefix (sym o) (skipn i expr) = true.
Proof.
  induction rest as [|c rest IH]; intros start i o E H; [discriminate|]. cbn [next_op] in H. destruct (first_match ops expr start (c :: rest)) as [o1|] eqn:F.
  - injection H as <- <-. destruct (first_match_in _ _ _ _ _ F) as [A B]. rewrite E in B. auto.
  - assert (E' : rest = skipn (S start) expr).
    { clear - E. revert expr E. induction start as [|n IHn]; intros [|e expr] E; cbn in *; try discriminate; [injection E; auto|apply IHn; exact E]. }
    destruct (IH (S start) i o E' H) as (A & B & C). split; [lia|auto].
Qed.
Section P.
Variable ops : list oper.
Variable funs : list bytes.
Hypothesis syms : forall o, In o ops -> sym o <> [].

Lemma nextOperator_spec expr start i o : nextOperator ops expr start = Some (i, o) ->
  (start <= i)%nat /\ In o ops /\ (i + length (sym o) <= length expr)%nat /\ (1 <= length (sym o))%nat.
Proof.
  intro H. unfold nextOperator in H. destruct (next_op_spec ops expr _ start i o eq_refl H) as (A & B & C). split; [exact A|]. split; [exact B|].
  apply is_prefix_len in C. rewrite skipn_length in C. pose proof (syms o B) as N. destruct (sym o); [congruence|]. cbn [length] in *. lia.
Qed.
Lemma nextOperator_beyond expr start : (length expr <= start)%nat -> nextOperator ops expr start = None.
Proof. intro H. unfold nextOperator. rewrite skipn_all2 by exact H. reflexivity. Qed.

Lemma match_paren_spec : forall fuel expr next parens i, match_paren ops fuel expr next parens = Some i -> (next < i < length expr)%nat.
Proof.
  induction fuel as [|f IH]; intros expr next parens i H; [discriminate|]. cbn [match_paren] in H.
  destruct (nextOperator ops expr (S next)) as [[j o]|] eqn:N; [|discriminate]. destruct (nextOperator_spec _ _ _ _ N) as (A & B & C & D).
  destruct (is_sym o 40); [apply IH in H; lia|]. destruct (is_sym o 41); [|apply IH in H; lia].
  destruct parens as [|[|p]]; [apply IH in H; lia|injection H as <-; lia|apply IH in H; lia].
Qed.
(* the fuel given to the parenthesis matcher is enough: more fuel gives the same answer *)
Lemma match_paren_stable : forall fuel expr next parens k, (length expr - next <= fuel)%nat ->
  match_paren ops (fuel + k) expr next parens = match_paren ops fuel expr next parens.
Proof.
  induction fuel as [|f IH]; intros expr next parens k H.
  - cbn [Nat.add match_paren]. destruct k; [reflexivity|]. cbn [match_paren]. rewrite nextOperator_beyond by lia. reflexivity.
  - cbn [Nat.add match_paren]. destruct (nextOperator ops expr (S next)) as [[j o]|] eqn:N; [|reflexivity]. destruct (nextOperator_spec _ _ _ _ N) as (A & B & C & D).
    destruct (is_sym o 40); [apply IH; lia|]. destruct (is_sym o 41); [|apply IH; lia]. destruct parens as [|[|p]]; [apply IH; lia|reflexivity|apply IH; lia].
Qed.

Lemma processFunction_spec expr i s n s' : processFunction ops funs expr i s = Ok (n, s') -> (i < n < length expr)%nat /\ optrs s' = optrs s.
Proof.
  unfold processFunction. destruct (match_paren ops (S (length expr)) expr i 1) as [next|] eqn:M; [|discriminate]. apply match_paren_spec in M.
  destruct (opnds s) as [|[u name| | ] rest]; try discriminate. destruct (existsb (beq name) funs); [|discriminate]. intros [= <- <-]. split; [exact M|reflexivity].
Qed.
Lemma processFunction_nofuel expr i s : processFunction ops funs expr i s <> OutOfFuel.
Proof.
  unfold processFunction. destruct (match_paren _ _ _ _ _); [|discriminate]. destruct (opnds s) as [|[u name| | ] rest]; try discriminate. destruct (existsb _ _); discriminate.
Qed.

Lemma opCont_spec u fuel idx o s : (length (optrs s) < fuel)%nat ->
  opCont u fuel idx o s <> OutOfFuel /\ forall n o' s', opCont u fuel idx o s = Ok (n, o', s') -> n = (idx + length (sym o))%nat.
Proof.
  intro H. unfold opCont. destruct (is_sym o 40); [split; [discriminate|intros n o' s' [= <- _ _]; reflexivity]|].
  destruct (is_sym o 41).
  - pose proof (reduce_to_paren_fuel fuel s H) as NF. destruct (reduce_to_paren fuel s) as [s1| | |]; try (split; [discriminate|intros; discriminate]); [|congruence].
    destruct (optrs s1) as [|top os]; [split; [discriminate|intros; discriminate]|]. destruct (is_sym (s_op top) 40); [|split; [discriminate|intros; discriminate]].
    destruct (s_un top); [destruct (opnds s1); [split; [discriminate|intros; discriminate]|]|]; (split; [discriminate|intros n o' s' [= <- _ _]; reflexivity]).
  - pose proof (reduce_prec_fuel fuel (prec o) s H) as NF. destruct (reduce_prec fuel (prec o) s) as [s1| | |]; try (split; [discriminate|intros; discriminate]); [|congruence].
    split; [discriminate|intros n o' s' [= <- _ _]; reflexivity].
Qed.

Lemma processOperator_spec expr i o have u s : (i + length (sym o) <= length expr)%nat -> (1 <= length (sym o))%nat ->
  processOperator ops funs expr i o have u s <> OutOfFuel /\
  forall n o' s', processOperator ops funs expr i o have u s = Ok (n, o', s') -> (i < n <= length expr)%nat.
Proof.
  intros Hi Hs. unfold processOperator. cbv zeta. destruct (have && is_sym o 40).
  - pose proof (processFunction_nofuel expr i s) as NF. destruct (processFunction ops funs expr i s) as [[idx s1]| | |] eqn:F; try (split; [discriminate|intros; discriminate]); [|congruence].
    destruct (processFunction_spec _ _ _ _ _ F) as [A B].
    destruct (nextOperator ops expr (idx + 1)) as [[tmp o2]|] eqn:N.
    + destruct (nextOperator_spec _ _ _ _ N) as (C & D & E & G). destruct (opCont_spec u (S (length (optrs s))) tmp o2 s1 ltac:(rewrite B; lia)) as [NO OK].
      split; [exact NO|]. intros n o' s' H. apply OK in H. lia.
    + destruct (find_close ops); [|split; [discriminate|intros; discriminate]]. split; [discriminate|]. intros n o' s' [= <- _ _]. lia.
  - destruct (opCont_spec u (S (length (optrs s))) i o s ltac:(lia)) as [NO OK]. split; [exact NO|]. intros n o' s' H. apply OK in H. lia.
Qed.

Lemma parse_loop_fuel : forall fuel expr i u have s, (i <= length expr)%nat -> (length expr - i < fuel)%nat -> parse_loop ops funs fuel expr i u have s <> OutOfFuel.
Proof.
  induction fuel as [|f IH]; intros expr i u have s Hi Hf; [lia|]. cbn [parse_loop].
  destruct (Nat.leb_spec (length expr) i); [discriminate|]. destruct (is_ws (nthb expr i)); [apply IH; lia|].
  destruct (nextOperator ops expr i) as [[oi o]|] eqn:En.
  - destruct (nextOperator_spec _ _ _ _ En) as (A & B & C & D).
    destruct (Nat.ltb_spec i oi).
    + destruct (trim (slice expr i oi)) as [|c t]; [discriminate|]. rewrite Nat.eqb_refl.
      destruct (una o && negb true); [apply IH; lia|].
      destruct (processOperator_spec expr oi o true None {| opnds := OpText u (c :: t) :: opnds s; optrs := optrs s |} C D) as [NO OK].
      destruct (processOperator ops funs expr oi o true None _) as [[[i2 lastop] s2]| | |] eqn:PO; try discriminate; [|congruence].
      specialize (OK _ _ _ eq_refl). apply IH; lia.
    + assert (oi = i) by lia. subst oi. rewrite Nat.eqb_refl. destruct (una o && negb have).
      * destruct u; [discriminate|]. apply IH; lia.
      * destruct (processOperator_spec expr i o have u s C D) as [NO OK].
        destruct (processOperator ops funs expr i o have u s) as [[[i2 lastop] s2]| | |] eqn:PO; try discriminate; [|congruence].
        specialize (OK _ _ _ eq_refl). apply IH; lia.
  - destruct (trim (skipn i expr)) as [|c t]; [discriminate|]. apply IH; lia.
Qed.
End P.

Lemma evalO_nofuel : forall x, evalO x <> OutOfFuel.
Proof.
  fix IH 1. intros x. destruct x as [u t | u name args | l r o u]; cbn [evalO]; try discriminate.
  destruct l as [a|].
  - pose proof (IH a) as NA. destruct (evalO a) as [va| | |]; try discriminate; [|congruence].
    destruct r as [b|].
    + pose proof (IH b) as NB. destruct (evalO b) as [vb| | |]; try discriminate; [|congruence].
      destruct o as [oo|]; [destruct (bin oo); discriminate|discriminate].
    + destruct u as [uo|]; [destruct (una uo); [discriminate|]|]; destruct o as [oo|]; try discriminate; destruct (una oo); discriminate.
  - destruct r as [b|].
    + pose proof (IH b) as NB. destruct (evalO b) as [vb| | |]; try discriminate; [|congruence].
      destruct u as [uo|]; [destruct (una uo); [discriminate|]|]; destruct o as [oo|]; try discriminate; destruct (una oo); discriminate.
    + discriminate.
Qed.

Theorem evaluate_never_out_of_fuel ops funs expr : (forall o, In o ops -> sym o <> []) -> evaluate ops funs expr <> OutOfFuel.
Proof.
  intro syms. unfold evaluate.
  pose proof (parse_loop_fuel ops funs syms (2 * length expr + 2) expr 0 None false {| opnds := []; optrs := [] |} ltac:(lia) ltac:(lia)) as NP.
  destruct (parse_loop ops funs (2 * length expr + 2) expr 0 None false _) as [s| | |]; try discriminate; [|congruence].
  pose proof (finish_fuel (S (length (optrs s))) s ltac:(lia)) as NF. destruct (finish (S (length (optrs s))) s) as [s'| | |]; try discriminate; [|congruence].
  destruct (opnds s') as [|x xs]; [discriminate|]. apply evalO_nofuel.
Qed.
Lemma std_ops_syms : forall o, In o std_ops -> sym o <> [].
Proof. intros o H. cbn in H. repeat (destruct H as [<-|H]; [discriminate|]). destruct H. Qed.
