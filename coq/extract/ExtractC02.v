(* Extraction of the C02 model for the correspondence check. ExtrOcamlBasic only; Z, positive, nat stay Coq's inductives. *)
From Coq Require Import Extraction ExtrOcamlBasic ZArith List.
From Verif Require Import C01.Model C02.Model.
Definition m_mk := mk.
Definition m_hi := hi.
Definition m_lo := lo.
Definition m_ustring := UString.
Definition m_istring := IString.
Definition m_ufromstring := UFromString.
Definition m_ifromstring := IFromString.
Definition m_ufrombig := UFromBig.
Definition m_ifrombig := IFromBig.
Definition m_decode := decode.
Definition m_ufromfloat := Uint128FromFloat64.
Definition m_ifromfloat := Int128FromFloat64.
Definition m_uasfloat := UAsFloat64.
Definition m_iasfloat := IAsFloat64.
Definition zb (b : bool) : Z := if b then 1%Z else 0%Z.
Definition m_nar (u : w128) : list Z := (zb (UIsInt128 u) :: zb (UIsUint64 u) :: UAsUint64 u :: zb (IIsUint128 u) :: zb (IIsInt64 u) :: IAsInt64 u :: zb (IIsUint64 u) :: IAsUint64 u :: nil)%list.
Extraction "c02.ml" m_mk m_hi m_lo m_ustring m_istring m_ufromstring m_ifromstring m_ufrombig m_ifrombig m_decode m_ufromfloat m_ifromfloat m_uasfloat m_iasfloat m_nar.
