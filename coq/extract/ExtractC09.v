From Coq Require Import Extraction ExtrOcamlBasic.
From Verif Require Import C09.Model.
Extraction "c09.ml" evaluate std_ops.
