From Coq Require Import Extraction ExtrOcamlBasic.
From Verif Require Import C17.Model.
Definition m_new := Model.new.
Extraction "c17.ml" step m_new normalize level deliver calls recovered.
