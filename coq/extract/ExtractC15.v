(* Extraction of the C15 model for the correspondence check. ExtrOcamlBasic only; Z, positive, nat stay Coq's inductives. *)
From Coq Require Import Extraction ExtrOcamlBasic ZArith List.
From Verif Require Import C15.Model.
Definition m_run_script := run_script.
Definition m_start_script := start_script.
Definition m_mk_cfg (w : nat) (d : Z) (cin : nat) (p : list nat) : cfg := {| W := w; depth := d; Cin := cin; panics := p |}.
Extraction "c15.ml" m_run_script m_start_script m_mk_cfg.
