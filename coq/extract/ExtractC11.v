From Coq Require Import Extraction ExtrOcamlBasic.
From Verif Require Import C11.Model.
Extraction "c11.ml" step items chain_of count.
