(* Extraction of the C16 model for the correspondence check. ExtrOcamlBasic only; Z, positive, nat stay Coq's inductives. *)
From Coq Require Import Extraction ExtrOcamlBasic ZArith List.
From Verif Require Import C16.Model.
Definition m_run := run.
Definition m_init := init.
Extraction "c16.ml" m_run m_init.
