(* Extraction of the C05 validator and membership oracle. ExtrOcamlBasic only; Z, positive, nat stay Coq's inductives. *)
From Coq Require Import Extraction ExtrOcamlBasic ZArith List.
From Verif Require Import C05.Spec.
Definition m_validate := validate.
Definition m_rectilinear := rectilinear.
Definition m_inside := inside.
Definition m_combine := combine.
Definition m_qpt (a b d : Z) : qpt := {| qa := a; qb := b; qd := d |}.
Extraction "c05.ml" m_validate m_rectilinear m_inside m_combine m_qpt.
