(* Extraction of the C14 model for the correspondence check. ExtrOcamlBasic only; Z, positive, nat stay Coq's inductives. *)
From Coq Require Import Extraction ExtrOcamlBasic ZArith List.
From Verif Require Import C14.Model.
Definition m_write_file := write_file.
Definition m_file_session := file_session.
Definition m_run := run.
Definition m_write_file_limited := write_file_limited.
Definition m_fs (d : option (content * Z)) : fs := {| dest := d; temp := None |}.
Extraction "c14.ml" m_write_file m_file_session m_run m_fs m_write_file_limited.
