From Coq Require Import Extraction ExtrOcamlBasic.
From Verif Require Import C07.Model.
Extraction "c07.ml" step newqt qall count find_point find_inter find_contains find_within any_point any_inter any_contains any_within.
