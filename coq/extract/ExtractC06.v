From Coq Require Import Extraction ExtrOcamlBasic.
From Verif Require Import C06.Model.
Extraction "c06.ml" insert remove zcmp trav rtrav trav_ge trav_le get first last inorder size height rb
  find_cmps insert_cmps isBlack sins srem visit.
