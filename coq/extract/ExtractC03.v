From Coq Require Import Extraction ExtrOcamlBasic.
From Verif Require Import C01.Model C03.Model.
(* stable names *)
Definition f_add := C03.Model.add.
Definition f_sub := C03.Model.sub.
Definition f_mul := C03.Model.mul.
Definition f_div := C03.Model.div.
Definition f_trunc := C03.Model.trunc.
Definition f_mod_ := C03.Model.mod_.
Definition f_abs := C03.Model.abs.
Definition f_ceil := C03.Model.ceil.
Definition f_round := C03.Model.round.
Definition f_min_ := C03.Model.min_.
Definition f_max_ := C03.Model.max_.
Definition f_inc := C03.Model.inc.
Definition f_dec := C03.Model.dec.
Definition f_from_int := C03.Model.from_int.
Definition f_as_int := C03.Model.as_int.
Definition f_checked_as_int := C03.Model.checked_as_int.
Definition f_multiplier := C03.Model.multiplier.
Definition f_swrap := C03.Model.swrap.
Definition f_kwrap := C03.Model.kwrap.
Definition f_add128 := C03.Model.add128.
Definition f_sub128 := C03.Model.sub128.
Definition f_mul128 := C03.Model.mul128.
Definition f_div128 := C03.Model.div128.
Definition f_trunc128 := C03.Model.trunc128.
Definition f_mod128 := C03.Model.mod128.
Definition f_ceil128 := C03.Model.ceil128.
Definition f_round128 := C03.Model.round128.
Definition f_min128 := C03.Model.min128.
Definition f_max128 := C03.Model.max128.
Definition f_inc128 := C03.Model.inc128.
Definition f_dec128 := C03.Model.dec128.
Definition f_from_int128 := C03.Model.from_int128.
Definition f_as_int128 := C03.Model.as_int128.
Definition f_frac_norm := C03.Model.frac_norm.
Definition f_frac_value := C03.Model.frac_value.
Definition f_frac_norm128 := C03.Model.frac_norm128.
Definition f_frac_value128 := C03.Model.frac_value128.
Definition m_Neg := Neg. Definition m_Abs := Abs. Definition m_ICmp := ICmp.
Definition m_IGT := IGreaterThan. Definition m_IGE := IGreaterThanOrEqual. Definition m_EQ := Equal. Definition m_ILT := ILessThan. Definition m_ILE := ILessThanOrEqual.
Extraction "c03.ml" f_add f_sub f_mul f_div f_trunc f_mod_ f_abs f_ceil f_round f_min_ f_max_ f_inc f_dec f_from_int f_as_int f_checked_as_int f_multiplier f_swrap f_kwrap f_add128 f_sub128 f_mul128 f_div128 f_trunc128 f_mod128 f_ceil128 f_round128 f_min128 f_max128 f_inc128 f_dec128 f_from_int128 f_as_int128 f_frac_norm f_frac_value f_frac_norm128 f_frac_value128 m_Neg m_Abs m_ICmp m_IGT m_IGE m_EQ m_ILT m_ILE.
