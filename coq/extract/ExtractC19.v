(* Extraction of the C19 model for the correspondence check. ExtrOcamlBasic only; nat stays Coq's inductive. *)
From Coq Require Import Extraction ExtrOcamlBasic List ZArith.
From Verif Require Import C19.Model.
Definition m_extract := extract.
Definition m_put := put.
Definition m_mk_entry (n : path) (t : etype) (a : bool) (l : path) (p m : nat) : entry := {| ename := n; etyp := t; labs := a; lname := l; payload := p; emode := m |}.
Definition m_mk_fs (t : list (path * node)) (i : list (nat * nat)) : fs := {| tree := t; inodes := i |}.
(* Z.add only so that the shared driver helpers find the types positive and Z *)
Extraction "c19.ml" m_extract m_put m_mk_entry m_mk_fs Z.add.
