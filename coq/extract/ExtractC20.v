(* Extraction of the C20 model for the correspondence check. ExtrOcamlBasic only; Z, positive, nat stay Coq's inductives. *)
From Coq Require Import Extraction ExtrOcamlBasic.
From Verif Require Import C20.Model.
Extraction "c20.ml" natural_cmp natural_less sort_asc sort_desc sorted_by.
