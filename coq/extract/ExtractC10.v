(* Extraction of the C10 model for the correspondence check. ExtrOcamlBasic only; Z, positive, nat stay Coq's inductives. *)
From Coq Require Import Extraction ExtrOcamlBasic ZArith List.
From Verif Require Import C10.Model.
Definition m_parse := parse.
Definition m_int_value := int_value.
Definition m_mk_option (s : option Z) (n : option str) (k : kind) : option_ := {| single := s; name := n; knd := k |}.
Extraction "c10.ml" m_parse m_int_value m_mk_option.
