(* Extraction of the C13 model for the correspondence check. ExtrOcamlBasic only; Z, positive, nat stay Coq's inductives. *)
From Coq Require Import Extraction ExtrOcamlBasic ZArith List.
From Verif Require Import C13.Model C13.Proofs.
Import ListNotations.
Definition m_bytes_of := bytes_of.
Definition m_with_group := with_group.
Definition m_with_attrs := with_attrs.
Definition m_enabled := enabled.
Definition m_multi_handle := multi_handle.
Definition m_multi_enabled := multi_enabled.
Definition m_mk_record (l : Z) (m : str) (a : list attr) (s : bool) : record := {| r_level := l; r_msg := m; r_attrs := a; r_stack := s |}.
Definition m_mk_child (m : Z) (b : behaviour) : child := {| c_min := m; c_beh := b |}.
(* the declarative reading, for the oracle *)
Definition m_line_leaves := line_leaves.
Definition m_spec_line (h : list entry) (level : Z) (msg : str) (attrs : list attr) : str :=
  level_name level ++ header_time ++ msg ++ added true (line_leaves h attrs) ++ [10%Z].
Definition m_solid (h : list entry) (attrs : list attr) : bool := forallb solid_entry h && solid_attrs attrs.
Extraction "c13.ml" m_bytes_of m_with_group m_with_attrs m_enabled m_multi_handle m_multi_enabled m_mk_record m_mk_child m_line_leaves m_spec_line m_solid.
