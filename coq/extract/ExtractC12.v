(* Extraction of the C12 model for the correspondence check. ExtrOcamlBasic only; Z, positive, nat stay Coq's inductives. *)
From Coq Require Import Extraction ExtrOcamlBasic ZArith List.
From Verif Require Import C12.Model.
Definition m_run := run.
Definition m_start := start.
Extraction "c12.ml" m_run m_start.
