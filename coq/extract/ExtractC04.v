From Coq Require Import Extraction ExtrOcamlBasic.
From Verif Require Import C04.Model.
Extraction "c04.ml" fx_string fx_string_with_sign fx_from_string unquote comma_from_string_num.
