From Coq Require Import Extraction ExtrOcamlBasic.
From Verif Require Import C18.Model.
Extraction "c18.ml" pt_in empty contains intersects intersect union identity translation scaling rotation
  m_translate m_scale m_rotate m_multiply m_transform c_contains c_bounds crossings on_edge edges
  p_contains p_contains_evenodd p_bounds p_transform.
