From Coq Require Import Extraction ExtrOcamlBasic.
From Verif Require Import C08.Model.
Extraction "c08.ml" step empty state count first_set last_set next_set previous_set next_clear previous_clear
  equal set ensure flip get_data trim.
