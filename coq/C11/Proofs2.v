(* C11 — invariants of every history of New/Append/Wrap operations (no side condition on the arguments: an accumulator may
   be passed as its own argument, aggregates may be appended to themselves). *)
From Coq Require Import ZArith List Bool Lia.
From Verif Require Import C11.Model C11.Proofs.
Import ListNotations.
Open Scope nat_scope.

(* a node that records a cause carries that cause's message: Wrap keeps the cause reachable under the message it shows *)
Definition item_ok (i : item) : Prop := match icause i with Some c => imsg i = c | None => True end.
Definition st_ok (st : store) : Prop := Forall (Forall item_ok) st.
Definition Inv (s : state) : Prop := st_ok (fst s) /\ Forall (val_ok (fst s)) (snd s).

Lemma chain_ok st a : st_ok st -> Forall item_ok (chain_of st a).
Proof.
  intro H. unfold chain_of. destruct (Nat.lt_ge_cases a (length st)) as [Hl|Hl].
  - unfold st_ok in H. rewrite Forall_forall in H. apply H. apply nth_In. exact Hl.
  - rewrite nth_overflow by exact Hl. constructor.
Qed.
Lemma wrap_item_ok id : item_ok (wrap_item id).
Proof. reflexivity. Qed.
Lemma items_ok st v : st_ok st -> Forall item_ok (items st v).
Proof.
  intro H. destruct v; cbn [items]; try constructor; try apply wrap_item_ok; try constructor. apply chain_ok. exact H.
Qed.
Lemma set_chain_ok : forall st a c, st_ok st -> Forall item_ok c -> st_ok (set_chain st a c).
Proof.
  unfold st_ok. induction st as [|x st IH]; intros [|a] c H Hc; cbn [set_chain]; auto.
  - inversion H; subst. constructor; assumption.
  - inversion H; subst. constructor; [assumption|]. apply IH; assumption.
Qed.
Lemma st_ok_snoc st c : st_ok st -> Forall item_ok c -> st_ok (st ++ [c]).
Proof. unfold st_ok. intros H Hc. apply Forall_app. split; [exact H|]. constructor; [exact Hc|constructor]. Qed.
Lemma val_ok_mono st st' v : length st <= length st' -> val_ok st v -> val_ok st' v.
Proof. intros Hl. destruct v; cbn [val_ok]; auto. lia. Qed.

Definition cur_lt (st : store) (cur : option nat) : Prop := match cur with Some a => a < length st | None => True end.

Lemma add_arg_inv st cur arg : st_ok st -> cur_lt st cur ->
  let '(st', cur') := add_arg (st, cur) arg in st_ok st' /\ cur_lt st' cur' /\ length st <= length st'.
Proof.
  intros Hs Hc. unfold add_arg. pose proof (items_ok st arg Hs) as Hi.
  destruct (items st arg) as [|i its] eqn:E.
  - auto.
  - destruct cur as [a|].
    + split; [|split].
      * apply set_chain_ok; [exact Hs|]. apply Forall_app. split; [apply chain_ok; exact Hs|exact Hi].
      * cbn [cur_lt] in *. rewrite set_chain_length. exact Hc.
      * rewrite set_chain_length. lia.
    + split; [|split].
      * apply st_ok_snoc; assumption.
      * cbn [cur_lt]. rewrite app_length. cbn [length]. lia.
      * rewrite app_length. lia.
Qed.

Lemma fold_add_inv : forall args st cur, st_ok st -> cur_lt st cur ->
  let '(st', cur') := fold_left add_arg args (st, cur) in st_ok st' /\ cur_lt st' cur' /\ length st <= length st'.
Proof.
  induction args as [|x args IH]; intros st cur Hs Hc; cbn [fold_left].
  - auto.
  - pose proof (add_arg_inv st cur x Hs Hc) as H1. destruct (add_arg (st, cur) x) as [st1 cur1].
    destruct H1 as (Hs1 & Hc1 & Hl1). specialize (IH st1 cur1 Hs1 Hc1).
    destruct (fold_left add_arg args (st1, cur1)) as [st2 cur2]. destruct IH as (Hs2 & Hc2 & Hl2).
    repeat split; auto. lia.
Qed.

Lemma append_inv st acc args : st_ok st -> val_ok st acc ->
  let '(st', r) := append st acc args in st_ok st' /\ val_ok st' r /\ length st <= length st'.
Proof.
  intros Hs Ha. unfold append.
  set (start := match acc with
    | VRef a => match chain_of st a with [] => (st, None) | _ => (st, Some a) end
    | VPlain id => (st ++ [[wrap_item id]], Some (length st))
    | _ => (st, None) end).
  assert (Hstart : st_ok (fst start) /\ cur_lt (fst start) (snd start) /\ length st <= length (fst start)).
  { subst start. destruct acc as [| | |id|a]; cbn [fst snd cur_lt]; auto.
    - split; [|split].
      + apply st_ok_snoc; [exact Hs|]. constructor; [apply wrap_item_ok|constructor].
      + rewrite app_length. cbn [length]. lia.
      + rewrite app_length. lia.
    - destruct (chain_of st a); cbn [fst snd cur_lt]; auto. }
  destruct start as [st0 cur0]. cbn [fst snd] in Hstart. destruct Hstart as (Hs0 & Hc0 & Hl0).
  pose proof (fold_add_inv args st0 cur0 Hs0 Hc0) as H.
  destruct (fold_left add_arg args (st0, cur0)) as [st' cur']. destruct H as (Hs' & Hc' & Hl').
  split; [exact Hs'|]. split; [|lia].
  destruct cur' as [a|]; cbn [val_ok cur_lt] in *; auto.
Qed.

Lemma vget_ok st vs i : Forall (val_ok st) vs -> val_ok st (vget vs i).
Proof.
  intro H. unfold vget. destruct (Nat.lt_ge_cases i (length vs)) as [Hl|Hl].
  - rewrite Forall_forall in H. apply H. apply nth_In. exact Hl.
  - rewrite nth_overflow by exact Hl. exact I.
Qed.
Lemma Forall_val_mono st st' vs : length st <= length st' -> Forall (val_ok st) vs -> Forall (val_ok st') vs.
Proof. intros Hl H. eapply Forall_impl; [|exact H]. intros v. apply val_ok_mono. exact Hl. Qed.
Lemma Forall_snoc {A} (P : A -> Prop) l x : Forall P l -> P x -> Forall P (l ++ [x]).
Proof. intros H Hx. apply Forall_app. split; [exact H|]. constructor; [exact Hx|constructor]. Qed.

Lemma step_inv s o : Inv s -> Inv (step s o) /\ length (fst s) <= length (fst (step s o)) /\
  length (snd (step s o)) = S (length (snd s)).
Proof.
  destruct s as [st vs]. unfold Inv. cbn [fst snd]. intros [Hs Hv].
  assert (Hsn : forall c, length st <= length (st ++ [c])) by (intro c; rewrite app_length; lia).
  destruct o as [m|id| | | | |a args|i]; cbn [step new_error new_empty fst snd].
  - split; [split|split]; cbn [fst snd]; [| | apply Hsn | rewrite app_length; cbn; lia].
    + apply st_ok_snoc; [exact Hs|]. constructor; [exact I|constructor].
    + apply Forall_snoc; [eapply Forall_val_mono; [apply Hsn|exact Hv]|]. cbn [val_ok]. rewrite app_length. cbn. lia.
  - split; [split|split]; cbn [fst snd]; auto; [apply Forall_snoc; [exact Hv|exact I] | rewrite app_length; cbn; lia].
  - split; [split|split]; cbn [fst snd]; auto; [apply Forall_snoc; [exact Hv|exact I] | rewrite app_length; cbn; lia].
  - split; [split|split]; cbn [fst snd]; auto; [apply Forall_snoc; [exact Hv|exact I] | rewrite app_length; cbn; lia].
  - split; [split|split]; cbn [fst snd]; auto; [apply Forall_snoc; [exact Hv|exact I] | rewrite app_length; cbn; lia].
  - split; [split|split]; cbn [fst snd]; [| | apply Hsn | rewrite app_length; cbn; lia].
    + apply st_ok_snoc; [exact Hs|constructor].
    + apply Forall_snoc; [eapply Forall_val_mono; [apply Hsn|exact Hv]|]. cbn [val_ok]. rewrite app_length. cbn. lia.
  - pose proof (append_inv st (vget vs a) (map (vget vs) args) Hs (vget_ok st vs a Hv)) as H.
    destruct (append st (vget vs a) (map (vget vs) args)) as [st' r]. destruct H as (Hs' & Hr & Hl). cbn [fst snd].
    split; [split|split]; auto; [|rewrite app_length; cbn; lia].
    apply Forall_snoc; [eapply Forall_val_mono; [exact Hl|exact Hv]|exact Hr].
  - pose proof (vget_ok st vs i Hv) as Hi. unfold wrap. destruct (vget vs i) as [| | |id|a]; cbn [fst snd].
    1-3: (split; [split|split]; auto; [apply Forall_snoc; [exact Hv|exact I] | rewrite app_length; cbn; lia]).
    + split; [split|split]; [| | apply Hsn | rewrite app_length; cbn; lia].
      * apply st_ok_snoc; [exact Hs|]. constructor; [apply wrap_item_ok|constructor].
      * apply Forall_snoc; [eapply Forall_val_mono; [apply Hsn|exact Hv]|]. cbn [val_ok]. rewrite app_length. cbn. lia.
    + split; [split|split]; auto; [apply Forall_snoc; [exact Hv|exact Hi] | rewrite app_length; cbn; lia].
Qed.

(* every reachable state: all values handed out refer to existing heads (so the hypotheses of append_spec / wrap_spec are met by
   whatever a history has produced), every recorded cause carries its message, heads are never discarded, and the k-th
   operation defines the k-th value *)
Theorem history_inv : forall ops s, Inv s ->
  let s' := fold_left step ops s in
  Inv s' /\ length (fst s) <= length (fst s') /\ length (snd s') = length (snd s) + length ops.
Proof.
  induction ops as [|o ops IH]; intros s H; cbn [fold_left length].
  - split; [exact H|]. split; lia.
  - destruct (step_inv s o H) as (H1 & Hl1 & Hn1). specialize (IH (step s o) H1). cbn zeta in IH.
    destruct IH as (H2 & Hl2 & Hn2). split; [exact H2|]. split; lia.
Qed.

Lemma inv_init : Inv (([], []) : state).
Proof. split; constructor. Qed.

Theorem reachable_inv : forall ops,
  let s := fold_left step ops (([], []) : state) in
  Inv s /\ length (snd s) = length ops /\
  (forall i, val_ok (fst s) (vget (snd s) i)) /\
  (forall v it c, In it (items (fst s) v) -> icause it = Some c -> imsg it = c).
Proof.
  intro ops. pose proof (history_inv ops _ inv_init) as H. cbn zeta in *.
  destruct H as (Hi & _ & Hn). split; [exact Hi|]. split; [exact Hn|]. destruct Hi as [Hs Hv]. split.
  - intro i. apply vget_ok. exact Hv.
  - intros v it c Hin Hc. pose proof (items_ok _ v Hs) as Hf. rewrite Forall_forall in Hf.
    specialize (Hf it Hin). unfold item_ok in Hf. rewrite Hc in Hf. exact Hf.
Qed.

(* Count and ErrorOrNil of an Append result, in the terms of the property: Count is the number of contained errors and
   ErrorOrNil is nil exactly when there are none *)
Lemma append_result_shape st acc args : match snd (append st acc args) with VRef _ | VTypedNilErr => True | _ => False end.
Proof.
  unfold append.
  destruct (fold_left add_arg args _) as [st' [a|]]; exact I.
Qed.

Theorem append_count st acc args : val_ok st acc -> (forall v, In v args -> val_ok st v /\ not_acc acc v) ->
  let '(st', r) := append st acc args in
  count st' r = Z.of_nat (length (items st acc) + length (flat_map (items st) args)) /\
  (error_or_nil_is_nil st' r = true <-> items st acc ++ flat_map (items st) args = []).
Proof.
  intros Ha Hargs. pose proof (append_spec st acc args Ha Hargs) as H. pose proof (append_result_shape st acc args) as Hr.
  destruct (append st acc args) as [st' r]. cbn [snd] in Hr. destruct H as (Hi & Hn & _).
  split.
  - unfold count. rewrite Hi, app_length. reflexivity.
  - destruct r as [| | |id|a]; try contradiction.
    + cbn [error_or_nil_is_nil]. cbn [is_nil_result] in Hn. tauto.
    + cbn [error_or_nil_is_nil]. cbn [items] in Hi. rewrite Hi.
      destruct (items st acc ++ flat_map (items st) args); split; intro; congruence.
Qed.

(* wrapping what Wrap returned changes nothing: neither the value nor the store *)
Lemma wrap_idem st v : let '(st1, r1) := wrap st v in wrap st1 r1 = (st1, r1).
Proof. destruct v; reflexivity. Qed.
