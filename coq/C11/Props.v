(* C11 — property theorems only. st is the store of *Error heads; items st v lists the non-nil, non-empty errors contained in
   the value v, in order. Arguments must exist in the store and (for the simple equation) differ from the accumulator itself:
   an accumulator passed as its own argument is read as grown so far, which Model.append states exactly. *)
From Coq Require Import ZArith List Bool.
From Verif Require Import C11.Model C11.Proofs C11.Proofs2.
Import ListNotations.
Open Scope nat_scope.

(* Append: nothing lost, nothing reordered, flattening of aggregates; nil exactly when there is nothing; the appended
   arguments (every head other than a non-empty accumulator) are unchanged; a non-empty *Error accumulator is returned itself *)
Theorem C11_append_collects_everything_in_order : forall st acc args,
  val_ok st acc -> (forall v, In v args -> val_ok st v /\ not_acc acc v) ->
  let '(st', r) := append st acc args in
  items st' r = items st acc ++ flat_map (items st) args /\
  (is_nil_result r = true <-> items st acc ++ flat_map (items st) args = []) /\
  length st <= length st' /\ val_ok st' r /\
  (forall b, b < length st -> (forall a, acc = VRef a -> chain_of st a <> [] -> b <> a) -> chain_of st' b = chain_of st b) /\
  (forall a, acc = VRef a -> chain_of st a <> [] -> r = VRef a).
Proof. exact append_spec. Qed.
Print Assumptions C11_append_collects_everything_in_order.

(* Count and ErrorOrNil of the result: Count is the number of contained errors, ErrorOrNil is nil exactly when there are none *)
Theorem C11_append_count_and_error_or_nil : forall st acc args,
  val_ok st acc -> (forall v, In v args -> val_ok st v /\ not_acc acc v) ->
  let '(st', r) := append st acc args in
  count st' r = Z.of_nat (length (items st acc) + length (flat_map (items st) args)) /\
  (error_or_nil_is_nil st' r = true <-> items st acc ++ flat_map (items st) args = []).
Proof. exact append_count. Qed.
Print Assumptions C11_append_count_and_error_or_nil.

(* chains of repeated Append on an accumulator *)
Theorem C11_append_chain : forall st a args1 args2, a < length st -> chain_of st a <> [] ->
  (forall v, In v (args1 ++ args2) -> val_ok st v /\ not_acc (VRef a) v) ->
  let '(st1, r1) := append st (VRef a) args1 in
  let '(st2, r2) := append st1 r1 args2 in
  r2 = VRef a /\ items st2 r2 = chain_of st a ++ flat_map (items st) args1 ++ flat_map (items st) args2.
Proof. exact append_twice. Qed.
Print Assumptions C11_append_chain.

(* Wrap / WrapTyped: nil for nil and typed nil, an existing *Error unchanged, otherwise a fresh error carrying the cause *)
Theorem C11_wrap : forall st v, val_ok st v ->
  let '(st', r) := wrap st v in
  (match v with VNil | VTypedNilErr | VTypedNilCustom => r = VNil /\ st' = st | VRef a => r = VRef a /\ st' = st
   | VPlain id => r = VRef (length st) /\ items st' r = [wrap_item id] end) /\
  length st <= length st' /\ (forall b, b < length st -> chain_of st' b = chain_of st b).
Proof. exact wrap_spec. Qed.
Print Assumptions C11_wrap.

(* Wrap is idempotent: wrapping its own result returns that result and leaves the store alone *)
Theorem C11_wrap_idempotent : forall st v, let '(st1, r1) := wrap st v in wrap st1 r1 = (st1, r1).
Proof. exact wrap_idem. Qed.
Print Assumptions C11_wrap_idempotent.

(* every history of New/plain/nil/typed-nil/&Error{}/Append/Wrap operations, with NO side condition (the accumulator may be its
   own argument, an aggregate may be appended to itself): every value handed out refers to an existing head - so the hypothesis
   val_ok of the theorems above is met by whatever a program has built -, the k-th operation defines the k-th value, and every
   node that records a cause shows exactly that cause's message (Wrap never detaches a cause from its text, Append never
   rewrites a node) *)
Theorem C11_every_history_well_formed : forall ops,
  let s := fold_left step ops (([], []) : state) in
  Inv s /\ length (snd s) = length ops /\
  (forall i, val_ok (fst s) (vget (snd s) i)) /\
  (forall v it c, In it (items (fst s) v) -> icause it = Some c -> imsg it = c).
Proof. exact reachable_inv. Qed.
Print Assumptions C11_every_history_well_formed.

(* from any well-formed state: heads are never discarded by a history and the invariant persists *)
Theorem C11_history_preserves : forall ops s, Inv s ->
  let s' := fold_left step ops s in
  Inv s' /\ length (fst s) <= length (fst s') /\ length (snd s') = length (snd s) + length ops.
Proof. exact history_inv. Qed.
Print Assumptions C11_history_preserves.

(* non-vacuity: a history with a self-append and a wrapped plain error; its last value has a node with a cause *)
Example C11_ex_history_with_cause :
  let s := fold_left step [ONew 1; OPlain 7; OWrap 1; OAppend 0 [2; 0]; OAppend 3 [3]] (([], []) : state) in
  map imsg (items (fst s) (vget (snd s) 4)) = [1; 7; 1; 7; 1; 7; 1; 7]%Z /\
  map icause (items (fst s) (vget (snd s) 2)) = [Some 7%Z].
Proof. split; reflexivity. Qed.

(* regression: the two histories that failed before the repairs *)
Example C11_ex_aggregate_then_more :
  let s0 : state := ([], []) in
  let s := fold_left step [ONew 1; ONew 2; ONew 3; ONew 4; OAppend 1 [2]; OAppend 0 [1; 3]] s0 in
  map imsg (items (fst s) (vget (snd s) 5)) = [1; 2; 3; 4]%Z.
Proof. reflexivity. Qed.
Example C11_ex_nil_accumulator_copies :
  let s := fold_left step [ONew 1; ONew 2; OAppend 0 [1]; ONilV; ONew 3; OAppend 3 [2; 4]] (([], []) : state) in
  map imsg (items (fst s) (vget (snd s) 2)) = [1; 2]%Z /\ map imsg (items (fst s) (vget (snd s) 5)) = [1; 2; 3]%Z.
Proof. split; reflexivity. Qed.
