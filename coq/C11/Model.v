(* C11 — model of errs.Append / Wrap / WrapTyped / Count / WrappedErrors / ErrorOrNil (errs/errors.go).
   An *Error value handed to clients is always the head of a chain, and distinct heads never share nodes (every argument is
   copied); so the store maps each head (its id) to the list of items of its chain. [] is the empty value &Error{}.
   Append extends the accumulator's chain in place (that is what the Go code does) and copies every argument. *)
From Coq Require Import ZArith List Bool.
Import ListNotations.
Open Scope Z_scope.

(* one node of a chain: its message id and, for a wrapped plain error, the id of the cause *)
Record item := { imsg : Z; icause : option Z }.
Definition store := list (list item).

Inductive val :=
| VNil                 (* untyped nil interface *)
| VTypedNilErr         (* a nil pointer of type *errs.Error *)
| VTypedNilCustom      (* a nil pointer of another error type *)
| VPlain (id : Z)      (* a non-*Error error whose message is p<id> *)
| VRef (a : nat).      (* *errs.Error with store id a *)

Definition chain_of (st : store) (a : nat) : list item := nth a st [].
Fixpoint set_chain (st : store) (a : nat) (c : list item) : store :=
  match st, a with [], _ => [] | _ :: r, O => c :: r | x :: r, S a' => x :: set_chain r a' c end.
Definition wrap_item (id : Z) : item := {| imsg := id; icause := Some id |}.

(* the non-nil, non-empty errors contained in a value, in order *)
Definition items (st : store) (v : val) : list item :=
  match v with
  | VNil | VTypedNilErr | VTypedNilCustom => []
  | VPlain id => [wrap_item id]
  | VRef a => chain_of st a
  end.

(* Append(err, errs...) : new store and result. The arguments are processed one after the other; cur is the head being
   extended (None while the root is still nil). An argument that is the accumulator itself is read at the moment it is
   processed, i.e. with what has been appended so far - as in the Go loop. *)
Definition add_arg (sc : store * option nat) (arg : val) : store * option nat :=
  let '(st, cur) := sc in
  match items st arg with
  | [] => (st, cur)
  | its => match cur with
           | Some a => (set_chain st a (chain_of st a ++ its), Some a)
           | None => (st ++ [its], Some (length st))
           end
  end.
Definition append (st : store) (acc : val) (args : list val) : store * val :=
  let start : store * option nat :=
    match acc with
    | VRef a => match chain_of st a with [] => (st, None) | _ => (st, Some a) end
    | VPlain id => (st ++ [[wrap_item id]], Some (length st))          (* WrapTyped(e) makes a fresh *Error *)
    | VNil | VTypedNilErr | VTypedNilCustom => (st, None)
    end in
  let '(st', cur) := fold_left add_arg args start in
  (st', match cur with Some a => VRef a | None => VTypedNilErr end).

(* Wrap / WrapTyped: nil and typed nil give nil; an *Error is returned unchanged; anything else is wrapped in a fresh *Error *)
Definition wrap (st : store) (v : val) : store * val :=
  match v with
  | VNil | VTypedNilErr | VTypedNilCustom => (st, VNil)
  | VRef a => (st, VRef a)
  | VPlain id => (st ++ [[wrap_item id]], VRef (length st))
  end.
Definition new_error (st : store) (msg : Z) : store * val := (st ++ [[{| imsg := msg; icause := None |}]], VRef (length st)).
Definition new_empty (st : store) : store * val := (st ++ [[]], VRef (length st)).

Definition count (st : store) (v : val) : Z := Z.of_nat (length (items st v)).
Definition is_nil_result (v : val) : bool := match v with VNil | VTypedNilErr => true | _ => false end.
(* ErrorOrNil on an *Error result *)
Definition error_or_nil_is_nil (st : store) (v : val) : bool :=
  match v with VRef a => match chain_of st a with [] => true | _ => false end | VTypedNilErr => true | _ => false end.

(* programs over a growing list of values, for histories *)
Inductive op :=
| ONew (msg : Z) | OPlain (id : Z) | ONilV | OTNil | OTNilC | OEmpty
| OAppend (acc : nat) (args : list nat) | OWrap (i : nat).
Definition state := (store * list val)%type.
Definition vget (vs : list val) (i : nat) : val := nth i vs VNil.
Definition step (s : state) (o : op) : state :=
  let '(st, vs) := s in
  match o with
  | ONew m => let '(st', v) := new_error st m in (st', vs ++ [v])
  | OPlain id => (st, vs ++ [VPlain id])
  | ONilV => (st, vs ++ [VNil])
  | OTNil => (st, vs ++ [VTypedNilErr])
  | OTNilC => (st, vs ++ [VTypedNilCustom])
  | OEmpty => let '(st', v) := new_empty st in (st', vs ++ [v])
  | OAppend a args => let '(st', v) := append st (vget vs a) (map (vget vs) args) in (st', vs ++ [v])
  | OWrap i => let '(st', v) := wrap st (vget vs i) in (st', vs ++ [v])
  end.
