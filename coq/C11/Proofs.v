(* C11 — lemmas about the store model of errs.Append / Wrap *)
From Coq Require Import ZArith List Bool Lia.
From Verif Require Import C11.Model.
Import ListNotations.
Open Scope nat_scope.

Lemma chain_app_old st x b : b < length st -> chain_of (st ++ [x]) b = chain_of st b.
Proof. intro H. unfold chain_of. apply app_nth1. exact H. Qed.
Lemma chain_app_new st x : chain_of (st ++ [x]) (length st) = x.
Proof. unfold chain_of. rewrite app_nth2 by lia. rewrite Nat.sub_diag. reflexivity. Qed.
Lemma set_chain_length st a c : length (set_chain st a c) = length st.
Proof. revert a. induction st as [|x st IH]; intros [|a]; cbn; auto. Qed.
Lemma chain_set_same st a c : a < length st -> chain_of (set_chain st a c) a = c.
Proof. unfold chain_of. revert a. induction st as [|x st IH]; intros [|a] H; cbn in *; try lia; auto. apply IH. lia. Qed.
Lemma chain_set_other st a c b : b <> a -> chain_of (set_chain st a c) b = chain_of st b.
Proof. unfold chain_of. revert a b. induction st as [|x st IH]; intros [|a] [|b] H; cbn; auto; try congruence. Qed.

(* an argument may be used when it refers to an existing head that is not the one being extended *)
Definition arg_ok (st : store) (cur : option nat) (v : val) : Prop :=
  match v with VRef b => b < length st /\ cur <> Some b | _ => True end.
Definition cur_ok (st : store) (cur : option nat) : Prop := match cur with Some a => a < length st /\ chain_of st a <> [] | None => True end.
Definition cur_items (st : store) (cur : option nat) : list item := match cur with Some a => chain_of st a | None => [] end.

Lemma add_arg_spec st cur arg : cur_ok st cur -> arg_ok st cur arg ->
  let '(st', cur') := add_arg (st, cur) arg in
  cur_items st' cur' = cur_items st cur ++ items st arg /\
  length st <= length st' /\ cur_ok st' cur' /\
  (forall a, cur = Some a -> cur' = Some a) /\
  (cur' = None -> cur = None /\ items st arg = []) /\
  (forall b, b < length st -> cur <> Some b -> chain_of st' b = chain_of st b) /\
  (forall b, cur' = Some b -> cur = Some b \/ (cur = None /\ b = length st)).
Proof.
  intros Hc Ha. unfold add_arg. destruct (items st arg) as [|i its] eqn:E.
  - rewrite app_nil_r. repeat split; auto.
  - destruct cur as [a|]; cbn [cur_ok cur_items] in *.
    + destruct Hc as [Hc Hne0]. rewrite chain_set_same by exact Hc. rewrite set_chain_length.
      repeat split; auto; try discriminate.
      * destruct (chain_of st a); [congruence|discriminate].
      * intros b Hb Hne. apply chain_set_other. congruence.
    + rewrite chain_app_new, app_length. cbn [length app].
      repeat split; auto; try lia; try discriminate.
      * intros b Hb _. apply chain_app_old. exact Hb.
      * intros b [= <-]. right. auto.
Qed.

Lemma fold_add_spec : forall args st cur, cur_ok st cur -> (forall v, In v args -> arg_ok st cur v) ->
  let '(st', cur') := fold_left add_arg args (st, cur) in
  cur_items st' cur' = cur_items st cur ++ flat_map (items st) args /\
  length st <= length st' /\ cur_ok st' cur' /\
  (forall a, cur = Some a -> cur' = Some a) /\
  (cur' = None -> cur = None /\ flat_map (items st) args = []) /\
  (forall b, b < length st -> cur <> Some b -> chain_of st' b = chain_of st b).
Proof.
  induction args as [|arg args IH]; intros st cur Hc Ha; cbn [fold_left flat_map].
  - rewrite app_nil_r. repeat split; auto.
  - pose proof (add_arg_spec st cur arg Hc (Ha arg (or_introl eq_refl))) as S1.
    destruct (add_arg (st, cur) arg) as [st1 cur1]. destruct S1 as (I1 & L1 & C1 & K1 & N1 & F1 & P1).
    assert (Ha1 : forall v, In v args -> arg_ok st1 cur1 v).
    { intros v Hv. specialize (Ha v (or_intror Hv)). destruct v; cbn in *; auto. destruct Ha as [Hb Hne]. split; [lia|].
      intro E. destruct (P1 _ E) as [E1|[_ E2]]; [congruence|lia]. }
    specialize (IH st1 cur1 C1 Ha1). destruct (fold_left add_arg args (st1, cur1)) as [st' cur'].
    destruct IH as (I2 & L2 & C2 & K2 & N2 & F2).
    assert (Eitems : flat_map (items st1) args = flat_map (items st) args).
    { clear -Ha F1. induction args as [|v args IH]; [reflexivity|]. cbn [flat_map]. f_equal.
      - specialize (Ha v (or_intror (or_introl eq_refl))). destruct v; cbn in *; auto. destruct Ha as [Hb Hne]. apply F1; auto.
      - apply IH. intros w [<-|Hw]; apply Ha; [left; reflexivity | right; right; exact Hw]. }
    rewrite Eitems in *. split; [|split; [|split; [|split; [|split]]]].
    + rewrite I2, I1, app_assoc. reflexivity.
    + lia.
    + exact C2.
    + intros a Ea. apply K2. apply K1. exact Ea.
    + intro En. destruct (N2 En) as [E1 E2]. destruct (N1 E1) as [E3 E4]. split; [exact E3|]. rewrite E4, E2. reflexivity.
    + intros b Hb Hne. rewrite F2; [apply F1; auto | lia |].
      intro E. destruct (P1 _ E) as [E1|[_ E2]]; [congruence|lia].
Qed.

(* the accumulator's own contribution and the head being extended after normalising it *)
Definition val_ok (st : store) (v : val) : Prop := match v with VRef b => b < length st | _ => True end.
Definition not_acc (acc v : val) : Prop := match acc, v with VRef a, VRef b => a <> b | _, _ => True end.

Theorem append_spec st acc args : val_ok st acc -> (forall v, In v args -> val_ok st v /\ not_acc acc v) ->
  let '(st', r) := append st acc args in
  items st' r = items st acc ++ flat_map (items st) args /\
  (is_nil_result r = true <-> items st acc ++ flat_map (items st) args = []) /\
  length st <= length st' /\ val_ok st' r /\
  (forall b, b < length st -> (forall a, acc = VRef a -> chain_of st a <> [] -> b <> a) -> chain_of st' b = chain_of st b) /\
  (forall a, acc = VRef a -> chain_of st a <> [] -> r = VRef a).
Proof.
  intros Hacc Hargs. unfold append.
  set (start := match acc with
                | VRef a => match chain_of st a with [] => (st, None) | _ => (st, Some a) end
                | VPlain id => (st ++ [[wrap_item id]], Some (length st))
                | _ => (st, None) end).
  assert (Hstart : cur_ok (fst start) (snd start) /\ cur_items (fst start) (snd start) = items st acc /\
                   length st <= length (fst start) /\ (forall b, b < length st -> chain_of (fst start) b = chain_of st b) /\
                   (forall v, In v args -> arg_ok (fst start) (snd start) v) /\
                   (forall a, acc = VRef a -> chain_of st a <> [] -> snd start = Some a) /\
                   (forall b, snd start = Some b -> b < length st -> acc = VRef b /\ chain_of st b <> [])).
  { assert (ArgsNone : forall v, In v args -> arg_ok st None v).
    { intros v Hv. destruct (Hargs v Hv) as [H1 _]. destruct v; cbn in *; auto. split; [lia|discriminate]. }
    unfold start. destruct acc as [| | |id|a]; cbn [fst snd cur_ok cur_items items val_ok] in *.
    - split; [exact I|]. split; [reflexivity|]. split; [lia|]. split; [auto|]. split; [exact ArgsNone|]. split; intros; discriminate.
    - split; [exact I|]. split; [reflexivity|]. split; [lia|]. split; [auto|]. split; [exact ArgsNone|]. split; intros; discriminate.
    - split; [exact I|]. split; [reflexivity|]. split; [lia|]. split; [auto|]. split; [exact ArgsNone|]. split; intros; discriminate.
    - rewrite app_length. cbn [length]. rewrite chain_app_new.
      split; [split; [lia|discriminate]|]. split; [reflexivity|]. split; [lia|].
      split; [intros b Hb; apply chain_app_old; exact Hb|].
      split. { intros v Hv. destruct (Hargs v Hv) as [H1 _]. destruct v; cbn in *; auto. rewrite app_length; cbn. split; [lia|]. intros [= E]. lia. }
      split; [intros; discriminate|]. intros b [= <-] Hb. lia.
    - destruct (chain_of st a) as [|i c] eqn:E; cbn [fst snd cur_ok cur_items].
      + split; [exact I|]. split; [reflexivity|]. split; [lia|]. split; [auto|]. split; [exact ArgsNone|].
        split; [intros a' [= <-] Hn; congruence | intros; discriminate].
      + split; [split; [exact Hacc | rewrite E; discriminate]|]. split; [exact E|]. split; [lia|]. split; [auto|].
        split. { intros v Hv. destruct (Hargs v Hv) as [H1 H2]. destruct v; cbn in *; auto. split; [lia|]. intros [= E2]. congruence. }
        split; [intros a' [= <-] _; reflexivity|]. intros b [= <-] _. split; [reflexivity|]. rewrite E. discriminate. }
  destruct start as [st0 cur0]. cbn [fst snd] in Hstart. destruct Hstart as (C0 & I0 & L0 & F0 & A0 & K0 & P0).
  pose proof (fold_add_spec args st0 cur0 C0 A0) as S. destruct (fold_left add_arg args (st0, cur0)) as [st' cur'].
  destruct S as (I & L & C & K & N & F).
  assert (Eitems : flat_map (items st0) args = flat_map (items st) args).
  { clear -Hargs F0. induction args as [|v args IH]; [reflexivity|]. cbn [flat_map]. f_equal.
    - destruct (Hargs v (or_introl eq_refl)) as [H1 _]. destruct v; cbn in *; auto.
    - apply IH. intros w Hw. apply Hargs. right. exact Hw. }
  rewrite Eitems, I0 in *.
  split; [|split; [split|split; [|split; [|split]]]].
  - destruct cur' as [a|]; cbn [items cur_items] in *; exact I.
  - intro Hn. destruct cur' as [a|]; [discriminate|]. destruct (N eq_refl) as [E1 E2]. subst cur0. cbn [cur_items] in I0. rewrite <- I0, E2. reflexivity.
  - intro He. destruct cur' as [a|]; [|reflexivity]. cbn [cur_items] in I. rewrite He in I.
    (* a head being extended is never empty: it either was the non-empty accumulator or received a non-empty argument *)
    exfalso. cbn [cur_ok] in C. destruct C as [_ C]. apply C. exact I.
  - lia.
  - destruct cur' as [a|]; cbn [val_ok cur_ok] in *; [apply C | exact Logic.I].
  - intros b Hb Hne. rewrite F; [apply F0; exact Hb | lia |].
    intro E. destruct (P0 _ E Hb) as [E1 E2]. apply (Hne b E1 E2). reflexivity.
  - intros a Ea Hn. rewrite (K a (K0 a Ea Hn)). reflexivity.
Qed.

Theorem wrap_spec st v : val_ok st v ->
  let '(st', r) := wrap st v in
  (match v with VNil | VTypedNilErr | VTypedNilCustom => r = VNil /\ st' = st | VRef a => r = VRef a /\ st' = st
   | VPlain id => r = VRef (length st) /\ items st' r = [wrap_item id] end) /\
  length st <= length st' /\ (forall b, b < length st -> chain_of st' b = chain_of st b).
Proof.
  intro H. destruct v; cbn [wrap]; repeat split; auto.
  - apply chain_app_new.
  - rewrite app_length. lia.
  - intros b Hb. apply chain_app_old. exact Hb.
Qed.

(* repeated Append on an accumulator *)
Theorem append_twice st a args1 args2 : a < length st -> chain_of st a <> [] ->
  (forall v, In v (args1 ++ args2) -> val_ok st v /\ not_acc (VRef a) v) ->
  let '(st1, r1) := append st (VRef a) args1 in
  let '(st2, r2) := append st1 r1 args2 in
  r2 = VRef a /\ items st2 r2 = chain_of st a ++ flat_map (items st) args1 ++ flat_map (items st) args2.
Proof.
  intros Hacc Hne Hargs.
  assert (H1 : forall v, In v args1 -> val_ok st v /\ not_acc (VRef a) v).
  { intros v Hv. apply Hargs. apply in_or_app. left. exact Hv. }
  pose proof (append_spec st (VRef a) args1 Hacc H1) as S1. destruct (append st (VRef a) args1) as [st1 r1].
  destruct S1 as (I1 & _ & L1 & V1 & F1 & R1). rewrite (R1 a eq_refl Hne) in *.
  assert (H2 : forall v, In v args2 -> val_ok st1 v /\ not_acc (VRef a) v).
  { intros v Hv. destruct (Hargs v (in_or_app _ _ _ (or_intror Hv))) as (A & B). split; [|exact B]. destruct v; cbn in *; auto. lia. }
  pose proof (append_spec st1 (VRef a) args2 V1 H2) as S2. destruct (append st1 (VRef a) args2) as [st2 r2].
  destruct S2 as (I2 & _ & _ & _ & _ & R2).
  assert (Hne1 : chain_of st1 a <> []).
  { cbn [items] in I1. rewrite I1. destruct (chain_of st a); [congruence|discriminate]. }
  split; [apply R2; auto|]. rewrite I2. cbn [items] in *. rewrite I1, <- app_assoc. do 2 f_equal.
  assert (G : forall l, (forall v, In v l -> val_ok st v /\ not_acc (VRef a) v) -> flat_map (items st1) l = flat_map (items st) l).
  { induction l as [|v l IH]; intro Hl; [reflexivity|]. cbn [flat_map]. f_equal.
    - destruct (Hl v (or_introl eq_refl)) as (A & B). destruct v; cbn in *; auto.
      apply F1; [exact A|]. intros a1 [= <-] _. congruence.
    - apply IH. intros w Hw. apply Hl. right. exact Hw. }
  apply G. intros v Hv. apply Hargs. apply in_or_app. right. exact Hv.
Qed.
