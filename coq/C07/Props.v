(* C07 — property theorems only. Coordinates are rationals (every int and finite float64); th is any threshold; the tree shape
   (and therefore the insertion fuel and the halving) is irrelevant to every statement. spec_step is the plain list of live nodes:
   Insert appends a node with non-empty bounds, Remove drops one occurrence of the node, Reorganize keeps, Clear empties.
   ops_agree says that ids identify nodes (an operand with the id of a live node has that node's bounds). *)
From Coq Require Import QArith List Bool ZArith Permutation.
From Verif Require Import C18.Model C07.Model C07.Proofs.
Import ListNotations.

(* after any history the stored multiset and Size are those of the list specification, and the tree invariant holds *)
Theorem C07_history_stores_exactly_the_live_nodes : forall th isint ops, ops_agree [] ops ->
  let q := fold_left step ops (newqt th isint) in
  WF q /\ Permutation (qall q) (fold_left spec_step ops []) /\ count q = Z.of_nat (length (fold_left spec_step ops [])).
Proof. exact history_refines. Qed.
Print Assumptions C07_history_stores_exactly_the_live_nodes.

(* in every well-formed tree (hence after every history) each Find* query returns exactly the multiset a linear scan of the stored
   nodes would, with or without a matcher m, and each boolean query is true exactly when that scan finds something *)
Theorem C07_queries_are_linear_scans : forall q, WF q -> forall (m : obj -> bool),
  (forall px py, Permutation (find_point q px py m) (filter (hit_point px py m) (qall q)) /\ any_point q px py m = existsb (hit_point px py m) (qall q)) /\
  (forall r, Permutation (find_inter q r m) (filter (hit_inter r m) (qall q)) /\ any_inter q r m = existsb (hit_inter r m) (qall q)) /\
  (forall r, Permutation (find_contains q r m) (filter (hit_contains r m) (qall q)) /\ any_contains q r m = existsb (hit_contains r m) (qall q)) /\
  (forall r, Permutation (find_within q r m) (filter (hit_within r m) (qall q)) /\ any_within q r m = existsb (hit_within r m) (qall q)).
Proof. exact queries_are_linear_scans. Qed.
Print Assumptions C07_queries_are_linear_scans.

Theorem C07_boolean_query_iff_nonempty : forall (f : obj -> bool) l, existsb f l = negb (match filter f l with [] => true | _ => false end).
Proof. exact (@existsb_filter obj). Qed.
Print Assumptions C07_boolean_query_iff_nonempty.

(* one step: every operation preserves the invariant and refines the list step *)
Theorem C07_step_refines : forall q l o, WF q -> Permutation (qall q) l -> unique_ids l -> op_agrees l o ->
  WF (step q o) /\ Permutation (qall (step q o)) (spec_step l o) /\ unique_ids (spec_step l o).
Proof. exact step_refines. Qed.
Print Assumptions C07_step_refines.

(* non-vacuity: a fractional rectangle that the old integer Contains misplaced is found by a point query after a split *)
Example C07_ex_fractional :
  let mk i x y w h := mko i (mkr x y w h) in
  let ops := [OIns (mk 1%Z 0 0 10 10); OIns (mk 2%Z (1#5) (1#5) (1#2) (1#2)); OIns (mk 3%Z 1 1 1 1); OIns (mk 4%Z 2 2 1 1); OIns (mk 5%Z 3 3 1 1); OReorg; OIns (mk 6%Z (1#4) (1#4) (1#8) (1#8))] in
  let q := fold_left step ops (newqt 4%Z false) in
  map oid (find_point q (3#10) (3#10) (fun _ => true)) = [1; 2; 6]%Z.
Proof. vm_compute. reflexivity. Qed.
