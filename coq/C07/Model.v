(* C07 — executable model of collection/quadtree (quadtree.go, node.go) over the rectangle predicates of C18.Model.
   Coordinates are rationals (ints are n/1, finite floats exact dyadics); isint selects Go's integer division for the halving.
   A node is a leaf or has exactly four children. Insertion recurses on fuel (a split creates nodes on demand); when the fuel is
   used up the object is simply kept in the current node, which is a legal placement, so no theorem depends on the fuel.
   The tree shape is not observable through the API; only the multisets returned by the queries are. *)
From Coq Require Import QArith List Bool ZArith.
From Verif Require Export C18.Model.
Import ListNotations.
Open Scope Q_scope.

Record obj := mko { oid : Z; orect : rect }.
Inductive qnode :=
| Leaf (r : rect) (contents : list obj)
| Split (r : rect) (contents : list obj) (k0 k1 k2 k3 : qnode).
Definition nrect (n : qnode) : rect := match n with Leaf r _ => r | Split r _ _ _ _ _ => r end.

Definition half (isint : bool) (v : Q) : Q := if isint then inject_Z (Z.quot (Qnum v) 2) else v / 2.

Fixpoint all (n : qnode) : list obj :=
  match n with
  | Leaf _ c => c
  | Split _ c k0 k1 k2 k3 => c ++ all k0 ++ all k1 ++ all k2 ++ all k3
  end.

Definition add_here (n : qnode) (o : obj) : qnode :=
  match n with Leaf r c => Leaf r (c ++ [o]) | Split r c k0 k1 k2 k3 => Split r (c ++ [o]) k0 k1 k2 k3 end.

Definition split_rects (isint : bool) (r : rect) : rect * rect * rect * rect :=
  let hw := half isint (rw r) in let hh := half isint (rh r) in
  (mkr (rx r) (ry r) hw hw,                                   (* child 0 really is hw x hw in the Go code *)
   mkr (rx r + hw) (ry r) (rw r - hw) hh,
   mkr (rx r) (ry r + hh) hw (rh r - hh),
   mkr (rx r + hw) (ry r + hh) (rw r - hw) (rh r - hh)).

Fixpoint node_insert (fuel : nat) (isint : bool) (th : nat) (n : qnode) (o : obj) : qnode :=
  match fuel with
  | O => add_here n o
  | S f =>
    let n1 :=
      match n with
      | Leaf r c =>
        if (th <=? length c)%nat then
          let '(r0, r1, r2, r3) := split_rects isint r in
          fold_left (fun acc x => node_insert f isint th acc x) c (Split r [] (Leaf r0 []) (Leaf r1 []) (Leaf r2 []) (Leaf r3 []))
        else n
      | _ => n
      end in
    match n1 with
    | Leaf r c => Leaf r (c ++ [o])
    | Split r c k0 k1 k2 k3 =>
      if contains (nrect k0) (orect o) then Split r c (node_insert f isint th k0 o) k1 k2 k3
      else if contains (nrect k1) (orect o) then Split r c k0 (node_insert f isint th k1 o) k2 k3
      else if contains (nrect k2) (orect o) then Split r c k0 k1 (node_insert f isint th k2 o) k3
      else if contains (nrect k3) (orect o) then Split r c k0 k1 k2 (node_insert f isint th k3 o)
      else Split r (c ++ [o]) k0 k1 k2 k3
    end
  end.

Fixpoint remove_first (c : list obj) (id : Z) : option (list obj) :=
  match c with
  | [] => None
  | x :: r => if (oid x =? id)%Z then Some r else match remove_first r id with Some r' => Some (x :: r') | None => None end
  end.

Fixpoint node_remove (n : qnode) (o : obj) : option qnode :=
  match n with
  | Leaf r c => match remove_first c (oid o) with Some c' => Some (Leaf r c') | None => None end
  | Split r c k0 k1 k2 k3 =>
    match remove_first c (oid o) with
    | Some c' => Some (Split r c' k0 k1 k2 k3)
    | None =>
      if contains r (orect o) then
        match node_remove k0 o with Some k => Some (Split r c k k1 k2 k3) | None =>
        match node_remove k1 o with Some k => Some (Split r c k0 k k2 k3) | None =>
        match node_remove k2 o with Some k => Some (Split r c k0 k1 k k3) | None =>
        match node_remove k3 o with Some k => Some (Split r c k0 k1 k2 k) | None => None end end end end
      else None
    end
  end.

(* the four query families: prune is the test on a tree node's rectangle, hit the test on a stored object *)
Fixpoint find (prune : rect -> bool) (hit : obj -> bool) (n : qnode) : list obj :=
  match n with
  | Leaf r c => if prune r then filter hit c else []
  | Split r c k0 k1 k2 k3 =>
    if prune r then filter hit c ++ find prune hit k0 ++ find prune hit k1 ++ find prune hit k2 ++ find prune hit k3 else []
  end.
Fixpoint any (prune : rect -> bool) (hit : obj -> bool) (n : qnode) : bool :=
  match n with
  | Leaf r c => prune r && existsb hit c
  | Split r c k0 k1 k2 k3 =>
    prune r && (existsb hit c || any prune hit k0 || any prune hit k1 || any prune hit k2 || any prune hit k3)
  end.

Record qt := mkqt { root : option qnode; outside : list obj; count : Z; thresh : Z; isintq : bool }.
Definition threshold (q : qt) : nat := Z.to_nat (if (thresh q <? 4)%Z then 64%Z else thresh q).
Definition FUEL := 200%nat.
Definition qall (q : qt) : list obj := outside q ++ match root q with Some n => all n | None => [] end.
Definition reorganize (q : qt) : qt :=
  let a := qall q in
  let r := fold_left (fun acc o => union acc (orect o)) a zero_rect in
  match a with
  | [] => mkqt None [] (count q) (thresh q) (isintq q)
  | _ => mkqt (Some (fold_left (fun n o => node_insert FUEL (isintq q) (threshold q) n o) a (Leaf r []))) [] (count q) (thresh q) (isintq q)
  end.
Definition insert (q : qt) (o : obj) : qt :=
  if empty (orect o) then q else
  let inroot := match root q with Some n => contains (nrect n) (orect o) | None => false end in
  if inroot then
    mkqt (match root q with Some n => Some (node_insert FUEL (isintq q) (threshold q) n o) | None => None end)
         (outside q) (count q + 1)%Z (thresh q) (isintq q)
  else
    let q2 := mkqt (root q) (outside q ++ [o]) (count q + 1)%Z (thresh q) (isintq q) in
    if (threshold q <? length (outside q2))%nat then reorganize q2 else q2.
Definition remove (q : qt) (o : obj) : qt :=
  match remove_first (outside q) (oid o) with
  | Some l => mkqt (root q) l (count q - 1)%Z (thresh q) (isintq q)
  | None => match root q with
            | Some n => match node_remove n o with
                        | Some n' => mkqt (Some n') (outside q) (count q - 1)%Z (thresh q) (isintq q)
                        | None => q end
            | None => q end
  end.
Definition clear (q : qt) : qt := mkqt None [] 0%Z (thresh q) (isintq q).

Definition query (q : qt) (prune : rect -> bool) (hit : obj -> bool) : list obj :=
  match root q with Some n => find prune hit n | None => [] end ++ filter hit (outside q).
Definition query_any (q : qt) (prune : rect -> bool) (hit : obj -> bool) : bool :=
  match root q with Some n => any prune hit n | None => false end || existsb hit (outside q).
(* the matcher is any predicate on the stored node *)
Definition hit_point (px py : Q) (m : obj -> bool) (o : obj) := pt_in px py (orect o) && m o.
Definition hit_inter (r : rect) (m : obj -> bool) (o : obj) := intersects (orect o) r && m o.
Definition hit_contains (r : rect) (m : obj -> bool) (o : obj) := contains (orect o) r && m o.
Definition hit_within (r : rect) (m : obj -> bool) (o : obj) := contains r (orect o) && m o.
Definition find_point q px py m := query q (pt_in px py) (hit_point px py m).
Definition find_inter q r m := query q (fun nr => intersects nr r) (hit_inter r m).
Definition find_contains q r m := query q (fun nr => intersects nr r) (hit_contains r m).
Definition find_within q r m := query q (fun nr => intersects nr r) (hit_within r m).
Definition any_point q px py m := query_any q (pt_in px py) (hit_point px py m).
Definition any_inter q r m := query_any q (fun nr => intersects nr r) (hit_inter r m).
Definition any_contains q r m := query_any q (fun nr => intersects nr r) (hit_contains r m).
Definition any_within q r m := query_any q (fun nr => intersects nr r) (hit_within r m).

Inductive op := OIns (o : obj) | ORem (o : obj) | OReorg | OClear.
Definition step (q : qt) (o : op) : qt :=
  match o with OIns x => insert q x | ORem x => remove q x | OReorg => reorganize q | OClear => clear q end.
Definition newqt (th : Z) (isint : bool) : qt := mkqt None [] 0%Z th isint.
