(* C07 — lemmas: every stored object lies inside the rectangle of each tree node above it; hence pruning loses nothing *)
From Coq Require Import QArith List Bool ZArith Lia Lqa Permutation.
From Verif Require Import C18.Model C18.Proofs C07.Model.
Import ListNotations.
Open Scope Q_scope.
Opaque FUEL.

(* ---------- the four pruning facts, from the rectangle theorems of C18 ---------- *)
Lemma prune_point r a px py : contains r a = true -> pt_in px py a = true -> pt_in px py r = true.
Proof. intros H. apply contains_spec in H. destruct H as [_ H]. apply H. Qed.
Lemma prune_inter r a q : contains r a = true -> intersects a q = true -> intersects r q = true.
Proof.
  rewrite contains_iff_coords, !intersects_iff_coords. intros (? & ? & ? & ? & ? & ? & ? & ?) (? & ? & ? & ? & ? & ? & ? & ?).
  repeat split; auto; lra.
Qed.
Lemma prune_contains r a q : contains r a = true -> contains a q = true -> intersects r q = true.
Proof.
  rewrite !contains_iff_coords, intersects_iff_coords. intros (? & ? & ? & ? & ? & ? & ? & ?) (? & ? & ? & ? & ? & ? & ? & ?).
  repeat split; auto; lra.
Qed.
Lemma prune_within r a q : contains r a = true -> contains q a = true -> intersects r q = true.
Proof.
  rewrite !contains_iff_coords, intersects_iff_coords. intros (? & ? & ? & ? & ? & ? & ? & ?) (? & ? & ? & ? & ? & ? & ? & ?).
  repeat split; auto; lra.
Qed.
Lemma contains_trans a b c : contains a b = true -> contains b c = true -> contains a c = true.
Proof.
  rewrite !contains_iff_coords. intros (? & ? & ? & ? & ? & ? & ? & ?) (? & ? & ? & ? & ? & ? & ? & ?). repeat split; auto; lra.
Qed.
Lemma contains_nonempty a b : contains a b = true -> empty a = false /\ empty b = false.
Proof. rewrite contains_iff_coords. intros (? & ? & ? & ? & _). split; apply nonempty_iff; auto. Qed.
Lemma contains_refl a : empty a = false -> contains a a = true.
Proof. intro H. apply nonempty_iff in H. destruct H. apply contains_iff_coords. repeat split; auto; lra. Qed.

(* ---------- the invariant ---------- *)
Definition inside (r : rect) (o : obj) : Prop := contains r (orect o) = true.
Fixpoint Inv (n : qnode) : Prop :=
  match n with
  | Leaf r c => Forall (inside r) c
  | Split r c k0 k1 k2 k3 => Forall (inside r) (c ++ all k0 ++ all k1 ++ all k2 ++ all k3) /\ Inv k0 /\ Inv k1 /\ Inv k2 /\ Inv k3
  end.
Lemma Inv_all n : Inv n -> Forall (inside (nrect n)) (all n).
Proof. destruct n; cbn; [auto | intros [H _]; exact H]. Qed.

(* ---------- queries = filter over everything stored ---------- *)
Section Query.
  Variables (prune : rect -> bool) (hit : obj -> bool).
  Hypothesis sound : forall r o, inside r o -> hit o = true -> prune r = true.

  Lemma filter_nothing r l : prune r = false -> Forall (inside r) l -> filter hit l = [].
  Proof.
    intros Hp F. induction F as [|o l Ho F IH]; [reflexivity|]. cbn [filter].
    destruct (hit o) eqn:E; [|exact IH]. rewrite (sound r o Ho E) in Hp. discriminate.
  Qed.
  Lemma exists_nothing r l : prune r = false -> Forall (inside r) l -> existsb hit l = false.
  Proof.
    intros Hp F. induction F as [|o l Ho F IH]; [reflexivity|]. cbn [existsb].
    destruct (hit o) eqn:E; [|exact IH]. rewrite (sound r o Ho E) in Hp. discriminate.
  Qed.

  Lemma find_filter n : Inv n -> find prune hit n = filter hit (all n).
  Proof.
    induction n as [r c | r c k0 IH0 k1 IH1 k2 IH2 k3 IH3]; intro I; cbn [find all].
    - destruct (prune r) eqn:E; [reflexivity|]. symmetry. eapply filter_nothing; eauto.
    - destruct I as (F & I0 & I1 & I2 & I3). destruct (prune r) eqn:E.
      + rewrite !filter_app, IH0, IH1, IH2, IH3 by assumption. reflexivity.
      + symmetry. eapply filter_nothing; eauto.
  Qed.
  Lemma any_exists n : Inv n -> any prune hit n = existsb hit (all n).
  Proof.
    induction n as [r c | r c k0 IH0 k1 IH1 k2 IH2 k3 IH3]; intro I; cbn [any all].
    - destruct (prune r) eqn:E; [reflexivity|]. cbn [andb]. symmetry. eapply exists_nothing; eauto.
    - destruct I as (F & I0 & I1 & I2 & I3). destruct (prune r) eqn:E; cbn [andb].
      + rewrite !existsb_app, IH0, IH1, IH2, IH3 by assumption. rewrite !orb_assoc. reflexivity.
      + symmetry. eapply exists_nothing; eauto.
  Qed.
End Query.

(* ---------- insertion ---------- *)
Lemma Forall_perm {A} (P : A -> Prop) l l' : Permutation l l' -> Forall P l -> Forall P l'.
Proof. intros. eapply Permutation_Forall; eauto. Qed.

Lemma perm_c (c R x : list obj) : Permutation ((c ++ x) ++ R) ((c ++ R) ++ x).
Proof. rewrite <- !app_assoc. apply Permutation_app_head. apply Permutation_app_comm. Qed.
Lemma perm_k0 (c a0 a1 a2 a3 K x : list obj) : Permutation K (a0 ++ x) -> Permutation (c ++ K ++ a1 ++ a2 ++ a3) ((c ++ a0 ++ a1 ++ a2 ++ a3) ++ x).
Proof. intro P. rewrite P. set (R := a1 ++ a2 ++ a3). rewrite <- !app_assoc. do 2 apply Permutation_app_head. apply Permutation_app_comm. Qed.
Lemma perm_k1 (c a0 a1 a2 a3 K x : list obj) : Permutation K (a1 ++ x) -> Permutation (c ++ a0 ++ K ++ a2 ++ a3) ((c ++ a0 ++ a1 ++ a2 ++ a3) ++ x).
Proof. intro P. rewrite P. set (R := a2 ++ a3). rewrite <- !app_assoc. do 3 apply Permutation_app_head. apply Permutation_app_comm. Qed.
Lemma perm_k2 (c a0 a1 a2 a3 K x : list obj) : Permutation K (a2 ++ x) -> Permutation (c ++ a0 ++ a1 ++ K ++ a3) ((c ++ a0 ++ a1 ++ a2 ++ a3) ++ x).
Proof. intro P. rewrite P. rewrite <- !app_assoc. do 4 apply Permutation_app_head. apply Permutation_app_comm. Qed.
Lemma perm_k3 (c a0 a1 a2 a3 K x : list obj) : Permutation K (a3 ++ x) -> Permutation (c ++ a0 ++ a1 ++ a2 ++ K) ((c ++ a0 ++ a1 ++ a2 ++ a3) ++ x).
Proof. intro P. rewrite P. rewrite <- !app_assoc. reflexivity. Qed.

Lemma add_here_spec n o : Inv n -> inside (nrect n) o -> Inv (add_here n o) /\ Permutation (all (add_here n o)) (all n ++ [o]) /\ nrect (add_here n o) = nrect n.
Proof.
  destruct n as [r c | r c k0 k1 k2 k3]; cbn [add_here Inv all nrect]; intros I Ho.
  - split; [apply Forall_app; split; [exact I | constructor; [exact Ho | constructor]]|]. split; reflexivity.
  - destruct I as (F & I0 & I1 & I2 & I3).
    assert (P : Permutation ((c ++ [o]) ++ all k0 ++ all k1 ++ all k2 ++ all k3) ((c ++ all k0 ++ all k1 ++ all k2 ++ all k3) ++ [o])) by apply perm_c.
    split; [split; [|auto]|split; [exact P|reflexivity]].
    eapply Forall_perm; [apply Permutation_sym; exact P|]. apply Forall_app; split; [exact F | constructor; [exact Ho | constructor]].
Qed.

Definition ins_ok (fuel : nat) : Prop := forall isint th n o, Inv n -> inside (nrect n) o ->
  Inv (node_insert fuel isint th n o) /\ Permutation (all (node_insert fuel isint th n o)) (all n ++ [o]) /\
  nrect (node_insert fuel isint th n o) = nrect n.

Lemma fold_insert_ok f isint th : ins_ok f -> forall c n, Inv n -> Forall (inside (nrect n)) c ->
  let n' := fold_left (fun acc x => node_insert f isint th acc x) c n in
  Inv n' /\ Permutation (all n') (all n ++ c) /\ nrect n' = nrect n.
Proof.
  intros IH c. induction c as [|x c IHc]; intros n I F; cbn [fold_left].
  - rewrite app_nil_r. auto.
  - inversion F as [|? ? Hx Fc]; subst. destruct (IH isint th n x I Hx) as (I1 & P1 & R1).
    specialize (IHc (node_insert f isint th n x) I1). rewrite R1 in IHc. specialize (IHc Fc). cbv zeta in IHc. destruct IHc as (I2 & P2 & R2).
    split; [exact I2|]. split; [|congruence]. rewrite P2, P1, <- app_assoc. reflexivity.
Qed.

Theorem node_insert_ok : forall fuel, ins_ok fuel.
Proof.
  induction fuel as [|f IH]; intros isint th n o I Ho.
  - cbn [node_insert]. apply add_here_spec; assumption.
  - cbn [node_insert].
    (* the (possibly split) node *)
    set (n1 := match n with
               | Leaf r c => if (th <=? length c)%nat then
                   let '(r0, r1, r2, r3) := split_rects isint r in
                   fold_left (fun acc x => node_insert f isint th acc x) c (Split r [] (Leaf r0 []) (Leaf r1 []) (Leaf r2 []) (Leaf r3 []))
                 else n
               | _ => n end).
    assert (H1 : Inv n1 /\ Permutation (all n1) (all n) /\ nrect n1 = nrect n).
    { unfold n1. destruct n as [r c | r c k0 k1 k2 k3]; [|split; [exact I|split; reflexivity]].
      destruct (th <=? length c)%nat; [|split; [exact I|split; reflexivity]].
      destruct (split_rects isint r) as [[[r0 r1] r2] r3].
      pose proof (fold_insert_ok f isint th IH c (Split r [] (Leaf r0 []) (Leaf r1 []) (Leaf r2 []) (Leaf r3 []))) as G.
      cbn [Inv all nrect app] in G. specialize (G ltac:(repeat split; constructor) I). cbv zeta in G. destruct G as (A & B & C).
      split; [exact A|]. split; [exact B | exact C]. }
    destruct H1 as (I1 & P1 & R1). rewrite <- R1 in Ho. clearbody n1.
    assert (G : forall n2, Inv n2 -> Permutation (all n2) (all n1 ++ [o]) -> nrect n2 = nrect n1 ->
                Inv n2 /\ Permutation (all n2) (all n ++ [o]) /\ nrect n2 = nrect n).
    { intros n2 A B C. split; [exact A|]. split; [rewrite B, P1; reflexivity | congruence]. }
    destruct n1 as [r c | r c k0 k1 k2 k3].
    + apply G; cbn [Inv all nrect] in *; [|reflexivity|reflexivity]. apply Forall_app. split; [exact I1 | constructor; [exact Ho | constructor]].
    + cbn [Inv all nrect] in *. destruct I1 as (F & I0 & I1' & I2 & I3).
      assert (Fo : Forall (inside r) [o]) by (constructor; [exact Ho | constructor]).
      destruct (contains (nrect k0) (orect o)) eqn:E0; [|destruct (contains (nrect k1) (orect o)) eqn:E1; [|destruct (contains (nrect k2) (orect o)) eqn:E2; [|destruct (contains (nrect k3) (orect o)) eqn:E3]]].
      * destruct (IH isint th k0 o I0 E0) as (A & B & C). pose proof (perm_k0 c _ (all k1) (all k2) (all k3) _ _ B) as P.
        apply G; cbn [Inv all nrect]; [|exact P|reflexivity]. split; [|auto].
        eapply Forall_perm; [apply Permutation_sym; exact P|]. apply Forall_app; split; assumption.
      * destruct (IH isint th k1 o I1' E1) as (A & B & C). pose proof (perm_k1 c (all k0) _ (all k2) (all k3) _ _ B) as P.
        apply G; cbn [Inv all nrect]; [|exact P|reflexivity]. split; [|auto].
        eapply Forall_perm; [apply Permutation_sym; exact P|]. apply Forall_app; split; assumption.
      * destruct (IH isint th k2 o I2 E2) as (A & B & C). pose proof (perm_k2 c (all k0) (all k1) _ (all k3) _ _ B) as P.
        apply G; cbn [Inv all nrect]; [|exact P|reflexivity]. split; [|auto].
        eapply Forall_perm; [apply Permutation_sym; exact P|]. apply Forall_app; split; assumption.
      * destruct (IH isint th k3 o I3 E3) as (A & B & C). pose proof (perm_k3 c (all k0) (all k1) (all k2) _ _ _ B) as P.
        apply G; cbn [Inv all nrect]; [|exact P|reflexivity]. split; [|auto].
        eapply Forall_perm; [apply Permutation_sym; exact P|]. apply Forall_app; split; assumption.
      * pose proof (perm_c c (all k0 ++ all k1 ++ all k2 ++ all k3) [o]) as P.
        apply G; cbn [Inv all nrect]; [|exact P|reflexivity]. split; [|auto].
        eapply Forall_perm; [apply Permutation_sym; exact P|]. apply Forall_app; split; assumption.
Qed.

(* ---------- removal ---------- *)
Lemma remove_first_some c id c' : remove_first c id = Some c' -> exists x, oid x = id /\ Permutation c (x :: c') /\ (forall P : obj -> Prop, Forall P c -> Forall P c').
Proof.
  revert c'. induction c as [|y c IH]; intros c' H; [discriminate|]. cbn [remove_first] in H.
  destruct (Z.eqb_spec (oid y) id) as [E|E].
  - injection H as <-. exists y. split; [exact E|]. split; [reflexivity|]. intros P F. inversion F; assumption.
  - destruct (remove_first c id) as [r'|] eqn:R; [|discriminate]. injection H as <-.
    destruct (IH r' eq_refl) as (x & Ex & Px & Fx). exists x. split; [exact Ex|]. split.
    + rewrite Px. apply perm_swap.
    + intros P F. inversion F; subst. constructor; [assumption|]. apply Fx. assumption.
Qed.
Lemma remove_first_none c id : remove_first c id = None -> forall x, List.In x c -> oid x <> id.
Proof.
  induction c as [|y c IH]; intros H x Hx; [destruct Hx|]. cbn [remove_first] in H.
  destruct (Z.eqb_spec (oid y) id) as [E|E]; [discriminate|]. destruct (remove_first c id) eqn:R; [discriminate|].
  destruct Hx as [<-|Hx]; [exact E | apply IH; auto].
Qed.

Lemma node_remove_some : forall n o n', node_remove n o = Some n' -> Inv n ->
  Inv n' /\ nrect n' = nrect n /\ exists x, oid x = oid o /\ Permutation (all n) (x :: all n').
Proof.
  induction n as [r c | r c k0 IH0 k1 IH1 k2 IH2 k3 IH3]; intros o n' H I; cbn [node_remove] in H.
  - destruct (remove_first c (oid o)) as [c'|] eqn:R; [|discriminate]. injection H as <-.
    destruct (remove_first_some _ _ _ R) as (x & Ex & Px & Fx). cbn [Inv all nrect] in *. split; [apply Fx; exact I|]. split; [reflexivity|]. exists x. auto.
  - cbn [Inv] in I. destruct I as (F & I0 & I1 & I2 & I3).
    destruct (remove_first c (oid o)) as [c'|] eqn:R.
    + injection H as <-. destruct (remove_first_some _ _ _ R) as (x & Ex & Px & Fx). cbn [Inv all nrect].
      assert (P : Permutation (c ++ all k0 ++ all k1 ++ all k2 ++ all k3) (x :: c' ++ all k0 ++ all k1 ++ all k2 ++ all k3)) by (rewrite Px; reflexivity).
      split; [split; [|auto]|split; [reflexivity|exists x; auto]].
      pose proof (Forall_perm _ _ _ P F) as F'. inversion F'; assumption.
    + destruct (contains r (orect o)); [|discriminate].
      destruct (node_remove k0 o) as [k|] eqn:R0; [|destruct (node_remove k1 o) as [k|] eqn:R1; [|destruct (node_remove k2 o) as [k|] eqn:R2; [|destruct (node_remove k3 o) as [k|] eqn:R3; [|discriminate]]]];
        injection H as <-; cbn [Inv all nrect].
      * destruct (IH0 _ _ R0 I0) as (A & B & x & Ex & Px).
        assert (P : Permutation (c ++ all k0 ++ all k1 ++ all k2 ++ all k3) (x :: c ++ all k ++ all k1 ++ all k2 ++ all k3)).
        { rewrite Px. apply Permutation_sym. apply Permutation_middle. }
        split; [split; [|auto]|split; [reflexivity|exists x; auto]]. pose proof (Forall_perm _ _ _ P F) as F'. inversion F'; assumption.
      * destruct (IH1 _ _ R1 I1) as (A & B & x & Ex & Px).
        assert (P : Permutation (c ++ all k0 ++ all k1 ++ all k2 ++ all k3) (x :: c ++ all k0 ++ all k ++ all k2 ++ all k3)).
        { rewrite Px. rewrite (app_assoc c (all k0)). rewrite (app_assoc c (all k0) (all k ++ _)). apply Permutation_sym. apply Permutation_middle. }
        split; [split; [|auto]|split; [reflexivity|exists x; auto]]. pose proof (Forall_perm _ _ _ P F) as F'. inversion F'; assumption.
      * destruct (IH2 _ _ R2 I2) as (A & B & x & Ex & Px).
        assert (P : Permutation (c ++ all k0 ++ all k1 ++ all k2 ++ all k3) (x :: c ++ all k0 ++ all k1 ++ all k ++ all k3)).
        { rewrite Px. rewrite !app_assoc. rewrite <- (app_assoc _ (x :: all k) (all k3)). cbn [app]. apply Permutation_sym.
          rewrite <- !app_assoc. rewrite !app_assoc. rewrite <- (app_assoc _ (all k) (all k3)). apply Permutation_middle. }
        split; [split; [|auto]|split; [reflexivity|exists x; auto]]. pose proof (Forall_perm _ _ _ P F) as F'. inversion F'; assumption.
      * destruct (IH3 _ _ R3 I3) as (A & B & x & Ex & Px).
        assert (P : Permutation (c ++ all k0 ++ all k1 ++ all k2 ++ all k3) (x :: c ++ all k0 ++ all k1 ++ all k2 ++ all k)).
        { rewrite Px. rewrite !app_assoc. apply Permutation_sym. apply Permutation_middle. }
        split; [split; [|auto]|split; [reflexivity|exists x; auto]]. pose proof (Forall_perm _ _ _ P F) as F'. inversion F'; assumption.
Qed.

(* an object with the id of a stored object is that object ("ids identify nodes") *)
Definition agrees (l : list obj) (o : obj) : Prop := forall x, List.In x l -> oid x = oid o -> orect x = orect o.

Lemma node_remove_none : forall n o, node_remove n o = None -> Inv n -> agrees (all n) o -> forall x, List.In x (all n) -> oid x <> oid o.
Proof.
  induction n as [r c | r c k0 IH0 k1 IH1 k2 IH2 k3 IH3]; intros o H I Ag x Hx; cbn [node_remove] in H.
  - destruct (remove_first c (oid o)) eqn:R; [discriminate|]. eapply remove_first_none; eauto.
  - cbn [Inv all] in *. destruct I as (F & I0 & I1 & I2 & I3).
    destruct (remove_first c (oid o)) eqn:R; [discriminate|].
    destruct (contains r (orect o)) eqn:C.
    + destruct (node_remove k0 o) eqn:R0; [discriminate|]. destruct (node_remove k1 o) eqn:R1; [discriminate|].
      destruct (node_remove k2 o) eqn:R2; [discriminate|]. destruct (node_remove k3 o) eqn:R3; [discriminate|].
      assert (Ag' : forall l, (forall y, List.In y l -> List.In y (c ++ all k0 ++ all k1 ++ all k2 ++ all k3)) -> agrees l o) by (intros l Hl y Hy; apply Ag; auto).
      apply in_app_or in Hx. destruct Hx as [Hx|Hx]; [eapply remove_first_none; eauto|].
      apply in_app_or in Hx. destruct Hx as [Hx|Hx]; [apply (IH0 o R0 I0); [apply Ag'; intros; apply in_or_app; right; apply in_or_app; left; assumption | assumption]|].
      apply in_app_or in Hx. destruct Hx as [Hx|Hx]; [apply (IH1 o R1 I1); [apply Ag'; intros; apply in_or_app; right; apply in_or_app; right; apply in_or_app; left; assumption | assumption]|].
      apply in_app_or in Hx. destruct Hx as [Hx|Hx]; [apply (IH2 o R2 I2); [apply Ag'; intros; do 3 (apply in_or_app; right); apply in_or_app; left; assumption | assumption] |
                                                     apply (IH3 o R3 I3); [apply Ag'; intros; do 4 (apply in_or_app; right); assumption | assumption]].
    + intro E. rewrite Forall_forall in F. pose proof (F x Hx) as Hin. unfold inside in Hin. rewrite (Ag x Hx E) in Hin. congruence.
Qed.

(* ---------- Reorganize: the union of all bounds contains every non-empty bound ---------- *)
Lemma union_keeps acc v x : contains acc x = true -> contains (union acc v) x = true.
Proof.
  intro H. destruct (contains_nonempty _ _ H) as [Ha _]. destruct (union_covers acc v) as [U _]. eapply contains_trans; [apply U; exact Ha | exact H].
Qed.
Lemma fold_union_keeps l : forall acc x, contains acc x = true -> contains (fold_left (fun a o => union a (orect o)) l acc) x = true.
Proof. induction l as [|o l IH]; intros acc x H; cbn [fold_left]; [exact H|]. apply IH. apply union_keeps. exact H. Qed.
Lemma fold_union_covers l : forall acc o, List.In o l -> empty (orect o) = false -> contains (fold_left (fun a o => union a (orect o)) l acc) (orect o) = true.
Proof.
  induction l as [|y l IH]; intros acc o Hin Hne; [destruct Hin|]. cbn [fold_left]. destruct Hin as [<-|Hin]; [|apply IH; assumption].
  apply fold_union_keeps. destruct (union_covers acc (orect y)) as [_ U]. eapply contains_trans; [apply U; exact Hne | apply contains_refl; exact Hne].
Qed.

(* ---------- the whole tree ---------- *)
Definition WF (q : qt) : Prop :=
  (forall n, root q = Some n -> Inv n) /\ Forall (fun o => empty (orect o) = false) (qall q) /\ count q = Z.of_nat (length (qall q)).
Definition spec_step (l : list obj) (o : op) : list obj :=
  match o with
  | OIns x => if empty (orect x) then l else l ++ [x]
  | ORem x => match remove_first l (oid x) with Some l' => l' | None => l end
  | OReorg => l
  | OClear => []
  end.
Definition op_agrees (l : list obj) (o : op) : Prop := match o with OIns x | ORem x => agrees l x | _ => True end.

Lemma reorganize_ok q : WF q -> WF (reorganize q) /\ Permutation (qall (reorganize q)) (qall q).
Proof.
  intros (WI & WN & WC). unfold reorganize. destruct (qall q) as [|o0 a] eqn:E.
  - split; [|reflexivity]. unfold WF, qall. cbn [root outside count app length]. split; [intros n H; discriminate|]. split; [constructor|]. rewrite WC. reflexivity.
  - set (r := fold_left (fun acc o => union acc (orect o)) (o0 :: a) zero_rect).
    assert (Fin : Forall (inside r) (o0 :: a)).
    { apply Forall_forall. intros o Ho. unfold inside, r. apply fold_union_covers; [exact Ho|]. rewrite Forall_forall in WN. apply WN. exact Ho. }
    pose proof (fold_insert_ok FUEL (isintq q) (threshold q) (node_insert_ok FUEL) (o0 :: a) (Leaf r []) ltac:(constructor) Fin) as G.
    cbv zeta in G.
    set (rt := fold_left (fun acc x => node_insert FUEL (isintq q) (threshold q) acc x) (o0 :: a) (Leaf r [])) in *.
    destruct G as (A & B & C). cbn [all app] in B. clearbody rt.
    unfold WF, qall. cbn [root outside count app].
    split; [|exact B]. split; [intros n E0; injection E0 as E0; rewrite <- E0; exact A|]. split.
    + eapply Forall_perm; [apply Permutation_sym; exact B | exact WN].
    + rewrite WC. f_equal. apply Permutation_length. apply Permutation_sym. exact B.
Qed.

Lemma perm_remove l1 l2 id l1' : Permutation l1 l2 -> (forall x y, List.In x l1 -> List.In y l1 -> oid x = oid y -> x = y) ->
  remove_first l1 id = Some l1' -> exists l2', remove_first l2 id = Some l2' /\ Permutation l1' l2'.
Proof.
  intros P U R. destruct (remove_first_some _ _ _ R) as (x & Ex & Px & _).
  destruct (remove_first l2 id) as [l2'|] eqn:R2.
  - exists l2'. split; [reflexivity|]. destruct (remove_first_some _ _ _ R2) as (y & Ey & Py & _).
    assert (x = y).
    { apply U; [rewrite Px; left; reflexivity | rewrite P, Py; left; reflexivity | congruence]. }
    subst y. apply (Permutation_cons_inv (a := x)). rewrite <- Px, <- Py. exact P.
  - exfalso. apply (remove_first_none _ _ R2 x); [rewrite <- P, Px; left; reflexivity | exact Ex].
Qed.

Definition unique_ids (l : list obj) : Prop := forall x y, List.In x l -> List.In y l -> oid x = oid y -> x = y.
Lemma obj_eq x y : oid x = oid y -> orect x = orect y -> x = y.
Proof. destruct x, y; cbn; intros -> ->; reflexivity. Qed.

Theorem step_refines q l o : WF q -> Permutation (qall q) l -> unique_ids l -> op_agrees l o ->
  WF (step q o) /\ Permutation (qall (step q o)) (spec_step l o) /\ unique_ids (spec_step l o).
Proof.
  intros W P U Ag. pose proof W as (WI & WN & WC). destruct o as [x|x| |]; cbn [step spec_step op_agrees] in *.
  - (* Insert *)
    unfold insert. destruct (empty (orect x)) eqn:Ee; [auto|].
    assert (U' : unique_ids (l ++ [x])).
    { intros a b Ha Hb Eab. apply in_app_or in Ha, Hb.
      destruct Ha as [Ha|[<-|[]]], Hb as [Hb|[<-|[]]]; auto.
      - apply obj_eq; [exact Eab | apply Ag; auto].
      - symmetry. apply obj_eq; [symmetry; exact Eab | apply Ag; auto]. }
    destruct (root q) as [n|] eqn:Er.
    + destruct (contains (nrect n) (orect x)) eqn:Ec.
      * destruct (node_insert_ok FUEL (isintq q) (threshold q) n x (WI n eq_refl) Ec) as (A & B & C).
        assert (PA : Permutation (outside q ++ all (node_insert FUEL (isintq q) (threshold q) n x)) (qall q ++ [x])).
        { unfold qall. rewrite Er, B, app_assoc. reflexivity. }
        unfold WF, qall. cbn [root outside count]. split; [|split; [rewrite PA, P; reflexivity | exact U']].
        split; [intros n' [= <-]; exact A|]. split.
        -- eapply Forall_perm; [apply Permutation_sym; exact PA|]. apply Forall_app. split; [exact WN | constructor; [exact Ee | constructor]].
        -- rewrite (Permutation_length PA), app_length, WC. cbn [length]. lia.
      * set (q2 := mkqt (Some n) (outside q ++ [x]) (count q + 1)%Z (thresh q) (isintq q)).
        assert (PA : Permutation (qall q2) (qall q ++ [x])).
        { unfold qall, q2. cbn [root outside]. rewrite Er. rewrite <- !app_assoc. apply Permutation_app_head. apply Permutation_app_comm. }
        assert (W2 : WF q2).
        { unfold WF. split; [intros n' E; apply WI; unfold q2 in E; cbn [root] in E; congruence|]. split.
          - eapply Forall_perm; [apply Permutation_sym; exact PA|]. apply Forall_app. split; [exact WN | constructor; [exact Ee | constructor]].
          - unfold q2 at 1. cbn [count]. rewrite (Permutation_length PA), app_length, WC. cbn [length]. lia. }
        fold q2. destruct (threshold q <? length (outside q2))%nat.
        -- destruct (reorganize_ok q2 W2) as [WR PR]. split; [exact WR|]. split; [rewrite PR, PA, P; reflexivity | exact U'].
        -- split; [exact W2|]. split; [rewrite PA, P; reflexivity | exact U'].
    + set (q2 := mkqt None (outside q ++ [x]) (count q + 1)%Z (thresh q) (isintq q)).
      assert (PA : Permutation (qall q2) (qall q ++ [x])).
      { unfold qall, q2. cbn [root outside]. rewrite Er. rewrite !app_nil_r. reflexivity. }
      assert (W2 : WF q2).
      { unfold WF. split; [intros n' E; unfold q2 in E; cbn [root] in E; discriminate|]. split.
        - eapply Forall_perm; [apply Permutation_sym; exact PA|]. apply Forall_app. split; [exact WN | constructor; [exact Ee | constructor]].
        - unfold q2 at 1. cbn [count]. rewrite (Permutation_length PA), app_length, WC. cbn [length]. lia. }
      fold q2. destruct (threshold q <? length (outside q2))%nat.
      * destruct (reorganize_ok q2 W2) as [WR PR]. split; [exact WR|]. split; [rewrite PR, PA, P; reflexivity | exact U'].
      * split; [exact W2|]. split; [rewrite PA, P; reflexivity | exact U'].
  - (* Remove *)
    assert (Uq : unique_ids (qall q)).
    { intros a b Ha Hb. apply U; rewrite <- P; assumption. }
    assert (Usub : forall l', (forall z, List.In z l' -> List.In z l) -> unique_ids l').
    { intros l' Hs a b Ha Hb. apply U; auto. }
    unfold remove. destruct (remove_first (outside q) (oid x)) as [out'|] eqn:Ro.
    + (* found outside *)
      assert (Rq : remove_first (qall q) (oid x) = Some (out' ++ match root q with Some n => all n | None => [] end)).
      { unfold qall. clear -Ro. revert out' Ro. induction (outside q) as [|y c IH]; intros out' Ro; [discriminate|]. cbn [remove_first app] in *.
        destruct (oid y =? oid x)%Z; [injection Ro as <-; reflexivity|]. destruct (remove_first c (oid x)) eqn:R; [|discriminate].
        injection Ro as <-. rewrite (IH l eq_refl). reflexivity. }
      destruct (perm_remove _ _ _ _ P Uq Rq) as (l' & Rl & Pl). rewrite Rl.
      destruct (remove_first_some _ _ _ Rq) as (x0 & Ex0 & Px0 & Fx0).
      unfold WF, qall. cbn [root outside count]. split; [|split; [exact Pl|]].
      * split; [exact WI|]. split; [apply Fx0; exact WN|]. rewrite WC. pose proof (Permutation_length Px0) as L. cbn [length] in L. unfold qall in *. lia.
      * apply Usub. intros z Hz. destruct (remove_first_some _ _ _ Rl) as (y & _ & Py & _). rewrite Py. right. exact Hz.
    + destruct (root q) as [n|] eqn:Er.
      * destruct (node_remove n x) as [n'|] eqn:Rn.
        -- destruct (node_remove_some _ _ _ Rn (WI n eq_refl)) as (A & B & x0 & Ex0 & Px0).
           assert (Pq : Permutation (qall q) (x0 :: outside q ++ all n')).
           { unfold qall. rewrite Er, Px0. apply Permutation_sym. apply Permutation_middle. }
           destruct (remove_first l (oid x)) as [l'|] eqn:Rl.
           ++ destruct (remove_first_some _ _ _ Rl) as (y & Ey & Py & _).
              assert (x0 = y).
              { apply U; [rewrite <- P, Pq; left; reflexivity | rewrite Py; left; reflexivity | congruence]. }
              subst y.
              unfold WF, qall. cbn [root outside count]. split; [|split].
              ** split; [intros n2 [= <-]; exact A|]. split.
                 --- pose proof (Forall_perm _ _ _ Pq WN) as F'. inversion F'; assumption.
                 --- rewrite WC. pose proof (Permutation_length Pq) as L. cbn [length] in L. lia.
              ** apply (Permutation_cons_inv (a := x0)). rewrite <- Pq, <- Py. exact P.
              ** apply Usub. intros z Hz. rewrite Py. right. exact Hz.
           ++ exfalso. apply (remove_first_none _ _ Rl x0); [rewrite <- P, Pq; left; reflexivity | exact Ex0].
        -- (* not found anywhere: then the id is not live *)
           assert (Hno : forall z, List.In z (qall q) -> oid z <> oid x).
           { intros z Hz. unfold qall in Hz. rewrite Er in Hz. apply in_app_or in Hz. destruct Hz as [Hz|Hz]; [eapply remove_first_none; eauto|].
             apply (node_remove_none n x Rn (WI n eq_refl)); [|exact Hz].
             intros y Hy. apply Ag. rewrite <- P. unfold qall. rewrite Er. apply in_or_app. right. exact Hy. }
           destruct (remove_first l (oid x)) as [l'|] eqn:Rl.
           ++ exfalso. destruct (remove_first_some _ _ _ Rl) as (y & Ey & Py & _). apply (Hno y); [rewrite P, Py; left; reflexivity | exact Ey].
           ++ auto.
      * assert (Hno : forall z, List.In z (qall q) -> oid z <> oid x).
        { intros z Hz. unfold qall in Hz. rewrite Er, app_nil_r in Hz. eapply remove_first_none; eauto. }
        destruct (remove_first l (oid x)) as [l'|] eqn:Rl.
        -- exfalso. destruct (remove_first_some _ _ _ Rl) as (y & Ey & Py & _). apply (Hno y); [rewrite P, Py; left; reflexivity | exact Ey].
        -- auto.
  - (* Reorganize *) destruct (reorganize_ok q W) as [WR PR]. split; [exact WR|]. split; [rewrite PR; exact P | exact U].
  - (* Clear *) unfold clear, WF, qall. cbn [root outside count app length]. split; [|split; [reflexivity | intros a b []]].
    split; [intros n H; discriminate|]. split; [constructor | reflexivity].
Qed.

(* ---------- queries on the whole tree ---------- *)
Theorem query_spec q prune hit : WF q -> (forall r o, inside r o -> hit o = true -> prune r = true) ->
  Permutation (query q prune hit) (filter hit (qall q)) /\ query_any q prune hit = existsb hit (qall q).
Proof.
  intros (WI & _ & _) S. unfold query, query_any, qall. destruct (root q) as [n|] eqn:Er.
  - rewrite (find_filter prune hit S n (WI n eq_refl)), (any_exists prune hit S n (WI n eq_refl)). split.
    + rewrite filter_app. apply Permutation_app_comm.
    + rewrite existsb_app. apply orb_comm.
  - cbn [app]. rewrite !app_nil_r. split; reflexivity.
Qed.

Lemma sound_point px py m r o : inside r o -> hit_point px py m o = true -> pt_in px py r = true.
Proof. unfold hit_point. intros H E. apply andb_prop in E. destruct E as [E _]. eapply prune_point; eauto. Qed.
Lemma sound_inter q m r o : inside r o -> hit_inter q m o = true -> intersects r q = true.
Proof. unfold hit_inter. intros H E. apply andb_prop in E. destruct E as [E _]. eapply prune_inter; eauto. Qed.
Lemma sound_contains q m r o : inside r o -> hit_contains q m o = true -> intersects r q = true.
Proof. unfold hit_contains. intros H E. apply andb_prop in E. destruct E as [E _]. eapply prune_contains; eauto. Qed.
Lemma sound_within q m r o : inside r o -> hit_within q m o = true -> intersects r q = true.
Proof. unfold hit_within. intros H E. apply andb_prop in E. destruct E as [E _]. eapply prune_within; eauto. Qed.

Theorem queries_are_linear_scans q : WF q -> forall (m : obj -> bool),
  (forall px py, Permutation (find_point q px py m) (filter (hit_point px py m) (qall q)) /\ any_point q px py m = existsb (hit_point px py m) (qall q)) /\
  (forall r, Permutation (find_inter q r m) (filter (hit_inter r m) (qall q)) /\ any_inter q r m = existsb (hit_inter r m) (qall q)) /\
  (forall r, Permutation (find_contains q r m) (filter (hit_contains r m) (qall q)) /\ any_contains q r m = existsb (hit_contains r m) (qall q)) /\
  (forall r, Permutation (find_within q r m) (filter (hit_within r m) (qall q)) /\ any_within q r m = existsb (hit_within r m) (qall q)).
Proof.
  intros W m. split; [|split; [|split]].
  - intros px py. apply (query_spec q (pt_in px py) (hit_point px py m) W). intros r o. apply sound_point.
  - intros r. apply (query_spec q (fun nr => intersects nr r) (hit_inter r m) W). intros r0 o. apply sound_inter.
  - intros r. apply (query_spec q (fun nr => intersects nr r) (hit_contains r m) W). intros r0 o. apply sound_contains.
  - intros r. apply (query_spec q (fun nr => intersects nr r) (hit_within r m) W). intros r0 o. apply sound_within.
Qed.
Lemma existsb_filter {A} (f : A -> bool) l : existsb f l = negb (match filter f l with [] => true | _ => false end).
Proof. induction l as [|x l IH]; [reflexivity|]. cbn. destruct (f x); [reflexivity|exact IH]. Qed.

(* ---------- every history ---------- *)
Fixpoint ops_agree (l : list obj) (ops : list op) : Prop :=
  match ops with [] => True | o :: r => op_agrees l o /\ ops_agree (spec_step l o) r end.
Lemma WF_new th isint : WF (newqt th isint).
Proof. unfold WF, newqt, qall. cbn. split; [intros n H; discriminate|]. split; [constructor|reflexivity]. Qed.

Theorem history_refines_from : forall ops q l, WF q -> Permutation (qall q) l -> unique_ids l -> ops_agree l ops ->
  WF (fold_left step ops q) /\ Permutation (qall (fold_left step ops q)) (fold_left spec_step ops l).
Proof.
  induction ops as [|o ops IH]; intros q l W P U A; cbn [fold_left]; [auto|]. destruct A as [A1 A2].
  destruct (step_refines q l o W P U A1) as (W' & P' & U'). apply IH; assumption.
Qed.
Theorem history_refines th isint ops : ops_agree [] ops ->
  let q := fold_left step ops (newqt th isint) in
  WF q /\ Permutation (qall q) (fold_left spec_step ops []) /\ count q = Z.of_nat (length (fold_left spec_step ops [])).
Proof.
  intro A. cbv zeta. destruct (history_refines_from ops (newqt th isint) [] (WF_new th isint) (Permutation_refl _) ltac:(intros a b []) A) as [W P].
  split; [exact W|]. split; [exact P|]. destruct W as (_ & _ & C). rewrite C. f_equal. apply Permutation_length. exact P.
Qed.
