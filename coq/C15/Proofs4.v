(* C15 — termination: a measure that every move of a goroutine decreases. With the absence of deadlock (Proofs3.v) it gives:
   once Shutdown has been called and the tasks end, EVERY schedule - fair or not - makes Shutdown return within M s moves;
   and the quiescence runner used by the correspondence check never runs out of fuel. *)
From Coq Require Import List Arith Bool ZArith Lia.
From Verif Require Import C15.Model C15.Proofs C15.Proofs2 C15.Proofs3.
Import ListNotations.

Definition pcw (p : dpc) : nat :=
  match p with
  | Main => 5 | SendBack => 6 | Got _ => 16 | WaitFull _ => 15 | SendFull _ => 14
  | Drain _ => 4 | WaitAll => 3 | CloseTasks => 2 | SendDone => 1 | DEnd => 0 | DPanic => 0
  end.
Definition ww (w : wst) : nat := match w with Idle => 1 | Running _ => 5 | SendReady => 4 | WExit => 0 end.
Fixpoint wsum (l : list wst) : nat := match l with [] => 0 | w :: r => ww w + wsum r end.
Definition M (s : st) : nat :=
  13 * length (concat (subs s)) + 12 * length (inq s) + pcw (pc s) + 8 * length (dbl s) + 5 * length (tasksch s) + wsum (ws s) + 2 * ready s.

Lemma wsum_upd (l : list wst) i w0 w : nth_error l i = Some w0 -> wsum (upd l i w) + ww w0 = wsum l + ww w.
Proof.
  revert i; induction l as [|a l IH]; intros [|i] H; cbn [nth_error] in H; try discriminate.
  - injection H as ->. unfold upd; cbn [firstn skipn app wsum]. lia.
  - specialize (IH i H). unfold upd in *. cbn [firstn skipn app wsum]. lia.
Qed.
Lemma len_concat_upd (l : list (list task)) i t r : nth_error l i = Some (t :: r) -> S (length (concat (upd l i r))) = length (concat l).
Proof.
  revert i; induction l as [|a l IH]; intros [|i] H; cbn [nth_error] in H; try discriminate.
  - injection H as ->. unfold upd; cbn [firstn skipn app concat length]. rewrite ?app_length. lia.
  - specialize (IH i H). unfold upd in *. cbn [firstn skipn app concat]. rewrite ?app_length. lia.
Qed.

Ltac mm := unfold M, dbl in *; cbn [subs inq pc backlog tasksch ws finished started released handled allowed received processed ready in_closed sd_called sd_returned tasks_closed pcw] in *;
           rewrite ?app_length in *; cbn [length pcw] in *.

(* every move of a goroutine (submitter, dispatcher, worker, the receiving half of Shutdown) decreases M *)
Ltac mfin := mm; repeat match goal with H : pc _ = _ |- _ => rewrite H in *; clear H end;
            repeat match goal with H : backlog _ = _ |- _ => rewrite H in *; clear H end;
            repeat match goal with H : inq _ = _ |- _ => rewrite H in *; clear H end;
            repeat match goal with H : tasksch _ = _ |- _ => rewrite H in *; clear H end;
            rewrite ?app_length in *; cbn [length pcw] in *; try lia.
Theorem internal_step_decreases c s a s' : step c s a = Some s' -> internal s a = true -> Phase s -> M s' < M s.
Proof.
  intros H IA (P1 & P2 & _). destruct a; cbn [internal] in IA; try discriminate; cbn [step] in H.
  - destruct (nth_error (subs s) i) as [[|t r]|] eqn:E; try discriminate.
    destruct ((length (inq s) <? Cin c) && negb (in_closed s) && (t <? allowed s)); [|discriminate]. injection H as <-.
    pose proof (len_concat_upd _ _ _ _ E). mm. destruct (pc s); cbn [pcw]; lia.
  - rewrite IA in H. cbn [negb] in H. destruct (pc s) eqn:P; try discriminate. destruct (sd_returned s); [discriminate|]. injection H as <-. mfin.
  - destruct (pc s) eqn:P; try discriminate. destruct (inq s) as [|t r] eqn:Q.
    + destruct (in_closed s) eqn:C; [|discriminate]. injection H as <-. unfold set_pc. mfin.
    + injection H as <-. mfin.
  - destruct (ready s) as [|rd] eqn:R; [discriminate|].
    destruct (pc s) eqn:P; try discriminate; injection H as <-; try solve [mfin].
    destruct (backlog s) eqn:B; mfin.
  - destruct (pc s) eqn:P; try discriminate.
    + destruct (match backlog s with [] => length (tasksch s) <? W c | _ => false end).
      * injection H as <-. mfin.
      * destruct ((depth c <? 0)%Z || (Z.of_nat (length (backlog s)) <? depth c)%Z); injection H as <-; mfin.
    + destruct (backlog s) as [|b r] eqn:B; (destruct (length (tasksch s) <? W c); [|discriminate]); injection H as <-; mfin.
    + destruct (backlog s) as [|b r] eqn:B.
      * exfalso. apply P2; reflexivity.
      * destruct (length (tasksch s) <? W c); [|discriminate]. injection H as <-. mfin.
    + destruct rest as [|t r].
      * injection H as <-. mfin.
      * destruct (length (tasksch s) <? W c); [|discriminate]. injection H as <-. mfin.
    + destruct (received s =? processed s); [|discriminate]. injection H as <-. mfin.
    + injection H as <-. mfin.
  - destruct (nth_error (ws s) i) as [[|t| |]|] eqn:E; try discriminate.
    + destruct (tasksch s) as [|t r] eqn:T.
      * destruct (tasks_closed s); [|discriminate]. injection H as <-. pose proof (wsum_upd _ _ _ WExit E) as U. cbn [ww] in U. mm. rewrite T. cbn [length]. destruct (pc s); cbn [pcw]; lia.
      * injection H as <-. pose proof (wsum_upd _ _ _ (Running t) E) as U. cbn [ww] in U. mm. rewrite T. cbn [length]. destruct (pc s); cbn [pcw]; lia.
    + destruct (existsb (Nat.eqb t) (released s)); [|discriminate]. injection H as <-. pose proof (wsum_upd _ _ _ SendReady E) as U. cbn [ww] in U. mm. destruct (pc s); cbn [pcw]; lia.
    + destruct (ready s <? W c); [|discriminate]. injection H as <-. pose proof (wsum_upd _ _ _ Idle E) as U. cbn [ww] in U. mm. destruct (pc s); cbn [pcw]; lia.
Qed.

(* runs of goroutine moves only (no move of the environment) *)
Inductive isteps (c : cfg) : st -> list act -> st -> Prop :=
| is_nil s : isteps c s [] s
| is_cons s a s1 l s2 : internal s a = true -> step c s a = Some s1 -> isteps c s1 l s2 -> isteps c s (a :: l) s2.

Definition all_released (progs : list (list task)) (s : st) : Prop := forall t, In t (concat progs) -> existsb (Nat.eqb t) (released s) = true.
Lemma running_in l t : In (Running t) l -> In t (running l).
Proof. intro H. unfold running. apply in_flat_map. exists (Running t). split; [exact H|left; reflexivity]. Qed.
Lemma released_let_go c progs s : reachable c progs s -> all_released progs s -> let_go s.
Proof.
  intros R AR t IN. apply AR. destruct (reachable_inv c progs s R) as (_ & _ & IT). specialize (IT t).
  apply (count_occ_In Nat.eq_dec). unfold cnt in IT. rewrite <- IT. apply (count_occ_In Nat.eq_dec).
  unfold all_tasks. do 5 (apply in_or_app; right). apply in_or_app. left. apply running_in, IN.
Qed.
Lemma internal_keeps c s a s' : step c s a = Some s' -> internal s a = true ->
  released s' = released s /\ (sd_called s = true -> sd_called s' = true).
Proof.
  intros H IA. destruct a; cbn [internal] in IA; try discriminate; cbn [step] in H;
    repeat match type of H with context[match ?x with _ => _ end] => destruct x eqn:? end; try discriminate; injection H as <-; unfold set_pc; cbn [released sd_called]; auto.
Qed.
Lemma isteps_facts c progs s l s' : isteps c s l s' -> reachable c progs s ->
  reachable c progs s' /\ length l + M s' <= M s /\ released s' = released s /\ (sd_called s = true -> sd_called s' = true).
Proof.
  induction 1 as [s|s a s1 l s2 IA ST _ IH]; intro R; [repeat split; auto; cbn; lia|].
  assert (R1 : reachable c progs s1) by (eapply reach_step; eauto).
  destruct (IH R1) as (A & B & C & D). destruct (internal_keeps c s a s1 ST IA) as [E G].
  pose proof (internal_step_decreases c s a s1 ST IA (proj1 (proj2 (reachable_inv c progs s R)))).
  repeat split; auto; cbn [length]; try lia; try congruence.
Qed.

(* SHUTDOWN ALWAYS RETURNS. From any reachable state in which Shutdown has been called and the tasks have been let go, every run
   of the goroutines - under any scheduler - is at most M s moves long, and if it cannot be continued Shutdown has returned
   (with every task run exactly once, by C15_shutdown_returns_after_every_task_ran_once). *)
Theorem shutdown_returns_under_every_schedule c progs s l s' : 1 <= W c -> 1 <= Cin c ->
  reachable c progs s -> sd_called s = true -> all_released progs s -> isteps c s l s' ->
  length l <= M s /\ (quiescent c s' -> sd_returned s' = true /\ pc s' = DEnd /\ forall x, cnt x (finished s') = cnt x (concat progs)).
Proof.
  intros HW HC R SC AR IS. destruct (isteps_facts c progs s l s' IS R) as (R' & LM & RL & SC').
  split; [lia|]. intro Q.
  assert (LG : let_go s') by (apply (released_let_go c progs s' R'); intros t IN; rewrite RL; apply AR, IN).
  destruct (quiescent_states c progs s' HW HC R' LG Q) as [A _]. destruct (A (SC' SC)) as [B C].
  split; [exact B|]. split; [exact C|]. apply (shutdown_returns_after_all_ran c progs s' R' B C).
Qed.

(* the runner: first_step finds a move whenever there is one, so quiesce with enough fuel ends in a quiescent state *)
Lemma first_step_none c s : forall l, first_step c s l = None -> forall a, In a l -> step c s a = None.
Proof. induction l as [|b l IH]; intros H a IN; [destruct IN|]. cbn [first_step] in H. destruct (step c s b) eqn:E; [discriminate|]. destruct IN as [<-|IN]; [exact E|apply IH; assumption]. Qed.
Lemma first_step_internal c s : forall l s', (forall a, In a l -> internal s a = true) -> first_step c s l = Some s' -> exists a, internal s a = true /\ step c s a = Some s'.
Proof.
  induction l as [|b l IH]; intros s' HI H; [discriminate|]. cbn [first_step] in H. destruct (step c s b) eqn:E.
  - injection H as <-. exists b. split; [apply HI; left; reflexivity|exact E].
  - apply IH; [intros; apply HI; right; assumption|exact H].
Qed.
Lemma internal_acts_internal c s a : In a (internal_acts c s) -> internal s a = true.
Proof.
  unfold internal_acts. intro IN. apply in_app_or in IN. destruct IN as [IN|IN].
  { destruct IN as [<-|[<-|[<-|[]]]]; reflexivity. }
  apply in_app_or in IN. destruct IN as [IN|IN]; [apply in_map_iff in IN; destruct IN as (i & <- & _); reflexivity|].
  apply in_app_or in IN. destruct IN as [IN|IN]; [apply in_map_iff in IN; destruct IN as (i & <- & _); reflexivity|].
  destruct (sd_called s) eqn:SC; [|destruct IN]. destruct IN as [<-|[]]. exact SC.
Qed.
Lemma first_step_quiescent c s : length (ws s) = W c -> first_step c s (internal_acts c s) = None -> quiescent c s.
Proof.
  intros L H a IA. pose proof (first_step_none c s _ H) as N. destruct (step c s a) eqn:ST; [|reflexivity]. exfalso.
  assert (IN : In a (internal_acts c s)).
  { unfold internal_acts. destruct a; cbn [internal] in IA; try discriminate.
    - apply in_or_app. right. apply in_or_app. right. apply in_or_app. left. apply in_map. apply in_seq. cbn [step] in ST. destruct (nth_error (subs s) i) eqn:E; [|discriminate].
      assert (i < length (subs s)) by (apply nth_error_Some; congruence). lia.
    - apply in_or_app. right. apply in_or_app. right. apply in_or_app. right. rewrite IA. left. reflexivity.
    - apply in_or_app. left. cbn. auto.
    - apply in_or_app. left. cbn. auto.
    - apply in_or_app. left. cbn. auto.
    - apply in_or_app. right. apply in_or_app. left. apply in_map. apply in_seq. cbn [step] in ST. destruct (nth_error (ws s) i) eqn:E; [|discriminate].
      assert (i < length (ws s)) by (apply nth_error_Some; congruence). lia. }
  rewrite (N a IN) in ST. discriminate.
Qed.
Theorem quiesce_reaches_quiescence c progs : forall fuel s, reachable c progs s -> M s <= fuel -> quiescent c (quiesce fuel c s).
Proof.
  induction fuel as [|f IH]; intros s R LE.
  - cbn [quiesce]. (* M s = 0 is impossible for a state that can move; a state with M = 0 is quiescent because every move decreases M *)
    intros a IA. destruct (step c s a) eqn:ST; [|reflexivity]. pose proof (internal_step_decreases c s a s0 ST IA (proj1 (proj2 (reachable_inv c progs s R)))). lia.
  - cbn [quiesce]. destruct (first_step c s (internal_acts c s)) as [s'|] eqn:E.
    + destruct (first_step_internal c s _ s' (internal_acts_internal c s) E) as (a & IA & ST).
      pose proof (internal_step_decreases c s a s' ST IA (proj1 (proj2 (reachable_inv c progs s R)))).
      apply IH; [eapply reach_step; eauto|lia].
    + apply first_step_quiescent; [|exact E]. apply (workers_bounded c progs s R).
Qed.
