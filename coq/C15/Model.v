(* C15 — executable model of taskqueue.Queue (taskqueue/taskqueue.go) as an interleaving transition system: submitters
   (programs of task ids, sending on the buffered input channel), the dispatcher goroutine (program counter over process():
   the select, the direct hand-off, the backlog append, the bounded-depth branch, the drain loop, the received != processed
   loop, close(tasks), done <- true), the workers (take; run; ready <- true) and Shutdown (close(in); <-done). Channels have
   their capacities (in: Cin, tasks and ready: Workers, done: unbuffered). Two environment actions gate the run for the
   correspondence check: ARelease lets a running task finish, AAllow lets the submitters proceed. A task that panics is
   recovered by runTask: the handler sees it once and the worker goes on. No proofs here. *)
From Coq Require Import List Arith Bool ZArith.
Import ListNotations.

Definition task := nat.
Inductive dpc :=
| Main | Got (t : task) | WaitFull (t : task) | SendFull (t : task) | SendBack
| Drain (rest : list task) | WaitAll | CloseTasks | SendDone | DEnd | DPanic.
Inductive wst := Idle | Running (t : task) | SendReady | WExit.

Record cfg := { W : nat; depth : Z; Cin : nat; panics : list task }.
Record st := {
  subs : list (list task);
  inq : list task; in_closed : bool; sd_called : bool; sd_returned : bool;
  pc : dpc; backlog : list task; tasksch : list task; tasks_closed : bool; ready : nat;
  ws : list wst; received : nat; processed : nat;
  started : list task; finished : list task;
  released : list task; handled : list task; allowed : nat;
  sent : list task (* ghost: the tasks in the order in which they entered the input channel *) }.

Definition init (c : cfg) (progs : list (list task)) : st :=
  {| subs := progs; inq := []; in_closed := false; sd_called := false; sd_returned := false;
     pc := Main; backlog := []; tasksch := []; tasks_closed := false; ready := 0;
     ws := repeat Idle (W c); received := 0; processed := 0; started := []; finished := []; released := []; handled := []; allowed := 0; sent := [] |}.

Definition upd {A} (l : list A) (i : nat) (x : A) : list A :=
  firstn i l ++ match skipn i l with [] => [] | _ :: r => x :: r end.

(* actions: who moves *)
Inductive act := ASub (i : nat) | AShutdown | ADispIn | ADispReady | ADisp | AWorker (i : nat)
  | ARelease (t : task) (* the environment lets task t finish *) | AAllow (n : nat) (* the environment lets the submitters go on up to task id n *).

Definition set_pc (s : st) (p : dpc) := {| subs := subs s; inq := inq s; in_closed := in_closed s; sd_called := sd_called s; sd_returned := sd_returned s; pc := p; backlog := backlog s; tasksch := tasksch s; tasks_closed := tasks_closed s; ready := ready s; ws := ws s; received := received s; processed := processed s; started := started s; finished := finished s; released := released s; handled := handled s; allowed := allowed s; sent := sent s |}.

Definition step (c : cfg) (s : st) (a : act) : option st :=
  match a with
  | ASub i =>
    match nth_error (subs s) i with
    | Some (t :: r) => if (length (inq s) <? Cin c) && negb (in_closed s) && (t <? allowed s)
        then Some {| subs := upd (subs s) i r; inq := inq s ++ [t]; in_closed := in_closed s; sd_called := sd_called s; sd_returned := sd_returned s; pc := pc s; backlog := backlog s; tasksch := tasksch s; tasks_closed := tasks_closed s; ready := ready s; ws := ws s; received := received s; processed := processed s; started := started s; finished := finished s; released := released s; handled := handled s; allowed := allowed s; sent := sent s ++ [t] |}
        else None
    | _ => None
    end
  | AShutdown =>
    if negb (sd_called s) then
      if forallb (fun p => match p with [] => true | _ => false end) (subs s)
      then Some {| subs := subs s; inq := inq s; in_closed := true; sd_called := true; sd_returned := false; pc := pc s; backlog := backlog s; tasksch := tasksch s; tasks_closed := tasks_closed s; ready := ready s; ws := ws s; received := received s; processed := processed s; started := started s; finished := finished s; released := released s; handled := handled s; allowed := allowed s; sent := sent s |}
      else None
    else match pc s with
         | SendDone => if sd_returned s then None else Some {| subs := subs s; inq := inq s; in_closed := in_closed s; sd_called := true; sd_returned := true; pc := DEnd; backlog := backlog s; tasksch := tasksch s; tasks_closed := tasks_closed s; ready := ready s; ws := ws s; received := received s; processed := processed s; started := started s; finished := finished s; released := released s; handled := handled s; allowed := allowed s; sent := sent s |}
         | _ => None
         end
  | ADispIn =>
    match pc s with
    | Main =>
      match inq s with
      | t :: r => Some {| subs := subs s; inq := r; in_closed := in_closed s; sd_called := sd_called s; sd_returned := sd_returned s; pc := Got t; backlog := backlog s; tasksch := tasksch s; tasks_closed := tasks_closed s; ready := ready s; ws := ws s; received := S (received s); processed := processed s; started := started s; finished := finished s; released := released s; handled := handled s; allowed := allowed s; sent := sent s |}
      | [] => if in_closed s then Some (set_pc s (Drain (backlog s))) else None
      end
    | _ => None
    end
  | ADispReady =>
    match ready s with
    | O => None
    | S rd =>
      let s' p bl := {| subs := subs s; inq := inq s; in_closed := in_closed s; sd_called := sd_called s; sd_returned := sd_returned s; pc := p; backlog := bl; tasksch := tasksch s; tasks_closed := tasks_closed s; ready := rd; ws := ws s; received := received s; processed := S (processed s); started := started s; finished := finished s; released := released s; handled := handled s; allowed := allowed s; sent := sent s |} in
      match pc s with
      | Main => Some (s' (match backlog s with [] => Main | _ => SendBack end) (backlog s))
      | WaitFull t => Some (s' (SendFull t) (backlog s))
      | Drain rest => Some (s' (Drain rest) (backlog s))
      | WaitAll => Some (s' WaitAll (backlog s))
      | _ => None
      end
    end
  | ADisp =>
    let room := length (tasksch s) <? W c in
    let mk p bl tk := {| subs := subs s; inq := inq s; in_closed := in_closed s; sd_called := sd_called s; sd_returned := sd_returned s; pc := p; backlog := bl; tasksch := tk; tasks_closed := tasks_closed s; ready := ready s; ws := ws s; received := received s; processed := processed s; started := started s; finished := finished s; released := released s; handled := handled s; allowed := allowed s; sent := sent s |} in
    match pc s with
    | Got t =>
      if match backlog s with [] => room | _ => false end then Some (mk Main (backlog s) (tasksch s ++ [t]))
      else if (depth c <? 0)%Z || (Z.of_nat (length (backlog s)) <? depth c)%Z then Some (mk Main (backlog s ++ [t]) (tasksch s))
      else Some (mk (WaitFull t) (backlog s) (tasksch s))
    | SendFull t =>
      match backlog s with
      | [] => if room then Some (mk Main [] (tasksch s ++ [t])) else None
      | b :: r => if room then Some (mk Main (r ++ [t]) (tasksch s ++ [b])) else None
      end
    | SendBack =>
      match backlog s with
      | [] => Some (mk DPanic [] (tasksch s))
      | b :: r => if room then Some (mk Main r (tasksch s ++ [b])) else None
      end
    | Drain [] => Some (mk WaitAll (backlog s) (tasksch s))
    | Drain (t :: r) => if room then Some (mk (Drain r) (backlog s) (tasksch s ++ [t])) else None
    | WaitAll => if received s =? processed s then Some (mk CloseTasks (backlog s) (tasksch s)) else None
    | CloseTasks => Some {| subs := subs s; inq := inq s; in_closed := in_closed s; sd_called := sd_called s; sd_returned := sd_returned s; pc := SendDone; backlog := backlog s; tasksch := tasksch s; tasks_closed := true; ready := ready s; ws := ws s; received := received s; processed := processed s; started := started s; finished := finished s; released := released s; handled := handled s; allowed := allowed s; sent := sent s |}
    | _ => None
    end
  | AWorker i =>
    let mk w tk rd st fi hd := {| subs := subs s; inq := inq s; in_closed := in_closed s; sd_called := sd_called s; sd_returned := sd_returned s; pc := pc s; backlog := backlog s; tasksch := tk; tasks_closed := tasks_closed s; ready := rd; ws := upd (ws s) i w; received := received s; processed := processed s; started := st; finished := fi; released := released s; handled := hd; allowed := allowed s; sent := sent s |} in
    match nth_error (ws s) i with
    | Some Idle =>
      match tasksch s with
      | t :: r => Some (mk (Running t) r (ready s) (started s ++ [t]) (finished s) (handled s))
      | [] => if tasks_closed s then Some (mk WExit [] (ready s) (started s) (finished s) (handled s)) else None
      end
    | Some (Running t) =>
      if existsb (Nat.eqb t) (released s)
      then Some (mk SendReady (tasksch s) (ready s) (started s) (finished s ++ [t]) (if existsb (Nat.eqb t) (panics c) then handled s ++ [t] else handled s))
      else None
    | Some SendReady => if ready s <? W c then Some (mk Idle (tasksch s) (S (ready s)) (started s) (finished s) (handled s)) else None
    | _ => None
    end
  | ARelease t => Some {| subs := subs s; inq := inq s; in_closed := in_closed s; sd_called := sd_called s; sd_returned := sd_returned s; pc := pc s; backlog := backlog s; tasksch := tasksch s; tasks_closed := tasks_closed s; ready := ready s; ws := ws s; received := received s; processed := processed s; started := started s; finished := finished s; released := t :: released s; handled := handled s; allowed := allowed s; sent := sent s |}
  | AAllow n => Some {| subs := subs s; inq := inq s; in_closed := in_closed s; sd_called := sd_called s; sd_returned := sd_returned s; pc := pc s; backlog := backlog s; tasksch := tasksch s; tasks_closed := tasks_closed s; ready := ready s; ws := ws s; received := received s; processed := processed s; started := started s; finished := finished s; released := released s; handled := handled s; allowed := Nat.max n (allowed s); sent := sent s |}
  end.

Definition all_acts (c : cfg) (s : st) : list act :=
  map ASub (seq 0 (length (subs s))) ++ [AShutdown; ADispIn; ADispReady; ADisp] ++ map AWorker (seq 0 (W c)).
Definition enabled (c : cfg) (s : st) : list act := filter (fun a => match step c s a with Some _ => true | None => false end) (all_acts c s).

(* ---- running to quiescence, for the correspondence check: after every move of the environment the goroutines run until none can
   move (a fixed priority is as good as any other for what is observed afterwards: which Submit calls have returned, which tasks
   have started, finished, been reported to the handler, and whether Shutdown has returned) *)
Definition internal_acts (c : cfg) (s : st) : list act :=
  [ADispReady; ADispIn; ADisp] ++ map AWorker (seq 0 (W c)) ++ map ASub (seq 0 (length (subs s))) ++ (if sd_called s then [AShutdown] else []).
Fixpoint first_step (c : cfg) (s : st) (l : list act) : option st :=
  match l with [] => None | a :: r => match step c s a with Some s' => Some s' | None => first_step c s r end end.
Fixpoint quiesce (fuel : nat) (c : cfg) (s : st) : st :=
  match fuel with O => s | S f => match first_step c s (internal_acts c s) with Some s' => quiesce f c s' | None => s end end.

Inductive sop := SAllow (n : nat) | SRel (t : task) | SShutdown.
Record obs := { o_submitted : nat; o_started : list task; o_finished : list task; o_handled : list task; o_shutdown : bool; o_panic : bool; o_skipped : bool }.
Definition observe (total : nat) (s : st) (skipped : bool) : obs :=
  {| o_submitted := total - length (concat (subs s)); o_started := started s; o_finished := finished s; o_handled := handled s;
     o_shutdown := sd_returned s; o_panic := match pc s with DPanic => true | _ => false end; o_skipped := skipped |}.
Definition QFUEL := 4000.
Fixpoint run_script (c : cfg) (total : nat) (s : st) (ops : list sop) : list obs :=
  match ops with
  | [] => []
  | o :: rest =>
    let '(s1, skipped) :=
      match o with
      | SAllow n => (match step c s (AAllow n) with Some s' => s' | None => s end, false)
      | SRel t => (match step c s (ARelease t) with Some s' => s' | None => s end, false)
      | SShutdown => if sd_called s then (s, true) else match step c s AShutdown with Some s' => (s', false) | None => (s, true) end
      end in
    let s2 := quiesce QFUEL c s1 in
    observe total s2 skipped :: run_script c total s2 rest
  end.
Definition start_script (c : cfg) (total : nat) : st := quiesce QFUEL c (init c [seq 0 total]).
